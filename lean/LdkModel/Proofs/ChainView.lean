/- Helper lemmas for the C11 theorems about Model/ChainView.lean: the reachable-state invariant `Inv`
   (every entry the monitor holds is an entry of the chain whose transaction has been announced,
   nothing awaiting has reached its threshold, everything matured had reached it at the high-water
   mark), its preservation by connecting ops and by rewinds shallower than ANTI_REORG_DELAY, and the
   admissibility of the concrete delivery styles.  Core only. -/
import LdkModel.Model.ChainView
namespace Ldk.ChainView
open Ldk

/-! ### thresholds -/

theorem reached_iff (b : Nat) (e : Entry) : e.reached b = true ↔ e.threshold ≤ b := by
  simp [Entry.reached, Entry.threshold, hasReachedConfirmationThreshold]

theorem reached_false_iff (b : Nat) (e : Entry) : e.reached b = false ↔ b < e.threshold := by
  rw [← Bool.not_eq_true, reached_iff]; omega

theorem reached_mono {b b' : Nat} {e : Entry} (h : e.reached b = true) (hb : b ≤ b') :
    e.reached b' = true := by
  rw [reached_iff] at *; omega

theorem threshold_ge (h : Nat) (csv : Option Nat) :
    h + ANTI_REORG_DELAY ≤ confirmationThreshold h csv + 1 := by
  have : ANTI_REORG_DELAY = 6 := rfl
  unfold confirmationThreshold
  cases csv with
  | none => simp only; omega
  | some v => simp only [Nat.max_def]; split <;> omega

theorem Entry.threshold_ge (e : Entry) : e.height + ANTI_REORG_DELAY ≤ e.threshold + 1 :=
  Ldk.ChainView.threshold_ge e.height e.ev.csv

/-! ### chains -/

theorem mem_chainEntries {cat : Catalog} {c : Chain} {e : Entry} :
    e ∈ chainEntries cat c ↔ inChain c e.height e.txid ∧ e.ev ∈ cat e.txid := by
  unfold chainEntries inChain
  simp only [List.mem_flatMap, List.mem_map]
  constructor
  · rintro ⟨b, hb, t, ht, ev, hev, rfl⟩
    exact ⟨⟨b, hb, rfl, ht⟩, hev⟩
  · rintro ⟨⟨b, hb, hh, ht⟩, hev⟩
    refine ⟨b, hb, e.txid, ht, e.ev, hev, ?_⟩
    cases e; simp_all

theorem inChain_truncate {c : Chain} {k h t : Nat} :
    inChain (truncate c k) h t ↔ inChain c h t ∧ h ≤ k := by
  unfold inChain truncate
  simp only [List.mem_filter, decide_eq_true_eq]
  constructor
  · rintro ⟨b, ⟨hb, hk⟩, hh, ht⟩; exact ⟨⟨b, hb, hh, ht⟩, by omega⟩
  · rintro ⟨⟨b, hb, hh, ht⟩, hk⟩; exact ⟨b, ⟨hb, by omega⟩, hh, ht⟩

theorem mem_chainEntries_truncate {cat : Catalog} {c : Chain} {k : Nat} {e : Entry} :
    e ∈ chainEntries cat (truncate c k) ↔ e ∈ chainEntries cat c ∧ e.height ≤ k := by
  simp only [mem_chainEntries, inChain_truncate]
  constructor
  · rintro ⟨⟨a, b⟩, d⟩; exact ⟨⟨a, d⟩, b⟩
  · rintro ⟨⟨a, d⟩, b⟩; exact ⟨⟨a, b⟩, d⟩

theorem WF_truncate {c : Chain} (k : Nat) (h : WF c) : WF (truncate c k) := by
  intro h₁ h₂ t a b
  exact h h₁ h₂ t (inChain_truncate.1 a).1 (inChain_truncate.1 b).1

theorem foldl_max_ge (l : Chain) (m : Nat) : m ≤ l.foldl (fun m b => max m b.height) m := by
  induction l generalizing m with
  | nil => simp
  | cons b r ih => simp only [List.foldl_cons]; exact Nat.le_trans (Nat.le_max_left _ _) (ih _)

theorem foldl_max_mono (l : Chain) {m m' : Nat} (h : m ≤ m') :
    l.foldl (fun m b => max m b.height) m ≤ l.foldl (fun m b => max m b.height) m' := by
  induction l generalizing m m' with
  | nil => simpa
  | cons b r ih => simp only [List.foldl_cons]; apply ih; omega

theorem le_tip_base (b0 : Nat) (c : Chain) : b0 ≤ tip b0 c := foldl_max_ge c b0

theorem le_tip {b0 : Nat} {c : Chain} {b : Block} (hb : b ∈ c) : b.height ≤ tip b0 c := by
  unfold tip
  induction c generalizing b0 with
  | nil => cases hb
  | cons x r ih =>
    simp only [List.foldl_cons]
    cases hb with
    | head => exact Nat.le_trans (Nat.le_max_right _ _) (foldl_max_ge r _)
    | tail _ h => exact ih h

theorem inChain_le_tip {b0 : Nat} {c : Chain} {h t : Nat} (hin : inChain c h t) : h ≤ tip b0 c := by
  obtain ⟨b, hb, hh, _⟩ := hin
  exact hh ▸ le_tip hb

/-! ### the pieces of a step -/

theorem known_iff {s : St} {t : Nat} :
    known s t = true ↔ ∃ e, (e ∈ s.awaiting ∨ e ∈ s.matured) ∧ e.txid = t := by
  simp only [known, Bool.or_eq_true, List.any_eq_true, beq_iff_eq]
  constructor
  · rintro (⟨e, he, h⟩ | ⟨e, he, h⟩)
    · exact ⟨e, Or.inl he, h⟩
    · exact ⟨e, Or.inr he, h⟩
  · rintro ⟨e, he | he, h⟩
    · exact Or.inl ⟨e, he, h⟩
    · exact Or.inr ⟨e, he, h⟩

@[simp] theorem addTx_best (cat : Catalog) (h : Nat) (s : St) (t : Nat) : (addTx cat h s t).best = s.best := by
  unfold addTx; split <;> rfl

@[simp] theorem addTx_matured (cat : Catalog) (h : Nat) (s : St) (t : Nat) :
    (addTx cat h s t).matured = s.matured := by
  unfold addTx; split <;> rfl

theorem mem_addTx_awaiting {cat : Catalog} {h : Nat} {s : St} {t : Nat} {e : Entry} :
    e ∈ (addTx cat h s t).awaiting ↔
      e ∈ s.awaiting ∨ (known s t = false ∧ e.txid = t ∧ e.height = h ∧ e.ev ∈ cat t) := by
  unfold addTx
  split
  · rename_i hk; simp [hk]
  · rename_i hk
    simp only [List.mem_append, List.mem_map]
    constructor
    · rintro (h1 | ⟨ev, hev, rfl⟩)
      · exact Or.inl h1
      · exact Or.inr ⟨by simpa using hk, rfl, rfl, hev⟩
    · rintro (h1 | ⟨_, h2, h3, h4⟩)
      · exact Or.inl h1
      · refine Or.inr ⟨e.ev, h2 ▸ h4, ?_⟩
        cases e; simp_all

@[simp] theorem addTxs_best (cat : Catalog) (h : Nat) (txs : List Nat) (s : St) :
    (txs.foldl (addTx cat h) s).best = s.best := by
  induction txs generalizing s with
  | nil => rfl
  | cons t r ih => simp [List.foldl_cons, ih]

@[simp] theorem addTxs_matured (cat : Catalog) (h : Nat) (txs : List Nat) (s : St) :
    (txs.foldl (addTx cat h) s).matured = s.matured := by
  induction txs generalizing s with
  | nil => rfl
  | cons t r ih => simp [List.foldl_cons, ih]

theorem addTxs_awaiting_height {cat : Catalog} {h : Nat} {txs : List Nat} {s : St} {e : Entry}
    (he : e ∈ (txs.foldl (addTx cat h) s).awaiting) : e ∈ s.awaiting ∨ e.height = h := by
  induction txs generalizing s with
  | nil => exact Or.inl he
  | cons t r ih =>
    simp only [List.foldl_cons] at he
    cases ih he with
    | inl h1 =>
      cases mem_addTx_awaiting.1 h1 with
      | inl h2 => exact Or.inl h2
      | inr h2 => exact Or.inr h2.2.2.1
    | inr h1 => exact Or.inr h1

@[simp] theorem mature_best (s : St) : (mature s).best = s.best := rfl

theorem mem_mature_awaiting {s : St} {e : Entry} :
    e ∈ (mature s).awaiting ↔ e ∈ s.awaiting ∧ e.reached s.best = false := by
  simp [mature, List.mem_filter]

theorem mem_mature_matured {s : St} {e : Entry} :
    e ∈ (mature s).matured ↔ e ∈ s.matured ∨ (e ∈ s.awaiting ∧ e.reached s.best = true) := by
  simp [mature, List.mem_filter]

theorem txsConfirmed_best (cat : Catalog) (s : St) (h : Nat) (txs : List Nat) :
    (txsConfirmed cat s h txs).best = max s.best h := by
  simp [txsConfirmed]

/-! ### the invariant -/

/-- membership part: what the monitor holds = the chain's entries of the announced transactions -/
def MemInv (cat : Catalog) (c : Chain) (T : Nat → Prop) (s : St) : Prop :=
  ∀ e, (e ∈ s.awaiting ∨ e ∈ s.matured) ↔ (e ∈ chainEntries cat c ∧ T e.txid)

theorem MemInv.congr {cat : Catalog} {c : Chain} {T T' : Nat → Prop} {s : St}
    (h : ∀ x, T x ↔ T' x) (hm : MemInv cat c T s) : MemInv cat c T' s := by
  intro e; rw [hm e, h]

theorem addTx_memInv {cat : Catalog} {c : Chain} {T : Nat → Prop} {s : St} {h t : Nat}
    (hwf : WF c) (hin : inChain c h t) (hm : MemInv cat c T s) :
    MemInv cat c (fun x => T x ∨ x = t) (addTx cat h s t) := by
  intro e
  simp only [addTx_matured, mem_addTx_awaiting]
  cases hk : known s t with
  | true =>
    obtain ⟨e0, he0, ht0⟩ := known_iff.1 hk
    have hT : T t := ht0 ▸ ((hm e0).1 he0).2
    constructor
    · rintro ((h1 | ⟨h2, _⟩) | h1)
      · exact ⟨((hm e).1 (Or.inl h1)).1, Or.inl ((hm e).1 (Or.inl h1)).2⟩
      · cases h2
      · exact ⟨((hm e).1 (Or.inr h1)).1, Or.inl ((hm e).1 (Or.inr h1)).2⟩
    · rintro ⟨h1, h2 | h2⟩
      · cases (hm e).2 ⟨h1, h2⟩ with
        | inl h3 => exact Or.inl (Or.inl h3)
        | inr h3 => exact Or.inr h3
      · cases (hm e).2 ⟨h1, h2 ▸ hT⟩ with
        | inl h3 => exact Or.inl (Or.inl h3)
        | inr h3 => exact Or.inr h3
  | false =>
    constructor
    · rintro ((h1 | ⟨_, h2, h3, h4⟩) | h1)
      · exact ⟨((hm e).1 (Or.inl h1)).1, Or.inl ((hm e).1 (Or.inl h1)).2⟩
      · exact ⟨mem_chainEntries.2 ⟨h3 ▸ h2 ▸ hin, h2 ▸ h4⟩, Or.inr h2⟩
      · exact ⟨((hm e).1 (Or.inr h1)).1, Or.inl ((hm e).1 (Or.inr h1)).2⟩
    · rintro ⟨h1, h2 | h2⟩
      · cases (hm e).2 ⟨h1, h2⟩ with
        | inl h3 => exact Or.inl (Or.inl h3)
        | inr h3 => exact Or.inr h3
      · obtain ⟨h3, h4⟩ := mem_chainEntries.1 h1
        have : e.height = h := hwf _ _ _ h3 (h2 ▸ hin)
        exact Or.inl (Or.inr ⟨rfl, h2, this, h2 ▸ h4⟩)

theorem addTxs_memInv {cat : Catalog} {c : Chain} {h : Nat} (hwf : WF c) :
    ∀ (txs : List Nat) (T : Nat → Prop) (s : St), (∀ t ∈ txs, inChain c h t) → MemInv cat c T s →
      MemInv cat c (fun x => T x ∨ x ∈ txs) (txs.foldl (addTx cat h) s) := by
  intro txs
  induction txs with
  | nil => intro T s _ hm; exact hm.congr (by simp)
  | cons t r ih =>
    intro T s hin hm
    simp only [List.foldl_cons]
    have h1 := addTx_memInv hwf (hin t (by simp)) hm
    have h2 := ih _ _ (fun x hx => hin x (by simp [hx])) h1
    exact h2.congr (by intro x; simp only [List.mem_cons, or_assoc])

/-- The reachable-state invariant relative to the chain `c` currently being presented, the set `T`
    of announced transactions and the high-water mark `m` of the best height. -/
structure Inv (cat : Catalog) (c : Chain) (T : Nat → Prop) (m : Nat) (s : St) : Prop where
  best_le : s.best ≤ m
  mem : MemInv cat c T s
  aw : ∀ e ∈ s.awaiting, e.reached s.best = false
  mat : ∀ e ∈ s.matured, e.reached m = true
  hle : ∀ e ∈ s.awaiting, e.height ≤ s.best

theorem Inv.congr {cat : Catalog} {c : Chain} {T T' : Nat → Prop} {m : Nat} {s : St}
    (h : ∀ x, T x ↔ T' x) (hI : Inv cat c T m s) : Inv cat c T' m s :=
  { hI with mem := hI.mem.congr h }

theorem init_inv (cat : Catalog) (c : Chain) (b0 : Nat) : Inv cat c (fun _ => False) b0 (init b0) where
  best_le := Nat.le_refl _
  mem := by intro e; simp [init]
  aw := by intro e he; cases he
  mat := by intro e he; cases he
  hle := by intro e he; cases he

/-- `mature` after raising (or keeping) the best height re-establishes the invariant -/
theorem mature_inv {cat : Catalog} {c : Chain} {T : Nat → Prop} {m : Nat} {s : St} {b : Nat}
    (_hb : s.best ≤ b) (hmem : MemInv cat c T s) (hmat : ∀ e ∈ s.matured, e.reached m = true)
    (hh : ∀ e ∈ s.awaiting, e.height ≤ b) :
    Inv cat c T (max m b) (mature { s with best := b }) where
  best_le := by simp only [mature_best]; omega
  mem := by
    intro e
    rw [← hmem e]
    simp only [mem_mature_awaiting, mem_mature_matured]
    cases hr : e.reached b <;> simp
    exact Or.comm
  aw := by
    intro e he
    exact (mem_mature_awaiting.1 he).2
  mat := by
    intro e he
    cases mem_mature_matured.1 he with
    | inl h1 => exact reached_mono (hmat e h1) (Nat.le_max_left _ _)
    | inr h1 => exact reached_mono h1.2 (Nat.le_max_right _ _)
  hle := by
    intro e he
    exact hh e (mem_mature_awaiting.1 he).1

theorem txsConfirmed_inv {cat : Catalog} {c : Chain} {T : Nat → Prop} {m : Nat} {s : St} {h : Nat}
    {txs : List Nat} (hwf : WF c) (hin : ∀ t ∈ txs, inChain c h t) (hI : Inv cat c T m s) :
    Inv cat c (fun x => T x ∨ x ∈ txs) (max m h) (txsConfirmed cat s h txs) := by
  have hm := addTxs_memInv (cat := cat) hwf txs T s hin hI.mem
  have := mature_inv (cat := cat) (c := c) (T := fun x => T x ∨ x ∈ txs) (m := m)
    (s := txs.foldl (addTx cat h) s) (b := max s.best h) (by simp; omega) hm
    (by simpa using hI.mat)
    (by
      intro e he
      cases addTxs_awaiting_height he with
      | inl h1 => exact Nat.le_trans (hI.hle e h1) (Nat.le_max_left _ _)
      | inr h1 => omega)
  have hb := hI.best_le
  have e1 : max m (max s.best h) = max m h := by omega
  rw [e1] at this
  simpa [txsConfirmed] using this

theorem bestBlock_up_inv {cat : Catalog} {c : Chain} {T : Nat → Prop} {m : Nat} {s : St} {h : Nat}
    (hh : s.best < h) (hI : Inv cat c T m s) : Inv cat c T (max m h) (bestBlock s h) := by
  have := mature_inv (cat := cat) (c := c) (T := T) (m := m) (s := s) (b := h) (by omega) hI.mem hI.mat
    (fun e he => Nat.le_trans (hI.hle e he) (by omega))
  simpa [bestBlock, hh] using this

theorem rewindTo_self {s : St} (hle : ∀ e ∈ s.awaiting, e.height ≤ s.best) : rewindTo s s.best = s := by
  unfold rewindTo
  have : s.awaiting.filter (fun e => decide (e.height ≤ s.best)) = s.awaiting :=
    List.filter_eq_self.2 (by intro e he; simpa using hle e he)
  rw [this]

theorem bestBlock_same {s : St} (hle : ∀ e ∈ s.awaiting, e.height ≤ s.best) : bestBlock s s.best = s := by
  simp [bestBlock, rewindTo_self hle]

/-- the effect of `rewindTo h` (blocks_disconnected / re-org branch of best_block_updated) when
    the high-water mark is less than ANTI_REORG_DELAY above `h`: the state is an `Inv`-state of the
    truncated chain -/
theorem rewindTo_inv {cat : Catalog} {c : Chain} {T : Nat → Prop} {m : Nat} {s : St} {h : Nat}
    (hh : h ≤ s.best) (hd : m < h + ANTI_REORG_DELAY) (hI : Inv cat c T m s) :
    Inv cat (truncate c h) T m (rewindTo s h) where
  best_le := by have := hI.best_le; simp only [rewindTo]; omega
  mem := by
    intro e
    simp only [rewindTo, List.mem_filter, decide_eq_true_eq, mem_chainEntries_truncate]
    constructor
    · rintro (⟨h1, h2⟩ | h1)
      · exact ⟨⟨((hI.mem e).1 (Or.inl h1)).1, h2⟩, ((hI.mem e).1 (Or.inl h1)).2⟩
      · have h3 := (reached_iff _ _).1 (hI.mat e h1)
        have h4 := e.threshold_ge
        exact ⟨⟨((hI.mem e).1 (Or.inr h1)).1, by omega⟩, ((hI.mem e).1 (Or.inr h1)).2⟩
    · rintro ⟨⟨h1, h2⟩, h3⟩
      cases (hI.mem e).2 ⟨h1, h3⟩ with
      | inl h4 => exact Or.inl ⟨h4, h2⟩
      | inr h4 => exact Or.inr h4
  aw := by
    intro e he
    simp only [rewindTo, List.mem_filter] at he
    have := (reached_false_iff _ _).1 (hI.aw e he.1)
    simp only [rewindTo]
    rw [reached_false_iff]; omega
  mat := hI.mat
  hle := by
    intro e he
    simp only [rewindTo, List.mem_filter, decide_eq_true_eq] at he
    exact he.2

/-- re-basing on another chain that agrees with `c` up to `h` -/
theorem Inv.rebase {cat : Catalog} {c c' : Chain} {T : Nat → Prop} {m : Nat} {s : St} {h : Nat}
    (hwf : WF c') (hagree : ∀ k t, k ≤ h → (inChain c' k t ↔ inChain c k t))
    (hI : Inv cat (truncate c h) T m s) :
    Inv cat c' (fun t => T t ∧ ∃ k, k ≤ h ∧ inChain c k t) m s where
  best_le := hI.best_le
  mem := by
    intro e
    rw [hI.mem e, mem_chainEntries_truncate, mem_chainEntries, mem_chainEntries]
    constructor
    · rintro ⟨⟨⟨h1, h2⟩, h3⟩, h4⟩
      exact ⟨⟨(hagree _ _ h3).2 h1, h2⟩, h4, e.height, h3, h1⟩
    · rintro ⟨⟨h1, h2⟩, h4, k, hk, h5⟩
      have : e.height = k := hwf _ _ _ h1 ((hagree _ _ hk).2 h5)
      subst this
      exact ⟨⟨⟨h5, h2⟩, hk⟩, h4⟩
  aw := hI.aw
  mat := hI.mat
  hle := hI.hle

/-! ### runs -/

theorem run_append (cat : Catalog) (s : St) (l₁ l₂ : List Op) :
    run cat s (l₁ ++ l₂) = run cat (run cat s l₁) l₂ := by
  simp [run, List.foldl_append]

theorem run_cons (cat : Catalog) (s : St) (o : Op) (l : List Op) :
    run cat s (o :: l) = run cat (step cat s o) l := rfl

/-- connecting ops keep the invariant; the announced set grows by `delivered`, the high-water mark
    becomes `max m (topHeight …)` -/
theorem run_inv {cat : Catalog} {c : Chain} (hwf : WF c) :
    ∀ (ops : List Op) (s : St) (T : Nat → Prop) (m : Nat), Adm c s.best ops → Inv cat c T m s →
      Inv cat c (fun x => T x ∨ x ∈ delivered ops) (max m (topHeight s.best ops)) (run cat s ops) ∧
      (run cat s ops).best = topHeight s.best ops := by
  intro ops
  induction ops with
  | nil =>
    intro s T m _ hI
    have := hI.best_le
    refine ⟨?_, rfl⟩
    simp only [run, List.foldl_nil, topHeight, delivered]
    rw [Nat.max_eq_left this]
    exact hI.congr (by simp)
  | cons o r ih =>
    intro s T m ha hI
    cases ha with
    | block b h txs _ hin hr =>
      have h1 := txsConfirmed_inv (cat := cat) hwf hin hI
      have hb := txsConfirmed_best cat s h txs
      obtain ⟨i1, i2⟩ := ih (txsConfirmed cat s h txs) _ _ (hb ▸ hr) h1
      rw [run_cons]; simp only [step, topHeight, delivered]
      rw [hb] at i1 i2
      refine ⟨?_, i2⟩
      have hm : max (max m h) (topHeight (max s.best h) r) = max m (topHeight (max s.best h) r) := by
        have : max s.best h ≤ topHeight (max s.best h) r := by
          clear i1 i2 hr ih; generalize max s.best h = q
          induction r generalizing q with
          | nil => simp [topHeight]
          | cons o r ih => cases o <;> simp only [topHeight] <;> first | exact Nat.le_trans (Nat.le_max_left _ _) (ih _) | exact ih _
        omega
      rw [hm] at i1
      exact i1.congr (by intro x; simp only [List.mem_append, or_assoc])
    | conf b h txs _ hin hr =>
      have h1 := txsConfirmed_inv (cat := cat) hwf hin hI
      have hb := txsConfirmed_best cat s h txs
      obtain ⟨i1, i2⟩ := ih (txsConfirmed cat s h txs) _ _ (hb ▸ hr) h1
      rw [run_cons]; simp only [step, topHeight, delivered]
      rw [hb] at i1 i2
      refine ⟨?_, i2⟩
      have hm : max (max m h) (topHeight (max s.best h) r) = max m (topHeight (max s.best h) r) := by
        have : max s.best h ≤ topHeight (max s.best h) r := by
          clear i1 i2 hr ih; generalize max s.best h = q
          induction r generalizing q with
          | nil => simp [topHeight]
          | cons o r ih => cases o <;> simp only [topHeight] <;> first | exact Nat.le_trans (Nat.le_max_left _ _) (ih _) | exact ih _
        omega
      rw [hm] at i1
      exact i1.congr (by intro x; simp only [List.mem_append, or_assoc])
    | best b h _ hle hr =>
      rw [run_cons]; simp only [step, topHeight, delivered]
      have hmax : max s.best h = h := by omega
      rw [hmax]
      rcases Nat.lt_or_eq_of_le hle with hlt | heq
      · have h1 := bestBlock_up_inv (cat := cat) hlt hI
        have hb : (bestBlock s h).best = h := by simp [bestBlock, hlt]
        obtain ⟨i1, i2⟩ := ih (bestBlock s h) _ _ (by rw [hb]; exact hr) h1
        rw [hb] at i1 i2
        refine ⟨?_, i2⟩
        have hm : max (max m h) (topHeight h r) = max m (topHeight h r) := by
          have : h ≤ topHeight h r := by
            clear i1 i2 hr ih hb h1 hmax hlt hle
            generalize h = q
            induction r generalizing q with
            | nil => simp [topHeight]
            | cons o r ih => cases o <;> simp only [topHeight] <;> first | exact Nat.le_trans (Nat.le_max_left _ _) (ih _) | exact ih _
          omega
        rw [hm] at i1
        exact i1
      · subst heq
        rw [bestBlock_same hI.hle]
        exact ih s T m hr hI

theorem le_topHeight (b : Nat) (ops : List Op) : b ≤ topHeight b ops := by
  induction ops generalizing b with
  | nil => simp [topHeight]
  | cons o r ih =>
    cases o <;> simp only [topHeight] <;>
      first | exact Nat.le_trans (Nat.le_max_left _ _) (ih _) | exact ih _

/-! ### from the invariant to the canonical conclusion -/

theorem tip_le {b0 k : Nat} {c : Chain} (hb : b0 ≤ k) (hc : ∀ b ∈ c, b.height ≤ k) : tip b0 c ≤ k := by
  unfold tip
  induction c generalizing b0 with
  | nil => simpa
  | cons x r ih =>
    simp only [List.foldl_cons]
    apply ih
    · have := hc x (by simp); omega
    · intro b hb'; exact hc b (by simp [hb'])

theorem tip_truncate {b0 h : Nat} {c : Chain} (hb : b0 ≤ h) (hblk : h = b0 ∨ ∃ b ∈ c, b.height = h) :
    tip b0 (truncate c h) = h := by
  apply Nat.le_antisymm
  · apply tip_le hb
    intro b hb'
    simp only [truncate, List.mem_filter, decide_eq_true_eq] at hb'
    exact hb'.2
  · rcases hblk with rfl | ⟨b, hb', rfl⟩
    · exact le_tip_base _ _
    · apply le_tip
      simp only [truncate, List.mem_filter, decide_eq_true_eq]
      exact ⟨hb', Nat.le_refl _⟩

theorem Inv.equiv_canon {cat : Catalog} {c : Chain} {T : Nat → Prop} {s : St} {b0 : Nat}
    (hI : Inv cat c T (tip b0 c) s) (hb : s.best = tip b0 c) (hT : ∀ h t, inChain c h t → T t) :
    Equiv s (canon cat b0 c) := by
  refine ⟨hb, fun e => ?_, fun e => ?_⟩
  · simp only [canon, List.mem_filter, Bool.not_eq_eq_eq_not, Bool.not_true]
    constructor
    · intro he
      exact ⟨((hI.mem e).1 (Or.inl he)).1, hb ▸ hI.aw e he⟩
    · rintro ⟨hc, hr⟩
      cases (hI.mem e).2 ⟨hc, hT _ _ (mem_chainEntries.1 hc).1⟩ with
      | inl h1 => exact h1
      | inr h1 => have := hI.mat e h1; simp_all
  · simp only [canon, List.mem_filter]
    constructor
    · intro he
      exact ⟨((hI.mem e).1 (Or.inr he)).1, hI.mat e he⟩
    · rintro ⟨hc, hr⟩
      cases (hI.mem e).2 ⟨hc, hT _ _ (mem_chainEntries.1 hc).1⟩ with
      | inl h1 => have := hI.aw e h1; rw [hb] at this; simp_all
      | inr h1 => exact h1

/-- what an admissible fork-free presentation leads to -/
theorem presents_inv {cat : Catalog} {c : Chain} {b0 : Nat} {ops : List Op} (hwf : WF c)
    (hp : Presents b0 c ops) :
    Inv cat c (fun x => x ∈ delivered ops) (tip b0 c) (run cat (init b0) ops) ∧
      (run cat (init b0) ops).best = tip b0 c := by
  obtain ⟨i1, i2⟩ := run_inv (cat := cat) hwf ops (init b0) _ b0 hp.adm (init_inv cat c b0)
  have e0 : (init b0).best = b0 := rfl
  rw [e0, hp.reaches] at i1 i2
  rw [Nat.max_eq_right (le_tip_base b0 c)] at i1
  exact ⟨i1.congr (by simp), i2⟩

theorem presents_canon {cat : Catalog} {c : Chain} {b0 : Nat} {ops : List Op} (hwf : WF c)
    (hp : Presents b0 c ops) : Equiv (run cat (init b0) ops) (canon cat b0 c) := by
  obtain ⟨i1, i2⟩ := presents_inv (cat := cat) hwf hp
  exact i1.equiv_canon i2 hp.complete

theorem Equiv.symm {a b : St} (h : Equiv a b) : Equiv b a :=
  ⟨h.1.symm, fun e => (h.2.1 e).symm, fun e => (h.2.2 e).symm⟩

theorem Equiv.trans {a b c : St} (h₁ : Equiv a b) (h₂ : Equiv b c) : Equiv a c :=
  ⟨h₁.1.trans h₂.1, fun e => (h₁.2.1 e).trans (h₂.2.1 e), fun e => (h₁.2.2 e).trans (h₂.2.2 e)⟩

/-! ### maturity only when buried -/

theorem step_matured_reached (cat : Catalog) (s : St) (op : Op) (e : Entry)
    (he : e ∈ (step cat s op).matured) (hn : e ∉ s.matured) : e.reached (step cat s op).best = true := by
  cases op with
  | blockConnected h txs =>
    simp only [step, txsConfirmed] at he ⊢
    rcases mem_mature_matured.1 he with h1 | h1
    · simp at h1; exact absurd h1 hn
    · exact h1.2
  | txsConfirmed h txs =>
    simp only [step, txsConfirmed] at he ⊢
    rcases mem_mature_matured.1 he with h1 | h1
    · simp at h1; exact absurd h1 hn
    · exact h1.2
  | bestBlock h =>
    simp only [step, bestBlock] at he ⊢
    split at he
    · rename_i hh
      simp only [hh, if_true]
      rcases mem_mature_matured.1 he with h1 | h1
      · exact absurd h1 hn
      · exact h1.2
    · exact absurd he hn
  | blocksDisconnected h =>
    simp only [step, blocksDisconnected] at he
    split at he <;> exact absurd he hn
  | txUnconfirmed t =>
    simp only [step, txUnconfirmed] at he
    split at he <;> exact absurd he hn

/-! ### re-delivery -/

theorem known_mature (s : St) (t : Nat) : known (mature s) t = known s t := by
  rw [Bool.eq_iff_iff, known_iff, known_iff]
  constructor
  · rintro ⟨e, he | he, h⟩
    · exact ⟨e, Or.inl (mem_mature_awaiting.1 he).1, h⟩
    · rcases mem_mature_matured.1 he with h1 | h1
      · exact ⟨e, Or.inr h1, h⟩
      · exact ⟨e, Or.inl h1.1, h⟩
  · rintro ⟨e, he | he, h⟩
    · cases hr : e.reached s.best with
      | true => exact ⟨e, Or.inr (mem_mature_matured.2 (Or.inr ⟨he, hr⟩)), h⟩
      | false => exact ⟨e, Or.inl (mem_mature_awaiting.2 ⟨he, hr⟩), h⟩
    · exact ⟨e, Or.inr (mem_mature_matured.2 (Or.inl he)), h⟩

theorem known_addTx_mono {cat : Catalog} {h : Nat} {s : St} {x t : Nat} (hk : known s t = true) :
    known (addTx cat h s x) t = true := by
  obtain ⟨e, he, ht⟩ := known_iff.1 hk
  apply known_iff.2
  refine ⟨e, ?_, ht⟩
  rcases he with he | he
  · exact Or.inl (mem_addTx_awaiting.2 (Or.inl he))
  · exact Or.inr (by simpa using he)

theorem known_addTxs_mono {cat : Catalog} {h : Nat} {txs : List Nat} {s : St} {t : Nat}
    (hk : known s t = true) : known (txs.foldl (addTx cat h) s) t = true := by
  induction txs generalizing s with
  | nil => exact hk
  | cons x r ih => exact ih (known_addTx_mono hk)

theorem known_after_addTx (cat : Catalog) (h : Nat) (s : St) (t : Nat) :
    known (addTx cat h s t) t = true ∨ cat t = [] := by
  cases hk : known s t with
  | true => exact Or.inl (known_addTx_mono hk)
  | false =>
    cases hc : cat t with
    | nil => exact Or.inr rfl
    | cons ev r =>
      left
      apply known_iff.2
      exact ⟨{ txid := t, height := h, ev := ev }, Or.inl (mem_addTx_awaiting.2 (Or.inr ⟨hk, rfl, rfl, by simp [hc]⟩)), rfl⟩

theorem known_after_addTxs (cat : Catalog) (h : Nat) (txs : List Nat) (s : St) (t : Nat) (ht : t ∈ txs) :
    known (txs.foldl (addTx cat h) s) t = true ∨ cat t = [] := by
  induction txs generalizing s with
  | nil => cases ht
  | cons x r ih =>
    simp only [List.foldl_cons]
    rcases List.mem_cons.1 ht with rfl | h1
    · rcases known_after_addTx cat h s t with h2 | h2
      · exact Or.inl (known_addTxs_mono h2)
      · exact Or.inr h2
    · exact ih _ h1

theorem addTx_noop {cat : Catalog} {h : Nat} {s : St} {t : Nat} (hk : known s t = true ∨ cat t = []) :
    addTx cat h s t = s := by
  unfold addTx
  split
  · rfl
  · rcases hk with hk | hk
    · simp_all
    · cases s; simp [hk]

theorem addTxs_noop {cat : Catalog} {h : Nat} {txs : List Nat} {s : St}
    (hk : ∀ t ∈ txs, known s t = true ∨ cat t = []) : txs.foldl (addTx cat h) s = s := by
  induction txs with
  | nil => rfl
  | cons x r ih =>
    simp only [List.foldl_cons]
    rw [addTx_noop (hk x (by simp))]
    exact ih (fun t ht => hk t (by simp [ht]))

/-- a settled state (nothing awaiting has reached its threshold) is a fixed point of `mature` -/
theorem mature_settled {s : St} (h : ∀ e ∈ s.awaiting, e.reached s.best = false) : mature s = s := by
  have h1 : s.awaiting.filter (fun e => !e.reached s.best) = s.awaiting :=
    List.filter_eq_self.2 (by intro e he; simp [h e he])
  have h2 : s.awaiting.filter (fun e => e.reached s.best) = [] :=
    List.filter_eq_nil_iff.2 (by intro e he; simp [h e he])
  unfold mature
  rw [h1, h2]; simp

theorem mature_mature (s : St) : mature (mature s) = mature s :=
  mature_settled (s := mature s) (fun _ he => (mem_mature_awaiting.1 he).2)

/-- re-announcing transactions that are all already known (or produce nothing), at a height not
    above the best one, changes nothing in a settled state -/
theorem txsConfirmed_noop {cat : Catalog} {s : St} {h : Nat} {txs : List Nat}
    (hk : ∀ t ∈ txs, known s t = true ∨ cat t = []) (hh : h ≤ s.best)
    (hs : ∀ e ∈ s.awaiting, e.reached s.best = false) : txsConfirmed cat s h txs = s := by
  unfold txsConfirmed
  simp only [addTxs_noop hk, Nat.max_eq_left hh]
  exact mature_settled hs

/-! ### the concrete delivery styles are admissible -/

theorem Adm.mono {c : Chain} {b b' : Nat} {ops : List Op} (h : b' ≤ b) (ha : Adm c b ops) : Adm c b' ops := by
  induction ha generalizing b' with
  | nil _ => exact Adm.nil _
  | block b h' txs r hin _ ih => exact Adm.block _ _ _ _ hin (ih (by omega))
  | conf b h' txs r hin _ ih => exact Adm.conf _ _ _ _ hin (ih (by omega))
  | best b h' r hle hr _ => exact Adm.best _ _ _ (by omega) hr

theorem adm_replicate_block {c : Chain} {h cur : Nat} {txs : List Nat} {rest : List Op}
    (hin : ∀ t ∈ txs, inChain c h t) (hc : cur ≤ h) (hr : Adm c h rest) (n : Nat) :
    Adm c cur (List.replicate n (Op.blockConnected h txs) ++ rest) := by
  induction n generalizing cur with
  | zero => simpa using hr.mono hc
  | succ n ih =>
    simp only [List.replicate_succ, List.cons_append]
    exact Adm.block _ _ _ _ hin (ih (by omega))

theorem adm_replicate_conf {c : Chain} {h cur : Nat} {txs : List Nat} {rest : List Op}
    (hin : ∀ t ∈ txs, inChain c h t) (hc : cur ≤ h) (hr : Adm c h rest) (n : Nat) :
    Adm c cur (List.replicate n (Op.txsConfirmed h txs) ++ rest) := by
  induction n generalizing cur with
  | zero => simpa using hr.mono hc
  | succ n ih =>
    simp only [List.replicate_succ, List.cons_append]
    exact Adm.conf _ _ _ _ hin (ih (by omega))

theorem adm_replicate_best {c : Chain} {h cur : Nat} {rest : List Op}
    (hc : cur ≤ h) (hr : Adm c h rest) (n : Nat) :
    Adm c cur (List.replicate n (Op.bestBlock h) ++ rest) := by
  induction n generalizing cur with
  | zero => simpa using hr.mono hc
  | succ n ih =>
    simp only [List.replicate_succ, List.cons_append]
    exact Adm.best _ _ _ hc (ih (Nat.le_refl _))

theorem presentBlock_adm {c : Chain} (st : BlockStyle) (b : Block) {cur : Nat} {rest : List Op}
    (hin : ∀ t ∈ b.txs, inChain c b.height t) (hc : cur ≤ b.height) (hr : Adm c b.height rest) :
    Adm c cur (presentBlock st b ++ rest) := by
  unfold presentBlock
  split
  · split
    · simp only [List.cons_append, List.nil_append]
      exact Adm.block _ _ _ _ (by simp) (adm_replicate_block hin (by omega) hr _)
    · simp only [List.nil_append]
      exact adm_replicate_block hin hc hr _
  · simp only []
    split
    · rw [List.append_assoc]
      exact adm_replicate_best hc (adm_replicate_conf hin (Nat.le_refl _) hr _) _
    · rw [List.append_assoc]
      exact adm_replicate_conf hin hc (adm_replicate_best (Nat.le_refl _) hr _) _

theorem presents_cons (style : Block → BlockStyle) (b : Block) (r : Chain) :
    presents style (b :: r) = presentBlock (style b) b ++ presents style r := by
  simp [presents]

theorem presents_adm_aux {c : Chain} (style : Block → BlockStyle) :
    ∀ (c' : Chain) (cur : Nat), Sorted cur c' → (∀ b ∈ c', ∀ t ∈ b.txs, inChain c b.height t) →
      Adm c cur (presents style c') := by
  intro c'
  induction c' with
  | nil => intro cur _ _; exact Adm.nil _
  | cons b r ih =>
    intro cur hs hin
    rw [presents_cons]
    exact presentBlock_adm _ _ (hin b (by simp)) (Nat.le_of_lt hs.1)
      (ih _ hs.2 (fun x hx => hin x (by simp [hx])))

theorem delivered_append (l₁ l₂ : List Op) : delivered (l₁ ++ l₂) = delivered l₁ ++ delivered l₂ := by
  induction l₁ with
  | nil => rfl
  | cons o r ih => cases o <;> simp [delivered, ih]

theorem delivered_replicate_block (n h : Nat) (txs : List Nat) {t : Nat} (ht : t ∈ txs) :
    t ∈ delivered (List.replicate (n + 1) (Op.blockConnected h txs)) := by
  simp [List.replicate_succ, delivered, ht]

theorem delivered_replicate_conf (n h : Nat) (txs : List Nat) {t : Nat} (ht : t ∈ txs) :
    t ∈ delivered (List.replicate (n + 1) (Op.txsConfirmed h txs)) := by
  simp [List.replicate_succ, delivered, ht]

theorem mem_delivered_presentBlock (st : BlockStyle) (b : Block) {t : Nat} (ht : t ∈ b.txs) :
    t ∈ delivered (presentBlock st b) := by
  unfold presentBlock
  split
  · rw [delivered_append]; exact List.mem_append_right _ (delivered_replicate_block _ _ _ ht)
  · simp only []
    split
    · rw [delivered_append]; exact List.mem_append_right _ (delivered_replicate_conf _ _ _ ht)
    · rw [delivered_append]; exact List.mem_append_left _ (delivered_replicate_conf _ _ _ ht)

/-- height announced by a connecting op -/
def connHeight : Op → Option Nat
  | .blockConnected h _ => some h
  | .txsConfirmed h _ => some h
  | .bestBlock h => some h
  | _ => none

theorem topHeight_append (b : Nat) (l₁ l₂ : List Op) : topHeight b (l₁ ++ l₂) = topHeight (topHeight b l₁) l₂ := by
  induction l₁ generalizing b with
  | nil => rfl
  | cons o r ih => cases o <;> simp [topHeight, ih]

theorem topHeight_const {h : Nat} : ∀ (l : List Op) (b : Nat), (∀ o ∈ l, connHeight o = some h) → l ≠ [] →
    topHeight b l = max b h := by
  intro l
  induction l with
  | nil => intro b _ hne; exact absurd rfl hne
  | cons o r ih =>
    intro b hall _
    have ho := hall o (by simp)
    have hrest : topHeight (max b h) r = max b h := by
      cases r with
      | nil => rfl
      | cons o' r' =>
        rw [ih (max b h) (fun x hx => hall x (by simp [hx])) (by simp)]
        omega
    cases o <;> simp only [connHeight, Option.some.injEq, reduceCtorEq] at ho <;> subst ho <;>
      simpa [topHeight] using hrest

theorem presentBlock_connHeight (st : BlockStyle) (b : Block) :
    ∀ o ∈ presentBlock st b, connHeight o = some b.height := by
  intro o ho
  unfold presentBlock at ho
  split at ho
  · split at ho <;> simp only [List.mem_append, List.mem_cons, List.mem_replicate, List.not_mem_nil, or_false, false_or] at ho
    · rcases ho with rfl | ⟨_, rfl⟩ <;> rfl
    · rcases ho with ⟨_, rfl⟩; rfl
  · simp only [] at ho
    split at ho <;> simp only [List.mem_append, List.mem_replicate] at ho <;>
      rcases ho with ⟨_, rfl⟩ | ⟨_, rfl⟩ <;> rfl

theorem presentBlock_ne_nil (st : BlockStyle) (b : Block) : presentBlock st b ≠ [] := by
  unfold presentBlock
  split
  · split <;> simp [List.replicate_succ]
  · simp only []
    split <;> simp [List.replicate_succ]

theorem topHeight_presentBlock (st : BlockStyle) (b : Block) (cur : Nat) :
    topHeight cur (presentBlock st b) = max cur b.height :=
  topHeight_const _ _ (presentBlock_connHeight st b) (presentBlock_ne_nil st b)

theorem topHeight_presents (style : Block → BlockStyle) (c : Chain) (cur : Nat) :
    topHeight cur (presents style c) = tip cur c := by
  induction c generalizing cur with
  | nil => rfl
  | cons b r ih =>
    rw [presents_cons, topHeight_append, topHeight_presentBlock, ih]
    rfl

theorem mem_delivered_presents (style : Block → BlockStyle) (c : Chain) {h t : Nat} (hin : inChain c h t) :
    t ∈ delivered (presents style c) := by
  obtain ⟨b, hb, _, ht⟩ := hin
  induction c with
  | nil => cases hb
  | cons x r ih =>
    rw [presents_cons, delivered_append]
    rcases List.mem_cons.1 hb with rfl | h1
    · exact List.mem_append_left _ (mem_delivered_presentBlock _ _ ht)
    · exact List.mem_append_right _ (ih h1)

/-- every per-block mix of the styles, in chain order, is an admissible presentation -/
theorem presents_Presents (style : Block → BlockStyle) {b0 : Nat} {c : Chain} (hs : Sorted b0 c) :
    Presents b0 c (presents style c) where
  adm := presents_adm_aux style c b0 hs (fun b hb _ ht => ⟨b, hb, rfl, ht⟩)
  complete := fun _ _ hin => mem_delivered_presents style c hin
  reaches := topHeight_presents style c b0

/-! ### forks -/

theorem rewindTo_rewindTo (s : St) {a b : Nat} (h : b ≤ a) : rewindTo (rewindTo s a) b = rewindTo s b := by
  simp only [rewindTo, List.filter_filter, St.mk.injEq, true_and, and_true]
  apply List.filter_congr
  intro e _
  rw [Bool.eq_iff_iff]
  simp only [Bool.and_eq_true, decide_eq_true_eq]
  omega

theorem step_blocksDisconnected_lt (cat : Catalog) {s : St} {h : Nat} (hh : h < s.best) :
    step cat s (.blocksDisconnected h) = rewindTo s h := by
  simp [step, blocksDisconnected, hh]

theorem step_bestBlock_lt (cat : Catalog) {s : St} {h : Nat} (hh : h < s.best) :
    step cat s (.bestBlock h) = rewindTo s h := by
  have : ¬ (h > s.best) := by omega
  simp [step, bestBlock, this]

theorem downFrom_succ (lo d : Nat) : downFrom (lo + (d + 1)) lo = (lo + d) :: downFrom (lo + d) lo := by
  unfold downFrom
  have e1 : lo + (d + 1) - lo = d + 1 := by omega
  have e2 : lo + d - lo = d := by omega
  rw [e1, e2, List.range_succ, List.reverse_append]
  simp

theorem downFrom_self (lo : Nat) : downFrom lo lo = [] := by
  simp [downFrom]

/-- walking backwards block by block (either notification) amounts to one rewind -/
theorem run_downFrom (cat : Catalog) (mk : Nat → Op)
    (hmk : ∀ (s : St) (k : Nat), k < s.best → step cat s (mk k) = rewindTo s k) (lo : Nat) :
    ∀ (d : Nat) (s : St), s.best = lo + (d + 1) → run cat s ((downFrom (lo + (d + 1)) lo).map mk) = rewindTo s lo := by
  intro d
  induction d with
  | zero =>
    intro s hs
    rw [downFrom_succ, Nat.add_zero, downFrom_self]
    simp only [List.map_cons, List.map_nil, run, List.foldl_cons, List.foldl_nil]
    exact hmk s lo (by omega)
  | succ d ih =>
    intro s hs
    rw [downFrom_succ]
    simp only [List.map_cons, run_cons]
    rw [hmk s _ (by omega)]
    rw [ih (rewindTo s (lo + (d + 1))) rfl]
    exact rewindTo_rewindTo s (by omega)

/-- the four rewinds that tell the monitor the new (lower) best height -/
theorem run_rewindOps (cat : Catalog) (r : Rewind) (fork : Chain) {tipH h : Nat} {s : St}
    (hr : r ≠ .unconfirmOnly) (hh : h < tipH) (hs : s.best = tipH) :
    run cat s (rewindOps r fork tipH h) = rewindTo s h := by
  obtain ⟨d, rfl⟩ : ∃ d, tipH = h + (d + 1) := ⟨tipH - h - 1, by omega⟩
  cases r with
  | listenOnce => simpa [rewindOps, run] using step_blocksDisconnected_lt cat (by omega)
  | listenEach =>
    exact run_downFrom cat Op.blocksDisconnected (fun s k hk => step_blocksDisconnected_lt cat hk) h d s hs
  | bestOnce => simpa [rewindOps, run] using step_bestBlock_lt cat (by omega)
  | bestEach =>
    exact run_downFrom cat Op.bestBlock (fun s k hk => step_bestBlock_lt cat hk) h d s hs
  | unconfirmOnly => exact absurd rfl hr

/-- Fork, semantic form: an admissible presentation of a fork chain `cF`, any op list `rws` that
    acts as one rewind to `h`, then an admissible presentation of the part of the final chain `c'`
    above `h`; the fork is shallower than ANTI_REORG_DELAY and the final chain at least as high. -/
theorem fork_canon {cat : Catalog} {cF c' : Chain} {b0 h : Nat} {opsF rws opsFin : List Op}
    (hwfF : WF cF) (hwf : WF c')
    (hagree : ∀ k t, k ≤ h → (inChain c' k t ↔ inChain cF k t))
    (haF : Adm cF b0 opsF)
    (hh : h < topHeight b0 opsF) (hd : topHeight b0 opsF < h + ANTI_REORG_DELAY)
    (hrw : ∀ s : St, s.best = topHeight b0 opsF → run cat s rws = rewindTo s h)
    (haFin : Adm c' h opsFin)
    (hcomplete : ∀ k t, inChain c' k t → t ∈ delivered opsFin ∨ (k ≤ h ∧ t ∈ delivered opsF))
    (htop : topHeight h opsFin = tip b0 c') (hge : topHeight b0 opsF ≤ tip b0 c') :
    Equiv (run cat (init b0) (opsF ++ rws ++ opsFin)) (canon cat b0 c') := by
  obtain ⟨i1, i2⟩ := run_inv (cat := cat) hwfF opsF (init b0) _ b0 haF (init_inv cat cF b0)
  have e0 : (init b0).best = b0 := rfl
  rw [e0] at i1 i2
  have hm : max b0 (topHeight b0 opsF) = topHeight b0 opsF := Nat.max_eq_right (le_topHeight _ _)
  rw [hm] at i1
  have i3 := rewindTo_inv (h := h) (by omega) hd i1
  have i4 := i3.rebase hwf hagree
  have hbest : (rewindTo (run cat (init b0) opsF) h).best = h := rfl
  obtain ⟨j1, j2⟩ := run_inv (cat := cat) hwf opsFin (rewindTo (run cat (init b0) opsF) h) _ _
    (by rw [hbest]; exact haFin) i4
  rw [hbest, htop] at j1 j2
  rw [Nat.max_eq_right hge] at j1
  rw [run_append, run_append, hrw _ i2]
  refine j1.equiv_canon j2 ?_
  intro k t hin
  rcases hcomplete k t hin with h1 | ⟨h1, h2⟩
  · exact Or.inr h1
  · exact Or.inl ⟨Or.inr h2, k, h1, (hagree k t h1).1 hin⟩

/-! ### skipping presentation -/

theorem Sorted.lt_trans {x y : Nat} {c : Chain} (h : x ≤ y) (hs : Sorted y c) : Sorted x c := by
  cases c with
  | nil => trivial
  | cons b r => exact ⟨Nat.lt_of_le_of_lt h hs.1, hs.2⟩

theorem tip_cons_lt {x : Nat} {b : Block} {r : Chain} (h : x ≤ b.height) : tip x (b :: r) = tip b.height r := by
  simp only [tip, List.foldl_cons, Nat.max_eq_right h]

theorem presentsSkipping_adm {c : Chain} (style : Block → BlockStyle) :
    ∀ (c' : Chain) (cur : Nat), Sorted cur c' → (∀ b ∈ c', ∀ t ∈ b.txs, inChain c b.height t) →
      Adm c cur (presentsSkipping style c') := by
  intro c'
  induction c' with
  | nil => intro cur _ _; exact Adm.nil _
  | cons b r ih =>
    intro cur hs hin
    cases r with
    | nil =>
      simp only [presentsSkipping]
      have := presentBlock_adm (c := c) (style b) b (rest := []) (hin b (by simp)) (Nat.le_of_lt hs.1) (Adm.nil _)
      simpa using this
    | cons b' r' =>
      simp only [presentsSkipping]
      split
      · simp only [List.nil_append]
        exact ih cur (Sorted.lt_trans (Nat.le_of_lt hs.1) hs.2) (fun x hx => hin x (by simp [hx]))
      · exact presentBlock_adm _ _ (hin b (by simp)) (Nat.le_of_lt hs.1)
          (ih _ hs.2 (fun x hx => hin x (by simp [hx])))

theorem mem_delivered_presentsSkipping (style : Block → BlockStyle) (c : Chain) {h t : Nat} (hin : inChain c h t) :
    t ∈ delivered (presentsSkipping style c) := by
  obtain ⟨b, hb, _, ht⟩ := hin
  induction c with
  | nil => cases hb
  | cons x r ih =>
    cases r with
    | nil =>
      simp only [presentsSkipping]
      rcases List.mem_cons.1 hb with rfl | h1
      · exact mem_delivered_presentBlock _ _ ht
      · cases h1
    | cons b' r' =>
      simp only [presentsSkipping]
      rw [delivered_append]
      rcases List.mem_cons.1 hb with rfl | h1
      · apply List.mem_append_left
        have hne : b.txs.isEmpty = false := by
          cases hb' : b.txs with
          | nil => rw [hb'] at ht; cases ht
          | cons _ _ => rfl
        simp only [hne]
        exact mem_delivered_presentBlock _ _ ht
      · exact List.mem_append_right _ (ih h1)

theorem topHeight_presentsSkipping (style : Block → BlockStyle) :
    ∀ (c : Chain) (cur : Nat), Sorted cur c → topHeight cur (presentsSkipping style c) = tip cur c := by
  intro c
  induction c with
  | nil => intro cur _; rfl
  | cons b r ih =>
    intro cur hs
    cases r with
    | nil =>
      simp only [presentsSkipping]
      rw [topHeight_presentBlock]; rfl
    | cons b' r' =>
      simp only [presentsSkipping]
      rw [topHeight_append]
      split
      · simp only [topHeight]
        rw [ih cur (Sorted.lt_trans (Nat.le_of_lt hs.1) hs.2)]
        have h1 := hs.1
        have h2 := hs.2.1
        rw [tip_cons_lt (Nat.le_of_lt hs.1), tip_cons_lt (Nat.le_of_lt h2), tip_cons_lt (by omega)]
      · have hm : max cur b.height = b.height := Nat.max_eq_right (Nat.le_of_lt hs.1)
        rw [topHeight_presentBlock, hm, ih _ hs.2, tip_cons_lt (Nat.le_of_lt hs.1)]

/-- announcing only the blocks that contain relevant transactions (and the last one) is an
    admissible presentation -/
theorem presentsSkipping_Presents (style : Block → BlockStyle) {b0 : Nat} {c : Chain} (hs : Sorted b0 c) :
    Presents b0 c (presentsSkipping style c) where
  adm := presentsSkipping_adm style c b0 hs (fun b hb _ ht => ⟨b, hb, rfl, ht⟩)
  complete := fun _ _ hin => mem_delivered_presentsSkipping style c hin
  reaches := topHeight_presentsSkipping style c b0 hs

/-! ### the concrete fork presentation -/

theorem inChain_append {a b : Chain} {k t : Nat} : inChain (a ++ b) k t ↔ inChain a k t ∨ inChain b k t := by
  unfold inChain
  simp only [List.mem_append]
  constructor
  · rintro ⟨x, hx | hx, h1, h2⟩
    · exact Or.inl ⟨x, hx, h1, h2⟩
    · exact Or.inr ⟨x, hx, h1, h2⟩
  · rintro (⟨x, hx, h1, h2⟩ | ⟨x, hx, h1, h2⟩)
    · exact ⟨x, Or.inl hx, h1, h2⟩
    · exact ⟨x, Or.inr hx, h1, h2⟩

theorem Sorted.suffix {a b : Chain} {cur x : Nat} (hs : Sorted cur (a ++ b)) (hx : ∀ blk ∈ b, x < blk.height) :
    Sorted x b := by
  induction a generalizing cur with
  | nil =>
    cases b with
    | nil => trivial
    | cons y r => exact ⟨hx y (by simp), hs.2⟩
  | cons y r ih => exact ih hs.2

theorem tip_append (b0 : Nat) (a b : Chain) : tip b0 (a ++ b) = tip (tip b0 a) b := by
  simp [tip, List.foldl_append]

theorem fork_styles_canon {cat : Catalog} (style : Block → BlockStyle) (r : Rewind) (hr : r ≠ .unconfirmOnly)
    (pre forkB final : Chain) (b0 h : Nat)
    (hsF : Sorted b0 (pre ++ forkB)) (hsC : Sorted b0 (pre ++ final))
    (hpre : ∀ b ∈ pre, b.height ≤ h) (hforkB : ∀ b ∈ forkB, h < b.height) (hfin : ∀ b ∈ final, h < b.height)
    (hb0 : b0 ≤ h) (hne : forkB ≠ [])
    (hwfF : WF (pre ++ forkB)) (hwf : WF (pre ++ final))
    (hd : tip b0 (pre ++ forkB) < h + ANTI_REORG_DELAY) (hge : tip b0 (pre ++ forkB) ≤ tip b0 (pre ++ final)) :
    Equiv (run cat (init b0) (presentsFork style r pre forkB final b0 h)) (canon cat b0 (pre ++ final)) := by
  have htF : topHeight b0 (presents style (pre ++ forkB)) = tip b0 (pre ++ forkB) := topHeight_presents _ _ _
  have hlt : h < tip b0 (pre ++ forkB) := by
    cases forkB with
    | nil => exact absurd rfl hne
    | cons y ys =>
      have h1 := hforkB y (by simp)
      have h2 : y.height ≤ tip b0 (pre ++ y :: ys) := le_tip (by simp)
      omega
  have hpre_tip : tip b0 pre ≤ h := tip_le hb0 hpre
  unfold presentsFork
  apply fork_canon (h := h) hwfF hwf
  · intro k t hk
    rw [inChain_append, inChain_append]
    constructor
    · rintro (h1 | ⟨x, hx, h1, _⟩)
      · exact Or.inl h1
      · have := hfin x hx; omega
    · rintro (h1 | ⟨x, hx, h1, _⟩)
      · exact Or.inl h1
      · have := hforkB x hx; omega
  · exact presents_adm_aux style (pre ++ forkB) b0 hsF (fun b hb _ ht => ⟨b, hb, rfl, ht⟩)
  · rw [htF]; exact hlt
  · rw [htF]; exact hd
  · intro s hs
    rw [htF] at hs
    exact run_rewindOps cat r forkB hr hlt hs
  · exact presents_adm_aux style final h (hsC.suffix hfin)
      (fun b hb _ ht => inChain_append.2 (Or.inr ⟨b, hb, rfl, ht⟩))
  · intro k t hin
    rcases inChain_append.1 hin with h1 | h1
    · right
      have h1' := h1
      obtain ⟨x, hx, hk, _⟩ := h1
      refine ⟨hk ▸ hpre x hx, mem_delivered_presents style _ (inChain_append.2 (Or.inl h1'))⟩
    · exact Or.inl (mem_delivered_presents style _ h1)
  · rw [topHeight_presents, tip_append]
    cases final with
    | nil =>
      rw [tip_append] at hge
      simp only [List.append_nil] at hge
      have : tip (tip b0 pre) [] = tip b0 pre := rfl
      rw [tip_append] at hlt
      have h3 : tip (tip b0 pre) forkB ≤ tip b0 pre := by simpa [tip_append] using hge
      omega
    | cons y ys =>
      have h1 := hfin y (by simp)
      rw [tip_cons_lt (Nat.le_of_lt h1), tip_cons_lt (by omega)]
  · rw [htF]; exact hge

/-! ### the highly redundant presentation -/

theorem adm_reconfs {c : Chain} {cur : Nat} {rest : List Op} :
    ∀ (l : List Block), (∀ p ∈ l, p.height ≤ cur ∧ ∀ t ∈ p.txs, inChain c p.height t) → Adm c cur rest →
      Adm c cur (l.map (fun p => Op.txsConfirmed p.height p.txs) ++ rest) := by
  intro l
  induction l with
  | nil => intro _ hr; simpa using hr
  | cons p r ih =>
    intro hl hr
    simp only [List.map_cons, List.cons_append]
    have hp := hl p (by simp)
    refine Adm.conf _ _ _ _ hp.2 ?_
    rw [Nat.max_eq_left hp.1]
    exact ih (fun x hx => hl x (by simp [hx])) hr

theorem topHeight_reconfs {cur : Nat} : ∀ (l : List Block), (∀ p ∈ l, p.height ≤ cur) →
    topHeight cur (l.map (fun p => Op.txsConfirmed p.height p.txs)) = cur := by
  intro l
  induction l with
  | nil => intro _; rfl
  | cons p r ih =>
    intro hl
    simp only [List.map_cons, topHeight]
    rw [Nat.max_eq_left (hl p (by simp))]
    exact ih (fun x hx => hl x (by simp [hx]))

theorem presentsRedundant_adm {c : Chain} (style : Block → BlockStyle) :
    ∀ (c' done : Chain) (cur : Nat), Sorted cur c' →
      (∀ p ∈ done, p.height ≤ cur ∧ ∀ t ∈ p.txs, inChain c p.height t) →
      (∀ b ∈ c', ∀ t ∈ b.txs, inChain c b.height t) → Adm c cur (presentsRedundant style done c') := by
  intro c'
  induction c' with
  | nil => intro done cur _ _ _; exact Adm.nil _
  | cons b r ih =>
    intro done cur hs hdone hin
    simp only [presentsRedundant, List.append_assoc]
    apply adm_reconfs
    · intro p hp
      exact hdone p (List.mem_filter.1 hp).1
    · apply presentBlock_adm _ _ (hin b (by simp)) (Nat.le_of_lt hs.1)
      apply ih _ _ hs.2
      · intro p hp
        rcases List.mem_append.1 hp with h1 | h1
        · exact ⟨Nat.le_trans (hdone p h1).1 (Nat.le_of_lt hs.1), (hdone p h1).2⟩
        · simp only [List.mem_singleton] at h1
          subst h1
          exact ⟨Nat.le_refl _, hin p (by simp)⟩
      · exact fun x hx => hin x (by simp [hx])

theorem mem_delivered_presentsRedundant (style : Block → BlockStyle) (c done : Chain) {h t : Nat}
    (hin : inChain c h t) : t ∈ delivered (presentsRedundant style done c) := by
  obtain ⟨b, hb, _, ht⟩ := hin
  induction c generalizing done with
  | nil => cases hb
  | cons x r ih =>
    simp only [presentsRedundant, delivered_append]
    rcases List.mem_cons.1 hb with rfl | h1
    · exact List.mem_append_left _ (List.mem_append_right _ (mem_delivered_presentBlock _ _ ht))
    · exact List.mem_append_right _ (ih _ h1)

theorem topHeight_presentsRedundant (style : Block → BlockStyle) :
    ∀ (c done : Chain) (cur : Nat), Sorted cur c → (∀ p ∈ done, p.height ≤ cur) →
      topHeight cur (presentsRedundant style done c) = tip cur c := by
  intro c
  induction c with
  | nil => intro done cur _ _; rfl
  | cons b r ih =>
    intro done cur hs hdone
    simp only [presentsRedundant]
    rw [topHeight_append, topHeight_append, topHeight_reconfs _ (fun p hp => hdone p (List.mem_filter.1 hp).1),
      topHeight_presentBlock]
    have hm : max cur b.height = b.height := Nat.max_eq_right (Nat.le_of_lt hs.1)
    rw [hm, ih _ _ hs.2, tip_cons_lt (Nat.le_of_lt hs.1)]
    intro p hp
    rcases List.mem_append.1 hp with h1 | h1
    · exact Nat.le_trans (hdone p h1) (Nat.le_of_lt hs.1)
    · simp only [List.mem_singleton] at h1; subst h1; exact Nat.le_refl _

/-- re-announcing every earlier non-empty block before each new block is admissible -/
theorem presentsRedundant_Presents (style : Block → BlockStyle) {b0 : Nat} {c : Chain} (hs : Sorted b0 c) :
    Presents b0 c (presentsRedundant style [] c) where
  adm := presentsRedundant_adm style c [] b0 hs (by intro p hp; cases hp) (fun b hb _ ht => ⟨b, hb, rfl, ht⟩)
  complete := fun _ _ hin => mem_delivered_presentsRedundant style c [] hin
  reaches := topHeight_presentsRedundant style c [] b0 hs (by intro p hp; cases hp)

end Ldk.ChainView
