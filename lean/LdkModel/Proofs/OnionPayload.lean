/- C14 — hop payload encoders: helper lemmas (sorting by type, the validated custom TLV set, the record-level
   decoder on a strictly increasing stream).  Core only (no Mathlib). -/
import LdkModel.Generated.OnionPayloads
namespace Ldk.OnionPayload
open Ldk.Onion (Bytes)

/-! ### adjacent tests, strict increase -/

theorem pairwise_of_adjacent (f : Nat → Nat → Bool) (hf : ∀ a b, f a b = false → a < b) :
    ∀ l : List Nat, adjacentAny f l = false → l.Pairwise (· < ·)
  | [], _ => List.Pairwise.nil
  | [a], _ => by simp
  | a :: b :: rest, h => by
    simp only [adjacentAny, Bool.or_eq_false_iff] at h
    have ih := pairwise_of_adjacent f hf (b :: rest) h.2
    have hab := hf a b h.1
    refine List.Pairwise.cons (fun x hx => ?_) ih
    rcases List.mem_cons.mp hx with rfl | hx
    · exact hab
    · exact Nat.lt_trans hab ((List.pairwise_cons.mp ih).1 x hx)

/-! ### sort_unstable_by_key -/

theorem sortByType_perm (l : List Rec) : (sortByType l).Perm l := List.mergeSort_perm l _

theorem sortByType_pairwise_le (l : List Rec) : (sortByType l).Pairwise (fun a b => a.1 ≤ b.1) := by
  have := List.pairwise_mergeSort (le := fun (a b : Rec) => decide (a.1 ≤ b.1))
    (fun a b c hab hbc => by simp only [decide_eq_true_eq] at *; omega)
    (fun a b => by simp only [Bool.or_eq_true, decide_eq_true_eq]; omega) l
  exact this.imp (fun h => by simpa using h)

theorem mem_sortByType {l : List Rec} {r : Rec} : r ∈ sortByType l ↔ r ∈ l := (sortByType_perm l).mem_iff

/-- distinct types: the sorted list is STRICTLY increasing in type -/
theorem sortByType_strict (l : List Rec) (hn : (l.map (·.1)).Nodup) :
    (sortByType l).Pairwise (fun a b => a.1 < b.1) := by
  have h1 := sortByType_pairwise_le l
  have h2 : ((sortByType l).map (·.1)).Nodup := ((sortByType_perm l).map _).nodup_iff.mpr hn
  rw [List.Nodup, List.pairwise_map] at h2
  exact (h1.and h2).imp (fun h => Nat.lt_of_le_of_ne h.1 h.2)

theorem sortByType_nil : sortByType [] = [] := by simp [sortByType]

/-- an already strictly sorted list is left alone -/
theorem sortByType_of_strict (l : List Rec) (h : l.Pairwise (fun a b => a.1 < b.1)) : sortByType l = l :=
  List.mergeSort_of_pairwise (h.imp (fun h => by simpa using Nat.le_of_lt h))

/-- two strictly type-sorted lists with the same elements are equal -/
theorem eq_of_perm_strict {l₁ l₂ : List Rec} (hp : l₁.Perm l₂) (h1 : l₁.Pairwise (fun a b => a.1 < b.1))
    (h2 : l₂.Pairwise (fun a b => a.1 < b.1)) : l₁ = l₂ :=
  List.Perm.eq_of_pairwise (le := fun a b => a.1 < b.1) (fun _ _ _ _ hab hba => absurd hab (Nat.lt_asymm hba)) h1 h2 hp

/-! ### the custom TLV set `RecipientCustomTlvs::new` lets through -/

/-- what every user-supplied custom TLV list satisfies once `RecipientCustomTlvs::new` accepted it -/
structure ValidCustom (c : List Rec) : Prop where
  strict : c.Pairwise (fun a b => a.1 < b.1)
  types : ∀ r ∈ c, customTlvMin ≤ r.1 ∧ r.1 ≠ 5482373484 ∧ r.1 ≠ 77777

theorem customTlvTypeRejected_false {t : Nat} (h : customTlvTypeRejected t = false) :
    customTlvMin ≤ t ∧ t ≠ 5482373484 ∧ t ≠ 77777 := by
  simp only [customTlvTypeRejected, customTlvMin, Bool.or_eq_false_iff, decide_eq_false_iff_not] at h ⊢
  omega

theorem validCustom_of_new {raw c : List Rec} (h : recipientCustomTlvsNew raw = some c) : ValidCustom c := by
  unfold recipientCustomTlvsNew at h
  simp only [] at h
  split at h
  · cases h
  · rename_i hc
    simp only [Bool.or_eq_true, not_or, Bool.not_eq_true] at hc
    cases h
    refine ⟨?_, fun r hr => ?_⟩
    · have := pairwise_of_adjacent customTlvOrderRejected
        (fun a b hab => by simp only [customTlvOrderRejected, decide_eq_false_iff_not] at hab; omega) _ hc.2
      exact List.pairwise_map.mp this
    · have := hc.1
      rw [List.any_eq_false] at this
      exact customTlvTypeRejected_false (by simpa using this r hr)

/-- the synthetic records chained after the custom TLVs -/
def synth (invoice_request keysend_preimage : Option Bytes) : List Rec :=
  (invoice_request.map (fun v => ((77777 : Nat), v))).toList ++ (keysend_preimage.map (fun v => ((5482373484 : Nat), v))).toList

theorem synth_strict (i k : Option Bytes) : (synth i k).Pairwise (fun a b => a.1 < b.1) := by
  cases i <;> cases k <;> simp [synth]

theorem synth_types (i k : Option Bytes) : ∀ r ∈ synth i k, r.1 = 77777 ∨ r.1 = 5482373484 := by
  intro r hr
  cases i <;> cases k <;> simp [synth] at hr
  · exact Or.inr (by rw [hr])
  · exact Or.inl (by rw [hr])
  · rcases hr with rfl | rfl
    · exact Or.inl rfl
    · exact Or.inr rfl

/-- custom TLVs merged with the synthetic records and sorted: strictly increasing, all in the custom range -/
theorem merged_sorted {c : List Rec} (hc : ValidCustom c) (i k : Option Bytes) :
    (sortByType (c ++ synth i k)).Pairwise (fun a b => a.1 < b.1) ∧
    ∀ r ∈ sortByType (c ++ synth i k), customTlvMin ≤ r.1 := by
  have hM : customTlvMin = 65536 := by decide
  constructor
  · apply sortByType_strict
    rw [List.Nodup, List.pairwise_map, List.pairwise_append]
    refine ⟨hc.strict.imp (fun h => Nat.ne_of_lt h), (synth_strict i k).imp (fun h => Nat.ne_of_lt h), fun a ha b hb => ?_⟩
    have h1 := hc.types a ha
    rcases synth_types i k b hb with h2 | h2 <;> omega
  · intro r hr
    rcases List.mem_append.mp (mem_sortByType.mp hr) with h | h
    · exact (hc.types r h).1
    · rcases synth_types i k r h with h2 | h2 <;> omega

/-! ### the decoder on a strictly increasing stream -/

theorem decodeGo_strict (known : List Nat) (customMin : Nat) :
    ∀ (recs : List Rec) (last : Option Nat), (∀ l, last = some l → ∀ r ∈ recs, l < r.1) →
      recs.Pairwise (fun a b => a.1 < b.1) → (∀ r ∈ recs, known.contains r.1 = true ∨ customMin ≤ r.1) →
      decodeGo known customMin last recs =
        .ok (recs.filter (fun r => known.contains r.1), recs.filter (fun r => !known.contains r.1))
  | [], _, _, _, _ => rfl
  | (t, v) :: rest, last, hl, hp, hk => by
    have hord : orderBad last t = false := by
      cases last with
      | none => rfl
      | some l => have := hl l rfl (t, v) (by simp); simp [orderBad]; omega
    have ih := decodeGo_strict known customMin rest (some t)
      (fun l hl' r hr => by cases hl'; exact (List.pairwise_cons.mp hp).1 r hr)
      (List.pairwise_cons.mp hp).2 (fun r hr => hk r (by simp [hr]))
    unfold decodeGo
    rw [hord]
    simp only [Bool.false_eq_true, if_false]
    by_cases hkn : known.contains t = true
    · simp only [hkn, if_true, ih, Except.map, List.filter_cons, Bool.not_true, Bool.false_eq_true, if_false]
    · have hge : customMin ≤ t := by rcases hk (t, v) (by simp) with h | h; exact absurd h hkn; exact h
      simp only [hkn, if_false, Nat.not_lt.mpr hge, ih, Except.map, List.filter_cons, Bool.not_false, if_true]
      simp

theorem known_spec :
    (∀ t ∈ inboundKnownTypes, t < customTlvMin ∨ t = 77777 ∨ t = 5482373484) ∧
    inboundKnownTypes.contains 77777 = true ∧ inboundKnownTypes.contains 5482373484 = true := by decide

theorem filter_eq_nil_of {α : Type} (p : α → Bool) (l : List α) (h : ∀ a ∈ l, p a = false) : l.filter p = [] := by
  rw [List.filter_eq_nil_iff]; intro a ha; simp [h a ha]

theorem filter_eq_self_of {α : Type} (p : α → Bool) (l : List α) (h : ∀ a ∈ l, p a = true) : l.filter p = l :=
  List.filter_eq_self.mpr h

/-- the decoder on `typed fields ++ sorted (custom ++ synthetic)`: typed fields and synthetic records come back as
    typed records, the custom TLVs come back as the custom TLVs -/
theorem decode_written (A : List Rec) (hA : A.Pairwise (fun a b => a.1 < b.1))
    (hAk : ∀ r ∈ A, inboundKnownTypes.contains r.1 = true ∧ r.1 < customTlvMin)
    {c : List Rec} (hc : ValidCustom c) (i k : Option Bytes) :
    decodeRecords inboundKnownTypes customTlvMin (A ++ sortByType (c ++ synth i k)) = .ok (A ++ synth i k, c) := by
  obtain ⟨hs1, hs2⟩ := merged_sorted hc i k
  obtain ⟨hk1, hk2, hk3⟩ := known_spec
  have hM : customTlvMin = 65536 := by decide
  generalize hS : sortByType (c ++ synth i k) = S at hs1 hs2
  have hperm : S.Perm (c ++ synth i k) := hS ▸ sortByType_perm _
  have hck : ∀ r ∈ c, inboundKnownTypes.contains r.1 = false := by
    intro r hr
    have h1 := hc.types r hr
    cases hcon : inboundKnownTypes.contains r.1 with
    | false => rfl
    | true =>
      have := hk1 r.1 (by simpa using hcon)
      omega
  have hsk : ∀ r ∈ synth i k, inboundKnownTypes.contains r.1 = true := by
    intro r hr
    rcases synth_types i k r hr with h | h <;> rw [h] <;> assumption
  unfold decodeRecords
  rw [decodeGo_strict inboundKnownTypes customTlvMin (A ++ S) none (fun l h => by cases h)
    (List.pairwise_append.mpr ⟨hA, hs1, fun a ha b hb => by have := (hAk a ha).2; have := hs2 b hb; omega⟩)
    (fun r hr => by
      rcases List.mem_append.mp hr with h | h
      · exact Or.inl (hAk r h).1
      · exact Or.inr (hs2 r h))]
  simp only [List.filter_append]
  rw [filter_eq_self_of _ A (fun a ha => (hAk a ha).1),
    filter_eq_nil_of (fun r => !inboundKnownTypes.contains r.1) A (fun a ha => by show (!inboundKnownTypes.contains a.1) = false; rw [(hAk a ha).1]; rfl)]
  have e1 : S.filter (fun r => inboundKnownTypes.contains r.1) = synth i k := by
    apply eq_of_perm_strict _ (hs1.filter _) (synth_strict i k)
    have := hperm.filter (fun r => inboundKnownTypes.contains r.1)
    rwa [List.filter_append, filter_eq_nil_of _ c hck, filter_eq_self_of _ _ hsk, List.nil_append] at this
  have e2 : S.filter (fun r => !inboundKnownTypes.contains r.1) = c := by
    apply eq_of_perm_strict _ (hs1.filter _) hc.strict
    have := hperm.filter (fun r => !inboundKnownTypes.contains r.1)
    rwa [List.filter_append, filter_eq_self_of _ c (fun a ha => by show (!inboundKnownTypes.contains a.1) = true; rw [hck a ha]; rfl),
      filter_eq_nil_of _ (synth i k) (fun a ha => by show (!inboundKnownTypes.contains a.1) = false; rw [hsk a ha]; rfl), List.append_nil] at this
  rw [e1, e2, List.nil_append]

theorem present_sublist : ∀ typed : List (Nat × Option Bytes),
    ((typed.filterMap (fun tv => tv.2.map (fun v => (tv.1, v)))).map (·.1)).Sublist (typed.map (·.1))
  | [] => List.Sublist.slnil
  | (t, none) :: rest => by
    simp only [List.filterMap_cons, Option.map_none, List.map_cons]
    exact (present_sublist rest).cons _
  | (t, some v) :: rest => by
    simp only [List.filterMap_cons, Option.map_some, List.map_cons]
    exact (present_sublist rest).cons_cons _

/-- the types actually written are a sub-sequence of the types the encoder checks -/
theorem records_types_sublist (o : TlvOut) : (o.records.map (·.1)).Sublist o.checkedTypes := by
  unfold TlvOut.records TlvOut.checkedTypes tlvRecords
  rw [List.map_append]
  exact (present_sublist o.typed).append (List.Sublist.refl _)

/-- `tlvRecords` with no custom TLVs and an explicit tail of synthetic records -/
theorem tlvRecords_synth (typed : List (Nat × Option Bytes)) (i k : Option Bytes) :
    tlvRecords (typed ++ [(77777, i), (5482373484, k)]) [] = tlvRecords typed [] ++ synth i k := by
  unfold tlvRecords synth
  cases i <;> cases k <;> simp

/-- `decode_written` for a payload given as declared typed fields + custom TLVs + synthetic records -/
theorem decode_typed (typed : List (Nat × Option Bytes)) (hT : StrictInc (typed.map (·.1)))
    (hk : ∀ t ∈ typed.map (·.1), inboundKnownTypes.contains t = true ∧ t < customTlvMin)
    {c : List Rec} (hc : ValidCustom c) (i k : Option Bytes) :
    decodeRecords inboundKnownTypes customTlvMin (tlvRecords typed (sortByType (c ++ synth i k))) =
      .ok (tlvRecords (typed ++ [(77777, i), (5482373484, k)]) [], c) := by
  rw [tlvRecords_synth]
  have hsub := present_sublist typed
  have := decode_written (typed.filterMap (fun tv => tv.2.map (fun v => (tv.1, v))))
    (List.pairwise_map.mp (List.Pairwise.sublist hsub hT))
    (fun r hr => hk r.1 (hsub.subset (List.mem_map.mpr ⟨r, hr, rfl⟩))) hc i k
  simpa [tlvRecords] using this

/-- a strictly increasing typed prefix below the custom range followed by strictly increasing extras in the
    custom range is strictly increasing -/
theorem strictInc_checked (typed : List (Nat × Option Bytes)) (extra : List Rec)
    (h1 : StrictInc (typed.map (·.1))) (h2 : ∀ t ∈ typed.map (·.1), t < customTlvMin)
    (h3 : extra.Pairwise (fun a b => a.1 < b.1)) (h4 : ∀ r ∈ extra, customTlvMin ≤ r.1) :
    StrictInc (TlvOut.checkedTypes ⟨typed, extra⟩) := by
  unfold TlvOut.checkedTypes StrictInc
  rw [List.pairwise_append]
  refine ⟨h1, List.pairwise_map.mpr h3, fun a ha b hb => ?_⟩
  obtain ⟨r, hr, rfl⟩ := List.mem_map.mp hb
  have := h2 a ha; have := h4 r hr; omega

end Ldk.OnionPayload
