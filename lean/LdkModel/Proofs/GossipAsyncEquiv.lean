/- C17 — synchronous vs asynchronous lookup answers (Model/GossipAsync.lean): a window of messages delivered
   while ONE lookup is pending, no two of them competing for one parking slot. Strategy: the asynchronous run
   applies to the graph the messages that are not captured (in window order), then the announcement with the
   answer, then the parked ones — a permutation of the synchronous order, to which `runMsgs_perm`
   (Proofs/Gossip.lean) applies. -/
import LdkModel.Proofs.GossipAsync
namespace Ldk.Gossip
namespace Async

/-- would the pending lookup of announcement `a` capture this message? -/
def parks (a : ChanAnn) : Msg → Bool
  | .chanUpd u => u.scid == a.scid
  | .nodeAnn n => n.node == a.n1 || n.node == a.n2
  | .chanAnn _ => false

def holdMsg (p : Pending) : Msg → Pending
  | .chanUpd u => holdUpd p u
  | .nodeAnn n => holdNode p n
  | .chanAnn _ => p

/-- the slot this message would be parked in is empty -/
def slotFree (p : Pending) : Msg → Bool
  | .chanUpd u => if u.dir then p.cuA.isNone else p.cuB.isNone
  | .nodeAnn n => if p.ann.n1 = n.node then p.naA.isNone else p.naB.isNone
  | .chanAnn _ => true

/-- admissible window messages: no channel announcement; an update of the pending channel passes the three
    graph-independent checks (dont_forward, chain hash, htlc_maximum ≤ MAX_VALUE_MSAT) — it may be wrongly signed
    or exceed the capacity; a signed node announcement of an endpoint carries a valid signature -/
def WinOk (a : ChanAnn) : Msg → Prop
  | .chanUpd u => u.scid = a.scid → globalOk u = true
  | .nodeAnn n => (n.node = a.n1 ∨ n.node = a.n2) → nodeStaticOk n = true
  | .chanAnn _ => False

/-- every message the pending lookup captures finds its slot EMPTY (no slot receives two messages) -/
def NoContention (a : ChanAnn) : Pending → List Msg → Prop
  | _, [] => True
  | p, m :: t => if parks a m then slotFree p m = true ∧ NoContention a (holdMsg p m) t else NoContention a p t

/-- the graph knows neither the channel nor its two nodes -/
def Fresh (a : ChanAnn) (g : Graph) : Prop :=
  g.channels.get a.scid = none ∧ g.nodes.get a.n1 = none ∧ g.nodes.get a.n2 = none

def heldList (p : Pending) : List Msg := (replayNodes p).map .nodeAnn ++ (replayUpds p).map .chanUpd

theorem holdMsg_fid (p : Pending) (m : Msg) : (holdMsg p m).fid = p.fid := by
  cases m <;> simp only [holdMsg, holdUpd, holdNode] <;> (repeat' split) <;> rfl
theorem holdMsg_ann (p : Pending) (m : Msg) : (holdMsg p m).ann = p.ann := by
  cases m <;> simp only [holdMsg, holdUpd, holdNode] <;> (repeat' split) <;> rfl
theorem holdMsg_complete (p : Pending) (m : Msg) : (holdMsg p m).complete = p.complete := by
  cases m <;> simp only [holdMsg, holdUpd, holdNode] <;> (repeat' split) <;> rfl

theorem heldList_hold (a : ChanAnn) (p : Pending) (m : Msg) (hp : parks a m = true) (hf : slotFree p m = true) :
    (heldList (holdMsg p m)).Perm (heldList p ++ [m]) := by
  cases m with
  | chanAnn b => simp [parks] at hp
  | chanUpd u =>
    simp only [slotFree] at hf
    simp only [holdMsg, holdUpd, gen_holdUpdIsA, gen_holdUpdReplaces]
    cases hd : u.dir
    · simp only [hd, Bool.false_eq_true, if_false] at hf ⊢
      have : p.cuB = none := by simpa using hf
      simp only [this, Option.map_none, if_true, heldList, replayNodes, replayUpds, Option.toList, List.append_nil,
        List.map_append, List.map_cons, List.map_nil]
      apply List.perm_iff_count.mpr
      intro z
      simp only [List.count_append, List.count_nil, List.append_nil, List.nil_append]
      omega
    · simp only [hd, if_true] at hf ⊢
      have : p.cuA = none := by simpa using hf
      simp only [this, Option.map_none, if_true, heldList, replayNodes, replayUpds, Option.toList, List.nil_append,
        List.map_append, List.map_cons, List.map_nil]
      apply List.perm_iff_count.mpr
      intro z
      simp only [List.count_append, List.count_nil, List.append_nil, List.nil_append]
      omega
  | nodeAnn n =>
    simp only [slotFree] at hf
    simp only [holdMsg, holdNode, gen_holdNodeIsA, gen_holdNodeReplaces, decide_eq_true_eq]
    by_cases hn : p.ann.n1 = n.node
    · simp only [hn, if_true] at hf ⊢
      have : p.naA = none := by simpa using hf
      simp only [this, Option.map_none, if_true, heldList, replayNodes, replayUpds, Option.toList, List.nil_append,
        List.map_append, List.map_cons, List.map_nil]
      apply List.perm_iff_count.mpr
      intro z
      simp only [List.count_append, List.count_nil, List.append_nil, List.nil_append]
      omega
    · simp only [hn, if_false] at hf ⊢
      have : p.naB = none := by simpa using hf
      simp only [this, Option.map_none, if_true, heldList, replayNodes, replayUpds, Option.toList, List.append_nil,
        List.map_append, List.map_cons, List.map_nil]
      apply List.perm_iff_count.mpr
      intro z
      simp only [List.count_append, List.count_nil, List.append_nil, List.nil_append]
      omega

/-! ### single deliveries while exactly one lookup is pending -/

theorem applyChanUpd_unknown {g : Graph} {u : ChanUpd} (hg : g.channels.get u.scid = none) (hu : globalOk u = true) :
    Impl.applyChanUpd g u = (g, .reject .unknownChannel) := by
  rw [Impl.applyChanUpd_eq]
  simp only [globalOk, Bool.not_eq_true', Bool.or_eq_false_iff, Bool.and_eq_false_imp, Bool.not_eq_false',
    decide_eq_false_iff_not] at hu
  obtain ⟨⟨h1, h2⟩, h3⟩ := hu
  unfold Gossip.applyChanUpd
  have h1' : (u.verify && u.dontForward) = false := by
    cases hv : u.verify
    · rfl
    · simpa using h1 hv
  simp only [h1', h2, Bool.false_eq_true, if_false, Bool.not_true, h3, hg]

theorem applyNodeAnn_unknown {g : Graph} {n : NodeAnn} (hg : g.nodes.get n.node = none) (hn : nodeStaticOk n = true) :
    Impl.applyNodeAnn g n = (g, .reject .noChannelsForNode) := by
  rw [Impl.applyNodeAnn_eq]
  unfold Gossip.applyNodeAnn
  simp only [hg]
  simp only [nodeStaticOk, Bool.not_eq_true'] at hn
  simp only [hn, Bool.false_eq_true, if_false]

theorem chanPending_single (g : Graph) (p : Pending) (scid : Nat) :
    chanPending ⟨g, [p], [(scid, p.fid)]⟩ scid = some p := by
  simp [chanPending, List.find?]

theorem chanPending_single_ne (g : Graph) (p : Pending) (scid s : Nat) (h : scid ≠ s) :
    chanPending ⟨g, [p], [(scid, p.fid)]⟩ s = none := by
  have hb : (scid == s) = false := by simpa using h
  simp [chanPending, List.find?, hb]

theorem deliver_park (a : ChanAnn) (g : Graph) (p : Pending) (m : Msg) (hpa : p.ann = a) (hf : Fresh a g)
    (hp : parks a m = true) (hw : WinOk a m) :
    (deliver ⟨g, [p], [(a.scid, p.fid)]⟩ m).1 = ⟨g, [holdMsg p m], [(a.scid, p.fid)]⟩ := by
  cases m with
  | chanAnn b => simp [parks] at hp
  | chanUpd u =>
    have hs : u.scid = a.scid := by simpa [parks] using hp
    have hg : g.channels.get u.scid = none := by rw [hs]; exact hf.1
    have hr := applyChanUpd_unknown hg (hw hs)
    simp only [deliver, deliverChanUpd, hr, if_true, hs, chanPending_single, holdMsg, List.map_cons, List.map_nil,
      beq_self_eq_true]
  | nodeAnn n =>
    have hs : n.node = a.n1 ∨ n.node = a.n2 := by simpa [parks] using hp
    have hg : g.nodes.get n.node = none := by
      rcases hs with h | h
      · rw [h]; exact hf.2.1
      · rw [h]; exact hf.2.2
    have hr := applyNodeAnn_unknown hg (hw hs)
    have hinv : involves p n.node = true := by
      simp only [involves, hpa, Bool.or_eq_true, beq_iff_eq]
      rcases hs with h | h
      · exact Or.inl h.symm
      · exact Or.inr h.symm
    simp only [deliver, deliverNodeAnn, hr, List.any_cons, List.any_nil, hinv, Bool.or_false, Bool.and_true,
      decide_true, if_true, holdMsg, List.map_cons, List.map_nil]

theorem deliver_direct (a : ChanAnn) (g : Graph) (p : Pending) (m : Msg) (hpa : p.ann = a)
    (hp : parks a m = false) (hw : WinOk a m) :
    (deliver ⟨g, [p], [(a.scid, p.fid)]⟩ m).1 = ⟨(Impl.applyMsg g m).1, [p], [(a.scid, p.fid)]⟩ := by
  cases m with
  | chanAnn b => exact absurd hw (by simp [WinOk])
  | chanUpd u =>
    have hs : a.scid ≠ u.scid := by
      intro e; simp [parks, e] at hp
    simp only [deliver, deliverChanUpd, Impl.applyMsg, chanPending_single_ne g p a.scid u.scid hs]
    split
    · rename_i h
      have h1 := Impl.applyChanUpd_eq g u
      have : (Impl.applyChanUpd g u).1 = g := by
        rw [h1]; rw [h1] at h; exact applyChanUpd_reject h
      rw [this]
    · rfl
  | nodeAnn n =>
    have hinv : involves p n.node = false := by
      simp only [parks, Bool.or_eq_false_iff, beq_eq_false_iff_ne, ne_eq] at hp
      simp only [involves, hpa, Bool.or_eq_false_iff, beq_eq_false_iff_ne, ne_eq]
      exact ⟨fun e => hp.1 e.symm, fun e => hp.2 e.symm⟩
    simp only [deliver, deliverNodeAnn, Impl.applyMsg, List.any_cons, List.any_nil, hinv, Bool.or_false,
      Bool.and_false, Bool.false_eq_true, if_false]

theorem fresh_applyMsg (a : ChanAnn) (g : Graph) (m : Msg) (hm : ∀ b, m ≠ .chanAnn b) (hf : Fresh a g) :
    Fresh a (Impl.applyMsg g m).1 := by
  rw [Impl.applyMsg_eq]
  cases m with
  | chanAnn b => exact absurd rfl (hm b)
  | chanUpd u =>
    simp only [applyMsg, applyChanUpd_fst]
    refine ⟨?_, hf.2.1, hf.2.2⟩
    simp only [SMap.get_set]
    split
    · rename_i e
      rw [← e, hf.1]; rfl
    · exact hf.1
  | nodeAnn n =>
    simp only [applyMsg, applyNodeAnn_fst]
    refine ⟨hf.1, ?_, ?_⟩
    · simp only [SMap.get_set]
      split
      · rename_i e; rw [← e, hf.2.1]; rfl
      · exact hf.2.1
    · simp only [SMap.get_set]
      split
      · rename_i e; rw [← e, hf.2.2]; rfl
      · exact hf.2.2

/-! ### the window -/

def winOps (ms : List Msg) : List AOp := ms.map (fun m => .base (.msg m))

theorem window_run (a : ChanAnn) : ∀ (ms : List Msg) (g : Graph) (p : Pending), p.ann = a → Fresh a g →
    (∀ m ∈ ms, WinOk a m) → NoContention a p ms →
    ∃ (D : List Msg) (p' : Pending),
      run ⟨g, [p], [(a.scid, p.fid)]⟩ (winOps ms) = ⟨Impl.runMsgs g D, [p'], [(a.scid, p.fid)]⟩ ∧
      p'.fid = p.fid ∧ p'.ann = a ∧ p'.complete = p.complete ∧ Fresh a (Impl.runMsgs g D) ∧
      (D ++ heldList p').Perm (heldList p ++ ms) ∧ (∀ x ∈ D, parks a x = false ∧ ∀ b, x ≠ .chanAnn b) := by
  intro ms
  induction ms with
  | nil =>
    intro g p hpa hf _ _
    exact ⟨[], p, rfl, rfl, hpa, rfl, hf, by simp, by intro x hx; cases hx⟩
  | cons m t ih =>
    intro g p hpa hf hw hc
    have hwm : WinOk a m := hw m (List.mem_cons_self ..)
    have hwt : ∀ x ∈ t, WinOk a x := fun x hx => hw x (List.mem_cons_of_mem _ hx)
    have hnotann : ∀ b, m ≠ .chanAnn b := by
      intro b e; subst e; exact hwm
    by_cases hp : parks a m = true
    · simp only [NoContention, hp, if_true] at hc
      obtain ⟨D, p', hrun, h1, h2, h3, h4, h5, h6⟩ :=
        ih g (holdMsg p m) (by rw [holdMsg_ann]; exact hpa) hf hwt hc.2
      rw [holdMsg_fid] at hrun h1
      refine ⟨D, p', ?_, h1, h2, by rw [h3, holdMsg_complete], h4, ?_, h6⟩
      · show run (step ⟨g, [p], [(a.scid, p.fid)]⟩ (.base (.msg m))).1 (winOps t) = _
        simp only [step]
        rw [deliver_park a g p m hpa hf hp hwm]
        exact hrun
      · refine h5.trans ?_
        refine ((heldList_hold a p m hp hc.1).append_right t).trans ?_
        simp
    · have hp' : parks a m = false := by simpa using hp
      simp only [NoContention, hp', Bool.false_eq_true, if_false] at hc
      obtain ⟨D, p', hrun, h1, h2, h3, h4, h5, h6⟩ :=
        ih (Impl.applyMsg g m).1 p hpa (fresh_applyMsg a g m hnotann hf) hwt hc
      refine ⟨m :: D, p', ?_, h1, h2, h3, h4, ?_, ?_⟩
      · show run (step ⟨g, [p], [(a.scid, p.fid)]⟩ (.base (.msg m))).1 (winOps t) = _
        simp only [step]
        rw [deliver_direct a g p m hpa hp' hwm]
        exact hrun
      · simp only [List.cons_append]
        exact (h5.cons m).trans List.perm_middle.symm
      · intro x hx
        simp only [List.mem_cons] at hx
        rcases hx with rfl | hx
        · exact ⟨hp', hnotann⟩
        · exact h6 x hx

/-! ### the resolution -/

theorem runMsgsI_append (g : Graph) (l1 l2 : List Msg) :
    Impl.runMsgs g (l1 ++ l2) = Impl.runMsgs (Impl.runMsgs g l1) l2 := by
  simp [Impl.runMsgs, List.foldl_append]

theorem foldNodes_nopending (l : List NodeAnn) : ∀ (acc : Acc), acc.1.pend = [] →
    (l.foldl (fun ac n => note ac (deliverNodeAnn ac.1 n) (.nodeAnn n) n.verify) acc).1 =
      ⟨Impl.runMsgs acc.1.g (l.map .nodeAnn), [], acc.1.chans⟩ := by
  induction l with
  | nil => intro acc h; obtain ⟨⟨g, pd, cs⟩, ev⟩ := acc; simp only at h; subst h; rfl
  | cons n t ih =>
    intro acc h
    obtain ⟨⟨g, pd, cs⟩, ev⟩ := acc
    simp only at h; subst h
    simp only [List.foldl_cons, List.map_cons]
    have hd := deliver_nopending g cs (.nodeAnn n)
    simp only [deliver] at hd
    rw [ih]
    · simp only [note_fst, hd]; rfl
    · simp only [note_fst, hd]

theorem foldUpds_nopending (l : List ChanUpd) : ∀ (acc : Acc), acc.1.pend = [] →
    (l.foldl (fun ac u => note ac (replayUpd ac.1 u) (.chanUpd u) u.verify) acc).1 =
      ⟨Impl.runMsgs acc.1.g (l.map .chanUpd), [], acc.1.chans⟩ := by
  induction l with
  | nil => intro acc h; obtain ⟨⟨g, pd, cs⟩, ev⟩ := acc; simp only at h; subst h; rfl
  | cons u t ih =>
    intro acc h
    obtain ⟨⟨g, pd, cs⟩, ev⟩ := acc
    simp only at h; subst h
    simp only [List.foldl_cons, List.map_cons]
    have hd := deliver_nopending g cs (.chanUpd u)
    simp only [deliver] at hd
    rw [ih]
    · simp only [note_fst, replayUpd_eq, hd]; rfl
    · simp only [note_fst, replayUpd_eq, hd]

theorem process_single (g : Graph) (p : Pending) (cs : List (Nat × Nat)) (r : Utxo) (now : Nat)
    (hc : p.complete = some r) (hcs : ∀ e ∈ cs, e.2 = p.fid) :
    (process ⟨g, [p], cs⟩ now).1 = ⟨Impl.runMsgs g (.chanAnn (reAnswer p.ann r now) :: heldList p), [], []⟩ := by
  have hfilt : cs.filter (fun e => !([p].any (fun q => q.fid == e.2))) = [] := by
    apply List.filter_eq_nil_iff.mpr
    intro e he
    simp [hcs e he]
  simp only [process, hc, Option.isSome_some, Option.isNone_some, List.filter_cons_of_pos, List.filter_nil,
    Bool.false_eq_true, not_false_eq_true, List.filter_cons_of_neg, hfilt, List.foldl_cons, List.foldl_nil]
  unfold replayOne
  simp only [hc, replayAnn]
  have hd := deliver_nopending g [] (.chanAnn { p.ann with utxo := r, now := now })
  simp only [deliver] at hd
  rw [foldUpds_nopending, foldNodes_nopending]
  · simp only [note_fst, hd, heldList, reAnswer, Impl.runMsgs, List.foldl_cons, List.foldl_append]
  · simp only [note_fst, hd]
  · rw [foldNodes_nopending]
    simp only [note_fst, hd]

theorem run_nopending (ms : List Msg) : ∀ (g : Graph), run ⟨g, [], []⟩ (winOps ms) = ⟨Impl.runMsgs g ms, [], []⟩ := by
  induction ms with
  | nil => intro g; rfl
  | cons m t ih =>
    intro g
    show run (step ⟨g, [], []⟩ (.base (.msg m))).1 (winOps t) = _
    simp only [step, deliver_nopending]
    rw [ih]; rfl

/-! ### admissibility of the two orders -/

theorem notAnn_mustPrecede (x y : Msg) (hx : ∀ b, x ≠ .chanAnn b) : mustPrecede x y = false := by
  cases x with
  | chanAnn b => exact absurd rfl (hx b)
  | chanUpd u => rfl
  | nodeAnn n => rfl

theorem parks_mustPrecede (a : ChanAnn) (r : Utxo) (now : Nat) (x : Msg) (hx : parks a x = false) :
    mustPrecede (.chanAnn (reAnswer a r now)) x = false := by
  cases x with
  | chanAnn b => rfl
  | chanUpd u =>
    simp only [parks, beq_eq_false_iff_ne, ne_eq] at hx
    simp only [mustPrecede, reAnswer, beq_eq_false_iff_ne, ne_eq]
    exact fun e => hx e.symm
  | nodeAnn n => simpa [parks, mustPrecede, reAnswer] using hx

theorem heldList_notAnn (p : Pending) : ∀ x ∈ heldList p, ∀ b, x ≠ .chanAnn b := by
  intro x hx b e
  subst e
  simp [heldList] at hx

theorem pairwise_of_mem {α : Type} {R : α → α → Prop} : ∀ (l : List α), (∀ x ∈ l, ∀ y ∈ l, R x y) → l.Pairwise R := by
  intro l
  induction l with
  | nil => intro _; exact List.Pairwise.nil
  | cons a t ih =>
    intro h
    refine List.pairwise_cons.mpr ⟨fun y hy => h a (List.mem_cons_self ..) y (List.mem_cons_of_mem _ hy), ?_⟩
    exact ih (fun x hx y hy => h x (List.mem_cons_of_mem _ hx) y (List.mem_cons_of_mem _ hy))

theorem ordered_notAnn (l : List Msg) (h : ∀ x ∈ l, ∀ b, x ≠ .chanAnn b) : Ordered l :=
  pairwise_of_mem l (fun _ _ y hy => notAnn_mustPrecede y _ (h y hy))

theorem conflict_ann_notAnn (a : ChanAnn) (y : Msg) (hy : ∀ b, y ≠ .chanAnn b) :
    conflict (.chanAnn a) y = false ∧ conflict y (.chanAnn a) = false := by
  cases y with
  | chanAnn b => exact absurd rfl (hy b)
  | chanUpd u => exact ⟨rfl, rfl⟩
  | nodeAnn n => exact ⟨rfl, rfl⟩

theorem run_append (s : State) (l1 l2 : List AOp) : run s (l1 ++ l2) = run (run s l1) l2 := by
  simp [run, List.foldl_append]

theorem annGate_answer (g : Graph) (a : ChanAnn) (r : Utxo) (now : Nat) (hr : r ≠ .noLookup) :
    annGate g (reAnswer a r now) = annGate g { a with utxo := .unknownTx } := by
  have h1 : Impl.chanAnnPre g (reAnswer a r now) = Impl.chanAnnPre g { a with utxo := .unknownTx } := by
    cases r <;> first | exact absurd rfl hr | rfl
  simp only [annGate, h1]; rfl

/-- SYNC vs ASYNC for a whole window (see Props/C17.lean `async_equals_sync_window_partial`) -/
theorem window_equiv (g : Graph) (a : ChanAnn) (fid : Nat) (r : Utxo) (now : Nat) (ms : List Msg)
    (hr : r ≠ .noLookup) (hf : Fresh a g) (hw : ∀ m ∈ ms, WinOk a m)
    (hc : NoContention a ⟨fid, a, none, none, none, none, none⟩ ms) (hnc : NoConflict ms) :
    (run ⟨g, [], []⟩ (.annAsync a fid :: (winOps ms ++ [.resolve fid r, .process now]))).g =
    (run ⟨g, [], []⟩ (.base (.msg (.chanAnn (reAnswer a r now))) :: winOps ms)).g := by
  have hsync : run ⟨g, [], []⟩ (.base (.msg (.chanAnn (reAnswer a r now))) :: winOps ms)
      = ⟨Impl.runMsgs g (.chanAnn (reAnswer a r now) :: ms), [], []⟩ := by
    show run (step ⟨g, [], []⟩ (.base (.msg (.chanAnn (reAnswer a r now))))).1 (winOps ms) = _
    simp only [step, deliver_nopending]
    rw [run_nopending]; rfl
  rw [hsync]
  show (run (step ⟨g, [], []⟩ (.annAsync a fid)).1 (winOps ms ++ [.resolve fid r, .process now])).g = _
  rw [run_append]
  simp only [step, annAsync, alreadyChecking, chanPending_nil]
  cases hg : annGate g { a with utxo := .unknownTx } with
  | some rj =>
    simp only [Bool.false_eq_true, if_false]
    rw [run_nopending]
    have hrej : Impl.applyMsg g (.chanAnn (reAnswer a r now)) = (g, .reject rj) := by
      have := annGate_answer g a r now hr
      rw [hg] at this
      exact annGate_some this
    simp only [run, List.foldl_cons, List.foldl_nil, step, resolve, List.map_nil, process, List.filter_nil]
    show Impl.runMsgs g ms = Impl.runMsgs (Impl.applyMsg g (.chanAnn (reAnswer a r now))).1 ms
    rw [hrej]
  | none =>
    simp only [Bool.false_eq_true, if_false, setChan, List.filter_nil, List.nil_append]
    obtain ⟨D, p', hrun, h1, h2, h3, h4, h5, h6⟩ :=
      window_run a ms g ⟨fid, a, none, none, none, none, none⟩ rfl hf hw hc
    simp only at hrun h1 h3
    rw [hrun]
    have hres : (run ⟨Impl.runMsgs g D, [p'], [(a.scid, fid)]⟩ [.resolve fid r, .process now])
        = (process ⟨Impl.runMsgs g D, [{ p' with complete := some r }], [(a.scid, fid)]⟩ now).1 := by
      simp only [run, List.foldl_cons, List.foldl_nil, step, resolve, List.map_cons, List.map_nil, h1,
        beq_self_eq_true, if_true]
    rw [hres, process_single (Impl.runMsgs g D) { p' with complete := some r } [(a.scid, fid)] r now rfl
      (by intro e he; simp only [List.mem_singleton] at he; subst he; exact h1.symm)]
    show Impl.runMsgs (Impl.runMsgs g D) (.chanAnn (reAnswer p'.ann r now) :: heldList p') = _
    rw [← runMsgsI_append, h2, Impl.runMsgs_eq, Impl.runMsgs_eq]
    have hK : ∀ x ∈ heldList p', ∀ b, x ≠ .chanAnn b := heldList_notAnn p'
    have hms : ∀ x ∈ ms, ∀ b, x ≠ .chanAnn b := by
      intro x hx b e; subst e; exact hw _ hx
    have hperm : (Msg.chanAnn (reAnswer a r now) :: ms).Perm (D ++ Msg.chanAnn (reAnswer a r now) :: heldList p') := by
      have h5' : (D ++ heldList p').Perm ms := by simpa [heldList, replayNodes, replayUpds] using h5
      exact (h5'.symm.cons _).trans List.perm_middle.symm
    symm
    apply runMsgs_perm _ _ g hperm
    · -- NoConflict
      intro x hx y hy
      simp only [List.mem_cons] at hx hy
      rcases hx with rfl | hx
      · rcases hy with rfl | hy
        · simp [conflict]
        · exact (conflict_ann_notAnn _ y (hms y hy)).1
      · rcases hy with rfl | hy
        · exact (conflict_ann_notAnn _ x (hms x hx)).2
        · exact hnc x hx y hy
    · -- Ordered (sync order)
      refine List.pairwise_cons.mpr ⟨fun y hy => notAnn_mustPrecede y _ (hms y hy), ordered_notAnn ms hms⟩
    · -- Ordered (async order)
      refine List.pairwise_append.mpr ⟨ordered_notAnn D (fun x hx => (h6 x hx).2), ?_, ?_⟩
      · exact List.pairwise_cons.mpr ⟨fun y hy => notAnn_mustPrecede y _ (hK y hy), ordered_notAnn _ hK⟩
      · intro x hx y hy
        simp only [List.mem_cons] at hy
        rcases hy with rfl | hy
        · exact parks_mustPrecede a r now x (h6 x hx).1
        · exact notAnn_mustPrecede y _ (hK y hy)
    · -- NoReplaceAll
      intro x hx
      simp only [List.mem_cons] at hx
      rcases hx with rfl | hx
      · intro c hc'
        have : g.channels.get a.scid = some c := hc'
        rw [hf.1] at this; cases this
      · cases x with
        | chanAnn b => exact absurd rfl (hms _ hx b)
        | chanUpd u => trivial
        | nodeAnn n => trivial

end Async
end Ldk.Gossip
