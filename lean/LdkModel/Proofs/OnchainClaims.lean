/- Helper lemmas for the entitlement ledger of Model/OnchainClaims.lean (C07).  Core only. -/
import LdkModel.Model.OnchainClaims
import LdkModel.Model.CloseCfg
import LdkModel.Proofs.Package
namespace Ldk.Onchain
open Ldk

theorem sum_map_add (es : List Entry) (f g : Entry → Nat) :
    sum (es.map fun e => f e + g e) = sum (es.map f) + sum (es.map g) := by
  induction es with
  | nil => rfl
  | cons e rest ih => simp only [List.map_cons, sum, List.foldr_cons] at ih ⊢; omega

theorem sum_map_congr (es : List Entry) (f g : Entry → Nat) (h : ∀ e ∈ es, f e = g e) :
    sum (es.map f) = sum (es.map g) := by
  induction es with
  | nil => rfl
  | cons e rest ih =>
    simp only [List.map_cons, sum, List.foldr_cons]
    have := ih (fun e' he' => h e' (List.mem_cons_of_mem _ he'))
    simp only [sum] at this
    rw [h e List.mem_cons_self, this]

theorem balanceTotal_eq (l : Ledger) : balanceTotal l = sum (l.entries.map Entry.owned) := by
  unfold balanceTotal balances
  induction l.entries with
  | nil => rfl
  | cons e rest ih =>
    simp only [List.filterMap_cons, List.map_cons, Entry.owned]
    cases hb : e.balance with
    | none => simpa [sum] using ih
    | some b => simp only [List.map_cons, sum, List.foldr_cons] at ih ⊢; omega

/-- bookkeeping invariant of an entry: a claimed / matured entry is one the node may claim, and
    nets at most the output's value -/
def Entry.ok (e : Entry) : Prop := match e.stage with
  | .claimed _ net => e.item.kind ≠ .inboundHtlcUnknown ∧ net ≤ e.item.sat
  | .matured net => e.item.kind ≠ .inboundHtlcUnknown ∧ net ≤ e.item.sat
  | _ => True

/-- per entry: reported (owned) + spendable + fees + lost = entitled -/
theorem Entry.conserved (e : Entry) (h : e.ok) :
    e.owned + e.spendable + e.feePaid + e.lostSat = e.item.entitled := by
  obtain ⟨item, stage⟩ := e
  cases stage with
  | pending =>
    simp only [Entry.owned, Entry.balance, Entry.spendable, Entry.feePaid, Entry.lostSat, Bal.owned,
      Item.pendingClass, Item.entitled]
    cases item.kind <;> simp
  | claimed th net =>
    simp only [Entry.ok] at h
    simp only [Entry.owned, Entry.balance, Entry.spendable, Entry.feePaid, Entry.lostSat, Bal.owned,
      Item.entitled, if_neg h.1]
    omega
  | lost th =>
    simp only [Entry.owned, Entry.balance, Entry.spendable, Entry.feePaid, Entry.lostSat, Bal.owned,
      Item.pendingClass, Item.entitled]
    cases item.kind <;> simp
  | matured net =>
    simp only [Entry.ok] at h
    simp only [Entry.owned, Entry.balance, Entry.spendable, Entry.feePaid, Entry.lostSat,
      Item.entitled, if_neg h.1]
    omega
  | gone =>
    simp [Entry.owned, Entry.balance, Entry.spendable, Entry.feePaid, Entry.lostSat]

theorem conserved_of_ok (l : Ledger) (h : ∀ e ∈ l.entries, e.ok) :
    balanceTotal l + spendableTotal l + feesTotal l + lostTotal l = entitlement l := by
  rw [balanceTotal_eq]
  unfold spendableTotal feesTotal lostTotal entitlement
  rw [← sum_map_add, ← sum_map_add, ← sum_map_add]
  exact sum_map_congr _ _ _ (fun e he => Entry.conserved e (h e he))

/-! ### steps preserve items and the invariant -/

theorem bury_item (best : Nat) (e : Entry) : (e.bury best).item = e.item := by
  unfold Entry.bury
  split <;> (try split) <;> rfl

theorem bury_ok (best : Nat) (e : Entry) (h : e.ok) : (e.bury best).ok := by
  obtain ⟨item, stage⟩ := e
  cases stage <;> simp only [Entry.bury] <;> (try exact h)
  · split
    · simpa [Entry.ok] using h
    · exact h
  · split
    · simp [Entry.ok]
    · exact h

theorem modifyAt_mem (xs : List Entry) (idx : Nat) (f : Entry → Entry) (e : Entry)
    (h : e ∈ modifyAt xs idx f) : ∃ e0 ∈ xs, e = e0 ∨ e = f e0 := by
  unfold modifyAt at h
  rw [List.mem_mapIdx] at h
  obtain ⟨i, hi, rfl⟩ := h
  refine ⟨xs[i], List.getElem_mem hi, ?_⟩
  split
  · right; rfl
  · left; rfl

theorem modifyAt_items (xs : List Entry) (idx : Nat) (f : Entry → Entry) (hf : ∀ e, (f e).item = e.item) :
    (modifyAt xs idx f).map (·.item) = xs.map (·.item) := by
  unfold modifyAt
  apply List.ext_getElem
  · simp
  · intro i h1 h2
    simp only [List.getElem_map, List.getElem_mapIdx]
    split
    · exact hf _
    · rfl

def claimFn (h net : Nat) (e : Entry) : Entry := match e.stage with
  | .pending => if e.item.kind = .inboundHtlcUnknown then e else { e with stage := .claimed h (Nat.min net e.item.sat) }
  | _ => e
def peerFn (h : Nat) (e : Entry) : Entry := match e.stage with
  | .pending => { e with stage := .lost h }
  | _ => e

theorem step_claim (l : Ledger) (idx h net : Nat) :
    step l (.claim idx h net) = { l with entries := modifyAt l.entries idx (claimFn h net) } := rfl
theorem step_peer (l : Ledger) (idx h : Nat) :
    step l (.peerClaim idx h) = { l with entries := modifyAt l.entries idx (peerFn h) } := rfl

theorem claimFn_item (h net : Nat) (e : Entry) : (claimFn h net e).item = e.item := by
  unfold claimFn; split <;> (try split) <;> rfl
theorem peerFn_item (h : Nat) (e : Entry) : (peerFn h e).item = e.item := by
  unfold peerFn; split <;> rfl
theorem claimFn_ok (h net : Nat) (e : Entry) (he : e.ok) : (claimFn h net e).ok := by
  unfold claimFn
  split
  · split
    · exact he
    · rename_i hk
      exact ⟨hk, Nat.min_le_right _ _⟩
  · exact he
theorem peerFn_ok (h : Nat) (e : Entry) (he : e.ok) : (peerFn h e).ok := by
  unfold peerFn
  split
  · simp [Entry.ok]
  · exact he

theorem step_ok (l : Ledger) (op : Op) (h : ∀ e ∈ l.entries, e.ok) : ∀ e ∈ (step l op).entries, e.ok := by
  cases op with
  | block hh =>
    intro e he
    simp only [step, List.mem_map] at he
    obtain ⟨e0, he0, rfl⟩ := he
    exact bury_ok _ e0 (h e0 he0)
  | claim idx hh net =>
    intro e he
    rw [step_claim] at he
    obtain ⟨e0, he0, rfl | rfl⟩ := modifyAt_mem _ _ _ _ he
    · exact h _ he0
    · exact claimFn_ok _ _ _ (h _ he0)
  | peerClaim idx hh =>
    intro e he
    rw [step_peer] at he
    obtain ⟨e0, he0, rfl | rfl⟩ := modifyAt_mem _ _ _ _ he
    · exact h _ he0
    · exact peerFn_ok _ _ (h _ he0)

theorem step_items (l : Ledger) (op : Op) : (step l op).entries.map (·.item) = l.entries.map (·.item) := by
  cases op with
  | block hh =>
    simp only [step, List.map_map]
    apply List.map_congr_left
    intro e _
    exact bury_item _ e
  | claim idx hh net => rw [step_claim]; exact modifyAt_items _ _ _ (claimFn_item hh net)
  | peerClaim idx hh => rw [step_peer]; exact modifyAt_items _ _ _ (peerFn_item hh)

theorem run_ok (l : Ledger) (ops : List Op) (h : ∀ e ∈ l.entries, e.ok) : ∀ e ∈ (run l ops).entries, e.ok := by
  induction ops generalizing l with
  | nil => exact h
  | cons op rest ih => exact ih (step l op) (step_ok l op h)

theorem run_items (l : Ledger) (ops : List Op) : (run l ops).entries.map (·.item) = l.entries.map (·.item) := by
  induction ops generalizing l with
  | nil => rfl
  | cons op rest ih => exact (ih (step l op)).trans (step_items l op)

theorem close_ok (height : Nat) (items : List Item) : ∀ e ∈ (close height items).entries, e.ok := by
  intro e he
  simp only [close, List.mem_map] at he
  obtain ⟨i, _, rfl⟩ := he
  by_cases hk : i.kind = .toSelf
  · simp [Entry.ok, hk]
  · simp [Entry.ok, hk]

theorem close_items (height : Nat) (items : List Item) : (close height items).entries.map (·.item) = items := by
  simp [close, List.map_map, Function.comp_def]

theorem entitlement_eq (l : Ledger) : entitlement l = sum ((l.entries.map (·.item)).map Item.entitled) := by
  simp [entitlement, List.map_map, Function.comp_def]

/-! ### settling -/

/-- height at which an in-flight entry is buried -/
def Entry.settleHeight (e : Entry) : Nat := match e.stage with
  | .claimed h _ => confirmationThreshold h e.item.csv
  | .lost h => confirmationThreshold h none
  | _ => 0

theorem le_sum_of_mem (es : List Entry) (f : Entry → Nat) (e : Entry) (h : e ∈ es) : f e ≤ sum (es.map f) := by
  induction es with
  | nil => cases h
  | cons x rest ih =>
    simp only [List.map_cons, sum, List.foldr_cons]
    rcases List.mem_cons.mp h with rfl | h'
    · omega
    · have := ih h'; simp only [sum] at this; omega

theorem bury_settled (best : Nat) (e : Entry) (hp : e.stage ≠ .pending) (hb : e.settleHeight ≤ best) :
    (match (e.bury best).stage with | .matured _ | .gone => true | _ => false) = true := by
  obtain ⟨item, stage⟩ := e
  cases stage with
  | pending => exact absurd rfl hp
  | claimed h net =>
    simp only [Entry.settleHeight] at hb
    simp [Entry.bury, hasReachedConfirmationThreshold, hb]
  | lost h =>
    simp only [Entry.settleHeight] at hb
    simp [Entry.bury, hasReachedConfirmationThreshold, hb]
  | matured net => simp [Entry.bury]
  | gone => simp [Entry.bury]

end Ldk.Onchain

/-! ### fee-bump trajectories (C07) -/
namespace Ldk.Onchain
open Ldk Ldk.Pkg

/-- every step's estimate leaves `feerate_estimate * 5` inside a u32 (where the Nat rendering of the
    Rust arithmetic is exact) -/
def EstInRange (steps : List (FeerateStrategy × Nat)) : Prop :=
  ∀ p ∈ steps, 5 * boundedSatPer1000Weight p.2 ≤ U32_MAX

theorem extTargets_ge (steps : List (FeerateStrategy × Nat)) :
    ∀ prev, prev ≤ U32_MAX → EstInRange steps → ∀ t ∈ extTargets prev steps, prev ≤ t ∧ t ≤ U32_MAX := by
  induction steps with
  | nil => intro prev _ _ t ht; cases ht
  | cons p rest ih =>
    intro prev hp hr t ht
    obtain ⟨s, est⟩ := p
    have hge := computePackageFeerate_ge prev s est
    have hin := computePackageFeerate_in_range prev s est (hr (s, est) List.mem_cons_self)
    rw [pf_nat_min_eq] at hge
    simp only [extTargets, List.mem_cons] at ht
    rcases ht with rfl | ht
    · exact ⟨by omega, hin⟩
    · have := ih _ hin (fun q hq => hr q (List.mem_cons_of_mem _ hq)) t ht
      exact ⟨by omega, this.2⟩

theorem extTargets_pairwise (steps : List (FeerateStrategy × Nat)) :
    ∀ prev, prev ≤ U32_MAX → EstInRange steps → (extTargets prev steps).Pairwise (· ≤ ·) := by
  induction steps with
  | nil => intro prev _ _; exact List.Pairwise.nil
  | cons p rest ih =>
    intro prev hp hr
    obtain ⟨s, est⟩ := p
    have hin := computePackageFeerate_in_range prev s est (hr (s, est) List.mem_cons_self)
    have hr' : EstInRange rest := fun q hq => hr q (List.mem_cons_of_mem _ hq)
    simp only [extTargets]
    exact List.Pairwise.cons (fun t ht => (extTargets_ge rest _ hin hr' t ht).1) (ih _ hin hr')

theorem ownStep_ge {amt w dust prev : Nat} {s : FeerateStrategy} {est out rate : Nat} (hw : 4 ≤ w)
    (h : computePackageOutput amt w dust prev s est = some (out, rate)) :
    prev ≤ rate ∧ FEERATE_FLOOR_SATS_PER_KW ≤ rate ∨ prev ≤ rate ∧ prev ≠ 0 := by
  obtain ⟨fee, _, hc⟩ := computePackageOutput_some h
  rcases hc with ⟨hp, hb⟩ | ⟨hp, hb⟩
  · exact Or.inr ⟨(feerate_bump_monotone_core w amt dust prev s est fee rate hb).1 hw, hp⟩
  · have := (computeFee_some hb).2.2
    exact Or.inl ⟨by omega, this⟩

theorem ownFeerates_ge (rs : List Reissue) :
    ∀ prev, (∀ r ∈ rs, 4 ≤ r.weight) → ∀ t ∈ ownFeerates prev rs, prev ≤ t := by
  induction rs with
  | nil => intro prev _ t ht; cases ht
  | cons r rest ih =>
    intro prev hw t ht
    have hw' : ∀ r' ∈ rest, 4 ≤ r'.weight := fun q hq => hw q (List.mem_cons_of_mem _ hq)
    simp only [ownFeerates] at ht
    split at ht
    · rename_i out rate hc
      have hge : prev ≤ rate := by
        rcases ownStep_ge (hw r List.mem_cons_self) hc with h | h <;> exact h.1
      rcases List.mem_cons.mp ht with rfl | ht
      · exact hge
      · exact Nat.le_trans hge (ih _ hw' t ht)
    · exact ih _ hw' t ht

theorem ownFeerates_pairwise (rs : List Reissue) :
    ∀ prev, (∀ r ∈ rs, 4 ≤ r.weight) → (ownFeerates prev rs).Pairwise (· ≤ ·) := by
  induction rs with
  | nil => intro prev _; exact List.Pairwise.nil
  | cons r rest ih =>
    intro prev hw
    have hw' : ∀ r' ∈ rest, 4 ≤ r'.weight := fun q hq => hw q (List.mem_cons_of_mem _ hq)
    simp only [ownFeerates]
    split
    · exact List.Pairwise.cons (fun t ht => ownFeerates_ge rest _ hw' t ht) (ih _ hw')
    · exact ih _ hw'

end Ldk.Onchain

/-! ### per-side CSV delays (C07): closures built by `closeWith` -/
namespace Ldk.Onchain
open Ldk Ldk.Maturity

theorem closeWith_items (c : CloseCfg) (height : Nat) (items : List Item) :
    (closeWith c height items).entries.map (·.item) = items.map fun i => { i with csv := itemCsv c i.kind } := by
  unfold closeWith
  exact close_items _ _

/-- in every state reachable from `closeWith c ..`, every entry carries the configuration's csv -/
theorem run_closeWith_csv (c : CloseCfg) (height : Nat) (items : List Item) (ops : List Op) :
    ∀ e ∈ (run (closeWith c height items) ops).entries, e.item.csv = itemCsv c e.item.kind := by
  intro e he
  have h1 : e.item ∈ (run (closeWith c height items) ops).entries.map (·.item) := List.mem_map.2 ⟨e, he, rfl⟩
  rw [run_items, closeWith_items] at h1
  obtain ⟨i, _, hi⟩ := List.mem_map.1 h1
  rw [← hi]

/-- burial of a claimed entry, spelled out -/
theorem bury_claimed_iff (best h net : Nat) (e : Entry) (hs : e.stage = .claimed h net) :
    (e.bury best).stage = .matured net ↔
      (h + ANTI_REORG_DELAY ≤ best + 1 ∧ ∀ d, e.item.csv = some d → h + d ≤ best + 1) := by
  have ha : ANTI_REORG_DELAY = 6 := rfl
  unfold Entry.bury
  rw [hs]
  simp only
  unfold hasReachedConfirmationThreshold confirmationThreshold
  cases hc : e.item.csv with
  | none =>
    simp only [ge_iff_le, decide_eq_true_eq]
    constructor
    · intro hm
      split at hm
      · rename_i hle
        exact ⟨by omega, fun d hd => by cases hd⟩
      · rw [hs] at hm; cases hm
    · intro hm
      rw [if_pos (by omega)]
  | some d =>
    simp only [ge_iff_le, decide_eq_true_eq]
    have e1 : Nat.max (h + ANTI_REORG_DELAY - 1) (h + d - 1) = max (h + ANTI_REORG_DELAY - 1) (h + d - 1) := rfl
    rw [e1]
    constructor
    · intro hm
      split at hm
      · rename_i hle
        refine ⟨by omega, fun d' hd => ?_⟩
        cases hd
        omega
      · rw [hs] at hm; cases hm
    · intro hm
      have := hm.2 d rfl
      rw [if_pos (by omega)]

end Ldk.Onchain

/-! ### a preimage learned after the closing commitment confirmed (C07): `HLedger` -/
namespace Ldk.Onchain
open Ldk Ldk.PreimageClaims

theorem mem_matchingIdx {α : Type} (p : α → Bool) (xs : List α) :
    ∀ k j, j ∈ matchingIdx p xs k ↔ k ≤ j ∧ ∃ x, xs[j - k]? = some x ∧ p x = true := by
  induction xs with
  | nil => intro k j; simp [matchingIdx]
  | cons y ys ih =>
    intro k j
    unfold matchingIdx
    by_cases hp : p y = true
    · rw [if_pos hp, List.mem_cons, ih]
      constructor
      · rintro (rfl | ⟨hk, x, hx, hpx⟩)
        · exact ⟨Nat.le_refl _, y, by simp, hp⟩
        · refine ⟨by omega, x, ?_, hpx⟩
          have : j - k = (j - (k + 1)) + 1 := by omega
          rw [this, List.getElem?_cons_succ]; exact hx
      · rintro ⟨hk, x, hx, hpx⟩
        by_cases hjk : j = k
        · exact Or.inl hjk
        · right
          refine ⟨by omega, x, ?_, hpx⟩
          have : j - k = (j - (k + 1)) + 1 := by omega
          rw [this, List.getElem?_cons_succ] at hx; exact hx
    · rw [if_neg hp, ih]
      constructor
      · rintro ⟨hk, x, hx, hpx⟩
        refine ⟨by omega, x, ?_, hpx⟩
        have : j - k = (j - (k + 1)) + 1 := by omega
        rw [this, List.getElem?_cons_succ]; exact hx
      · rintro ⟨hk, x, hx, hpx⟩
        have hjk : j ≠ k := by
          intro h; subst h
          simp at hx; subst hx; exact hp hpx
        refine ⟨by omega, x, ?_, hpx⟩
        have : j - k = (j - (k + 1)) + 1 := by omega
        rw [this, List.getElem?_cons_succ] at hx; exact hx

theorem provide_getElem? (hl : HLedger) (m i : Nat) :
    (hl.provide m).ledger.entries[i]? =
      (hl.ledger.entries[i]?).map fun e =>
        if (hl.sel m).contains i then e.learn hl.cfg else e := by
  simp only [HLedger.provide, List.getElem?_mapIdx]


theorem learn_item_sat (c : CloseCfg) (e : Entry) : (e.learn c).item.sat = e.item.sat ∧ (e.learn c).stage = e.stage := by
  unfold Entry.learn
  split
  · split <;> exact ⟨rfl, rfl⟩
  · exact ⟨rfl, rfl⟩

theorem learn_ok (c : CloseCfg) (e : Entry) (h : e.ok) : (e.learn c).ok := by
  unfold Entry.learn
  split
  · rename_i hs
    split
    · simp only [Entry.ok, hs]
    · exact h
  · exact h

/-- an unspent inbound HTLC that learns its preimage can be claimed -/
theorem learn_kind (c : CloseCfg) (e : Entry) (hs : e.stage = .pending) (hi : e.item.inbound = true) :
    (e.learn c).item.kind = .inboundHtlcPreimage := by
  unfold Entry.learn
  rw [hs]
  simp only
  split
  · rfl
  · rename_i hk
    unfold Item.inbound at hi
    simp only [Bool.or_eq_true, decide_eq_true_eq] at hi
    rcases hi with h | h
    · exact h
    · exact absurd h hk

theorem provide_ok (hl : HLedger) (m : Nat) (h : ∀ e ∈ hl.ledger.entries, e.ok) :
    ∀ e ∈ (hl.provide m).ledger.entries, e.ok := by
  intro e he
  obtain ⟨i, hi⟩ := List.getElem?_of_mem he
  rw [provide_getElem?] at hi
  cases hg : hl.ledger.entries[i]? with
  | none => rw [hg] at hi; cases hi
  | some e0 =>
    rw [hg] at hi
    simp only [Option.map_some, Option.some.injEq] at hi
    have h0 := h e0 (List.mem_of_getElem? hg)
    generalize hl.sel m = S at hi
    rw [← hi]
    by_cases hc : S.contains i = true
    · rw [if_pos hc]; exact learn_ok hl.cfg e0 h0
    · rw [if_neg hc]; exact h0

theorem hstep_ok (hl : HLedger) (o : HOp) (h : ∀ e ∈ hl.ledger.entries, e.ok) :
    ∀ e ∈ (hl.step o).ledger.entries, e.ok := by
  cases o with
  | op o => exact step_ok hl.ledger o h
  | provide m => exact provide_ok hl m h

theorem hrun_ok (ops : List HOp) : ∀ (hl : HLedger), (∀ e ∈ hl.ledger.entries, e.ok) →
    ∀ e ∈ (hl.run ops).ledger.entries, e.ok := by
  induction ops with
  | nil => intro hl h; exact h
  | cons o rest ih =>
    intro hl h
    exact ih (hl.step o) (hstep_ok hl o h)

theorem hclose_ok (c : CloseCfg) (height : Nat) (items : List (Item × Nat)) :
    ∀ e ∈ (hclose c height items).ledger.entries, e.ok := by
  unfold hclose closeWith
  exact close_ok _ _

/-- the invariant "every entry carries the configuration's csv for its kind" -/
def HLedger.csvOk (hl : HLedger) : Prop := ∀ e ∈ hl.ledger.entries, e.item.csv = itemCsv hl.cfg e.item.kind

theorem learn_csv (c : CloseCfg) (e : Entry) (h : e.item.csv = itemCsv c e.item.kind) :
    (e.learn c).item.csv = itemCsv c (e.learn c).item.kind := by
  unfold Entry.learn
  split
  · split
    · rfl
    · exact h
  · exact h

theorem provide_cfg (hl : HLedger) (m : Nat) : (hl.provide m).cfg = hl.cfg := rfl

theorem provide_csvOk (hl : HLedger) (m : Nat) (h : hl.csvOk) : (hl.provide m).csvOk := by
  intro e he
  obtain ⟨i, hi⟩ := List.getElem?_of_mem he
  rw [provide_getElem?] at hi
  cases hg : hl.ledger.entries[i]? with
  | none => rw [hg] at hi; cases hi
  | some e0 =>
    rw [hg] at hi
    simp only [Option.map_some, Option.some.injEq] at hi
    have h0 := h e0 (List.mem_of_getElem? hg)
    generalize hl.sel m = S at hi
    rw [provide_cfg, ← hi]
    by_cases hc : S.contains i = true
    · rw [if_pos hc]; exact learn_csv hl.cfg e0 h0
    · rw [if_neg hc]; exact h0

theorem step_csvOk (hl : HLedger) (o : Op) (h : hl.csvOk) : (hl.step (.op o)).csvOk := by
  intro e he
  have h1 : e.item ∈ (Onchain.step hl.ledger o).entries.map (·.item) := List.mem_map.2 ⟨e, he, rfl⟩
  rw [step_items] at h1
  obtain ⟨e0, he0, hi⟩ := List.mem_map.1 h1
  have := h e0 he0
  show e.item.csv = itemCsv hl.cfg e.item.kind
  rw [← hi]; exact this

theorem hrun_csvOk (ops : List HOp) : ∀ (hl : HLedger), hl.csvOk → (hl.run ops).csvOk := by
  induction ops with
  | nil => intro hl h; exact h
  | cons o rest ih =>
    intro hl h
    apply ih
    cases o with
    | op o => exact step_csvOk hl o h
    | provide m => exact provide_csvOk hl m h

theorem hrun_cfg (ops : List HOp) : ∀ (hl : HLedger), (hl.run ops).cfg = hl.cfg := by
  induction ops with
  | nil => intro hl; rfl
  | cons o rest ih =>
    intro hl
    show ((hl.step o).run rest).cfg = hl.cfg
    rw [ih]
    cases o <;> rfl

theorem hclose_csvOk (c : CloseCfg) (height : Nat) (items : List (Item × Nat)) : (hclose c height items).csvOk := by
  intro e he
  have h1 : e.item ∈ (hclose c height items).ledger.entries.map (·.item) := List.mem_map.2 ⟨e, he, rfl⟩
  have : (hclose c height items).ledger = closeWith c height (items.map (·.1)) := rfl
  rw [this, closeWith_items] at h1
  obtain ⟨i, _, hi⟩ := List.mem_map.1 h1
  show e.item.csv = itemCsv c e.item.kind
  rw [← hi]

/-- with the scan shape `all`, every position whose element passes the test is selected -/
theorem selectIdx_all {α : Type} (p : α → Bool) (xs : List α) (i : Nat) (x : α) (hx : xs[i]? = some x) (hp : p x = true) :
    (selectIdx .all p xs).contains i = true := by
  simp only [selectIdx, List.contains_iff_mem]
  rw [mem_matchingIdx]
  exact ⟨Nat.zero_le _, x, by simpa using hx, hp⟩

end Ldk.Onchain
