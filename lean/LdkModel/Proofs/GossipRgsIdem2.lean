/- C17 — rapid gossip sync: a snapshot applied WITHOUT the final pruning (no clock supplied) is idempotent, channel
   updates (full and incremental) included. Key fact: once an update of the snapshot was applied to a direction, that
   direction carries the snapshot's backdated timestamp and every update of the same snapshot for it is refused as
   not newer — whatever fields it would inherit. -/
import LdkModel.Proofs.GossipRgsIdem
namespace Ldk.Gossip
namespace Impl

/-- the direction a snapshot update reads its base from and writes to -/
def updDir (u : RgsUpd) : Bool := Gen.dirInfoIsTwoToOne u.flags

/-- `rgsUpdMsg` as a function of the stored direction only -/
def msgOfBase (ts : Nat) (s : Snapshot) (u : RgsUpd) (stored : Option UpdInfo) : Option ChanUpd :=
  let std := Gen.rgsStdFlags u.flags
  let base : Option UpdInfo :=
    if Gen.rgsIncremental u.flags then stored
    else some { lastUpdate := 0, enabled := true, cltv := s.dCltv, htlcMin := s.dMin, htlcMax := s.dMax,
                feeBase := s.dBase, feeProp := s.dProp, hasMsg := false }
  base.map fun b =>
    { scid := u.scid, dir := decide (std &&& 1 = 1), disabled := decide (std &&& 2 = 2), ts := ts,
      cltv := if Gen.rgsHasCltv u.flags then u.cltv else b.cltv,
      htlcMin := if Gen.rgsHasHtlcMin u.flags then u.htlcMin else b.htlcMin,
      htlcMax := if Gen.rgsHasHtlcMax u.flags then u.htlcMax else b.htlcMax,
      feeBase := if Gen.rgsHasFeeBase u.flags then u.feeBase else b.feeBase,
      feeProp := if Gen.rgsHasFeeProp u.flags then u.feeProp else b.feeProp,
      chainOk := true, dontForward := false, verify := false, signer := 0 }

theorem rgsUpdMsg_eq (g : Graph) (ts : Nat) (s : Snapshot) (u : RgsUpd) :
    rgsUpdMsg g ts s u = msgOfBase ts s u ((g.channels.get u.scid).bind (fun c => c.dir (updDir u))) := rfl

theorem dir_bit (f : Nat) : decide ((Gen.rgsStdFlags f) &&& 1 = 1) = Gen.dirInfoIsTwoToOne f := by
  unfold Gen.rgsStdFlags Gen.dirInfoIsTwoToOne
  have h1 : (f &&& 3) &&& 1 = f &&& 1 := by
    have h31 : (3 &&& 1 : Nat) = 1 := by decide
    rw [Nat.and_assoc, h31]
  have h2 : f &&& 1 ≤ 1 := Nat.and_le_right
  rw [h1]
  by_cases h : f &&& 1 = 0
  · simp [h]
  · have : f &&& 1 = 1 := by omega
    simp [this]

theorem msg_facts {ts : Nat} {s : Snapshot} {u : RgsUpd} {st : Option UpdInfo} {cu : ChanUpd}
    (h : msgOfBase ts s u st = some cu) : cu.scid = u.scid ∧ cu.dir = updDir u ∧ cu.ts = ts ∧ cu.verify = false := by
  unfold msgOfBase at h
  simp only [Option.map_eq_some_iff] at h
  obtain ⟨b, _, hb⟩ := h
  subst hb
  exact ⟨rfl, dir_bit u.flags, rfl, rfl⟩

/-- what one snapshot update does to the channel entry it finds -/
def chanStep (ts : Nat) (s : Snapshot) (u : RgsUpd) (c : ChanInfo) : ChanInfo :=
  match msgOfBase ts s u (c.dir (updDir u)) with
  | none => c
  | some cu => if globalOk cu then updC c cu else c

theorem rgsUpdStep_eq (ts : Nat) (s : Snapshot) (g : Graph) (u : RgsUpd) :
    rgsUpdStep ts s g u = { g with channels := g.channels.set u.scid ((g.channels.get u.scid).map (chanStep ts s u)) } := by
  unfold rgsUpdStep
  rw [rgsUpdMsg_eq]
  cases hg : g.channels.get u.scid with
  | none =>
    simp only [Option.bind_none, Option.map_none]
    have hself : g = { g with channels := g.channels.set u.scid none } := by
      rw [← hg, SMap.set_get_self]
    cases hm : msgOfBase ts s u none with
    | none => exact hself
    | some cu =>
      simp only []
      rw [applyChanUpd_eq, applyChanUpd_fst, (msg_facts hm).1, hg]
      rfl
  | some c =>
    simp only [Option.bind_some, Option.map_some]
    unfold chanStep
    cases hm : msgOfBase ts s u (c.dir (updDir u)) with
    | none =>
      simp only []
      rw [← hg, SMap.set_get_self]
    | some cu =>
      simp only []
      rw [applyChanUpd_eq, applyChanUpd_fst, (msg_facts hm).1, hg]
      rfl

/-- the direction already carries a timestamp at least as new: the update is refused -/
theorem chanStep_settled (ts : Nat) (s : Snapshot) (u : RgsUpd) (c : ChanInfo) (x : UpdInfo)
    (hx : c.dir (updDir u) = some x) (hle : ts ≤ x.lastUpdate) : chanStep ts s u c = c := by
  unfold chanStep
  cases hm : msgOfBase ts s u (c.dir (updDir u)) with
  | none => rfl
  | some cu =>
    simp only []
    obtain ⟨_, hd, ht, _⟩ := msg_facts hm
    split
    · rw [updC_eq, hd, ht, hx]
      have : newer (some x) ts = false := by simp [newer]; omega
      simp [this]
    · rfl

theorem chanStep_cases (ts : Nat) (s : Snapshot) (u : RgsUpd) (c : ChanInfo) :
    chanStep ts s u c = c ∨
    (∃ info : UpdInfo, info.lastUpdate = ts ∧ chanStep ts s u c = c.setDir (updDir u) (some info) ∧
      newer (c.dir (updDir u)) ts = true) := by
  unfold chanStep
  cases hm : msgOfBase ts s u (c.dir (updDir u)) with
  | none => left; rfl
  | some cu =>
    simp only []
    obtain ⟨_, hd, ht, _⟩ := msg_facts hm
    split
    · rw [updC_eq]
      split
      · rename_i hc
        right
        simp only [Bool.and_eq_true] at hc
        refine ⟨cu.info, by simp [ChanUpd.info, ht], by rw [hd], ?_⟩
        rw [← hd, ← ht]; exact hc.2
      · left; rfl
    · left; rfl

theorem chanStep_idem (ts : Nat) (s : Snapshot) (u : RgsUpd) (c : ChanInfo) :
    chanStep ts s u (chanStep ts s u c) = chanStep ts s u c := by
  rcases chanStep_cases ts s u c with h | ⟨info, hi, h, _⟩
  · rw [h, h]
  · rw [h]
    apply chanStep_settled ts s u _ info
    · rw [dir_setDir]; simp
    · omega

/-- an update that does nothing stays an update that does nothing after any other update of the snapshot -/
theorem chanStep_dead_preserved (ts : Nat) (s : Snapshot) (u v : RgsUpd) (c : ChanInfo)
    (hu : chanStep ts s u c = c) : chanStep ts s u (chanStep ts s v c) = chanStep ts s v c := by
  rcases chanStep_cases ts s v c with h | ⟨info, hi, h, _⟩
  · rw [h]; exact hu
  · rw [h]
    by_cases hd : updDir u = updDir v
    · apply chanStep_settled ts s u _ info
      · rw [dir_setDir]; simp [hd]
      · omega
    · -- the other direction: same stored base, same static data, same decision
      have hdir : (c.setDir (updDir v) (some info)).dir (updDir u) = c.dir (updDir u) := by
        rw [dir_setDir]; simp [hd]
      unfold chanStep at hu ⊢
      rw [hdir]
      cases hm : msgOfBase ts s u (c.dir (updDir u)) with
      | none => rfl
      | some cu =>
        simp only [hm] at hu ⊢
        obtain ⟨_, hcd, ht, hv⟩ := msg_facts hm
        split
        · rename_i hgo
          simp only [hgo, if_true] at hu
          rw [updC_eq] at hu ⊢
          have hst : staticOk (c.setDir (updDir v) (some info)) cu = staticOk c cu := by
            unfold staticOk
            cases updDir v <;> simp [ChanInfo.setDir, ChanInfo.dirNode, hv]
          have hnew : newer ((c.setDir (updDir v) (some info)).dir cu.dir) cu.ts = newer (c.dir cu.dir) cu.ts := by
            rw [hcd, hdir]
          rw [hst, hnew]
          split at hu
          · rename_i hc
            -- accepted on `c` would have changed `c`
            exfalso
            simp only [Bool.and_eq_true] at hc
            have h1 : (c.setDir cu.dir (some cu.info)).dir cu.dir = some cu.info := by rw [dir_setDir]; simp
            rw [hu] at h1
            have h2 := hc.2
            rw [h1] at h2
            simp [newer, ChanUpd.info] at h2
          · rename_i hc
            simp only [hc, Bool.false_eq_true, if_false]
        · rfl

/-- every update of the list is a no-op on the channel entries of `g` -/
def DeadC (ts : Nat) (s : Snapshot) (g : Graph) (u : RgsUpd) : Prop :=
  ∀ c, g.channels.get u.scid = some c → chanStep ts s u c = c

theorem rgsUpdStep_dead (ts : Nat) (s : Snapshot) (g : Graph) (u : RgsUpd) (h : DeadC ts s g u) :
    rgsUpdStep ts s g u = g := by
  rw [rgsUpdStep_eq]
  cases hg : g.channels.get u.scid with
  | none => simp only [Option.map_none]; rw [← hg, SMap.set_get_self]
  | some c => simp only [Option.map_some, h c hg]; rw [← hg, SMap.set_get_self]

theorem dead_after_own_step (ts : Nat) (s : Snapshot) (g : Graph) (u : RgsUpd) :
    DeadC ts s (rgsUpdStep ts s g u) u := by
  intro c hc
  rw [rgsUpdStep_eq] at hc
  simp only [SMap.get_set, if_true] at hc
  cases hg : g.channels.get u.scid with
  | none => rw [hg] at hc; cases hc
  | some c0 =>
    rw [hg] at hc
    simp only [Option.map_some, Option.some.injEq] at hc
    rw [← hc]; exact chanStep_idem ts s u c0

theorem dead_preserved (ts : Nat) (s : Snapshot) (g : Graph) (u v : RgsUpd) (h : DeadC ts s g u) :
    DeadC ts s (rgsUpdStep ts s g v) u := by
  intro c hc
  rw [rgsUpdStep_eq] at hc
  simp only [SMap.get_set] at hc
  by_cases he : u.scid = v.scid
  · simp only [he, if_true] at hc
    cases hg : g.channels.get v.scid with
    | none => rw [hg] at hc; cases hc
    | some c0 =>
      rw [hg] at hc
      simp only [Option.map_some, Option.some.injEq] at hc
      rw [← hc]
      exact chanStep_dead_preserved ts s u v c0 (h c0 (by rw [he]; exact hg))
  · simp only [he, if_false] at hc
    exact h c hc

theorem fold_dead_preserved (ts : Nat) (s : Snapshot) (l : List RgsUpd) : ∀ (g : Graph) (u : RgsUpd),
    DeadC ts s g u → DeadC ts s (l.foldl (rgsUpdStep ts s) g) u := by
  induction l with
  | nil => intro g u h; exact h
  | cons v t ih => intro g u h; simp only [List.foldl_cons]; exact ih _ u (dead_preserved ts s g u v h)

theorem fold_all_dead (ts : Nat) (s : Snapshot) (l : List RgsUpd) : ∀ (g : Graph),
    ∀ u ∈ l, DeadC ts s (l.foldl (rgsUpdStep ts s) g) u := by
  induction l with
  | nil => intro g u hu; cases hu
  | cons v t ih =>
    intro g u hu
    simp only [List.foldl_cons]
    simp only [List.mem_cons] at hu
    rcases hu with rfl | hu
    · exact fold_dead_preserved ts s t _ u (dead_after_own_step ts s g u)
    · exact ih _ u hu

theorem fold_noop (ts : Nat) (s : Snapshot) (l : List RgsUpd) : ∀ (g : Graph), (∀ u ∈ l, DeadC ts s g u) →
    l.foldl (rgsUpdStep ts s) g = g := by
  induction l with
  | nil => intro g _; rfl
  | cons v t ih =>
    intro g h
    simp only [List.foldl_cons]
    rw [rgsUpdStep_dead ts s g v (h v (List.mem_cons_self ..))]
    exact ih g (fun u hu => h u (List.mem_cons_of_mem _ hu))

theorem foldUpds_nodes (ts : Nat) (s : Snapshot) (l : List RgsUpd) : ∀ (g : Graph),
    (l.foldl (rgsUpdStep ts s) g).nodes = g.nodes := by
  induction l with
  | nil => intro g; rfl
  | cons v t ih => intro g; simp only [List.foldl_cons]; rw [ih, rgsUpdStep_eq]

/-- announcements, node reminders, channel updates — a snapshot applied without a clock -/
def bodyNoClock (g : Graph) (s : Snapshot) : Graph × Outcome :=
  match rgsAnns g (Gen.rgsBackdated s.latestSeen) s.anns with
  | (g1, some e) => (g1, .reject e)
  | (g1, none) =>
    (s.upds.foldl (rgsUpdStep (Gen.rgsBackdated s.latestSeen) s)
      ((s.nodes.filterMap (rgsNodeMod g (Gen.rgsBackdated s.latestSeen))).foldl (fun g n => (Impl.applyNodeAnn g n).1) g1), .done)

theorem applySnapshot_noClock (g : Graph) (s : Snapshot) (hn : s.now = none) : applySnapshot g s = bodyNoClock g s := by
  unfold applySnapshot bodyNoClock
  simp only [hn, Bool.false_eq_true, if_false]
  cases hA : rgsAnns g (Gen.rgsBackdated s.latestSeen) s.anns with
  | mk g1 oe =>
    cases oe with
    | some e => rfl
    | none =>
      simp only []
      cases hE : s.upds with
      | nil => simp
      | cons u t => simp

theorem bodyNoClock_idem (g : Graph) (s : Snapshot) : bodyNoClock (bodyNoClock g s).1 s = bodyNoClock g s := by
  unfold bodyNoClock
  cases hA : rgsAnns g (Gen.rgsBackdated s.latestSeen) s.anns with
  | mk g1 oe =>
    have hagain := fun G hk => rgsAnns_again (Gen.rgsBackdated s.latestSeen) s.anns g G (by rw [hA]; exact hk)
    rw [hA] at hagain
    cases oe with
    | some e =>
      simp only []
      rw [hagain g1 (Keeps.refl _)]
    | none =>
      simp only []
      generalize hg2 : (s.nodes.filterMap (rgsNodeMod g (Gen.rgsBackdated s.latestSeen))).foldl (fun g n => (Impl.applyNodeAnn g n).1) g1 = g2
      generalize hg3 : s.upds.foldl (rgsUpdStep (Gen.rgsBackdated s.latestSeen) s) g2 = g3
      have hk : Keeps g1 g3 := by
        have h12 : Keeps g1 g2 := by rw [← hg2]; exact Keeps.of_grows (grows_foldNodes _ g1)
        have h23 : Keeps g2 g3 := by rw [← hg3]; exact Keeps.of_grows (grows_foldUpds _ s s.upds g2)
        exact h12.trans h23
      rw [hagain g3 hk]
      simp only []
      have hnodes : g3.nodes = g2.nodes := by rw [← hg3]; exact foldUpds_nodes _ s s.upds g2
      have hset : ∀ n ∈ s.nodes.filterMap (rgsNodeMod g (Gen.rgsBackdated s.latestSeen)), Settled (Gen.rgsBackdated s.latestSeen) g3 n.node := by
        intro n hn
        have := foldMods_settles (Gen.rgsBackdated s.latestSeen) _ g1 (mods_allMods g _ s.nodes) n hn
        rw [← foldNodes_impl_eq, hg2] at this
        unfold Settled at this ⊢
        rw [hnodes]; exact this
      have hmods : (s.nodes.filterMap (rgsNodeMod g3 (Gen.rgsBackdated s.latestSeen))).foldl (fun g n => (Impl.applyNodeAnn g n).1) g3 = g3 := by
        rw [foldNodes_impl_eq]
        apply foldMods_noop (Gen.rgsBackdated s.latestSeen) _ g3 (mods_allMods g3 _ s.nodes)
        intro n' hn'
        obtain ⟨n, hn, he⟩ := mods_nodes g g3 _ s.nodes n' hn'
        rw [← he]; exact hset n hn
      rw [hmods]
      have hupds : s.upds.foldl (rgsUpdStep (Gen.rgsBackdated s.latestSeen) s) g3 = g3 := by
        apply fold_noop
        intro u hu
        rw [← hg3]
        exact fold_all_dead _ s s.upds g2 u hu
      rw [hupds]

/-- a snapshot applied without a clock (no staleness refusal, no final pruning) twice = applied once -/
theorem snapshot_idem_no_clock (g : Graph) (s : Snapshot) (hn : s.now = none) :
    applySnapshot (applySnapshot g s).1 s = applySnapshot g s := by
  rw [applySnapshot_noClock _ s hn, applySnapshot_noClock g s hn]
  exact bodyNoClock_idem g s

end Impl
end Ldk.Gossip
