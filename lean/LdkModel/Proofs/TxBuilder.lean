/- Helper lemmas for Props/C01.lean (commitment builder). -/
import LdkModel.Model.TxBuilder
namespace Ldk.TxB
open Ldk

theorem sumMsat_nil : sumMsat [] = 0 := rfl
theorem sumMsat_cons (h : HtlcIn) (l : List HtlcIn) : sumMsat (h :: l) = h.amount_msat + sumMsat l := by
  simp [sumMsat]
theorem sumSat_nil : sumSat [] = 0 := rfl
theorem sumSat_cons (h : HtlcIn) (l : List HtlcIn) : sumSat (h :: l) = h.amount_msat / 1000 + sumSat l := by
  simp [sumSat, htlcSat]

theorem sumMsat_filter_split (p : HtlcIn → Bool) (l : List HtlcIn) :
    sumMsat (l.filter p) + sumMsat (l.filter (fun h => !p h)) = sumMsat l := by
  induction l with
  | nil => rfl
  | cons h t ih =>
    by_cases hp : p h = true
    · simp [List.filter, hp, sumMsat_cons]; omega
    · have hp' : p h = false := by simpa using hp
      simp [List.filter, hp', sumMsat_cons]; omega

theorem sumMsat_filter_le (p : HtlcIn → Bool) (l : List HtlcIn) : sumMsat (l.filter p) ≤ sumMsat l := by
  have := sumMsat_filter_split p l; omega

theorem sumSat_le (l : List HtlcIn) : 1000 * sumSat l ≤ sumMsat l := by
  induction l with
  | nil => simp [sumSat_nil, sumMsat_nil]
  | cons h t ih => rw [sumSat_cons, sumMsat_cons]; omega

/-- rounding loss of the per-HTLC floor is below one satoshi per HTLC -/
theorem sumMsat_le_sumSat (l : List HtlcIn) : sumMsat l ≤ 1000 * sumSat l + 999 * l.length := by
  induction l with
  | nil => simp [sumSat_nil, sumMsat_nil]
  | cons h t ih => rw [sumSat_cons, sumMsat_cons, List.length_cons]; omega

theorem sum_map_htlcSat (l : List HtlcIn) : (l.map htlcSat).sum = sumSat l := rfl

end Ldk.TxB

namespace Ldk.TxB
open Ldk

theorem ssf_sum (f : Bool) (a b c : Nat) (h : (if f then a else b) ≥ c) :
    (saturating_sub_from_funder f a b c).1 + (saturating_sub_from_funder f a b c).2 + c = a + b := by
  cases f <;> simp [saturating_sub_from_funder] at * <;> omega

theorem ssf_le (f : Bool) (a b c : Nat) :
    (saturating_sub_from_funder f a b c).1 ≤ a ∧ (saturating_sub_from_funder f a b c).2 ≤ b := by
  cases f <;> simp [saturating_sub_from_funder]

theorem ssf_funder_fst (f : Bool) (a b c : Nat) :
    (if f then (saturating_sub_from_funder f a b c).1 else (saturating_sub_from_funder f a b c).2) =
    (if f then a else b) - c := by
  cases f <;> simp [saturating_sub_from_funder]

theorem total_anchors_le (ty : ChanType) : total_anchors_sat ty ≤ 660 := by
  cases h : ty.anchors <;> simp [total_anchors_sat, h, ANCHOR_OUTPUT_VALUE_SATOSHI]

theorem satMul64_anchors (ty : ChanType) : satMul64 (total_anchors_sat ty) 1000 = 1000 * total_anchors_sat ty := by
  have := total_anchors_le ty
  unfold satMul64; split <;> omega

theorem anchorOutputs_sum_le (ty : ChanType) (chan : Nat) (b : Built)
    (hz : ty.zeroFee = true → ty.anchors = false) :
    (anchorOutputs ty chan b).sum ≤
      (if ty.zeroFee then chan - sumSat b.nondust - b.toBroadcaster - b.toCountersignatory else total_anchors_sat ty) := by
  obtain ⟨a, z⟩ := ty
  cases a <;> cases z <;> simp [anchorOutputs, total_anchors_sat, ANCHOR_OUTPUT_VALUE_SATOSHI, P2A_MAX_VALUE] at *
  · exact Nat.min_le_right _ _
  · split <;> split <;> simp <;> omega

end Ldk.TxB
