/- C19 — all fault kinds (Model/FsFault.lean `execK`): a failed operation leaves the old or the new value. -/
import LdkModel.Proofs.FsFaultEv
namespace Ldk.Fs
open Ldk.Kv Ldk.Persist Ldk.FsConsts

variable {ν : Type}

theorem get_execF_cases (st : St ν) (x : Pending ν) (f : Bool) (p : Key) (hp : isArtifact p.2.2 = false) :
    (execF st x f).1.fs.get p = st.fs.get p ∨ (p = x.dest ∧ (execF st x f).1.fs.get p = x.result) := by
  rw [get_execF st x f p hp]
  by_cases hpd : p = x.dest
  · simp only [hpd, if_true]
    rcases regF_cases (lockOf st x.dest).lastWritten (st.fs.get x.dest) x f with ⟨_, hr⟩ | ⟨_, hr⟩ | ⟨_, hr⟩
    · left; rw [hr]
    · left; rw [hr]
    · right; rw [hr]; exact ⟨trivial, rfl⟩
  · left; simp [hpd]

theorem get_execD_cases (st : St ν) (x : Pending ν) (p : Key) (hp : isArtifact p.2.2 = false) :
    (execD st x).1.fs.get p = st.fs.get p ∨ (p = x.dest ∧ (execD st x).1.fs.get p = x.result) := by
  have h : (execD st x).1.fs = (exec st x).fs := rfl
  rw [h, get_exec st x p hp]
  by_cases hc : p = x.dest ∧ staleNow st x = false
  · right; simp only [hc, and_self, if_true]
  · left; simp only [hc, if_false]

theorem execE_write_fs (st : St ν) (x : Pending ν) (v : ν) (hb : x.body = .write v) : (execE st x).1.fs = st.fs := by
  unfold execE; rw [hb]

theorem get_execE_cases (st : St ν) (x : Pending ν) (p : Key) (hp : isArtifact p.2.2 = false) :
    (execE st x).1.fs.get p = st.fs.get p ∨ (p = x.dest ∧ (execE st x).1.fs.get p = x.result) := by
  cases hb : x.body with
  | write v => left; rw [execE_write_fs st x v hb]
  | remove lz =>
    have : execE st x = execF st x false := by unfold execE; rw [hb]
    rw [this]; exact get_execF_cases st x false p hp

/-- whatever the fault kind, a completed (or failed) body leaves every non-artifact path as it was, or its own
    destination with its own complete result -/
theorem get_execK_cases (st : St ν) (x : Pending ν) (k : FKind) (p : Key) (hp : isArtifact p.2.2 = false) :
    (execK st x k).1.fs.get p = st.fs.get p ∨ (p = x.dest ∧ (execK st x k).1.fs.get p = x.result) := by
  cases k with
  | none => exact get_execF_cases st x false p hp
  | cb => exact get_execF_cases st x true p hp
  | early => exact get_execE_cases st x p hp
  | dirSync => exact get_execD_cases st x p hp

def KInv (d : Key) (c0 : Option (Content ν)) (a : KSt ν) : Prop :=
  (a.st.fs.get d = c0 ∨ ∃ x ∈ a.all, x.dest = d ∧ a.st.fs.get d = x.result) ∧ ∀ x ∈ a.pend, x ∈ a.all

theorem kinv_step (ue : Bool) (d : Key) (hd : isArtifact d.2.2 = false) (c0 : Option (Content ν)) (a : KSt ν) (e : KEv ν)
    (h : KInv d c0 a) : KInv d c0 (KEv.apply ue a e) := by
  obtain ⟨h1, h2⟩ := h
  cases e with
  | call op =>
    simp only [KEv.apply]
    split
    · next dd b _ =>
      refine ⟨?_, ?_⟩
      · show (issue a.st dd b).1.fs.get d = c0 ∨ ∃ x ∈ (issue a.st dd b).2 :: a.all, x.dest = d ∧ (issue a.st dd b).1.fs.get d = x.result
        have hfs : (issue a.st dd b).1.fs = a.st.fs := rfl
        rw [hfs]
        rcases h1 with h1 | ⟨x, hx, hxd, hxr⟩
        · left; exact h1
        · right; exact ⟨x, List.mem_cons_of_mem _ hx, hxd, hxr⟩
      · intro x hx
        show x ∈ (issue a.st dd b).2 :: a.all
        rcases List.mem_cons.mp hx with rfl | hx
        · exact List.mem_cons_self ..
        · exact List.mem_cons_of_mem _ (h2 x hx)
    · exact ⟨h1, h2⟩
  | complete v k =>
    simp only [KEv.apply]
    split
    · exact ⟨h1, h2⟩
    · next x rest hp =>
      have hperm := pickV_perm v _ _ _ hp
      have hxp : x ∈ a.pend := hperm.symm.subset (List.mem_cons_self ..)
      refine ⟨?_, fun y hy => h2 y (hperm.symm.subset (List.mem_cons_of_mem _ hy))⟩
      show (execK a.st x k).1.fs.get d = c0 ∨ ∃ y ∈ a.all, y.dest = d ∧ (execK a.st x k).1.fs.get d = y.result
      rcases get_execK_cases a.st x k d hd with hg | ⟨hdx, hg⟩
      · rw [hg]; exact h1
      · right; exact ⟨x, h2 x hxp, hdx.symm, hg⟩

theorem kinv_run (ue : Bool) (d : Key) (hd : isArtifact d.2.2 = false) (c0 : Option (Content ν)) :
    ∀ (evs : List (KEv ν)) (a : KSt ν), KInv d c0 a → KInv d c0 (runK ue a evs)
  | [], _, h => h
  | e :: evs, a, h => kinv_run ue d hd c0 evs (KEv.apply ue a e) (kinv_step ue d hd c0 a e h)

/-- a write that fails BEFORE the lock: Err, the file system is exactly as before (no tmp file), the version the
    lock records and the version counter are untouched, the lock reference is released -/
theorem execE_write (st : St ν) (x : Pending ν) (v : ν) (hb : x.body = .write v) :
    (execE st x).2 = false ∧ (execE st x).1.fs = st.fs ∧ (execE st x).1.nextVersion = st.nextVersion ∧
    lockOf (execE st x).1 x.dest = ⟨(lockOf st x.dest).lastWritten, (lockOf st x.dest).refs - 1⟩ := by
  unfold execE; rw [hb]
  refine ⟨rfl, rfl, rfl, ?_⟩
  simp [lockOf, Store.get_put_same]

/-- a body whose directory fsync fails returns Err and never records its version -/
theorem execD_failed_version (st : St ν) (x : Pending ν) (h : (execD st x).2 = false) :
    (lockedWrite x.version (lockOf st x.dest).lastWritten (!(bodyOps st x).any isDirSync)).2 = (lockOf st x.dest).lastWritten := by
  have h' : (lockedWrite x.version (lockOf st x.dest).lastWritten (!(bodyOps st x).any isDirSync)).1 = false := h
  unfold lockedWrite at h' ⊢
  cases hs : isStaleVersion x.version (lockOf st x.dest).lastWritten
  · simp only [hs, Bool.false_eq_true, if_false] at h' ⊢
    simp [h']
  · simp [hs] at h'

end Ldk.Fs
