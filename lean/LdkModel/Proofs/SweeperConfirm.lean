import LdkModel.Proofs.Sweeper
/-! Confirm-style histories of the OutputSweeper (transactions_confirmed / best_block_updated in any order and at any heights,
    transaction_unconfirmed) with the chain they describe, and the invariant that ties the sweeper's statuses to it.
    Ghost semantics of `unconf txid`: every block at or above the height at which the SWEEPER holds `txid` confirmed is gone
    (a transaction is un-confirmed because its block was reorganised out, and with it every block above); an unknown / unconfirmed
    txid removes nothing. That this recorded height is the height of the block that really holds `txid` is NOT derived here
    (`latestTx` is an opaque id; a table txid -> inputs is not modelled) — hence the `_partial` theorems of Props/C07.lean. -/
namespace Ldk.Sweeper
open Ldk Ldk.SweepGen

/-- the height `Confirm::transaction_unconfirmed` un-confirms from: first output whose latest_spending_tx is `txid`, its confirmation height -/
def unconfHeight (s : State) (txid : Nat) : Option Nat :=
  (s.outputs.find? fun o => o.status.latestTx == some txid).bind (·.status.confirmationHeight)

inductive COp
  | track (id : Nat) (delay : Option Nat)
  | sweep
  | conf (h : Nat) (txs : List Tx)     -- Confirm::transactions_confirmed: block `h` holds `txs`
  | best (h : Nat)                     -- Confirm::best_block_updated (any height, also lower)
  | unconf (txid : Nat)                -- Confirm::transaction_unconfirmed
deriving Repr

def LState.cstep (l : LState) : COp → LState
  | .track id d => { l with sw := track l.sw id d }
  | .sweep => { l with sw := (sweep l.sw).1 }
  | .conf h txs => { sw := txsConfirmed l.sw h txs, chain := (h, txs) :: l.chain }
  | .best h => { l with sw := bestBlockUpdated l.sw h }
  | .unconf t => { sw := transactionUnconfirmed l.sw t,
                   chain := match unconfHeight l.sw t with
                     | some u => l.chain.filter (·.1 < u)
                     | none => l.chain }

def LState.crun (l : LState) (ops : List COp) : LState := ops.foldl LState.cstep l

/-- the invariant of Confirm-style histories (no relation between block heights and the best height: the two calls come in any order) -/
structure CInv (l : LState) : Prop where
  confAt : ∀ o ∈ l.sw.outputs, ∀ lb t h, o.status = .threshold lb t h → ∃ b ∈ l.chain, b.1 = h ∧ blockSpends b o.id = true
  spentConf : ∀ o ∈ l.sw.outputs, spentOnChain l.chain o.id = true → o.status.isConfirmed = true
  single : ∀ b1 ∈ l.chain, ∀ b2 ∈ l.chain, ∀ id, blockSpends b1 id = true → blockSpends b2 id = true → b1.1 = b2.1

/-- an output handed to the sweeper is unspent; a block reported through transactions_confirmed spends no outpoint that a block at ANOTHER
    height of the chain spends (the same block may be reported again) -/
def COp.wf (l : LState) : COp → Prop
  | .track id _ => spentOnChain l.chain id = false
  | .conf h txs => ∀ tx ∈ txs, ∀ i ∈ tx.inputs, ∀ b ∈ l.chain, blockSpends b i = true → b.1 = h
  | .sweep => True
  | .best _ => True
  | .unconf _ => True

def CWFHist : LState → List COp → Prop
  | _, [] => True
  | l, op :: ops => COp.wf l op ∧ CWFHist (l.cstep op) ops

instance (l : LState) : (op : COp) → Decidable (COp.wf l op)
  | .track id _ => inferInstanceAs (Decidable (spentOnChain l.chain id = false))
  | .conf h txs => inferInstanceAs (Decidable (∀ tx ∈ txs, ∀ i ∈ tx.inputs, ∀ b ∈ l.chain, blockSpends b i = true → b.1 = h))
  | .sweep => isTrue trivial
  | .best _ => isTrue trivial
  | .unconf _ => isTrue trivial

instance decCWFHist : (l : LState) → (ops : List COp) → Decidable (CWFHist l ops)
  | _, [] => isTrue trivial
  | l, op :: ops => @instDecidableAnd _ _ _ (decCWFHist (l.cstep op) ops)

theorem cinv_track {l : LState} (hi : CInv l) (id : Nat) (d : Option Nat) (hw : spentOnChain l.chain id = false) : CInv (l.cstep (.track id d)) := by
  simp only [LState.cstep, track]
  split
  · exact hi
  · refine ⟨?_, ?_, hi.single⟩
    · intro o ho lb t h hs
      rcases List.mem_append.1 ho with ho | ho
      · exact hi.confAt o ho lb t h hs
      · simp at ho; subst ho; simp at hs
    · intro o ho hsp
      rcases List.mem_append.1 ho with ho | ho
      · exact hi.spentConf o ho hsp
      · simp at ho; subst ho; simp [hw] at hsp

theorem cinv_sweep {l : LState} (hi : CInv l) : CInv (l.cstep .sweep) := by
  refine ⟨?_, ?_, hi.single⟩
  · intro o' ho' lb t h hs
    obtain ⟨o, ho, hid, _, hth⟩ := mem_sweep_outputs ho'
    obtain ⟨b, hb, hh, hsp⟩ := hi.confAt o ho lb t h (hth lb t h hs)
    exact ⟨b, hb, hh, by rw [hid]; exact hsp⟩
  · intro o' ho' hsp
    obtain ⟨o, ho, hid, hc, _⟩ := mem_sweep_outputs ho'
    rw [hc]; exact hi.spentConf o ho (by rw [← hid]; exact hsp)

theorem cinv_conf {l : LState} (hi : CInv l) (h : Nat) (txs : List Tx)
    (hw : ∀ tx ∈ txs, ∀ i ∈ tx.inputs, ∀ b ∈ l.chain, blockSpends b i = true → b.1 = h) : CInv (l.cstep (.conf h txs)) := by
  have key : ∀ o' ∈ (l.cstep (.conf h txs)).sw.outputs, ∃ o ∈ l.sw.outputs, o'.id = o.id ∧
      (((∃ tx ∈ txs, o.id ∈ tx.inputs) ∧ ∃ lb t, o'.status = .threshold lb t h) ∨ ((¬ ∃ tx ∈ txs, o.id ∈ tx.inputs) ∧ o' = o)) := by
    intro o' ho'
    simp only [LState.cstep, txsConfirmed] at ho'
    exact mem_foldl_confirm _ txs _ o' ho'
  have newSp : ∀ id, blockSpends (h, txs) id = true ↔ ∃ tx ∈ txs, id ∈ tx.inputs := fun id => blockSpends_iff
  refine ⟨?_, ?_, ?_⟩
  · intro o' ho' lb t h' hs
    obtain ⟨o, ho, hid, hcase⟩ := key o' ho'
    simp only [LState.cstep]
    rcases hcase with ⟨hsp, lb', t', hst⟩ | ⟨_, he⟩
    · rw [hs] at hst; cases hst
      exact ⟨_, List.mem_cons_self .., rfl, by rw [hid]; exact (newSp o.id).2 hsp⟩
    · subst he
      obtain ⟨b, hb, hh, hsp⟩ := hi.confAt o' ho lb t h' hs
      exact ⟨b, List.mem_cons_of_mem _ hb, hh, hsp⟩
  · intro o' ho' hsp
    obtain ⟨o, ho, hid, hcase⟩ := key o' ho'
    rcases hcase with ⟨_, lb', t', hst⟩ | ⟨hno, he⟩
    · rw [hst]; rfl
    · subst he
      simp only [LState.cstep] at hsp
      obtain ⟨b, hb, hbs⟩ := spentOnChain_iff.1 hsp
      rcases List.mem_cons.1 hb with he | hb
      · subst he; exact absurd ((newSp o'.id).1 hbs) hno
      · exact hi.spentConf o' ho (spentOnChain_iff.2 ⟨b, hb, hbs⟩)
  · intro b1 hb1 b2 hb2 id h1 h2
    simp only [LState.cstep] at hb1 hb2
    have same : ∀ b ∈ l.chain, blockSpends b id = true → blockSpends (h, txs) id = true → b.1 = h := by
      intro b hb hbs hnew
      obtain ⟨tx, htx, hin⟩ := (newSp id).1 hnew
      exact hw tx htx id hin b hb hbs
    rcases List.mem_cons.1 hb1 with he1 | hb1 <;> rcases List.mem_cons.1 hb2 with he2 | hb2
    · subst he1; subst he2; rfl
    · subst he1; exact (same b2 hb2 h2 h1).symm
    · subst he2; exact same b1 hb1 h1 h2
    · exact hi.single b1 hb1 b2 hb2 id h1 h2

theorem cinv_best {l : LState} (hi : CInv l) (h : Nat) : CInv (l.cstep (.best h)) := by
  refine ⟨?_, ?_, hi.single⟩
  · intro o ho lb t h' hs
    simp only [LState.cstep, bestBlockUpdated] at ho
    exact hi.confAt o (List.mem_filter.1 ho).1 lb t h' hs
  · intro o ho hsp
    simp only [LState.cstep, bestBlockUpdated] at ho
    exact hi.spentConf o (List.mem_filter.1 ho).1 hsp

theorem transactionUnconfirmed_eq (s : State) (t : Nat) :
    transactionUnconfirmed s t = match unconfHeight s t with
      | some uh => { s with outputs := s.outputs.map fun o => if txUnconfirmedUnconfirms o.status.confirmationHeight uh then { o with status := o.status.unconfirmed } else o }
      | none => s := rfl

theorem mem_unconf_outputs {outs : List Out} {u : Nat} {o' : Out}
    (hm : o' ∈ outs.map fun o => if txUnconfirmedUnconfirms o.status.confirmationHeight u then { o with status := o.status.unconfirmed } else o) :
    ∃ o ∈ outs, o'.id = o.id ∧
      ((txUnconfirmedUnconfirms o.status.confirmationHeight u = true ∧ o'.status = o.status.unconfirmed) ∨
       (txUnconfirmedUnconfirms o.status.confirmationHeight u = false ∧ o' = o)) := by
  rcases List.mem_map.1 hm with ⟨o, ho, rfl⟩
  refine ⟨o, ho, by split <;> rfl, ?_⟩
  cases hd : txUnconfirmedUnconfirms o.status.confirmationHeight u
  · exact Or.inr ⟨rfl, by simp⟩
  · exact Or.inl ⟨rfl, by simp⟩

/-- THE step that depends on the translated comparison of `transaction_unconfirmed` -/
theorem cinv_unconf {l : LState} (hi : CInv l) (t : Nat) : CInv (l.cstep (.unconf t)) := by
  simp only [LState.cstep, transactionUnconfirmed_eq]
  cases hu : unconfHeight l.sw t with
  | none => exact hi
  | some u =>
    simp only
    refine ⟨?_, ?_, ?_⟩
    · intro o' ho' lb tt h hs
      obtain ⟨o, ho, hid, hcase⟩ := mem_unconf_outputs ho'
      rcases hcase with ⟨hd, hst⟩ | ⟨hd, he⟩
      · exfalso
        have hc : o.status.isConfirmed = true := by
          cases hcf : o.status.isConfirmed
          · rw [confirmationHeight_none_of_not_confirmed _ hcf, txUnconfirmedUnconfirms_none] at hd; cases hd
          · rfl
        exact unconfirmed_not_threshold o.status lb tt h hc (hst ▸ hs)
      · subst he
        obtain ⟨b, hb, hh, hsp⟩ := hi.confAt o' ho lb tt h hs
        rw [hs, confirmationHeight_threshold, txUnconfirmedUnconfirms_some] at hd
        have hlt : h < u := by simpa using hd
        exact ⟨b, List.mem_filter.2 ⟨hb, by simpa [hh] using hlt⟩, hh, hsp⟩
    · intro o' ho' hsp
      obtain ⟨o, ho, hid, hcase⟩ := mem_unconf_outputs ho'
      obtain ⟨b, hb, hbs⟩ := spentOnChain_iff.1 hsp
      obtain ⟨hbc, hbf⟩ := List.mem_filter.1 hb
      have hbf : b.1 < u := by simpa using hbf
      rw [hid] at hbs
      have hc := hi.spentConf o ho (spentOnChain_iff.2 ⟨b, hbc, hbs⟩)
      obtain ⟨lb, tt, h, hs⟩ := (isConfirmed_iff _).1 hc
      obtain ⟨b', hb', hh, hsp'⟩ := hi.confAt o ho lb tt h hs
      have hEq : b.1 = h := (hi.single b hbc b' hb' o.id hbs hsp').trans hh
      rcases hcase with ⟨hd, _⟩ | ⟨_, he⟩
      · exfalso
        rw [hs, confirmationHeight_threshold, txUnconfirmedUnconfirms_some] at hd
        have : h ≥ u := by simpa using hd
        omega
      · subst he; exact hc
    · intro b1 hb1 b2 hb2 id h1 h2
      exact hi.single b1 (List.mem_filter.1 hb1).1 b2 (List.mem_filter.1 hb2).1 id h1 h2

theorem cinv_step {l : LState} (hi : CInv l) (op : COp) (hw : COp.wf l op) : CInv (l.cstep op) := by
  cases op with
  | track id d => exact cinv_track hi id d hw
  | sweep => exact cinv_sweep hi
  | conf h txs => exact cinv_conf hi h txs hw
  | best h => exact cinv_best hi h
  | unconf t => exact cinv_unconf hi t

theorem cinv_run : ∀ (ops : List COp) (l : LState), CInv l → CWFHist l ops → CInv (l.crun ops) := by
  intro ops
  induction ops with
  | nil => intro l hi _; exact hi
  | cons op ops ih =>
    intro l hi hw
    simp only [LState.crun, List.foldl_cons]
    exact ih _ (cinv_step hi op hw.1) hw.2

theorem cinv_fresh (best : Nat) : CInv (LState.fresh best) :=
  { confAt := by intro o ho; simp [LState.fresh] at ho
    spentConf := by intro o ho; simp [LState.fresh] at ho
    single := by intro b hb; simp [LState.fresh] at hb }

end Ldk.Sweeper
