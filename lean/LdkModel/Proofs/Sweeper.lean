import LdkModel.Model.Sweeper
/-! Helper lemmas for the OutputSweeper theorems of Props/C07.lean: the invariant that ties the sweeper's per-output status to
    the chain a Listen-style history describes. -/
namespace Ldk.Sweeper
open Ldk Ldk.SweepGen

/-! ### facts about the TRANSLATED decisions (these are the lemmas a changed comparison breaks) -/

theorem disconnectUnconfirms_some (h f : Nat) : disconnectUnconfirms (some h) f = decide (h > f) := rfl
theorem disconnectUnconfirms_none (f : Nat) : disconnectUnconfirms none f = false := rfl
theorem txUnconfirmedUnconfirms_some (h u : Nat) : txUnconfirmedUnconfirms (some h) u = decide (h ≥ u) := rfl
theorem txUnconfirmedUnconfirms_none (u : Nat) : txUnconfirmedUnconfirms none u = false := rfl
theorem respendFilter_confirmed (d : Bool) (l : Option Nat) (c : Nat) : respendFilter true d l c = false := rfl
theorem respendFilter_delayed (l : Option Nat) (c : Nat) : respendFilter false true l c = false := rfl
theorem respendFilter_open (l : Option Nat) (c : Nat) : respendFilter false false l c = !optGe l (some c) := by
  unfold respendFilter; cases optGe l (some c) <;> rfl

/-! ### the status table -/

theorem broadcast_isConfirmed (s : Status) (c t : Nat) : (s.broadcast c t).isConfirmed = s.isConfirmed := by cases s <;> rfl
theorem broadcast_threshold {s : Status} {c t lb t' h : Nat} (hs : s.broadcast c t = .threshold lb t' h) : s = .threshold lb t' h := by
  cases s <;> simp [Status.broadcast] at hs ⊢ <;> exact hs
theorem confirmed_is (s : Status) (h t : Nat) : ∃ lb, s.confirmed h t = .threshold lb t h := by cases s <;> exact ⟨_, rfl⟩
theorem unconfirmed_not_threshold (s : Status) (lb t h : Nat) : s.isConfirmed = true → s.unconfirmed ≠ .threshold lb t h := by
  cases s <;> simp [Status.unconfirmed, Status.isConfirmed]
theorem isConfirmed_iff (s : Status) : s.isConfirmed = true ↔ ∃ lb t h, s = .threshold lb t h := by
  cases s <;> simp [Status.isConfirmed]
theorem confirmationHeight_threshold (lb t h : Nat) : (Status.threshold lb t h).confirmationHeight = some h := rfl
theorem confirmationHeight_none_of_not_confirmed (s : Status) (hs : s.isConfirmed = false) : s.confirmationHeight = none := by
  cases s <;> simp [Status.isConfirmed, Status.confirmationHeight] at hs ⊢

/-! ### the chain -/

theorem spentOnChain_iff {chain : List Block} {id : Nat} : spentOnChain chain id = true ↔ ∃ b ∈ chain, blockSpends b id = true := by
  simp [spentOnChain, List.any_eq_true]

theorem blockSpends_iff {b : Block} {id : Nat} : blockSpends b id = true ↔ ∃ tx ∈ b.2, id ∈ tx.inputs := by
  simp [blockSpends, List.any_eq_true]

/-! ### transactions_confirmed_internal -/

theorem mem_confirmTx {outs : List Out} {h : Nat} {tx : Tx} {o' : Out} (hm : o' ∈ confirmTx outs h tx) :
    ∃ o ∈ outs, o'.id = o.id ∧ ((o.id ∈ tx.inputs ∧ ∃ lb t, o'.status = .threshold lb t h) ∨ (o.id ∉ tx.inputs ∧ o' = o)) := by
  unfold confirmTx at hm
  rcases List.mem_map.1 hm with ⟨o, ho, rfl⟩
  by_cases hc : o.id ∈ tx.inputs
  · refine ⟨o, ho, by simp [hc], Or.inl ⟨hc, ?_⟩⟩
    obtain ⟨lb, hlb⟩ := confirmed_is o.status h tx.id
    exact ⟨lb, tx.id, by simp [hc, hlb]⟩
  · exact ⟨o, ho, by simp [hc], Or.inr ⟨hc, by simp [hc]⟩⟩

theorem mem_foldl_confirm (h : Nat) (txs : List Tx) : ∀ (outs : List Out) (o' : Out),
    o' ∈ txs.foldl (fun outs tx => confirmTx outs h tx) outs →
    ∃ o ∈ outs, o'.id = o.id ∧ (((∃ tx ∈ txs, o.id ∈ tx.inputs) ∧ ∃ lb t, o'.status = .threshold lb t h) ∨ ((¬ ∃ tx ∈ txs, o.id ∈ tx.inputs) ∧ o' = o)) := by
  induction txs with
  | nil => intro outs o' hm; exact ⟨o', hm, rfl, Or.inr ⟨by simp, rfl⟩⟩
  | cons tx txs ih =>
    intro outs o' hm
    simp only [List.foldl_cons] at hm
    obtain ⟨o1, ho1, hid1, hcase1⟩ := ih _ _ hm
    obtain ⟨o, ho, hid, hcase⟩ := mem_confirmTx ho1
    refine ⟨o, ho, hid1.trans hid, ?_⟩
    rcases hcase1 with ⟨⟨tx', htx', hin⟩, hst⟩ | ⟨hno, he⟩
    · exact Or.inl ⟨⟨tx', List.mem_cons_of_mem _ htx', by rw [← hid]; exact hin⟩, hst⟩
    · subst he
      rcases hcase with ⟨hin, hst⟩ | ⟨hnin, he⟩
      · exact Or.inl ⟨⟨tx, List.mem_cons_self .., hin⟩, hst⟩
      · subst he
        refine Or.inr ⟨?_, rfl⟩
        rintro ⟨tx', htx', hin⟩
        rcases List.mem_cons.1 htx' with he | h'
        · subst he; exact hnin hin
        · exact hno ⟨tx', h', hin⟩

/-! ### the invariant of Listen-style histories -/

/-- what ties the sweeper's statuses to the chain its Listen calls describe -/
structure Inv (l : LState) : Prop where
  heights : ∀ b ∈ l.chain, b.1 ≤ l.sw.best
  confAt : ∀ o ∈ l.sw.outputs, ∀ lb t h, o.status = .threshold lb t h → ∃ b ∈ l.chain, b.1 = h ∧ blockSpends b o.id = true
  spentConf : ∀ o ∈ l.sw.outputs, spentOnChain l.chain o.id = true → o.status.isConfirmed = true
  single : ∀ b1 ∈ l.chain, ∀ b2 ∈ l.chain, ∀ id, blockSpends b1 id = true → blockSpends b2 id = true → b1.1 = b2.1

/-- what a history must respect to describe a real chain: an output handed to the sweeper is unspent, and a block never spends an
    outpoint that an earlier block of the chain already spent (consensus) -/
def LOp.wf (l : LState) : LOp → Prop
  | .track id _ => spentOnChain l.chain id = false
  | .connect txs => ∀ tx ∈ txs, ∀ i ∈ tx.inputs, spentOnChain l.chain i = false
  | .sweep => True
  | .disconnect _ => True

def WFHist : LState → List LOp → Prop
  | _, [] => True
  | l, op :: ops => LOp.wf l op ∧ WFHist (l.step op) ops

instance (l : LState) : (op : LOp) → Decidable (LOp.wf l op)
  | .track id _ => inferInstanceAs (Decidable (spentOnChain l.chain id = false))
  | .connect txs => inferInstanceAs (Decidable (∀ tx ∈ txs, ∀ i ∈ tx.inputs, spentOnChain l.chain i = false))
  | .sweep => isTrue trivial
  | .disconnect _ => isTrue trivial

instance decWFHist : (l : LState) → (ops : List LOp) → Decidable (WFHist l ops)
  | _, [] => isTrue trivial
  | l, op :: ops => @instDecidableAnd _ _ _ (decWFHist (l.step op) ops)

theorem inv_track {l : LState} (hi : Inv l) (id : Nat) (d : Option Nat) (hw : spentOnChain l.chain id = false) : Inv (l.step (.track id d)) := by
  simp only [LState.step, track]
  split
  · exact hi
  · refine ⟨hi.heights, ?_, ?_, hi.single⟩
    · intro o ho lb t h hs
      rcases List.mem_append.1 ho with ho | ho
      · exact hi.confAt o ho lb t h hs
      · simp at ho; subst ho; simp at hs
    · intro o ho hsp
      rcases List.mem_append.1 ho with ho | ho
      · exact hi.spentConf o ho hsp
      · simp at ho; subst ho; simp [hw] at hsp

theorem mem_sweep_outputs {s : State} {o' : Out} (hm : o' ∈ (sweep s).1.outputs) :
    ∃ o ∈ s.outputs, o'.id = o.id ∧ o'.status.isConfirmed = o.status.isConfirmed ∧ (∀ lb t h, o'.status = .threshold lb t h → o.status = .threshold lb t h) := by
  unfold sweep at hm
  simp only at hm
  split at hm
  · exact ⟨o', hm, rfl, rfl, fun _ _ _ h => h⟩
  · rcases List.mem_map.1 hm with ⟨o, ho, rfl⟩
    refine ⟨o, ho, ?_, ?_, ?_⟩
    · split <;> rfl
    · split
      · exact broadcast_isConfirmed _ _ _
      · rfl
    · intro lb t h
      split
      · exact broadcast_threshold
      · exact id

theorem inv_sweep {l : LState} (hi : Inv l) : Inv (l.step .sweep) := by
  have hb : (sweep l.sw).1.best = l.sw.best := by unfold sweep; simp only; split <;> rfl
  refine ⟨?_, ?_, ?_, hi.single⟩
  · intro b hb'; simp only [LState.step, hb]; exact hi.heights b hb'
  · intro o' ho' lb t h hs
    obtain ⟨o, ho, hid, _, hth⟩ := mem_sweep_outputs ho'
    obtain ⟨b, hb, hh, hsp⟩ := hi.confAt o ho lb t h (hth lb t h hs)
    exact ⟨b, hb, hh, by rw [hid]; exact hsp⟩
  · intro o' ho' hsp
    obtain ⟨o, ho, hid, hc, _⟩ := mem_sweep_outputs ho'
    rw [hc]; exact hi.spentConf o ho (by rw [← hid]; exact hsp)

theorem inv_connect {l : LState} (hi : Inv l) (txs : List Tx)
    (hw : ∀ tx ∈ txs, ∀ i ∈ tx.inputs, spentOnChain l.chain i = false) : Inv (l.step (.connect txs)) := by
  have key : ∀ o' ∈ (l.step (.connect txs)).sw.outputs, ∃ o ∈ l.sw.outputs, o'.id = o.id ∧
      (((∃ tx ∈ txs, o.id ∈ tx.inputs) ∧ ∃ lb t, o'.status = .threshold lb t (l.sw.best + 1)) ∨ ((¬ ∃ tx ∈ txs, o.id ∈ tx.inputs) ∧ o' = o)) := by
    intro o' ho'
    simp only [LState.step, blockConnected, bestBlockUpdated, txsConfirmed] at ho'
    exact mem_foldl_confirm _ txs _ o' (List.mem_filter.1 ho').1
  have newSp : ∀ id, blockSpends (l.sw.best + 1, txs) id = true ↔ ∃ tx ∈ txs, id ∈ tx.inputs := fun id => blockSpends_iff
  refine ⟨?_, ?_, ?_, ?_⟩
  · intro b hb
    simp only [LState.step, blockConnected, bestBlockUpdated] at hb ⊢
    rcases List.mem_cons.1 hb with he | hb
    · subst he; exact Nat.le_refl _
    · exact Nat.le_succ_of_le (hi.heights b hb)
  · intro o' ho' lb t h hs
    obtain ⟨o, ho, hid, hcase⟩ := key o' ho'
    simp only [LState.step]
    rcases hcase with ⟨hsp, lb', t', hst⟩ | ⟨_, he⟩
    · rw [hs] at hst; cases hst
      exact ⟨_, List.mem_cons_self .., rfl, by rw [hid]; exact (newSp o.id).2 hsp⟩
    · subst he
      obtain ⟨b, hb, hh, hsp⟩ := hi.confAt o' ho lb t h hs
      exact ⟨b, List.mem_cons_of_mem _ hb, hh, hsp⟩
  · intro o' ho' hsp
    obtain ⟨o, ho, hid, hcase⟩ := key o' ho'
    rcases hcase with ⟨_, lb', t', hst⟩ | ⟨hno, he⟩
    · rw [hst]; rfl
    · subst he
      simp only [LState.step] at hsp
      obtain ⟨b, hb, hbs⟩ := spentOnChain_iff.1 hsp
      rcases List.mem_cons.1 hb with he | hb
      · subst he; exact absurd ((newSp o'.id).1 hbs) hno
      · exact hi.spentConf o' ho (spentOnChain_iff.2 ⟨b, hb, hbs⟩)
  · intro b1 hb1 b2 hb2 id h1 h2
    simp only [LState.step] at hb1 hb2
    have clash : ∀ b ∈ l.chain, blockSpends b id = true → blockSpends (l.sw.best + 1, txs) id = true → False := by
      intro b hb hbs hnew
      obtain ⟨tx, htx, hin⟩ := (newSp id).1 hnew
      have := hw tx htx id hin
      rw [spentOnChain_iff.2 ⟨b, hb, hbs⟩] at this; cases this
    rcases List.mem_cons.1 hb1 with he1 | hb1 <;> rcases List.mem_cons.1 hb2 with he2 | hb2
    · subst he1; subst he2; rfl
    · subst he1; exact (clash b2 hb2 h2 h1).elim
    · subst he2; exact (clash b1 hb1 h1 h2).elim
    · exact hi.single b1 hb1 b2 hb2 id h1 h2

theorem mem_disconnect_outputs {s : State} {f : Nat} {o' : Out} (hm : o' ∈ (blocksDisconnected s f).outputs) :
    ∃ o ∈ s.outputs, o'.id = o.id ∧
      ((disconnectUnconfirms o.status.confirmationHeight f = true ∧ o'.status = o.status.unconfirmed) ∨
       (disconnectUnconfirms o.status.confirmationHeight f = false ∧ o' = o)) := by
  unfold blocksDisconnected at hm
  rcases List.mem_map.1 hm with ⟨o, ho, rfl⟩
  refine ⟨o, ho, by split <;> rfl, ?_⟩
  cases hd : disconnectUnconfirms o.status.confirmationHeight f
  · exact Or.inr ⟨rfl, by simp⟩
  · exact Or.inl ⟨rfl, by simp⟩

/-- THE step that depends on the translated comparison of `blocks_disconnected`: a spend in a block at or below the fork point stays confirmed -/
theorem inv_disconnect {l : LState} (hi : Inv l) (f : Nat) : Inv (l.step (.disconnect f)) := by
  refine ⟨?_, ?_, ?_, ?_⟩
  · intro b hb
    simp only [LState.step, blocksDisconnected] at hb ⊢
    simpa using (List.mem_filter.1 hb).2
  · intro o' ho' lb t h hs
    obtain ⟨o, ho, hid, hcase⟩ := mem_disconnect_outputs ho'
    rcases hcase with ⟨hd, hst⟩ | ⟨hd, he⟩
    · exfalso
      have hc : o.status.isConfirmed = true := by
        cases hcf : o.status.isConfirmed
        · rw [confirmationHeight_none_of_not_confirmed _ hcf, disconnectUnconfirms_none] at hd; cases hd
        · rfl
      exact unconfirmed_not_threshold o.status lb t h hc (hst ▸ hs)
    · subst he
      obtain ⟨b, hb, hh, hsp⟩ := hi.confAt o' ho lb t h hs
      rw [hs, confirmationHeight_threshold, disconnectUnconfirms_some] at hd
      have hle : h ≤ f := by simpa using hd
      refine ⟨b, ?_, hh, hsp⟩
      simp only [LState.step]
      exact List.mem_filter.2 ⟨hb, by simpa [hh] using hle⟩
  · intro o' ho' hsp
    obtain ⟨o, ho, hid, hcase⟩ := mem_disconnect_outputs ho'
    simp only [LState.step] at hsp
    obtain ⟨b, hb, hbs⟩ := spentOnChain_iff.1 hsp
    obtain ⟨hbc, hbf⟩ := List.mem_filter.1 hb
    have hbf : b.1 ≤ f := by simpa using hbf
    rw [hid] at hbs
    have hc := hi.spentConf o ho (spentOnChain_iff.2 ⟨b, hbc, hbs⟩)
    obtain ⟨lb, t, h, hs⟩ := (isConfirmed_iff _).1 hc
    obtain ⟨b', hb', hh, hsp'⟩ := hi.confAt o ho lb t h hs
    have hEq : b.1 = h := (hi.single b hbc b' hb' o.id hbs hsp').trans hh
    rcases hcase with ⟨hd, _⟩ | ⟨_, he⟩
    · exfalso
      rw [hs, confirmationHeight_threshold, disconnectUnconfirms_some] at hd
      have : h > f := by simpa using hd
      omega
    · subst he; exact hc
  · intro b1 hb1 b2 hb2 id h1 h2
    simp only [LState.step] at hb1 hb2
    exact hi.single b1 (List.mem_filter.1 hb1).1 b2 (List.mem_filter.1 hb2).1 id h1 h2

theorem inv_step {l : LState} (hi : Inv l) (op : LOp) (hw : LOp.wf l op) : Inv (l.step op) := by
  cases op with
  | track id d => exact inv_track hi id d hw
  | sweep => exact inv_sweep hi
  | connect txs => exact inv_connect hi txs hw
  | disconnect f => exact inv_disconnect hi f

theorem inv_run : ∀ (ops : List LOp) (l : LState), Inv l → WFHist l ops → Inv (l.run ops) := by
  intro ops
  induction ops with
  | nil => intro l hi _; exact hi
  | cons op ops ih =>
    intro l hi hw
    simp only [LState.run, List.foldl_cons]
    exact ih _ (inv_step hi op hw.1) hw.2

/-- a sweeper that tracks nothing yet, on any chain tip -/
def LState.fresh (best : Nat) : LState := { sw := { best := best, outputs := [], nextTx := 1 }, chain := [] }

theorem inv_fresh (best : Nat) : Inv (LState.fresh best) :=
  { heights := by intro b hb; simp [LState.fresh] at hb
    confAt := by intro o ho; simp [LState.fresh] at ho
    spentConf := by intro o ho; simp [LState.fresh] at ho
    single := by intro b hb; simp [LState.fresh] at hb }

theorem sweep_tx_inputs {s : State} {tx : Tx} (h : (sweep s).2 = some tx) : tx.inputs = sweepInputs s := by
  unfold sweep at h; simp only at h
  split at h
  · cases h
  · cases h; rfl

theorem mem_sweepInputs {s : State} {id : Nat} (h : id ∈ sweepInputs s) : ∃ o ∈ s.outputs, o.id = id ∧ respend o s.best = true := by
  unfold sweepInputs at h
  obtain ⟨o, ho, rfl⟩ := List.mem_map.1 h
  exact ⟨o, (List.mem_filter.1 ho).1, rfl, (List.mem_filter.1 ho).2⟩

theorem respend_not_confirmed {o : Out} {c : Nat} (h : respend o c = true) : o.status.isConfirmed = false := by
  cases hc : o.status.isConfirmed
  · rfl
  · unfold respend at h; rw [hc, respendFilter_confirmed] at h; cases h

end Ldk.Sweeper
