/- whole-history lemmas about Model/NodeStep.lean `run` (C08, round 5): the upstream HTLC is resolved at most once -/
import LdkModel.Proofs.NodeStep
namespace Ldk.NodeStep
open Ldk Ldk.Timing

/-- actions that resolve the upstream HTLC off chain -/
def Act.isRes : Act → Bool
  | .failBack => true
  | .claimOffchain => true
  | _ => false

def resCount (l : List Act) : Nat := (l.filter Act.isRes).length

/-- 1 once the upstream HTLC is resolved -/
def resolved (s : St) : Nat := if s.up = .pending then 0 else 1

theorem resCount_nil : resCount [] = 0 := rfl
theorem resCount_append (a b : List Act) : resCount (a ++ b) = resCount a + resCount b := by
  simp [resCount, List.filter_append]
theorem resCount_cons (a : Act) (l : List Act) : resCount (a :: l) = (if a.isRes then 1 else 0) + resCount l := by
  unfold resCount; rw [List.filter_cons]; cases a.isRes <;> simp <;> omega

/-- balance of one stage: resolutions emitted + already resolved before = resolved after -/
def Bal (s : St) (r : St × List Act) : Prop := resCount r.2 + resolved s = resolved r.1

theorem bal_id (s : St) : Bal s (s, []) := by simp [Bal, resCount_nil]

theorem failUp_bal (s : St) : Bal s (failUp s) := by
  unfold Bal failUp resolved
  by_cases h : s.up = .pending <;> simp [h, resCount, List.filter, Act.isRes]

theorem bal_of_up_eq (s s' : St) (h : s'.up = s.up) (l : List Act) (hl : resCount l = 0) : Bal s (s', l) := by
  simp [Bal, resolved, h, hl]

theorem mgrBlock_bal (s : St) (h : Nat) (x : BbuExit) : Bal s (mgrBlock s h x) := by
  unfold mgrBlock
  split
  · have hb := failUp_bal { s with inCell := false }
    have hr : resolved { s with inCell := false } = resolved s := rfl
    cases x.returnsTimedOut <;> cases x.isOk <;>
      simp only [Bal, if_true, if_false, Bool.false_eq_true, resCount_cons, resCount_append, Act.isRes, resCount_nil, resolved] at * <;>
      omega
  · exact bal_id s

theorem mgrIntercept_bal (s : St) (h : Nat) : Bal s (mgrIntercept s h) := by
  unfold mgrIntercept
  split
  · have hb := failUp_bal { s with intercepted := false }
    have hr : resolved { s with intercepted := false } = resolved s := rfl
    simp only [Bal, resCount_cons, Act.isRes, Bool.false_eq_true, if_false] at *
    omega
  · exact bal_id s

theorem monTxs_up (s : St) (h : Nat) (c t : Bool) : (monTxs s h c t).up = s.up := by
  unfold monTxs; simp only []; split <;> split <;> rfl

theorem monScan_bal (s : St) (h : Nat) : Bal s (monScan s h) := by
  unfold monScan; split
  · exact bal_of_up_eq _ _ rfl _ (by simp [resCount_cons, Act.isRes, resCount_nil])
  · exact bal_id s

theorem monMatured_bal (s : St) (h : Nat) : Bal s (monMatured s h) := by
  unfold monMatured
  split
  · split
    · have := failUp_bal { s with outLive := false }
      have hr : resolved { s with outLive := false } = resolved s := rfl
      simp only [Bal] at *; omega
    · exact bal_id s
  · exact bal_id s

theorem monPreemptive_bal (s : St) (h : Nat) : Bal s (monPreemptive s h) := by
  unfold monPreemptive; split
  · exact failUp_bal s
  · exact bal_id s

theorem monClaims_bal (s : St) (h : Nat) : Bal s (monClaims s h) := by
  unfold monClaims; split
  · exact bal_of_up_eq _ _ rfl _ (by simp [resCount_cons, Act.isRes, resCount_nil])
  · exact bal_id s

theorem monDown_bal (s : St) (h : Nat) (c t : Bool) : Bal s (monDown s h c t) := by
  have h0 : resolved (monTxs s h c t) = resolved s := by simp [resolved, monTxs_up]
  have h1 := monScan_bal (monTxs s h c t) h
  have h2 := monMatured_bal (monScan (monTxs s h c t) h).1 h
  have h3 := monPreemptive_bal (monMatured (monScan (monTxs s h c t) h).1 h).1 h
  have h4 := monClaims_bal (monPreemptive (monMatured (monScan (monTxs s h c t) h).1 h).1 h).1 h
  simp only [Bal, monDown, resCount_append] at *
  omega

theorem monUp_bal (s : St) (h : Nat) : Bal s (monUp s h) := by
  unfold monUp; split
  · exact bal_of_up_eq _ _ rfl _ (by simp [resCount_cons, Act.isRes, resCount_nil])
  · exact bal_id s

theorem onPreimage_bal (s : St) : Bal s (onPreimage s) := by
  unfold onPreimage
  split
  · exact bal_id s
  · simp only []
    split
    · rename_i hc
      simp only [Bool.and_eq_true, decide_eq_true_eq] at hc
      simp [Bal, resolved, hc.1, resCount_cons, Act.isRes, resCount_nil]
    · exact bal_of_up_eq _ _ rfl _ resCount_nil

theorem nodeStep_bal (s : St) (e : Ev) : Bal s (nodeStep s e) := by
  cases e with
  | block h x c t =>
    have h1 := mgrBlock_bal s h x
    have hi := mgrIntercept_bal (mgrBlock s h x).1 h
    simp only [nodeStep]
    split
    · have h2 := monDown_bal (mgrIntercept (mgrBlock s h x).1 h).1 h c t
      have h3 := monUp_bal (monDown (mgrIntercept (mgrBlock s h x).1 h).1 h c t).1 h
      simp only [Bal, resCount_append, resolved] at *
      omega
    · simp only [Bal, resCount_append] at *
      omega
  | preimage => exact onPreimage_bal s
  | downCommitted =>
    simp only [nodeStep]; split
    · exact bal_of_up_eq _ _ rfl _ resCount_nil
    · exact bal_id s
  | released =>
    simp only [nodeStep]; split
    · exact bal_of_up_eq _ _ rfl _ resCount_nil
    · exact bal_id s

/-- resolutions in a run log -/
def logRes (l : List (Nat × Act)) : Nat := (l.filter (fun p => p.2.isRes)).length

theorem logRes_map (h : Nat) (l : List Act) : logRes (l.map (fun a => (h, a))) = resCount l := by
  induction l with
  | nil => rfl
  | cons a t ih =>
    simp only [logRes, resCount, List.map_cons, List.filter_cons] at *
    cases a.isRes <;> simp [ih]

theorem logRes_append (a b : List (Nat × Act)) : logRes (a ++ b) = logRes a + logRes b := by
  simp [logRes, List.filter_append]

/-- whole histories: resolutions logged + resolved before = resolved after -/
theorem run_bal (es : List Ev) : ∀ s : St, logRes (run s es).2 + resolved s = resolved (run s es).1 := by
  induction es with
  | nil => intro s; simp [run, logRes]
  | cons e t ih =>
    intro s
    have h1 := nodeStep_bal s e
    have h2 := ih (nodeStep s e).1
    simp only [run, logRes_append, logRes_map, Bal] at *
    omega

theorem resolved_le_one (s : St) : resolved s ≤ 1 := by unfold resolved; split <;> omega

/-! ### the downstream commitment is never broadcast before `expiry + grace`, over whole histories -/

theorem failUp_out (s : St) : (failUp s).1.outCltv = s.outCltv := by unfold failUp; split <;> rfl
theorem failUp_noDown (s : St) : Act.broadcastDown ∉ (failUp s).2 := by
  intro h; have := (failUp_mem s _ h).1; cases this

theorem mgrBlock_out (s : St) (h : Nat) (x : BbuExit) : (mgrBlock s h x).1.outCltv = s.outCltv := by
  unfold mgrBlock
  split
  · cases x.returnsTimedOut <;> cases x.isOk <;> simp only [if_true, if_false, Bool.false_eq_true, failUp_out]
  · rfl

theorem mgrBlock_noDown (s : St) (h : Nat) (x : BbuExit) : Act.broadcastDown ∉ (mgrBlock s h x).2 := by
  unfold mgrBlock
  split
  · have hf := failUp_noDown { s with inCell := false }
    cases x.returnsTimedOut <;> cases x.isOk <;>
      simp only [if_true, if_false, Bool.false_eq_true, List.mem_cons, List.mem_append, reduceCtorEq,
        false_or, or_false, List.not_mem_nil, not_false_eq_true] <;> first | exact hf | skip
  · simp

theorem mgrIntercept_out (s : St) (h : Nat) : (mgrIntercept s h).1.outCltv = s.outCltv := by
  unfold mgrIntercept; split
  · simp only [failUp_out]
  · rfl
theorem mgrIntercept_noDown (s : St) (h : Nat) : Act.broadcastDown ∉ (mgrIntercept s h).2 := by
  unfold mgrIntercept; split
  · have hf := failUp_noDown { s with intercepted := false }
    simp only [List.mem_cons, reduceCtorEq, false_or]; exact hf
  · simp

theorem monTxs_out (s : St) (h : Nat) (c t : Bool) : (monTxs s h c t).outCltv = s.outCltv := by
  unfold monTxs; simp only []; split <;> split <;> rfl

theorem monScan_out (s : St) (h : Nat) : (monScan s h).1.outCltv = s.outCltv := by unfold monScan; split <;> rfl
theorem monScan_down (s : St) (h : Nat) (hd : Act.broadcastDown ∈ (monScan s h).2) :
    shouldBroadcastFor h s.outCltv true s.preimage = true := by
  unfold monScan at hd
  split at hd
  · rename_i hc; simp only [Bool.and_eq_true] at hc; exact hc.2
  · simp at hd

theorem monMatured_noDown (s : St) (h : Nat) : Act.broadcastDown ∉ (monMatured s h).2 := by
  unfold monMatured
  split
  · split
    · exact failUp_noDown _
    · simp
  · simp

theorem monPreemptive_noDown (s : St) (h : Nat) : Act.broadcastDown ∉ (monPreemptive s h).2 := by
  unfold monPreemptive; split
  · exact failUp_noDown _
  · simp

theorem monClaims_noDown (s : St) (h : Nat) : Act.broadcastDown ∉ (monClaims s h).2 := by
  intro hm; have := monClaims_mem s h _ hm; cases this

theorem monUp_noDown (s : St) (h : Nat) : Act.broadcastDown ∉ (monUp s h).2 := by
  unfold monUp; split <;> simp

theorem monDown_down (s : St) (h : Nat) (c t : Bool) (hd : Act.broadcastDown ∈ (monDown s h c t).2) :
    shouldBroadcastFor h s.outCltv true (monTxs s h c t).preimage = true := by
  simp only [monDown, List.mem_append] at hd
  rcases hd with ((hd | hd) | hd) | hd
  · have := monScan_down _ _ hd; rwa [monTxs_out] at this
  · exact absurd hd (monMatured_noDown _ _)
  · exact absurd hd (monPreemptive_noDown _ _)
  · exact absurd hd (monClaims_noDown _ _)

theorem monMatured_out (s : St) (h : Nat) : (monMatured s h).1.outCltv = s.outCltv := by
  unfold monMatured
  split
  · split
    · rw [failUp_out]
    · rfl
  · rfl
theorem monPreemptive_out (s : St) (h : Nat) : (monPreemptive s h).1.outCltv = s.outCltv := by
  unfold monPreemptive; split
  · rw [failUp_out]
  · rfl
theorem monClaims_out (s : St) (h : Nat) : (monClaims s h).1.outCltv = s.outCltv := by unfold monClaims; split <;> rfl
theorem monUp_out (s : St) (h : Nat) : (monUp s h).1.outCltv = s.outCltv := by unfold monUp; split <;> rfl
theorem monDown_out (s : St) (h : Nat) (c t : Bool) : (monDown s h c t).1.outCltv = s.outCltv := by
  simp only [monDown, monClaims_out, monPreemptive_out, monMatured_out, monScan_out, monTxs_out]
theorem onPreimage_out (s : St) : (onPreimage s).1.outCltv = s.outCltv := by
  unfold onPreimage
  split
  · rfl
  · simp only []; split <;> rfl

theorem nodeStep_out (s : St) (e : Ev) : (nodeStep s e).1.outCltv = s.outCltv := by
  cases e with
  | block h x c t =>
    simp only [nodeStep]
    split
    · simp only [monUp_out, monDown_out, mgrIntercept_out, mgrBlock_out]
    · simp only [mgrIntercept_out, mgrBlock_out]
  | preimage => exact onPreimage_out s
  | downCommitted => simp only [nodeStep]; split <;> rfl
  | released => simp only [nodeStep]; split <;> rfl

/-- a step that logs `broadcastDown` is a block at a height where the translated per-HTLC test holds for the outbound HTLC -/
theorem nodeStep_down (s : St) (e : Ev) (hd : Act.broadcastDown ∈ (nodeStep s e).2) :
    ∃ p, shouldBroadcastFor (evHeight s e) s.outCltv true p = true := by
  cases e with
  | block h x c t =>
    simp only [nodeStep] at hd
    split at hd
    · simp only [List.mem_append] at hd
      rcases hd with ((hd | hd) | hd) | hd
      · exact absurd hd (mgrBlock_noDown _ _ _)
      · exact absurd hd (mgrIntercept_noDown _ _)
      · have := monDown_down _ _ _ _ hd
        rw [mgrIntercept_out, mgrBlock_out] at this
        exact ⟨_, this⟩
      · exact absurd hd (monUp_noDown _ _)
    · simp only [List.mem_append] at hd
      rcases hd with hd | hd
      · exact absurd hd (mgrBlock_noDown _ _ _)
      · exact absurd hd (mgrIntercept_noDown _ _)
  | preimage =>
    simp only [nodeStep, onPreimage] at hd
    split at hd
    · simp at hd
    · split at hd <;> simp at hd
  | downCommitted => simp only [nodeStep] at hd; split at hd <;> simp at hd
  | released => simp only [nodeStep] at hd; split at hd <;> simp at hd

theorem run_down (es : List Ev) : ∀ (s : St) (h : Nat), (h, Act.broadcastDown) ∈ (run s es).2 →
    ∃ p, shouldBroadcastFor h s.outCltv true p = true := by
  induction es with
  | nil => intro s h hm; simp [run] at hm
  | cons e t ih =>
    intro s h hm
    simp only [run, List.mem_append, List.mem_map] at hm
    rcases hm with ⟨a, ha, heq⟩ | hm
    · cases heq
      exact nodeStep_down s e ha
    · have := ih _ h hm
      rwa [nodeStep_out] at this

end Ldk.NodeStep
