/- C03 — helper lemmas about Model/Unbroadcast.lean (the live `fail_unbroadcast_htlcs!` check). -/
import LdkModel.Model.Unbroadcast
import LdkModel.Proofs.OnchainFailed
namespace Ldk.Unbroadcast
open Ldk Ldk.OnchainFailed Ldk.UnbroadcastGen Ldk.OnchainFailedGen

/-- characterisation of one round of the check, with the generated decisions unfolded -/
theorem checkOne_eq_some (fulfilled : List Nat) (conf : List BHtlc) (c : BHtlc) (s : Nat) :
    checkOne fulfilled conf c = some s ↔
      c.src = some s ∧ conf.any (matchedBy s c) = false ∧ s ∉ fulfilled := by
  unfold checkOne
  cases hc : c.src with
  | none => simp
  | some s' =>
    by_cases hm : conf.any (matchedBy s' c) = true
    · simp only [fuSkipMatched, hm, if_true]
      constructor
      · intro h; cases h
      · rintro ⟨h1, h2, _⟩
        have : s' = s := Option.some.inj h1
        subst this
        rw [hm] at h2; cases h2
    · have hm' : conf.any (matchedBy s' c) = false := by
        cases h : conf.any (matchedBy s' c) with
        | true => exact absurd h hm
        | false => rfl
      by_cases hf : s' ∈ fulfilled
      · have hcont : fulfilled.contains s' = true := by simpa using hf
        simp only [fuSkipMatched, hm', hcont, fuSkipFulfilled, if_true, Option.isSome_some]
        constructor
        · intro h; simp at h
        · rintro ⟨h1, _, h3⟩
          have : s' = s := Option.some.inj h1
          subst this
          exact absurd hf h3
      · have hcont : fulfilled.contains s' = false := by simpa using hf
        simp only [fuSkipMatched, hm', hcont, fuSkipFulfilled, fuQueues, if_true]
        constructor
        · intro h
          have h' : s' = s := by simpa using h
          subst h'
          exact ⟨rfl, hm', hf⟩
        · rintro ⟨h1, _, _⟩
          have : s' = s := Option.some.inj h1
          subst this
          simp

theorem mem_failUnbroadcast (cpCur cpPrev : List BHtlc) (fulfilled : List Nat) (conf : List BHtlc) (s : Nat) :
    s ∈ failUnbroadcast cpCur cpPrev fulfilled conf ↔
      ∃ c, (c ∈ cpCur ∨ c ∈ cpPrev) ∧ checkOne fulfilled conf c = some s := by
  unfold failUnbroadcast fuCandidates
  simp only [List.mem_flatMap, List.mem_filterMap, List.mem_cons, List.mem_nil_iff, or_false]
  constructor
  · rintro ⟨l, hl, c, hc, h⟩
    rcases hl with rfl | rfl
    · exact ⟨c, Or.inl hc, h⟩
    · exact ⟨c, Or.inr hc, h⟩
  · rintro ⟨c, hc | hc, h⟩
    · exact ⟨cpCur, Or.inl rfl, c, hc, h⟩
    · exact ⟨cpPrev, Or.inr rfl, c, hc, h⟩

/-- a confirmed entry with the candidate's source and an output matches -/
theorem matchedBy_same_source (s : Nat) (c b : BHtlc) (hs : b.src = some s) (ho : b.outIdx.isSome = true) :
    matchedBy s c b = true := by
  simp [matchedBy, fuMatches, hs, ho]

/-- what a match means -/
theorem matchedBy_iff (s : Nat) (c b : BHtlc) :
    matchedBy s c b = true ↔
      b.outIdx.isSome = true ∧ (b.src = some s ∨ (b.src = none ∧ b.hash = c.hash ∧ b.amt = c.amt)) := by
  simp [matchedBy, fuMatches, and_assoc]

/-- the restart walk reports a candidate whose source is absent from, or only dust in, the confirmed list (and of which
    the user has not been told) -/
theorem walkOne_absent_or_dust (m : Mon) (conf : List Htlc) (c : Htlc) (s : Nat) (hc : c.src = some s)
    (hr : s ∉ m.resolvedToUser) (hd : ∀ x ∈ conf, x.src = some s → x.outIdx = none) : walkOne m conf c = some s := by
  unfold walkOne
  have hcont : m.resolvedToUser.contains s = false := by simpa using hr
  simp only [hc, skipResolved, hcont]
  cases hf : conf.find? (fun h => h.src == some s) with
  | none => simp [reportNotIncluded]
  | some h =>
    have hmem := List.mem_of_find?_eq_some hf
    have hp := List.find?_some hf
    have hsrc : h.src = some s := by simpa using hp
    simp [isDust, reportDust, hd h hmem hsrc]

end Ldk.Unbroadcast
