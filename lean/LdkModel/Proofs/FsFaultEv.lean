/- C19 — arbitrary async histories (calls and completions interleaved) under I/O faults: the invariant. -/
import LdkModel.Proofs.FsFault
namespace Ldk.Fs
open Ldk.Kv Ldk.Persist Ldk.FsConsts

variable {ν : Type}

theorem pickV_perm (v : Nat) : ∀ (l : List (Pending ν)) (x : Pending ν) (r : List (Pending ν)),
    pickV v l = some (x, r) → l.Perm (x :: r)
  | [], _, _, h => by simp [pickV] at h
  | y :: l, x, r, h => by
    unfold pickV at h
    by_cases hy : y.version = v
    · simp only [hy, if_true, Option.some.injEq, Prod.mk.injEq] at h
      rw [h.1, h.2]
    · simp only [hy, if_false, Option.map_eq_some_iff] at h
      obtain ⟨e, he, heq⟩ := h
      have := pickV_perm v l e.1 e.2 he
      simp only [Prod.mk.injEq] at heq
      rw [← heq.1, ← heq.2]
      exact (List.Perm.cons y this).trans (List.Perm.swap _ _ _)

theorem locksOk_perm {st : St ν} {l l' : List (Pending ν)} (hp : l.Perm l') (h : LocksOk st l) : LocksOk st l' := by
  intro d
  have : (onDest d l).Perm (onDest d l') := hp.filter _
  rw [h d, this.length_eq]

/-- the invariant of an arbitrary async history for one destination `d` (initial contents `c0`): `M` is the
    greatest version among the operations on `d` that returned Ok (0 if none) and the destination holds
    that operation's result; the lock records at most `M`, and it judges every PENDING operation on `d`
    correctly (stale iff its version is at most `M`) -/
def AInv (d : Key) (c0 : Option (Content ν)) (a : ASt ν) : Prop :=
  LocksOk a.st a.pend ∧ 0 < a.st.nextVersion ∧ (∀ x ∈ a.pend, 0 < x.version ∧ x.version < a.st.nextVersion) ∧
  ∃ M, ((M = 0 ∧ (∀ y ∈ a.oks, y.dest ≠ d) ∧ a.st.fs.get d = c0) ∨
        (∃ m ∈ a.oks, m.dest = d ∧ m.version = M ∧ (∀ y ∈ a.oks, y.dest = d → y.version ≤ M) ∧ a.st.fs.get d = m.result)) ∧
       (lockOf a.st d).lastWritten ≤ M ∧ M < a.st.nextVersion ∧
       (∀ x ∈ a.pend, x.dest = d → x.version ≤ M → x.version ≤ (lockOf a.st d).lastWritten)

theorem nextVersion_execF (st : St ν) (x : Pending ν) (f : Bool) : (execF st x f).1.nextVersion = st.nextVersion := rfl

theorem ainv_complete (d : Key) (hd : isArtifact d.2.2 = false) (c0 : Option (Content ν)) (a : ASt ν) (x : Pending ν)
    (rest : List (Pending ν)) (f : Bool) (hperm : a.pend.Perm (x :: rest)) (h : AInv d c0 a) :
    AInv d c0 { st := (execF a.st x f).1, pend := rest, oks := if (execF a.st x f).2 then x :: a.oks else a.oks } := by
  obtain ⟨hl, hnv, hpv, M, hM, hlw, hMn, hj⟩ := h
  have hl' : LocksOk a.st (x :: rest) := locksOk_perm hperm hl
  have hxp : x ∈ a.pend := hperm.symm.subset (List.mem_cons_self ..)
  have hrp : ∀ y ∈ rest, y ∈ a.pend := fun y hy => hperm.symm.subset (List.mem_cons_of_mem _ hy)
  have hlk : LocksOk (execF a.st x f).1 rest := locksOk_stepF (a.st, a.oks) x f rest hl'
  refine ⟨hlk, hnv, fun y hy => hpv y (hrp y hy), ?_⟩
  show ∃ M', (_ ∨ _) ∧ (lockOf (execF a.st x f).1 d).lastWritten ≤ M' ∧ M' < a.st.nextVersion ∧ _
  by_cases hxd : d = x.dest
  · subst hxd
    have hok : (execF a.st x f).2 = (regF ((lockOf a.st x.dest).lastWritten, a.st.fs.get x.dest) x f).2 := rfl
    have hget := get_execF a.st x f x.dest hd
    simp only [if_true] at hget
    have hrefs := hl' x.dest
    rw [onDest_cons_same] at hrefs
    simp only [List.length_cons] at hrefs
    -- the lock afterwards: dropped (then nothing on this destination is pending) or the register's version
    have hlock : (lockOf (execF a.st x f).1 x.dest).lastWritten = 0 ∧ (∀ y ∈ rest, y.dest ≠ x.dest) ∨
        (lockOf (execF a.st x f).1 x.dest).lastWritten = (regF ((lockOf a.st x.dest).lastWritten, a.st.fs.get x.dest) x f).1.1 := by
      rw [lockOf_execF_same]
      by_cases h1 : (lockOf a.st x.dest).refs ≤ 1
      · left
        simp only [h1, if_true, true_and]
        have hnil : onDest x.dest rest = [] := List.eq_nil_of_length_eq_zero (by omega)
        intro y hy hyd
        have : y ∈ onDest x.dest rest := by simp [onDest, hy, hyd]
        rw [hnil] at this; simp at this
      · right; simp only [h1, if_false]
    rw [hok, hget]
    rcases regF_cases (lockOf a.st x.dest).lastWritten (a.st.fs.get x.dest) x f with ⟨hst, hr⟩ | ⟨hst, hr⟩ | ⟨hst, hr⟩
    · -- stale: Ok, x joins the Ok list below the maximum
      refine ⟨M, ?_, ?_, hMn, ?_⟩
      · rcases hM with ⟨h0, _, _⟩ | ⟨m, hm, hmd, hmv, hmax, hc⟩
        · have := (hpv x hxp).1; omega
        · right
          refine ⟨m, ?_, hmd, hmv, ?_, ?_⟩
          · simp only [hr, if_true]; exact List.mem_cons_of_mem _ hm
          · intro y hy hyd
            simp only [hr, if_true] at hy
            rcases List.mem_cons.mp hy with rfl | hy
            · omega
            · exact hmax y hy hyd
          · simp only [hr]; exact hc
      · rcases hlock with ⟨h0, _⟩ | h1
        · omega
        · rw [h1]; simp only [hr]; exact hlw
      · intro y hy hyd hyM
        rcases hlock with ⟨_, hno⟩ | h1
        · exact absurd hyd (hno y hy)
        · rw [h1]; simp only [hr]; exact hj y (hrp y hy) hyd hyM
    · -- failed: Err, nothing changes
      refine ⟨M, ?_, ?_, hMn, ?_⟩
      · simp only [hr]; exact hM
      · rcases hlock with ⟨h0, _⟩ | h1
        · omega
        · rw [h1]; simp only [hr]; exact hlw
      · intro y hy hyd hyM
        rcases hlock with ⟨_, hno⟩ | h1
        · exact absurd hyd (hno y hy)
        · rw [h1]; simp only [hr]; exact hj y (hrp y hy) hyd hyM
    · -- applied: x is the new maximum
      have hMx : M < x.version := by
        by_cases hle : x.version ≤ M
        · have := hj x hxp rfl hle; omega
        · omega
      refine ⟨x.version, ?_, ?_, (hpv x hxp).2, ?_⟩
      · right
        refine ⟨x, ?_, rfl, rfl, ?_, ?_⟩
        · simp only [hr, if_true]; exact List.mem_cons_self ..
        · intro y hy hyd
          simp only [hr, if_true] at hy
          rcases List.mem_cons.mp hy with rfl | hy
          · exact Nat.le_refl _
          · rcases hM with ⟨_, h1, _⟩ | ⟨m, hm, hmd, hmv, hmax, hc⟩
            · exact absurd hyd (h1 y hy)
            · have := hmax y hy hyd; omega
        · simp only [hr]
      · rcases hlock with ⟨h0, _⟩ | h1
        · omega
        · rw [h1]; simp only [hr]; exact Nat.le_refl _
      · intro y hy hyd hyM
        rcases hlock with ⟨_, hno⟩ | h1
        · exact absurd hyd (hno y hy)
        · rw [h1]; simp only [hr]; exact hyM
  · -- an operation on another destination
    have hgetd : (execF a.st x f).1.fs.get d = a.st.fs.get d := by rw [get_execF a.st x f d hd]; simp [hxd]
    have hlockd : lockOf (execF a.st x f).1 d = lockOf a.st d := lockOf_execF_ne a.st x f hxd
    have hxd' : x.dest ≠ d := fun e => hxd e.symm
    rw [hgetd, hlockd]
    refine ⟨M, ?_, hlw, hMn, fun y hy => hj y (hrp y hy)⟩
    rcases hM with ⟨h0, h1, h2⟩ | ⟨m, hm, hmd, hmv, hmax, hc⟩
    · left
      refine ⟨h0, ?_, h2⟩
      intro y hy
      split at hy
      · rcases List.mem_cons.mp hy with rfl | hy
        · exact hxd'
        · exact h1 y hy
      · exact h1 y hy
    · right
      refine ⟨m, ?_, hmd, hmv, ?_, hc⟩
      · split
        · exact List.mem_cons_of_mem _ hm
        · exact hm
      · intro y hy hyd
        split at hy
        · rcases List.mem_cons.mp hy with rfl | hy
          · exact absurd hyd hxd'
          · exact hmax y hy hyd
        · exact hmax y hy hyd

theorem ainv_issue (d : Key) (c0 : Option (Content ν)) (a : ASt ν) (dd : Key) (b : Body ν) (h : AInv d c0 a) :
    AInv d c0 { a with st := (issue a.st dd b).1, pend := (issue a.st dd b).2 :: a.pend } := by
  obtain ⟨hl, hnv, hpv, M, hM, hlw, hMn, hj⟩ := h
  have hfs : (issue a.st dd b).1.fs = a.st.fs := rfl
  have hnx : (issue a.st dd b).1.nextVersion = a.st.nextVersion + 1 := rfl
  have hver : (issue a.st dd b).2.version = a.st.nextVersion := rfl
  have hdest : (issue a.st dd b).2.dest = dd := rfl
  have hlwd : ∀ d', (lockOf (issue a.st dd b).1 d').lastWritten = (lockOf a.st d').lastWritten := by
    intro d'
    rw [lockOf_issue]
    by_cases h : d' = dd
    · simp [h]
    · simp [h]
  refine ⟨?_, by rw [hnx]; omega, ?_, M, ?_, by rw [hlwd]; exact hlw, by rw [hnx]; omega, ?_⟩
  · intro d'
    show (lockOf (issue a.st dd b).1 d').refs = (onDest d' ((issue a.st dd b).2 :: a.pend)).length
    rw [lockOf_issue]
    by_cases h : d' = dd
    · subst h
      have : onDest d' ((issue a.st d' b).2 :: a.pend) = (issue a.st d' b).2 :: onDest d' a.pend := onDest_cons_same (issue a.st d' b).2 _
      simp only [if_true]; rw [this, List.length_cons, hl d']
    · have : onDest d' ((issue a.st dd b).2 :: a.pend) = onDest d' a.pend := onDest_cons_ne (x := (issue a.st dd b).2) h _
      simp only [h, if_false]; rw [this, hl d']
  · intro x hx
    show 0 < x.version ∧ x.version < (issue a.st dd b).1.nextVersion
    rw [hnx]
    rcases List.mem_cons.mp hx with rfl | hx
    · rw [hver]; omega
    · have := hpv x hx; omega
  · show (_ ∧ _ ∧ (issue a.st dd b).1.fs.get d = c0) ∨ (∃ m ∈ a.oks, _ ∧ _ ∧ _ ∧ (issue a.st dd b).1.fs.get d = m.result)
    rw [hfs]; exact hM
  · intro x hx hxd hxM
    show x.version ≤ (lockOf (issue a.st dd b).1 d).lastWritten
    rw [hlwd]
    rcases List.mem_cons.mp hx with rfl | hx
    · rw [hver] at hxM; omega
    · exact hj x hx hxd hxM

theorem ainv_step (ue : Bool) (d : Key) (hd : isArtifact d.2.2 = false) (c0 : Option (Content ν)) (a : ASt ν) (e : AEv ν)
    (h : AInv d c0 a) : AInv d c0 (AEv.apply ue a e) := by
  cases e with
  | call op =>
    simp only [AEv.apply]
    split
    · exact ainv_issue d c0 a _ _ h
    · exact h
  | complete v f =>
    simp only [AEv.apply]
    split
    · exact h
    · next x rest hp => exact ainv_complete d hd c0 a x rest f (pickV_perm v _ _ _ hp) h

theorem ainv_run (ue : Bool) (d : Key) (hd : isArtifact d.2.2 = false) (c0 : Option (Content ν)) :
    ∀ (evs : List (AEv ν)) (a : ASt ν), AInv d c0 a → AInv d c0 (runA ue a evs)
  | [], _, h => h
  | e :: evs, a, h => ainv_run ue d hd c0 evs (AEv.apply ue a e) (ainv_step ue d hd c0 a e h)

end Ldk.Fs
