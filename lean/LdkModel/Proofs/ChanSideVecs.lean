import LdkModel.Model.ChanSideVecs
/-! generic lemma behind the C12 side-vector theorem -/
namespace Ldk.ChanSideVecs

/-- if the reader consumes an entry for the (re-read) kind of an element exactly when the writer pushed one for it, re-attaching the
    collected vector gives every element back its OWN value, whatever the mix of carrying / non-carrying elements and Some / None -/
theorem reattach_collect (p q : String → Bool) (ra : String → String) (lo : Bool) (l : List Elem)
    (h : ∀ e ∈ l, q (ra e.1) = p e.1) :
    reattach q lo (l.map (fun e => ra e.1)) (collect p l) = some (l.map fun e => (ra e.1, if p e.1 then e.2 else none)) := by
  induction l with
  | nil => simp [collect, reattach]
  | cons a l ih =>
    have ha := h a (List.mem_cons_self)
    have ih' := ih (fun e he => h e (List.mem_cons_of_mem _ he))
    cases hp : p a.1 with
    | true =>
      rw [hp] at ha
      simp only [List.map_cons, collect, List.filter_cons, hp, if_true, reattach, ha]
      simp only [collect] at ih'
      rw [ih']; simp
    | false =>
      rw [hp] at ha
      simp only [List.map_cons, collect, List.filter_cons, hp, reattach, ha]
      simp only [collect] at ih'
      simp [ih']

theorem collect_nil (p : String → Bool) (l : List Elem) (h : collect p l = []) : ∀ e ∈ l, p e.1 = false := by
  intro e he
  cases hp : p e.1 with
  | false => rfl
  | true =>
    have : e ∈ l.filter (fun e => p e.1) := List.mem_filter.mpr ⟨he, hp⟩
    simp only [collect, List.map_eq_nil_iff] at h
    rw [h] at this; cases this

theorem reattachOpt_collect (p q : String → Bool) (ra : String → String) (lo : Bool) (l : List Elem)
    (h : ∀ e ∈ l, q (ra e.1) = p e.1) :
    reattachOpt q lo (l.map (fun e => ra e.1)) (collect p l) = some (l.map fun e => (ra e.1, if p e.1 then e.2 else none)) := by
  unfold reattachOpt
  cases hc : (collect p l).isEmpty with
  | false => simp only [Bool.false_eq_true, if_false]; exact reattach_collect p q ra lo l h
  | true =>
    have hnil : collect p l = [] := List.isEmpty_iff.mp hc
    have hp := collect_nil p l hnil
    simp only [if_true, List.map_map, Option.some.injEq]
    apply List.map_congr_left; intro e he; simp [hp e he]

end Ldk.ChanSideVecs
