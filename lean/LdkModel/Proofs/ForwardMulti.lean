/- Helper lemmas for the N-HTLC machine of Model/ForwardMulti.lean (C02). -/
import LdkModel.Model.ForwardMulti
import LdkModel.Proofs.Forward
namespace Ldk.FwdMulti
open Ldk Ldk.Forward Ldk.ChainClaimGen

theorem run_append (s : St) (a b : List Op) : run (run s a) b = run s (a ++ b) := by
  simp [run, List.foldl_append]

theorem mstep_eq_spec (m : MSt) (op : MOp) : mstep m op = mstepSpec m op := rfl

theorem mstep_hs (m : MSt) (op : MOp) (i : Nat) : (mstep m op).hs i = run (m.hs i) (opsFor m op i) := by
  simp only [mstep_eq_spec, mstepSpec, opsFor, run_append, List.append_assoc]

theorem mstep_n (m : MSt) (op : MOp) : (mstep m op).n = m.n := by rw [mstep_eq_spec]; rfl

theorem mrun_cons (m : MSt) (op : MOp) (ops : List MOp) : mrun m (op :: ops) = mrun (mstep m op) ops := rfl

theorem mrun_n (m : MSt) (ops : List MOp) : (mrun m ops).n = m.n := by
  induction ops generalizing m with
  | nil => rfl
  | cons op t ih => rw [mrun_cons, ih, mstep_n]

/-- the trajectory of HTLC `i` in ANY run of the N-machine is a run of the one-HTLC machine -/
theorem lifting_from (m : MSt) (ops : List MOp) (i : Nat) : ∃ ops', (mrun m ops).hs i = run (m.hs i) ops' := by
  induction ops generalizing m with
  | nil => exact ⟨[], rfl⟩
  | cons op t ih =>
    obtain ⟨o', h⟩ := ih (mstep m op)
    exact ⟨opsFor m op i ++ o', by rw [mrun_cons, h, mstep_hs, run_append]⟩

theorem inv_multi (n : Nat) (ops : List MOp) (i : Nat) : Inv ((mrun (minit n) ops).hs i) := by
  obtain ⟨o', h⟩ := lifting_from (minit n) ops i
  rw [h]; exact inv_reachable o'

/-! ### money, per HTLC -/

theorem paid_secured (s : St) (h : Inv s) (hp : paidDown s = true) : securedUp s = true := by
  obtain ⟨alive, sync, down, uh, ud, cs, raa, bl, uo, up, depth, dother⟩ := s
  obtain ⟨h1, h2, h3, h4, h5, h6, h7, h8⟩ := h
  cases down <;> cases raa <;> simp_all [paidDown, securedUp, durDownKnowsPreimage]

theorem paid_not_failed (s : St) (h : Inv s) (hp : paidDown s = true) : s.up ≠ .failSent := by
  obtain ⟨alive, sync, down, uh, ud, cs, raa, bl, uo, up, depth, dother⟩ := s
  obtain ⟨h1, h2, h3, h4, h5, h6, h7, h8⟩ := h
  cases down <;> cases up <;> simp_all [paidDown, failAllowed]

theorem sum_pointwise (ids : List Nat) (f g : Nat → Nat) (h : ∀ i ∈ ids, f i ≤ g i) : sumOver ids f ≤ sumOver ids g := by
  induction ids with
  | nil => simp [sumOver]
  | cons a t ih =>
    have h1 := h a (by simp)
    have h2 := ih (fun i hi => h i (by simp [hi]))
    simp only [sumOver, List.map_cons, List.sum_cons] at *
    omega

/-! ### the monitor's on-chain preimage learning -/

theorem resolveClaim_mono (p : List HtlcEv) (c : Claim) (ev : HtlcEv) (h : ev ∈ p) : ev ∈ resolveClaim p c := by
  unfold resolveClaim; split
  · exact h
  · exact List.mem_append_left _ h

theorem resolveBlock_mono (p : List HtlcEv) (cs : List Claim) (ev : HtlcEv) (h : ev ∈ p) : ev ∈ resolveBlock p cs := by
  induction cs generalizing p with
  | nil => exact h
  | cons c t ih => exact ih _ (resolveClaim_mono p c ev h)

theorem resolveClaim_pre (p : List HtlcEv) (c : Claim) (hp : ∀ ev ∈ p, ev.preimage.isSome = true) :
    ∀ ev ∈ resolveClaim p c, ev.preimage.isSome = true := by
  unfold resolveClaim; split
  · exact hp
  · intro ev hev
    rcases List.mem_append.1 hev with h | h
    · exact hp ev h
    · simp at h; subst h; rfl

theorem resolveBlock_pre (p : List HtlcEv) (cs : List Claim) (hp : ∀ ev ∈ p, ev.preimage.isSome = true) :
    ∀ ev ∈ resolveBlock p cs, ev.preimage.isSome = true := by
  induction cs generalizing p with
  | nil => exact hp
  | cons c t ih => exact ih _ (resolveClaim_pre p c hp)

/-- after one claim is processed the queue holds an event for ITS source — whatever other events (same hash or not) are queued -/
theorem resolveClaim_has (p : List HtlcEv) (c : Claim) : ∃ ev ∈ resolveClaim p c, ev.source = c.source := by
  unfold resolveClaim; split
  · rename_i h
    obtain ⟨upd, hmem, hdup⟩ := List.any_eq_true.1 h
    refine ⟨upd, hmem, ?_⟩
    cases hc : c.accepted <;> simp [isDup, hc, acceptedPreimageDup, offeredPreimageDup] at hdup <;> exact hdup
  · exact ⟨_, List.mem_append_right _ (List.mem_singleton.2 rfl), rfl⟩

theorem resolveBlock_has (p : List HtlcEv) (cs : List Claim) (c : Claim) (hc : c ∈ cs) :
    ∃ ev ∈ resolveBlock p cs, ev.source = c.source := by
  induction cs generalizing p with
  | nil => cases hc
  | cons a t ih =>
    rcases List.mem_cons.1 hc with h | h
    · subst h
      obtain ⟨ev, hm, hs⟩ := resolveClaim_has p c
      exact ⟨ev, resolveBlock_mono _ t ev hm, hs⟩
    · exact ih _ h

theorem events_pre (n : Nat) (ops : List MOp) : ∀ ev ∈ (mrun (minit n) ops).events, ev.preimage.isSome = true := by
  suffices h : ∀ m : MSt, (∀ ev ∈ m.events, ev.preimage.isSome = true) → ∀ ev ∈ (mrun m ops).events, ev.preimage.isSome = true by
    exact h (minit n) (by simp [minit])
  induction ops with
  | nil => intro m h; exact h
  | cons op t ih =>
    intro m h
    apply ih (mstep m op)
    cases op <;> first
      | exact h
      | (simp only [mstep_eq_spec, mstepSpec]; exact resolveBlock_pre _ _ h)
      | (simp [mstep_eq_spec, mstepSpec])

/-! ### interference ops leave `down` and the handed-out flag alone -/

theorem releaseBlocked_down (s : St) : (releaseBlocked s).down = s.down := by
  unfold releaseBlocked handRaa; split <;> rfl
theorem runUpActions_down (s : St) : (runUpActions s).down = s.down := by
  unfold runUpActions; split
  · rfl
  · rw [releaseBlocked_down]
theorem claimUpstream_down (s : St) : (claimUpstream s).down = s.down := by
  unfold claimUpstream; split <;> rw [runUpActions_down]

/-- the manager handling an on-chain preimage event for a live HTLC still open downstream: the preimage is known and the
    upstream `PaymentPreimage` update is with `chain::Watch` -/
theorem chainPreimage_learns (s : St) (ha : s.alive = true)
    (hd : s.down = .offered ∨ s.down = .fulfilSeen ∨ s.down = .failSeen) :
    (step s .chainPreimage).down = .onchainPreimage ∧ (step s .chainPreimage).upPreimageHandedToWatch = true ∧
    (step s .chainPreimage).alive = true := by
  have hc : (s.alive && (s.down == .offered || s.down == .fulfilSeen || s.down == .failSeen)) = true := by
    rcases hd with h | h | h <;> simp [ha, h]
  simp only [step, hc, if_true]
  exact ⟨by rw [claimUpstream_down], claimUpstream_uh _, by rw [claimUpstream_alive]; exact ha⟩

/-! ### interference ops -/

def isInterf : Op → Bool
  | .handUpOther | .completeUpOther | .addDownOther | .removeDownOther => true
  | _ => false

theorem releaseBlocked_uh (s : St) : (releaseBlocked s).upPreimageHandedToWatch = s.upPreimageHandedToWatch := by
  unfold releaseBlocked handRaa; split <;> rfl
theorem releaseBlocked_alive (s : St) : (releaseBlocked s).alive = s.alive := by
  unfold releaseBlocked handRaa; split <;> rfl

theorem interf_keeps (s : St) (op : Op) (h : isInterf op = true) :
    (step s op).down = s.down ∧ (step s op).upPreimageHandedToWatch = s.upPreimageHandedToWatch ∧ (step s op).alive = s.alive := by
  cases op <;> simp [isInterf] at h
  · simp only [step]; split <;> exact ⟨rfl, rfl, rfl⟩
  · simp only [step]; split
    · exact ⟨by rw [runUpActions_down], by rw [runUpActions_uh], by rw [runUpActions_alive]⟩
    · exact ⟨rfl, rfl, rfl⟩
  · simp [step]
  · simp only [step]; split
    · exact ⟨by rw [releaseBlocked_down], by rw [releaseBlocked_uh], by rw [releaseBlocked_alive]⟩
    · exact ⟨rfl, rfl, rfl⟩

theorem run_interf_keeps (s : St) (ops : List Op) (h : ∀ op ∈ ops, isInterf op = true) :
    (run s ops).down = s.down ∧ (run s ops).upPreimageHandedToWatch = s.upPreimageHandedToWatch ∧ (run s ops).alive = s.alive := by
  induction ops generalizing s with
  | nil => exact ⟨rfl, rfl, rfl⟩
  | cons op t ih =>
    have h1 := interf_keeps s op (h op (by simp))
    have h2 := ih (step s op) (fun o ho => h o (by simp [ho]))
    exact ⟨h2.1.trans h1.1, h2.2.1.trans h1.2.1, h2.2.2.trans h1.2.2⟩

theorem secOps_interf (n : Nat) (b a : Nat → St) (i : Nat) : ∀ op ∈ secOps n b a i, isInterf op = true := by
  intro op h
  simp only [secOps, List.mem_append, List.mem_replicate] at h
  rcases h with ⟨-, rfl⟩ | ⟨-, rfl⟩ <;> rfl

theorem terOps_interf (n : Nat) (b a : Nat → St) (i : Nat) : ∀ op ∈ terOps n b a i, isInterf op = true := by
  intro op h
  simp only [terOps, List.mem_append, List.mem_replicate] at h
  rcases h with ⟨-, rfl⟩ | ⟨-, rfl⟩ <;> rfl

/-- one event, spelled out on one HTLC: the event's own effect, then interference only -/
theorem mstep_hs_split (m : MSt) (op : MOp) (i : Nat) :
    ∃ tail : List Op, (∀ o ∈ tail, isInterf o = true) ∧ (mstep m op).hs i = run (run (m.hs i) (priOps m op i)) tail := by
  refine ⟨secOps m.n m.hs (fun i => run (m.hs i) (priOps m op i)) i ++
          terOps m.n m.hs (fun i => run (run (m.hs i) (priOps m op i)) (secOps m.n m.hs (fun i => run (m.hs i) (priOps m op i)) i)) i, ?_, ?_⟩
  · intro o ho
    rcases List.mem_append.1 ho with h | h
    · exact secOps_interf _ _ _ _ o h
    · exact terOps_interf _ _ _ _ o h
  · simp only [mstep_eq_spec, mstepSpec, run_append, List.append_assoc]

theorem run_chainPreimage_list (s : St) (l : List HtlcEv) (hl : l ≠ []) (ha : s.alive = true)
    (hd : s.down = .offered ∨ s.down = .fulfilSeen ∨ s.down = .failSeen) :
    (run s (l.map fun _ => Op.chainPreimage)).down = .onchainPreimage ∧
    (run s (l.map fun _ => Op.chainPreimage)).upPreimageHandedToWatch = true := by
  cases l with
  | nil => exact absurd rfl hl
  | cons a t =>
    obtain ⟨h1, h2, -⟩ := chainPreimage_learns s ha hd
    have hfix : ∀ (u : St) (t : List HtlcEv), u.down = .onchainPreimage → run u (t.map fun _ => Op.chainPreimage) = u := by
      intro u t hu
      induction t with
      | nil => rfl
      | cons b t ih =>
        have : step u .chainPreimage = u := by simp [step, hu]
        simp only [List.map_cons, run, List.foldl_cons, this]; exact ih
    have hrun : run s ((a :: t).map fun _ => Op.chainPreimage) = step s .chainPreimage := by
      show run (step s .chainPreimage) (t.map fun _ => Op.chainPreimage) = _
      exact hfix _ t h1
    rw [hrun]; exact ⟨h1, h2⟩

/-- nothing happens to the HTLC records while the monitor only SEES a block -/
theorem chainSee_pri (m : MSt) (claims : List Claim) (i : Nat) : priOps m (.chainSee claims) i = [] := rfl

theorem drain_claims (m : MSt) (claims : List Claim) (c : Claim) (hc : c ∈ claims)
    (hp : ∀ ev ∈ m.events, ev.preimage.isSome = true) (ha : (m.hs c.source).alive = true)
    (hd : (m.hs c.source).down = .offered ∨ (m.hs c.source).down = .fulfilSeen ∨ (m.hs c.source).down = .failSeen) :
    ((mstep (mstep m (.chainSee claims)) .drainEvents).hs c.source).down = .onchainPreimage ∧
    ((mstep (mstep m (.chainSee claims)) .drainEvents).hs c.source).upPreimageHandedToWatch = true := by
  obtain ⟨ev, hev, hsrc⟩ := resolveBlock_has m.events claims c hc
  have hpre := resolveBlock_pre _ claims hp ev hev
  generalize hm1 : mstep m (.chainSee claims) = m1
  have hev1 : m1.events = resolveBlock m.events claims := by rw [← hm1, mstep_eq_spec]; rfl
  obtain ⟨t1, ht1, h1⟩ := mstep_hs_split m (.chainSee claims) c.source
  rw [chainSee_pri, hm1] at h1
  have k1 := run_interf_keeps (m.hs c.source) t1 ht1
  have h1' : m1.hs c.source = run (m.hs c.source) t1 := h1
  have ha1 : (m1.hs c.source).alive = true := by rw [h1', k1.2.2]; exact ha
  have hd1 : (m1.hs c.source).down = .offered ∨ (m1.hs c.source).down = .fulfilSeen ∨ (m1.hs c.source).down = .failSeen := by
    rw [h1', k1.1]; exact hd
  obtain ⟨t2, ht2, h2⟩ := mstep_hs_split m1 .drainEvents c.source
  have hne : (m1.events.filter (fun e => e.source == c.source && e.preimage.isSome)) ≠ [] := by
    intro hnil
    have : ev ∈ (m1.events.filter (fun e => e.source == c.source && e.preimage.isSome)) :=
      List.mem_filter.2 ⟨hev1 ▸ hev, by simp [hsrc, hpre]⟩
    rw [hnil] at this; cases this
  have hl := run_chainPreimage_list (m1.hs c.source) _ hne ha1 hd1
  have k2 := run_interf_keeps (run (m1.hs c.source) (priOps m1 .drainEvents c.source)) t2 ht2
  rw [h2, k2.1, k2.2.1]
  exact hl

/-! ### coherence: every HTLC's `downOther` counter equals the number of OTHER HTLCs holding an RAA blocker -/

theorem releaseBlocked_dO (s : St) : (releaseBlocked s).downOther = s.downOther := by
  unfold releaseBlocked handRaa; split <;> rfl
theorem releaseBlocked_blocker (s : St) : (releaseBlocked s).blocker = s.blocker := by
  unfold releaseBlocked handRaa; split <;> rfl
theorem runUpActions_dO (s : St) : (runUpActions s).downOther = s.downOther := by
  unfold runUpActions; split
  · rfl
  · rw [releaseBlocked_dO]
theorem claimUpstream_dO (s : St) : (claimUpstream s).downOther = s.downOther := by
  unfold claimUpstream; split <;> rw [runUpActions_dO]
theorem completeAll_dO (s : St) : (completeAll s).downOther = s.downOther := by
  simp only [completeAll, runUpActions_dO]
theorem replayClaims_dO (s : St) : (replayClaims s).downOther = s.downOther := by
  unfold replayClaims; split
  · rw [claimUpstream_dO]
  · rfl

def isDO : Op → Bool
  | .addDownOther | .removeDownOther => true
  | _ => false

theorem step_dO (s : St) (op : Op) (h : isDO op = false) : (step s op).downOther = s.downOther := by
  cases op with
  | addDownOther => simp [isDO] at h
  | removeDownOther => simp [isDO] at h
  | complete w => cases w <;> simp only [step] <;> (repeat' split) <;> simp [runUpActions_dO]
  | restart sy =>
    simp only [step]; split
    · rfl
    · rw [runUpActions_dO]; split
      · rw [completeAll_dO, replayClaims_dO]
      · rw [replayClaims_dO]
  | _ => simp only [step] <;> (repeat' split) <;> simp [handRaa, runUpActions_dO, claimUpstream_dO]

theorem run_dO (s : St) (ops : List Op) (h : ∀ o ∈ ops, isDO o = false) : (run s ops).downOther = s.downOther := by
  induction ops generalizing s with
  | nil => rfl
  | cons op t ih =>
    have h1 := step_dO s op (h op (by simp))
    have h2 := ih (step s op) (fun o ho => h o (by simp [ho]))
    exact h2.trans h1

theorem priOps_noDO (m : MSt) (op : MOp) (i : Nat) : ∀ o ∈ priOps m op i, isDO o = false := by
  intro o ho
  cases op <;> simp only [priOps] at ho <;> (try split at ho) <;> simp at ho <;> (try (rcases ho with ⟨_, _, rfl⟩)) <;> (try subst ho) <;> rfl

theorem secOps_noDO (n : Nat) (b a : Nat → St) (i : Nat) : ∀ o ∈ secOps n b a i, isDO o = false := by
  intro op h
  simp only [secOps, List.mem_append, List.mem_replicate] at h
  rcases h with ⟨-, rfl⟩ | ⟨-, rfl⟩ <;> rfl

theorem run_adds (s : St) (a : Nat) :
    (run s (List.replicate a Op.addDownOther)).downOther = s.downOther + a ∧
    (run s (List.replicate a Op.addDownOther)).blocker = s.blocker := by
  induction a generalizing s with
  | zero => exact ⟨rfl, rfl⟩
  | succ k ih =>
    have := ih (step s .addDownOther)
    simp only [List.replicate_succ, run, List.foldl_cons] at this ⊢
    simp only [run] at ih
    refine ⟨?_, ?_⟩
    · rw [this.1]; simp only [step]; omega
    · rw [this.2]; simp only [step]

theorem run_removes (s : St) (r : Nat) (h : r ≤ s.downOther) :
    (run s (List.replicate r Op.removeDownOther)).downOther = s.downOther - r ∧
    (run s (List.replicate r Op.removeDownOther)).blocker = s.blocker := by
  induction r generalizing s with
  | zero => exact ⟨rfl, rfl⟩
  | succ k ih =>
    have hne : (s.downOther != 0) = true := by simp; omega
    have hst : step s .removeDownOther = releaseBlocked { s with downOther := s.downOther - 1 } := by
      simp only [step, hne, if_true]
    have h1 : (step s .removeDownOther).downOther = s.downOther - 1 := by rw [hst, releaseBlocked_dO]
    have h2 : (step s .removeDownOther).blocker = s.blocker := by rw [hst, releaseBlocked_blocker]
    have := ih (step s .removeDownOther) (by rw [h1]; omega)
    simp only [List.replicate_succ, run, List.foldl_cons] at this ⊢
    refine ⟨?_, ?_⟩
    · rw [this.1, h1]; omega
    · rw [this.2, h2]

theorem count_identity (l : List Nat) (c b a : Nat → Bool) :
    (l.filter fun k => c k && a k).length + (l.filter fun k => c k && (b k && !a k)).length =
    (l.filter fun k => c k && b k).length + (l.filter fun k => c k && (!b k && a k)).length := by
  induction l with
  | nil => rfl
  | cons x t ih =>
    simp only [List.filter_cons]
    cases c x <;> cases a x <;> cases b x <;> simp <;> omega

/-- the coherence invariant -/
def Coh (m : MSt) : Prop := ∀ i, (m.hs i).downOther = countOthers m.n i (fun k => (m.hs k).blocker)

theorem filter_false_len (l : List Nat) : (l.filter fun _ => false).length = 0 := by
  induction l with
  | nil => rfl
  | cons a t ih => simpa using ih

theorem coh_init (n : Nat) : Coh (minit n) := by
  intro i
  simp only [minit, Forward.init, countOthers, Bool.and_false]
  exact (filter_false_len _).symm

theorem step_DO_blocker (s : St) (op : Op) (h : isDO op = true) : (step s op).blocker = s.blocker := by
  cases op <;> simp [isDO] at h
  · rfl
  · simp only [step]; split
    · rw [releaseBlocked_blocker]
    · rfl

theorem run_DO_blocker (s : St) (ops : List Op) (h : ∀ o ∈ ops, isDO o = true) : (run s ops).blocker = s.blocker := by
  induction ops generalizing s with
  | nil => rfl
  | cons op t ih =>
    have h1 := step_DO_blocker s op (h op (by simp))
    have h2 := ih (step s op) (fun o ho => h o (by simp [ho]))
    exact h2.trans h1

theorem terOps_allDO (n : Nat) (b a : Nat → St) (i : Nat) : ∀ o ∈ terOps n b a i, isDO o = true := by
  intro op h
  simp only [terOps, List.mem_append, List.mem_replicate] at h
  rcases h with ⟨-, rfl⟩ | ⟨-, rfl⟩ <;> rfl

theorem coh_step (m : MSt) (op : MOp) (h : Coh m) : Coh (mstep m op) := by
  intro i
  generalize hh1 : (fun i => run (m.hs i) (priOps m op i)) = hs1
  generalize hh2 : (fun i => run (hs1 i) (secOps m.n m.hs hs1 i)) = hs2
  have e3 : ∀ k, (mstep m op).hs k = run (hs2 k) (terOps m.n m.hs hs2 k) := by
    intro k; subst hh2; subst hh1; rw [mstep_eq_spec]; rfl
  have en : (mstep m op).n = m.n := mstep_n m op
  have d2 : (hs2 i).downOther = (m.hs i).downOther := by
    subst hh2; subst hh1
    show (run (run (m.hs i) (priOps m op i)) _).downOther = _
    rw [run_dO _ _ (secOps_noDO _ _ _ _), run_dO _ _ (priOps_noDO m op i)]
  have hb : (fun k => ((mstep m op).hs k).blocker) = fun k => (hs2 k).blocker := by
    funext k; rw [e3]; exact run_DO_blocker _ _ (terOps_allDO _ _ _ _)
  have ci := count_identity (List.range m.n) (fun k => k != i) (fun k => (m.hs k).blocker) (fun k => (hs2 k).blocker)
  have hi := h i
  rw [e3, en, hb]
  simp only [countOthers] at hi ⊢
  simp only [terOps, ← run_append]
  have a1 := run_adds (hs2 i) ((List.filter (fun k => k != i && (!(m.hs k).blocker && (hs2 k).blocker)) (List.range m.n)).length)
  have r1 := run_removes (run (hs2 i) (List.replicate ((List.filter (fun k => k != i && (!(m.hs k).blocker && (hs2 k).blocker)) (List.range m.n)).length) Op.addDownOther))
    ((List.filter (fun k => k != i && ((m.hs k).blocker && !(hs2 k).blocker)) (List.range m.n)).length) (by rw [a1.1, d2, hi]; omega)
  simp only [countOthers]
  rw [r1.1, a1.1, d2, hi]
  omega

theorem coh_run (m : MSt) (ops : List MOp) (h : Coh m) : Coh (mrun m ops) := by
  induction ops generalizing m with
  | nil => exact h
  | cons op t ih => exact ih _ (coh_step m op h)

end Ldk.FwdMulti
