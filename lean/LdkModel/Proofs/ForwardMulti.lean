/- Helper lemmas for the N-HTLC machine of Model/ForwardMulti.lean (C02). -/
import LdkModel.Model.ForwardMulti
import LdkModel.Proofs.Forward
namespace Ldk.FwdMulti
open Ldk Ldk.Forward Ldk.ChainClaimGen

theorem run_append (s : St) (a b : List Op) : run (run s a) b = run s (a ++ b) := by
  simp [run, List.foldl_append]

theorem mstep_hs (m : MSt) (op : MOp) (i : Nat) : (mstep m op).hs i = run (m.hs i) (opsFor m op i) := by
  simp only [mstep, opsFor, run_append, List.append_assoc]

theorem mstep_n (m : MSt) (op : MOp) : (mstep m op).n = m.n := rfl

theorem mrun_cons (m : MSt) (op : MOp) (ops : List MOp) : mrun m (op :: ops) = mrun (mstep m op) ops := rfl

/-- the trajectory of HTLC `i` in ANY run of the N-machine is a run of the one-HTLC machine -/
theorem lifting_from (m : MSt) (ops : List MOp) (i : Nat) : ∃ ops', (mrun m ops).hs i = run (m.hs i) ops' := by
  induction ops generalizing m with
  | nil => exact ⟨[], rfl⟩
  | cons op t ih =>
    obtain ⟨o', h⟩ := ih (mstep m op)
    exact ⟨opsFor m op i ++ o', by rw [mrun_cons, h, mstep_hs, run_append]⟩

theorem inv_multi (n : Nat) (ops : List MOp) (i : Nat) : Inv ((mrun (minit n) ops).hs i) := by
  obtain ⟨o', h⟩ := lifting_from (minit n) ops i
  rw [h]; exact inv_reachable o'

/-! ### money, per HTLC -/

theorem paid_secured (s : St) (h : Inv s) (hp : paidDown s = true) : securedUp s = true := by
  obtain ⟨alive, sync, down, uh, ud, cs, raa, bl, uo, up, depth, dother⟩ := s
  obtain ⟨h1, h2, h3, h4, h5, h6, h7, h8⟩ := h
  cases down <;> cases raa <;> simp_all [paidDown, securedUp, durDownKnowsPreimage]

theorem paid_not_failed (s : St) (h : Inv s) (hp : paidDown s = true) : s.up ≠ .failSent := by
  obtain ⟨alive, sync, down, uh, ud, cs, raa, bl, uo, up, depth, dother⟩ := s
  obtain ⟨h1, h2, h3, h4, h5, h6, h7, h8⟩ := h
  cases down <;> cases up <;> simp_all [paidDown, failAllowed]

theorem sum_pointwise (ids : List Nat) (f g : Nat → Nat) (h : ∀ i ∈ ids, f i ≤ g i) : sumOver ids f ≤ sumOver ids g := by
  induction ids with
  | nil => simp [sumOver]
  | cons a t ih =>
    have h1 := h a (by simp)
    have h2 := ih (fun i hi => h i (by simp [hi]))
    simp only [sumOver, List.map_cons, List.sum_cons] at *
    omega

/-! ### the monitor's on-chain preimage learning -/

theorem resolveClaim_mono (p : List HtlcEv) (c : Claim) (ev : HtlcEv) (h : ev ∈ p) : ev ∈ resolveClaim p c := by
  unfold resolveClaim; split
  · exact h
  · exact List.mem_append_left _ h

theorem resolveBlock_mono (p : List HtlcEv) (cs : List Claim) (ev : HtlcEv) (h : ev ∈ p) : ev ∈ resolveBlock p cs := by
  induction cs generalizing p with
  | nil => exact h
  | cons c t ih => exact ih _ (resolveClaim_mono p c ev h)

theorem resolveClaim_pre (p : List HtlcEv) (c : Claim) (hp : ∀ ev ∈ p, ev.preimage.isSome = true) :
    ∀ ev ∈ resolveClaim p c, ev.preimage.isSome = true := by
  unfold resolveClaim; split
  · exact hp
  · intro ev hev
    rcases List.mem_append.1 hev with h | h
    · exact hp ev h
    · simp at h; subst h; rfl

theorem resolveBlock_pre (p : List HtlcEv) (cs : List Claim) (hp : ∀ ev ∈ p, ev.preimage.isSome = true) :
    ∀ ev ∈ resolveBlock p cs, ev.preimage.isSome = true := by
  induction cs generalizing p with
  | nil => exact hp
  | cons c t ih => exact ih _ (resolveClaim_pre p c hp)

/-- after one claim is processed the queue holds an event for ITS source — whatever other events (same hash or not) are queued -/
theorem resolveClaim_has (p : List HtlcEv) (c : Claim) : ∃ ev ∈ resolveClaim p c, ev.source = c.source := by
  unfold resolveClaim; split
  · rename_i h
    obtain ⟨upd, hmem, hdup⟩ := List.any_eq_true.1 h
    refine ⟨upd, hmem, ?_⟩
    cases hc : c.accepted <;> simp [isDup, hc, acceptedPreimageDup, offeredPreimageDup] at hdup <;> exact hdup
  · exact ⟨_, List.mem_append_right _ (List.mem_singleton.2 rfl), rfl⟩

theorem resolveBlock_has (p : List HtlcEv) (cs : List Claim) (c : Claim) (hc : c ∈ cs) :
    ∃ ev ∈ resolveBlock p cs, ev.source = c.source := by
  induction cs generalizing p with
  | nil => cases hc
  | cons a t ih =>
    rcases List.mem_cons.1 hc with h | h
    · subst h
      obtain ⟨ev, hm, hs⟩ := resolveClaim_has p c
      exact ⟨ev, resolveBlock_mono _ t ev hm, hs⟩
    · exact ih _ h

theorem events_pre (n : Nat) (ops : List MOp) : ∀ ev ∈ (mrun (minit n) ops).events, ev.preimage.isSome = true := by
  suffices h : ∀ m : MSt, (∀ ev ∈ m.events, ev.preimage.isSome = true) → ∀ ev ∈ (mrun m ops).events, ev.preimage.isSome = true by
    exact h (minit n) (by simp [minit])
  induction ops with
  | nil => intro m h; exact h
  | cons op t ih =>
    intro m h
    apply ih (mstep m op)
    cases op <;> first
      | exact h
      | (simp only [mstep]; exact resolveBlock_pre _ _ h)
      | (simp [mstep])

/-! ### interference ops leave `down` and the handed-out flag alone -/

theorem releaseBlocked_down (s : St) : (releaseBlocked s).down = s.down := by
  unfold releaseBlocked handRaa; split <;> rfl
theorem runUpActions_down (s : St) : (runUpActions s).down = s.down := by
  unfold runUpActions; split
  · rfl
  · rw [releaseBlocked_down]
theorem claimUpstream_down (s : St) : (claimUpstream s).down = s.down := by
  unfold claimUpstream; split <;> rw [runUpActions_down]

/-- the manager handling an on-chain preimage event for a live HTLC still open downstream: the preimage is known and the
    upstream `PaymentPreimage` update is with `chain::Watch` -/
theorem chainPreimage_learns (s : St) (ha : s.alive = true)
    (hd : s.down = .offered ∨ s.down = .fulfilSeen ∨ s.down = .failSeen) :
    (step s .chainPreimage).down = .onchainPreimage ∧ (step s .chainPreimage).upPreimageHandedToWatch = true ∧
    (step s .chainPreimage).alive = true := by
  have hc : (s.alive && (s.down == .offered || s.down == .fulfilSeen || s.down == .failSeen)) = true := by
    rcases hd with h | h | h <;> simp [ha, h]
  simp only [step, hc, if_true]
  exact ⟨by rw [claimUpstream_down], claimUpstream_uh _, by rw [claimUpstream_alive]; exact ha⟩

/-! ### interference ops -/

def isInterf : Op → Bool
  | .handUpOther | .completeUpOther | .addDownOther | .removeDownOther => true
  | _ => false

theorem releaseBlocked_uh (s : St) : (releaseBlocked s).upPreimageHandedToWatch = s.upPreimageHandedToWatch := by
  unfold releaseBlocked handRaa; split <;> rfl
theorem releaseBlocked_alive (s : St) : (releaseBlocked s).alive = s.alive := by
  unfold releaseBlocked handRaa; split <;> rfl

theorem interf_keeps (s : St) (op : Op) (h : isInterf op = true) :
    (step s op).down = s.down ∧ (step s op).upPreimageHandedToWatch = s.upPreimageHandedToWatch ∧ (step s op).alive = s.alive := by
  cases op <;> simp [isInterf] at h
  · simp only [step]; split <;> exact ⟨rfl, rfl, rfl⟩
  · simp only [step]; split
    · exact ⟨by rw [runUpActions_down], by rw [runUpActions_uh], by rw [runUpActions_alive]⟩
    · exact ⟨rfl, rfl, rfl⟩
  · simp only [step]; split <;> exact ⟨rfl, rfl, rfl⟩
  · simp only [step]; split
    · exact ⟨by rw [releaseBlocked_down], by rw [releaseBlocked_uh], by rw [releaseBlocked_alive]⟩
    · exact ⟨rfl, rfl, rfl⟩

theorem run_interf_keeps (s : St) (ops : List Op) (h : ∀ op ∈ ops, isInterf op = true) :
    (run s ops).down = s.down ∧ (run s ops).upPreimageHandedToWatch = s.upPreimageHandedToWatch ∧ (run s ops).alive = s.alive := by
  induction ops generalizing s with
  | nil => exact ⟨rfl, rfl, rfl⟩
  | cons op t ih =>
    have h1 := interf_keeps s op (h op (by simp))
    have h2 := ih (step s op) (fun o ho => h o (by simp [ho]))
    exact ⟨h2.1.trans h1.1, h2.2.1.trans h1.2.1, h2.2.2.trans h1.2.2⟩

theorem secOps_interf (n : Nat) (b a : Nat → St) (i : Nat) : ∀ op ∈ secOps n b a i, isInterf op = true := by
  intro op h
  simp only [secOps, List.mem_append, List.mem_replicate] at h
  rcases h with ⟨-, rfl⟩ | ⟨-, rfl⟩ <;> rfl

theorem terOps_interf (n : Nat) (b a : Nat → St) (i : Nat) : ∀ op ∈ terOps n b a i, isInterf op = true := by
  intro op h
  simp only [terOps, List.mem_append, List.mem_replicate] at h
  rcases h with ⟨-, rfl⟩ | ⟨-, rfl⟩ <;> rfl

/-- one event, spelled out on one HTLC: the event's own effect, then interference only -/
theorem mstep_hs_split (m : MSt) (op : MOp) (i : Nat) :
    ∃ tail : List Op, (∀ o ∈ tail, isInterf o = true) ∧ (mstep m op).hs i = run (run (m.hs i) (priOps m op i)) tail := by
  refine ⟨secOps m.n m.hs (fun i => run (m.hs i) (priOps m op i)) i ++
          terOps m.n m.hs (fun i => run (run (m.hs i) (priOps m op i)) (secOps m.n m.hs (fun i => run (m.hs i) (priOps m op i)) i)) i, ?_, ?_⟩
  · intro o ho
    rcases List.mem_append.1 ho with h | h
    · exact secOps_interf _ _ _ _ o h
    · exact terOps_interf _ _ _ _ o h
  · simp only [mstep, run_append, List.append_assoc]

theorem run_chainPreimage_list (s : St) (l : List HtlcEv) (hl : l ≠ []) (ha : s.alive = true)
    (hd : s.down = .offered ∨ s.down = .fulfilSeen ∨ s.down = .failSeen) :
    (run s (l.map fun _ => Op.chainPreimage)).down = .onchainPreimage ∧
    (run s (l.map fun _ => Op.chainPreimage)).upPreimageHandedToWatch = true := by
  cases l with
  | nil => exact absurd rfl hl
  | cons a t =>
    obtain ⟨h1, h2, -⟩ := chainPreimage_learns s ha hd
    have hfix : ∀ (u : St) (t : List HtlcEv), u.down = .onchainPreimage → run u (t.map fun _ => Op.chainPreimage) = u := by
      intro u t hu
      induction t with
      | nil => rfl
      | cons b t ih =>
        have : step u .chainPreimage = u := by simp [step, hu]
        simp only [List.map_cons, run, List.foldl_cons, this]; exact ih
    have hrun : run s ((a :: t).map fun _ => Op.chainPreimage) = step s .chainPreimage := by
      show run (step s .chainPreimage) (t.map fun _ => Op.chainPreimage) = _
      exact hfix _ t h1
    rw [hrun]; exact ⟨h1, h2⟩

/-- nothing happens to the HTLC records while the monitor only SEES a block -/
theorem chainSee_pri (m : MSt) (claims : List Claim) (i : Nat) : priOps m (.chainSee claims) i = [] := rfl

theorem drain_claims (m : MSt) (claims : List Claim) (c : Claim) (hc : c ∈ claims)
    (hp : ∀ ev ∈ m.events, ev.preimage.isSome = true) (ha : (m.hs c.source).alive = true)
    (hd : (m.hs c.source).down = .offered ∨ (m.hs c.source).down = .fulfilSeen ∨ (m.hs c.source).down = .failSeen) :
    ((mstep (mstep m (.chainSee claims)) .drainEvents).hs c.source).down = .onchainPreimage ∧
    ((mstep (mstep m (.chainSee claims)) .drainEvents).hs c.source).upPreimageHandedToWatch = true := by
  obtain ⟨ev, hev, hsrc⟩ := resolveBlock_has m.events claims c hc
  have hpre := resolveBlock_pre _ claims hp ev hev
  generalize hm1 : mstep m (.chainSee claims) = m1
  have hev1 : m1.events = resolveBlock m.events claims := by rw [← hm1]; rfl
  obtain ⟨t1, ht1, h1⟩ := mstep_hs_split m (.chainSee claims) c.source
  rw [chainSee_pri, hm1] at h1
  have k1 := run_interf_keeps (m.hs c.source) t1 ht1
  have h1' : m1.hs c.source = run (m.hs c.source) t1 := h1
  have ha1 : (m1.hs c.source).alive = true := by rw [h1', k1.2.2]; exact ha
  have hd1 : (m1.hs c.source).down = .offered ∨ (m1.hs c.source).down = .fulfilSeen ∨ (m1.hs c.source).down = .failSeen := by
    rw [h1', k1.1]; exact hd
  obtain ⟨t2, ht2, h2⟩ := mstep_hs_split m1 .drainEvents c.source
  have hne : (m1.events.filter (fun e => e.source == c.source && e.preimage.isSome)) ≠ [] := by
    intro hnil
    have : ev ∈ (m1.events.filter (fun e => e.source == c.source && e.preimage.isSome)) :=
      List.mem_filter.2 ⟨hev1 ▸ hev, by simp [hsrc, hpre]⟩
    rw [hnil] at this; cases this
  have hl := run_chainPreimage_list (m1.hs c.source) _ hne ha1 hd1
  have k2 := run_interf_keeps (run (m1.hs c.source) (priOps m1 .drainEvents c.source)) t2 ht2
  rw [h2, k2.1, k2.2.1]
  exact hl

end Ldk.FwdMulti
