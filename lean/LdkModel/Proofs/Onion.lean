/- Helper lemmas for C14 (xor-stream algebra, the filler invariant, one-hop peeling).
   Core only (no Mathlib needed). -/
import LdkModel.Model.Onion
namespace Ldk.Onion

/-! ### lengths -/
@[simp] theorem zeros_length (n : Nat) : (zeros n).length = n := by simp [zeros]
@[simp] theorem xorB_length (a b : Bytes) : (xorB a b).length = min a.length b.length := by simp [xorB]
@[simp] theorem ksOf_length (s : KeyStream) (off n : Nat) : (ksOf s off n).length = n := by simp [ksOf]
@[simp] theorem ks_length (C : OnionCrypto) (k : Bytes) (off n : Nat) : (ks C k off n).length = n := by simp [ks]
@[simp] theorem norm32_length (b : Bytes) : (norm32 b).length = 32 := by
  simp [norm32, List.length_take]
@[simp] theorem hmacOf_length (C : OnionCrypto) (mu d ad : Bytes) : (hmacOf C mu d ad).length = 32 := by
  simp [hmacOf]

/-! ### keystream / xor algebra -/
theorem ks_add (C : OnionCrypto) (k : Bytes) (off m n : Nat) :
    ks C k off (m + n) = ks C k off m ++ ks C k (off + m) n := by
  simp [ks, ksOf, ← List.map_append, List.range'_append_1]

theorem xorB_append {a b c d : Bytes} (h : a.length = c.length) :
    xorB (a ++ b) (c ++ d) = xorB a c ++ xorB b d := by
  simp [xorB, List.zipWith_append h]

theorem xorB_cancel : ∀ (a b : Bytes), a.length ≤ b.length → xorB (xorB a b) b = a
  | [], _, _ => by simp [xorB]
  | x :: a, [], h => by simp at h
  | x :: a, y :: b, h => by
    have ih := xorB_cancel a b (by simpa using h)
    simp only [xorB, List.zipWith_cons_cons] at ih ⊢
    rw [ih, UInt8.xor_assoc, UInt8.xor_self, UInt8.xor_zero]

theorem xorB_zeros : ∀ (n : Nat) (b : Bytes), b.length = n → xorB (zeros n) b = b
  | 0, [], _ => by simp [xorB, zeros]
  | n + 1, y :: b, h => by
    have ih := xorB_zeros n b (by simpa using h)
    simp only [xorB, zeros, List.replicate_succ, List.zipWith_cons_cons] at ih ⊢
    rw [ih]; simp
  | 0, _ :: _, h => by simp at h
  | _ + 1, [], h => by simp at h

theorem xorB_take (a b : Bytes) (i : Nat) : (xorB a b).take i = xorB (a.take i) (b.take i) := by
  simp [xorB, List.take_zipWith]

theorem xorB_drop (a b : Bytes) (i : Nat) : (xorB a b).drop i = xorB (a.drop i) (b.drop i) := by
  simp [xorB, List.drop_zipWith]

theorem ks_take (C : OnionCrypto) (k : Bytes) (off n i : Nat) (h : i ≤ n) :
    (ks C k off n).take i = ks C k off i := by
  obtain ⟨j, rfl⟩ := Nat.exists_eq_add_of_le h
  rw [ks_add, List.take_left' (by simp)]

theorem ks_drop (C : OnionCrypto) (k : Bytes) (off n i : Nat) (h : i ≤ n) :
    (ks C k off n).drop i = ks C k (off + i) (n - i) := by
  obtain ⟨j, rfl⟩ := Nat.exists_eq_add_of_le h
  rw [ks_add, List.drop_left' (by simp)]; simp

/-! ### sizes -/
theorem totalSize_cons (h : Hop) (t : List Hop) : totalSize (h :: t) = h.size + totalSize t := by
  simp [totalSize]

theorem totalSize_append (a b : List Hop) : totalSize (a ++ b) = totalSize a + totalSize b := by
  simp [totalSize]

@[simp] theorem fillerStep_length (C : OnionCrypto) (L : Nat) (fill : Bytes) (h : Hop) :
    (fillerStep C L fill h).length = fill.length + h.size := by
  simp [fillerStep]

theorem foldl_fillerStep_length (C : OnionCrypto) (L : Nat) :
    ∀ (pre : List Hop) (fill : Bytes),
      (pre.foldl (fillerStep C L) fill).length = fill.length + totalSize pre
  | [], fill => by simp [totalSize]
  | h :: t, fill => by
    simp only [List.foldl_cons]
    rw [foldl_fillerStep_length C L t, fillerStep_length, totalSize_cons]; omega

/-- the filler step splits into the re-encrypted old filler and fresh keystream `[L, L+size)` -/
theorem fillerStep_split (C : OnionCrypto) (L : Nat) (fill : Bytes) (h : Hop) (hf : fill.length ≤ L) :
    fillerStep C L fill h =
      xorB fill (ks C h.rho (L - fill.length) fill.length) ++ ks C h.rho L h.size := by
  unfold fillerStep
  rw [ks_add, xorB_append (by simp), xorB_zeros _ _ (by simp)]
  congr 2; omega

theorem wrapAll_snd_length (C : OnionCrypto) (ad noise fillN : Bytes) :
    ∀ hops : List Hop, (wrapAll C ad noise fillN hops).2.length = 32
  | [] => by simp [wrapAll]
  | [h] => by simp [wrapAll]
  | h :: h2 :: rest => by simp [wrapAll]

theorem layer_length (C : OnionCrypto) (L : Nat) (h : Hop) (nh inner : Bytes) (hi : inner.length = L) :
    (layer C L h nh inner).length = L := by
  simp [layer, List.length_take, hi]; omega


/-! ### the filler invariant -/

/-- payloads are self-delimiting for the hop's payload reader: whatever follows, the reader takes
    exactly the payload (true of BigSize-length-prefixed payloads, `bigSizeFrame`) -/
def WellFramed (plen : Bytes → Option Nat) (p : Bytes) : Prop :=
  ∀ rest, plen (p ++ rest) = some p.length

/-- **Filler invariant.** Building the packet for a suffix of the route, with the filler obtained
    by running the filler loop over that suffix from an already accumulated `fill`: the packet has
    length `L` and ENDS with `fill` (the bytes the earlier hops' peeling will have produced there). -/
theorem wrapAll_tail (C : OnionCrypto) (ad noise : Bytes) :
    ∀ (hops : List Hop) (fill : Bytes), hops ≠ [] →
      fill.length + totalSize hops ≤ noise.length →
      let d := (wrapAll C ad noise (hops.dropLast.foldl (fillerStep C noise.length) fill) hops).1
      d.length = noise.length ∧ d.drop (noise.length - fill.length) = fill
  | [], _, hne, _ => absurd rfl hne
  | [h], fill, _, hfit => by
    simp only [List.dropLast_singleton, List.foldl_nil, wrapAll, splice]
    have hl : (layer C noise.length h (zeros 32) noise).length = noise.length := layer_length _ _ _ _ _ rfl
    rw [totalSize_cons] at hfit
    constructor
    · simp [hl, List.length_take]; omega
    · rw [hl]; exact List.drop_left' (by simp [List.length_take, hl])
  | h :: h2 :: rest, fill, _, hfit => by
    rw [totalSize_cons] at hfit
    have hs : h.size = h.payload.length + 32 := rfl
    have ih := wrapAll_tail C ad noise (h2 :: rest) (fillerStep C noise.length fill h) (by simp)
      (by rw [fillerStep_length]; omega)
    simp only [List.dropLast_cons_cons, List.foldl_cons, wrapAll]
    generalize hinner : wrapAll C ad noise
      (List.foldl (fillerStep C noise.length) (fillerStep C noise.length fill h) (h2 :: rest).dropLast) (h2 :: rest) = inner at ih
    have hnh : inner.2.length = 32 := by rw [← hinner]; exact wrapAll_snd_length _ _ _ _ _
    obtain ⟨hlen, htail⟩ := ih
    rw [fillerStep_length] at htail
    refine ⟨layer_length _ _ _ _ _ hlen, ?_⟩
    -- split the inner packet at L - |fill| - size
    generalize noise.length = L at *
    generalize hf : fill.length = f at *
    have hd' : inner.1 = inner.1.take (L - (f + h.size)) ++ fillerStep C L fill h := by
      conv => lhs; rw [← List.take_append_drop (L - (f + h.size)) inner.1]
      rw [htail]
    rw [fillerStep_split C L fill h (by omega), hf] at hd'
    -- plaintext of this layer
    have hpt : (h.payload ++ inner.2 ++ inner.1).take L =
        (h.payload ++ inner.2 ++ inner.1.take (L - (f + h.size))) ++ xorB fill (ks C h.rho (L - f) f) := by
      conv => lhs; rw [hd']
      rw [← List.append_assoc, ← List.append_assoc, List.take_append_of_le_length (by
        simp [List.length_take, hlen, hnh]; omega)]
      rw [List.take_of_length_le (by simp [List.length_take, hlen, hnh]; omega)]
    unfold layer
    rw [hpt]
    have hk : ks C h.rho 0 L = ks C h.rho 0 (L - f) ++ ks C h.rho (L - f) f := by
      have := ks_add C h.rho 0 (L - f) f
      rwa [Nat.zero_add, show L - f + f = L by omega] at this
    rw [hk, xorB_append (by simp [List.length_take, hlen, hnh]; omega)]
    rw [List.drop_left' (by simp [List.length_take, hlen, hnh]; omega)]
    exact xorB_cancel _ _ (by simp [hf])

/-! ### one hop peels -/

theorem take_prefix_append (a b : Bytes) (i : Nat) (h : a.length ≤ i) :
    (a ++ b).take i = a ++ b.take (i - a.length) := by
  rw [List.take_append, List.take_of_length_le h]


/-- what `peel` answers when the decrypted packet is `payload ‖ next hmac ‖ X` and the MAC is right -/
theorem peel_of_dec (C : OnionCrypto) (plen : Bytes → Option Nat) (k : HopKeys) (ad d p nh X : Bytes)
    (hdec : xorB d (ks C k.rho 0 d.length) = p ++ nh ++ X) (hnh : nh.length = 32)
    (hframe : WellFramed plen p) :
    peel C plen k ad d (hmacOf C k.mu d ad) =
      if nh = zeros 32 then .ok (.final p)
      else .ok (.forward p nh (X ++ ks C k.rho d.length (p.length + 32))) := by
  have hlen : p.length + 32 + X.length = d.length := by
    have := congrArg List.length hdec
    simp [hnh] at this; omega
  unfold peel
  simp only [ne_eq, not_true_eq_false, if_false, hdec]
  rw [List.append_assoc, hframe (nh ++ X)]
  simp only
  rw [if_neg (by omega)]
  rw [List.take_left' rfl, List.drop_left' rfl, List.take_left' hnh]
  have hd2 : (p ++ (nh ++ X)).drop (p.length + 32) = X := by
    rw [← List.append_assoc]; exact List.drop_left' (by simp [hnh])
  rw [hd2]

/-- **One peel of an (n)-hop packet**: the first hop of a suffix `h :: t` of the route, given the
    packet built for that suffix, gets exactly its payload; if it is the last hop it sees the
    all-zero HMAC (final), otherwise it forwards exactly the packet built for `t` (hop_data AND hmac). -/
theorem peel_head (C : OnionCrypto) (plen : Bytes → Option Nat) (ad noise fill : Bytes)
    (h : Hop) (t : List Hop)
    (hfit : fill.length + totalSize (h :: t) ≤ noise.length)
    (hframe : WellFramed plen h.payload) :
    let fillN := (h :: t).dropLast.foldl (fillerStep C noise.length) fill
    let pkt := wrapAll C ad noise fillN (h :: t)
    let nxt := wrapAll C ad noise fillN t
    peel C plen h.keys ad pkt.1 pkt.2 =
      if t = [] then .ok (.final h.payload)
      else if nxt.2 = zeros 32 then .ok (.final h.payload)
      else .ok (.forward h.payload nxt.2 nxt.1) := by
  rw [totalSize_cons] at hfit
  have hs : h.size = h.payload.length + 32 := rfl
  cases t with
  | nil =>
    simp only [List.dropLast_singleton, List.foldl_nil, wrapAll, if_true]
    -- the last hop: layer over the noise with the filler spliced in
    have hl : (layer C noise.length h (zeros 32) noise).length = noise.length := layer_length _ _ _ _ _ rfl
    have hsl : (splice (layer C noise.length h (zeros 32) noise) fill).length = noise.length := by
      simp [splice, hl, List.length_take]; omega
    have hts : totalSize ([] : List Hop) = 0 := rfl
    have hk : ks C h.rho 0 noise.length =
        ks C h.rho 0 (noise.length - fill.length) ++ ks C h.rho (noise.length - fill.length) fill.length := by
      have := ks_add C h.rho 0 (noise.length - fill.length) fill.length
      rwa [Nat.zero_add, show noise.length - fill.length + fill.length = noise.length by omega] at this
    have hA : (h.payload ++ zeros 32 ++ noise).take (noise.length - fill.length) =
        h.payload ++ zeros 32 ++ noise.take (noise.length - fill.length - h.size) := by
      rw [take_prefix_append _ _ _ (by simp; omega)]; simp [hs]
    have hdec : xorB (splice (layer C noise.length h (zeros 32) noise) fill) (ks C h.rho 0 noise.length) =
        h.payload ++ zeros 32 ++ (noise.take (noise.length - fill.length - h.size) ++
          xorB fill (ks C h.rho (noise.length - fill.length) fill.length)) := by
      unfold splice
      rw [hl, hk, xorB_append (by simp [List.length_take, hl]), layer, xorB_take,
        ks_take _ _ _ _ _ (by omega), List.take_take, Nat.min_eq_left (by omega),
        xorB_cancel _ _ (by simp [List.length_take]; omega), hA]
      simp [List.append_assoc]
    have := peel_of_dec C plen h.keys ad _ h.payload (zeros 32) _ (by rw [hsl]; exact hdec) (by simp) hframe
    rw [if_pos rfl] at this
    exact this
  | cons h2 rest =>
    have ih := wrapAll_tail C ad noise (h2 :: rest) (fillerStep C noise.length fill h) (by simp)
      (by rw [fillerStep_length]; omega)
    simp only [List.dropLast_cons_cons, List.foldl_cons, wrapAll, reduceCtorEq, if_false]
    generalize hinner : wrapAll C ad noise
      (List.foldl (fillerStep C noise.length) (fillerStep C noise.length fill h) (h2 :: rest).dropLast) (h2 :: rest) = inner at ih
    have hnh : inner.2.length = 32 := by rw [← hinner]; exact wrapAll_snd_length _ _ _ _ _
    obtain ⟨hlen, htail⟩ := ih
    rw [fillerStep_length, fillerStep_split C _ fill h (by omega)] at htail
    have htail2 : inner.1.drop (noise.length - h.size) = ks C h.rho noise.length h.size := by
      have : noise.length - h.size = (noise.length - (fill.length + h.size)) + fill.length := by omega
      rw [this, ← List.drop_drop, htail, List.drop_left' (by simp)]
    have hl : (layer C noise.length h inner.2 inner.1).length = noise.length := layer_length _ _ _ _ _ hlen
    have hdec : xorB (layer C noise.length h inner.2 inner.1) (ks C h.rho 0 noise.length) =
        h.payload ++ inner.2 ++ inner.1.take (noise.length - h.size) := by
      unfold layer
      rw [xorB_cancel _ _ (by simp [List.length_take]; omega), take_prefix_append _ _ _ (by simp [hnh]; omega)]
      simp [hs, hnh]
    have := peel_of_dec C plen h.keys ad _ h.payload inner.2 _ (by rw [hl]; exact hdec) hnh hframe
    rw [hl, ← hs, show h.keys.rho = h.rho from rfl, ← htail2, List.take_append_drop] at this
    exact this

/-! ### the whole route -/

/-- the packet (hop_data, hmac) `build` computes for hop `i` (0-based) — what hop `i` receives.
    `packetAt … 0` is the packet the sender emits. -/
def packetAt (C : OnionCrypto) (ad noise : Bytes) (hops : List Hop) (i : Nat) : Bytes × Bytes :=
  wrapAll C ad noise (filler C noise.length hops) (hops.drop i)

theorem filler_split (C : OnionCrypto) (L : Nat) (pre suf : List Hop) (hne : suf ≠ []) :
    filler C L (pre ++ suf) = suf.dropLast.foldl (fillerStep C L) (pre.foldl (fillerStep C L) []) := by
  simp [filler, List.dropLast_append_of_ne_nil hne, List.foldl_append]

/-- generalized chain statement (over a suffix of the route and the filler accumulated so far) -/
theorem peelChain_wrapAll (C : OnionCrypto) (plen : Bytes → Option Nat) (ad noise : Bytes) :
    ∀ (suf : List Hop) (fill : Bytes), suf ≠ [] →
      fill.length + totalSize suf ≤ noise.length →
      (∀ h ∈ suf, WellFramed plen h.payload) →
      (∀ pre t, pre ≠ [] → t ≠ [] → pre ++ t = suf →
        (wrapAll C ad noise (suf.dropLast.foldl (fillerStep C noise.length) fill) t).2 ≠ zeros 32) →
      peelChain C plen ad (suf.map Hop.keys)
        (wrapAll C ad noise (suf.dropLast.foldl (fillerStep C noise.length) fill) suf) =
        some (suf.map (·.payload))
  | [], _, hne, _, _, _ => absurd rfl hne
  | [h], fill, _, hfit, hframe, _ => by
    have := peel_head C plen ad noise fill h [] hfit (hframe h (by simp))
    simp only [if_true] at this
    rcases hr : wrapAll C ad noise (List.foldl (fillerStep C noise.length) fill [h].dropLast) [h] with ⟨d, hm⟩
    rw [hr] at this
    simp [peelChain, this]
  | h :: h2 :: rest, fill, _, hfit, hframe, hnz => by
    have hp := peel_head C plen ad noise fill h (h2 :: rest) hfit (hframe h (by simp))
    have hnz1 := hnz [h] (h2 :: rest) (by simp) (by simp) rfl
    simp only [reduceCtorEq, if_false, if_neg hnz1] at hp
    have ih := peelChain_wrapAll C plen ad noise (h2 :: rest) (fillerStep C noise.length fill h) (by simp)
      (by rw [fillerStep_length]; rw [totalSize_cons] at hfit; omega)
      (fun x hx => hframe x (by simp [hx]))
      (fun pre t hpre ht heq => by
        have := hnz (h :: pre) t (by simp) ht (by simp [heq])
        simpa [List.dropLast_cons_cons, List.foldl_cons] using this)
    simp only [List.dropLast_cons_cons, List.foldl_cons] at hp ⊢
    rcases hr : wrapAll C ad noise (List.foldl (fillerStep C noise.length) (fillerStep C noise.length fill h)
      (h2 :: rest).dropLast) (h :: h2 :: rest) with ⟨d, hm⟩
    rw [hr] at hp
    simp only [List.map_cons, peelChain, hp]
    rcases hr2 : wrapAll C ad noise (List.foldl (fillerStep C noise.length) (fillerStep C noise.length fill h)
      (h2 :: rest).dropLast) (h2 :: rest) with ⟨d2, hm2⟩
    rw [hr2] at ih
    simp only [List.map_cons] at ih
    simp [ih]

theorem packetAt_eq (C : OnionCrypto) (ad noise : Bytes) (hops : List Hop) (i : Nat) (hi : i < hops.length) :
    packetAt C ad noise hops i =
      wrapAll C ad noise ((hops.drop i).dropLast.foldl (fillerStep C noise.length)
        ((hops.take i).foldl (fillerStep C noise.length) [])) (hops.drop i) := by
  unfold packetAt
  have hne : hops.drop i ≠ [] := by simp [List.drop_eq_nil_iff]; omega
  conv => lhs; rw [← List.take_append_drop i hops, filler_split C _ _ _ hne]
  rw [List.take_append_drop]

/-- what hop `i` gets from the packet `build` computed for it -/
theorem peel_packetAt (C : OnionCrypto) (plen : Bytes → Option Nat) (ad noise : Bytes) (hops : List Hop)
    (i : Nat) (hi : i < hops.length) (hfit : totalSize hops ≤ noise.length)
    (hframe : WellFramed plen hops[i].payload) :
    peel C plen hops[i].keys ad (packetAt C ad noise hops i).1 (packetAt C ad noise hops i).2 =
      if i + 1 = hops.length then .ok (.final hops[i].payload)
      else if (packetAt C ad noise hops (i + 1)).2 = zeros 32 then .ok (.final hops[i].payload)
      else .ok (.forward hops[i].payload (packetAt C ad noise hops (i + 1)).2 (packetAt C ad noise hops (i + 1)).1) := by
  have hdrop : hops.drop i = hops[i] :: hops.drop (i + 1) := List.drop_eq_getElem_cons hi
  have hsz : totalSize hops = totalSize (hops.take i) + totalSize (hops.drop i) := by
    rw [← totalSize_append, List.take_append_drop]
  have hp := peel_head C plen ad noise ((hops.take i).foldl (fillerStep C noise.length) []) hops[i]
    (hops.drop (i + 1)) (by rw [foldl_fillerStep_length, ← hdrop]; simp; omega) hframe
  simp only [] at hp
  rw [← hdrop, ← packetAt_eq C ad noise hops i hi] at hp
  rw [hp]
  by_cases hlast : i + 1 = hops.length
  · simp [hlast]
  · have hne : hops.drop (i + 1) ≠ [] := by simp [List.drop_eq_nil_iff]; omega
    have hi1 : i + 1 < hops.length := by omega
    have hnext : wrapAll C ad noise ((hops.drop i).dropLast.foldl (fillerStep C noise.length)
        ((hops.take i).foldl (fillerStep C noise.length) [])) (hops.drop (i + 1)) = packetAt C ad noise hops (i + 1) := by
      unfold packetAt
      have hne0 : hops.drop i ≠ [] := by simp [List.drop_eq_nil_iff]; omega
      conv => rhs; rw [← List.take_append_drop i hops, filler_split C _ _ _ hne0]
      rw [List.take_append_drop]
    rw [hnext]
    simp [hlast, hne]

/-! ### failure packets -/

@[simp] theorem wrapFailure_length (C : OnionCrypto) (k : FailKeys) (pkt : Bytes) :
    (wrapFailure C k pkt).length = pkt.length := by simp [wrapFailure]

theorem wrapFailure_involutive (C : OnionCrypto) (k : FailKeys) (pkt : Bytes) :
    wrapFailure C k (wrapFailure C k pkt) = pkt := by
  unfold wrapFailure
  rw [xorB_length, ks_length, Nat.min_self]
  exact xorB_cancel _ _ (by simp)

@[simp] theorem relayFailure_length (C : OnionCrypto) (pre : List FailKeys) (pkt : Bytes) :
    (relayFailure C pre pkt).length = pkt.length := by
  induction pre with
  | nil => simp [relayFailure]
  | cons k t ih => simpa [relayFailure] using ih

theorem rd16_be16 (n : Nat) (rest : Bytes) (h : n < 65536) : rd16 (be16 n ++ rest) = n := by
  simp [rd16, be16]; omega

theorem be16_length (n : Nat) : (be16 n).length = 2 := rfl

theorem failMacOk_unencrypted (C : OnionCrypto) (k : FailKeys) (minLen code : Nat) (data : Bytes) :
    failMacOk C k (buildUnencryptedFailure C k minLen code data) = true := by
  simp [failMacOk, buildUnencryptedFailure, List.drop_left' (norm32_length _), List.take_left' (norm32_length _)]

theorem parseFailure_unencrypted (C : OnionCrypto) (k : FailKeys) (minLen code hop : Nat) (data : Bytes)
    (hc : code < 65536) (hd : 2 + data.length < 65536) (hp : minLen - (2 + data.length) < 65536) :
    parseFailure hop (buildUnencryptedFailure C k minLen code data) = .attributed hop code data := by
  unfold parseFailure buildUnencryptedFailure
  simp only [List.drop_left' (norm32_length _)]
  simp only [List.append_assoc]
  rw [rd16_be16 _ _ hd]
  simp only [List.drop_left' (be16_length _)]
  have h1 : (be16 code ++ (data ++ (be16 (minLen - (2 + data.length)) ++ zeros (minLen - (2 + data.length))))).take (2 + data.length)
      = be16 code ++ data := by
    rw [← List.append_assoc]; exact List.take_left' (by simp [be16_length])
  have h2 : (be16 code ++ (data ++ (be16 (minLen - (2 + data.length)) ++ zeros (minLen - (2 + data.length))))).drop (2 + data.length)
      = be16 (minLen - (2 + data.length)) ++ zeros (minLen - (2 + data.length)) := by
    rw [← List.append_assoc]; exact List.drop_left' (by simp [be16_length])
  rw [h1, h2, rd16_be16 _ _ hp, rd16_be16 _ _ hc]
  simp [be16_length, List.drop_left' (be16_length _)]
  rw [if_neg (by omega), if_neg (by omega), if_neg (by omega), if_neg (by omega)]

/-- no hop before the failing one accepts, by accident, the packet it relayed as its own:
    for every relaying hop `k` (nearest the sender first), `k`'s `um` HMAC does NOT verify on the
    packet that hop received from downstream. (Each is one MAC-forgery event of probability 2⁻²⁵⁶
    for a real MAC; it cannot be proved for an arbitrary `mac`.) -/
def NoEarlyMatch (C : OnionCrypto) : List FailKeys → Bytes → Prop
  | [], _ => True
  | k :: rest, inner => failMacOk C k (relayFailure C rest inner) = false ∧ NoEarlyMatch C rest inner

theorem decodeGo_relay (C : OnionCrypto) (fk : FailKeys) (post : List FailKeys) (U : Bytes)
    (hU : failMacOk C fk U = true) :
    ∀ (pre : List FailKeys) (i : Nat), NoEarlyMatch C pre (wrapFailure C fk U) →
      decodeGo C i (pre ++ fk :: post) (relayFailure C pre (wrapFailure C fk U)) =
        parseFailure (i + pre.length) U
  | [], i, _ => by
    simp [decodeGo, relayFailure, wrapFailure_involutive, hU]
  | k :: pre, i, hno => by
    obtain ⟨h1, h2⟩ := hno
    have ih := decodeGo_relay C fk post U hU pre (i + 1) h2
    have hr : relayFailure C (k :: pre) (wrapFailure C fk U) =
        wrapFailure C k (relayFailure C pre (wrapFailure C fk U)) := rfl
    simp only [List.cons_append, decodeGo, hr, wrapFailure_involutive, h1]
    rw [if_neg (by simp), ih]
    congr 1; simp; omega

/-- the packet the sender holds after removing the layers of hops `0..j` -/
def unwrapped (C : OnionCrypto) (keys : List FailKeys) (pkt : Bytes) (j : Nat) : Bytes :=
  (keys.take (j + 1)).foldl (fun p k => wrapFailure C k p) pkt

theorem decodeGo_spec (C : OnionCrypto) :
    ∀ (keys : List FailKeys) (i : Nat) (pkt : Bytes),
      (decodeGo C i keys pkt = .unattributable ∧
        ∀ j (hj : j < keys.length), failMacOk C keys[j] (unwrapped C keys pkt j) = false) ∨
      (∃ j, ∃ hj : j < keys.length, failMacOk C keys[j] (unwrapped C keys pkt j) = true ∧
        (∀ j' (hj' : j' < keys.length), j' < j → failMacOk C keys[j'] (unwrapped C keys pkt j') = false) ∧
        decodeGo C i keys pkt = parseFailure (i + j) (unwrapped C keys pkt j))
  | [], i, pkt => by left; simp [decodeGo]
  | k :: rest, i, pkt => by
    by_cases hm : failMacOk C k (wrapFailure C k pkt) = true
    · right
      refine ⟨0, by simp, by simpa [unwrapped] using hm, by intro j' _ h; omega, ?_⟩
      simp [decodeGo, hm, unwrapped]
    · have hm' : failMacOk C k (wrapFailure C k pkt) = false := by simpa using hm
      have hstep : ∀ j, unwrapped C (k :: rest) pkt (j + 1) = unwrapped C rest (wrapFailure C k pkt) j := by
        intro j; simp [unwrapped]
      rcases decodeGo_spec C rest (i + 1) (wrapFailure C k pkt) with ⟨h1, h2⟩ | ⟨j, hj, h1, h2, h3⟩
      · left
        refine ⟨by simp [decodeGo, hm', h1], ?_⟩
        intro j hj
        cases j with
        | zero => simpa [unwrapped] using hm'
        | succ j => simpa [hstep] using h2 j (by simpa using hj)
      · right
        refine ⟨j + 1, by simpa using hj, by simpa [hstep] using h1, ?_, ?_⟩
        · intro j' hj' hlt
          cases j' with
          | zero => simpa [unwrapped] using hm'
          | succ j' => simpa [hstep] using h2 j' (by simpa using hj') (by omega)
        · simp only [decodeGo, hm', hstep]
          rw [if_neg (by simp), h3]
          congr 1; omega

theorem parseFailure_ne_unattributable (hop : Nat) (pkt : Bytes) : parseFailure hop pkt ≠ .unattributable := by
  intro h
  unfold parseFailure at h
  simp only [] at h
  repeat' split at h
  all_goals cases h

/-! ### a toy instantiation for the non-vacuity examples (NOT a cipher; just computable) -/
def toy : OnionCrypto :=
  ⟨fun key => ⟨fun i => UInt8.ofNat (17 * i + 3 * key.length + (key.headD 0).toNat)⟩,
   fun key m => [UInt8.ofNat (m.foldl (fun a x => (a * 3 + x.toNat) % 251) key.length + 1)]⟩

def toyHops : List Hop :=
  [⟨[1], [11], [2, 0xaa, 0xbb]⟩, ⟨[2, 2], [12], [4, 1, 2, 3, 4]⟩, ⟨[3], [13, 1], [1, 9]⟩]

def toyFailKeys : List FailKeys := [⟨[1], [2]⟩, ⟨[3, 3], [4]⟩, ⟨[5], [6, 6]⟩]

end Ldk.Onion
