/- helper lemmas for Props/C08.lean about Model/NodeStep.lean (C08) -/
import LdkModel.Model.NodeStep
namespace Ldk.NodeStep
open Ldk Ldk.Timing

theorem failUp_acts (s : St) : (failUp s).2 = if s.up = .pending then [Act.failBack] else [] := by
  unfold failUp; split <;> rfl

theorem failUp_up (s : St) (hp : s.up = .pending) : (failUp s).1.up = .failed := by
  unfold failUp; simp [hp]

/-- fields no fail-back touches -/
def Frame (s s' : St) : Prop :=
  s'.inCltv = s.inCltv ∧ s'.outCltv = s.outCltv ∧ s'.preimage = s.preimage ∧ s'.upResponsive = s.upResponsive ∧
  s'.upBroadcast = s.upBroadcast ∧ s'.monBest = s.monBest

theorem Frame.refl (s : St) : Frame s s := ⟨rfl, rfl, rfl, rfl, rfl, rfl⟩
theorem Frame.trans {a b c : St} (h1 : Frame a b) (h2 : Frame b c) : Frame a c := by
  obtain ⟨a1, a2, a3, a4, a5, a6⟩ := h1
  obtain ⟨b1, b2, b3, b4, b5, b6⟩ := h2
  exact ⟨b1.trans a1, b2.trans a2, b3.trans a3, b4.trans a4, b5.trans a5, b6.trans a6⟩

theorem failUp_frame (s : St) : Frame s (failUp s).1 := by
  unfold failUp; split <;> exact ⟨rfl, rfl, rfl, rfl, rfl, rfl⟩
theorem failUp_rest (s : St) : (failUp s).1.inCell = s.inCell ∧ (failUp s).1.outLive = s.outLive ∧
    (failUp s).1.downOpen = s.downOpen ∧ (failUp s).1.downBroadcast = s.downBroadcast ∧
    (failUp s).1.commitConf = s.commitConf ∧ (failUp s).1.timeoutConf = s.timeoutConf ∧
    (failUp s).1.timeoutBroadcast = s.timeoutBroadcast := by
  unfold failUp; split <;> exact ⟨rfl, rfl, rfl, rfl, rfl, rfl, rfl⟩
theorem failUp_up_cases (s : St) : (failUp s).1.up = s.up ∨ (s.up = .pending ∧ (failUp s).1.up = .failed) := by
  unfold failUp; split
  · next h => exact Or.inr ⟨h, rfl⟩
  · exact Or.inl rfl
theorem failUp_mem (s : St) (a : Act) (h : a ∈ (failUp s).2) : a = .failBack ∧ s.up = .pending := by
  rw [failUp_acts] at h; split at h
  · next hp => simp at h; exact ⟨h, hp⟩
  · simp at h

theorem mgr_cell_iff (s : St) (h : Nat) (x : BbuExit) :
    Act.cellTimeout ∈ (mgrBlock s h x).2 ↔ (s.inCell = true ∧ holdingCellTimedOut h s.outCltv = true) := by
  unfold mgrBlock
  by_cases hc : (s.inCell && holdingCellTimedOut h s.outCltv) = true
  · simp only [hc, if_true]
    have := hc; simp only [Bool.and_eq_true] at this
    split <;> simp [this]
  · simp only [hc]
    simp only [Bool.and_eq_true] at hc
    simp [hc]

theorem mgr_no_cell (s : St) (h : Nat) (x : BbuExit) (hc : (s.inCell && holdingCellTimedOut h s.outCltv) = false) :
    mgrBlock s h x = (s, []) := by
  unfold mgrBlock; simp [hc]

theorem mgr_frame (s : St) (h : Nat) (x : BbuExit) : Frame s (mgrBlock s h x).1 := by
  unfold mgrBlock
  split
  · have hf := failUp_frame { s with inCell := false }
    split <;> split <;> first | exact hf | exact ⟨rfl, rfl, rfl, rfl, rfl, rfl⟩
  · exact Frame.refl s

theorem monScan_mem (s : St) (h : Nat) (a : Act) (ha : a ∈ (monScan s h).2) : a = .broadcastDown := by
  unfold monScan at ha; split at ha <;> simp at ha; exact ha
theorem monClaims_mem (s : St) (h : Nat) (a : Act) (ha : a ∈ (monClaims s h).2) : a = .broadcastTimeout := by
  unfold monClaims at ha; split at ha <;> simp at ha; exact ha
theorem monScan_fires_iff (s : St) (h : Nat) (hl : s.outLive = true) (hn : s.downBroadcast = none) :
    Act.broadcastDown ∈ (monScan s h).2 ↔ shouldBroadcastFor h s.outCltv true s.preimage = true := by
  unfold monScan; simp [hl, hn]
  split <;> simp_all
theorem monScan_fields (s : St) (h : Nat) : (monScan s h).1.timeoutConf = s.timeoutConf ∧ (monScan s h).1.inCltv = s.inCltv ∧
    ((monScan s h).1.downOpen = false → s.downOpen = false ∨ Act.broadcastDown ∈ (monScan s h).2) := by
  unfold monScan; split <;> simp
theorem monMatured_fail (s : St) (h : Nat) (hf : Act.failBack ∈ (monMatured s h).2) :
    ∃ t, s.timeoutConf = some t ∧ hasReachedConfirmationThreshold h t none = true := by
  unfold monMatured at hf
  split at hf
  · next t ht =>
    split at hf
    · next hc => simp only [Bool.and_eq_true] at hc; exact ⟨t, ht, hc.2⟩
    · simp at hf
  · simp at hf
theorem monMatured_fields (s : St) (h : Nat) : (monMatured s h).1.inCltv = s.inCltv ∧ (monMatured s h).1.downOpen = s.downOpen := by
  unfold monMatured
  split
  · split
    · exact ⟨(failUp_frame _).1, (failUp_rest _).2.2.1⟩
    · exact ⟨rfl, rfl⟩
  · exact ⟨rfl, rfl⟩
theorem monPreemptive_fail (s : St) (h : Nat) (hf : Act.failBack ∈ (monPreemptive s h).2) :
    s.downOpen = false ∧ earlyFailBack h s.inCltv = true := by
  unfold monPreemptive at hf
  split at hf
  · next hc => simp only [Bool.and_eq_true, Bool.not_eq_true'] at hc; exact ⟨hc.1.1, hc.2⟩
  · simp at hf

theorem monDown_failback (s : St) (h : Nat) (c t : Bool) (hf : Act.failBack ∈ (monDown s h c t).2) :
    (∃ tc, (monTxs s h c t).timeoutConf = some tc ∧ hasReachedConfirmationThreshold h tc none = true) ∨
    (earlyFailBack h s.inCltv = true ∧ ((monTxs s h c t).downOpen = false ∨ Act.broadcastDown ∈ (monDown s h c t).2)) := by
  unfold monDown at hf ⊢
  simp only [List.mem_append] at hf ⊢
  have hsf := monScan_fields (monTxs s h c t) h
  have hmf := monMatured_fields (monScan (monTxs s h c t) h).1 h
  have htx : (monTxs s h c t).inCltv = s.inCltv := by unfold monTxs; simp only []; split <;> split <;> rfl
  rcases hf with ((h1 | h2) | h3) | h4
  · exact absurd (monScan_mem _ _ _ h1) (by decide)
  · obtain ⟨tc, h1, h2⟩ := monMatured_fail _ _ h2
    exact Or.inl ⟨tc, hsf.1 ▸ h1, h2⟩
  · have := monPreemptive_fail _ _ h3
    rw [hmf.1, hsf.2.1, htx] at this
    refine Or.inr ⟨this.2, ?_⟩
    rcases hsf.2.2 (hmf.2 ▸ this.1) with h | h
    · exact Or.inl h
    · exact Or.inr (Or.inl (Or.inl (Or.inl h)))
  · exact absurd (monClaims_mem _ _ _ h4) (by decide)

theorem monUp_fires (s : St) (h : Nat) (hp : s.preimage = true) (hu : s.up = .pending)
    (hh : shouldBroadcastFor h s.inCltv false true = true) : (monUp s h).1.upBroadcast.isSome = true := by
  unfold monUp
  cases hb : s.upBroadcast <;> simp [hp, hu, hh, hb]

theorem reannounce_noop (s : St) (h : Nat) (x : BbuExit) (c t : Bool) (hb : s.monBest = h)
    (hc : (s.inCell && holdingCellTimedOut h s.outCltv) = false)
    (hi : (s.intercepted && interceptTimedOut h s.outCltv) = false) : nodeStep s (.block h x c t) = (s, []) := by
  unfold nodeStep
  have : monitorProcessesHeight h s.monBest = false := by simp [monitorProcessesHeight, hb]
  have h2 : mgrIntercept s h = (s, []) := by unfold mgrIntercept; simp [hi]
  simp only [this, mgr_no_cell s h x hc, h2]
  rfl

theorem monTxs_fields (s : St) (h : Nat) (c t : Bool) : (monTxs s h c t).downOpen = s.downOpen ∧ (monTxs s h c t).inCltv = s.inCltv := by
  unfold monTxs; simp only []; split <;> split <;> exact ⟨rfl, rfl⟩

end Ldk.NodeStep
