import LdkModel.Model.TlvFrame
import LdkModel.Proofs.Codec
/-! Helper lemmas for Props/C12.lean: the frame-level instances of the generic TLV lemmas of Proofs/Codec.lean,
    the length-prefixed block, the version prefix, missing required records. -/
namespace Ldk.TlvFrame
open Ldk.Codec

theorem tlvs_types (s : FrameSchema) : s.tlvs.map (·.typ) = s.types := by
  simp [FrameSchema.tlvs, FrameSchema.types, FrameField.toTlv, List.map_map, Function.comp_def]

theorem wf_parts {exc : List (String × Nat)} {s : FrameSchema} (h : s.wf exc = true) :
    (s.tlvs.map (·.typ)).Pairwise (· < ·) ∧ (∀ f ∈ s.tlvs, f.ty.wf = true ∧ f.typ < 2 ^ 64) := by
  simp only [FrameSchema.wf, Bool.and_eq_true, List.all_eq_true, decide_eq_true_eq] at h
  refine ⟨by rw [tlvs_types]; exact strictInc_pairwise _ h.1.1, ?_⟩
  intro f hf
  simp only [FrameSchema.tlvs, List.mem_map] at hf
  obtain ⟨g, hg, rfl⟩ := hf
  exact ⟨rfl, h.1.2 g hg⟩

theorem frame_roundtrip' {exc : List (String × Nat)} (s : FrameSchema) (hwf : s.wf exc = true) (vals : List (Option Val))
    (hv : validTlvs s.tlvs vals = true) :
    frameDecode s (frameEncode s vals) = .ok (presentVals s.tlvs vals) := by
  obtain ⟨h1, h2⟩ := wf_parts hwf
  exact decodeTlvStream_encodeTlvs s.tlvs vals h1 h2 hv

theorem readTlvFields_write {exc : List (String × Nat)} (s : FrameSchema) (hwf : s.wf exc = true) (vals : List (Option Val))
    (hv : validTlvs s.tlvs vals = true) (hlen : (frameEncode s vals).length < 2 ^ 64) (rest : Bytes) :
    readTlvFields s (writeTlvFields s vals ++ rest) = .ok (presentVals s.tlvs vals, rest) := by
  have hrt := frame_roundtrip' s hwf vals hv
  simp only [readTlvFields, writeTlvFields, List.append_assoc, bigsize_roundtrip' _ hlen, List.take_left', hrt,
    List.drop_left', List.length_append]
  simp

/-- what is left of a length-prefixed block whose announced length exceeds the available bytes:
    never `ok` -/
theorem readTlvFields_overrun (s : FrameSchema) (len : Nat) (hlen : len < 2 ^ 64) (body : Bytes) (h : body.length < len) :
    ∃ e, readTlvFields s (BigSize.encode len ++ body) = .error e := by
  simp only [readTlvFields, bigsize_roundtrip' _ hlen]
  cases frameDecode s (body.take len) with
  | error e => exact ⟨e, rfl⟩
  | ok recs => exact ⟨.ShortRead, by simp [h]⟩

theorem u8_lt (n : Nat) (h : n < 256) : (UInt8.ofNat n).toNat = n := by
  simp [UInt8.toNat_ofNat', Nat.mod_eq_of_lt h]

theorem readVerPrefix_write (this ver minVer : Nat) (hv : ver < 256) (hm : minVer < 256) (rest : Bytes) :
    readVerPrefix this (writeVerPrefix ver minVer ++ rest) =
      if minVer > this then .error .UnknownVersion else .ok (ver, rest) := by
  simp [readVerPrefix, writeVerPrefix, readUint, beDecode, u8_lt _ hv, u8_lt _ hm]

/-- a framed stream without a record of some declared `required` type never decodes -/
theorem procRecs_missing_required (tlvs : List TlvField) (t : Nat)
    (hreq : ∃ f ∈ tlvs, f.typ = t ∧ f.kind = .required) :
    ∀ (recs : List (Nat × Bytes)) (last : Option Nat) (acc : List (Nat × Val)),
      (∀ p ∈ recs, p.1 ≠ t) → lastLt last t = true → ∃ e, procRecs tlvs last acc recs = .error e := by
  obtain ⟨f, hf, hft, hfk⟩ := hreq
  intro recs
  induction recs with
  | nil =>
    intro last acc _ hl
    have : reqMissing tlvs last = true := by
      rw [reqMissing, List.any_eq_true]
      exact ⟨f, hf, by simp [hfk, hft, hl]⟩
    exact ⟨.InvalidValue, by simp [procRecs, this]⟩
  | cons p rest ih =>
    intro last acc hne hl
    obtain ⟨typ, val⟩ := p
    have hne1 : typ ≠ t := hne (typ, val) List.mem_cons_self
    have hrest : ∀ q ∈ rest, q.1 ≠ t := fun q hq => hne q (List.mem_cons_of_mem _ hq)
    rw [procRecs]
    by_cases h1 : lastLt last typ = true
    · by_cases h2 : t < typ
      · have : reqSkipped tlvs last typ = true := by
          rw [reqSkipped, List.any_eq_true]
          exact ⟨f, hf, by simp [hfk, hft, hl, h2]⟩
        exact ⟨.InvalidValue, by simp [h1, this]⟩
      · have hlt : typ < t := by omega
        have hl' : lastLt (some typ) t = true := by simp [lastLt, hlt]
        simp only [h1, Bool.not_true, Bool.false_eq_true, if_false]
        split
        · exact ⟨_, rfl⟩
        · split
          · split
            · exact ⟨_, rfl⟩
            · split
              · exact ih (some typ) _ hrest hl'
              · exact ⟨_, rfl⟩
          · split
            · exact ⟨_, rfl⟩
            · exact ih (some typ) _ hrest hl'
    · exact ⟨.InvalidValue, by simp [h1]⟩

end Ldk.TlvFrame
