/- Helper lemmas for C02's per-next-hop admission theorems (Props/C02.lean): what each GENERATED decision function
   (Generated/Timing.lean, Generated/Forward.lean) guarantees when it answers `.ok`.  Each lemma is a case split over
   the translated `if` chain; when a check is moved or dropped in the Rust source, the regenerated function no longer
   has the property and the corresponding lemma stops checking. -/
import LdkModel.Model.Forward
namespace Ldk.Forward
open Ldk Ldk.FwdGen

/-- `internal_htlc_satisfies_config` (generated `htlcSatisfiesConfig`) answers Ok only if the fee is computable in
    u64 and fully paid on top of the forwarded amount, and the configured CLTV delta is granted -/
theorem satisfies_ok {ia ic oa oc fp fb d : Nat} (h : htlcSatisfiesConfig ia ic oa oc fp fb d = .ok ()) :
    ∃ fee, requiredFee ⟨fb, fp, d⟩ oa = some fee ∧ oa + fee ≤ ia ∧ oc + d ≤ ic := by
  unfold htlcSatisfiesConfig at h
  have e : (Option.bind (chkMul64 oa fp) fun prop_fee => chkAdd64 (prop_fee / 1000000) fb) = requiredFee ⟨fb, fp, d⟩ oa := rfl
  simp only [e] at h
  cases hf : requiredFee ⟨fb, fp, d⟩ oa with
  | none => simp [hf] at h
  | some fee =>
    refine ⟨fee, rfl, ?_⟩
    simp only [hf, Option.isNone_some, Option.getD_some, Bool.false_or] at h
    by_cases c1 : ia < fee
    · simp [c1] at h
    · by_cases c2 : ia - fee < oa
      · simp [c1, c2] at h
      · by_cases c3 : ic < oc + d
        · simp [c1, c2, c3] at h
        · omega

/-- the converse: a paid fee and a granted delta are accepted -/
theorem satisfies_of {ia ic oa oc fp fb d fee : Nat} (hf : requiredFee ⟨fb, fp, d⟩ oa = some fee)
    (h1 : oa + fee ≤ ia) (h2 : oc + d ≤ ic) : htlcSatisfiesConfig ia ic oa oc fp fb d = .ok () := by
  unfold htlcSatisfiesConfig
  have e : (Option.bind (chkMul64 oa fp) fun prop_fee => chkAdd64 (prop_fee / 1000000) fb) = requiredFee ⟨fb, fp, d⟩ oa := rfl
  simp only [e, hf, Option.isNone_some, Option.getD_some, Bool.false_or]
  have c1 : ¬ ia < fee := by omega
  have c2 : ¬ ia - fee < oa := by omega
  have c3 : ¬ ic < oc + d := by omega
  simp [c1, c2, c3]

/-- `htlc_satisfies_config` (generated): Ok only under the current config or under `prev_config` -/
theorem chan_satisfies_ok {c : ChanView} {ia ic oa oc : Nat} (h : htlcSatisfiesConfigChan c ia ic oa oc = .ok ()) :
    ∃ cfg, c.accepts cfg ∧ htlcSatisfiesConfig ia ic oa oc cfg.feeProp cfg.feeBase cfg.cltvDelta = .ok () := by
  unfold htlcSatisfiesConfigChan at h
  cases h1 : htlcSatisfiesConfig ia ic oa oc c.cfg.feeProp c.cfg.feeBase c.cfg.cltvDelta with
  | ok u => exact ⟨c.cfg, Or.inl rfl, by cases u; exact h1⟩
  | error e =>
    simp only [h1] at h
    cases hp : c.prev with
    | none => simp [hp] at h
    | some p => simp only [hp] at h; exact ⟨p, Or.inr hp, h⟩

/-- `can_forward_htlc_to_outgoing_channel` (generated) answers Ok only if `htlc_satisfies_config` did, the amount
    reaches the counterparty's minimum, a private channel is only used when allowed, and a channel that is not
    live is only used for an HTLC that will be intercepted -/
theorem to_outgoing_ok {ap wi : Bool} {c : ChanView} {scid ia ic oa oc : Nat}
    (h : canForwardHtlcToOutgoingChannel ap c true scid ia ic oa oc wi = .ok ()) :
    htlcSatisfiesConfigChan c ia ic oa oc = .ok () ∧ c.cpHtlcMin ≤ oa ∧ (c.announce = true ∨ ap = true) ∧
    (wi = true ∨ c.live = true) ∧ (c.scidPrivacy = true → scid = c.scidAlias) := by
  unfold canForwardHtlcToOutgoingChannel at h
  split at h
  · cases h
  · rename_i c1
    simp only [if_true] at h
    split at h
    · cases h
    · rename_i c2
      split at h
      · split at h
        · cases h
        · split at h <;> cases h
      · rename_i c3
        split at h
        · cases h
        · rename_i c4
          refine ⟨h, ?_, ?_, ?_, ?_⟩
          · simpa using c4
          · cases ha : c.announce <;> cases hp : ap <;> simp [ha, hp] at c1 ⊢
          · cases hw : wi <;> cases hl : c.live <;> simp [hw, hl] at c3 ⊢
          · intro hs
            simpa [hs] using c2

/-- exact characterisation of `check_incoming_htlc_cltv` (generated) -/
theorem cltv_ok_iff (ht oc ic m : Nat) :
    checkIncomingHtlcCltv ht oc ic m = .ok () ↔
      oc + m ≤ ic ∧ ht + HTLC_FAIL_BACK_BUFFER < ic ∧ ic ≤ ht + CLTV_FAR_FAR_AWAY ∧ ht + LATENCY_GRACE_PERIOD_BLOCKS < oc := by
  unfold checkIncomingHtlcCltv
  by_cases c1 : ic < oc + m
  · simp only [c1, decide_true, if_true]; constructor
    · intro h; cases h
    · intro h; omega
  · by_cases c2 : ic ≤ ht + HTLC_FAIL_BACK_BUFFER
    · simp only [c1, c2, decide_true, decide_false, Bool.false_eq_true, if_true, if_false]; constructor
      · intro h; cases h
      · intro h; omega
    · by_cases c3 : ic > ht + CLTV_FAR_FAR_AWAY
      · simp only [c1, c2, c3, decide_true, decide_false, Bool.false_eq_true, if_true, if_false]; constructor
        · intro h; cases h
        · intro h; omega
      · by_cases c4 : oc ≤ ht + LATENCY_GRACE_PERIOD_BLOCKS
        · simp only [c1, c2, c3, c4, decide_true, decide_false, Bool.false_eq_true, if_true, if_false]; constructor
          · intro h; cases h
          · intro h; omega
        · simp only [c1, c2, c3, c4, decide_false, Bool.false_eq_true, if_false, true_iff]
          omega

/-- the tail of `can_forward_htlc_should_intercept` (generated): passes the intercept flag through iff the height
    margins hold -/
theorem tail_ok_iff (ht ic oc : Nat) (i b : Bool) :
    cfsiTail ht ic oc i = .ok b ↔ b = i ∧ checkIncomingHtlcCltv ht oc ic MIN_CLTV_EXPIRY_DELTA = .ok () := by
  unfold cfsiTail
  cases h : checkIncomingHtlcCltv ht oc ic MIN_CLTV_EXPIRY_DELTA with
  | error e => simp
  | ok u =>
    cases u
    constructor
    · intro hh; injection hh with hh; exact ⟨hh.symm, rfl⟩
    · rintro ⟨rfl, -⟩; rfl

/-- the known-channel closure (generated `cfsiKnown`): Ok carries the known-channel intercept decision and implies
    `can_forward_htlc_to_outgoing_channel` answered Ok with `will_intercept` = that decision -/
theorem known_ok {fl : Nat} {ap pp b : Bool} {c : ChanView} {scid ia ic oa oc : Nat}
    (h : cfsiKnown fl ap pp c scid ia ic oa oc = .ok b) :
    b = forwardNeedsInterceptToKnownChan fl pp c ∧
    canForwardHtlcToOutgoingChannel ap c true scid ia ic oa oc b = .ok () := by
  unfold cfsiKnown at h
  simp only at h
  cases h1 : canForwardHtlcToOutgoingChannel ap c true scid ia ic oa oc (forwardNeedsInterceptToKnownChan fl pp c) with
  | error e => simp [h1] at h
  | ok u =>
    cases u
    simp only [h1] at h
    injection h with h
    subst h
    exact ⟨rfl, h1⟩

/-- shape of `admitHop` for a known channel: the closure ran, then the tail -/
theorem admitHop_chan_ok {n : NodeCfg} {best : Nat} {c : ChanView} {h : Htlc} {b : Bool}
    (hok : admitHop n best (.chan c) h = .ok b) :
    checkIncomingHtlcCltv (curHeight best) h.outCltv h.inCltv MIN_CLTV_EXPIRY_DELTA = .ok () ∧
    cfsiKnown n.interceptFlags n.acceptPriv h.prevPublic c h.scid h.inAmt h.inCltv h.outAmt h.outCltv = .ok b := by
  unfold admitHop canForwardHtlcShouldIntercept at hok
  simp only [NextHop.chan?] at hok
  cases h1 : cfsiKnown n.interceptFlags n.acceptPriv h.prevPublic c h.scid h.inAmt h.inCltv h.outAmt h.outCltv with
  | error e => simp [h1] at hok
  | ok i =>
    simp only [h1] at hok
    obtain ⟨rfl, h2⟩ := (tail_ok_iff _ _ _ _ _).mp hok
    exact ⟨h2, rfl⟩

/-- shape of `admitHop` when the SCID is not one of our channels: the `None =>` arm ran, then the tail -/
theorem admitHop_nonchan_ok {n : NodeCfg} {best : Nat} {hop : NextHop} {h : Htlc} {b : Bool}
    (hc : hop.chan? = none) (hok : admitHop n best hop h = .ok b) :
    checkIncomingHtlcCltv (curHeight best) h.outCltv h.inCltv MIN_CLTV_EXPIRY_DELTA = .ok () ∧
    cfsiUnknown n.interceptFlags hop.isIntercept hop.isPhantom h.inAmt h.inCltv h.outAmt h.outCltv = .ok b := by
  unfold admitHop canForwardHtlcShouldIntercept at hok
  simp only [hc] at hok
  cases h1 : cfsiUnknown n.interceptFlags hop.isIntercept hop.isPhantom h.inAmt h.inCltv h.outAmt h.outCltv with
  | error e => simp [h1] at hok
  | ok i =>
    simp only [h1] at hok
    obtain ⟨rfl, h2⟩ := (tail_ok_iff _ _ _ _ _).mp hok
    exact ⟨h2, rfl⟩

end Ldk.Forward
