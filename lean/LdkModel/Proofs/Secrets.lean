/- Helper lemmas about the secret-store model (Model/Secrets.lean): bit-level facts, the
   derivation identity (algebraic core of BOLT-3 secret storage), store accessors, and the slot
   invariant with its preservation lemma.  Everything is for an arbitrary width `B`, secret type,
   `flip` and `H`; nothing is enumerated.  Core only (no Mathlib needed). -/
import LdkModel.Model.Secrets
namespace Ldk.Secrets

variable {S : Type}

/-! ### bits -/

theorem bitSet_eq_testBit (idx b : Nat) : bitSet idx b = idx.testBit b := by
  unfold bitSet
  rw [Nat.one_shiftLeft]
  cases h : idx.testBit b
  · -- bit clear: `idx &&& 2^b ≠ 2^b`
    rw [beq_eq_false_iff_ne]
    intro he
    have : (idx &&& 2 ^ b).testBit b = (2 ^ b).testBit b := by rw [he]
    rw [Nat.testBit_and, h, Nat.testBit_two_pow] at this
    simp at this
  · rw [beq_iff_eq]
    apply Nat.eq_of_testBit_eq
    intro i
    rw [Nat.testBit_and, Nat.testBit_two_pow]
    by_cases hb : b = i
    · subst hb; simp [h]
    · simp [hb]

theorem clearLow_eq (idx i : Nat) : clearLow idx i = idx / 2 ^ i * 2 ^ i := by
  unfold clearLow
  rw [Nat.shiftLeft_eq, Nat.shiftRight_eq_div_pow]

theorem clearLow_le (idx i : Nat) : clearLow idx i ≤ idx := by
  rw [clearLow_eq]; exact Nat.div_mul_le_self idx (2 ^ i)

/-- the low `q` bits are clear iff divisible by `2^q` -/
theorem low_zero_iff_mod (i q : Nat) : (∀ b, b < q → i.testBit b = false) ↔ i % 2 ^ q = 0 := by
  constructor
  · intro h
    apply Nat.eq_of_testBit_eq
    intro b
    rw [Nat.testBit_mod_two_pow, Nat.zero_testBit]
    by_cases hb : b < q
    · simp [hb, h b hb]
    · simp [hb]
  · intro h b hb
    have : (i % 2 ^ q).testBit b = i.testBit b := by rw [Nat.testBit_mod_two_pow]; simp [hb]
    rw [← this, h, Nat.zero_testBit]

/-- agreement of all bits from `p` up iff same quotient by `2^p` -/
theorem high_agree_of_div (i j p : Nat) (h : j / 2 ^ p = i / 2 ^ p) :
    ∀ b, p ≤ b → i.testBit b = j.testBit b := by
  intro b hb
  have hi := Nat.testBit_div_two_pow (n := p) i (b - p)
  have hj := Nat.testBit_div_two_pow (n := p) j (b - p)
  rw [Nat.sub_add_cancel hb] at hi hj
  rw [← hi, ← hj, h]

/-! ### place_secret -/

theorem placeLoop_spec (idx : Nat) : ∀ (n i : Nat), (∀ b, b < i → idx.testBit b = false) →
    i ≤ placeLoop idx i n ∧ placeLoop idx i n ≤ i + n ∧
    (∀ b, b < placeLoop idx i n → idx.testBit b = false) ∧
    (placeLoop idx i n < i + n → idx.testBit (placeLoop idx i n) = true) := by
  intro n
  induction n with
  | zero => intro i h; simp [placeLoop]; exact h
  | succ n ih =>
    intro i h
    unfold placeLoop
    by_cases hb : bitSet idx i = true
    · rw [if_pos hb]
      refine ⟨Nat.le_refl _, by omega, h, fun _ => ?_⟩
      rw [← bitSet_eq_testBit]; exact hb
    · rw [if_neg hb]
      have hb' : idx.testBit i = false := by
        rw [← bitSet_eq_testBit]; simpa using hb
      have h' : ∀ b, b < i + 1 → idx.testBit b = false := by
        intro b hlt
        by_cases hbi : b = i
        · subst hbi; exact hb'
        · exact h b (by omega)
      obtain ⟨h1, h2, h3, h4⟩ := ih (i + 1) h'
      exact ⟨by omega, by omega, h3, fun hlt => h4 (by omega)⟩

theorem place_le (B idx : Nat) : placeSecret B idx ≤ B := by
  have := (placeLoop_spec idx B 0 (by intro b hb; omega)).2.1
  simpa [placeSecret] using this

theorem place_low (B idx : Nat) : ∀ b, b < placeSecret B idx → idx.testBit b = false :=
  (placeLoop_spec idx B 0 (by intro b hb; omega)).2.2.1

theorem place_bit (B idx : Nat) (h : placeSecret B idx < B) :
    idx.testBit (placeSecret B idx) = true :=
  (placeLoop_spec idx B 0 (by intro b hb; omega)).2.2.2 (by simpa [placeSecret] using h)

theorem place_unique (B idx q : Nat) (hq : q ≤ B) (hlow : ∀ b, b < q → idx.testBit b = false)
    (hbit : q < B → idx.testBit q = true) : placeSecret B idx = q := by
  have h1 := place_le B idx
  have h2 := place_low B idx
  have h3 := place_bit B idx
  by_cases hlt : placeSecret B idx < q
  · have := h3 (by omega); rw [hlow _ hlt] at this; cases this
  · by_cases hgt : q < placeSecret B idx
    · have := hbit (by omega); rw [h2 _ hgt] at this; cases this
    · omega

theorem place_mod (B idx : Nat) : idx % 2 ^ placeSecret B idx = 0 :=
  (low_zero_iff_mod idx _).1 (place_low B idx)

/-- `place_secret(0) = B` -/
theorem place_zero (B : Nat) : placeSecret B 0 = B :=
  place_unique B 0 B (Nat.le_refl _) (fun b _ => Nat.zero_testBit b) (fun h => absurd h (Nat.lt_irrefl _))

/-- an index below `2^B` placed in slot `B` is `0` -/
theorem eq_zero_of_place_eq (B i : Nat) (hi : i < 2 ^ B) (hp : placeSecret B i = B) : i = 0 := by
  have := place_mod B i
  rw [hp, Nat.mod_eq_of_lt hi] at this
  exact this

/-- multiples of `2^p` below `2^B` leave room for `2^p` more -/
theorem add_two_pow_le (i p B : Nat) (hp : p ≤ B) (hmod : i % 2 ^ p = 0) (hi : i < 2 ^ B) :
    i + 2 ^ p ≤ 2 ^ B := by
  obtain ⟨c, hc⟩ := Nat.dvd_of_mod_eq_zero hmod
  have hB : 2 ^ B = 2 ^ p * 2 ^ (B - p) := by rw [← Nat.pow_add]; congr 1; omega
  rw [hc, hB] at hi
  have hlt : c < 2 ^ (B - p) := Nat.lt_of_mul_lt_mul_left hi
  have : 2 ^ p * (c + 1) ≤ 2 ^ p * 2 ^ (B - p) := Nat.mul_le_mul_left _ hlt
  rw [hc, hB]
  rw [Nat.mul_succ] at this
  exact this

/-- for `i` with `p` clear low bits and `q < p`: `i + 2^q` has exactly `q` trailing zeros -/
theorem place_add_two_pow (B i p q : Nat) (hp : p ≤ B) (hq : q < p)
    (hlow : ∀ b, b < p → i.testBit b = false) : placeSecret B (i + 2 ^ q) = q := by
  apply place_unique B _ q (by omega)
  · intro b hb
    rw [Nat.add_comm, Nat.testBit_two_pow_add_gt hb]
    exact hlow b (by omega)
  · intro _
    rw [Nat.add_comm, Nat.testBit_two_pow_add_eq, hlow q hq]; rfl

/-! ### derive_secret / build_commitment_secret -/

theorem deriveSecret_succ (P : Params S) (s : S) (b idx : Nat) :
    deriveSecret P s (b + 1) idx =
      deriveSecret P (if idx.testBit b = true then P.H (P.flip b s) else s) b idx := by
  rw [deriveSecret, bitSet_eq_testBit]

theorem derive_congr (P : Params S) : ∀ (bits : Nat) (s : S) (i j : Nat),
    (∀ b, b < bits → i.testBit b = j.testBit b) →
    deriveSecret P s bits i = deriveSecret P s bits j := by
  intro bits
  induction bits with
  | zero => intro s i j _; rfl
  | succ n ih =>
    intro s i j h
    rw [deriveSecret_succ, deriveSecret_succ, h n (Nat.lt_succ_self n)]
    exact ih _ i j (fun b hb => h b (by omega))

theorem derive_low_zero (P : Params S) : ∀ (bits : Nat) (s : S) (i : Nat),
    (∀ b, b < bits → i.testBit b = false) → deriveSecret P s bits i = s := by
  intro bits
  induction bits with
  | zero => intro s i _; rfl
  | succ n ih =>
    intro s i h
    rw [deriveSecret_succ, h n (Nat.lt_succ_self n)]
    exact ih s i (fun b hb => h b (by omega))

/-- **Derivation identity** (the algebraic core of BOLT-3 secret storage): a secret derived for
    an index `i` whose `p` low bits are clear determines, by the `p`-bit derivation, the secret of
    every index `j` that agrees with `i` from bit `p` up. -/
theorem derive_derive (P : Params S) (p : Nat) : ∀ (n : Nat) (s : S) (i j : Nat),
    (∀ b, b < p → i.testBit b = false) → (∀ b, p ≤ b → i.testBit b = j.testBit b) →
    deriveSecret P (deriveSecret P s (p + n) i) p j = deriveSecret P s (p + n) j := by
  intro n
  induction n with
  | zero =>
    intro s i j hlow _
    rw [Nat.add_zero, derive_low_zero P p s i hlow]
  | succ n ih =>
    intro s i j hlow hag
    have e : p + (n + 1) = (p + n) + 1 := by omega
    rw [e, deriveSecret_succ, deriveSecret_succ, hag (p + n) (by omega)]
    exact ih _ i j hlow hag

theorem buildLoop_eq_derive (P : Params S) : ∀ (bits : Nat) (s : S) (idx : Nat),
    buildLoop P s bits idx = deriveSecret P s bits idx := by
  intro bits
  induction bits with
  | zero => intro s idx; rfl
  | succ n ih => intro s idx; unfold buildLoop deriveSecret; exact ih _ idx

/-- `build_commitment_secret(seed, idx) = derive_secret(seed, B, idx)` -/
theorem build_eq_derive (P : Params S) (seed : S) (idx : Nat) :
    buildCommitmentSecret P seed idx = deriveSecret P seed P.B idx :=
  buildLoop_eq_derive P P.B seed idx

/-- the derivation identity for the sender's secrets, in arithmetic form -/
theorem derive_build (P : Params S) (seed : S) (i j p : Nat) (hp : p ≤ P.B)
    (hi : i % 2 ^ p = 0) (hij : j / 2 ^ p = i / 2 ^ p) :
    deriveSecret P (buildCommitmentSecret P seed i) p j = buildCommitmentSecret P seed j := by
  rw [build_eq_derive, build_eq_derive]
  obtain ⟨n, hn⟩ : ∃ n, P.B = p + n := ⟨P.B - p, by omega⟩
  rw [hn]
  exact derive_derive P p n seed i j ((low_zero_iff_mod i p).2 hi) (high_agree_of_div i j p hij)

/-- `derive_secret(s, p, 1)` for `p ≥ 1` is one flip of bit 0 and one hash -/
theorem derive_one (P : Params S) : ∀ (p : Nat) (s : S), 1 ≤ p →
    deriveSecret P s p 1 = P.H (P.flip 0 s) := by
  intro p
  induction p with
  | zero => intro s h; omega
  | succ n ih =>
    intro s _
    rw [deriveSecret_succ]
    by_cases hn : n = 0
    · subst hn; rfl
    · have : (1 : Nat).testBit n = false := by
        have h2 : (2 ^ 0).testBit n = decide (0 = n) := Nat.testBit_two_pow
        rw [Nat.pow_zero] at h2
        rw [h2]; exact decide_eq_false (fun e => hn e.symm)
      rw [this]
      exact ih s (by omega)

/-! ### store accessors -/

theorem emptyIdx_eq (P : Params S) : emptyIdx P = 2 ^ P.B := by
  unfold emptyIdx; exact Nat.one_shiftLeft _

theorem slot_eq_getElem (P : Params S) (st : Store S) (q : Nat) (h : q < st.length) :
    slot P st q = st[q] := by
  unfold slot; rw [List.getD_eq_getElem?_getD, List.getElem?_eq_getElem h]; rfl

theorem length_new (P : Params S) : (Store.new P).length = P.B + 1 := by
  unfold Store.new; exact List.length_replicate

theorem slot_new (P : Params S) (q : Nat) : slot P (Store.new P) q = (P.zero, emptyIdx P) := by
  unfold slot Store.new
  rw [List.getD_eq_getElem?_getD, List.getElem?_replicate]
  split <;> rfl

theorem slot_set (P : Params S) (st : Store S) (p q : Nat) (v : Slot S) (hp : p < st.length) :
    slot P (st.set p v) q = if q = p then v else slot P st q := by
  unfold slot
  rw [List.getD_eq_getElem?_getD, List.getD_eq_getElem?_getD, List.getElem?_set]
  by_cases h : p = q
  · subst h; simp [hp]
  · have h' : ¬ q = p := fun e => h e.symm
    simp [h, h']

/-! ### get_min_seen_secret -/

theorem foldMin_le_init (l : List (Slot S)) : ∀ a : Nat,
    l.foldl (fun m sl => if sl.2 < m then sl.2 else m) a ≤ a := by
  induction l with
  | nil => intro a; exact Nat.le_refl _
  | cons x xs ih =>
    intro a
    rw [List.foldl_cons]
    refine Nat.le_trans (ih _) ?_
    split <;> omega

theorem foldMin_le_mem (l : List (Slot S)) : ∀ (a : Nat) (q : Nat) (h : q < l.length),
    l.foldl (fun m sl => if sl.2 < m then sl.2 else m) a ≤ l[q].2 := by
  induction l with
  | nil => intro a q h; cases h
  | cons x xs ih =>
    intro a q h
    rw [List.foldl_cons]
    cases q with
    | zero =>
      refine Nat.le_trans (foldMin_le_init xs _) ?_
      simp only [List.getElem_cons_zero]
      split <;> omega
    | succ q => exact ih _ q (by simpa using h)

theorem foldMin_mem (l : List (Slot S)) : ∀ a : Nat,
    l.foldl (fun m sl => if sl.2 < m then sl.2 else m) a = a ∨
    ∃ q, ∃ h : q < l.length, l.foldl (fun m sl => if sl.2 < m then sl.2 else m) a = l[q].2 := by
  induction l with
  | nil => intro a; exact Or.inl rfl
  | cons x xs ih =>
    intro a
    rw [List.foldl_cons]
    rcases ih (if x.2 < a then x.2 else a) with h | ⟨q, hq, h⟩
    · by_cases hx : x.2 < a
      · rw [if_pos hx] at h ⊢
        exact Or.inr ⟨0, by simp, by simpa using h⟩
      · rw [if_neg hx] at h ⊢
        exact Or.inl h
    · exact Or.inr ⟨q + 1, by simpa using hq, by simpa using h⟩

theorem getMin_le_empty (P : Params S) (st : Store S) : getMinSeenSecret P st ≤ emptyIdx P :=
  foldMin_le_init st _

theorem getMin_le_slot (P : Params S) (st : Store S) (q : Nat) (h : q < st.length) :
    getMinSeenSecret P st ≤ (slot P st q).2 := by
  rw [slot_eq_getElem P st q h]; exact foldMin_le_mem st _ q h

theorem getMin_mem (P : Params S) (st : Store S) :
    getMinSeenSecret P st = emptyIdx P ∨
    ∃ q, q < st.length ∧ getMinSeenSecret P st = (slot P st q).2 := by
  rcases foldMin_mem st (emptyIdx P) with h | ⟨q, hq, h⟩
  · exact Or.inl h
  · exact Or.inr ⟨q, hq, by rw [slot_eq_getElem P st q hq]; exact h⟩

/-! ### get_secret -/

theorem getLoop_none_of (P : Params S) (idx : Nat) : ∀ (l : List (Slot S)) (i0 : Nat),
    (∀ q (h : q < l.length), clearLow idx (i0 + q) ≠ l[q].2) → getLoop P idx l i0 = none := by
  intro l
  induction l with
  | nil => intro i0 _; rfl
  | cons x xs ih =>
    intro i0 h
    unfold getLoop
    have h0 := h 0 (by simp)
    simp only [Nat.add_zero, List.getElem_cons_zero] at h0
    rw [if_neg (by simpa using h0)]
    apply ih
    intro q hq
    have := h (q + 1) (by simpa using hq)
    simpa [Nat.add_assoc, Nat.add_comm 1 q] using this

theorem getLoop_some_of (P : Params S) (idx : Nat) (v : S) : ∀ (l : List (Slot S)) (i0 : Nat),
    (∀ q (h : q < l.length), clearLow idx (i0 + q) = l[q].2 →
      deriveSecret P l[q].1 (i0 + q) idx = v) →
    (∃ q, ∃ h : q < l.length, clearLow idx (i0 + q) = l[q].2) →
    getLoop P idx l i0 = some v := by
  intro l
  induction l with
  | nil => intro i0 _ ⟨q, h, _⟩; cases h
  | cons x xs ih =>
    intro i0 hs ⟨q, hq, hm⟩
    unfold getLoop
    by_cases h0 : clearLow idx i0 = x.2
    · rw [if_pos (by simpa using h0)]
      have := hs 0 (by simp) (by simpa using h0)
      simpa using this
    · rw [if_neg (by simpa using h0)]
      apply ih
      · intro q' hq' hm'
        have := hs (q' + 1) (by simpa using hq')
          (by simpa [Nat.add_assoc, Nat.add_comm 1 q'] using hm')
        simpa [Nat.add_assoc, Nat.add_comm 1 q'] using this
      · cases q with
        | zero => exact absurd (by simpa using hm) h0
        | succ q =>
          exact ⟨q, by simpa using hq, by simpa [Nat.add_assoc, Nat.add_comm 1 q] using hm⟩

/-- whatever `get_secret` returns came from a matching slot -/
theorem getLoop_some_imp (P : Params S) (idx : Nat) (v : S) : ∀ (l : List (Slot S)) (i0 : Nat),
    getLoop P idx l i0 = some v →
    ∃ q, ∃ h : q < l.length, clearLow idx (i0 + q) = l[q].2 ∧
      deriveSecret P l[q].1 (i0 + q) idx = v := by
  intro l
  induction l with
  | nil => intro i0 h; cases h
  | cons x xs ih =>
    intro i0 h
    unfold getLoop at h
    by_cases h0 : clearLow idx i0 = x.2
    · rw [if_pos (by simpa using h0)] at h
      exact ⟨0, by simp, by simpa using h0, by simpa using h⟩
    · rw [if_neg (by simpa using h0)] at h
      obtain ⟨q, hq, h1, h2⟩ := ih (i0 + 1) h
      refine ⟨q + 1, by simpa using hq, ?_, ?_⟩
      · simpa [Nat.add_assoc, Nat.add_comm 1 q] using h1
      · simpa [Nat.add_assoc, Nat.add_comm 1 q] using h2

/-! ### the consistency loop of provide_secret -/

theorem consistent_iff [DecidableEq S] (P : Params S) (st : Store S) (pos : Nat) (secret : S) :
    consistent P st pos secret = true ↔
    ∀ i, i < pos → deriveSecret P secret pos (slot P st i).2 = (slot P st i).1 := by
  unfold consistent
  rw [List.all_eq_true]
  constructor
  · intro h i hi
    have := h i (List.mem_range.2 hi)
    simpa using this
  · intro h i hi
    have := h i (List.mem_range.1 hi)
    simpa using this

/-! ### the slot invariant -/

/-- What slot `p` holds once the sender's secrets of every index in `[m, 2^B)` have been
    provided in descending order: nothing (and then no index of the range belongs to slot `p`), or
    the secret of the SMALLEST index of the range with exactly `p` trailing zeros (capped at `B`). -/
def SlotOk (P : Params S) (seed : S) (m p : Nat) (sl : Slot S) : Prop :=
  (sl = (P.zero, 2 ^ P.B) ∧ ∀ j, m ≤ j → j < 2 ^ P.B → placeSecret P.B j ≠ p) ∨
  (∃ i, sl = (buildCommitmentSecret P seed i, i) ∧ m ≤ i ∧ i < 2 ^ P.B ∧ placeSecret P.B i = p ∧
    ∀ j, m ≤ j → j < i → placeSecret P.B j ≠ p)

structure Inv (P : Params S) (seed : S) (m : Nat) (st : Store S) : Prop where
  len : st.length = P.B + 1
  ok : ∀ p, p ≤ P.B → SlotOk P seed m p (slot P st p)

theorem Inv_new (P : Params S) (seed : S) : Inv P seed (2 ^ P.B) (Store.new P) where
  len := length_new P
  ok := by
    intro p _
    left
    refine ⟨by rw [slot_new, emptyIdx_eq], ?_⟩
    intro j h1 h2; omega

/-- the slot of any inserted index is occupied, by an index not above it -/
theorem Inv.slot_of_place {P : Params S} {seed : S} {m : Nat} {st : Store S} (h : Inv P seed m st)
    (j : Nat) (hm : m ≤ j) (hj : j < 2 ^ P.B) :
    ∃ i, slot P st (placeSecret P.B j) = (buildCommitmentSecret P seed i, i) ∧ m ≤ i ∧ i ≤ j ∧
      i < 2 ^ P.B ∧ placeSecret P.B i = placeSecret P.B j := by
  rcases h.ok _ (place_le P.B j) with ⟨_, hno⟩ | ⟨i, hs, hmi, hi, hpi, hmin⟩
  · exact absurd rfl (hno j hm hj)
  · refine ⟨i, hs, hmi, ?_, hi, hpi⟩
    apply Nat.le_of_not_lt
    intro hlt
    exact hmin j hm hlt rfl

/-- the slot of the minimum holds the minimum -/
theorem Inv.slot_min {P : Params S} {seed : S} {m : Nat} {st : Store S} (h : Inv P seed m st)
    (hm : m < 2 ^ P.B) :
    slot P st (placeSecret P.B m) = (buildCommitmentSecret P seed m, m) := by
  obtain ⟨i, hs, hmi, him, _, _⟩ := h.slot_of_place m (Nat.le_refl _) hm
  have : i = m := by omega
  subst this; exact hs

/-- `get_min_seen_secret` is the lower end of the inserted range -/
theorem Inv.min {P : Params S} {seed : S} {m : Nat} {st : Store S} (h : Inv P seed m st)
    (hm : m ≤ 2 ^ P.B) : getMinSeenSecret P st = m := by
  apply Nat.le_antisymm
  · by_cases hlt : m < 2 ^ P.B
    · have hle := getMin_le_slot P st (placeSecret P.B m)
        (by rw [h.len]; have := place_le P.B m; omega)
      rw [h.slot_min hlt] at hle
      exact hle
    · have := getMin_le_empty P st
      rw [emptyIdx_eq] at this
      omega
  · rcases getMin_mem P st with he | ⟨q, hq, he⟩
    · rw [he, emptyIdx_eq]; exact hm
    · rw [he]
      rcases h.ok q (by rw [h.len] at hq; omega) with ⟨hs, _⟩ | ⟨i, hs, hmi, _⟩
      · rw [hs]; exact hm
      · rw [hs]; exact hmi

/-- the consistency loop accepts the next secret of the descending sequence -/
theorem Inv.consistent_next [DecidableEq S] {P : Params S} {seed : S} {m : Nat} {st : Store S}
    (h : Inv P seed (m + 1) st) (hm : m < 2 ^ P.B) :
    consistent P st (placeSecret P.B m) (buildCommitmentSecret P seed m) = true := by
  rw [consistent_iff]
  intro q hq
  have hpB := place_le P.B m
  have hlow := place_low P.B m
  have hmod := place_mod P.B m
  -- `m + 2^q` is an inserted index belonging to slot `q`
  have hpow : 2 ^ q < 2 ^ placeSecret P.B m := Nat.pow_lt_pow_right (by omega) hq
  have hroom := add_two_pow_le m _ P.B hpB hmod hm
  have hplace : placeSecret P.B (m + 2 ^ q) = q := place_add_two_pow P.B m _ q hpB hq hlow
  have hpos : 0 < 2 ^ q := Nat.two_pow_pos _
  obtain ⟨i, hs, hmi, hile, _, _⟩ := h.slot_of_place (m + 2 ^ q) (by omega) (by omega)
  rw [hplace] at hs
  rw [hs]
  -- `i` lies in `(m, m + 2^q]`, hence agrees with `m` from bit `place m` up
  apply derive_build P seed m i _ hpB hmod
  obtain ⟨c, hc⟩ := Nat.dvd_of_mod_eq_zero hmod
  have h2pos : 0 < 2 ^ placeSecret P.B m := Nat.two_pow_pos _
  have hmdiv : m / 2 ^ placeSecret P.B m = c := by
    exact Nat.div_eq_of_eq_mul_right h2pos hc
  rw [hmdiv]
  apply Nat.div_eq_of_lt_le
  · rw [Nat.mul_comm]; omega
  · rw [Nat.succ_mul, Nat.mul_comm]; omega

/-- **Slot-invariant preservation**: the next secret is accepted, stored in its slot, and the
    invariant holds for the extended range. -/
theorem Inv.step [DecidableEq S] {P : Params S} {seed : S} {m : Nat} {st : Store S}
    (h : Inv P seed (m + 1) st) (hm : m < 2 ^ P.B) :
    provideSecret P st m (buildCommitmentSecret P seed m) =
      some (st.set (placeSecret P.B m) (buildCommitmentSecret P seed m, m)) ∧
    Inv P seed m (st.set (placeSecret P.B m) (buildCommitmentSecret P seed m, m)) := by
  have hpB := place_le P.B m
  have hplen : placeSecret P.B m < st.length := by rw [h.len]; omega
  constructor
  · unfold provideSecret
    simp only
    rw [if_pos (h.consistent_next hm), h.min (by omega), if_neg (by omega)]
  · refine ⟨by rw [List.length_set]; exact h.len, ?_⟩
    intro p hp
    rw [slot_set P st _ p _ hplen]
    by_cases hpe : p = placeSecret P.B m
    · rw [if_pos hpe]
      right
      exact ⟨m, rfl, Nat.le_refl _, hm, hpe.symm, fun j h1 h2 => by omega⟩
    · rw [if_neg hpe]
      have hne : ∀ j, m ≤ j → j < m + 1 → placeSecret P.B j ≠ p := by
        intro j h1 h2
        have : j = m := by omega
        subst this; exact fun e => hpe e.symm
      rcases h.ok p hp with ⟨hs, hno⟩ | ⟨i, hs, hmi, hi, hpi, hmin⟩
      · left
        refine ⟨hs, fun j h1 h2 => ?_⟩
        by_cases hj : j < m + 1
        · exact hne j h1 hj
        · exact hno j (by omega) h2
      · right
        refine ⟨i, hs, by omega, hi, hpi, fun j h1 h2 => ?_⟩
        by_cases hj : j < m + 1
        · exact hne j h1 hj
        · exact hmin j (by omega) h2

/-- any slot whose stored index matches `j` (with its low bits cleared) derives `j`'s secret -/
theorem Inv.match_sound {P : Params S} {seed : S} {m : Nat} {st : Store S} (h : Inv P seed m st)
    (j q : Nat) (hj : j < 2 ^ P.B) (hq : q ≤ P.B) (hmatch : clearLow j q = (slot P st q).2) :
    deriveSecret P (slot P st q).1 q j = buildCommitmentSecret P seed j := by
  rcases h.ok q hq with ⟨hs, _⟩ | ⟨i, hs, _, _, hpi, _⟩
  · -- an empty slot carries `2^B`, which no cleared `j < 2^B` equals
    rw [hs] at hmatch
    have := clearLow_le j q
    simp only at hmatch
    omega
  · rw [hs] at hmatch ⊢
    simp only at hmatch ⊢
    rw [clearLow_eq] at hmatch
    have h2pos : 0 < 2 ^ q := Nat.two_pow_pos _
    apply derive_build P seed i j q hq
    · rw [← hmatch]; exact Nat.mul_mod_left _ _
    · rw [← hmatch, Nat.mul_div_cancel _ h2pos]

/-- some slot matches every inserted index (downward search for the last `q` with
    `clearLow j q ≥ m`) -/
theorem Inv.match_exists {P : Params S} {seed : S} {m : Nat} {st : Store S} (h : Inv P seed m st)
    (j : Nat) (hj : j < 2 ^ P.B) : ∀ (d q : Nat), q + d = P.B → m ≤ clearLow j q →
    ∃ q', q' ≤ P.B ∧ clearLow j q' = (slot P st q').2 := by
  intro d
  induction d with
  | zero =>
    intro q hq hmq
    -- q = B: clearLow j B = 0, so m = 0 and slot B holds index 0
    have hqB : q = P.B := by omega
    subst hqB
    have hc0 : clearLow j P.B = 0 := by
      rw [clearLow_eq, Nat.div_eq_of_lt hj, Nat.zero_mul]
    have hm0 : m = 0 := by omega
    have hpos : 0 < 2 ^ P.B := Nat.two_pow_pos _
    obtain ⟨i, hs, _, hi0, _, _⟩ := h.slot_of_place 0 (by omega) hpos
    rw [place_zero] at hs
    have : i = 0 := by omega
    subst this
    exact ⟨P.B, Nat.le_refl _, by rw [hs, hc0]⟩
  | succ d ih =>
    intro q hq hmq
    by_cases hnext : m ≤ clearLow j (q + 1)
    · exact ih (q + 1) (by omega) hnext
    · -- bit q of j is set, clearLow j q = clearLow j (q+1) + 2^q belongs to slot q, and the
      -- smallest inserted index of slot q cannot be lower
      have hqB : q < P.B := by omega
      have h2pos : 0 < 2 ^ q := Nat.two_pow_pos _
      have hc : clearLow j q = clearLow j (q + 1) + 2 ^ q * (j / 2 ^ q % 2) := by
        rw [clearLow_eq, clearLow_eq]
        have e1 : j / 2 ^ (q + 1) = j / 2 ^ q / 2 := by
          rw [Nat.pow_succ, Nat.div_div_eq_div_mul]
        have e2 := Nat.div_add_mod (j / 2 ^ q) 2
        rw [e1, Nat.pow_succ]
        calc j / 2 ^ q * 2 ^ q = (2 * (j / 2 ^ q / 2) + j / 2 ^ q % 2) * 2 ^ q := by rw [e2]
          _ = j / 2 ^ q / 2 * (2 ^ q * 2) + 2 ^ q * (j / 2 ^ q % 2) := by
            rw [Nat.add_mul, Nat.mul_comm 2 (j / 2 ^ q / 2), Nat.mul_assoc, Nat.mul_comm 2 (2 ^ q),
              Nat.mul_comm (j / 2 ^ q % 2)]
      have hbit : j / 2 ^ q % 2 = 1 := by
        rcases Nat.mod_two_eq_zero_or_one (j / 2 ^ q) with h0 | h1
        · rw [h0, Nat.mul_zero, Nat.add_zero] at hc; omega
        · exact h1
      rw [hbit, Nat.mul_one] at hc
      -- c := clearLow j q has exactly q trailing zeros
      have hcmod : clearLow j q % 2 ^ q = 0 := by rw [clearLow_eq]; exact Nat.mul_mod_left _ _
      have hc1mod : clearLow j (q + 1) % 2 ^ (q + 1) = 0 := by
        rw [clearLow_eq]; exact Nat.mul_mod_left _ _
      have hcbit : (clearLow j q).testBit q = true := by
        rw [Nat.testBit_eq_decide_div_mod_eq, clearLow_eq, Nat.mul_div_cancel _ h2pos, hbit]; rfl
      have hcplace : placeSecret P.B (clearLow j q) = q :=
        place_unique P.B _ q (by omega) ((low_zero_iff_mod _ q).2 hcmod) (fun _ => hcbit)
      have hcle := clearLow_le j q
      obtain ⟨i, hs, hmi, hic, _, hpi⟩ := h.slot_of_place (clearLow j q) hmq (by omega)
      rw [hcplace] at hs hpi
      refine ⟨q, by omega, ?_⟩
      rw [hs]
      simp only
      -- i ≤ c, both ≡ 2^q mod 2^(q+1); if i < c then i < clearLow j (q+1) < m ≤ i
      apply Nat.le_antisymm _ hic
      apply Nat.le_of_not_lt
      intro hlt
      have himod : i % 2 ^ (q + 1) = 2 ^ q := by
        have hlowi : i % 2 ^ q = 0 := by rw [← hpi]; exact place_mod P.B i
        have hbiti : i.testBit q = true := by
          have := place_bit P.B i (by rw [hpi]; exact hqB)
          rw [hpi] at this; exact this
        rw [Nat.testBit_eq_decide_div_mod_eq] at hbiti
        have hb : i / 2 ^ q % 2 = 1 := by simpa using hbiti
        rw [Nat.mod_pow_succ, hlowi, hb]; omega
      have hTpos : 0 < 2 ^ (q + 1) := Nat.two_pow_pos _
      have hi_eq := Nat.div_add_mod i (2 ^ (q + 1))
      obtain ⟨b, hb⟩ := Nat.dvd_of_mod_eq_zero hc1mod
      rw [himod] at hi_eq
      -- i = T*a + t < T*b + t  ⇒  a < b ⇒ T*(a+1) ≤ T*b
      have hab : i / 2 ^ (q + 1) < b := by
        apply Nat.lt_of_not_le
        intro hle
        have := Nat.mul_le_mul_left (2 ^ (q + 1)) hle
        omega
      have := Nat.mul_le_mul_left (2 ^ (q + 1)) (Nat.succ_le_of_lt hab)
      rw [Nat.mul_succ] at this
      have hT : 2 ^ (q + 1) = 2 * 2 ^ q := by rw [Nat.pow_succ, Nat.mul_comm]
      omega

/-- `get_secret` answers every inserted index with the sender's secret -/
theorem Inv.get {P : Params S} {seed : S} {m : Nat} {st : Store S} (h : Inv P seed m st)
    (j : Nat) (hm : m ≤ j) (hj : j < 2 ^ P.B) :
    getSecret P st j = some (buildCommitmentSecret P seed j) := by
  unfold getSecret
  apply getLoop_some_of
  · intro q hq hmatch
    rw [Nat.zero_add] at hmatch ⊢
    rw [← slot_eq_getElem P st q hq] at hmatch ⊢
    exact h.match_sound j q hj (by rw [h.len] at hq; omega) hmatch
  · have h0 : m ≤ clearLow j 0 := by rw [clearLow_eq]; simpa using hm
    obtain ⟨q, hq, hmatch⟩ := h.match_exists j hj P.B 0 (by omega) h0
    have hlen : q < st.length := by rw [h.len]; omega
    exact ⟨q, hlen, by rw [Nat.zero_add, ← slot_eq_getElem P st q hlen]; exact hmatch⟩

/-- whatever `get_secret` returns for a valid index is the sender's secret of that index -/
theorem Inv.get_sound {P : Params S} {seed : S} {m : Nat} {st : Store S} (h : Inv P seed m st)
    (j : Nat) (hj : j < 2 ^ P.B) (v : S) (hv : getSecret P st j = some v) :
    v = buildCommitmentSecret P seed j := by
  obtain ⟨q, hq, hmatch, hd⟩ := getLoop_some_imp P j v st 0 hv
  rw [Nat.zero_add] at hmatch hd
  rw [← slot_eq_getElem P st q hq] at hmatch hd
  rw [← hd]
  exact h.match_sound j q hj (by rw [h.len] at hq; omega) hmatch

/-- nothing is returned below the minimum -/
theorem Inv.get_none {P : Params S} {seed : S} {m : Nat} {st : Store S} (h : Inv P seed m st)
    (hm : m ≤ 2 ^ P.B) (j : Nat) (hj : j < m) : getSecret P st j = none := by
  unfold getSecret
  apply getLoop_none_of
  intro q hq
  rw [Nat.zero_add, ← slot_eq_getElem P st q hq]
  have hle := clearLow_le j q
  rcases h.ok q (by rw [h.len] at hq; omega) with ⟨hs, _⟩ | ⟨i, hs, hmi, _⟩
  · rw [hs]; simp only; omega
  · rw [hs]; simp only; omega

/-! ### Writeable / Readable -/

theorem ofBe_be64 (n : Nat) (h : n < 2 ^ 64) : ofBe (be64 n) = n := by
  have hr : List.range 8 = [0, 1, 2, 3, 4, 5, 6, 7] := by rfl
  unfold be64 ofBe
  rw [hr]
  simp only [List.map, List.foldl, UInt8.toNat_ofNat', Nat.shiftRight_eq_div_pow, Nat.reducePow,
    Nat.reduceMul, Nat.reduceSub, Nat.mod_mod, Nat.zero_add, Nat.div_one] at h ⊢
  omega

theorem length_be64 (n : Nat) : (be64 n).length = 8 := by
  unfold be64; rw [List.length_map, List.length_range]

/-- a store as the code can hold it: 32-byte secrets, `u64` indices -/
def WfStore (st : Store Bytes) : Prop := ∀ sl, sl ∈ st → sl.1.length = 32 ∧ sl.2 < 2 ^ 64

theorem readSlots_write (tail : Bytes) : ∀ st : Store Bytes, WfStore st →
    readSlots st.length (st.foldr (fun sl acc => sl.1 ++ be64 sl.2 ++ acc) tail) = some (st, tail) := by
  intro st
  induction st with
  | nil => intro _; rfl
  | cons x xs ih =>
    intro hwf
    have hx := hwf x (List.mem_cons_self ..)
    have hxs : WfStore xs := fun sl hsl => hwf sl (List.mem_cons_of_mem _ hsl)
    rw [List.foldr_cons, List.length_cons]
    unfold readSlots
    have h40 : (x.1 ++ be64 x.2).length = 40 := by rw [List.length_append, hx.1, length_be64]
    have hlen : ¬ (x.1 ++ be64 x.2 ++ List.foldr (fun sl acc => sl.1 ++ be64 sl.2 ++ acc) tail xs).length < 40 := by
      rw [List.length_append, h40]; omega
    rw [if_neg hlen, List.drop_left' h40, ih hxs]
    simp only
    have ht : List.take 32 (x.1 ++ be64 x.2 ++ List.foldr (fun sl acc => sl.1 ++ be64 sl.2 ++ acc) tail xs) = x.1 := by
      rw [List.append_assoc]; exact List.take_left' hx.1
    have hd : List.take 8 (List.drop 32 (x.1 ++ be64 x.2 ++ List.foldr (fun sl acc => sl.1 ++ be64 sl.2 ++ acc) tail xs)) = be64 x.2 := by
      rw [List.append_assoc, List.drop_left' hx.1]; exact List.take_left' (length_be64 _)
    rw [ht, hd, ofBe_be64 _ hx.2]

theorem read_write (st : Store Bytes) (h : WfStore st) :
    deserialize st.length (serialize st) = some st := by
  unfold deserialize serialize
  rw [readSlots_write [0] st h]
  rfl

end Ldk.Secrets
