import LdkModel.Model.HolderGate
namespace Ldk.HolderGate

/-- what the generated refusal rule gives once the holder commitment was signed -/
theorem signed_refuses (f : Flags) (h : f.holderTxSigned = true) (pc : Bool) :
    (pc && !chainMonitorDefers (updateOk true f [.latestHolderCommitmentTXInfo]) f pc &&
      updateOk true f [.latestHolderCommitmentTXInfo]) = false ∧
    (!updateOk true f [.latestHolderCommitmentTXInfo] || noFurtherUpdatesAllowed f) = true := by
  have hn : noFurtherUpdatesAllowed f = true := by simp [noFurtherUpdatesAllowed, h]
  have hu : updateOk true f [.latestHolderCommitmentTXInfo] = false := by simp [updateOk, hn, isPreCloseStep]
  simp [hu, hn]

structure Inv (s : Sys) : Prop where
  i1 : ∀ n ∈ s.released, s.monCur < n
  i2 : s.monCur = s.chanCur
  i3 : ∀ n fr, s.inflight = some (n, fr) → n = s.chanCur + 1
  i4 : s.signReq ≠ [] → s.flags.holderTxSigned = true
  i5 : ∀ n ∈ s.signReq, n ∉ s.released ∧ ∀ fr, s.inflight = some (n, fr) → fr = true

theorem Inv.init (n0 : Nat) : Inv (Sys.init n0) :=
  ⟨by simp [Sys.init], rfl, by simp [Sys.init], by simp [Sys.init], by simp [Sys.init]⟩

theorem Inv.initF (n0 : Nat) (manual seen : Bool) : Inv (Sys.initF n0 manual seen) :=
  ⟨by simp [Sys.initF, Sys.init], rfl, by simp [Sys.initF, Sys.init], by simp [Sys.initF, Sys.init], by simp [Sys.initF, Sys.init]⟩

/-- signing the monitor's current holder commitment keeps the invariant (shared by sign / goOnChain / htlcTimeout / fundingSeen) -/
theorem Inv.signNow {s : Sys} (inv : Inv s) (f : Flags) (hf : f.holderTxSigned = true) :
    Inv { s with flags := f, signReq := s.monCur :: s.signReq } := by
  refine ⟨inv.i1, inv.i2, inv.i3, fun _ => hf, ?_⟩
  intro n hn
  simp only [List.mem_cons] at hn
  rcases hn with rfl | hn
  · refine ⟨fun hm => Nat.lt_irrefl _ (inv.i1 _ hm), ?_⟩
    intro fr hq
    have := inv.i3 _ _ hq; have := inv.i2; omega
  · exact inv.i5 n hn

/-- changing flags without un-setting holder_tx_signed keeps the invariant -/
theorem Inv.flagsOnly {s : Sys} (inv : Inv s) (f : Flags) (hf : s.flags.holderTxSigned = true → f.holderTxSigned = true) :
    Inv { s with flags := f } :=
  ⟨inv.i1, inv.i2, inv.i3, fun h => hf (inv.i4 h), inv.i5⟩

theorem Inv.step {s s' : Sys} (inv : Inv s) (e : Ev) (h : step s e = some s') : Inv s' := by
  cases e with
  | csRecv pc =>
    simp only [HolderGate.step] at h
    split at h
    · cases h
    · rename_i hg
      simp only [Bool.or_eq_true, not_or, beq_iff_eq] at hg
      obtain ⟨⟨hc, hi⟩, hz⟩ := hg
      have hin : s.inflight = none := by cases hx : s.inflight <;> simp [hx] at hi ⊢
      have hpos : 0 < s.chanCur := Nat.pos_of_ne_zero hz
      split at h
      · rename_i hrel
        cases h
        have hns : s.signReq = [] := by
          cases hs : s.signReq with
          | nil => rfl
          | cons a l =>
            have := (signed_refuses s.flags (inv.i4 (by rw [hs]; simp)) pc).1
            rw [this] at hrel; cases hrel
        refine ⟨?_, rfl, ?_, inv.i4, ?_⟩
        · intro n hn
          simp only [List.mem_cons] at hn
          rcases hn with rfl | hn
          · show s.chanCur - 1 < s.chanCur; omega
          · have := inv.i1 n hn; have := inv.i2; show s.chanCur - 1 < n; omega
        · intro n fr hq; simp [hin] at hq
        · intro n hn; simp [hns] at hn
      · rename_i hrel
        cases h
        refine ⟨?_, rfl, ?_, inv.i4, ?_⟩
        · intro n hn
          have := inv.i1 n hn; have := inv.i2; show s.chanCur - 1 < n; omega
        · intro n fr hq
          simp only [Option.some.injEq, Prod.mk.injEq] at hq
          show n = s.chanCur - 1 + 1; omega
        · intro n hn
          refine ⟨(inv.i5 n hn).1, ?_⟩
          intro fr hq
          simp only [Option.some.injEq, Prod.mk.injEq] at hq
          rw [← hq.2]
          exact (signed_refuses s.flags (inv.i4 (by intro h0; rw [h0] at hn; cases hn)) pc).2
  | complete =>
    simp only [HolderGate.step] at h
    split at h
    · rename_i n hq
      split at h
      · cases h
      · cases h
        refine ⟨?_, inv.i2, ?_, inv.i4, ?_⟩
        · intro m hm
          simp only [List.mem_cons] at hm
          rcases hm with rfl | hm
          · have h3 := inv.i3 _ _ hq; have h2 := inv.i2; show s.monCur < m; omega
          · exact inv.i1 m hm
        · intro m fr hx; simp at hx
        · intro m hm
          refine ⟨?_, by intro fr hx; simp at hx⟩
          intro hmem
          simp only [List.mem_cons] at hmem
          rcases hmem with rfl | hmem
          · have := (inv.i5 m hm).2 false hq; cases this
          · exact (inv.i5 m hm).1 hmem
    · cases h
  | sign =>
    simp only [HolderGate.step] at h
    cases h
    refine ⟨inv.i1, inv.i2, inv.i3, fun _ => rfl, ?_⟩
    intro n hn
    simp only [List.mem_cons] at hn
    rcases hn with rfl | hn
    · refine ⟨fun hm => Nat.lt_irrefl _ (inv.i1 _ hm), ?_⟩
      intro fr hq
      have := inv.i3 _ _ hq; have := inv.i2; omega
    · exact inv.i5 n hn
  | goOnChain rfs =>
    simp only [HolderGate.step] at h; cases h
    split
    · exact inv.flagsOnly _ (fun _ => rfl)
    · exact inv.signNow _ rfl
  | htlcTimeout =>
    simp only [HolderGate.step] at h; cases h
    split
    · exact inv.signNow _ rfl
    · exact inv.flagsOnly _ (fun _ => rfl)
  | fundingSeen =>
    simp only [HolderGate.step] at h; cases h
    split
    · rename_i hb
      -- the GENERATED broadcast-on-funding-seen condition includes holder_tx_signed: the channel was frozen when marked
      have hsig : s.flags.holderTxSigned = true := by
        simp only [broadcastOnFundingSeen, Bool.and_eq_true] at hb
        exact hb.2
      exact inv.signNow _ hsig
    · exact inv.flagsOnly _ (fun hx => hx)
  | lockdown =>
    simp only [HolderGate.step] at h; cases h
    exact ⟨inv.i1, inv.i2, inv.i3, inv.i4, inv.i5⟩
  | spendSeen =>
    simp only [HolderGate.step] at h; cases h
    exact ⟨inv.i1, inv.i2, inv.i3, inv.i4, inv.i5⟩
  | closeChan =>
    simp only [HolderGate.step] at h; cases h
    exact ⟨inv.i1, inv.i2, by intro n fr hq; simp at hq, inv.i4, fun n hn => ⟨(inv.i5 n hn).1, by intro fr hq; simp at hq⟩⟩
  | restart =>
    simp only [HolderGate.step] at h; cases h
    refine ⟨inv.i1, inv.i2, ?_, inv.i4, ?_⟩
    · intro n fr hq
      cases hx : s.inflight with
      | none => simp [hx] at hq
      | some p =>
        obtain ⟨a, b⟩ := p
        simp [hx] at hq
        have h3 := inv.i3 a b hx
        show n = s.chanCur + 1
        rw [← hq.1]; exact h3
    · intro n hn
      refine ⟨(inv.i5 n hn).1, ?_⟩
      intro fr hq
      cases hx : s.inflight with
      | none => simp [hx] at hq
      | some p =>
        obtain ⟨a, b⟩ := p
        simp [hx] at hq
        have := (inv.i5 n hn).2 b (by rw [hx, hq.1])
        rw [← hq.2, this]; rfl

theorem Inv.run : ∀ (es : List Ev) (s s' : Sys), Inv s → run s es = some s' → Inv s'
  | [], s, s', inv, h => by simp only [HolderGate.run] at h; cases h; exact inv
  | e :: es, s, s', inv, h => by
    simp only [HolderGate.run] at h
    cases hs : HolderGate.step s e with
    | none => rw [hs] at h; cases h
    | some s1 => rw [hs] at h; exact Inv.run es s1 s' (inv.step e hs) h

end Ldk.HolderGate
