/- Helper lemmas about the 5-bit ↔ 8-bit regrouping of Prim/Bech32.lean (C18). -/
import LdkModel.Prim.Bech32
namespace Ldk.Prim.Bech32

theorem ofBits_foldl (bs : List Bool) (a : Nat) :
    bs.foldl (fun a b => 2 * a + b.toNat) a = a * 2 ^ bs.length + ofBits bs := by
  unfold ofBits
  induction bs generalizing a with
  | nil => simp
  | cons x xs ih =>
    simp only [List.foldl_cons, List.length_cons]
    rw [ih (2 * a + x.toNat), ih (2 * 0 + x.toNat)]
    simp only [Nat.mul_zero, Nat.zero_add, Nat.pow_succ]
    rw [Nat.add_mul, Nat.add_assoc]
    congr 1
    rw [Nat.mul_comm 2 a, Nat.mul_assoc, Nat.mul_comm 2]

theorem ofBits_cons (b : Bool) (bs : List Bool) : ofBits (b :: bs) = b.toNat * 2 ^ bs.length + ofBits bs := by
  have := ofBits_foldl bs (2 * 0 + b.toNat)
  simpa [ofBits] using this

theorem ofBits_lt : ∀ bs : List Bool, ofBits bs < 2 ^ bs.length
  | [] => by simp [ofBits]
  | b :: bs => by
    rw [ofBits_cons, List.length_cons, Nat.pow_succ]
    have := ofBits_lt bs
    have : b.toNat ≤ 1 := by cases b <;> simp
    have h2 : b.toNat * 2 ^ bs.length ≤ 1 * 2 ^ bs.length := Nat.mul_le_mul_right _ this
    omega

theorem bitsOf_length : ∀ w x, (bitsOf w x).length = w
  | 0, _ => rfl
  | w + 1, x => by simp [bitsOf, bitsOf_length w x]

theorem ofBits_bitsOf : ∀ w x, ofBits (bitsOf w x) = x % 2 ^ w
  | 0, x => by simp [bitsOf, ofBits, Nat.mod_one]
  | w + 1, x => by
    rw [bitsOf, ofBits_cons, bitsOf_length, ofBits_bitsOf w x, Nat.toNat_testBit, Nat.mod_pow_succ]
    rw [Nat.mul_comm, Nat.add_comm]

theorem bitsOf_mod : ∀ w x, bitsOf w (x % 2 ^ w) = bitsOf w x
  | 0, _ => rfl
  | w + 1, x => by
    rw [bitsOf, bitsOf, Nat.testBit_mod_two_pow]
    simp only [Nat.lt_add_one, decide_true, Bool.true_and]
    congr 1
    rw [← bitsOf_mod w (x % 2 ^ (w + 1)), ← bitsOf_mod w x]
    congr 1
    exact Nat.mod_mod_of_dvd _ (Nat.pow_dvd_pow 2 (Nat.le_succ w))

theorem bitsOf_ofBits : ∀ bs : List Bool, bitsOf bs.length (ofBits bs) = bs
  | [] => rfl
  | b :: bs => by
    have hlt := ofBits_lt bs
    rw [List.length_cons, bitsOf, ofBits_cons, Nat.mul_comm]
    congr 1
    · rw [Nat.testBit_two_pow_mul_add _ hlt]
      cases b <;> simp
    · rw [← bitsOf_mod, Nat.mul_comm, Nat.mul_add_mod_self_right, Nat.mod_eq_of_lt hlt, bitsOf_ofBits bs]

/-- regrouping a bit list whose length is a multiple of the group size and reading the groups back -/
theorem regroup (w : Nat) (hw : w + 1 ≤ 8) : ∀ (fuel : Nat) (l : List Bool), l.length % (w + 1) = 0 →
    l.length ≤ fuel * (w + 1) →
    ((chunks w fuel l).map (fun g => UInt8.ofNat (ofBits g))).flatMap (fun x => bitsOf (w + 1) x.toNat) = l
  | 0, l, _, h => by
    have : l = [] := List.eq_nil_of_length_eq_zero (by omega)
    simp [chunks, this]
  | fuel + 1, l, hm, h => by
    unfold chunks
    by_cases he : l = []
    · simp [he]
    · have hne : l.isEmpty = false := by simpa using he
      simp only [hne, Bool.false_eq_true, ↓reduceIte, List.map_cons, List.flatMap_cons]
      have hpos : 0 < l.length := List.length_pos_iff.mpr he
      have hge : w + 1 ≤ l.length := Nat.le_of_dvd hpos (Nat.dvd_of_mod_eq_zero hm)
      have htl : (l.take (w + 1)).length = w + 1 := by simp; omega
      have hlt := ofBits_lt (l.take (w + 1))
      rw [htl] at hlt
      have h256 : ofBits (l.take (w + 1)) < 256 := by
        have : 2 ^ (w + 1) ≤ 2 ^ 8 := Nat.pow_le_pow_right (by decide) hw
        omega
      rw [UInt8.toNat_ofNat', Nat.mod_eq_of_lt (by simpa using h256)]
      have := bitsOf_ofBits (l.take (w + 1))
      rw [htl] at this
      rw [this]
      have hd : (l.drop (w + 1)).length = l.length - (w + 1) := by simp
      rw [regroup w hw fuel (l.drop (w + 1))
        (by rw [hd, ← Nat.mod_eq_sub_mod hge]; exact hm)
        (by rw [hd]; rw [Nat.succ_mul] at h; omega)]
      exact List.take_append_drop _ _

/-- the groups of a list of whole bytes are the bytes -/
theorem chunks_bytes : ∀ (b : List UInt8) (fuel : Nat), b.length ≤ fuel →
    (chunks 7 fuel (b.flatMap (fun x => bitsOf 8 x.toNat))).map (fun g => UInt8.ofNat (ofBits g)) = b
  | [], fuel, _ => by cases fuel <;> simp [chunks]
  | x :: xs, 0, h => by simp at h
  | x :: xs, fuel + 1, h => by
    unfold chunks
    have hl := bitsOf_length 8 x.toNat
    have hne : (bitsOf 8 x.toNat ++ List.flatMap (fun x => bitsOf 8 x.toNat) xs).isEmpty = false := by
      simp only [List.isEmpty_eq_false_iff_exists_mem]
      exact ⟨x.toNat.testBit 7, by simp [bitsOf]⟩
    simp only [List.flatMap_cons, hne, Bool.false_eq_true, ↓reduceIte, List.map_cons,
      List.take_left' hl, List.drop_left' hl]
    rw [chunks_bytes xs fuel (by simpa using h), ofBits_bitsOf]
    congr 1
    have : x.toNat < 2 ^ 8 := x.toNat_lt
    rw [Nat.mod_eq_of_lt this]
    exact UInt8.ofNat_toNat

theorem flatMap_bits_length (w : Nat) (xs : List UInt8) :
    (xs.flatMap (fun x => bitsOf w x.toNat)).length = w * xs.length := by
  induction xs with
  | nil => simp
  | cons x xs ih => simp [List.flatMap_cons, bitsOf_length, ih, Nat.mul_succ, Nat.add_comm]

theorem padTo5_length (l : List Bool) : (padTo 5 l).length = l.length + (5 - l.length % 5) % 5 := by
  simp [padTo]

/-- bytes → symbols → bytes is the identity (the zero padding of the last symbol is dropped again) -/
theorem fesToBytes_bytesToFes (b : List UInt8) : fesToBytes (bytesToFes b) = b := by
  unfold fesToBytes bytesToFes
  have hL := flatMap_bits_length 8 b
  generalize hbits : b.flatMap (fun x => bitsOf 8 x.toNat) = bits at hL ⊢
  have hpl := padTo5_length bits
  have hreg : ((chunks 4 bits.length (padTo 5 bits)).map (fun g => UInt8.ofNat (ofBits g))).flatMap
      (fun x => bitsOf 5 x.toNat) = padTo 5 bits :=
    regroup 4 (by decide) bits.length (padTo 5 bits) (by rw [hpl]; omega) (by rw [hpl]; omega)
  simp only [hreg]
  have htake : (padTo 5 bits).take ((padTo 5 bits).length / 8 * 8) = bits := by
    have : (padTo 5 bits).length / 8 * 8 = bits.length := by rw [hpl]; omega
    rw [this]
    simp [padTo]
  rw [htake, ← hbits]
  exact chunks_bytes b _ (by rw [hbits, hpl, hL]; omega)

/-- the bytes determine all bits up to the last byte boundary -/
theorem bits_of_fesToBytes (f : List U5) :
    (fesToBytes f).flatMap (fun x => bitsOf 8 x.toNat) =
      (f.flatMap (fun x => bitsOf 5 x.toNat)).take ((f.flatMap (fun x => bitsOf 5 x.toNat)).length / 8 * 8) := by
  unfold fesToBytes
  generalize f.flatMap (fun x => bitsOf 5 x.toNat) = bits
  have hl : (bits.take (bits.length / 8 * 8)).length = bits.length / 8 * 8 := by
    simp; omega
  exact regroup 7 (by decide) bits.length _ (by rw [hl]; omega) (by rw [hl]; omega)

theorem flatMap_bits5_inj : ∀ (d d' : List U5), (∀ x ∈ d, x < 32) → (∀ x ∈ d', x < 32) →
    d.length = d'.length →
    d.flatMap (fun x => bitsOf 5 x.toNat) = d'.flatMap (fun x => bitsOf 5 x.toNat) → d = d'
  | [], [], _, _, _, _ => rfl
  | [], _ :: _, _, _, h, _ => by simp at h
  | _ :: _, [], _, _, h, _ => by simp at h
  | x :: xs, y :: ys, hx, hy, hl, h => by
    simp only [List.flatMap_cons] at h
    obtain ⟨h1, h2⟩ := List.append_inj h (by simp [bitsOf_length])
    have e := congrArg ofBits h1
    rw [ofBits_bitsOf, ofBits_bitsOf] at e
    have a : x.toNat < 32 := hx x List.mem_cons_self
    have b : y.toNat < 32 := hy y List.mem_cons_self
    have : x = y := UInt8.toNat_inj.mp (by omega)
    rw [this, flatMap_bits5_inj xs ys (fun z hz => hx z (List.mem_cons_of_mem _ hz))
      (fun z hz => hy z (List.mem_cons_of_mem _ hz)) (by simpa using hl) h2]

end Ldk.Prim.Bech32
