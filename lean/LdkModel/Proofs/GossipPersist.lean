/- C17 — `NetworkGraph::read(write(g))` on the field-level model (Model/GossipPersist.lean). -/
import LdkModel.Model.GossipPersist
import LdkModel.Proofs.Gossip
import LdkModel.Proofs.GossipRefine
namespace Ldk.Gossip
namespace Persist

theorem readUpd_writeUpd (u : UpdInfo) : readUpd (writeUpd u) = some u := rfl

theorem dir_roundtrip (d : Option UpdInfo) : (d.map writeUpd).bind readUpd = d := by
  cases d <;> rfl

theorem readChan_writeChan (c : ChanInfo) : readChan (writeChan c) = c := by
  simp only [readChan, writeChan, dir_roundtrip]

theorem readNodeAnn_writeNodeAnn (a : NodeAnnInfo) : readNodeAnn (writeNodeAnn a) = a := by
  obtain ⟨ts, pl, rel⟩ := a
  cases rel <;> rfl

/-- folding `insert` over a key-sorted list (from any map whose keys it does not contain … or does) -/
theorem get_foldl_insert_sorted {α : Type} (l : List (Nat × α)) (hs : KeysLt l) : ∀ (acc : SMap α) (k : Nat),
    (l.foldl (fun m e => m.insert e.1 e.2) acc).get k = (match getL l k with | some v => some v | none => acc.get k) := by
  induction l with
  | nil => intro acc k; rfl
  | cons hd t ih =>
    intro acc k
    obtain ⟨k0, v0⟩ := hd
    have hs' := List.pairwise_cons.mp hs
    simp only [List.foldl_cons, getL]
    rw [ih hs'.2]
    by_cases hk : k = k0
    · subst hk
      rw [getL_head_tail_none hs]
      simp
    · simp only [hk, if_false, SMap.get_insert]

theorem fromList_l {α : Type} (m : SMap α) : fromList m.l = m := by
  apply SMap.ext
  intro k
  unfold fromList
  rw [get_foldl_insert_sorted m.l m.sorted]
  show (match getL m.l k with | some v => some v | none => none) = getL m.l k
  cases getL m.l k <;> rfl

theorem chanSet_keys (m : SMap Unit) : chanSet m.keys = m := by
  have h : chanSet m.keys = fromList m.l := by
    unfold chanSet fromList SMap.keys
    rw [List.foldl_map]
  rw [h, fromList_l]

theorem readNode_writeNode (ni : NodeInfo) : readNode (writeNode ni) = ni := by
  obtain ⟨chs, ann⟩ := ni
  simp only [readNode, writeNode, chanSet_keys]
  congr 1
  cases ann with
  | none => rfl
  | some a => simp only [Option.map_some, readNodeAnn_writeNodeAnn]

/-- THE ROUND TRIP: a restart rebuilds exactly the channels and nodes — every modelled field of every entry — and
    NO tombstone; it fails (`InvalidValue`) exactly when a channel endpoint has no node entry. -/
theorem restart_eq (g : Graph) : restart g = if Consistent g then some (stripTombstones g) else none := by
  unfold restart restore persist
  have hv : ¬ MIN_SERIALIZATION_VERSION > SERIALIZATION_VERSION := by decide
  simp only [hv, if_false, List.map_map]
  have hc : (fun e : Nat × ChanInfo => ((e.1, writeChan e.2).1, readChan (e.1, writeChan e.2).2)) = id := by
    funext e; simp only [readChan_writeChan]; rfl
  have hn : (fun e : Nat × NodeInfo => ((e.1, writeNode e.2).1, readNode (e.1, writeNode e.2).2)) = id := by
    funext e; simp only [readNode_writeNode]; rfl
  have hc' : ((fun e : Nat × PChan => (e.1, readChan e.2)) ∘ fun e : Nat × ChanInfo => (e.1, writeChan e.2)) = id := hc
  have hn' : ((fun e : Nat × PNode => (e.1, readNode e.2)) ∘ fun e : Nat × NodeInfo => (e.1, writeNode e.2)) = id := hn
  simp only [hc', hn', List.map_id, fromList_l]
  rfl

end Persist
end Ldk.Gossip
