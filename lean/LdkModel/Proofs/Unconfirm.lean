/- Helper lemmas for the C11 theorems about the `transaction_unconfirmed`-only rewind
   (Model/ChainView.lean `txUnconfirmed` / `cTxUnconfirmed`): reporting every removed transaction, in ANY
   order, has one and the same effect — on the monitor's queue that of `rewindTo` except that the best
   height stays, on the OnchainTxHandler that of `blocks_disconnected(fork point)` except for the claims
   that no handler entry reaches (`unconfirmedClaims`).  Core only. -/
import LdkModel.Proofs.ClaimView
namespace Ldk.ChainView
open Ldk Ldk.ClaimHeights

/-! ### monitor layer -/

theorem txUnconfirmed_best (s : St) (t : Nat) : (txUnconfirmed s t).best = s.best := by
  unfold txUnconfirmed; split <;> rfl

theorem txUnconfirmed_matured (s : St) (t : Nat) : (txUnconfirmed s t).matured = s.matured := by
  unfold txUnconfirmed; split <;> rfl

/-- what the unconfirm-only client must respect, stated on the monitor's queue: only transactions above
    the fork point `h` are reported (`only`), an id is queued at one height (`same`), and every queued
    transaction above `h` is reported (`all`) -/
structure UnconfOk (aw : List Entry) (us : List Nat) (h : Nat) : Prop where
  only : ∀ e ∈ aw, e.txid ∈ us → h < e.height
  same : ∀ e ∈ aw, ∀ e' ∈ aw, e.txid = e'.txid → e.height = e'.height
  all : ∀ e ∈ aw, h < e.height → e.txid ∈ us

theorem filter_filter_le {α : Type} (l : List α) (f : α → Nat) {k h : Nat} (hk : h < k) :
    (l.filter (fun x => decide (f x < k))).filter (fun x => decide (f x ≤ h)) = l.filter (fun x => decide (f x ≤ h)) := by
  rw [List.filter_filter]
  apply List.filter_congr
  intro x _
  by_cases hx : f x ≤ h
  · have : f x < k := by omega
    simp [hx, this]
  · simp [hx]

theorem run_unconfOps_aux (cat : Catalog) (h : Nat) : ∀ (us : List Nat) (s : St), UnconfOk s.awaiting us h →
    run cat s (unconfOps us) = unconfirmedTo s h := by
  intro us
  induction us with
  | nil =>
    intro s ok
    simp only [unconfOps, List.map_nil, run, List.foldl_nil, unconfirmedTo]
    have : s.awaiting.filter (fun e => decide (e.height ≤ h)) = s.awaiting := by
      apply List.filter_eq_self.2
      intro e he
      by_cases hx : e.height ≤ h
      · simp [hx]
      · have := ok.all e he (by omega); cases this
    rw [this]
  | cons t rest ih =>
    intro s ok
    show run cat (step cat s (.txUnconfirmed t)) (unconfOps rest) = _
    simp only [step]
    cases hf : s.awaiting.find? (fun e => e.txid == t) with
    | none =>
      have hs : txUnconfirmed s t = s := by simp [txUnconfirmed, hf]
      rw [hs]
      apply ih s
      refine ⟨fun e he hm => ok.only e he (List.mem_cons_of_mem _ hm), ok.same, fun e he hh => ?_⟩
      rcases List.mem_cons.1 (ok.all e he hh) with h1 | h1
      · have := List.find?_eq_none.1 hf e he
        simp [h1] at this
      · exact h1
    | some e0 =>
      have hmem : e0 ∈ s.awaiting := List.mem_of_find?_eq_some hf
      have htx : e0.txid = t := by have := List.find?_some hf; simpa using this
      have hk : h < e0.height := ok.only e0 hmem (by rw [htx]; exact List.mem_cons_self)
      have hs : txUnconfirmed s t = { s with awaiting := s.awaiting.filter (fun x => decide (x.height < e0.height)) } := by
        simp [txUnconfirmed, hf]
      rw [hs]
      have ok' : UnconfOk (s.awaiting.filter (fun x => decide (x.height < e0.height))) rest h := by
        refine ⟨fun e he hm => ok.only e (List.mem_filter.1 he).1 (List.mem_cons_of_mem _ hm),
          fun e he e' he' => ok.same e (List.mem_filter.1 he).1 e' (List.mem_filter.1 he').1, fun e he hh => ?_⟩
        have he1 := List.mem_filter.1 he
        rcases List.mem_cons.1 (ok.all e he1.1 hh) with h1 | h1
        · have := ok.same e he1.1 e0 hmem (by rw [h1, htx])
          have h2 := he1.2
          simp at h2
          omega
        · exact h1
      rw [ih _ ok']
      simp only [unconfirmedTo]
      rw [filter_filter_le s.awaiting (fun x => x.height) hk]

/-- ORDER INDEPENDENCE, monitor side: any list of `transaction_unconfirmed` calls that names only removed
    transactions and every queued removed transaction leaves exactly `unconfirmedTo s h`. -/
theorem run_unconfOps (cat : Catalog) (s : St) (us : List Nat) (h : Nat) (ok : UnconfOk s.awaiting us h) :
    run cat s (unconfOps us) = unconfirmedTo s h := run_unconfOps_aux cat h us s ok

/-- the contract in terms of the fork chain: in an `Inv`-state of `cF`, a list naming exactly the
    transactions of `cF` above `h` (any order, repetitions allowed) is `UnconfOk` -/
theorem Inv.unconfOk {cat : Catalog} {cF : Chain} {T : Nat → Prop} {m : Nat} {s : St} {us : List Nat} {h : Nat}
    (hwf : WF cF) (hI : Inv cat cF T m s)
    (honly : ∀ t ∈ us, ∃ k, h < k ∧ inChain cF k t)
    (hall : ∀ k t, h < k → inChain cF k t → t ∈ us) : UnconfOk s.awaiting us h where
  only := by
    intro e he hm
    obtain ⟨k, hk, hin⟩ := honly _ hm
    have h1 := (mem_chainEntries.1 ((hI.mem e).1 (Or.inl he)).1).1
    have := hwf _ _ _ h1 hin
    omega
  same := by
    intro e he e' he' ht
    have h1 := (mem_chainEntries.1 ((hI.mem e).1 (Or.inl he)).1).1
    have h2 := (mem_chainEntries.1 ((hI.mem e').1 (Or.inl he')).1).1
    rw [ht] at h1
    exact hwf _ _ _ h1 h2
  all := by
    intro e he hh
    exact hall _ _ hh (mem_chainEntries.1 ((hI.mem e).1 (Or.inl he)).1).1

/-- after the unconfirm-only rewind the state is an `Inv`-state of the truncated chain — with the best
    height (and the high-water mark) still at the fork's tip -/
theorem unconfirmedTo_inv {cat : Catalog} {c : Chain} {T : Nat → Prop} {m : Nat} {s : St} {h : Nat}
    (hh : h ≤ s.best) (hd : m < h + ANTI_REORG_DELAY) (hI : Inv cat c T m s) :
    Inv cat (truncate c h) T m (unconfirmedTo s h) where
  best_le := hI.best_le
  mem := by
    have := (rewindTo_inv hh hd hI).mem
    intro e
    have h1 := this e
    simpa [rewindTo, unconfirmedTo] using h1
  aw := by
    intro e he
    simp only [unconfirmedTo, List.mem_filter] at he
    exact hI.aw e he.1
  mat := hI.mat
  hle := by
    intro e he
    simp only [unconfirmedTo, List.mem_filter, decide_eq_true_eq] at he
    show e.height ≤ s.best
    omega

/-- Fork through the unconfirm-only client, semantic form: an admissible presentation of the fork chain
    `cF`, then `transaction_unconfirmed` for the transactions of `cF` above the fork point in ANY order, then
    an admissible presentation of the final chain's blocks above `h` that starts from the STALE best height
    (the fork's tip) and ends at the final tip, which is not below it. -/
theorem fork_unconf_canon {cat : Catalog} {cF c' : Chain} {b0 h : Nat} {opsF opsFin : List Op} {us : List Nat}
    (hwfF : WF cF) (hwf : WF c')
    (hagree : ∀ k t, k ≤ h → (inChain c' k t ↔ inChain cF k t))
    (haF : Adm cF b0 opsF)
    (hh : h < topHeight b0 opsF) (hd : topHeight b0 opsF < h + ANTI_REORG_DELAY)
    (honly : ∀ t ∈ us, ∃ k, h < k ∧ inChain cF k t)
    (hall : ∀ k t, h < k → inChain cF k t → t ∈ us)
    (haFin : Adm c' (topHeight b0 opsF) opsFin)
    (hcomplete : ∀ k t, inChain c' k t → t ∈ delivered opsFin ∨ (k ≤ h ∧ t ∈ delivered opsF))
    (htop : topHeight (topHeight b0 opsF) opsFin = tip b0 c') :
    Equiv (run cat (init b0) (opsF ++ unconfOps us ++ opsFin)) (canon cat b0 c') := by
  obtain ⟨i1, i2⟩ := run_inv (cat := cat) hwfF opsF (init b0) _ b0 haF (init_inv cat cF b0)
  have e0 : (init b0).best = b0 := rfl
  rw [e0] at i1 i2
  have hm : max b0 (topHeight b0 opsF) = topHeight b0 opsF := Nat.max_eq_right (le_topHeight _ _)
  rw [hm] at i1
  have ok := i1.unconfOk hwfF honly hall
  have i3 := unconfirmedTo_inv (h := h) (by omega) hd i1
  have i4 := i3.rebase hwf hagree
  have hbest : (unconfirmedTo (run cat (init b0) opsF) h).best = topHeight b0 opsF := i2
  obtain ⟨j1, j2⟩ := run_inv (cat := cat) hwf opsFin (unconfirmedTo (run cat (init b0) opsF) h) _ _
    (by rw [hbest]; exact haFin) i4
  rw [hbest, htop] at j1 j2
  have hge : topHeight b0 opsF ≤ tip b0 c' := by rw [← htop]; exact le_topHeight _ _
  rw [Nat.max_eq_right hge] at j1
  rw [run_append, run_append, run_unconfOps cat _ us h ok]
  refine j1.equiv_canon j2 ?_
  intro k t hin
  rcases hcomplete k t hin with h1 | ⟨h1, h2⟩
  · exact Or.inr h1
  · exact Or.inl ⟨Or.inr h2, k, h1, (hagree k t h1).1 hin⟩

/-! ### claims layer -/

/-- the same contract stated on the OnchainTxHandler's own awaiting entries -/
structure HUnconfOk (hAw : List HEntry) (us : List Nat) (h : Nat) : Prop where
  only : ∀ e ∈ hAw, e.txid ∈ us → h < e.height
  same : ∀ e ∈ hAw, ∀ e' ∈ hAw, e.txid = e'.txid → e.height = e'.height
  all : ∀ e ∈ hAw, h < e.height → e.txid ∈ us

/-- `OnchainTxHandler::transaction_unconfirmed` of an entry at height `k`: `blocks_disconnected(k - 1)`
    (all three expressions generated) keeps exactly what is dated / queued below `k` -/
theorem handlerDisconnect_unconf {k : Nat} (hk : 0 < k) (cl : List Claim) (hAw : List HEntry) :
    handlerDisconnect (unconfirmedRewind k) cl hAw =
      (cl.filter (fun c => decide (c.creation < k)), hAw.filter (fun e => decide (e.height < k))) := by
  unfold handlerDisconnect
  congr 1
  · apply List.filter_congr
    intro c _
    simp only [claimDropped, unconfirmedRewind]
    by_cases hc : c.creation < k
    · have : ¬ c.creation > k - 1 := by omega
      simp [hc, this]
    · have : c.creation > k - 1 := by omega
      simp [hc, this]
  · apply List.filter_congr
    intro e _
    simp only [handlerEntryDropped, unconfirmedRewind]
    by_cases hc : e.height < k
    · have : ¬ e.height > k - 1 := by omega
      simp [hc, this]
    · have : e.height > k - 1 := by omega
      simp [hc, this]

theorem unconfirmedClaims_nil_above (cl : List Claim) (hAw : List HEntry) (h : Nat)
    (hno : ∀ e ∈ hAw, e.height ≤ h) : unconfirmedClaims cl hAw h = cl := by
  unfold unconfirmedClaims
  apply List.filter_eq_self.2
  intro c _
  apply List.all_eq_true.2
  intro e he
  simp [hno e he]

theorem unconfirmedClaims_step (cl : List Claim) (hAw : List HEntry) {h k : Nat} (hk : h < k)
    (e0 : HEntry) (he0 : e0 ∈ hAw) (hek : e0.height = k) :
    unconfirmedClaims (cl.filter (fun c => decide (c.creation < k))) (hAw.filter (fun e => decide (e.height < k))) h
      = unconfirmedClaims cl hAw h := by
  unfold unconfirmedClaims
  rw [List.filter_filter]
  apply List.filter_congr
  intro c _
  rw [Bool.eq_iff_iff]
  simp only [Bool.and_eq_true, List.all_eq_true, List.mem_filter, decide_eq_true_eq, Bool.or_eq_true]
  constructor
  · rintro ⟨h1, h2⟩ e he
    by_cases hx : e.height < k
    · exact h1 e ⟨he, hx⟩
    · right; omega
  · intro h1
    refine ⟨fun e he => h1 e he.1, ?_⟩
    rcases h1 e0 he0 with h2 | h2
    · omega
    · omega

theorem cUnconf_aux (cat : Catalog) (K : ClaimCat) (h : Nat) : ∀ (us : List Nat) (s : CSt), HUnconfOk s.hAw us h →
    (crun cat K s (cUnconfOps us)).hAw = s.hAw.filter (fun e => decide (e.height ≤ h)) ∧
    (crun cat K s (cUnconfOps us)).claims = unconfirmedClaims s.claims s.hAw h ∧
    (crun cat K s (cUnconfOps us)).pre = s.pre := by
  intro us
  induction us with
  | nil =>
    intro s ok
    have hno : ∀ e ∈ s.hAw, e.height ≤ h := by
      intro e he
      by_cases hx : e.height ≤ h
      · exact hx
      · have := ok.all e he (by omega); cases this
    refine ⟨?_, ?_, rfl⟩
    · show s.hAw = _
      symm
      apply List.filter_eq_self.2
      intro e he
      simp [hno e he]
    · show s.claims = _
      rw [unconfirmedClaims_nil_above _ _ _ hno]
  | cons t rest ih =>
    intro s ok
    show (crun cat K (cTxUnconfirmed K s t) (cUnconfOps rest)).hAw = _ ∧
      (crun cat K (cTxUnconfirmed K s t) (cUnconfOps rest)).claims = _ ∧
      (crun cat K (cTxUnconfirmed K s t) (cUnconfOps rest)).pre = _
    cases hf : s.hAw.find? (fun e => e.txid == t) with
    | none =>
      have hs : cTxUnconfirmed K s t = { s with st := txUnconfirmed s.st t } := by simp [cTxUnconfirmed, hf]
      rw [hs]
      apply ih { s with st := txUnconfirmed s.st t }
      refine ⟨fun e he hm => ok.only e he (List.mem_cons_of_mem _ hm), ok.same, fun e he hh => ?_⟩
      rcases List.mem_cons.1 (ok.all e he hh) with h1 | h1
      · have := List.find?_eq_none.1 hf e he
        simp [h1] at this
      · exact h1
    | some e0 =>
      have hmem : e0 ∈ s.hAw := List.mem_of_find?_eq_some hf
      have htx : e0.txid = t := by have := List.find?_some hf; simpa using this
      have hk : h < e0.height := ok.only e0 hmem (by rw [htx]; exact List.mem_cons_self)
      have hs : cTxUnconfirmed K s t =
          { st := txUnconfirmed s.st t, claims := s.claims.filter (fun c => decide (c.creation < e0.height)), hAw := s.hAw.filter (fun e => decide (e.height < e0.height)), pre := s.pre, locked := relock K (unconfirmedRewind e0.height) s.hAw s.locked } := by
        simp [cTxUnconfirmed, hf, handlerDisconnect_unconf (show 0 < e0.height by omega)]
      rw [hs]
      have ok' : HUnconfOk (s.hAw.filter (fun e => decide (e.height < e0.height))) rest h := by
        refine ⟨fun e he hm => ok.only e (List.mem_filter.1 he).1 (List.mem_cons_of_mem _ hm),
          fun e he e' he' => ok.same e (List.mem_filter.1 he).1 e' (List.mem_filter.1 he').1, fun e he hh => ?_⟩
        have he1 := List.mem_filter.1 he
        rcases List.mem_cons.1 (ok.all e he1.1 hh) with h1 | h1
        · have := ok.same e he1.1 e0 hmem (by rw [h1, htx])
          have h2 := he1.2
          simp at h2
          omega
        · exact h1
      obtain ⟨j1, j2, j3⟩ := ih { st := txUnconfirmed s.st t, claims := s.claims.filter (fun c => decide (c.creation < e0.height)), hAw := s.hAw.filter (fun e => decide (e.height < e0.height)), pre := s.pre, locked := relock K (unconfirmedRewind e0.height) s.hAw s.locked } ok'
      refine ⟨?_, ?_, j3⟩
      · rw [j1]
        exact filter_filter_le s.hAw (fun x => x.height) hk
      · rw [j2]
        exact unconfirmedClaims_step s.claims s.hAw hk e0 hmem rfl

theorem chainOps_cUnconfOps (us : List Nat) : chainOps (cUnconfOps us) = unconfOps us := by
  induction us with
  | nil => rfl
  | cons t r ih => simp only [cUnconfOps, unconfOps, List.map_cons, chainOps] at ih ⊢; rw [ih]

/-- what survives relative to the Listen client's `blocks_disconnected(h)`: the same claims, plus the
    LINGERING ones — dated above the fork point but below every handler entry above it -/
theorem mem_unconfirmedClaims {cl : List Claim} {hAw : List HEntry} {h : Nat} {c : Claim} :
    c ∈ unconfirmedClaims cl hAw h ↔
      c ∈ (handlerDisconnect h cl hAw).1 ∨
      (c ∈ cl ∧ h < c.creation ∧ ∀ e ∈ hAw, h < e.height → c.creation < e.height) := by
  rw [mem_handlerDisconnect_claims]
  simp only [unconfirmedClaims, List.mem_filter, List.all_eq_true, Bool.or_eq_true, decide_eq_true_eq]
  constructor
  · rintro ⟨h1, h2⟩
    by_cases hc : c.creation ≤ h
    · exact Or.inl ⟨h1, hc⟩
    · refine Or.inr ⟨h1, by omega, fun e he hh => ?_⟩
      rcases h2 e he with h3 | h3
      · omega
      · exact h3
  · rintro (⟨h1, h2⟩ | ⟨h1, h2, h3⟩)
    · refine ⟨h1, fun e he => ?_⟩
      by_cases hx : e.height ≤ h
      · exact Or.inl hx
      · right; omega
    · refine ⟨h1, fun e he => ?_⟩
      by_cases hx : e.height ≤ h
      · exact Or.inl hx
      · exact Or.inr (h3 e he (by omega))

theorem handlerDisconnect_hAw (h : Nat) (cl : List Claim) (hAw : List HEntry) :
    (handlerDisconnect h cl hAw).2 = hAw.filter (fun e => decide (e.height ≤ h)) := by
  unfold handlerDisconnect
  apply List.filter_congr
  intro e _
  simp only [handlerEntryDropped]
  by_cases hx : e.height ≤ h
  · have : ¬ e.height > h := by omega
    simp [hx, this]
  · have : e.height > h := by omega
    simp [hx, this]


end Ldk.ChainView
