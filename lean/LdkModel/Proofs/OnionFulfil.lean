/- C14 — the FULFIL direction of attribution data (hold times on `update_fulfill_htlc`): helper lemmas about the
   GENERATED procedures processFulfillAttributionData / decodeFulfillAttributionData (Generated/OnionFail.lean,
   translated from process_fulfill_attribution_data / decode_fulfill_attribution_data on every run), built on the
   re-indexing lemmas of Proofs/OnionAttr.lean.  Core only (no Mathlib). -/
import LdkModel.Proofs.OnionAttr
namespace Ldk.Onion
open Ldk

/-! ### the generated hop-count / position formulas (an edit of the Rust formulas breaks these `rfl`s) -/

theorem fulfillPosition_eq (n count i : Nat) : fulfillPosition n count i = count - i - 1 := rfl
theorem fulfillAttributableHopCount_eq (n : Nat) : fulfillAttributableHopCount n = min n MAX_HOPS := rfl
theorem fulfillAttributableHopCount_le (n : Nat) : fulfillAttributableHopCount n ≤ MAX_HOPS := Nat.min_le_right _ _

theorem processFulfill_none (C : OnionCrypto) (k : FailKeysX) (h : Nat) :
    processFulfillAttributionData C k none h = (Attr.new.update C k.um [] h).crypt C k.ammagext := rfl
theorem processFulfill_some (C : OnionCrypto) (k : FailKeysX) (a : Attr) (h : Nat) :
    processFulfillAttributionData C k (some a) h = (a.shiftRight.update C k.um [] h).crypt C k.ammagext := rfl

/-! ### the fulfil travelling back -/

/-- the attribution data of an `update_fulfill_htlc` travelling back: the LAST hop of the list (the recipient)
    creates it (`process_fulfill_attribution_data(None, ..)`), every hop before it (nearest the sender first) runs
    `process_fulfill_attribution_data(Some(downstream), ..)` with its own keys and hold time -/
def fulfilChain (C : OnionCrypto) : List RelayHop → Option Attr
  | [] => none
  | kh :: rest => some (processFulfillAttributionData C kh.1 (fulfilChain C rest) kh.2)

theorem fulfilChain_wf (C : OnionCrypto) : ∀ (hops : List RelayHop) (a : Attr), fulfilChain C hops = some a → a.WF
  | [], _, h => by cases h
  | kh :: rest, a, h => by
    simp only [fulfilChain, Option.some.injEq] at h
    subst h
    cases hr : fulfilChain C rest with
    | none => rw [processFulfill_none]; exact Attr.crypt_wf C _ (Attr.update_wf C Attr.new_wf _ _ _)
    | some a' =>
      rw [processFulfill_some]
      exact Attr.crypt_wf C _ (Attr.update_wf C (Attr.shiftRight_wf (fulfilChain_wf C rest a' hr)) _ _ _)

theorem fulfilChain_isSome (C : OnionCrypto) (hops : List RelayHop) (hne : hops ≠ []) : (fulfilChain C hops).isSome := by
  cases hops with
  | nil => exact absurd rfl hne
  | cons _ _ => rfl

/-- the accumulator of the sender's loop is only ever appended to -/
theorem decodeFulfillLoop_acc (C : OnionCrypto) (n count : Nat) :
    ∀ (ks : List FailKeysX) (i : Nat) (A : Attr) (holds : List Nat),
      decodeFulfillLoop C n count i ks A holds = holds ++ decodeFulfillLoop C n count i ks A []
  | [], _, _, _ => by simp [decodeFulfillLoop]
  | k :: rest, i, A, holds => by
    simp only [decodeFulfillLoop]
    split
    · rename_i h hv
      rw [decodeFulfillLoop_acc C n count rest (i + 1) _ (holds ++ [h]),
        decodeFulfillLoop_acc C n count rest (i + 1) _ ([] ++ [h])]
      simp
    · simp

/-- **the sender's loop on honestly produced fulfil attribution data** (generalised over the hop index, the hold
    times collected so far and the sender's view `A`, which only has to AGREE with the honest data on what the next
    verification reads) -/
theorem decodeFulfillLoop_chain (C : OnionCrypto) (n count : Nat) (hcount : count ≤ MAX_HOPS) :
    ∀ (hops : List RelayHop) (i : Nat) (holds0 : List Nat) (A : Attr),
      (∀ kh ∈ hops, kh.2 < 4294967296) →
      (∀ aP, fulfilChain C hops = some aP → i < count → AgreeR (count - i - 1) A aP) →
      decodeFulfillLoop C n count i ((hops.map (fun kh => kh.1)).take (count - i)) A holds0 =
        holds0 ++ (hops.map (fun kh => kh.2)).take (count - i) := by
  intro hops
  induction hops with
  | nil => intro i holds0 A _ _; simp [decodeFulfillLoop]
  | cons kh rest ih =>
    intro i holds0 A hh hA
    have hM : MAX_HOPS = 20 := rfl
    by_cases hi : i < count
    · rw [show count - i = (count - (i + 1)) + 1 by omega]
      simp only [List.map_cons, List.take_succ_cons, decodeFulfillLoop, fulfillPosition_eq]
      -- the honest data of this hop: X.update … |>.crypt, with X = shift_right(downstream) or new
      have hX : ∃ X : Attr, X.WF ∧ fulfilChain C (kh :: rest) = some ((X.update C kh.1.um [] kh.2).crypt C kh.1.ammagext) ∧
          (∀ a', fulfilChain C rest = some a' → X = a'.shiftRight) := by
        cases hr : fulfilChain C rest with
        | none => exact ⟨Attr.new, Attr.new_wf, by simp [fulfilChain, hr, processFulfill_none], fun _ h => by cases h⟩
        | some a' =>
          exact ⟨a'.shiftRight, Attr.shiftRight_wf (fulfilChain_wf C rest a' hr),
            by simp [fulfilChain, hr, processFulfill_some], fun _ h => by cases h; rfl⟩
      obtain ⟨X, wX, hc, hXs⟩ := hX
      have hag := (hA _ hc hi).crypt C kh.1.ammagext
      rw [Attr.crypt_crypt] at hag
      have hv := Attr.verify_congr C hag kh.1.um []
      rw [Attr.verify_update C _ wX _ _ _ _ (by omega) (hh kh (by simp))] at hv
      rw [hv]
      simp only []
      rw [ih (i + 1) (holds0 ++ [kh.2]) _ (fun x hx => hh x (by simp [hx])) (fun a' ha' hi1 => by
        have wa' := fulfilChain_wf C rest a' ha'
        have h1 := hag.shiftLeft (Attr.update_wf C wX _ _ _) (by omega) (by omega)
        have h2 := ((hXs a' ha') ▸ Attr.update_updatedShift C a' wa' kh.1.um [] kh.2).shiftLeft_agree wa'
          (p := count - i - 1 - 1) (by omega)
        rw [show count - (i + 1) - 1 = count - i - 1 - 1 by omega]
        exact h1.trans h2)]
      simp
    · rw [show count - i = 0 by omega]
      simp [decodeFulfillLoop]

/-! ### modified fulfil attribution data: the sender's report is cut at the first affected hop -/

/-- exactly what `verify(&[], .., position)` looks at: the hold-time prefix and the downstream HMACs it feeds to the
    HMAC engine (the MESSAGE), and the stored truncated HMAC it compares with (the TAG) -/
def Attr.verifyInput (a : Attr) (position : Nat) : Bytes × Bytes × Bytes :=
  (a.holdTimes.take ((position + 1) * HOLD_TIME_LEN), a.downstreamHmacs position, a.getHmac (MAX_HOPS - position - 1))

theorem Attr.verify_of_input (C : OnionCrypto) {A a : Attr} {p : Nat} (h : A.verifyInput p = a.verifyInput p)
    (um msg : Bytes) : A.verify C um msg p = a.verify C um msg p := by
  simp only [Attr.verifyInput, Prod.mk.injEq] at h
  obtain ⟨h1, h2, h3⟩ := h
  have h0 : A.holdTimes.take HOLD_TIME_LEN = a.holdTimes.take HOLD_TIME_LEN := by
    have := congrArg (List.take HOLD_TIME_LEN) h1
    rwa [List.take_take, List.take_take, Nat.min_eq_left (Nat.le_mul_of_pos_left HOLD_TIME_LEN (Nat.succ_pos p))] at this
  unfold Attr.verify Attr.hmacFor
  rw [h1, h2, h3, h0]

/-- the received data `A'` is indistinguishable from `A` for the verifications of the first `j` hops of `ks`
    (hop index `i` onwards), and hop `j`'s verification of `A'` FAILS (or there is no hop `j`) -/
def CutAt (C : OnionCrypto) (count : Nat) : Nat → List FailKeysX → Nat → Attr → Attr → Prop
  | _, [], _, _, _ => True
  | 0, k :: _, i, _, A' => (A'.crypt C k.ammagext).verify C k.um [] (count - i - 1) = none
  | j + 1, k :: rest, i, A, A' =>
    (A'.crypt C k.ammagext).verifyInput (count - i - 1) = (A.crypt C k.ammagext).verifyInput (count - i - 1) ∧
    CutAt C count j rest (i + 1) (A.crypt C k.ammagext).shiftLeft (A'.crypt C k.ammagext).shiftLeft

theorem decodeFulfillLoop_cut (C : OnionCrypto) (n count : Nat) :
    ∀ (j : Nat) (ks : List FailKeysX) (i : Nat) (A A' : Attr) (holds0 : List Nat), CutAt C count j ks i A A' →
      decodeFulfillLoop C n count i ks A' holds0 = holds0 ++ (decodeFulfillLoop C n count i ks A []).take j
  | _, [], _, _, _, _, _ => by simp [decodeFulfillLoop]
  | 0, k :: rest, i, A, A', holds0, h => by
    simp only [CutAt] at h
    simp only [decodeFulfillLoop, fulfillPosition_eq, h, List.take_zero, List.append_nil]
  | j + 1, k :: rest, i, A, A', holds0, h => by
    obtain ⟨h1, h2⟩ := h
    have hv := Attr.verify_of_input C h1 k.um []
    simp only [decodeFulfillLoop, fulfillPosition_eq, hv]
    cases hvv : (A.crypt C k.ammagext).verify C k.um [] (count - i - 1) with
    | none => simp
    | some hd =>
      simp only []
      rw [decodeFulfillLoop_cut C n count j rest (i + 1) _ _ (holds0 ++ [hd]) h2,
        decodeFulfillLoop_acc C n count rest (i + 1) _ ([] ++ [hd])]
      simp

/-- the two states the sender holds when it verifies hop `j` (hop index `i` onwards) on `A` resp. `A'` -/
def viewAt (C : OnionCrypto) : Nat → List FailKeysX → Attr → Option (FailKeysX × Attr)
  | _, [], _ => none
  | 0, k :: _, A => some (k, A.crypt C k.ammagext)
  | j + 1, k :: rest, A => viewAt C j rest (A.crypt C k.ammagext).shiftLeft

/-- `A'` is indistinguishable from `A` for the verifications of the first `j` hops -/
def SameInputs (C : OnionCrypto) (count : Nat) : Nat → List FailKeysX → Nat → Attr → Attr → Prop
  | 0, _, _, _, _ => True
  | _ + 1, [], _, _, _ => True
  | j + 1, k :: rest, i, A, A' =>
    (A'.crypt C k.ammagext).verifyInput (count - i - 1) = (A.crypt C k.ammagext).verifyInput (count - i - 1) ∧
    SameInputs C count j rest (i + 1) (A.crypt C k.ammagext).shiftLeft (A'.crypt C k.ammagext).shiftLeft

theorem cutAt_of_sameInputs (C : OnionCrypto) (count : Nat) :
    ∀ (j : Nat) (ks : List FailKeysX) (i : Nat) (A A' : Attr), SameInputs C count j ks i A A' →
      (∀ k V', viewAt C j ks A' = some (k, V') → V'.verify C k.um [] (count - (i + j) - 1) = none) →
      CutAt C count j ks i A A'
  | _, [], _, _, _, _, _ => by simp [CutAt]
  | 0, k :: rest, i, A, A', _, hv => by
    simp only [CutAt]
    exact hv k _ rfl
  | j + 1, k :: rest, i, A, A', hs, hv => by
    obtain ⟨h1, h2⟩ := hs
    refine ⟨h1, cutAt_of_sameInputs C count j rest (i + 1) _ _ h2 (fun k' V' hk => ?_)⟩
    have := hv k' V' (by simpa [viewAt] using hk)
    rwa [show i + (j + 1) = i + 1 + j by omega] at this

/-- when the loop reports more than `j` hold times on `A'`, hop `j` exists and its verification of `A'` passed -/
theorem verify_passed_of_longer (C : OnionCrypto) (n count : Nat) :
    ∀ (j : Nat) (ks : List FailKeysX) (i : Nat) (A' : Attr),
      j < (decodeFulfillLoop C n count i ks A' []).length →
      ∃ k V', viewAt C j ks A' = some (k, V') ∧ (V'.verify C k.um [] (count - (i + j) - 1)).isSome
  | _, [], _, _, h => by simp [decodeFulfillLoop] at h
  | 0, k :: rest, i, A', h => by
    refine ⟨k, _, rfl, ?_⟩
    simp only [decodeFulfillLoop, fulfillPosition_eq] at h
    cases hv : (A'.crypt C k.ammagext).verify C k.um [] (count - i - 1) with
    | none => rw [hv] at h; simp at h
    | some _ => simp
  | j + 1, k :: rest, i, A', h => by
    simp only [decodeFulfillLoop, fulfillPosition_eq] at h
    cases hv : (A'.crypt C k.ammagext).verify C k.um [] (count - i - 1) with
    | none => rw [hv] at h; simp at h
    | some hd =>
      rw [hv] at h
      simp only [] at h
      rw [decodeFulfillLoop_acc] at h
      have := verify_passed_of_longer C n count j rest (i + 1) _ (by simpa using h)
      obtain ⟨k', V', h1, h2⟩ := this
      exact ⟨k', V', by simpa [viewAt] using h1, by rwa [show i + (j + 1) = i + 1 + j by omega]⟩

theorem verify_isSome_iff (C : OnionCrypto) (a : Attr) (um msg : Bytes) (p : Nat) :
    (a.verify C um msg p).isSome ↔ a.hmacFor C um msg p = a.getHmac (MAX_HOPS - p - 1) := by
  unfold Attr.verify
  split <;> simp [*]

theorem verify_none_iff (C : OnionCrypto) (a : Attr) (um msg : Bytes) (p : Nat) :
    a.verify C um msg p = none ↔ a.hmacFor C um msg p ≠ a.getHmac (MAX_HOPS - p - 1) := by
  unfold Attr.verify
  split <;> simp [*]

/-- the HMAC `verify` recomputes, as a function of the verification input -/
theorem hmacFor_eq_input (C : OnionCrypto) (a : Attr) (um msg : Bytes) (p : Nat) :
    a.hmacFor C um msg p = (norm32 (C.mac um (msg ++ (a.verifyInput p).1 ++ (a.verifyInput p).2.1))).take HMAC_LEN := rfl

theorem take_take_viewAt_wf (C : OnionCrypto) :
    ∀ (j : Nat) (ks : List FailKeysX) (A : Attr) (k : FailKeysX) (V : Attr), A.WF → viewAt C j ks A = some (k, V) → V.WF
  | _, [], _, _, _, _, h => by simp [viewAt] at h
  | 0, k :: rest, A, k', V, w, h => by
    simp only [viewAt, Option.some.injEq, Prod.mk.injEq] at h
    rw [← h.2]; exact Attr.crypt_wf C _ w
  | j + 1, k :: rest, A, k', V, w, h =>
    take_take_viewAt_wf C j rest _ k' V (Attr.shiftLeft_wf (Attr.crypt_wf C _ w)) (by simpa [viewAt] using h)

/-! ### toy data for the non-vacuity examples of Props/C14.lean -/
def toyFulfilHops : List RelayHop := [(⟨[1], [2], [9]⟩, 5), (⟨[3, 3], [4], [8, 8]⟩, 7)]
def toyFulfilAttr : Attr := (fulfilChain toy toyFulfilHops).getD Attr.new
/-- the honest data with one byte of hop 0's stored HMAC (slot MAX_HOPS-2 = 18, byte 72) changed in flight -/
def toyFulfilAttrBad : Attr :=
  { toyFulfilAttr with hmacs := setSlice toyFulfilAttr.hmacs 72 [toyFulfilAttr.hmacs.getD 72 0 + 1] }

end Ldk.Onion
