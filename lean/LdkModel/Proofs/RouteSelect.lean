/- C16 (round 6) helper lemmas for Props/C16.lean: the invariant of get_route step (6)'s retain loop, the merge of step (8), and
   the order of sort_first_hop_channels. Core only. -/
import LdkModel.Model.RouteSelect
namespace Ldk.RouteSelectProofs
open Ldk.Router Ldk.RouteSelect

/-- the three cases of one call of the translated retain closure -/
theorem retain_step_cases (left over v : Nat) :
    (left = 1 ∧ overpay_retain_step left over v = (true, left, over)) ∨
    (left ≠ 1 ∧ v ≤ over ∧ overpay_retain_step left over v = (false, left - 1, over - v)) ∨
    (left ≠ 1 ∧ over < v ∧ overpay_retain_step left over v = (true, left, over)) := by
  unfold overpay_retain_step
  by_cases h1 : left = 1
  · left; simp [h1]
  · by_cases h2 : v ≤ over
    · right; left; simp [h1, h2]
    · right; right; simp [h1, h2]; omega

/-- Invariant of the retain loop, generalised over the loop state: `k` paths were kept so far, `left = k + remaining`;
    if nothing was kept yet the paths still to visit are worth more than the overpayment -/
theorem retain_invariant (vs : List Nat) : ∀ (left over k : Nat), left = k + vs.length → (k = 0 → over < vs.sum) →
    (retainOverpaid left over vs).2 ≤ over ∧
    (retainOverpaid left over vs).1.sum + (over - (retainOverpaid left over vs).2) = vs.sum ∧
    (∀ v ∈ (retainOverpaid left over vs).1, (retainOverpaid left over vs).2 < v) ∧
    (k = 0 → (retainOverpaid left over vs).1 ≠ []) := by
  induction vs with
  | nil =>
    intro left over k _ h0
    refine ⟨by simp [retainOverpaid], by simp [retainOverpaid], by simp [retainOverpaid], ?_⟩
    intro hk; have := h0 hk; simp at this
  | cons v vs ih =>
    intro left over k hl h0
    simp only [List.length_cons] at hl
    simp only [List.sum_cons] at h0 ⊢
    rcases retain_step_cases left over v with ⟨h1, e⟩ | ⟨h1, hv, e⟩ | ⟨h1, hv, e⟩
    · -- the last path is always kept: k = 0, vs = []
      have hk : k = 0 := by omega
      have hvs : vs = [] := by
        cases vs with
        | nil => rfl
        | cons _ _ => simp at hl; omega
      subst hvs
      have := h0 hk
      simp only [retainOverpaid, e, List.sum_nil] at this ⊢
      refine ⟨by omega, by simp, ?_, by simp⟩
      intro x hx; simp at hx; subst hx; omega
    · -- dropped: covered by the overpayment
      have := ih (left - 1) (over - v) k (by omega) (by intro hk; have := h0 hk; omega)
      obtain ⟨a, b, c, d⟩ := this
      simp only [retainOverpaid, e]
      simp only [Bool.false_eq_true, if_false]
      exact ⟨by omega, by omega, c, d⟩
    · -- kept: worth more than what is still overpaid
      have := ih left over (k + 1) (by omega) (by intro hk; omega)
      obtain ⟨a, b, c, _⟩ := this
      simp only [retainOverpaid, e]
      simp only [if_true, List.sum_cons]
      refine ⟨a, by omega, ?_, by simp⟩
      intro x hx
      rcases List.mem_cons.mp hx with hx | hx
      · subst hx; omega
      · exact c x hx

theorem merge_sum {κ : Type} [DecidableEq κ] (l : List (κ × Nat)) :
    ((mergeAdjacent l).map Prod.snd).sum = (l.map Prod.snd).sum := by
  induction l using mergeAdjacent.induct with
  | case1 => simp [mergeAdjacent]
  | case2 a => simp [mergeAdjacent]
  | case3 a b rest h ih => simp [mergeAdjacent, h, merged_path_value_msat, ih]; omega
  | case4 a b rest h ih => simp only [mergeAdjacent, h, if_false, List.map_cons, List.sum_cons, ih]

theorem merge_length {κ : Type} [DecidableEq κ] (l : List (κ × Nat)) : (mergeAdjacent l).length ≤ l.length := by
  induction l using mergeAdjacent.induct with
  | case1 => simp [mergeAdjacent]
  | case2 a => simp [mergeAdjacent]
  | case3 a b rest h ih => simp [mergeAdjacent, h]; omega
  | case4 a b rest h ih => simp only [mergeAdjacent, h, if_false, List.length_cons] at ih ⊢; omega

/-- the translated comparator as a statement about the two remaining limits -/
theorem firstHopLe_iff (r a b : Nat) :
    firstHopLe r a b = true ↔ (r ≤ a ∧ r ≤ b ∧ a ≤ b) ∨ (r ≤ a ∧ b < r) ∨ (a < r ∧ b < r ∧ b ≤ a) := by
  unfold firstHopLe first_hop_channel_order
  by_cases h : (decide (b < r) || decide (a < r)) = true
  · rw [if_pos h]
    simp only [Bool.or_eq_true, decide_eq_true_eq] at h
    rw [bne_iff_ne, Ne, Nat.compare_eq_gt]
    omega
  · rw [if_neg h]
    simp only [Bool.or_eq_true, decide_eq_true_eq] at h
    rw [bne_iff_ne, Ne, Nat.compare_eq_gt]
    omega

end Ldk.RouteSelectProofs
