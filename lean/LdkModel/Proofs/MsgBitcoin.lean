import LdkModel.Model.MsgBitcoin
import LdkModel.Proofs.Codec
import LdkModel.Proofs.CodecHzd
import LdkModel.Proofs.MsgCustom
/-! Proofs/MsgBitcoin.lean — round-trip and exactness laws of the bitcoin consensus codec of Model/MsgBitcoin.lean (core only). -/
namespace Ldk.Codec.Btc
open Ldk.Codec Ldk.Codec.Gen

/-! ### L1 little-endian integers -/

theorem leEncode_length (n x : Nat) : (leEncode n x).length = n := by
  simp [leEncode, beEncode_length]

theorem readLE_encode (n x : Nat) (r : Bytes) : readLE n (leEncode n x ++ r) = .ok (x % 256 ^ n, r) := by
  have hl := leEncode_length n x
  simp [readLE, List.length_append, hl, List.take_left' hl, List.drop_left' hl]
  simp [leEncode, beDecode_beEncode]

theorem readLE_ok {n : Nat} {b r : Bytes} {x : Nat} (h : readLE n b = .ok (x, r)) :
    b = leEncode n x ++ r ∧ x < 256 ^ n := by
  unfold readLE at h
  split at h
  · cases h
  · rename_i hlen
    simp only [Except.ok.injEq, Prod.mk.injEq] at h
    obtain ⟨hx, hr⟩ := h
    have htl : (b.take n).reverse.length = n := by simp [List.length_take]; omega
    constructor
    · rw [← hx, ← hr]
      have := beEncode_beDecode (b.take n).reverse
      rw [htl] at this
      rw [leEncode, this, List.reverse_reverse, List.take_append_drop]
    · rw [← hx]; have := beDecode_lt (b.take n).reverse; rwa [htl] at this

theorem readLE_error {n : Nat} {b : Bytes} {e : DecodeError} (h : readLE n b = .error e) :
    e = .ShortRead ∧ b.length < n := by
  unfold readLE at h
  split at h
  · cases h; exact ⟨rfl, by assumption⟩
  · cases h

theorem readLE_ok_length {n : Nat} {b r : Bytes} {x : Nat} (h : readLE n b = .ok (x, r)) : b.length = n + r.length := by
  rw [(readLE_ok h).1, List.length_append, leEncode_length]

/-! ### L2 CompactSize -/

theorem CompactSize.encode_length (n : Nat) : (CompactSize.encode n).length = CompactSize.size n := by
  unfold CompactSize.encode CompactSize.size
  split
  · rfl
  · split
    · simp [leEncode_length]
    · split <;> simp [leEncode_length]

theorem CompactSize.size_pos (n : Nat) : 1 ≤ CompactSize.size n := by
  unfold CompactSize.size; split <;> (try split) <;> (try split) <;> omega

theorem CompactSize.size_le (n : Nat) : CompactSize.size n ≤ 9 := by
  unfold CompactSize.size; split <;> (try split) <;> (try split) <;> omega

theorem CompactSize.encode_ne_nil (n : Nat) : CompactSize.encode n ≠ [] := by
  intro h
  have := CompactSize.encode_length n
  rw [h] at this
  have := CompactSize.size_pos n
  simp at *
  omega

theorem CompactSize.encode_1 {n : Nat} (h : n ≤ 0xFC) : CompactSize.encode n = [UInt8.ofNat n] := by
  unfold CompactSize.encode; rw [if_pos (by unfold btcCs1Max; omega)]

theorem CompactSize.encode_2 {n : Nat} (h1 : ¬ n ≤ 0xFC) (h : n ≤ 0xFFFF) : CompactSize.encode n = 0xFD :: leEncode 2 n := by
  unfold CompactSize.encode; rw [if_neg (by unfold btcCs1Max; omega), if_pos (by unfold btcCs2Max; omega)]

theorem CompactSize.encode_4 {n : Nat} (h1 : ¬ n ≤ 0xFFFF) (h : n ≤ 0xFFFFFFFF) : CompactSize.encode n = 0xFE :: leEncode 4 n := by
  unfold CompactSize.encode
  rw [if_neg (by unfold btcCs1Max; omega), if_neg (by unfold btcCs2Max; omega), if_pos (by unfold btcCs4Max; omega)]

theorem CompactSize.encode_8 {n : Nat} (h1 : ¬ n ≤ 0xFFFFFFFF) : CompactSize.encode n = 0xFF :: leEncode 8 n := by
  unfold CompactSize.encode
  rw [if_neg (by unfold btcCs1Max; omega), if_neg (by unfold btcCs2Max; omega), if_neg (by unfold btcCs4Max; omega)]

theorem compactSize_roundtrip (n : Nat) (h : n < 2 ^ 64) (r : Bytes) :
    CompactSize.decode (CompactSize.encode n ++ r) = .ok (n, r) := by
  by_cases h1 : n ≤ 0xFC
  · have : (UInt8.ofNat n).toNat = n := by rw [UInt8.toNat_ofNat']; omega
    rw [CompactSize.encode_1 h1]
    simp only [List.cons_append, List.nil_append, CompactSize.decode, this]
    rw [if_neg (by omega), if_neg (by omega), if_neg (by omega)]
  · by_cases h2 : n ≤ 0xFFFF
    · have hm : n % 256 ^ 2 = n := Nat.mod_eq_of_lt (by omega)
      rw [CompactSize.encode_2 h1 h2]
      simp only [List.cons_append, CompactSize.decode, readLE_encode, hm]
      rw [if_neg (by decide), if_neg (by decide), if_pos (by decide), if_neg (by unfold btcCs2Min; omega)]
    · by_cases h3 : n ≤ 0xFFFFFFFF
      · have hm : n % 256 ^ 4 = n := Nat.mod_eq_of_lt (by omega)
        rw [CompactSize.encode_4 h2 h3]
        simp only [List.cons_append, CompactSize.decode, readLE_encode, hm]
        rw [if_neg (by decide), if_pos (by decide), if_neg (by unfold btcCs4Min; omega)]
      · have hm : n % 256 ^ 8 = n := Nat.mod_eq_of_lt (by omega)
        rw [CompactSize.encode_8 h3]
        simp only [List.cons_append, CompactSize.decode, readLE_encode, hm]
        rw [if_pos (by decide), if_neg (by unfold btcCs8Min; omega)]

theorem compactSize_exact {b r : Bytes} {n : Nat} (h : CompactSize.decode b = .ok (n, r)) :
    b = CompactSize.encode n ++ r ∧ n < 2 ^ 64 := by
  cases b with
  | nil => cases h
  | cons x rest =>
    have hx := x.toNat_lt
    simp only [CompactSize.decode] at h
    split at h
    · rename_i hb
      split at h
      · cases h
      · rename_i y r' hy
        split at h
        · cases h
        · rename_i hge
          unfold btcCs8Min at hge
          cases h
          obtain ⟨h1, h2⟩ := readLE_ok hy
          have : x = 0xFF := by rw [← UInt8.ofNat_toNat (x := x), hb]; rfl
          subst this
          refine ⟨?_, by omega⟩
          rw [CompactSize.encode_8 (by omega), h1]; rfl
    · split at h
      · rename_i hb' hb
        split at h
        · cases h
        · rename_i y r' hy
          split at h
          · cases h
          · rename_i hge
            unfold btcCs4Min at hge
            cases h
            obtain ⟨h1, h2⟩ := readLE_ok hy
            have : x = 0xFE := by rw [← UInt8.ofNat_toNat (x := x), hb]; rfl
            subst this
            refine ⟨?_, by omega⟩
            rw [CompactSize.encode_4 (by omega) (by omega), h1]; rfl
      · split at h
        · rename_i hb'' hb' hb
          split at h
          · cases h
          · rename_i y r' hy
            split at h
            · cases h
            · rename_i hge
              unfold btcCs2Min at hge
              cases h
              obtain ⟨h1, h2⟩ := readLE_ok hy
              have : x = 0xFD := by rw [← UInt8.ofNat_toNat (x := x), hb]; rfl
              subst this
              refine ⟨?_, by omega⟩
              rw [CompactSize.encode_2 (by omega) (by omega), h1]; rfl
        · cases h
          refine ⟨?_, by omega⟩
          rw [CompactSize.encode_1 (by omega), UInt8.ofNat_toNat]; rfl

theorem compactSize_decode_error {b : Bytes} {e : DecodeError} (h : CompactSize.decode b = .error e) :
    e = .ShortRead ∨ e = .InvalidValue := by
  cases b with
  | nil => cases h; exact .inl rfl
  | cons x rest =>
    simp only [CompactSize.decode] at h
    repeat' split at h
    all_goals first
      | (cases h; exact .inr rfl)
      | (rename_i he; cases h; exact .inl (readLE_error he).1)
      | cases h

theorem compactSize_ok_length {b r : Bytes} {n : Nat} (h : CompactSize.decode b = .ok (n, r)) :
    b.length = CompactSize.size n + r.length := by
  rw [(compactSize_exact h).1, List.length_append, CompactSize.encode_length]

/-! ### L3 var-bytes, vectors -/

theorem varBytes_roundtrip (x : Bytes) (h : x.length < 2 ^ 64) (r : Bytes) :
    decodeVarBytes (encodeVarBytes x ++ r) = .ok (x, r) := by
  simp only [decodeVarBytes, encodeVarBytes, List.append_assoc, compactSize_roundtrip _ h]
  rw [if_neg (by simp)]
  simp

theorem varBytes_exact {b r x : Bytes} (h : decodeVarBytes b = .ok (x, r)) :
    b = encodeVarBytes x ++ r ∧ x.length < 2 ^ 64 := by
  unfold decodeVarBytes at h
  split at h
  · cases h
  · rename_i len r' hc
    split at h
    · cases h
    · rename_i hl
      cases h
      obtain ⟨h1, h2⟩ := compactSize_exact hc
      have hlen : (r'.take len).length = len := by simp [List.length_take]; omega
      refine ⟨?_, by rw [hlen]; exact h2⟩
      simp only [encodeVarBytes, hlen, List.append_assoc, List.take_append_drop]
      exact h1

theorem encodeVarBytes_length (x : Bytes) : (encodeVarBytes x).length = itemSize x := by
  simp [encodeVarBytes, itemSize, CompactSize.encode_length]

theorem decList_roundtrip {α : Type} (dec : Bytes → Res (α × Bytes)) (enc : α → Bytes) (wf : α → Bool)
    (hrt : ∀ x r, wf x = true → dec (enc x ++ r) = .ok (x, r)) :
    ∀ (l : List α) (r : Bytes), l.all wf = true → decList dec l.length (encList' enc l ++ r) = .ok (l, r)
  | [], r, _ => by simp [decList, encList']
  | x :: xs, r, h => by
    simp only [List.all_cons, Bool.and_eq_true] at h
    simp only [List.length_cons, decList, encList', List.append_assoc, hrt x _ h.1, decList_roundtrip dec enc wf hrt xs r h.2]

theorem decList_exact {α : Type} (dec : Bytes → Res (α × Bytes)) (enc : α → Bytes) (wf : α → Bool)
    (hex : ∀ b x r, dec b = .ok (x, r) → b = enc x ++ r ∧ wf x = true) :
    ∀ (n : Nat) (b : Bytes) (l : List α) (r : Bytes), decList dec n b = .ok (l, r) →
      b = encList' enc l ++ r ∧ l.length = n ∧ l.all wf = true
  | 0, b, l, r, h => by
    simp only [decList, Except.ok.injEq, Prod.mk.injEq] at h
    obtain ⟨rfl, rfl⟩ := h
    simp [encList']
  | n + 1, b, l, r, h => by
    simp only [decList] at h
    split at h
    · cases h
    · rename_i x b1 h1
      split at h
      · cases h
      · rename_i xs b2 h2
        cases h
        obtain ⟨e1, w1⟩ := hex _ _ _ h1
        obtain ⟨e2, l2, w2⟩ := decList_exact dec enc wf hex n _ _ _ h2
        refine ⟨?_, by simp [l2], by simp [w1, w2]⟩
        rw [e1, e2]; simp [encList']

theorem vec_roundtrip {α : Type} (dec : Bytes → Res (α × Bytes)) (enc : α → Bytes) (wf : α → Bool)
    (hrt : ∀ x r, wf x = true → dec (enc x ++ r) = .ok (x, r))
    (l : List α) (r : Bytes) (hl : l.length < 2 ^ 64) (h : l.all wf = true) :
    decodeVec dec (encodeVec enc l ++ r) = .ok (l, r) := by
  simp only [decodeVec, encodeVec, List.append_assoc, compactSize_roundtrip _ hl, decList_roundtrip dec enc wf hrt l r h]

theorem vec_exact {α : Type} (dec : Bytes → Res (α × Bytes)) (enc : α → Bytes) (wf : α → Bool)
    (hex : ∀ b x r, dec b = .ok (x, r) → b = enc x ++ r ∧ wf x = true)
    {b r : Bytes} {l : List α} (h : decodeVec dec b = .ok (l, r)) :
    b = encodeVec enc l ++ r ∧ l.length < 2 ^ 64 ∧ l.all wf = true := by
  unfold decodeVec at h
  split at h
  · cases h
  · rename_i n r' hc
    obtain ⟨h1, h2⟩ := compactSize_exact hc
    obtain ⟨e2, l2, w2⟩ := decList_exact dec enc wf hex n _ _ _ h
    refine ⟨?_, by omega, w2⟩
    rw [h1, e2, encodeVec, l2]; simp

/-! ### L4 TxIn, TxOut -/

theorem txIn_roundtrip (i : TxIn) (r : Bytes) (h : i.wf = true) : decodeTxIn (encodeTxIn i ++ r) = .ok (i, r) := by
  simp only [TxIn.wf, Bool.and_eq_true, beq_iff_eq, decide_eq_true_eq] at h
  obtain ⟨⟨⟨h1, h2⟩, h3⟩, h4⟩ := h
  have hv : i.vout % 256 ^ 4 = i.vout := Nat.mod_eq_of_lt (by omega)
  have hs : i.sequence % 256 ^ 4 = i.sequence := Nat.mod_eq_of_lt (by omega)
  unfold decodeTxIn encodeTxIn
  rw [if_neg (by simp [List.length_append, h1])]
  simp only [List.append_assoc, List.drop_left' h1, List.take_left' h1, readLE_encode, hv, hs, varBytes_roundtrip _ h3]

theorem txIn_exact {b r : Bytes} {i : TxIn} (h : decodeTxIn b = .ok (i, r)) : b = encodeTxIn i ++ r ∧ i.wf = true := by
  unfold decodeTxIn at h
  split at h
  · cases h
  · rename_i hlen
    split at h
    · cases h
    · rename_i vout b1 hv
      split at h
      · cases h
      · rename_i script b2 hs
        split at h
        · cases h
        · rename_i sequence b3 hq
          cases h
          obtain ⟨e1, l1⟩ := readLE_ok hv
          obtain ⟨e2, l2⟩ := varBytes_exact hs
          obtain ⟨e3, l3⟩ := readLE_ok hq
          have htl : (b.take 32).length = 32 := by simp [List.length_take]; omega
          constructor
          · simp only [encodeTxIn, List.append_assoc]
            rw [← e3, ← e2, ← e1, List.take_append_drop]
          · simp only [TxIn.wf, Bool.and_eq_true, beq_iff_eq, decide_eq_true_eq]
            exact ⟨⟨⟨htl, by omega⟩, by omega⟩, by omega⟩

theorem txOut_roundtrip (o : TxOut) (r : Bytes) (h : o.wf = true) : decodeTxOut (encodeTxOut o ++ r) = .ok (o, r) := by
  simp only [TxOut.wf, Bool.and_eq_true, decide_eq_true_eq] at h
  have hv : o.value % 256 ^ 8 = o.value := Nat.mod_eq_of_lt (by omega)
  simp only [decodeTxOut, encodeTxOut, List.append_assoc, readLE_encode, hv, varBytes_roundtrip _ h.2]

theorem txOut_exact {b r : Bytes} {o : TxOut} (h : decodeTxOut b = .ok (o, r)) : b = encodeTxOut o ++ r ∧ o.wf = true := by
  unfold decodeTxOut at h
  split at h
  · cases h
  · rename_i value b1 hv
    split at h
    · cases h
    · rename_i script b2 hs
      cases h
      obtain ⟨e1, l1⟩ := readLE_ok hv
      obtain ⟨e2, l2⟩ := varBytes_exact hs
      constructor
      · simp only [encodeTxOut, List.append_assoc]
        rw [← e2, ← e1]
      · simp only [TxOut.wf, Bool.and_eq_true, decide_eq_true_eq]
        omega

/-! ### L5 Witness -/

theorem encList_varBytes_length : ∀ (w : List Bytes), (encList' encodeVarBytes w).length = itemsSize w
  | [] => rfl
  | x :: xs => by
    simp only [encList', itemsSize, List.length_append, encodeVarBytes_length, encList_varBytes_length xs]

theorem witness_size_is_encoded_length (w : List Bytes) : (encodeWitness w).length = witnessSize w := by
  simp only [encodeWitness, witnessSize, List.length_append, CompactSize.encode_length, encList_varBytes_length]

theorem oversized_false {n : Nat} : btcWitnessOversized n = false ↔ n ≤ btcMaxVecSize := by
  simp [btcWitnessOversized]

theorem oversized_true {n : Nat} : btcWitnessOversized n = true ↔ btcMaxVecSize < n := by
  simp [btcWitnessOversized]

theorem witnessItems_roundtrip : ∀ (w : List Bytes) (used : Nat) (r : Bytes), used + itemsSize w ≤ btcMaxVecSize →
    decodeWitnessItems w.length used (encList' encodeVarBytes w ++ r) = .ok (w, r)
  | [], used, r, _ => by simp [decodeWitnessItems, encList']
  | x :: xs, used, r, h => by
    simp only [itemsSize, itemSize] at h
    have hx : x.length < 2 ^ 64 := by unfold btcMaxVecSize at h; omega
    have hov : btcWitnessOversized (used + x.length + CompactSize.size x.length) = false := oversized_false.mpr (by omega)
    have ih := witnessItems_roundtrip xs (used + CompactSize.size x.length + x.length) r (by omega)
    simp only [List.length_cons, decodeWitnessItems, encList', encodeVarBytes, List.append_assoc, compactSize_roundtrip _ hx, hov]
    rw [if_neg (by simp), if_neg (by simp)]
    simp only [List.drop_left, List.take_left, ih]

theorem witnessItems_exact : ∀ (n used : Nat) (b : Bytes) (w : List Bytes) (r : Bytes),
    decodeWitnessItems n used b = .ok (w, r) → used ≤ btcMaxVecSize →
    b = encList' encodeVarBytes w ++ r ∧ w.length = n ∧ used + itemsSize w ≤ btcMaxVecSize
  | 0, used, b, w, r, h, hu => by
    simp only [decodeWitnessItems, Except.ok.injEq, Prod.mk.injEq] at h
    obtain ⟨rfl, rfl⟩ := h
    simp [encList', itemsSize, hu]
  | n + 1, used, b, w, r, h, hu => by
    simp only [decodeWitnessItems] at h
    split at h
    · cases h
    · rename_i sz b1 hc
      split at h
      · cases h
      · rename_i hov
        split at h
        · cases h
        · rename_i hlen
          split at h
          · cases h
          · rename_i xs b2 hrec
            cases h
            have hov' := oversized_false.mp (Bool.not_eq_true _ ▸ hov)
            obtain ⟨e1, _⟩ := compactSize_exact hc
            obtain ⟨e2, l2, s2⟩ := witnessItems_exact n _ _ _ _ hrec (by omega)
            have htl : (b1.take sz).length = sz := by simp [List.length_take]; omega
            refine ⟨?_, by simp [l2], ?_⟩
            · simp only [encList', encodeVarBytes, htl, List.append_assoc]
              rw [← e2, List.take_append_drop]; exact e1
            · simp only [itemsSize, itemSize, htl]; omega

theorem witnessWf_iff {w : List Bytes} : witnessWf w = true ↔ w.length ≤ btcMaxVecSize ∧ itemsSize w ≤ btcMaxVecSize := by
  simp [witnessWf, btcWitnessOversized]

theorem witness_roundtrip (w : List Bytes) (r : Bytes) (h : witnessWf w = true) :
    decodeWitness (encodeWitness w ++ r) = .ok (w, r) := by
  obtain ⟨h1, h2⟩ := witnessWf_iff.mp h
  have hl : w.length < 2 ^ 64 := by unfold btcMaxVecSize at h1; omega
  simp only [decodeWitness, encodeWitness, List.append_assoc, compactSize_roundtrip _ hl, oversized_false.mpr h1]
  exact witnessItems_roundtrip w 0 r (by omega)

theorem witness_exact {b r : Bytes} {w : List Bytes} (h : decodeWitness b = .ok (w, r)) :
    b = encodeWitness w ++ r ∧ witnessWf w = true := by
  unfold decodeWitness at h
  split at h
  · cases h
  · rename_i n r' hc
    split at h
    · cases h
    · rename_i hov
      have hov' := oversized_false.mp (Bool.not_eq_true _ ▸ hov)
      obtain ⟨e1, _⟩ := compactSize_exact hc
      obtain ⟨e2, l2, s2⟩ := witnessItems_exact n 0 _ _ _ h (Nat.zero_le _)
      refine ⟨?_, witnessWf_iff.mpr ⟨by omega, by omega⟩⟩
      rw [encodeWitness, l2, List.append_assoc, ← e2]; exact e1

/-- a declared element count above MAX_VEC_SIZE is InvalidValue whatever follows -/
theorem witness_count_oversized (n : Nat) (hn : n < 2 ^ 64) (h : btcMaxVecSize < n) (rest : Bytes) :
    decodeWitness (CompactSize.encode n ++ rest) = .error .InvalidValue := by
  simp only [decodeWitness, compactSize_roundtrip _ hn, oversized_true.mpr h, if_true]

/-- an element whose declared size pushes the running total above MAX_VEC_SIZE is InvalidValue before its bytes are looked at -/
theorem witness_item_oversized (n sz : Nat) (hn0 : 0 < n) (hn : n ≤ btcMaxVecSize) (hsz : sz < 2 ^ 64)
    (h : btcMaxVecSize < sz + CompactSize.size sz) (rest : Bytes) :
    decodeWitness (CompactSize.encode n ++ (CompactSize.encode sz ++ rest)) = .error .InvalidValue := by
  have hl : n < 2 ^ 64 := by unfold btcMaxVecSize at hn; omega
  obtain ⟨m, rfl⟩ : ∃ m, n = m + 1 := ⟨n - 1, by omega⟩
  simp only [decodeWitness, compactSize_roundtrip _ hl, oversized_false.mpr hn, decodeWitnessItems, compactSize_roundtrip _ hsz]
  rw [if_neg (by simp), if_pos (oversized_true.mpr (by omega))]

/-- the same for any element: the running total `used` counts the bytes of the elements already read -/
theorem witnessItems_oversized (n used sz : Nat) (hsz : sz < 2 ^ 64)
    (h : btcMaxVecSize < used + sz + CompactSize.size sz) (rest : Bytes) :
    decodeWitnessItems (n + 1) used (CompactSize.encode sz ++ rest) = .error .InvalidValue := by
  simp only [decodeWitnessItems, compactSize_roundtrip _ hsz]
  rw [if_pos (oversized_true.mpr h)]

/-! ### L6 Transaction -/

theorem zip_map_fst_snd {α β : Type} : ∀ (l : List (α × β)), (l.map (·.1)).zip (l.map (·.2)) = l
  | [] => rfl
  | (a, b) :: xs => by simp [zip_map_fst_snd xs]

theorem map_fst_zip' {α β : Type} : ∀ (l1 : List α) (l2 : List β), l2.length = l1.length → (l1.zip l2).map (·.1) = l1
  | [], _, _ => by simp
  | _ :: _, [], h => by simp at h
  | a :: as, b :: bs, h => by
    simp only [List.length_cons, Nat.add_right_cancel_iff] at h
    simp [map_fst_zip' as bs h]

theorem map_snd_zip' {α β : Type} : ∀ (l1 : List α) (l2 : List β), l2.length = l1.length → (l1.zip l2).map (·.2) = l2
  | [], l2, h => by
    have : l2 = [] := List.length_eq_zero_iff.mp (by simpa using h)
    simp [this]
  | _ :: _, [], _ => by simp
  | a :: as, b :: bs, h => by
    simp only [List.length_cons, Nat.add_right_cancel_iff] at h
    simp [map_snd_zip' as bs h]

theorem map_pair_nil {α β : Type} : ∀ (l : List (α × List β)), l.all (fun p => p.2.isEmpty) = true →
    (l.map (·.1)).map (fun x => (x, ([] : List β))) = l
  | [], _ => rfl
  | (a, w) :: xs, h => by
    simp only [List.all_cons, Bool.and_eq_true, List.isEmpty_iff] at h
    obtain ⟨h1, h2⟩ := h
    subst h1
    simp only [List.map_cons, map_pair_nil xs h2]

theorem all_zip_of {α β : Type} (p : α → Bool) (q : β → Bool) : ∀ (l1 : List α) (l2 : List β),
    l1.all p = true → l2.all q = true → (l1.zip l2).all (fun x => p x.1 && q x.2) = true
  | [], _, _, _ => by simp
  | _ :: _, [], _, _ => by simp
  | a :: as, b :: bs, h1, h2 => by
    simp only [List.all_cons, Bool.and_eq_true] at h1 h2
    simp only [List.zip_cons_cons, List.all_cons, Bool.and_eq_true]
    exact ⟨⟨h1.1, h2.1⟩, all_zip_of p q as bs h1.2 h2.2⟩

theorem all_map_fst {α β : Type} (p : α → Bool) (q : β → Bool) : ∀ (l : List (α × β)),
    l.all (fun x => p x.1 && q x.2) = true → (l.map (·.1)).all p = true ∧ (l.map (·.2)).all q = true
  | [], _ => by simp
  | x :: xs, h => by
    simp only [List.all_cons, Bool.and_eq_true] at h
    obtain ⟨i1, i2⟩ := all_map_fst p q xs h.2
    simp only [List.map_cons, List.all_cons, Bool.and_eq_true]
    exact ⟨⟨h.1.1, i1⟩, ⟨h.1.2, i2⟩⟩

theorem any_snd_zip {α β : Type} (q : β → Bool) : ∀ (l1 : List α) (l2 : List β), l2.length = l1.length →
    (l1.zip l2).any (fun x => q x.2) = l2.any q
  | [], l2, h => by
    have : l2 = [] := List.length_eq_zero_iff.mp (by simpa using h)
    simp [this]
  | _ :: _, [], h => by simp at h
  | a :: as, b :: bs, h => by
    simp only [List.length_cons, Nat.add_right_cancel_iff] at h
    simp only [List.zip_cons_cons, List.any_cons, any_snd_zip q as bs h]

theorem any_map_snd {α β : Type} (q : β → Bool) : ∀ (l : List (α × β)), (l.map (·.2)).any q = l.any (fun x => q x.2)
  | [] => rfl
  | x :: xs => by simp only [List.map_cons, List.any_cons, any_map_snd q xs]

theorem any_not_all {β : Type} (q : β → Bool) : ∀ (l : List β), l.any (fun x => !q x) = !l.all q
  | [] => rfl
  | x :: xs => by simp only [List.any_cons, List.all_cons, any_not_all q xs, Bool.not_and]

theorem decodeVec_zero {α : Type} (dec : Bytes → Res (α × Bytes)) (rest : Bytes) :
    decodeVec dec (0x00 :: rest) = .ok ([], rest) := by
  have := compactSize_roundtrip 0 (by omega) rest
  rw [CompactSize.encode_1 (by omega)] at this
  have h' : CompactSize.decode (0x00 :: rest) = .ok (0, rest) := this
  simp only [decodeVec, h', decList]

theorem readLE_one_one (rest : Bytes) : readLE 1 (0x01 :: rest) = .ok (1, rest) := by
  have := readLE_encode 1 1 rest
  exact this

theorem Tx.wf_iff {t : Tx} : t.wf = true ↔
    t.version < 2 ^ 32 ∧ t.lockTime < 2 ^ 32 ∧ t.inputs.length < 2 ^ 64 ∧ t.outputs.length < 2 ^ 64 ∧
    t.inputs.all (fun p => p.1.wf && witnessWf p.2) = true ∧ t.outputs.all (·.wf) = true := by
  simp only [Tx.wf, Bool.and_eq_true, decide_eq_true_eq]
  constructor
  · rintro ⟨⟨⟨⟨⟨a, b⟩, c⟩, d⟩, e⟩, f⟩; exact ⟨a, b, c, d, e, f⟩
  · rintro ⟨a, b, c, d, e, f⟩; exact ⟨⟨⟨⟨⟨a, b⟩, c⟩, d⟩, e⟩, f⟩

theorem ins_roundtrip (l : List TxIn) (r : Bytes) (hl : l.length < 2 ^ 64) (h : l.all (·.wf) = true) :
    decodeVec decodeTxIn (encodeVec encodeTxIn l ++ r) = .ok (l, r) :=
  vec_roundtrip decodeTxIn encodeTxIn (·.wf) (fun x r h => txIn_roundtrip x r h) l r hl h

theorem outs_roundtrip (l : List TxOut) (r : Bytes) (hl : l.length < 2 ^ 64) (h : l.all (·.wf) = true) :
    decodeVec decodeTxOut (encodeVec encodeTxOut l ++ r) = .ok (l, r) :=
  vec_roundtrip decodeTxOut encodeTxOut (·.wf) (fun x r h => txOut_roundtrip x r h) l r hl h

theorem wits_roundtrip (l : List (List Bytes)) (r : Bytes) (h : l.all witnessWf = true) :
    decodeWitnesses l.length (encList' encodeWitness l ++ r) = .ok (l, r) :=
  decList_roundtrip decodeWitness encodeWitness witnessWf (fun x r h => witness_roundtrip x r h) l r h

theorem ins_exact {b r : Bytes} {l : List TxIn} (h : decodeVec decodeTxIn b = .ok (l, r)) :
    b = encodeVec encodeTxIn l ++ r ∧ l.length < 2 ^ 64 ∧ l.all (·.wf) = true :=
  vec_exact decodeTxIn encodeTxIn (·.wf) (fun _ _ _ h => txIn_exact h) h

theorem outs_exact {b r : Bytes} {l : List TxOut} (h : decodeVec decodeTxOut b = .ok (l, r)) :
    b = encodeVec encodeTxOut l ++ r ∧ l.length < 2 ^ 64 ∧ l.all (·.wf) = true :=
  vec_exact decodeTxOut encodeTxOut (·.wf) (fun _ _ _ h => txOut_exact h) h

theorem wits_exact {n : Nat} {b r : Bytes} {l : List (List Bytes)} (h : decodeWitnesses n b = .ok (l, r)) :
    b = encList' encodeWitness l ++ r ∧ l.length = n ∧ l.all witnessWf = true :=
  decList_exact decodeWitness encodeWitness witnessWf (fun _ _ _ h => witness_exact h) n _ _ _ h

theorem encodeVec_nonempty_head {α : Type} (enc : α → Bytes) (l : List α) (hl : l.length < 2 ^ 64) (hne : l ≠ []) (rest : Bytes) :
    ∃ x tl, encodeVec enc l ++ rest = x :: tl ∧ x ≠ 0 := by
  have hpos : 0 < l.length := List.length_pos_iff.mpr hne
  unfold encodeVec
  by_cases h1 : l.length ≤ 0xFC
  · rw [CompactSize.encode_1 h1]
    refine ⟨UInt8.ofNat l.length, _, rfl, ?_⟩
    intro h0
    have := congrArg UInt8.toNat h0
    rw [UInt8.toNat_ofNat'] at this
    simp at this
    omega
  · by_cases h2 : l.length ≤ 0xFFFF
    · rw [CompactSize.encode_2 h1 h2]; exact ⟨0xFD, _, rfl, by decide⟩
    · by_cases h3 : l.length ≤ 0xFFFFFFFF
      · rw [CompactSize.encode_4 h2 h3]; exact ⟨0xFE, _, rfl, by decide⟩
      · rw [CompactSize.encode_8 h3]; exact ⟨0xFF, _, rfl, by decide⟩

theorem tx_roundtrip (t : Tx) (h : t.wf = true) (r : Bytes) : decodeTx (encodeTx t ++ r) = .ok (t, r) := by
  obtain ⟨hv, hlk, hil, hol, hin, hout⟩ := Tx.wf_iff.mp h
  obtain ⟨hin1, hin2⟩ := all_map_fst (·.wf) witnessWf t.inputs hin
  have hvm : t.version % 256 ^ 4 = t.version := Nat.mod_eq_of_lt (by omega)
  have hlm : t.lockTime % 256 ^ 4 = t.lockTime := Nat.mod_eq_of_lt (by omega)
  have hil' : (t.inputs.map (·.1)).length < 2 ^ 64 := by rw [List.length_map]; exact hil
  have hlen : (t.inputs.map (·.1)).length = (t.inputs.map (·.2)).length := by rw [List.length_map, List.length_map]
  cases hs : t.usesSegwit
  · have e : encodeTx t ++ r = leEncode 4 t.version ++ (encodeVec encodeTxIn (t.inputs.map (·.1)) ++
        (encodeVec encodeTxOut t.outputs ++ (leEncode 4 t.lockTime ++ r))) := by
      simp only [encodeTx, hs, Bool.false_eq_true, if_false, List.append_assoc]
    simp only [Tx.usesSegwit, Bool.or_eq_false_iff] at hs
    obtain ⟨hs1, hs2⟩ := hs
    rw [any_not_all (fun p : TxIn × List Bytes => p.2.isEmpty)] at hs1
    have hall : t.inputs.all (fun p => p.2.isEmpty) = true := by simpa using hs1
    have hne : (t.inputs.map (·.1)).isEmpty = false := by rw [List.isEmpty_map]; exact hs2
    rw [e]; unfold decodeTx
    simp only [readLE_encode, hvm, ins_roundtrip _ _ hil' hin1, hne, Bool.false_eq_true, if_false,
      outs_roundtrip _ _ hol hout, hlm]
    rw [map_pair_nil _ hall]
  · have e : encodeTx t ++ r = leEncode 4 t.version ++ (0x00 :: 0x01 :: (encodeVec encodeTxIn (t.inputs.map (·.1)) ++
        (encodeVec encodeTxOut t.outputs ++ (encList' encodeWitness (t.inputs.map (·.2)) ++ (leEncode 4 t.lockTime ++ r))))) := by
      simp only [encodeTx, hs, if_true, List.append_assoc, List.cons_append, List.nil_append]
    have hc : (!(t.inputs.map (·.1)).isEmpty && (t.inputs.map (·.2)).all (·.isEmpty)) = false := by
      simp only [Tx.usesSegwit, Bool.or_eq_true] at hs
      rw [List.isEmpty_map]
      rcases hs with h1 | h1
      · rw [any_not_all (fun p : TxIn × List Bytes => p.2.isEmpty)] at h1
        rw [List.all_map]
        have : t.inputs.all (fun p => p.2.isEmpty) = false := by simpa using h1
        have e2 : ((fun x : List Bytes => x.isEmpty) ∘ fun x : TxIn × List Bytes => x.2) = fun p => p.2.isEmpty := rfl
        rw [e2, this, Bool.and_false]
      · rw [h1]; rfl
    rw [e]; unfold decodeTx
    simp only [readLE_encode, hvm, decodeVec_zero, List.isEmpty_nil, if_true, readLE_one_one, ins_roundtrip _ _ hil' hin1,
      outs_roundtrip _ _ hol hout, hlen, wits_roundtrip _ _ hin2, hc, Bool.false_eq_true, if_false, hlm, zip_map_fst_snd]

theorem encodeVec_nil {α : Type} (enc : α → Bytes) : encodeVec enc [] = [0x00] := by
  simp only [encodeVec, List.length_nil, encList', List.append_nil]
  exact CompactSize.encode_1 (by omega)

theorem tx_exact {b r : Bytes} {t : Tx} (h : decodeTx b = .ok (t, r)) : b = encodeTx t ++ r ∧ t.wf = true := by
  unfold decodeTx at h
  split at h
  · cases h
  · rename_i version b1 hv
    obtain ⟨ev, lv⟩ := readLE_ok hv
    split at h
    · cases h
    · rename_i ins0 b2 hi0
      obtain ⟨ei0, li0, wi0⟩ := ins_exact hi0
      split at h
      · rename_i hemp
        have : ins0 = [] := List.isEmpty_iff.mp hemp
        subst this
        split at h
        · cases h
        · rename_i flag b3 hf
          obtain ⟨ef, _⟩ := readLE_ok hf
          split at h
          · rename_i hflag
            subst hflag
            split at h
            · cases h
            · rename_i ins b4 hi
              obtain ⟨ei, li, wi⟩ := ins_exact hi
              split at h
              · cases h
              · rename_i outs b5 ho
                obtain ⟨eo, lo, wo⟩ := outs_exact ho
                split at h
                · cases h
                · rename_i wits b6 hw
                  obtain ⟨ew, lw, ww⟩ := wits_exact hw
                  split at h
                  · cases h
                  · rename_i hchk
                    split at h
                    · cases h
                    · rename_i lock b7 hl
                      obtain ⟨el, ll⟩ := readLE_ok hl
                      cases h
                      have hus : Tx.usesSegwit ⟨version, ins.zip wits, outs, lock⟩ = true := by
                        simp only [Tx.usesSegwit]
                        rw [any_snd_zip (fun w : List Bytes => !w.isEmpty) ins wits lw,
                          any_not_all (fun w : List Bytes => w.isEmpty)]
                        cases ins with
                        | nil => simp
                        | cons a as =>
                          have : wits.all (·.isEmpty) = false := by simpa using hchk
                          rw [this]; rfl
                      constructor
                      · simp only [encodeTx, hus, if_true, map_fst_zip' ins wits lw, map_snd_zip' ins wits lw]
                        rw [ev, ei0, encodeVec_nil, ef, ei, eo, ew, el]
                        simp only [List.append_assoc, List.cons_append, List.nil_append]
                        rfl
                      · refine Tx.wf_iff.mpr ⟨by omega, by omega, ?_, lo, all_zip_of (·.wf) witnessWf ins wits wi ww, wo⟩
                        simp only [List.length_zip]; omega
          · cases h
      · rename_i hemp
        split at h
        · cases h
        · rename_i outs b3 ho
          obtain ⟨eo, lo, wo⟩ := outs_exact ho
          split at h
          · cases h
          · rename_i lock b4 hl
            obtain ⟨el, ll⟩ := readLE_ok hl
            cases h
            have hm : (ins0.map (fun x => (x, ([] : List Bytes)))).map (·.1) = ins0 := by
              rw [List.map_map]; exact List.map_id' _
            have hus : Tx.usesSegwit ⟨version, ins0.map (·, []), outs, lock⟩ = false := by
              simp only [Tx.usesSegwit, Bool.or_eq_false_iff, List.isEmpty_map]
              refine ⟨?_, by simpa using hemp⟩
              rw [List.any_map]
              simp
            constructor
            · simp only [encodeTx, hus, Bool.false_eq_true, if_false, hm]
              rw [ev, ei0, eo, el]
              simp only [List.append_assoc]
            · refine Tx.wf_iff.mpr ⟨by omega, by omega, by simpa using li0, lo, ?_, wo⟩
              rw [List.all_map]
              have : ((fun p : TxIn × List Bytes => p.1.wf && witnessWf p.2) ∘ fun x => (x, [])) = fun x => x.wf := by
                funext x; simp [Function.comp, witnessWf, btcWitnessOversized, itemsSize]
              rw [this]; exact wi0

theorem tx_reencode_stable {b r : Bytes} {t : Tx} (h : decodeTx b = .ok (t, r)) : decodeTx (encodeTx t) = .ok (t, []) := by
  have := tx_roundtrip t (tx_exact h).2 []
  rwa [List.append_nil] at this

/-- what the decoder consumed is exactly the canonical encoding of what it returned -/
theorem tx_consumes_prefix {b r : Bytes} {t : Tx} (h : decodeTx b = .ok (t, r)) :
    b.length = (encodeTx t).length + r.length ∧ b.take (encodeTx t).length = encodeTx t ∧ b.drop (encodeTx t).length = r := by
  obtain ⟨e, _⟩ := tx_exact h
  refine ⟨by rw [e, List.length_append], ?_, ?_⟩
  · rw [e]; exact List.take_left' rfl
  · rw [e]; exact List.drop_left' rfl

theorem encodeTx_length_ge (t : Tx) : 4 ≤ (encodeTx t).length := by
  simp only [encodeTx, List.length_append, leEncode_length]; omega

theorem encodeTx_ne_nil (t : Tx) : encodeTx t ≠ [] := by
  intro h
  have := encodeTx_length_ge t
  rw [h] at this
  simp at this

/-- no strict prefix of a transaction's encoding decodes -/
theorem tx_strict_prefix_rejected (t : Tx) (h : t.wf = true) (p q : Bytes) (he : encodeTx t = p ++ q) (hq : q ≠ []) :
    ∃ e, decodeTx p = .error e := by
  cases hd : decodeTx p with
  | error e => exact ⟨e, rfl⟩
  | ok v =>
    obtain ⟨t', r'⟩ := v
    obtain ⟨e1, w1⟩ := tx_exact hd
    have h1 := tx_roundtrip t' w1 (r' ++ q)
    have h2 := tx_roundtrip t h []
    rw [List.append_nil, he, e1, List.append_assoc, h1] at h2
    simp only [Except.ok.injEq, Prod.mk.injEq, List.append_eq_nil_iff] at h2
    exact absurd h2.2.2 hq

/-- an encoding followed by anything decodes to the same transaction: the decoder never looks past the encoding -/
theorem tx_decode_prefix_free (t t' : Tx) (h : t.wf = true) (r b' r' : Bytes) (hb : encodeTx t ++ r = b') (hd : decodeTx b' = .ok (t', r')) :
    t' = t ∧ r' = r := by
  rw [← hb, tx_roundtrip t h r] at hd
  simp only [Except.ok.injEq, Prod.mk.injEq] at hd
  exact ⟨hd.1.symm, hd.2.symm⟩

/-- which of the two forms the writer emits (and, by `tx_exact`, the only one the reader accepts for that transaction):
    the legacy form iff there is at least one input and every witness is empty -/
theorem tx_legacy_iff (t : Tx) : t.usesSegwit = false ↔ t.inputs ≠ [] ∧ t.inputs.all (fun p => p.2.isEmpty) = true := by
  simp only [Tx.usesSegwit, Bool.or_eq_false_iff]
  rw [any_not_all (fun p : TxIn × List Bytes => p.2.isEmpty)]
  constructor
  · rintro ⟨h1, h2⟩
    refine ⟨fun e => ?_, by simpa using h1⟩
    rw [e] at h2; cases h2
  · rintro ⟨h1, h2⟩
    refine ⟨by rw [h2]; rfl, ?_⟩
    cases hq : t.inputs with
    | nil => exact absurd hq h1
    | cons a as => rfl

theorem encodeTx_legacy (t : Tx) (h : t.usesSegwit = false) :
    encodeTx t = leEncode 4 t.version ++ (encodeVec encodeTxIn (t.inputs.map (·.1)) ++ (encodeVec encodeTxOut t.outputs ++ leEncode 4 t.lockTime)) := by
  simp only [encodeTx, h, Bool.false_eq_true, if_false]

theorem encodeTx_segwit (t : Tx) (h : t.usesSegwit = true) :
    encodeTx t = leEncode 4 t.version ++ (0x00 :: 0x01 :: (encodeVec encodeTxIn (t.inputs.map (·.1)) ++ (encodeVec encodeTxOut t.outputs ++
      (encList' encodeWitness (t.inputs.map (·.2)) ++ leEncode 4 t.lockTime)))) := by
  simp only [encodeTx, h, if_true, List.cons_append, List.nil_append]

/-! ### L7 TxAddInput -/

theorem txAddInputHeader_ok : Custom.hdrOk txAddInputHeader = true := by decide
theorem txAddInputRest_wf : txAddInputRest.wf = true := by decide

theorem prevtx_roundtrip (ptx : Option Tx) (tail : Bytes)
    (h : (match ptx with | some tx => tx.wf && decide ((encodeTx tx).length < 2 ^ 16) | none => true) = true) :
    ∃ len b2, readUint 2 (encodePrevtx ptx ++ tail) = .ok (len, b2) ∧ decodePrevtx len b2 = .ok (ptx, tail) := by
  cases ptx with
  | none =>
    refine ⟨0, tail, ?_, ?_⟩
    · simp only [encodePrevtx, readUint_encode]
    · rfl
  | some tx =>
    simp only [Bool.and_eq_true, decide_eq_true_eq] at h
    obtain ⟨hw, hl⟩ := h
    have hm : (encodeTx tx).length % 256 ^ 2 = (encodeTx tx).length := Nat.mod_eq_of_lt (by omega)
    refine ⟨(encodeTx tx).length, encodeTx tx ++ tail, ?_, ?_⟩
    · simp only [encodePrevtx, List.append_assoc, readUint_encode, hm]
    · have hp : btcPrevtxPresent (encodeTx tx).length = true := by
        have := encodeTx_length_ge tx
        simp only [btcPrevtxPresent, decide_eq_true_eq]; omega
      have ht : (encodeTx tx ++ tail).take (encodeTx tx).length = encodeTx tx := List.take_left' rfl
      have hd : (encodeTx tx ++ tail).drop (encodeTx tx).length = tail := List.drop_left' rfl
      have hrt := tx_roundtrip tx hw []
      rw [List.append_nil] at hrt
      simp only [decodePrevtx, hp, if_true, ht, hrt, hd, List.isEmpty_nil, Bool.true_and, List.length_append,
        Nat.le_add_right, decide_true]

theorem prevtx_exact {len : Nat} {b r : Bytes} {ptx : Option Tx} (h : decodePrevtx len b = .ok (ptx, r)) (hlen : len < 2 ^ 16) :
    beEncode 2 len ++ b = encodePrevtx ptx ++ r ∧
    (match ptx with | some tx => tx.wf && decide ((encodeTx tx).length < 2 ^ 16) | none => true) = true := by
  unfold decodePrevtx at h
  split at h
  · split at h
    · cases h
    · rename_i tx rem hd
      split at h
      · rename_i hc
        cases h
        simp only [Bool.and_eq_true, List.isEmpty_iff, decide_eq_true_eq] at hc
        obtain ⟨hrem, hle⟩ := hc
        subst hrem
        obtain ⟨e, w⟩ := tx_exact hd
        rw [List.append_nil] at e
        have hl : (encodeTx tx).length = len := by
          rw [← e, List.length_take]; omega
        constructor
        · simp only [encodePrevtx, List.append_assoc]
          rw [hl, ← e, List.take_append_drop]
        · simp only [w, Bool.true_and, decide_eq_true_eq]; omega
      · cases h
  · rename_i hp
    cases h
    have : len = 0 := by
      simp only [btcPrevtxPresent, decide_eq_true_eq] at hp; omega
    subst this
    exact ⟨rfl, rfl⟩

theorem TxAddInput.wf_iff {m : TxAddInput} : m.wf = true ↔ validFixed txAddInputHeader m.hdr = true ∧ m.rest.valid txAddInputRest = true ∧
    (match m.prevtx with | some tx => tx.wf && decide ((encodeTx tx).length < 2 ^ 16) | none => true) = true := by
  simp only [TxAddInput.wf, Bool.and_eq_true, and_assoc]
  exact Iff.rfl

theorem tx_add_input_roundtrip (m : TxAddInput) (h : m.wf = true) : decodeTxAddInput (encodeTxAddInput m) = .ok m := by
  obtain ⟨h1, h2, h3⟩ := TxAddInput.wf_iff.mp h
  obtain ⟨len, b2, e1, e2⟩ := prevtx_roundtrip m.prevtx (txAddInputRest.encode m.rest) h3
  simp only [decodeTxAddInput, encodeTxAddInput,
    decodeFixed_roundtrip _ _ _ (Custom.hdrOk_parts txAddInputHeader_ok).1 h1, e1, e2,
    schema_roundtrip _ _ txAddInputRest_wf h2]

/-- DECLARED LENGTH EXACT: the transaction occupies exactly the declared length; what follows it is the tail schema's input -/
theorem tx_add_input_exact {b : Bytes} {m : TxAddInput} (h : decodeTxAddInput b = .ok m) :
    m.wf = true ∧ ∃ tail, b = encodeFixed txAddInputHeader m.hdr ++ (encodePrevtx m.prevtx ++ tail) ∧
      txAddInputRest.decode tail = .ok m.rest := by
  unfold decodeTxAddInput at h
  split at h
  · cases h
  · rename_i hv b1 hh
    split at h
    · cases h
    · rename_i len b2 hl
      split at h
      · cases h
      · rename_i ptx b3 hp
        split at h
        · cases h
        · rename_i rest hr
          cases h
          obtain ⟨el, ll⟩ := readUint_ok hl
          obtain ⟨ep, wp⟩ := prevtx_exact hp (by omega)
          have eh := Custom.decodeFixed_exact _ _ _ _ (Custom.hdrOk_parts txAddInputHeader_ok).2.2 hh
          have vh := decodeFixed_valid_all _ _ _ _ (fun t ht => ((Custom.hdrOk_parts txAddInputHeader_ok).1 t ht).1) hh
          have vr := schema_decode_valid_all _ _ _ txAddInputRest_wf hr
          refine ⟨TxAddInput.wf_iff.mpr ⟨vh, vr, wp⟩, b3, ?_, hr⟩
          rw [eh, el, ep]

theorem tx_add_input_decode_wf {b : Bytes} {m : TxAddInput} (h : decodeTxAddInput b = .ok m) : m.wf = true :=
  (tx_add_input_exact h).1

theorem tx_add_input_reencode_stable {b : Bytes} {m : TxAddInput} (h : decodeTxAddInput b = .ok m) :
    decodeTxAddInput (encodeTxAddInput m) = .ok m :=
  tx_add_input_roundtrip m (tx_add_input_decode_wf h)

/-- SURPLUS: a declared length that exceeds the transaction's encoding is BadLengthDescriptor -/
theorem tx_add_input_surplus (hv : List Val) (hhv : validFixed txAddInputHeader hv = true) (tx : Tx) (hw : tx.wf = true)
    (k : Nat) (hk : 0 < k) (hL : (encodeTx tx).length + k < 2 ^ 16) (tail : Bytes) :
    decodeTxAddInput (encodeFixed txAddInputHeader hv ++ (beEncode 2 ((encodeTx tx).length + k) ++ (encodeTx tx ++ tail))) =
      .error .BadLengthDescriptor := by
  have hm : ((encodeTx tx).length + k) % 256 ^ 2 = (encodeTx tx).length + k := Nat.mod_eq_of_lt (by omega)
  have hp : btcPrevtxPresent ((encodeTx tx).length + k) = true := by
    simp only [btcPrevtxPresent, decide_eq_true_eq]; omega
  have hrt := tx_roundtrip tx hw (tail.take k)
  have hc : ((tail.take k).isEmpty && decide ((encodeTx tx).length + k ≤ (encodeTx tx ++ tail).length)) = false := by
    cases hq : (tail.take k).isEmpty with
    | false => rfl
    | true =>
      have h0 : (tail.take k).length = 0 := by rw [List.isEmpty_iff.mp hq]; rfl
      rw [List.length_take] at h0
      simp only [Bool.true_and, decide_eq_false_iff_not, List.length_append]
      omega
  simp only [decodeTxAddInput, decodeFixed_roundtrip _ _ _ (Custom.hdrOk_parts txAddInputHeader_ok).1 hhv, readUint_encode, hm,
    decodePrevtx, hp, if_true, List.take_length_add_append, hrt, hc, Bool.false_eq_true, if_false]

/-- SHORT: a declared length that ends inside the transaction's encoding is an error -/
theorem tx_add_input_short (hv : List Val) (hhv : validFixed txAddInputHeader hv = true) (tx : Tx) (hw : tx.wf = true)
    (L' : Nat) (h0 : 0 < L') (hlt : L' < (encodeTx tx).length) (h16 : L' < 2 ^ 16) (tail : Bytes) :
    ∃ e, decodeTxAddInput (encodeFixed txAddInputHeader hv ++ (beEncode 2 L' ++ (encodeTx tx ++ tail))) = .error e := by
  have hm : L' % 256 ^ 2 = L' := Nat.mod_eq_of_lt (by omega)
  have hp : btcPrevtxPresent L' = true := by
    simp only [btcPrevtxPresent, decide_eq_true_eq]; omega
  have hq : (encodeTx tx).drop L' ≠ [] := by
    intro hq
    have := congrArg List.length hq
    rw [List.length_drop] at this
    simp at this; omega
  obtain ⟨e, he⟩ := tx_strict_prefix_rejected tx hw ((encodeTx tx).take L') ((encodeTx tx).drop L') (List.take_append_drop _ _).symm hq
  refine ⟨e, ?_⟩
  simp only [decodeTxAddInput, decodeFixed_roundtrip _ _ _ (Custom.hdrOk_parts txAddInputHeader_ok).1 hhv, readUint_encode, hm,
    decodePrevtx, hp, if_true, List.take_append_of_le_length (Nat.le_of_lt hlt), he]

/-! ### L8 TxSignatures -/

theorem txSignaturesHeader_ok : Custom.hdrOk txSignaturesHeader = true := by decide
theorem txSignaturesRest_wf : txSignaturesRest.wf = true := by decide

/-- the witnesses a `Vec<Witness>` element can carry -/
def sizedWf (w : List Bytes) : Bool := witnessWf w && decide (witnessSize w < 2 ^ 16)

theorem sized_witness_roundtrip (w : List Bytes) (r : Bytes) (h : sizedWf w = true) :
    decodeSizedWitness (encodeSizedWitness w ++ r) = .ok (w, r) := by
  simp only [sizedWf, Bool.and_eq_true, decide_eq_true_eq] at h
  have hm : witnessSize w % 256 ^ 2 = witnessSize w := Nat.mod_eq_of_lt (by omega)
  simp only [decodeSizedWitness, encodeSizedWitness, List.append_assoc, readUint_encode, hm, witness_roundtrip _ _ h.1,
    btcWitnessLenBad, ne_eq, not_true_eq_false, decide_false, Bool.false_eq_true, if_false]

theorem sized_witness_exact {b r : Bytes} {w : List Bytes} (h : decodeSizedWitness b = .ok (w, r)) :
    b = encodeSizedWitness w ++ r ∧ sizedWf w = true := by
  unfold decodeSizedWitness at h
  split at h
  · cases h
  · rename_i wlen b1 hl
    split at h
    · cases h
    · rename_i w' b2 hw
      split at h
      · cases h
      · rename_i hbad
        cases h
        obtain ⟨el, ll⟩ := readUint_ok hl
        obtain ⟨ew, ww⟩ := witness_exact hw
        have hs : witnessSize w = wlen := by
          simp only [btcWitnessLenBad, ne_eq, decide_not, Bool.not_eq_true', decide_eq_false_iff_not, Classical.not_not] at hbad
          exact hbad
        constructor
        · rw [encodeSizedWitness, hs, List.append_assoc, ← ew]; exact el
        · simp only [sizedWf, ww, Bool.true_and, decide_eq_true_eq]; omega

/-- a u16 length that is not the witness' size is BadLengthDescriptor (the witness itself is not confined to that length) -/
theorem sized_witness_wrong_length (w : List Bytes) (h : witnessWf w = true) (L : Nat) (hL : L < 2 ^ 16) (hne : L ≠ witnessSize w)
    (r : Bytes) : decodeSizedWitness (beEncode 2 L ++ (encodeWitness w ++ r)) = .error .BadLengthDescriptor := by
  have hm : L % 256 ^ 2 = L := Nat.mod_eq_of_lt (by omega)
  have hb : btcWitnessLenBad (witnessSize w) L = true := by
    simp only [btcWitnessLenBad, decide_eq_true_eq]; exact fun e => hne e.symm
  simp only [decodeSizedWitness, readUint_encode, hm, witness_roundtrip _ _ h, hb, if_true]

theorem witnessVec_roundtrip (ws : List (List Bytes)) (r : Bytes) (hl : ws.length < 2 ^ 16) (h : ws.all sizedWf = true) :
    decodeWitnessVec (encodeWitnessVec ws ++ r) = .ok (ws, r) := by
  have hm : ws.length % 256 ^ 2 = ws.length := Nat.mod_eq_of_lt (by omega)
  simp only [decodeWitnessVec, encodeWitnessVec, List.append_assoc, readUint_encode, hm,
    decList_roundtrip decodeSizedWitness encodeSizedWitness sizedWf (fun x r h => sized_witness_roundtrip x r h) ws r h]

theorem witnessVec_exact {b r : Bytes} {ws : List (List Bytes)} (h : decodeWitnessVec b = .ok (ws, r)) :
    b = encodeWitnessVec ws ++ r ∧ ws.length < 2 ^ 16 ∧ ws.all sizedWf = true := by
  unfold decodeWitnessVec at h
  split at h
  · cases h
  · rename_i n r' hl
    obtain ⟨el, ll⟩ := readUint_ok hl
    obtain ⟨e2, l2, w2⟩ := decList_exact decodeSizedWitness encodeSizedWitness sizedWf (fun _ _ _ h => sized_witness_exact h) n _ _ _ h
    refine ⟨?_, by omega, w2⟩
    rw [encodeWitnessVec, l2, List.append_assoc, ← e2]; exact el

theorem TxSignatures.wf_iff {m : TxSignatures} : m.wf = true ↔ validFixed txSignaturesHeader m.hdr = true ∧
    m.rest.valid txSignaturesRest = true ∧ m.witnesses.length < 2 ^ 16 ∧ m.witnesses.all sizedWf = true := by
  simp only [TxSignatures.wf, Bool.and_eq_true, and_assoc, decide_eq_true_eq]
  exact Iff.rfl

theorem tx_signatures_roundtrip (m : TxSignatures) (h : m.wf = true) : decodeTxSignatures (encodeTxSignatures m) = .ok m := by
  obtain ⟨h1, h2, h3, h4⟩ := TxSignatures.wf_iff.mp h
  simp only [decodeTxSignatures, encodeTxSignatures,
    decodeFixed_roundtrip _ _ _ (Custom.hdrOk_parts txSignaturesHeader_ok).1 h1, witnessVec_roundtrip _ _ h3 h4,
    schema_roundtrip _ _ txSignaturesRest_wf h2]

/-- EXACT: the header and the witnesses are exactly their re-encoding; what follows is the TLV stream's input -/
theorem tx_signatures_exact {b : Bytes} {m : TxSignatures} (h : decodeTxSignatures b = .ok m) :
    m.wf = true ∧ ∃ tail, b = encodeFixed txSignaturesHeader m.hdr ++ (encodeWitnessVec m.witnesses ++ tail) ∧
      txSignaturesRest.decode tail = .ok m.rest := by
  unfold decodeTxSignatures at h
  split at h
  · cases h
  · rename_i hv b1 hh
    split at h
    · cases h
    · rename_i ws b2 hw
      split at h
      · cases h
      · rename_i rest hr
        cases h
        obtain ⟨ew, lw, ww⟩ := witnessVec_exact hw
        have eh := Custom.decodeFixed_exact _ _ _ _ (Custom.hdrOk_parts txSignaturesHeader_ok).2.2 hh
        have vh := decodeFixed_valid_all _ _ _ _ (fun t ht => ((Custom.hdrOk_parts txSignaturesHeader_ok).1 t ht).1) hh
        have vr := schema_decode_valid_all _ _ _ txSignaturesRest_wf hr
        refine ⟨TxSignatures.wf_iff.mpr ⟨vh, vr, lw, ww⟩, b2, ?_, hr⟩
        rw [eh, ew]

theorem tx_signatures_decode_wf {b : Bytes} {m : TxSignatures} (h : decodeTxSignatures b = .ok m) : m.wf = true :=
  (tx_signatures_exact h).1

theorem tx_signatures_reencode_stable {b : Bytes} {m : TxSignatures} (h : decodeTxSignatures b = .ok m) :
    decodeTxSignatures (encodeTxSignatures m) = .ok m :=
  tx_signatures_roundtrip m (tx_signatures_decode_wf h)

/-! ### L9 BlindedMessagePath, RevokeAndACK -/

theorem validPoint_length {t : UInt8} {xs : Bytes} (h : validPoint (t :: xs) = true) : xs.length = 32 := by
  simp only [validPoint, Bool.and_eq_true, beq_iff_eq] at h
  exact h.2.1

theorem intro_roundtrip (i : Bytes) (r : Bytes) (h : introWf i = true) : decodeIntro (i ++ r) = .ok (i, r) := by
  cases i with
  | nil => simp [introWf] at h
  | cons t r0 =>
    simp only [introWf, Bool.or_eq_true, Bool.and_eq_true, beq_iff_eq, Bool.not_eq_true'] at h
    rcases h with ⟨h1, h2⟩ | ⟨⟨h1, h2⟩, h3⟩
    · simp only [List.cons_append, decodeIntro, h1, if_true, List.length_append, h2]
      rw [if_neg (by omega), List.take_left' h2, List.drop_left' h2]
    · have hl := validPoint_length h3
      simp only [List.cons_append, decodeIntro, h2, Bool.false_eq_true, if_false, h1, if_true, List.length_append, hl]
      rw [if_neg (by omega), List.take_left' hl, List.drop_left' hl, if_pos h3]

theorem intro_exact {b r i : Bytes} (h : decodeIntro b = .ok (i, r)) : b = i ++ r ∧ introWf i = true := by
  cases b with
  | nil => cases h
  | cons t r0 =>
    simp only [decodeIntro] at h
    split at h
    · rename_i hs
      split at h
      · cases h
      · rename_i hl
        cases h
        have htl : (r0.take 8).length = 8 := by simp [List.length_take]; omega
        refine ⟨by simp only [List.cons_append, List.take_append_drop], ?_⟩
        simp only [introWf, hs, htl, beq_self_eq_true, Bool.and_self, Bool.true_or]
    · rename_i hs
      split at h
      · rename_i hn
        split at h
        · cases h
        · split at h
          · rename_i hvp
            cases h
            refine ⟨by simp only [List.cons_append, List.take_append_drop], ?_⟩
            simp only [introWf, hn, hs, hvp, Bool.not_false, Bool.and_self, Bool.or_true]
          · cases h
      · cases h

theorem intro_length_pos {i : Bytes} (h : introWf i = true) : 1 ≤ i.length := by
  cases i with
  | nil => simp [introWf] at h
  | cons t r0 => simp

theorem point_wf : Hand.point.wf = true ∧ Hand.point.selfDelim = true := by decide
theorem hopTy_wf : hopTy.wf = true ∧ hopTy.selfDelim = true := by decide

theorem PathEntry.wf_iff {p : PathEntry} : p.wf = true ↔ p.htlcId < 2 ^ 64 ∧ introWf p.intro = true ∧ Hand.point.valid p.blinding = true ∧
    0 < p.hops.len ∧ p.hops.len < 256 ∧ p.hops.allElems hopTy.valid = true := by
  simp only [PathEntry.wf, Bool.and_eq_true, and_assoc, decide_eq_true_eq]

theorem path_entry_roundtrip (p : PathEntry) (r : Bytes) (h : p.wf = true) : decodePathEntry (encodePathEntry p ++ r) = .ok (p, r) := by
  obtain ⟨h1, h2, h3, h4, h5, h6⟩ := PathEntry.wf_iff.mp h
  have hm : p.htlcId % 256 ^ 8 = p.htlcId := Nat.mod_eq_of_lt (by omega)
  have hn : p.hops.len % 256 ^ 1 = p.hops.len := Nat.mod_eq_of_lt (by omega)
  have hnh : btcNoHops p.hops.len = false := by simp only [btcNoHops, decide_eq_false_iff_not]; omega
  have hhops := decN_encList hopTy r (fun x r hx => field_roundtrip hopTy x r hopTy_wf.1 hx (.inl hopTy_wf.2)) p.hops h6
  simp only [decodePathEntry, encodePathEntry, List.append_assoc, readUint_encode, hm, intro_roundtrip _ _ h2,
    field_roundtrip Hand.point _ _ point_wf.1 h3 (.inl point_wf.2), hn, hnh, Bool.false_eq_true, if_false, hhops]

theorem path_entry_decode_spec {b r : Bytes} {p : PathEntry} (h : decodePathEntry b = .ok (p, r)) :
    p.wf = true ∧ b.length = (encodePathEntry p).length + r.length := by
  unfold decodePathEntry at h
  split at h
  · cases h
  · rename_i htlcId b1 hh
    split at h
    · cases h
    · rename_i intro b2 hi
      split at h
      · cases h
      · rename_i bp b3 hb
        split at h
        · cases h
        · rename_i n b4 hn
          split at h
          · cases h
          · rename_i hno
            split at h
            · cases h
            · rename_i hops b5 hd
              cases h
              obtain ⟨e1, l1⟩ := readUint_ok hh
              obtain ⟨e2, w2⟩ := intro_exact hi
              obtain ⟨v3, l3⟩ := field_decode_spec_all Hand.point _ _ _ point_wf.1 hb
              obtain ⟨e4, l4⟩ := readUint_ok hn
              obtain ⟨l5, v5, s5⟩ := encList_len_spec hopTy (fun b v r h => field_decode_spec_all hopTy b v r hopTy_wf.1 h) _ _ _ _ hd
              have hn0 : n ≠ 0 := by simpa [btcNoHops] using hno
              constructor
              · refine PathEntry.wf_iff.mpr ⟨by omega, w2, v3, ?_, ?_, v5⟩
                · show 0 < hops.len; omega
                · show hops.len < 256; omega
              · have hb1 := congrArg List.length e1
                have hb2 := congrArg List.length e2
                have hb4 := congrArg List.length e4
                simp only [List.length_append, beEncode_length] at hb1 hb2 hb4
                simp only [encodePathEntry, List.length_append, beEncode_length]
                omega

theorem encodePathEntry_length_ge (p : PathEntry) : 8 ≤ (encodePathEntry p).length := by
  simp only [encodePathEntry, List.length_append, beEncode_length]; omega

/-- every element consumes at least 8 bytes -/
theorem path_entry_consumes {b r : Bytes} {p : PathEntry} (h : decodePathEntry b = .ok (p, r)) : r.length + 8 ≤ b.length := by
  have := (path_entry_decode_spec h).2
  have := encodePathEntry_length_ge p
  omega

theorem path_entry_reencode_stable {b r : Bytes} {p : PathEntry} (h : decodePathEntry b = .ok (p, r)) (r' : Bytes) :
    decodePathEntry (encodePathEntry p ++ r') = .ok (p, r') :=
  path_entry_roundtrip p r' (path_entry_decode_spec h).1

theorem paths_roundtrip : ∀ (ps : List PathEntry) (k : Nat), (∀ p ∈ ps, p.wf = true) →
    decodePaths ((encodePaths ps).length + 1 + k) (encodePaths ps) = .ok ps
  | [], k, _ => by
    rw [show ((encodePaths []).length + 1 + k) = k + 1 by simp [encodePaths]; omega]
    simp [decodePaths, encodePaths]
  | p :: ps, k, h => by
    have hp := h p List.mem_cons_self
    have hge := encodePathEntry_length_ge p
    have ih := paths_roundtrip ps (k + (encodePathEntry p).length - 1) (fun q hq => h q (List.mem_cons_of_mem _ hq))
    have hf : (encodePaths (p :: ps)).length + 1 + k = ((encodePaths ps).length + 1 + (k + (encodePathEntry p).length - 1)) + 1 := by
      simp only [encodePaths, List.length_append]; omega
    have hne : (encodePathEntry p ++ encodePaths ps).isEmpty = false := by
      cases hq : encodePathEntry p with
      | nil => rw [hq] at hge; simp at hge
      | cons x xs => rfl
    rw [hf]
    simp only [decodePaths, encodePaths, hne, Bool.false_eq_true, if_false, path_entry_roundtrip _ _ hp, ih]

theorem paths_decode_spec : ∀ (fuel : Nat) (b : Bytes) (ps : List PathEntry), decodePaths fuel b = .ok ps →
    (∀ p ∈ ps, p.wf = true) ∧ (encodePaths ps).length = b.length
  | 0, b, ps, h => by cases h
  | fuel + 1, b, ps, h => by
    simp only [decodePaths] at h
    split at h
    · rename_i he
      cases h
      rw [List.isEmpty_iff.mp he]
      exact ⟨fun p hp => (by cases hp), rfl⟩
    · split at h
      · cases h
      · rename_i p r hd
        split at h
        · cases h
        · rename_i ps' hrec
          cases h
          obtain ⟨w1, l1⟩ := path_entry_decode_spec hd
          obtain ⟨w2, l2⟩ := paths_decode_spec fuel r ps' hrec
          constructor
          · intro q hq
            rcases List.mem_cons.mp hq with rfl | hq
            · exact w1
            · exact w2 q hq
          · simp only [encodePaths, List.length_append]; omega

/-- the fuel of `decodePaths` is irrelevant once it exceeds the input length: the out-of-fuel `Io` is unreachable -/
theorem decodePaths_fuel : ∀ (f1 f2 : Nat) (b : Bytes), b.length < f1 → b.length < f2 → decodePaths f1 b = decodePaths f2 b
  | 0, _, b, h, _ => by simp at h
  | _ + 1, 0, b, _, h => by simp at h
  | n + 1, m + 1, b, h1, h2 => by
    rw [decodePaths, decodePaths]
    split
    · rfl
    · split
      · rfl
      · rename_i p r hd
        have := path_entry_consumes hd
        rw [decodePaths_fuel n m r (by omega) (by omega)]

theorem paths_reencode_stable {fuel : Nat} {b : Bytes} {ps : List PathEntry} (h : decodePaths fuel b = .ok ps) (k : Nat) :
    decodePaths ((encodePaths ps).length + 1 + k) (encodePaths ps) = .ok ps :=
  paths_roundtrip ps k (paths_decode_spec fuel b ps h).1

theorem revokeAndAckHeader_ok : Custom.hdrOk revokeAndAckHeader = true := by decide

theorem RevokeAndAck.wf_iff {m : RevokeAndAck} : m.wf = true ↔ validFixed revokeAndAckHeader m.hdr = true ∧
    (∀ p ∈ m.paths, p.wf = true) ∧ (encodePaths m.paths).length < 2 ^ 64 := by
  simp only [RevokeAndAck.wf, Bool.and_eq_true, and_assoc, decide_eq_true_eq, List.all_eq_true]

theorem bigsize_append_isEmpty (n : Nat) (x : Bytes) : (BigSize.encode n ++ x).isEmpty = false := by
  cases h : BigSize.encode n with
  | nil => exact absurd h (BigSize.encode_ne_nil n)
  | cons a as => rfl

theorem raaLoop_nil (fuel : Nat) (last : Option Nat) (cur : Option (List PathEntry)) : raaLoop (fuel + 1) last cur [] = .ok cur := by
  rw [raaLoop]; rfl

/-- the stream the writer emits for a non-empty vector: one record of the declared type -/
theorem raaLoop_single (ps : List PathEntry) (hps : ∀ p ∈ ps, p.wf = true) (hL : (encodePaths ps).length < 2 ^ 64) (fuel : Nat) :
    raaLoop (fuel + 2) none none (BigSize.encode btcRevokeAndAckTlv ++ (BigSize.encode (encodePaths ps).length ++ encodePaths ps)) =
      .ok (some ps) := by
  have hT : btcRevokeAndAckTlv < 2 ^ 64 := by decide
  have hp := paths_roundtrip ps 0 hps
  rw [Nat.add_zero] at hp
  rw [raaLoop]
  simp only [bigsize_append_isEmpty, Bool.false_eq_true, if_false, bigsize_roundtrip' _ hT, lastLt, Bool.not_true,
    bigsize_roundtrip' _ hL, if_true, List.take_length, hp, Nat.le_refl, List.drop_length, raaLoop_nil]

theorem revoke_and_ack_roundtrip (m : RevokeAndAck) (h : m.wf = true) : decodeRevokeAndAck (encodeRevokeAndAck m) = .ok m := by
  obtain ⟨h1, h2, h3⟩ := RevokeAndAck.wf_iff.mp h
  unfold decodeRevokeAndAck encodeRevokeAndAck
  rw [decodeFixed_roundtrip _ _ _ (Custom.hdrOk_parts revokeAndAckHeader_ok).1 h1]
  cases he : m.paths.isEmpty with
  | true =>
    have : m.paths = [] := List.isEmpty_iff.mp he
    simp only [if_true, List.length_nil, raaLoop_nil, Option.getD_none]
    cases m; simp_all
  | false =>
    simp only [Bool.false_eq_true, if_false]
    have hpos : 1 ≤ (BigSize.encode btcRevokeAndAckTlv ++ (BigSize.encode (encodePaths m.paths).length ++ encodePaths m.paths)).length := by
      have := BigSize.encode_ne_nil btcRevokeAndAckTlv
      have := List.length_pos_iff.mpr this
      rw [List.length_append]; omega
    generalize hB : (BigSize.encode btcRevokeAndAckTlv ++ (BigSize.encode (encodePaths m.paths).length ++ encodePaths m.paths)).length = B
      at hpos
    obtain ⟨f, hf⟩ : ∃ f, B + 1 = f + 2 := ⟨B - 1, by omega⟩
    rw [hf, raaLoop_single _ h2 h3]
    rfl

/-- what the loop has collected so far is a vector the writer can emit -/
def curOk (cur : Option (List PathEntry)) : Prop :=
  ∀ ps, cur = some ps → (∀ p ∈ ps, p.wf = true) ∧ (encodePaths ps).length < 2 ^ 64

theorem raaLoop_ok_spec : ∀ (fuel : Nat) (last : Option Nat) (cur : Option (List PathEntry)) (b : Bytes) (res : Option (List PathEntry)),
    raaLoop fuel last cur b = .ok res → curOk cur → curOk res
  | 0, _, _, _, _, h, _ => by cases h
  | fuel + 1, last, cur, b, res, h, hc => by
    rw [raaLoop] at h
    split at h
    · cases h; exact hc
    · split at h
      · cases h
      · rename_i typ b1 hd1
        split at h
        · cases h
        · split at h
          · cases h
          · rename_i len b2 hd2
            split at h
            · split at h
              · cases h
              · rename_i ps hps
                split at h
                · refine raaLoop_ok_spec fuel _ _ _ _ h ?_
                  intro ps' e
                  cases e
                  obtain ⟨w, l⟩ := paths_decode_spec _ _ _ hps
                  have := (bigsize_minimal' hd2).2
                  refine ⟨w, ?_⟩
                  rw [l, List.length_take]; omega
                · cases h
            · split at h
              · cases h
              · split at h
                · cases h
                · exact raaLoop_ok_spec fuel _ _ _ _ h hc

theorem revoke_and_ack_decode_wf {b : Bytes} {m : RevokeAndAck} (h : decodeRevokeAndAck b = .ok m) : m.wf = true := by
  unfold decodeRevokeAndAck at h
  split at h
  · cases h
  · rename_i hv b1 hh
    split at h
    · cases h
    · rename_i cur hl
      cases h
      have vh := decodeFixed_valid_all _ _ _ _ (fun t ht => ((Custom.hdrOk_parts revokeAndAckHeader_ok).1 t ht).1) hh
      have hc := raaLoop_ok_spec _ _ _ _ _ hl (fun ps e => by cases e)
      refine RevokeAndAck.wf_iff.mpr ⟨vh, ?_⟩
      cases cur with
      | none => exact ⟨fun p hp => (by cases hp), by simp [encodePaths]⟩
      | some ps => exact hc ps rfl

theorem revoke_and_ack_reencode_stable {b : Bytes} {m : RevokeAndAck} (h : decodeRevokeAndAck b = .ok m) :
    decodeRevokeAndAck (encodeRevokeAndAck m) = .ok m :=
  revoke_and_ack_roundtrip m (revoke_and_ack_decode_wf h)

/-- an unknown even TLV type is UnknownRequiredFeature -/
theorem raaLoop_unknown_even (fuel : Nat) (last : Option Nat) (cur : Option (List PathEntry)) (typ len : Nat) (rest : Bytes)
    (ht : typ < 2 ^ 64) (hl : len < 2 ^ 64) (hlast : lastLt last typ = true) (hne : typ ≠ btcRevokeAndAckTlv) (hev : typ % 2 = 0) :
    raaLoop (fuel + 1) last cur (BigSize.encode typ ++ (BigSize.encode len ++ rest)) = .error .UnknownRequiredFeature := by
  rw [raaLoop]
  simp only [bigsize_append_isEmpty, Bool.false_eq_true, if_false, bigsize_roundtrip' _ ht, hlast, Bool.not_true,
    bigsize_roundtrip' _ hl, hne, hev, beq_self_eq_true, if_true]

/-- the fuel of `raaLoop` is irrelevant once it exceeds the input length: the out-of-fuel `Io` is unreachable -/
theorem raaLoop_fuel : ∀ (f1 f2 : Nat) (last : Option Nat) (cur : Option (List PathEntry)) (b : Bytes),
    b.length < f1 → b.length < f2 → raaLoop f1 last cur b = raaLoop f2 last cur b
  | 0, _, _, _, b, h, _ => by simp at h
  | _ + 1, 0, _, _, b, _, h => by simp at h
  | n + 1, m + 1, last, cur, b, h1, h2 => by
    rw [raaLoop, raaLoop]
    split
    · rfl
    · split
      · rfl
      · rename_i typ b1 hd1
        split
        · rfl
        · split
          · rfl
          · rename_i len b2 hd2
            have s1 := bigsize_decode_shorter hd1
            have s2 := bigsize_decode_shorter hd2
            have hd : (b2.drop len).length ≤ b2.length := by simp [List.length_drop]
            split
            · split
              · rfl
              · split
                · exact raaLoop_fuel n m _ _ _ (by omega) (by omega)
                · rfl
            · split
              · rfl
              · split
                · rfl
                · exact raaLoop_fuel n m _ _ _ (by omega) (by omega)

theorem decodeRevokeAndAck_fuel (b1 : Bytes) (k : Nat) :
    raaLoop (b1.length + 1 + k) none none b1 = raaLoop (b1.length + 1) none none b1 :=
  raaLoop_fuel _ _ _ _ _ (by omega) (by omega)

end Ldk.Codec.Btc
