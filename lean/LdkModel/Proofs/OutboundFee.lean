/- Helper lemmas for the fee theorems of Props/C03.lean: the ledger invariant along every run. -/
import LdkModel.Model.OutboundFee
namespace Ldk.OutboundFee
open Ldk.OutboundFeeGen

def keysF (ps : List (PartId × Nat)) : List PartId := ps.map (·.1)
def sumF (ps : List (PartId × Nat)) : Nat := (ps.map (·.2)).sum

theorem sumF_append (ps : List (PartId × Nat)) (p : PartId) (f : Nat) : sumF (ps ++ [(p, f)]) = sumF ps + f := by
  simp [sumF]

theorem any_false_iff (ps : List (PartId × Nat)) (p : PartId) : ps.any (·.1 == p) = false ↔ p ∉ keysF ps := by
  induction ps with
  | nil => simp [keysF]
  | cons e t ih =>
    simp only [List.any_cons, Bool.or_eq_false_iff, ih, keysF, List.map_cons, List.mem_cons, not_or]
    constructor
    · rintro ⟨h1, h2⟩; exact ⟨fun h => by simp [h] at h1, h2⟩
    · rintro ⟨h1, h2⟩; exact ⟨by simpa using fun h => h1 h.symm, h2⟩

theorem lookup_none_filter (ps : List (PartId × Nat)) (p : PartId) (h : p ∉ keysF ps) : ps.filter (·.1 != p) = ps := by
  induction ps with
  | nil => rfl
  | cons e t ih =>
    simp only [keysF, List.map_cons, List.mem_cons, not_or] at h
    have h1 : (e.1 != p) = true := by simpa using fun hh => h.1 hh.symm
    simp [List.filter, h1, ih h.2]

/-- removing the (unique) entry of `p` lowers the sum by its fee -/
theorem sumF_filter (ps : List (PartId × Nat)) (p : PartId) (f : Nat) (hn : (keysF ps).Nodup)
    (hl : ps.lookup p = some f) : sumF (ps.filter (·.1 != p)) + f = sumF ps := by
  induction ps with
  | nil => simp [List.lookup] at hl
  | cons e t ih =>
    obtain ⟨a, g⟩ := e
    simp only [keysF, List.map_cons, List.nodup_cons] at hn
    by_cases hpa : p = a
    · subst hpa
      have hg : g = f := by simpa [List.lookup] using hl
      subst hg
      have : ((p, g).1 != p) = false := by simp
      simp only [List.filter, this]
      rw [lookup_none_filter t p hn.1]
      simp [sumF]; omega
    · have hb : (p == a) = false := by simpa using hpa
      have hl' : t.lookup p = some f := by simpa [List.lookup, hb] using hl
      have h1 : ((a, g).1 != p) = true := by simpa using fun hh => hpa hh.symm
      simp only [List.filter, h1]
      have := ih hn.2 hl'
      simp only [sumF, List.map_cons, List.sum_cons] at this ⊢
      omega

theorem keysF_filter_nodup (ps : List (PartId × Nat)) (p : PartId) (hn : (keysF ps).Nodup) :
    (keysF (ps.filter (·.1 != p))).Nodup := by
  unfold keysF at *
  exact (List.Sublist.map _ List.filter_sublist).nodup hn

/-- the invariant: one entry per session priv; `pending_fee_msat` is the sum of the held parts' fees; with a budget
    `m`, fee in flight + budget left = `m` -/
structure Inv (m : Option Nat) (l : Ledger) : Prop where
  nodup : (keysF l.parts).Nodup
  fee : l.fee = some (sumF l.parts)
  rem : match m with
    | none => l.rem = none
    | some mm => ∃ r, l.rem = some r ∧ sumF l.parts + r = mm ∧ mm ≤ U64_MAX

theorem inv_new (m : Option Nat) (hm : ∀ mm, m = some mm → mm ≤ U64_MAX) : Inv m (Ledger.new m) := by
  refine ⟨by simp [Ledger.new, keysF], by simp [Ledger.new, newFee, sumF], ?_⟩
  cases m with
  | none => simp [Ledger.new, newRemaining]
  | some mm => exact ⟨mm, by simp [Ledger.new, newRemaining], by simp [Ledger.new, sumF], hm mm rfl⟩

theorem inv_insert (m : Option Nat) (l : Ledger) (p : PartId) (f : Nat) (h : Inv m l)
    (hfit : l.has p = false → ∀ r, l.rem = some r → f ≤ r) : Inv m (l.insert p f) := by
  unfold Ledger.insert
  cases hh : l.has p
  · have hp : p ∉ keysF l.parts := (any_false_iff l.parts p).1 (by simpa [Ledger.has] using hh)
    simp only [Bool.false_eq_true, if_false]
    refine ⟨?_, ?_, ?_⟩
    · simp only [keysF, List.map_append, List.map_cons, List.map_nil]
      exact List.nodup_append.2 ⟨h.nodup, by simp, by
        intro a ha b hb; simp at hb; subst hb; intro hab; subst hab; exact hp ha⟩
    · simp [insertFee, h.fee, sumF_append]
    · cases m with
      | none => have := h.rem; simp only at this; simp [insertRemaining, this]
      | some mm =>
        obtain ⟨r, hr, hs, hmm⟩ := h.rem
        have hfr := hfit hh r hr
        exact ⟨r - f, by simp [insertRemaining, hr], by rw [sumF_append]; omega, hmm⟩
  · simpa using h

theorem inv_remove (m : Option Nat) (l : Ledger) (p : PartId) (h : Inv m l) : Inv m (l.remove p) := by
  unfold Ledger.remove
  cases hl : l.parts.lookup p with
  | none => simpa using h
  | some f =>
    have hs := sumF_filter l.parts p f h.nodup hl
    dsimp only
    refine ⟨keysF_filter_nodup _ _ h.nodup, ?_, ?_⟩
    · simp only [removeFee, h.fee, Option.map_some]; congr 1; omega
    · cases m with
      | none => have := h.rem; simp only at this; simp [removeRemaining, this]
      | some mm =>
        obtain ⟨r, hr, hsum, hmm⟩ := h.rem
        refine ⟨r + f, ?_, by dsimp only; omega, hmm⟩
        simp only [removeRemaining, hr, Option.map_some]
        congr 1
        exact Nat.min_eq_left (by omega)

theorem inv_run (m : Option Nat) (ops : List FOp) (l : Ledger) (h : Inv m l) (hf : Fits l ops) : Inv m (l.run ops) := by
  induction ops generalizing l with
  | nil => simpa [Ledger.run] using h
  | cons op rest ih =>
    cases op with
    | ins p f =>
      simp only [Fits] at hf
      have := ih (l.insert p f) (inv_insert m l p f h hf.1) hf.2
      simpa [Ledger.run, Ledger.step] using this
    | rem p =>
      simp only [Fits] at hf
      have := ih (l.remove p) (inv_remove m l p h) hf
      simpa [Ledger.run, Ledger.step] using this

/-- without the router contract the sum invariant for `pending_fee_msat` still holds (only the budget side needs it) -/
structure InvFee (l : Ledger) : Prop where
  nodup : (keysF l.parts).Nodup
  fee : l.fee = some (sumF l.parts)

theorem invFee_run (ops : List FOp) (l : Ledger) (h : InvFee l) : InvFee (l.run ops) := by
  induction ops generalizing l with
  | nil => simpa [Ledger.run] using h
  | cons op rest ih =>
    have hstep : InvFee (l.step op) := by
      cases op with
      | ins p f =>
        simp only [Ledger.step, Ledger.insert]
        cases hh : l.has p
        · have hp : p ∉ keysF l.parts := (any_false_iff l.parts p).1 (by simpa [Ledger.has] using hh)
          simp only [Bool.false_eq_true, if_false]
          refine ⟨?_, by simp [insertFee, h.fee, sumF_append]⟩
          simp only [keysF, List.map_append, List.map_cons, List.map_nil]
          exact List.nodup_append.2 ⟨h.nodup, by simp, by
            intro a ha b hb; simp at hb; subst hb; intro hab; subst hab; exact hp ha⟩
        · simpa using h
      | rem p =>
        simp only [Ledger.step, Ledger.remove]
        cases hl : l.parts.lookup p with
        | none => simpa using h
        | some f =>
          have hs := sumF_filter l.parts p f h.nodup hl
          dsimp only
          refine ⟨keysF_filter_nodup _ _ h.nodup, ?_⟩
          simp only [removeFee, h.fee, Option.map_some]; congr 1; omega
    have := ih (l.step op) hstep
    simpa [Ledger.run] using this

end Ldk.OutboundFee
