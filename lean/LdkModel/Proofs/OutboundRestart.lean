/- C03 — restarts from a STALE manager: the `Good` invariant of Proofs/OutboundPay.lean extended to start-ups in which the
   monitors re-insert ANY part (claimed, failed, pending — `insert_from_monitor_on_startup` runs for every HTLC the
   monitors still report) into ANY earlier snapshot of the map, and to the send itself. -/
import LdkModel.Proofs.OutboundPay
namespace Ldk.OutboundPay
open Ldk.OutboundSendGen

variable {amt : Amt}

/-- an entry the start-up code is (possibly) still rebuilding from the monitors: `Retryable` -/
def Rebuilding (st : PState) : Prop := ∃ ps pe to, st = .retryable ps pe to

/-- `Good`, or still being rebuilt -/
def Okish (truth : PartId → Bool) (st : PState) : Prop := Good truth st ∨ Rebuilding st

/-- What may happen in state `s`, as far as payment `id` is concerned.
    * `restore` (a restart from the last written manager — ANY earlier point of the run) and
      `insert_from_monitor_on_startup` for ANY part: always.
    * The send that creates the payment: when it contains a part that will be claimed (`truth`).
    * Everything else — resolutions live or replayed, abandon, retries, sweeps, ticks, persist — only once the entry is
      `Good` (gone, Fulfilled, or holding a part that `truth` marks claimed), and then as in `OkFor` (resolutions agree with
      `truth`, no second send).  Ops that do not touch the payment (other ids, `handle`) are always fine.
    So the ONLY thing assumed about a restart is: before anything but further inserts happens to the rebuilt entry, it is
    Good — i.e. the restored snapshot already was, or the monitors still report a claimed part. -/
def OkAt (truth : PartId → Bool) (id : PayId) (s : State) : Op → Prop
  | .restore => True
  | .insert _ _ => True
  | .send i ps => i ≠ id ∨ (Good truth (get s.cur id) ∧ ∃ p ∈ ps, truth p = true)
  | op => (proj id s op = none ∧ op ≠ .persist) ∨ (Good truth (get s.cur id) ∧ OkFor truth id op)

/-- `OkAt` along a run -/
def AllOk (truth : PartId → Bool) (id : PayId) : State → List Op → Prop
  | _, [] => True
  | s, op :: rest => OkAt truth id s op ∧ AllOk truth id (step s op).1 rest

theorem insert_okish (truth : PartId → Bool) (id : PayId) (st : PState) (p : PartId) (h : Okish truth st) :
    Okish truth (stepP amt id st (.insert p)).1 ∧ (stepP amt id st (.insert p)).2.evs = [] := by
  cases st with
  | absent => simp [stepP_eq_H, stepPH, Okish, Rebuilding]
  | preHtlc t => simp [stepP_eq_H, stepPH, Okish, Rebuilding]
  | retryable ps pe to =>
    simp only [stepP_eq_H, stepPH]
    split <;> simp [Okish, Rebuilding]
  | fulfilled ps t => simpa [stepP_eq_H, stepPH] using h
  | abandoned ps r => simpa [stepP_eq_H, stepPH] using h

theorem send_good (truth : PartId → Bool) (id : PayId) (st : PState) (ps : List PartId) (h : Good truth st)
    (hp : ∃ p ∈ ps, truth p = true) :
    Good truth (stepP amt id st (.send ps)).1 ∧ (stepP amt id st (.send ps)).2.evs = [] := by
  cases st with
  | absent =>
    simp only [stepP_eq_H, stepPH]
    split
    · obtain ⟨p, hp1, hp2⟩ := hp
      exact ⟨Or.inr (Or.inr ⟨p, by simpa [PState.parts] using hp1, hp2⟩), rfl⟩
    · exact ⟨Or.inl rfl, rfl⟩
  | preHtlc t => exact ⟨by simpa [stepP_eq_H, stepPH] using h, by simp [stepP_eq_H, stepPH]⟩
  | retryable ps' pe to => exact ⟨by simpa [stepP_eq_H, stepPH] using h, by simp [stepP_eq_H, stepPH]⟩
  | fulfilled ps' t => exact ⟨by simpa [stepP_eq_H, stepPH] using h, by simp [stepP_eq_H, stepPH]⟩
  | abandoned ps' r => exact ⟨by simpa [stepP_eq_H, stepPH] using h, by simp [stepP_eq_H, stepPH]⟩

theorem nFailed_nil' (id : PayId) : nFailed id [] = 0 := rfl

theorem stale_step (truth : PartId → Bool) (id : PayId) (s : State) (op : Op) (hwf : WF s)
    (hc : Okish truth (get s.cur id)) (hs : Good truth (get s.snapCur id)) (hok : OkAt truth id s op) :
    Okish truth (get (step s op).1.cur id) ∧ Good truth (get (step s op).1.snapCur id) ∧
    nFailed id (step s op).2.evs = 0 := by
  by_cases hr : op = .restore
  · subst hr; exact ⟨Or.inl hs, hs, rfl⟩
  -- the generic case: the op does not touch the payment, or the entry is Good and the op is admissible as before
  have generic : ((proj id s op = none ∧ op ≠ .persist) ∨ (Good truth (get s.cur id) ∧ OkFor truth id op)) →
      Okish truth (get (step s op).1.cur id) ∧ Good truth (get (step s op).1.snapCur id) ∧
      nFailed id (step s op).2.evs = 0 := by
    rintro (⟨hp, hnp⟩ | ⟨hg, hk⟩)
    · rw [snap_step s op hnp, step_get s op id hr, nFailed_step s op id hwf]
      unfold projStep; rw [hp]
      exact ⟨hc, hs, rfl⟩
    · have := good_global_step truth id s op hwf hg hs hk
      exact ⟨Or.inl this.1, this.2.1, this.2.2⟩
  cases op with
  | restore => exact (hr rfl).elim
  | insert i p =>
    rw [snap_step s _ (by intro h; cases h), step_get s _ id hr, nFailed_step s _ id hwf]
    unfold projStep
    by_cases hi : i = id
    · subst hi
      simp only [proj, if_true]
      have := insert_okish (amt := s.amt) truth i (get s.cur i) p hc
      exact ⟨this.1, hs, by rw [this.2]; rfl⟩
    · simp only [proj, hi, if_false]; exact ⟨hc, hs, rfl⟩
  | send i ps =>
    rw [snap_step s _ (by intro h; cases h), step_get s _ id hr, nFailed_step s _ id hwf]
    unfold projStep
    by_cases hi : i = id
    · subst hi
      simp only [proj, if_true]
      rcases hok with hne | ⟨hg, hp⟩
      · exact (hne rfl).elim
      · have := send_good (amt := s.amt) truth i (get s.cur i) ps hg hp
        exact ⟨Or.inl this.1, hs, by rw [this.2]; rfl⟩
    · simp only [proj, hi, if_false]; exact ⟨hc, hs, rfl⟩
  | await i t => exact generic hok
  | invoice i ps => exact generic hok
  | claim i p oc => exact generic hok
  | finalize i p => exact generic hok
  | fail i p a pm => exact generic hok
  | abandon i r => exact generic hok
  | retry i ps n => exact generic hok
  | sweep a => exact generic hok
  | tick => exact generic hok
  | sendR i ps ns => exact generic hok
  | retryR i ps n ns => exact generic hok
  | handle => exact generic hok
  | persist => exact generic hok

theorem stale_run (truth : PartId → Bool) (id : PayId) : ∀ (ops : List Op) (s : State), WF s →
    Okish truth (get s.cur id) → Good truth (get s.snapCur id) → AllOk truth id s ops →
    nFailed id (run s ops).2 = 0 := by
  intro ops
  induction ops with
  | nil => intro s _ _ _ _; rfl
  | cons op rest ih =>
    intro s hwf hc hs hok
    obtain ⟨h1, h2, h3⟩ := stale_step truth id s op hwf hc hs hok.1
    rw [run_cons, nFailed_append, h3, Nat.zero_add]
    exact ih _ (wf_step s op hwf) h1 h2 hok.2

end Ldk.OutboundPay

namespace Ldk.OutboundPay

instance (truth : PartId → Bool) (st : PState) : Decidable (Good truth st) := by unfold Good; exact inferInstance

instance (truth : PartId → Bool) (id : PayId) (op : Op) : Decidable (OkFor truth id op) := by
  cases op <;> simp only [OkFor] <;> exact inferInstance

instance (truth : PartId → Bool) (id : PayId) (s : State) (op : Op) : Decidable (OkAt truth id s op) := by
  cases op <;> simp only [OkAt] <;> exact inferInstance

instance (truth : PartId → Bool) (id : PayId) : ∀ (ops : List Op) (s : State), Decidable (AllOk truth id s ops)
  | [], _ => by unfold AllOk; exact inferInstance
  | op :: rest, s => by
    unfold AllOk
    have := instDecidableAllOk truth id rest (step s op).1
    exact inferInstance

end Ldk.OutboundPay
