/- Helper lemmas for the probe theorem of Props/C03.lean. -/
import LdkModel.Model.OutboundProbe
import LdkModel.Proofs.OutboundPayRefine
namespace Ldk.OutboundProbe
open Ldk.OutboundPay Ldk.OutboundSendGen

/-- the entry of a probe in flight: its single session priv, Retryable or (after abandon_payment) Abandoned -/
def Live (p : PartId) (st : PState) : Prop := (∃ a t, st = .retryable [p] a t) ∨ (∃ r, st = .abandoned [p] r)

def IsOutcome (p : PartId) (e : PEv) : Prop := e = .probeSuccessful p ∨ e = .probeFailed p

theorem failProbe_live (amt : Amt) (p q : PartId) (auto perm : Bool) (st : PState) (h : Live p st) :
    (Live p (failProbe amt st q auto perm).1 ∧ (failProbe amt st q auto perm).2 = []) ∨
    ((failProbe amt st q auto perm).1 = .absent ∧ ∃ e, (failProbe amt st q auto perm).2 = [e] ∧ IsOutcome p e) := by
  rcases h with ⟨a, t, rfl⟩ | ⟨r, rfl⟩
  · by_cases hq : q = p
    · subst hq
      right
      cases auto <;> cases perm <;>
        simp [failProbe, PState.variant, removeP, removeHolds, PState.parts, PState.withParts, PState.mapPend, removePart,
          failReturnsNotRemoved, failReturnsFulfilled, isFulfilledV, failAbandons, autoRetryableV, markAbandonedP,
          markAbandonedRewrites, markAbandonedTo, markAbandonedKeepsParts, failPathEvent, failDrops, PState.remaining,
          holdsParts, PState.isAbandoned, isAbandonedV, failPushesFailed, IsOutcome]
    · left
      simp [failProbe, PState.variant, removeP, removeHolds, PState.parts, hq, failReturnsNotRemoved, Live]
  · by_cases hq : q = p
    · subst hq
      right
      cases auto <;> cases perm <;>
        simp [failProbe, PState.variant, removeP, removeHolds, PState.parts, PState.withParts, PState.mapPend, removePart,
          failReturnsNotRemoved, failReturnsFulfilled, isFulfilledV, failAbandons, autoRetryableV, markAbandonedP,
          markAbandonedRewrites, markAbandonedTo, markAbandonedKeepsParts, failPathEvent, failDrops, PState.remaining,
          holdsParts, PState.isAbandoned, isAbandonedV, failPushesFailed, IsOutcome]
    · left
      simp [failProbe, PState.variant, removeP, removeHolds, PState.parts, hq, failReturnsNotRemoved, Live]

/-- the failure of the probe's own HTLC always ends the probe, whatever flags -/
theorem failProbe_own (amt : Amt) (p : PartId) (auto perm : Bool) (st : PState) (h : Live p st) :
    (failProbe amt st p auto perm).1 = .absent ∧
    (failProbe amt st p auto perm).2 = [if perm then .probeSuccessful p else .probeFailed p] := by
  rcases h with ⟨a, t, rfl⟩ | ⟨r, rfl⟩ <;> cases auto <;> cases perm <;>
    simp [failProbe, PState.variant, removeP, removeHolds, PState.parts, PState.withParts, PState.mapPend, removePart,
      failReturnsNotRemoved, failReturnsFulfilled, isFulfilledV, failAbandons, autoRetryableV, markAbandonedP,
      markAbandonedRewrites, markAbandonedTo, markAbandonedKeepsParts, failPathEvent, failDrops, PState.remaining,
      holdsParts, PState.isAbandoned, isAbandonedV, failPushesFailed]

/-- what send_probe leaves behind: nothing, or the live entry; nothing only if the HTLC is not in flight -/
theorem sendProbe_cases (amt : Amt) (p : PartId) (res : PathIn) :
    ((sendProbe amt .absent p res).1 = .absent ∧ res.inFlight = false) ∨
    (Live p (sendProbe amt .absent p res).1 ∧ res.inFlight = true) := by
  cases res <;>
    simp [sendProbe, sendKindOf, flagsOf, flagsStep, PathIn.sendRes, PathRes.isOk, PathRes.isErr, PathRes.isMip,
      probeDropsEntry, PathIn.inFlight, Live]

theorem failProbe_absent (amt : Amt) (q : PartId) (auto perm : Bool) :
    failProbe amt .absent q auto perm = (.absent, []) := by
  simp [failProbe, PState.variant]

/-- abandon / sweep / tick leave a live probe entry live and push nothing -/
theorem other_live (amt : Amt) (id : PayId) (p : PartId) (st : PState) (h : Live p st) (op : ProbeOp)
    (hop : ∀ q a pm, op ≠ .fail q a pm) :
    Live p (stepProbe amt id st op).1 ∧ (stepProbe amt id st op).2 = [] := by
  rcases h with ⟨a, t, rfl⟩ | ⟨r, rfl⟩
  · cases op with
    | fail q a pm => exact (hop q a pm rfl).elim
    | abandon r => simp [stepProbe, stepP_eq_H, stepPH, abandonPH, abandonNow, Live]
    | sweep auto => cases auto <;> simp [stepProbe, stepP_eq_H, stepPH, Live]
    | tick b => simp [stepProbe, stepP_eq_H, stepPH, Live]
  · cases op with
    | fail q a pm => exact (hop q a pm rfl).elim
    | abandon r' => simp [stepProbe, stepP_eq_H, stepPH, abandonPH, abandonNow, Live]
    | sweep auto => cases auto <;> simp [stepProbe, stepP_eq_H, stepPH, Live]
    | tick b => simp [stepProbe, stepP_eq_H, stepPH, Live]

theorem step_absent (amt : Amt) (id : PayId) (op : ProbeOp) : stepProbe amt id .absent op = (.absent, []) := by
  cases op with
  | fail q a pm => simp [stepProbe, failProbe_absent]
  | abandon r => simp [stepProbe, stepP_eq_H, stepPH, abandonPH]
  | sweep auto => simp [stepProbe, stepP_eq_H, stepPH]
  | tick b => simp [stepProbe, stepP_eq_H, stepPH]

theorem run_absent (amt : Amt) (id : PayId) (ops : List ProbeOp) : runProbe amt id .absent ops = (.absent, []) := by
  induction ops with
  | nil => rfl
  | cons op rest ih => simp [runProbe, step_absent, ih]

theorem run_live (amt : Amt) (id : PayId) (p : PartId) (ops : List ProbeOp) (st : PState) (h : Live p st) :
    (Live p (runProbe amt id st ops).1 ∧ (runProbe amt id st ops).2 = []) ∨
    ((runProbe amt id st ops).1 = .absent ∧ ∃ e, (runProbe amt id st ops).2 = [e] ∧ IsOutcome p e) := by
  induction ops generalizing st with
  | nil => left; exact ⟨h, rfl⟩
  | cons op rest ih =>
    simp only [runProbe]
    have hstep : (Live p (stepProbe amt id st op).1 ∧ (stepProbe amt id st op).2 = []) ∨
        ((stepProbe amt id st op).1 = .absent ∧ ∃ e, (stepProbe amt id st op).2 = [e] ∧ IsOutcome p e) := by
      cases op with
      | fail q a pm => simpa [stepProbe] using failProbe_live amt p q a pm st h
      | abandon r => exact Or.inl (other_live amt id p st h _ (by intro q a pm hh; cases hh))
      | sweep auto => exact Or.inl (other_live amt id p st h _ (by intro q a pm hh; cases hh))
      | tick b => exact Or.inl (other_live amt id p st h _ (by intro q a pm hh; cases hh))
    rcases hstep with ⟨hl, he⟩ | ⟨ha, e, he, ho⟩
    · rw [he]; simpa using ih _ hl
    · right
      rw [ha, run_absent, he]
      exact ⟨rfl, e, by simp, ho⟩

end Ldk.OutboundProbe
