/- C17 — the property statements over the hand-written SPECIFICATION layer of Model/Gossip.lean
   (`Ldk.Gossip.step`, `run`, …). Props/C17.lean restates every one of them about the model the driver
   runs (`Ldk.Gossip.Impl.*`, which calls the code generated from gossip.rs) and derives it from the
   statement here through the refinement `Impl.f = f` of Proofs/GossipRefine.lean. -/
import LdkModel.Proofs.Gossip
namespace Ldk.C17.Spec
open Ldk Ldk.Gossip

/-! ## authenticity -/

/-- Along any run, a delivery for which signature verification is requested changes the graph only
    if every signature the library must check is valid (an update: made by the node the graph
    stores for that direction of that channel). -/
theorem accepted_implies_verified (g0 : Graph) (pre : List Op) (m : Msg)
    (hv : verifyRequested m = true) (hch : run g0 (pre ++ [.msg m]) ≠ run g0 pre) :
    msgVerified (run g0 pre) m := by
  apply applyMsg_changed_verified (run g0 pre) m hv
  intro h; apply hch
  simp only [run, List.foldl_append, List.foldl_cons, List.foldl_nil, step] at h ⊢
  exact h

example : ∃ g0 pre m, verifyRequested m = true ∧ run g0 (pre ++ [.msg m]) ≠ run g0 pre :=
  ⟨Graph.empty, [], .chanAnn ⟨7, 1, 2, false, true, true, true, true, true, true, .noLookup, 100⟩, rfl, by
    intro h
    have : (run Graph.empty ([] ++ [Op.msg (.chanAnn ⟨7, 1, 2, false, true, true, true, true, true, true, .noLookup, 100⟩)])).channels.get 7
        = (run Graph.empty []).channels.get 7 := by rw [h]
    revert this; decide⟩

/-- A rejected message leaves the graph exactly as it was (whatever the reject reason). -/
theorem rejected_unchanged (g : Graph) (m : Msg) (r : Reject) (h : (applyMsg g m).2 = .reject r) :
    (applyMsg g m).1 = g := applyMsg_reject h

example : ∃ g m r, (applyMsg g m).2 = .reject r :=
  ⟨Graph.empty, .nodeAnn ⟨1, 5, 0, true, true⟩, .noChannelsForNode, rfl⟩

/-! ## currency -/

/-- One operation (any of the seven kinds) on any graph: if the channel entry is there before and
    after, each direction's stored update is either untouched, cleared, or replaced by one with a
    strictly larger timestamp; an equal or older timestamp never replaces. Same for the stored
    node announcement of a node entry. -/
theorem never_older_or_equal (g : Graph) (op : Op) :
    (∀ s c c', g.channels.get s = some c → (step g op).1.channels.get s = some c' →
      dirMono c.d12 c'.d12 ∧ dirMono c.d21 c'.d21) ∧
    (∀ id ni ni', g.nodes.get id = some ni → (step g op).1.nodes.get id = some ni' →
      annMono ni.ann ni'.ann) :=
  ⟨fun s c c' h h' => step_chanMono g op s c c' h h', fun id ni ni' h h' => step_annMono g op id ni ni' h h'⟩

/-- Along a whole run: as long as the direction stays stored, its `last_update` never decreases and
    the stored update changes only together with a strict increase. -/
theorem never_older_or_equal_run (d : Bool) (ops : List Op) : ∀ (g : Graph) (s : Nat) (c c' : ChanInfo),
    g.channels.get s = some c → (run g ops).channels.get s = some c' →
    (∀ pre, pre <+: ops → ∃ ck uk, (run g pre).channels.get s = some ck ∧ ck.dir d = some uk) →
    dirMono (c.dir d) (c'.dir d) := by
  induction ops with
  | nil =>
    intro g s c c' h h' _
    simp only [run, List.foldl_nil] at h'
    rw [h] at h'; cases h'; exact dirMono_refl _
  | cons op t ih =>
    intro g s c c' h h' hp
    obtain ⟨ck, uk, hk, hdk⟩ := hp [op] (by simp)
    have hk' : (step g op).1.channels.get s = some ck := by simpa [run] using hk
    have m1 : dirMono (c.dir d) (ck.dir d) := by
      have := step_chanMono g op s c ck h hk'
      cases d
      · exact this.1
      · exact this.2
    have m2 : dirMono (ck.dir d) (c'.dir d) := by
      apply ih (step g op).1 s ck c' hk' (by simpa [run] using h')
      intro pre hpre
      have := hp (op :: pre) (by simpa using hpre)
      simpa [run] using this
    intro u u' hu hu'
    rcases m1 u uk hu hdk with h1 | h1
    · rcases m2 uk u' hdk hu' with h2 | h2
      · left; omega
      · left; rw [h2]; exact h1
    · rw [h1] at hdk
      exact m2 u u' hdk hu'

example : ∃ (g : Graph) (u : ChanUpd) (c c' : ChanInfo) (x x' : UpdInfo), g.channels.get u.scid = some c ∧
    (step g (.msg (.chanUpd u))).1.channels.get u.scid = some c' ∧ c.d12 = some x ∧ c'.d12 = some x' ∧
    x.lastUpdate < x'.lastUpdate :=
  ⟨(run Graph.empty [.msg (.chanAnn ⟨7, 1, 2, false, true, true, true, true, true, true, .noLookup, 100⟩),
      .msg (.chanUpd ⟨7, false, false, 10, 40, 1, 1000, 1, 2, true, false, true, 1⟩)]),
    ⟨7, false, false, 11, 41, 1, 1000, 1, 2, true, false, true, 1⟩, _, _, _, _, rfl, rfl, rfl, rfl, by decide⟩

/-! ## reject rules -/

/-- A channel update for an unknown channel, for the wrong chain, with `htlc_maximum_msat` above
    `MAX_VALUE_MSAT`, or above the known capacity of the channel (or with a bogus capacity on
    record) is rejected and leaves the graph unchanged; likewise a channel announcement for the wrong
    chain. -/
theorem reject_rules (g : Graph) :
    (∀ u : ChanUpd, (g.channels.get u.scid = none ∨ u.chainOk = false ∨ u.htlcMax > MAX_VALUE_MSAT ∨
        (∃ c cap, g.channels.get u.scid = some c ∧ c.capacity = some cap ∧
          (u.htlcMax > cap * 1000 ∨ cap > MAX_VALUE_MSAT / 1000))) →
      (applyChanUpd g u).1 = g ∧ ∃ r, (applyChanUpd g u).2 = .reject r) ∧
    (∀ a : ChanAnn, a.chainOk = false → (applyChanAnn g a).1 = g ∧ ∃ r, (applyChanAnn g a).2 = .reject r) := by
  constructor
  · intro u h
    have hr : ∃ r, (applyChanUpd g u).2 = .reject r := by
      unfold applyChanUpd
      split
      · exact ⟨_, rfl⟩
      · split
        · exact ⟨_, rfl⟩
        · split
          · exact ⟨_, rfl⟩
          · rename_i h1 h2 h3
            cases hg : g.channels.get u.scid with
            | none => exact ⟨_, rfl⟩
            | some c =>
              simp only []
              rcases h with h | h | h | ⟨c0, cap, hc0, hcap, hbad⟩
              · rw [hg] at h; cases h
              · simp [h] at h2
              · exact absurd h h3
              · rw [hg] at hc0; cases hc0
                have : updChan c u = .error .htlcMaxAboveCapacity := by
                  unfold updChan checkMsgSanity
                  have hb : cap > MAX_VALUE_MSAT / 1000 ∨ u.htlcMax > cap * 1000 := hbad.symm
                  simp [hcap, hb]
                rw [this]; exact ⟨_, rfl⟩
    obtain ⟨r, hr⟩ := hr
    exact ⟨applyChanUpd_reject hr, r, hr⟩
  · intro a h
    have hr : ∃ r, (applyChanAnn g a).2 = .reject r := by
      have hp : ∃ r, chanAnnPre g a = some r := by
        unfold chanAnnPre
        split
        · exact ⟨_, rfl⟩
        · split
          · exact ⟨_, rfl⟩
          · simp [h]
      obtain ⟨r, hp⟩ := hp
      unfold applyChanAnn
      rw [hp]; exact ⟨r, rfl⟩
    obtain ⟨r, hr⟩ := hr
    exact ⟨applyChanAnn_reject hr, r, hr⟩

example : (applyChanUpd Graph.empty ⟨7, false, false, 10, 40, 1, 1000, 1, 2, true, false, true, 1⟩).2
    = .reject .unknownChannel := rfl

/-! ## duplicates -/

/-- Delivering a message a second time right after the first changes nothing — on any graph, for
    any message (valid or not), hence at any point of any run. -/
theorem duplicates_idempotent (g0 : Graph) (pre : List Op) (m : Msg) :
    run g0 (pre ++ [.msg m, .msg m]) = run g0 (pre ++ [.msg m]) := by
  simp only [run, List.foldl_append, List.foldl_cons, List.foldl_nil, step]
  exact applyMsg_idem _ m

example : run Graph.empty [.msg (.chanAnn ⟨7, 1, 2, false, true, true, true, true, true, true, .noLookup, 100⟩)]
    ≠ Graph.empty := by
  intro h
  have : (run Graph.empty [Op.msg (.chanAnn ⟨7, 1, 2, false, true, true, true, true, true, true, .noLookup, 100⟩)]).channels.get 7
      = Graph.empty.channels.get 7 := by rw [h]
  revert this; decide

/-! ## permanent failures -/

/-- `channel_failed_permanent`: the channel is gone; if it was there it is tombstoned with the time
    of the call, and each of its two endpoint entries is either removed or keeps at least one other
    channel and no longer lists this one. -/
theorem failed_permanent_removed (g : Graph) (scid now : Nat) :
    (failPermanent g scid now).channels.get scid = none ∧
    (∀ c, g.channels.get scid = some c →
      (failPermanent g scid now).removedChannels.get scid = some now ∧
      ∀ id ni, (id = c.node1 ∨ id = c.node2) → (failPermanent g scid now).nodes.get id = some ni →
        ni.channels.get scid = none ∧ ni.channels.isEmpty = false) := by
  unfold failPermanent
  cases hg : g.channels.get scid with
  | none => exact ⟨hg, fun c hc => by cases hc⟩
  | some c0 =>
    refine ⟨by simp, ?_⟩
    intro c hc; cases hc
    refine ⟨by simp, ?_⟩
    intro id ni hid hn
    exact removeChanInNodes_endpoint g.nodes c0 scid id hid ni hn

/-- `node_failed_permanent`: the node entry is gone and tombstoned; every channel it listed is gone,
    and tombstoned if it was there. -/
theorem node_failed_permanent_removed (g : Graph) (id now : Nat) (n : NodeInfo) (h : g.nodes.get id = some n) :
    (nodeFailPermanent g id now).nodes.get id = none ∧
    (nodeFailPermanent g id now).removedNodes.get id = some now ∧
    (∀ s, n.channels.get s = some () →
      (nodeFailPermanent g id now).channels.get s = none ∧
      (g.channels.get s ≠ none → (nodeFailPermanent g id now).removedChannels.get s = some now)) := by
  unfold nodeFailPermanent
  simp only [h]
  have spec := nodeFail_fold_spec id now n.channels.keys (g.channels, g.nodes.erase id, g.removedChannels)
  obtain ⟨p1, _, p3, _, p5⟩ := spec
  refine ⟨p1 (by simp), by simp, ?_⟩
  intro s hs
  have hmem : s ∈ n.channels.keys := by rw [SMap.mem_keys_iff, hs]; rfl
  exact ⟨p3 s hmem, fun hne => p5 s hmem hne⟩

example : ∃ g scid now c, g.channels.get scid = some c ∧ (failPermanent g scid now).removedChannels.get scid = some now :=
  ⟨run Graph.empty [.msg (.chanAnn ⟨7, 1, 2, false, true, true, true, true, true, true, .noLookup, 100⟩)], 7, 200, _, rfl, rfl⟩

/-! ## pruning -/

/-- `remove_stale_channels_and_tracking_with_time(t)` as coded. Outside `[STALE_LIMIT, u32::MAX]` it
    does nothing. Otherwise, with `minT = t − STALE_CHANNEL_UPDATE_AGE_LIMIT_SECS`:
    a direction survives iff its `last_update ≥ minT`; a channel is removed iff after that a direction
    is missing and its announcement was received before `minT`, and is then tombstoned at `t`; a node
    that loses channels keeps the others and is removed when none is left; tombstones older than
    `REMOVED_ENTRIES_TRACKING_AGE_LIMIT_SECS` (relative to `t`, saturating) are dropped. -/
theorem prune_rules (g : Graph) (t : Nat) :
    ((t > U32_MAX ∨ t < STALE_CHANNEL_UPDATE_AGE_LIMIT_SECS) → pruneAt g t = g) ∧
    (t ≤ U32_MAX → STALE_CHANNEL_UPDATE_AGE_LIMIT_SECS ≤ t →
      (∀ s, (pruneAt g t).channels.get s =
          (g.channels.get s).bind (pruneChan (t - STALE_CHANNEL_UPDATE_AGE_LIMIT_SECS))) ∧
      (∀ id, (pruneAt g t).nodes.get id =
          (g.nodes.get id).bind (pruneNode g (t - STALE_CHANNEL_UPDATE_AGE_LIMIT_SECS))) ∧
      (∀ s, (pruneAt g t).removedChannels.get s =
          if prunedScid g (t - STALE_CHANNEL_UPDATE_AGE_LIMIT_SECS) s then some t
          else (g.removedChannels.get s).bind (keepTracking t)) ∧
      (∀ id, (pruneAt g t).removedNodes.get id = (g.removedNodes.get id).bind (keepTracking t))) ∧
    (∀ minT (c : ChanInfo),
      (pruneChan minT c = none ↔
        ((pruneDir minT c.d12 = none ∨ pruneDir minT c.d21 = none) ∧ c.recvTime < minT)) ∧
      (∀ c', pruneChan minT c = some c' →
        c' = { c with d12 := pruneDir minT c.d12, d21 := pruneDir minT c.d21 }) ∧
      (∀ d u, pruneDir minT d = some u ↔ d = some u ∧ minT ≤ u.lastUpdate)) ∧
    (∀ time, keepTracking t time = (if t - time < REMOVED_ENTRIES_TRACKING_AGE_LIMIT_SECS then some time else none)) :=
  ⟨pruneAt_out_of_range g t, pruneAt_spec g t,
   fun minT c => ⟨pruneChan_eq_none minT c, pruneChan_eq_some minT c, pruneDir_eq_some minT⟩,
   fun _ => rfl⟩

example : (pruneAt (run Graph.empty [.chanPartial 7 none 100 1 2]) 2000000).channels.get 7 = none ∧
    (pruneAt (run Graph.empty [.chanPartial 7 none 100 1 2]) 2000000).removedChannels.get 7 = some 2000000 ∧
    (pruneAt (run Graph.empty [.chanPartial 7 none 100 1 2]) 2000000).nodes.get 1 = none := by decide

/-! ## order independence -/

/-- HEADLINE. Two deliveries of the same messages (`List.Perm`) give the same graph, from any graph
    `g`, provided that
    * `NoConflict`: no two *different* messages of the list compete for one slot with one timestamp
      (same scid+direction+timestamp updates, same node+timestamp node announcements, two different
      announcements of one scid) — exact duplicates are allowed, any number of times;
    * `Ordered` (both orders): every channel announcement comes before the updates of its scid and
      before the node announcements of its two endpoints (node announcements need the node to have
      a channel);
    * `NoReplaceAll g`: no announcement of the list hits, in the starting graph, the branch of
      `add_channel_between_nodes` that *replaces* an existing entry after a successful UTXO lookup
      (it holds trivially from the empty graph, or when no UTXO lookup is configured).
    Invalid messages (bad signatures, wrong chain, excessive htlc_maximum, …) may be part of the list. -/
theorem order_independent (g : Graph) (l1 l2 : List Msg) (hp : l1.Perm l2)
    (hc : NoConflict l1) (h1 : Ordered l1) (h2 : Ordered l2) (hnr : NoReplaceAll g l1) :
    runMsgs g l1 = runMsgs g l2 :=
  runMsgs_perm l1 l2 g hp hc h1 h2 hnr

/-- From the empty graph (or any graph without channels) the last side condition is automatic. -/
theorem order_independent_from_empty (l1 l2 : List Msg) (hp : l1.Perm l2)
    (hc : NoConflict l1) (h1 : Ordered l1) (h2 : Ordered l2) :
    runMsgs Graph.empty l1 = runMsgs Graph.empty l2 := by
  apply order_independent Graph.empty l1 l2 hp hc h1 h2
  intro x _
  cases x with
  | chanAnn a => intro c hc; cases hc
  | chanUpd u => trivial
  | nodeAnn n => trivial

/-- The special case asked for first: over a fixed graph (the announced channels), any two orders of
    a set of channel updates and node announcements without conflicting timestamps agree. -/
theorem order_independent_updates (g : Graph) (l1 l2 : List Msg) (hp : l1.Perm l2) (hc : NoConflict l1)
    (hu : ∀ x ∈ l1, ∀ a, x ≠ .chanAnn a) : runMsgs g l1 = runMsgs g l2 := by
  have ord : ∀ l : List Msg, (∀ x ∈ l, ∀ a, x ≠ .chanAnn a) → Ordered l := by
    intro l hl
    apply List.pairwise_of_forall_mem_list
    intro x _ y hy
    cases y with
    | chanAnn a => exact absurd rfl (hl _ hy a)
    | chanUpd u => rfl
    | nodeAnn n => rfl
  apply order_independent g l1 l2 hp hc (ord l1 hu) (ord l2 (fun x hx => hu x (hp.symm.subset hx)))
  intro x hx
  cases x with
  | chanAnn a => exact absurd rfl (hu _ hx a)
  | chanUpd u => trivial
  | nodeAnn n => trivial

/-- Duplicates anywhere: a second copy of a message delivered later (anywhere after the first) does
    not change the outcome of an admissible delivery. -/
theorem duplicates_anywhere (g : Graph) (l1 l2 l3 : List Msg) (m : Msg)
    (hc : NoConflict (l1 ++ m :: l2 ++ m :: l3)) (h1 : Ordered (l1 ++ m :: l2 ++ m :: l3))
    (hnr : NoReplaceAll g (l1 ++ m :: l2 ++ m :: l3)) :
    runMsgs g (l1 ++ m :: l2 ++ m :: l3) = runMsgs g (l1 ++ m :: l2 ++ l3) := by
  -- move the second copy next to the first, then use idempotence
  have hperm : (l1 ++ m :: l2 ++ m :: l3).Perm (l1 ++ m :: m :: (l2 ++ l3)) := by
    have : (m :: l2 ++ m :: l3).Perm (m :: m :: (l2 ++ l3)) := by
      simpa using (List.perm_middle (a := m) (l₁ := l2) (l₂ := l3)).cons m
    simpa [List.append_assoc] using this.append_left l1
  have hord2 : Ordered (l1 ++ m :: m :: (l2 ++ l3)) := by
    have h1' : Ordered (l1 ++ (m :: (l2 ++ m :: l3))) := by simpa [List.append_assoc] using h1
    have hmm : mustPrecede m m = false := by cases m <;> rfl
    unfold Ordered at h1' ⊢
    rw [List.pairwise_append] at h1' ⊢
    obtain ⟨pa, pb, pc⟩ := h1'
    rw [List.pairwise_cons] at pb
    obtain ⟨pb1, pb2⟩ := pb
    rw [List.pairwise_append] at pb2
    obtain ⟨q1, q2, q3⟩ := pb2
    rw [List.pairwise_cons] at q2
    refine ⟨pa, ?_, ?_⟩
    · rw [List.pairwise_cons]
      refine ⟨?_, ?_⟩
      · intro y hy
        simp only [List.mem_cons, List.mem_append] at hy
        rcases hy with hy | hy | hy
        · subst hy; exact hmm
        · exact pb1 y (by simp [hy])
        · exact pb1 y (by simp [hy])
      · rw [List.pairwise_cons]
        refine ⟨?_, ?_⟩
        · intro y hy
          simp only [List.mem_append] at hy
          rcases hy with hy | hy
          · exact pb1 y (by simp [hy])
          · exact q2.1 y hy
        · rw [List.pairwise_append]
          exact ⟨q1, q2.2, fun x hx y hy => q3 x hx y (by simp [hy])⟩
    · intro x hx y hy
      apply pc x hx y
      simp only [List.mem_cons, List.mem_append] at hy ⊢
      rcases hy with hy | hy | hy | hy
      · exact Or.inl hy
      · exact Or.inl hy
      · exact Or.inr (Or.inl hy)
      · exact Or.inr (Or.inr (Or.inr hy))
  rw [order_independent g _ _ hperm hc h1 hord2 hnr]
  have e1 : l1 ++ m :: m :: (l2 ++ l3) = l1 ++ [m, m] ++ (l2 ++ l3) := by simp
  have e2 : l1 ++ m :: l2 ++ l3 = l1 ++ [m] ++ (l2 ++ l3) := by simp
  have key : ∀ G, runMsgs G [m, m] = runMsgs G [m] := fun G => applyMsg_idem G m
  rw [e1, e2, runMsgs_append _ (l1 ++ [m, m]), runMsgs_append _ l1 [m, m],
    runMsgs_append _ (l1 ++ [m]), runMsgs_append _ l1 [m], key]

/-- non-vacuity: two different admissible orders of a set with an announcement, updates for both
    directions (two with different timestamps on one direction, one wrongly signed), node
    announcements and an exact duplicate; something is accepted. -/
example :
    let a : Msg := .chanAnn ⟨7, 1, 2, false, true, true, true, true, true, true, .value 1000, 100⟩
    let u1 : Msg := .chanUpd ⟨7, false, false, 10, 40, 1, 1000, 1, 2, true, false, true, 1⟩
    let u2 : Msg := .chanUpd ⟨7, false, false, 12, 41, 1, 900, 1, 2, true, false, true, 1⟩
    let u3 : Msg := .chanUpd ⟨7, true, false, 12, 41, 1, 900, 1, 2, true, false, true, 1⟩
    let n1 : Msg := .nodeAnn ⟨1, 5, 77, true, true⟩
    let n2 : Msg := .nodeAnn ⟨1, 6, 78, true, true⟩
    let l1 := [a, u1, u2, u3, n1, n2, u1]
    let l2 := [a, n2, u3, u2, u1, u1, n1]
    l1.Perm l2 ∧ NoConflict l1 ∧ Ordered l1 ∧ Ordered l2 ∧ l1 ≠ l2 ∧
    ((runMsgs Graph.empty l1).channels.get 7).map (fun c => c.d12.map (·.lastUpdate)) = some (some 12) ∧
    ((runMsgs Graph.empty l2).nodes.get 1).map (fun n => n.ann.map (·.lastUpdate)) = some (some 6) := by
  refine ⟨by decide, by unfold NoConflict; decide, by unfold Ordered; decide, by unfold Ordered; decide, by decide, by decide, by decide⟩

end Ldk.C17.Spec
