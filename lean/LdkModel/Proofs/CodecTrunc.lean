import LdkModel.Model.Codec
import LdkModel.Proofs.Codec
/-!
  Proofs/CodecTrunc.lean — the general truncation theorem of the wire codec model (Model/Codec.lean).

  For every well-formed schema `s`, every valid value `v` and EVERY cut point of `s.encode v`:
    * a cut strictly inside the fixed part, or strictly inside a TLV record (type, length or value), decodes to
      `ShortRead` (`trunc_fixed_part`, `trunc_inside_record`);
    * a cut exactly between two TLV records (`boundaryCut s v k`) decodes to the value with the later (optional)
      records absent, or to `InvalidValue` when a required record was cut off (`trunc_at_boundary`);
    * there is no third kind of cut (`trunc_classification`).
  Field level: `field_trunc` (a strict prefix of a field encoding never decodes to an error other than ShortRead,
  and to ShortRead when the type is self-delimiting).
-/
namespace Ldk.Codec

/-! ### definitions -/

/-- the first `k` entries kept, the others replaced by `none` (same length) -/
def maskAfter : Nat → List (Option Val) → List (Option Val)
  | _, [] => []
  | 0, _ :: vs => none :: maskAfter 0 vs
  | k + 1, v :: vs => v :: maskAfter k vs

/-- some declared field at index ≥ `k` is `required` (in a valid value a required field is always present, so: "a required
    record was cut off").  The value list is not inspected; it is an argument so that the statement reads per message. -/
def reqDropped (tlvs : List TlvField) (_vals : List (Option Val)) (k : Nat) : Bool :=
  (tlvs.drop k).any fun f => f.kind == .required

/-- the prefix of `s.encode v` that ends exactly between two TLV records: the fixed part and the records of the first `k`
    declared TLV fields (`k = 0`: right after the fixed part; `k ≥` number of TLVs: the whole encoding) -/
def boundaryCut (s : Schema) (v : MsgVal) (k : Nat) : Bytes :=
  encodeFixed s.fixed v.fixed ++ encodeTlvs s.tlvs (maskAfter k v.tlvs)

/-! ### `maskAfter`, `boundaryCut`: what they are -/

theorem maskAfter_length : ∀ (k : Nat) (vs : List (Option Val)), (maskAfter k vs).length = vs.length
  | _, [] => by simp [maskAfter]
  | 0, _ :: vs => by simp [maskAfter, maskAfter_length 0 vs]
  | k + 1, _ :: vs => by simp [maskAfter, maskAfter_length k vs]

theorem maskAfter_eq : ∀ (k : Nat) (vs : List (Option Val)),
    maskAfter k vs = vs.take k ++ List.replicate (vs.length - k) none
  | _, [] => by simp [maskAfter]
  | 0, _ :: vs => by
    have := maskAfter_eq 0 vs
    simp only [List.take_zero, List.nil_append, Nat.sub_zero] at this
    simp [maskAfter, this, List.replicate_succ]
  | k + 1, _ :: vs => by simp [maskAfter, maskAfter_eq k vs]

theorem maskAfter_all : ∀ (k : Nat) (vs : List (Option Val)), vs.length ≤ k → maskAfter k vs = vs
  | _, [], _ => by simp [maskAfter]
  | 0, _ :: _, h => by simp at h
  | k + 1, _ :: vs, h => by simp [maskAfter, maskAfter_all k vs (by simpa using h)]

theorem encodeTlvs_mask_zero : ∀ (fs : List TlvField) (vs : List (Option Val)), encodeTlvs fs (maskAfter 0 vs) = []
  | [], _ => by simp [encodeTlvs]
  | _ :: _, [] => by simp [maskAfter, encodeTlvs]
  | _ :: fs, _ :: vs => by simp [maskAfter, encodeTlvs, encodeTlvs_mask_zero fs vs]

theorem boundaryCut_zero (s : Schema) (v : MsgVal) : boundaryCut s v 0 = encodeFixed s.fixed v.fixed := by
  simp [boundaryCut, encodeTlvs_mask_zero]

theorem boundaryCut_all (s : Schema) (v : MsgVal) (k : Nat) (h : v.tlvs.length ≤ k) : boundaryCut s v k = s.encode v := by
  simp [boundaryCut, Schema.encode, maskAfter_all k v.tlvs h]

/-! ### list splitting -/

theorem append_split {α : Type} {a b p q : List α} (h : a ++ b = p ++ q) :
    (∃ c, c ≠ [] ∧ a = p ++ c) ∨ (∃ p', p = a ++ p' ∧ b = p' ++ q) := by
  rcases List.append_eq_append_iff.mp h with ⟨a', h1, h2⟩ | ⟨c', h1, h2⟩
  · exact .inr ⟨a', h1, h2⟩
  · by_cases hc : c' = []
    · subst hc
      simp only [List.append_nil, List.nil_append] at h1 h2
      exact .inr ⟨[], by simp [h1], by simp [h2]⟩
    · exact .inl ⟨c', hc, h1⟩

theorem strict_prefix_length {α : Type} {a p q : List α} (h : a = p ++ q) (hq : q ≠ []) : p.length < a.length := by
  have := List.length_pos_iff.mpr hq
  rw [h, List.length_append]; omega

/-! ### T1, primitive pieces -/

theorem readUint_short {n : Nat} {b : Bytes} (h : b.length < n) : readUint n b = .error .ShortRead := by
  simp [readUint, h]

theorem beEncode_trunc {n x : Nat} {p q : Bytes} (h : beEncode n x = p ++ q) (hq : q ≠ []) :
    readUint n p = .error .ShortRead := by
  have hl := strict_prefix_length h hq
  rw [beEncode_length] at hl
  exact readUint_short hl

theorem bigsize_trunc {n : Nat} {p q : Bytes} (h : BigSize.encode n = p ++ q) (hq : q ≠ []) :
    BigSize.decode p = .error .ShortRead := by
  cases p with
  | nil => rfl
  | cons a p' =>
    unfold BigSize.encode at h
    split at h
    · rw [List.cons_append, List.cons.injEq] at h
      have : q = [] := (List.append_eq_nil_iff.mp h.2.symm).2
      exact absurd this hq
    · split at h
      · rw [List.cons_append, List.cons.injEq] at h
        obtain ⟨rfl, h2⟩ := h
        simp [BigSize.decode, beEncode_trunc h2 hq]
      · split at h
        · rw [List.cons_append, List.cons.injEq] at h
          obtain ⟨rfl, h2⟩ := h
          simp [BigSize.decode, beEncode_trunc h2 hq]
        · rw [List.cons_append, List.cons.injEq] at h
          obtain ⟨rfl, h2⟩ := h
          simp [BigSize.decode, beEncode_trunc h2 hq]

theorem collLen_trunc {n : Nat} {p q : Bytes} (h : CollLen.encode n = p ++ q) (hq : q ≠ []) :
    CollLen.decode p = .error .ShortRead := by
  unfold CollLen.encode at h
  split at h
  · simp [CollLen.decode, beEncode_trunc h hq]
  · rcases append_split h with ⟨c, hc, h1⟩ | ⟨p', h1, h2⟩
    · simp [CollLen.decode, beEncode_trunc h1 hc]
    · subst h1
      have e : (0xffff : Nat) % 256 ^ 2 = 0xffff := by decide
      simp only [CollLen.decode, readUint_encode, e, if_true, beEncode_trunc h2 hq]

/-! ### T1, one lemma per non-recursive constructor -/

theorem trunc_uint (n : Nat) (v : Val) (p q : Bytes) (hv : (FieldTy.uint n).valid v = true)
    (h : (FieldTy.uint n).encode v = p ++ q) (hq : q ≠ []) : (FieldTy.uint n).decode p = .error .ShortRead := by
  cases v <;> simp [FieldTy.valid] at hv
  simp only [FieldTy.encode] at h
  simp [FieldTy.decode, beEncode_trunc h hq]

theorem trunc_fixed (n : Nat) (c : Check) (v : Val) (p q : Bytes) (hv : (FieldTy.fixed n c).valid v = true)
    (h : (FieldTy.fixed n c).encode v = p ++ q) (hq : q ≠ []) : (FieldTy.fixed n c).decode p = .error .ShortRead := by
  cases v <;> simp [FieldTy.valid] at hv
  simp only [FieldTy.encode] at h
  have hl := strict_prefix_length h hq
  simp only [FieldTy.decode]
  rw [if_pos (by omega)]

theorem trunc_unit (v : Val) (p q : Bytes) (hv : FieldTy.unit.valid v = true)
    (h : FieldTy.unit.encode v = p ++ q) (hq : q ≠ []) : False := by
  cases v <;> simp [FieldTy.valid] at hv
  simp only [FieldTy.encode] at h
  exact hq (List.append_eq_nil_iff.mp h.symm).2

theorem trunc_bigsize (v : Val) (p q : Bytes) (hv : FieldTy.bigsize.valid v = true)
    (h : FieldTy.bigsize.encode v = p ++ q) (hq : q ≠ []) : FieldTy.bigsize.decode p = .error .ShortRead := by
  cases v <;> simp [FieldTy.valid] at hv
  simp only [FieldTy.encode] at h
  simp [FieldTy.decode, bigsize_trunc h hq]

/-- HighZeroBytesDroppedBigSize reads to the end of its reader: a prefix of an encoding is itself an encoding -/
theorem trunc_hzd (n : Nat) (v : Val) (p q : Bytes) (hv : (FieldTy.hzd n).valid v = true)
    (h : (FieldTy.hzd n).encode v = p ++ q) : ∃ v' r', (FieldTy.hzd n).decode p = .ok (v', r') := by
  cases v <;> simp [FieldTy.valid] at hv
  rename_i x
  simp only [FieldTy.encode] at h
  simp only [FieldTy.decode]
  split
  · exact ⟨_, _, rfl⟩
  · split
    · rename_i hh
      exfalso
      cases p with
      | nil => simp at hh
      | cons a p' =>
        simp only [List.head?_cons, Option.some.injEq] at hh
        subst hh
        apply dropZeros_head (beEncode n x)
        rw [h]; rfl
    · exact ⟨_, _, rfl⟩

theorem trunc_varBytes (v : Val) (p q : Bytes) (hv : FieldTy.varBytes.valid v = true)
    (h : FieldTy.varBytes.encode v = p ++ q) (hq : q ≠ []) : FieldTy.varBytes.decode p = .error .ShortRead := by
  cases v <;> simp [FieldTy.valid] at hv
  rename_i b
  simp only [FieldTy.encode] at h
  rcases append_split h with ⟨c, hc, h1⟩ | ⟨p', h1, h2⟩
  · simp [FieldTy.decode, collLen_trunc h1 hc]
  · subst h1
    have hl := strict_prefix_length h2 hq
    simp only [FieldTy.decode, collLen_roundtrip _ hv]
    rw [if_pos hl]

theorem trunc_bytes16 (v : Val) (p q : Bytes) (hv : FieldTy.bytes16.valid v = true)
    (h : FieldTy.bytes16.encode v = p ++ q) (hq : q ≠ []) : FieldTy.bytes16.decode p = .error .ShortRead := by
  cases v <;> simp [FieldTy.valid] at hv
  rename_i b
  simp only [FieldTy.encode] at h
  rcases append_split h with ⟨c, hc, h1⟩ | ⟨p', h1, h2⟩
  · simp [FieldTy.decode, beEncode_trunc h1 hc]
  · subst h1
    have hl := strict_prefix_length h2 hq
    have hm : b.length % 256 ^ 2 = b.length := Nat.mod_eq_of_lt (by omega)
    simp only [FieldTy.decode, readUint_encode, hm]
    rw [if_pos hl]

theorem trunc_chunks (n : Nat) (p : Bytes) :
    (FieldTy.chunks n).decode p = .error .ShortRead ∨ ∃ v' r', (FieldTy.chunks n).decode p = .ok (v', r') := by
  simp only [FieldTy.decode]
  split
  · exact .inr ⟨_, _, rfl⟩
  · exact .inl rfl

/-! ### T1, SocketAddress -/

theorem part_trunc (pt : AddrPart) (v : Val) (p q : Bytes) (hv : pt.valid v = true)
    (h : pt.encode v = p ++ q) (hq : q ≠ []) : pt.decode p = .error .ShortRead := by
  cases pt <;> cases v <;> simp [AddrPart.valid] at hv
  · simp only [AddrPart.encode] at h
    have hl := strict_prefix_length h hq
    simp only [AddrPart.decode]
    rw [if_pos (by omega)]
  · simp only [AddrPart.encode] at h
    simp [AddrPart.decode, beEncode_trunc h hq]
  · simp only [AddrPart.encode] at h
    simp [AddrPart.decode, beEncode_trunc h hq]
  · rename_i b
    simp only [AddrPart.encode] at h
    rcases append_split h with ⟨c, hc, h1⟩ | ⟨p', h1, h2⟩
    · simp [AddrPart.decode, beEncode_trunc h1 hc]
    · subst h1
      have hl := strict_prefix_length h2 hq
      have hm : b.length % 256 ^ 1 = b.length := Nat.mod_eq_of_lt (by omega)
      simp only [AddrPart.decode, readUint_encode, hm]
      rw [if_pos hl]

theorem parts_trunc : ∀ (ps : List AddrPart) (vs : List Val) (p q : Bytes), validParts ps vs = true →
    encodeParts ps vs = p ++ q → q ≠ [] → decodeParts ps p = .error .ShortRead
  | [], [], p, q, _, h, hq => by
    simp only [encodeParts] at h
    exact absurd (List.append_eq_nil_iff.mp h.symm).2 hq
  | [], _ :: _, _, _, hv, _, _ => by simp [validParts] at hv
  | _ :: _, [], _, _, hv, _, _ => by simp [validParts] at hv
  | pt :: ps, v :: vs, p, q, hv, h, hq => by
    simp only [validParts, Bool.and_eq_true] at hv
    simp only [encodeParts] at h
    rcases append_split h with ⟨c, hc, h1⟩ | ⟨p', h1, h2⟩
    · simp [decodeParts, part_trunc pt v p c hv.1 h1 hc]
    · subst h1
      simp [decodeParts, part_roundtrip pt v p' hv.1, parts_trunc ps vs p' q hv.2 h2 hq]

theorem trunc_sockAddr (kinds : List AddrKind) (v : Val) (p q : Bytes) (hwf : (FieldTy.sockAddr kinds).wf = true)
    (hv : (FieldTy.sockAddr kinds).valid v = true)
    (h : (FieldTy.sockAddr kinds).encode v = p ++ q) (hq : q ≠ []) :
    (FieldTy.sockAddr kinds).decode p = .error .ShortRead := by
  simp only [FieldTy.wf] at hwf
  cases v with
  | pair x vs =>
    cases x with
    | nat id =>
      simp only [FieldTy.valid, Bool.and_eq_true] at hv
      obtain ⟨_, hva⟩ := hv
      simp only [FieldTy.encode] at h
      unfold SockAddr.valid at hva
      unfold SockAddr.encode at h
      simp only at hva h
      split at hva
      · rename_i k hf
        rw [hf] at h
        simp only at h
        obtain ⟨hm, hid⟩ := findKind_some hf
        obtain ⟨hlt, _, _⟩ := kindsWf_mem hwf hm
        cases p with
        | nil => simp [FieldTy.decode, decodeAddr, decodeAddrResult]
        | cons t p' =>
          rw [List.cons_append, List.cons.injEq] at h
          obtain ⟨rfl, h2⟩ := h
          have ht : (UInt8.ofNat id).toNat = id := by rw [UInt8.toNat_ofNat']; omega
          simp [FieldTy.decode, decodeAddr, decodeAddrResult, ht, hf, parts_trunc _ _ p' q hva h2 hq]
      · cases hva
    | _ => simp [FieldTy.valid] at hv
  | _ => simp [FieldTy.valid] at hv

/-! ### T1, vectors -/

theorem decN_trunc (e : FieldTy)
    (hrt : ∀ (x : Val) (r : Bytes), e.valid x = true → e.decode (e.encode x ++ r) = .ok (x, r))
    (htr : ∀ (x : Val) (p q : Bytes), e.valid x = true → e.encode x = p ++ q → q ≠ [] → e.decode p = .error .ShortRead) :
    ∀ (v : Val) (p q : Bytes), v.allElems e.valid = true → encList e.encode v = p ++ q → q ≠ [] →
      decN e.decode v.len p = .error .ShortRead := by
  intro v
  induction v with
  | nat n => intro p q h; simp [Val.allElems] at h
  | bytes b => intro p q h; simp [Val.allElems] at h
  | unit =>
    intro p q _ h hq
    simp only [encList] at h
    exact absurd (List.append_eq_nil_iff.mp h.symm).2 hq
  | pair x xs _ ihxs =>
    intro p q hv h hq
    simp only [Val.allElems, Bool.and_eq_true] at hv
    simp only [encList] at h
    rcases append_split h with ⟨c, hc, h1⟩ | ⟨p', h1, h2⟩
    · simp [Val.len, decN, htr x p c hv.1 h1 hc]
    · subst h1
      simp [Val.len, decN, hrt x p' hv.1, ihxs p' q hv.2 h2 hq]

/-! ### T1: a strict prefix of a field encoding -/

/-- (T1) Every strict prefix `p` of the encoding of a valid value of a well-formed type decodes to `ShortRead` or to some
    value — never to an error other than `ShortRead` — and to `ShortRead` when the type is self-delimiting. -/
theorem field_trunc (ty : FieldTy) : ∀ (v : Val) (p q : Bytes), ty.wf = true → ty.valid v = true →
    ty.encode v = p ++ q → q ≠ [] →
    (ty.decode p = .error .ShortRead ∨ ∃ v' r', ty.decode p = .ok (v', r')) ∧
    (ty.selfDelim = true → ty.decode p = .error .ShortRead) := by
  induction ty with
  | uint n => intro v p q _ hv h hq; have := trunc_uint n v p q hv h hq; exact ⟨.inl this, fun _ => this⟩
  | fixed n c => intro v p q _ hv h hq; have := trunc_fixed n c v p q hv h hq; exact ⟨.inl this, fun _ => this⟩
  | unit => intro v p q _ hv h hq; exact (trunc_unit v p q hv h hq).elim
  | bigsize => intro v p q _ hv h hq; have := trunc_bigsize v p q hv h hq; exact ⟨.inl this, fun _ => this⟩
  | hzd n => intro v p q _ hv h _; exact ⟨.inr (trunc_hzd n v p q hv h), fun hs => by simp [FieldTy.selfDelim] at hs⟩
  | varBytes => intro v p q _ hv h hq; have := trunc_varBytes v p q hv h hq; exact ⟨.inl this, fun _ => this⟩
  | bytes16 => intro v p q _ hv h hq; have := trunc_bytes16 v p q hv h hq; exact ⟨.inl this, fun _ => this⟩
  | restBytes =>
    intro v p q _ _ _ _
    exact ⟨.inr ⟨.bytes p, [], by simp [FieldTy.decode]⟩, fun hs => by simp [FieldTy.selfDelim] at hs⟩
  | pair a b iha ihb =>
    intro v p q hwf hv h hq
    cases v <;> simp [FieldTy.valid] at hv
    rename_i x y
    simp only [FieldTy.wf, Bool.and_eq_true] at hwf
    obtain ⟨⟨hwa, hsa⟩, hwb⟩ := hwf
    simp only [FieldTy.encode] at h
    rcases append_split h with ⟨c, hc, h1⟩ | ⟨p', h1, h2⟩
    · have := (iha x p c hwa hv.1 h1 hc).2 hsa
      have e : (FieldTy.pair a b).decode p = .error .ShortRead := by simp [FieldTy.decode, this]
      exact ⟨.inl e, fun _ => e⟩
    · subst h1
      have hrt := field_roundtrip a x p' hwa hv.1 (.inl hsa)
      obtain ⟨i1, i2⟩ := ihb y p' q hwb hv.2 h2 hq
      refine ⟨?_, ?_⟩
      · rcases i1 with e | ⟨v', r', e⟩
        · exact .inl (by simp [FieldTy.decode, hrt, e])
        · exact .inr ⟨.pair x v', r', by simp [FieldTy.decode, hrt, e]⟩
      · intro hs
        simp only [FieldTy.selfDelim, Bool.and_eq_true] at hs
        simp [FieldTy.decode, hrt, i2 hs.2]
  | vec e ih =>
    intro v p q hwf hv h hq
    simp only [FieldTy.wf, Bool.and_eq_true] at hwf
    have hv' : v.len < 2 ^ 64 ∧ v.allElems e.valid = true := by
      cases v <;> simpa [FieldTy.valid] using hv
    have henc : (FieldTy.vec e).encode v = CollLen.encode v.len ++ encList e.encode v := by
      cases v <;> simp [FieldTy.encode]
    rw [henc] at h
    have e : (FieldTy.vec e).decode p = .error .ShortRead := by
      rcases append_split h with ⟨c, hc, h1⟩ | ⟨p', h1, h2⟩
      · simp [FieldTy.decode, collLen_trunc h1 hc]
      · subst h1
        simp only [FieldTy.decode, collLen_roundtrip _ hv'.1]
        exact decN_trunc e (fun x r hx => field_roundtrip e x r hwf.1 hx (.inl hwf.2))
          (fun x p q hx hh hq => (ih x p q hwf.1 hx hh hq).2 hwf.2) v p' q hv'.2 h2 hq
    exact ⟨.inl e, fun _ => e⟩
  | sockAddr kinds =>
    intro v p q hwf hv h hq; have := trunc_sockAddr kinds v p q hwf hv h hq; exact ⟨.inl this, fun _ => this⟩
  | chunks n => intro v p q _ _ _ _; exact ⟨trunc_chunks n p, fun hs => by simp [FieldTy.selfDelim] at hs⟩

/-- (T1, first half) never an error other than `ShortRead` -/
theorem field_trunc_no_other_error (ty : FieldTy) (v : Val) (p q : Bytes) (hwf : ty.wf = true) (hv : ty.valid v = true)
    (h : ty.encode v = p ++ q) (hq : q ≠ []) :
    ty.decode p = .error .ShortRead ∨ ∃ v' r', ty.decode p = .ok (v', r') :=
  (field_trunc ty v p q hwf hv h hq).1

/-- (T1, second half) a self-delimiting type answers `ShortRead` on every strict prefix -/
theorem field_trunc_selfDelim (ty : FieldTy) (v : Val) (p q : Bytes) (hwf : ty.wf = true) (hv : ty.valid v = true)
    (hs : ty.selfDelim = true) (h : ty.encode v = p ++ q) (hq : q ≠ []) : ty.decode p = .error .ShortRead :=
  (field_trunc ty v p q hwf hv h hq).2 hs

/-! ### T2: the fixed part -/

theorem decodeFixed_trunc : ∀ (ts : List FieldTy) (vs : List Val) (p q : Bytes),
    (∀ t ∈ ts, t.wf = true ∧ t.selfDelim = true) → validFixed ts vs = true →
    encodeFixed ts vs = p ++ q → q ≠ [] → decodeFixed ts p = .error .ShortRead
  | [], [], p, q, _, _, h, hq => by
    simp only [encodeFixed] at h
    exact absurd (List.append_eq_nil_iff.mp h.symm).2 hq
  | [], _ :: _, _, _, _, hv, _, _ => by simp [validFixed] at hv
  | _ :: _, [], _, _, _, hv, _, _ => by simp [validFixed] at hv
  | t :: ts, v :: vs, p, q, hw, hv, h, hq => by
    simp only [validFixed, Bool.and_eq_true] at hv
    simp only [encodeFixed] at h
    have ht := hw t (List.mem_cons_self)
    rcases append_split h with ⟨c, hc, h1⟩ | ⟨p', h1, h2⟩
    · simp [decodeFixed, field_trunc_selfDelim t v p c ht.1 hv.1 ht.2 h1 hc]
    · subst h1
      simp [decodeFixed, field_roundtrip t v p' ht.1 hv.1 (.inl ht.2),
        decodeFixed_trunc ts vs p' q (fun u hu => hw u (List.mem_cons_of_mem _ hu)) hv.2 h2 hq]

/-- (T2) a cut strictly inside the fixed part is `ShortRead` -/
theorem trunc_fixed_part (s : Schema) (v : MsgVal) (hwf : s.wf = true) (hv : v.valid s = true) (p q : Bytes)
    (h : encodeFixed s.fixed v.fixed = p ++ q) (hq : q ≠ []) :
    decodeFixed s.fixed p = .error .ShortRead ∧ s.decode p = .error .ShortRead := by
  obtain ⟨h1, _, _⟩ := schema_wf_parts hwf
  simp only [MsgVal.valid, Bool.and_eq_true] at hv
  have := decodeFixed_trunc s.fixed v.fixed p q h1 hv.1 h hq
  exact ⟨this, by simp [Schema.decode, this]⟩

/-! ### the TLV loop on the records of the first fields, followed by anything -/

theorem encodeTlvs_mask_take : ∀ (fs : List TlvField) (vs : List (Option Val)) (k : Nat),
    encodeTlvs fs (maskAfter k vs) = encodeTlvs (fs.take k) (vs.take k)
  | [], _, _ => by simp [encodeTlvs]
  | _ :: _, [], _ => by simp [maskAfter, encodeTlvs]
  | f :: fs, v :: vs, 0 => by simp [encodeTlvs_mask_zero, encodeTlvs]
  | f :: fs, none :: vs, k + 1 => by simp [maskAfter, encodeTlvs, encodeTlvs_mask_take fs vs k]
  | f :: fs, some x :: vs, k + 1 => by simp [maskAfter, encodeTlvs, encodeTlvs_mask_take fs vs k]

theorem validTlvs_take : ∀ (fs : List TlvField) (vs : List (Option Val)) (k : Nat),
    validTlvs fs vs = true → validTlvs (fs.take k) (vs.take k) = true
  | [], [], _, _ => by simp [validTlvs]
  | [], _ :: _, _, h => by simp [validTlvs] at h
  | _ :: _, [], _, h => by simp [validTlvs] at h
  | f :: fs, v :: vs, 0, _ => by simp [validTlvs]
  | f :: fs, none :: vs, k + 1, h => by
    simp only [validTlvs, Bool.and_eq_true] at h
    simp [validTlvs, h.1, validTlvs_take fs vs k h.2]
  | f :: fs, some x :: vs, k + 1, h => by
    simp only [validTlvs, Bool.and_eq_true] at h
    simp only [List.take_succ_cons, validTlvs, Bool.and_eq_true]
    exact ⟨h.1, validTlvs_take fs vs k h.2⟩

theorem validTlvs_getElem : ∀ (fs : List TlvField) (vs : List (Option Val)) (k : Nat) (f : TlvField) (x : Val),
    validTlvs fs vs = true → fs[k]? = some f → vs[k]? = some (some x) →
    f.ty.valid x = true ∧ (f.ty.encode x).length < 2 ^ 64
  | [], _, _, _, _, _, hf, _ => by simp at hf
  | _ :: _, [], _, _, _, h, _, _ => by simp [validTlvs] at h
  | g :: fs, ov :: vs, 0, f, x, h, hf, hx => by
    simp only [List.getElem?_cons_zero, Option.some.injEq] at hf hx
    subst hf; subst hx
    simp only [validTlvs, Bool.and_eq_true, decide_eq_true_eq] at h
    exact h.1
  | g :: fs, ov :: vs, k + 1, f, x, h, hf, hx => by
    simp only [List.getElem?_cons_succ] at hf hx
    have hrest : validTlvs fs vs = true := by
      cases ov <;> simp only [validTlvs, Bool.and_eq_true] at h <;> exact h.2
    exact validTlvs_getElem fs vs k f x hrest hf hx

/-- in a valid value a required field is always present (so `reqDropped … k` says: a required record lies behind the cut) -/
theorem validTlvs_required_present : ∀ (fs : List TlvField) (vs : List (Option Val)) (i : Nat) (f : TlvField),
    validTlvs fs vs = true → fs[i]? = some f → f.kind = .required → ∃ x, vs[i]? = some (some x)
  | [], _, _, _, _, hf, _ => by simp at hf
  | _ :: _, [], _, _, h, _, _ => by simp [validTlvs] at h
  | g :: fs, some x :: vs, 0, f, _, _, _ => ⟨x, rfl⟩
  | g :: fs, none :: vs, 0, f, h, hf, hk => by
    simp only [List.getElem?_cons_zero, Option.some.injEq] at hf
    subst hf
    simp only [validTlvs, Bool.and_eq_true, beq_iff_eq] at h
    rw [hk] at h; cases h.1
  | g :: fs, ov :: vs, i + 1, f, h, hf, hk => by
    simp only [List.getElem?_cons_succ] at hf ⊢
    have hrest : validTlvs fs vs = true := by
      cases ov <;> simp only [validTlvs, Bool.and_eq_true] at h <;> exact h.2
    exact validTlvs_required_present fs vs i f hrest hf hk

/-- one known, well-framed, fully consumed record at the head of the stream: one loop iteration -/
theorem tlvLoop_step (tlvs : List TlvField) (f : TlvField) (val : Bytes) (v : Val) (tail : Bytes) (fuel : Nat)
    (last : Option Nat) (acc : List (Nat × Val))
    (ht : f.typ < 2 ^ 64) (hl : val.length < 2 ^ 64) (hlast : lastLt last f.typ = true)
    (hskip : reqSkipped tlvs last f.typ = false) (hfind : tlvs.find? (fun g => g.typ == f.typ) = some f)
    (hdec : f.ty.decode val = .ok (v, [])) :
    tlvLoop tlvs (fuel + 1) last acc (BigSize.encode f.typ ++ (BigSize.encode val.length ++ (val ++ tail))) =
      tlvLoop tlvs fuel (some f.typ) (acc ++ [(f.typ, v)]) tail := by
  have hne : (BigSize.encode f.typ ++ (BigSize.encode val.length ++ (val ++ tail))).isEmpty = false := by
    cases h : BigSize.encode f.typ with
    | nil => exact absurd h (BigSize.encode_ne_nil _)
    | cons _ _ => rfl
  rw [tlvLoop, hne]
  simp only [Bool.false_eq_true, if_false, bigsize_roundtrip' _ ht, bigsize_roundtrip' _ hl, hlast, hskip, hfind,
    List.take_left' rfl, List.drop_left' rfl, hdec, List.length_append, Bool.not_true, List.isEmpty_nil, Bool.true_and,
    Nat.le_add_right, decide_true, if_true]

/-- position of a declared field: it is the one `find?` returns, the fields before it have smaller types, the ones after it
    larger types -/
theorem split_facts (tlvs A B : List TlvField) (f : TlvField) (hpw : (tlvs.map (·.typ)).Pairwise (· < ·))
    (hs : tlvs = A ++ f :: B) :
    tlvs.find? (fun g => g.typ == f.typ) = some f ∧ (∀ g ∈ A, g.typ < f.typ) ∧ (∀ g ∈ B, f.typ < g.typ) := by
  rw [hs, List.map_append, List.map_cons, List.pairwise_append] at hpw
  obtain ⟨_, hpw2, hpw3⟩ := hpw
  rw [List.pairwise_cons] at hpw2
  have hpre : ∀ g ∈ A, g.typ < f.typ := fun g hg => hpw3 _ (List.mem_map_of_mem hg) _ (List.mem_cons_self)
  have hsuf : ∀ g ∈ B, f.typ < g.typ := fun g hg => hpw2.1 _ (List.mem_map_of_mem hg)
  refine ⟨?_, hpre, hsuf⟩
  rw [hs, List.find?_append]
  have : A.find? (fun g => g.typ == f.typ) = none := by
    rw [List.find?_eq_none]
    intro g hg
    have := hpre g hg
    simp; omega
  rw [this]; simp

theorem reqSkipped_false (tlvs A B : List TlvField) (f : TlvField) (last : Option Nat) (hs : tlvs = A ++ f :: B)
    (hA : ∀ g ∈ A, g.kind = .required → lastLt last g.typ = false) (hB : ∀ g ∈ B, f.typ < g.typ) :
    reqSkipped tlvs last f.typ = false := by
  rw [reqSkipped, List.any_eq_false]
  intro g hg
  rw [hs] at hg
  rcases List.mem_append.mp hg with hg | hg
  · cases hk : g.kind with
    | option => simp
    | required => simp [hA g hg hk]
  · rcases List.mem_cons.mp hg with rfl | hg
    · simp
    · have := hB g hg
      have : ¬ g.typ < f.typ := by omega
      simp [this]

/-- the loop runs through the records of the fields `mid` (values `mvals`) and arrives at whatever follows (`tail`) in a
    state where: every required field up to the end of `mid` is behind `last'`, every later field is ahead of it -/
theorem tlvLoop_run (tlvs : List TlvField) (hpw : (tlvs.map (·.typ)).Pairwise (· < ·))
    (hwf : ∀ f ∈ tlvs, f.ty.wf = true ∧ f.typ < 2 ^ 64) :
    ∀ (mid pre rest : List TlvField) (mvals : List (Option Val)) (last : Option Nat) (acc : List (Nat × Val))
      (tail : Bytes) (fuel : Nat),
    tlvs = pre ++ (mid ++ rest) → validTlvs mid mvals = true →
    (∀ g ∈ pre, g.kind = .required → lastLt last g.typ = false) →
    (∀ g ∈ mid ++ rest, lastLt last g.typ = true) →
    (encodeTlvs mid mvals ++ tail).length < fuel →
    ∃ last' fuel', tail.length < fuel' ∧
      tlvLoop tlvs fuel last acc (encodeTlvs mid mvals ++ tail) =
        tlvLoop tlvs fuel' last' (acc ++ presentVals mid mvals) tail ∧
      (∀ g ∈ pre ++ mid, g.kind = .required → lastLt last' g.typ = false) ∧
      (∀ g ∈ rest, lastLt last' g.typ = true) := by
  intro mid
  induction mid with
  | nil =>
    intro pre rest mvals last acc tail fuel _ hval hb hc hfuel
    cases mvals with
    | cons _ _ => simp [validTlvs] at hval
    | nil =>
      refine ⟨last, fuel, by simpa [encodeTlvs] using hfuel, by simp [encodeTlvs, presentVals], ?_, ?_⟩
      · simpa using hb
      · simpa using hc
  | cons f mid' ih =>
    intro pre rest mvals last acc tail fuel hsplit hval hb hc hfuel
    have hsplit' : tlvs = (pre ++ [f]) ++ (mid' ++ rest) := by rw [hsplit]; simp
    have hsplit'' : tlvs = pre ++ f :: (mid' ++ rest) := by rw [hsplit]; simp
    obtain ⟨hfind, hpre, hsuf⟩ := split_facts tlvs pre (mid' ++ rest) f hpw hsplit''
    cases mvals with
    | nil => simp [validTlvs] at hval
    | cons ov mvals' =>
      cases ov with
      | none =>
        simp only [validTlvs, Bool.and_eq_true, beq_iff_eq] at hval
        simp only [encodeTlvs, presentVals] at hfuel ⊢
        obtain ⟨last', fuel', h1, h2, h3, h4⟩ := ih (pre ++ [f]) rest mvals' last acc tail fuel hsplit' hval.2
          (by
            intro g hg hk
            rcases List.mem_append.mp hg with hg | hg
            · exact hb g hg hk
            · simp only [List.mem_singleton] at hg; subst hg; rw [hval.1] at hk; cases hk)
          (fun g hg => hc g (List.mem_cons_of_mem _ hg)) hfuel
        exact ⟨last', fuel', h1, h2, by simpa using h3, h4⟩
      | some x =>
        simp only [validTlvs, Bool.and_eq_true, decide_eq_true_eq] at hval
        obtain ⟨⟨hv, hlen⟩, hval'⟩ := hval
        have hmem : f ∈ tlvs := by rw [hsplit'']; simp
        have hlast : lastLt last f.typ = true := hc f (List.mem_cons_self)
        have hskip := reqSkipped_false tlvs pre (mid' ++ rest) f last hsplit'' hb hsuf
        have hdec := field_roundtrip f.ty x [] (hwf f hmem).1 hv (.inr rfl)
        rw [List.append_nil] at hdec
        have hre : encodeTlvs (f :: mid') (some x :: mvals') ++ tail =
            BigSize.encode f.typ ++ (BigSize.encode (f.ty.encode x).length ++
              (f.ty.encode x ++ (encodeTlvs mid' mvals' ++ tail))) := by
          simp [encodeTlvs]
        rw [hre] at hfuel ⊢
        have hpos := List.length_pos_iff.mpr (BigSize.encode_ne_nil f.typ)
        simp only [List.length_append] at hfuel
        cases fuel with
        | zero => omega
        | succ fuel0 =>
          rw [tlvLoop_step tlvs f _ x _ fuel0 last acc (hwf f hmem).2 hlen hlast hskip hfind hdec]
          obtain ⟨last', fuel', h1, h2, h3, h4⟩ := ih (pre ++ [f]) rest mvals' (some f.typ) (acc ++ [(f.typ, x)]) tail
            fuel0 hsplit' hval'
            (by
              intro g hg hk
              rcases List.mem_append.mp hg with hg | hg
              · have := hpre g hg
                rw [lastLt_some]; simp; omega
              · simp only [List.mem_singleton] at hg; subst hg; rw [lastLt_some]; simp)
            (by
              intro g hg
              have := hsuf g hg
              rw [lastLt_some]; simp; omega)
            (by simp only [List.length_append]; omega)
          refine ⟨last', fuel', h1, ?_, by simpa using h3, h4⟩
          rw [h2]; simp [presentVals]

/-- the same, from the start of the stream, for the first `k` declared fields -/
theorem tlvLoop_run_take (tlvs : List TlvField) (hpw : (tlvs.map (·.typ)).Pairwise (· < ·))
    (hwf : ∀ f ∈ tlvs, f.ty.wf = true ∧ f.typ < 2 ^ 64) (vals : List (Option Val)) (hv : validTlvs tlvs vals = true)
    (k : Nat) (tail : Bytes) :
    ∃ last' fuel' acc', tail.length < fuel' ∧
      decodeTlvStream tlvs (encodeTlvs tlvs (maskAfter k vals) ++ tail) = tlvLoop tlvs fuel' last' acc' tail ∧
      (∀ g ∈ tlvs.take k, g.kind = .required → lastLt last' g.typ = false) ∧
      (∀ g ∈ tlvs.drop k, lastLt last' g.typ = true) := by
  obtain ⟨last', fuel', h1, h2, h3, h4⟩ := tlvLoop_run tlvs hpw hwf (tlvs.take k) [] (tlvs.drop k) (vals.take k) none []
    tail ((encodeTlvs (tlvs.take k) (vals.take k) ++ tail).length + 1) (by simp) (validTlvs_take tlvs vals k hv)
    (by simp) (by intro g _; rfl) (by omega)
  refine ⟨last', fuel', [] ++ presentVals (tlvs.take k) (vals.take k), h1, ?_, by simpa using h3, h4⟩
  rw [decodeTlvStream, encodeTlvs_mask_take]
  exact h2

/-! ### T4: a cut exactly between two records -/

theorem validTlvs_mask : ∀ (fs : List TlvField) (vs : List (Option Val)) (k : Nat), validTlvs fs vs = true →
    ((fs.drop k).any fun f => f.kind == .required) = false → validTlvs fs (maskAfter k vs) = true
  | [], [], _, _, _ => by simp [maskAfter, validTlvs]
  | [], _ :: _, _, h, _ => by simp [validTlvs] at h
  | _ :: _, [], _, h, _ => by simp [validTlvs] at h
  | f :: fs, ov :: vs, 0, h, hd => by
    simp only [List.drop_zero, List.any_cons, Bool.or_eq_false_iff] at hd
    have hk : (f.kind == TlvKind.option) = true := by
      cases hk : f.kind with
      | option => rfl
      | required => rw [hk] at hd; simp at hd
    have hrest : validTlvs fs vs = true := by
      cases ov <;> simp only [validTlvs, Bool.and_eq_true] at h <;> exact h.2
    simp only [maskAfter, validTlvs, hk, Bool.true_and]
    exact validTlvs_mask fs vs 0 hrest (by simpa using hd.2)
  | f :: fs, none :: vs, k + 1, h, hd => by
    simp only [validTlvs, Bool.and_eq_true] at h
    simp only [maskAfter, validTlvs, Bool.and_eq_true]
    exact ⟨h.1, validTlvs_mask fs vs k h.2 (by simpa using hd)⟩
  | f :: fs, some x :: vs, k + 1, h, hd => by
    simp only [validTlvs, Bool.and_eq_true] at h
    simp only [maskAfter, validTlvs, Bool.and_eq_true]
    exact ⟨h.1, validTlvs_mask fs vs k h.2 (by simpa using hd)⟩

/-- after the fixed part of a valid value, an error of the TLV stream decoder is the answer of the message decoder -/
theorem schema_decode_after_fixed (s : Schema) (v : MsgVal) (hwf : s.wf = true) (hv : v.valid s = true) (X : Bytes)
    (e : DecodeError) (he : decodeTlvStream s.tlvs X = .error e) :
    s.decode (encodeFixed s.fixed v.fixed ++ X) = .error e := by
  obtain ⟨h1, _, _⟩ := schema_wf_parts hwf
  simp only [MsgVal.valid, Bool.and_eq_true] at hv
  simp only [Schema.decode, decodeFixed_roundtrip _ _ _ h1 hv.1, he]

/-- (T4) a cut exactly between two TLV records: the later optional records are simply absent; a cut-off required record is
    `_check_missing_tlv!` ⇒ `InvalidValue` -/
theorem trunc_at_boundary (s : Schema) (v : MsgVal) (hwf : s.wf = true) (hv : v.valid s = true) (k : Nat) :
    s.decode (boundaryCut s v k) =
      if reqDropped s.tlvs v.tlvs k then .error .InvalidValue else .ok ⟨v.fixed, maskAfter k v.tlvs⟩ := by
  cases hd : reqDropped s.tlvs v.tlvs k with
  | false =>
    simp only [Bool.false_eq_true, if_false]
    have hv' : (MsgVal.mk v.fixed (maskAfter k v.tlvs)).valid s = true := by
      simp only [MsgVal.valid, Bool.and_eq_true] at hv ⊢
      exact ⟨hv.1, validTlvs_mask s.tlvs v.tlvs k hv.2 hd⟩
    exact schema_roundtrip s ⟨v.fixed, maskAfter k v.tlvs⟩ hwf hv'
  | true =>
    simp only [if_true]
    obtain ⟨_, h2, h3⟩ := schema_wf_parts hwf
    have hvt : validTlvs s.tlvs v.tlvs = true := by
      simp only [MsgVal.valid, Bool.and_eq_true] at hv; exact hv.2
    obtain ⟨last', fuel', acc', hf, hrun, _, hahead⟩ := tlvLoop_run_take s.tlvs h3
      (fun f hf => ⟨(h2 f hf).1, (h2 f hf).2.1⟩) v.tlvs hvt k []
    rw [List.append_nil] at hrun
    have hmiss : reqMissing s.tlvs last' = true := by
      rw [reqDropped, List.any_eq_true] at hd
      obtain ⟨g, hg, hk⟩ := hd
      rw [reqMissing, List.any_eq_true]
      exact ⟨g, List.mem_of_mem_drop hg, by simp [hk, hahead g hg]⟩
    rw [boundaryCut]
    apply schema_decode_after_fixed s v hwf hv
    rw [hrun]
    cases fuel' with
    | zero => simp at hf
    | succ n => simp [tlvLoop, hmiss]

/-- the answer at a record boundary is never `ShortRead` -/
theorem trunc_at_boundary_ne_shortRead (s : Schema) (v : MsgVal) (hwf : s.wf = true) (hv : v.valid s = true) (k : Nat) :
    s.decode (boundaryCut s v k) ≠ .error .ShortRead := by
  rw [trunc_at_boundary s v hwf hv k]
  split <;> simp

/-! ### T3: a cut inside a record -/

/-- the loop on a non-empty strict prefix of one well-framed record of a known field -/
theorem tlvLoop_cut (tlvs : List TlvField) (f : TlvField) (x : Val) (p' q' : Bytes) (fuel : Nat) (last : Option Nat)
    (acc : List (Nat × Val)) (ht : f.typ < 2 ^ 64) (hwf : f.ty.wf = true) (hv : f.ty.valid x = true)
    (hl : (f.ty.encode x).length < 2 ^ 64) (hlast : lastLt last f.typ = true)
    (hskip : reqSkipped tlvs last f.typ = false) (hfind : tlvs.find? (fun g => g.typ == f.typ) = some f)
    (hcut : BigSize.encode f.typ ++ (BigSize.encode (f.ty.encode x).length ++ f.ty.encode x) = p' ++ q')
    (hp : p' ≠ []) (hq : q' ≠ []) (hfuel : p'.length < fuel) :
    tlvLoop tlvs fuel last acc p' = .error .ShortRead := by
  cases fuel with
  | zero => simp at hfuel
  | succ n =>
    have hne : p'.isEmpty = false := by cases p' with
      | nil => exact absurd rfl hp
      | cons _ _ => rfl
    rw [tlvLoop, hne]
    simp only [Bool.false_eq_true, if_false]
    rcases append_split hcut with ⟨c, hc, h1⟩ | ⟨a', h1, h2⟩
    · rw [bigsize_trunc h1 hc]
    · subst h1
      simp only [bigsize_roundtrip' _ ht, hlast, hskip, Bool.not_true, Bool.false_eq_true, if_false]
      rcases append_split h2 with ⟨c, hc, h3⟩ | ⟨a'', h3, h4⟩
      · rw [bigsize_trunc h3 hc]
      · subst h3
        have hshort := strict_prefix_length h4 hq
        simp only [bigsize_roundtrip' _ hl, hfind, List.take_of_length_le (Nat.le_of_lt hshort)]
        rcases field_trunc_no_other_error f.ty x a'' q' hwf hv h4 hq with e | ⟨v', r', e⟩
        · rw [e]
        · rw [e]
          have : ¬ (f.ty.encode x).length ≤ a''.length := by omega
          simp [this, hshort]

/-- (T3) a cut strictly inside the record of the `k`-th declared field (inside the type, between type and length, inside
    the length, inside the value) is `ShortRead` -/
theorem trunc_inside_record (s : Schema) (v : MsgVal) (hwf : s.wf = true) (hv : v.valid s = true) (k : Nat)
    (f : TlvField) (x : Val) (hf : s.tlvs[k]? = some f) (hx : v.tlvs[k]? = some (some x)) (p' q' : Bytes)
    (hcut : BigSize.encode f.typ ++ (BigSize.encode (f.ty.encode x).length ++ f.ty.encode x) = p' ++ q')
    (hp : p' ≠ []) (hq : q' ≠ []) :
    s.decode (boundaryCut s v k ++ p') = .error .ShortRead := by
  obtain ⟨_, h2, h3⟩ := schema_wf_parts hwf
  have hvt : validTlvs s.tlvs v.tlvs = true := by
    simp only [MsgVal.valid, Bool.and_eq_true] at hv; exact hv.2
  obtain ⟨last', fuel', acc', hfl, hrun, hbehind, hahead⟩ := tlvLoop_run_take s.tlvs h3
    (fun f hf => ⟨(h2 f hf).1, (h2 f hf).2.1⟩) v.tlvs hvt k p'
  have hk : k < s.tlvs.length := by
    rcases Nat.lt_or_ge k s.tlvs.length with h | h
    · exact h
    · rw [List.getElem?_eq_none h] at hf; cases hf
  have hfe : s.tlvs[k] = f := by
    rw [List.getElem?_eq_getElem hk] at hf; exact Option.some.inj hf
  have hsplit : s.tlvs = s.tlvs.take k ++ f :: s.tlvs.drop (k + 1) := by
    rw [← hfe, List.getElem_cons_drop, List.take_append_drop]
  have hdrop : s.tlvs.drop k = f :: s.tlvs.drop (k + 1) := by
    rw [← hfe, List.getElem_cons_drop]
  have hmem : f ∈ s.tlvs := by rw [hsplit]; simp
  obtain ⟨hfind, _, hsuf⟩ := split_facts s.tlvs _ _ f h3 hsplit
  have hskip := reqSkipped_false s.tlvs _ _ f last' hsplit hbehind hsuf
  have hlast : lastLt last' f.typ = true := hahead f (by rw [hdrop]; simp)
  -- the value of the k-th field is valid
  have hvx := validTlvs_getElem s.tlvs v.tlvs k f x hvt hf hx
  rw [boundaryCut, List.append_assoc]
  apply schema_decode_after_fixed s v hwf hv
  rw [hrun]
  exact tlvLoop_cut s.tlvs f x p' q' fuel' last' acc' (h2 f hmem).2.1 (h2 f hmem).1 hvx.1 hvx.2 hlast hskip hfind hcut
    hp hq hfl

/-! ### T5: there is no other kind of cut -/

/-- every prefix `a` of a TLV stream written by `encodeTlvs` ends either exactly between two records or strictly inside the
    record of a present field -/
theorem encodeTlvs_prefix_cases : ∀ (fs : List TlvField) (vs : List (Option Val)) (a q : Bytes),
    encodeTlvs fs vs = a ++ q →
    (∃ k, a = encodeTlvs fs (maskAfter k vs)) ∨
    (∃ (k : Nat) (f : TlvField) (x : Val) (p' q' : Bytes), fs[k]? = some f ∧ vs[k]? = some (some x) ∧
      a = encodeTlvs fs (maskAfter k vs) ++ p' ∧
      BigSize.encode f.typ ++ (BigSize.encode (f.ty.encode x).length ++ f.ty.encode x) = p' ++ q' ∧
      p' ≠ [] ∧ q' ≠ [])
  | [], vs, a, q, h => by
    simp only [encodeTlvs] at h
    exact .inl ⟨0, by simp [encodeTlvs, (List.append_eq_nil_iff.mp h.symm).1]⟩
  | _ :: _, [], a, q, h => by
    simp only [encodeTlvs] at h
    exact .inl ⟨0, by simp [encodeTlvs, maskAfter, (List.append_eq_nil_iff.mp h.symm).1]⟩
  | f :: fs, none :: vs, a, q, h => by
    simp only [encodeTlvs] at h
    rcases encodeTlvs_prefix_cases fs vs a q h with ⟨k, hk⟩ | ⟨k, g, x, p', q', h1, h2, h3, h4, h5, h6⟩
    · exact .inl ⟨k + 1, by simp [maskAfter, encodeTlvs, hk]⟩
    · exact .inr ⟨k + 1, g, x, p', q', by simpa using h1, by simpa using h2, by simp [maskAfter, encodeTlvs, h3], h4, h5, h6⟩
  | f :: fs, some y :: vs, a, q, h => by
    have hre : encodeTlvs (f :: fs) (some y :: vs) =
        (BigSize.encode f.typ ++ (BigSize.encode (f.ty.encode y).length ++ f.ty.encode y)) ++ encodeTlvs fs vs := by
      simp [encodeTlvs]
    rw [hre] at h
    rcases append_split h with ⟨c, hc, h1⟩ | ⟨a', h1, h2⟩
    · by_cases ha : a = []
      · exact .inl ⟨0, by simp [ha, encodeTlvs_mask_zero]⟩
      · exact .inr ⟨0, f, y, a, c, by simp, by simp, by simp [encodeTlvs_mask_zero], h1, ha, hc⟩
    · rcases encodeTlvs_prefix_cases fs vs a' q h2 with ⟨k, hk⟩ | ⟨k, g, x, p', q', g1, g2, g3, g4, g5, g6⟩
      · exact .inl ⟨k + 1, by simp [maskAfter, encodeTlvs, h1, hk]⟩
      · exact .inr ⟨k + 1, g, x, p', q', by simpa using g1, by simpa using g2,
          by simp [maskAfter, encodeTlvs, h1, g3], g4, g5, g6⟩

/-- (T5) the classification of ALL cut points: every prefix `p` of `s.encode v` either decodes to `ShortRead` or ends exactly
    between two TLV records (where `trunc_at_boundary` gives the answer, which is never `ShortRead`).
    (`p = s.encode v` itself is the boundary `k = v.tlvs.length`; no `q ≠ []` is needed.) -/
theorem trunc_classification (s : Schema) (v : MsgVal) (hwf : s.wf = true) (hv : v.valid s = true) (p q : Bytes)
    (h : s.encode v = p ++ q) :
    s.decode p = .error .ShortRead ∨ ∃ k, p = boundaryCut s v k := by
  rw [Schema.encode] at h
  rcases append_split h with ⟨c, hc, h1⟩ | ⟨a, h1, h2⟩
  · exact .inl (trunc_fixed_part s v hwf hv p c h1 hc).2
  · rcases encodeTlvs_prefix_cases s.tlvs v.tlvs a q h2 with ⟨k, hk⟩ | ⟨k, f, x, p', q', g1, g2, g3, g4, g5, g6⟩
    · exact .inr ⟨k, by rw [h1, hk, boundaryCut]⟩
    · left
      rw [h1, g3, ← List.append_assoc]
      exact trunc_inside_record s v hwf hv k f x g1 g2 p' q' g4 g5 g6

/-- the two cases of `trunc_classification` are exclusive -/
theorem trunc_cases_exclusive (s : Schema) (v : MsgVal) (hwf : s.wf = true) (hv : v.valid s = true) (p : Bytes) :
    ¬ (s.decode p = .error .ShortRead ∧ ∃ k, p = boundaryCut s v k) := by
  rintro ⟨h1, k, rfl⟩
  exact trunc_at_boundary_ne_shortRead s v hwf hv k h1

/-- the complete answer for every prefix `p` of the encoding of a valid value: `ShortRead` (cut inside the fixed part or
    inside a record), `InvalidValue` (cut between two records, a required record cut off), or the value with the later
    optional records absent -/
theorem trunc_decode_result (s : Schema) (v : MsgVal) (hwf : s.wf = true) (hv : v.valid s = true) (p q : Bytes)
    (h : s.encode v = p ++ q) :
    s.decode p = .error .ShortRead ∨
    ∃ k, p = boundaryCut s v k ∧
      s.decode p = if reqDropped s.tlvs v.tlvs k then .error .InvalidValue else .ok ⟨v.fixed, maskAfter k v.tlvs⟩ := by
  rcases trunc_classification s v hwf hv p q h with h1 | ⟨k, rfl⟩
  · exact .inl h1
  · exact .inr ⟨k, rfl, trunc_at_boundary s v hwf hv k⟩

end Ldk.Codec
