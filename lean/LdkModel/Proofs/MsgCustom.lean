import LdkModel.Model.MsgCustom
import LdkModel.Proofs.Codec
/-! Proofs/MsgCustom.lean — lemmas about the custom codecs of Model/MsgCustom.lean and the SocketAddress table of Model/Codec.lean
    (core only). -/
namespace Ldk.Codec
open Ldk.Codec.Gen

end Ldk.Codec

namespace Ldk.Codec.Custom
open Ldk.Codec Ldk.Codec.Gen

/-! ### exact field types -/

theorem canon_exact {c : Check} (hc : (c == .any || c == .bool || c == .point || c == .sig) = true) {b v : Bytes}
    (h : c.canon b = some v) : v = b := by
  cases c <;> simp [Check.canon] at h hc
  · exact h.symm
  · exact h.2.symm
  · exact h.2.symm
  · exact h.2.symm

theorem field_decode_exact (ty : FieldTy) : ∀ (b : Bytes) (v : Val) (r : Bytes), exactTy ty = true →
    ty.decode b = .ok (v, r) → b = ty.encode v ++ r := by
  induction ty with
  | uint n =>
    intro b v r _ h
    simp only [FieldTy.decode] at h
    split at h
    · cases h
    · rename_i x r' hr
      cases h
      exact (readUint_ok hr).1
  | fixed n c =>
    intro b v r he h
    simp only [FieldTy.decode] at h
    split at h
    · cases h
    · split at h
      · cases h
      · rename_i v' hc
        cases h
        simp only [exactTy] at he
        rw [canon_exact he hc]
        simp [FieldTy.encode]
  | unit => intro b v r _ h; simp only [FieldTy.decode, Except.ok.injEq, Prod.mk.injEq] at h; obtain ⟨rfl, rfl⟩ := h; simp [FieldTy.encode]
  | bytes16 =>
    intro b v r _ h
    simp only [FieldTy.decode] at h
    split at h
    · cases h
    · rename_i len r' hr
      split at h
      · cases h
      · rename_i hl
        cases h
        have hlen : (r'.take len).length = len := by simp [List.length_take]; omega
        simp only [FieldTy.encode, hlen, List.append_assoc, List.take_append_drop]
        exact (readUint_ok hr).1
  | pair x y ihx ihy =>
    intro b v r he h
    simp only [exactTy, Bool.and_eq_true] at he
    simp only [FieldTy.decode] at h
    split at h
    · cases h
    · rename_i v1 r1 h1
      split at h
      · cases h
      · rename_i v2 r2 h2
        cases h
        rw [ihx _ _ _ he.1 h1, ihy _ _ _ he.2 h2]
        simp [FieldTy.encode]
  | bigsize => intro b v r he; simp [exactTy] at he
  | hzd n => intro b v r he; simp [exactTy] at he
  | varBytes => intro b v r he; simp [exactTy] at he
  | restBytes => intro b v r he; simp [exactTy] at he
  | vec e _ => intro b v r he; simp [exactTy] at he
  | sockAddr _ => intro b v r he; simp [exactTy] at he
  | chunks _ => intro b v r he; simp [exactTy] at he

theorem decodeFixed_exact : ∀ (ts : List FieldTy) (b : Bytes) (vs : List Val) (r : Bytes),
    (∀ t ∈ ts, exactTy t = true) → decodeFixed ts b = .ok (vs, r) → b = encodeFixed ts vs ++ r
  | [], b, vs, r, _, h => by
    simp only [decodeFixed, Except.ok.injEq, Prod.mk.injEq] at h
    obtain ⟨rfl, rfl⟩ := h
    simp [encodeFixed]
  | t :: ts, b, vs, r, he, h => by
    simp only [decodeFixed] at h
    split at h
    · cases h
    · rename_i v1 r1 h1
      split at h
      · cases h
      · rename_i vs' r2 h2
        cases h
        rw [field_decode_exact t _ _ _ (he t List.mem_cons_self) h1,
          decodeFixed_exact ts _ _ _ (fun u hu => he u (List.mem_cons_of_mem _ hu)) h2]
        simp [encodeFixed]

theorem hdrOk_parts {hdr : List FieldTy} (h : hdrOk hdr = true) :
    (∀ t ∈ hdr, t.wf = true ∧ t.selfDelim = true) ∧ (∀ t ∈ hdr, t.wf = true ∧ t.plain = true) ∧ (∀ t ∈ hdr, exactTy t = true) := by
  simp only [hdrOk, List.all_eq_true, Bool.and_eq_true] at h
  exact ⟨fun t ht => ⟨(h t ht).1.1.1, (h t ht).1.1.2⟩, fun t ht => ⟨(h t ht).1.1.1, (h t ht).1.2⟩, fun t ht => (h t ht).2⟩

/-! ### the address list of node_announcement -/

theorem regionLen_append (kinds : List AddrKind) : ∀ (as bs : List SockAddr),
    regionLen kinds (as ++ bs) = regionLen kinds as + regionLen kinds bs
  | [], bs => by simp [regionLen]
  | a :: as, bs => by simp [regionLen, regionLen_append kinds as bs]; omega

theorem encodeAddrs_append (kinds : List AddrKind) : ∀ (as bs : List SockAddr),
    encodeAddrs kinds (as ++ bs) = encodeAddrs kinds as ++ encodeAddrs kinds bs
  | [], bs => by simp [encodeAddrs]
  | a :: as, bs => by simp [encodeAddrs, encodeAddrs_append kinds as bs]

theorem encodeAddrs_length (kinds : List AddrKind) : ∀ (as : List SockAddr), (encodeAddrs kinds as).length = regionLen kinds as
  | [] => by simp [encodeAddrs, regionLen]
  | a :: as => by simp [encodeAddrs, regionLen, encodeAddrs_length kinds as]

theorem length_le_regionLen {kinds : List AddrKind} : ∀ (as : List SockAddr), (∀ a ∈ as, a.valid kinds = true) →
    as.length ≤ regionLen kinds as
  | [], _ => by simp [regionLen]
  | a :: as, h => by
    have h1 := addr_encode_ne_nil a (h a List.mem_cons_self)
    have h2 := length_le_regionLen as (fun x hx => h x (List.mem_cons_of_mem _ hx))
    simp [regionLen]; omega

/-- the writer's accumulated `addr_len` is the number of bytes the descriptors occupy -/
theorem writeAddrLen_eq {kinds : List AddrKind} (hk : kindsWf kinds = true) : ∀ (as : List SockAddr) (acc : Nat),
    (∀ a ∈ as, a.valid kinds = true) → writeAddrLen kinds acc as = acc + regionLen kinds as
  | [], acc, _ => by simp [writeAddrLen, regionLen]
  | a :: as, acc, h => by
    have h1 := addr_encode_length hk a (h a List.mem_cons_self)
    rw [writeAddrLen, writeAddrLen_eq hk as _ (fun x hx => h x (List.mem_cons_of_mem _ hx))]
    simp only [nodeAnnWriteStep, regionLen, h1]; omega

/-- what a successful run of the address loop means -/
theorem addrLoop_ok {kinds : List AddrKind} (hk : kindsWf kinds = true) (L : Nat) :
    ∀ (fuel pos : Nat) (acc : List SockAddr) (b : Bytes) (out : List SockAddr) (pos' : Nat) (unk : Option UInt8) (r : Bytes),
      addrLoop kinds L fuel pos acc b = .ok (out, pos', unk, r) →
      ∃ new, out = acc ++ new ∧ b = encodeAddrs kinds new ++ (optByte unk ++ r) ∧ (∀ a ∈ new, a.valid kinds = true) ∧
        pos' = pos + regionLen kinds new ∧ (pos ≤ L → pos' ≤ L) ∧
        (∀ x, unk = some x → findKind kinds x.toNat = none ∧ pos' < L) ∧ (unk = none → L ≤ pos') := by
  intro fuel
  induction fuel with
  | zero => intro pos acc b out pos' unk r h; simp [addrLoop] at h
  | succ fuel ih =>
    intro pos acc b out pos' unk r h
    simp only [addrLoop] at h
    split at h
    · rename_i hdone
      simp only [Except.ok.injEq, Prod.mk.injEq] at h
      obtain ⟨rfl, rfl, rfl, rfl⟩ := h
      simp only [nodeAnnDone, decide_eq_true_eq] at hdone
      exact ⟨[], by simp, by simp [encodeAddrs, optByte], by simp, by simp [regionLen], fun h => h, by simp, fun _ => hdone⟩
    · rename_i hdone
      simp only [nodeAnnDone, decide_eq_true_eq] at hdone
      split at h
      · cases h
      · cases h
      · rename_i x r1 hd
        simp only [Except.ok.injEq, Prod.mk.injEq] at h
        obtain ⟨rfl, rfl, rfl, rfl⟩ := h
        obtain ⟨e, hf⟩ := addr_decode_unknown hd
        exact ⟨[], by simp, by simp [encodeAddrs, optByte, e], by simp, by simp [regionLen], fun h => h,
          fun y hy => by cases hy; exact ⟨hf, by omega⟩, by simp⟩
      · rename_i a r1 hd
        split at h
        · cases h
        · rename_i hover
          simp only [nodeAnnOverrun, decide_eq_true_eq] at hover
          obtain ⟨e, hv⟩ := addr_decode_exact hd
          have hl := addr_encode_length hk a hv
          obtain ⟨new, e1, e2, e3, e4, e5, e6, e7⟩ := ih _ _ _ _ _ _ _ h
          refine ⟨a :: new, by simp [e1], by rw [e, e2]; simp [encodeAddrs], ?_, ?_, ?_, e6, e7⟩
          · intro y hy
            rcases List.mem_cons.mp hy with rfl | hy
            · exact hv
            · exact e3 y hy
          · simp only [nodeAnnAdvance] at e4
            simp only [regionLen, hl]; omega
          · intro _
            apply e5
            simp only [nodeAnnAdvance]; omega

/-- the loop walks over well-formed descriptors that fit the declared length, one iteration each -/
theorem addrLoop_addrs {kinds : List AddrKind} (hk : kindsWf kinds = true) (L : Nat) :
    ∀ (as : List SockAddr) (fuel pos : Nat) (acc : List SockAddr) (tail : Bytes),
      (∀ a ∈ as, a.valid kinds = true) → pos + regionLen kinds as ≤ L →
      addrLoop kinds L (as.length + fuel) pos acc (encodeAddrs kinds as ++ tail) =
        addrLoop kinds L fuel (pos + regionLen kinds as) (acc ++ as) tail
  | [], fuel, pos, acc, tail, _, _ => by simp [encodeAddrs, regionLen]
  | a :: as, fuel, pos, acc, tail, hv, hfit => by
    have hva := hv a List.mem_cons_self
    have hl := addr_encode_length hk a hva
    simp only [regionLen] at hfit
    have e : (a :: as).length + fuel = (as.length + fuel) + 1 := by simp; omega
    rw [e, addrLoop]
    have hnd : nodeAnnDone L pos = false := by simp [nodeAnnDone]; omega
    have hno : nodeAnnOverrun L pos (a.len kinds) = false := by simp [nodeAnnOverrun]; omega
    simp only [hnd, encodeAddrs, List.append_assoc, addr_roundtrip hk a _ hva, hno]
    rw [show nodeAnnAdvance pos (a.len kinds) = pos + (a.encode kinds).length by simp [nodeAnnAdvance, hl]]
    rw [addrLoop_addrs hk L as fuel _ _ tail (fun x hx => hv x (List.mem_cons_of_mem _ hx)) (by omega)]
    simp [regionLen, Nat.add_assoc]

/-- a descriptor that starts inside the declared region but does not end inside it is rejected: BadLengthDescriptor -/
theorem addrLoop_overrun {kinds : List AddrKind} (hk : kindsWf kinds = true) (L : Nat)
    (as : List SockAddr) (a : SockAddr) (fuel pos : Nat) (acc : List SockAddr) (rest : Bytes)
    (hv : ∀ x ∈ as, x.valid kinds = true) (hva : a.valid kinds = true)
    (hin : pos + regionLen kinds as < L) (hout : L < pos + regionLen kinds as + (a.encode kinds).length) :
    addrLoop kinds L (as.length + (fuel + 1)) pos acc (encodeAddrs kinds as ++ (a.encode kinds ++ rest)) = .error .BadLengthDescriptor := by
  rw [addrLoop_addrs hk L as (fuel + 1) pos acc _ hv (by omega), addrLoop]
  have hl := addr_encode_length hk a hva
  have hnd : nodeAnnDone L (pos + regionLen kinds as) = false := by simp [nodeAnnDone]; omega
  have ho : nodeAnnOverrun L (pos + regionLen kinds as) (a.len kinds) = true := by simp [nodeAnnOverrun]; omega
  simp only [hnd, addr_roundtrip hk a _ hva, ho]
  simp

/-- the message ends where the declared region still expects a descriptor: BadLengthDescriptor -/
theorem addrLoop_truncated {kinds : List AddrKind} (hk : kindsWf kinds = true) (L : Nat)
    (as : List SockAddr) (fuel pos : Nat) (acc : List SockAddr)
    (hv : ∀ x ∈ as, x.valid kinds = true) (hin : pos + regionLen kinds as < L) :
    addrLoop kinds L (as.length + (fuel + 1)) pos acc (encodeAddrs kinds as) = .error .BadLengthDescriptor := by
  have := addrLoop_addrs hk L as (fuel + 1) pos acc [] hv (by omega)
  rw [List.append_nil] at this
  rw [this, addrLoop]
  have hnd : nodeAnnDone L (pos + regionLen kinds as) = false := by simp [nodeAnnDone]; omega
  simp [hnd, decodeAddrResult]

/-- descriptors that fill the declared length exactly: the loop stops after them -/
theorem addrLoop_exact {kinds : List AddrKind} (hk : kindsWf kinds = true) (L : Nat)
    (as : List SockAddr) (fuel pos : Nat) (acc : List SockAddr) (tail : Bytes)
    (hv : ∀ x ∈ as, x.valid kinds = true) (hfit : pos + regionLen kinds as = L) :
    addrLoop kinds L (as.length + (fuel + 1)) pos acc (encodeAddrs kinds as ++ tail) = .ok (acc ++ as, L, none, tail) := by
  rw [addrLoop_addrs hk L as (fuel + 1) pos acc _ hv (by omega), addrLoop]
  subst hfit
  have hd : nodeAnnDone (pos + regionLen kinds as) (pos + regionLen kinds as) = true := by simp [nodeAnnDone]
  rw [if_pos hd]

/-- descriptors that end before the declared length, followed by a byte that is no known descriptor type: the loop stops there -/
theorem addrLoop_unknown {kinds : List AddrKind} (hk : kindsWf kinds = true) (L : Nat)
    (as : List SockAddr) (fuel pos : Nat) (acc : List SockAddr) (x : UInt8) (tail : Bytes)
    (hv : ∀ y ∈ as, y.valid kinds = true) (hin : pos + regionLen kinds as < L) (hx : findKind kinds x.toNat = none) :
    addrLoop kinds L (as.length + (fuel + 1)) pos acc (encodeAddrs kinds as ++ x :: tail) =
      .ok (acc ++ as, pos + regionLen kinds as, some x, tail) := by
  rw [addrLoop_addrs hk L as (fuel + 1) pos acc _ hv (by omega), addrLoop]
  have hd : nodeAnnDone L (pos + regionLen kinds as) = false := by simp [nodeAnnDone]; omega
  simp [hd, addr_unknown_result kinds x tail hx]

/-! ### node_announcement as a whole -/

theorem nodeAnn_wf_parts {kinds : List AddrKind} {hdr : List FieldTy} {m : NodeAnn} (h : m.wf kinds hdr = true) :
    validFixed hdr m.hdr = true ∧ (∀ a ∈ m.addresses, a.valid kinds = true) ∧
    regionLen kinds m.addresses + m.excessAddr.length < 2 ^ 16 ∧
    (∀ x t, m.excessAddr = x :: t → findKind kinds x.toNat = none) := by
  simp only [NodeAnn.wf, Bool.and_eq_true, List.all_eq_true, decide_eq_true_eq] at h
  refine ⟨h.1.1.1, h.1.1.2, h.1.2, ?_⟩
  intro x t he
  have := h.2
  rw [he] at this
  simpa using this

theorem nodeAnn_roundtrip' {kinds : List AddrKind} (hk : kindsWf kinds = true) (hdr : List FieldTy) (hh : hdrOk hdr = true)
    (m : NodeAnn) (hm : m.wf kinds hdr = true) : decodeNodeAnn kinds hdr (encodeNodeAnn kinds hdr m) = .ok m := by
  obtain ⟨h1, h2, h3, h4⟩ := nodeAnn_wf_parts hm
  obtain ⟨p1, _, _⟩ := hdrOk_parts hh
  cases m with
  | mk hv addrs ea ex =>
  simp only at h1 h2 h3 h4
  have hw : writeAddrLen kinds 0 addrs = regionLen kinds addrs := by rw [writeAddrLen_eq hk addrs 0 h2]; omega
  have hlen := length_le_regionLen addrs h2
  have hel := encodeAddrs_length kinds addrs
  simp only [decodeNodeAnn, encodeNodeAnn, decodeFixed_roundtrip hdr hv _ p1 h1, readUint_encode, nodeAnnWriteTotal, hw,
    Nat.mod_eq_of_lt (show regionLen kinds addrs + ea.length < 256 ^ 2 by omega)]
  -- fuel: one iteration per address, and one more
  have hfuel : (encodeAddrs kinds addrs ++ (ea ++ ex)).length + 1 = addrs.length + ((regionLen kinds addrs - addrs.length + (ea ++ ex).length) + 1) := by
    simp only [List.length_append, hel]; omega
  rw [hfuel]
  cases ea with
  | nil =>
    rw [List.nil_append, addrLoop_exact hk _ addrs _ 0 [] ex h2 (by simp)]
    simp [nodeAnnHasExcess, optByte]
  | cons x t =>
    rw [List.cons_append, addrLoop_unknown hk _ addrs _ 0 [] x (t ++ ex) h2 (by simp) (h4 x t rfl)]
    have he : nodeAnnHasExcess (regionLen kinds addrs + (x :: t).length) (0 + regionLen kinds addrs) = true := by simp [nodeAnnHasExcess]
    have hn : nodeAnnExcessLen (regionLen kinds addrs + (x :: t).length) (0 + regionLen kinds addrs) - (optByte (some x)).length = t.length := by
      simp [nodeAnnExcessLen, optByte]
    simp only [he, hn, if_true, List.length_append]
    rw [if_neg (by omega)]
    simp [optByte]

theorem nodeAnn_canonical' {kinds : List AddrKind} (hk : kindsWf kinds = true) (hdr : List FieldTy) (hh : hdrOk hdr = true)
    (b : Bytes) (m : NodeAnn) (h : decodeNodeAnn kinds hdr b = .ok m) :
    encodeNodeAnn kinds hdr m = b ∧ m.wf kinds hdr = true := by
  obtain ⟨_, p2, p3⟩ := hdrOk_parts hh
  simp only [decodeNodeAnn] at h
  split at h
  · cases h
  · rename_i hv b1 hfx
    have e0 := decodeFixed_exact hdr b hv b1 p3 hfx
    have v0 := decodeFixed_valid hdr b hv b1 p2 hfx
    split at h
    · cases h
    · rename_i L b2 hL
      obtain ⟨e1, hL16⟩ := readUint_ok hL
      split at h
      · cases h
      · rename_i addrs pos unk b3 hloop
        obtain ⟨new, n1, n2, n3, n4, n5, n6, n7⟩ := addrLoop_ok hk L _ _ _ _ _ _ _ _ hloop
        simp only [List.nil_append] at n1
        subst n1
        simp only [Nat.zero_add] at n4
        have hposL : pos ≤ L := n5 (Nat.zero_le _)
        have hw : writeAddrLen kinds 0 addrs = regionLen kinds addrs := by rw [writeAddrLen_eq hk addrs 0 n3]; omega
        split at h
        · rename_i hex
          simp only [nodeAnnHasExcess, decide_eq_true_eq] at hex
          cases unk with
          | none => have := n7 rfl; omega
          | some x =>
            obtain ⟨hx, _⟩ := n6 x rfl
            split at h
            · cases h
            · rename_i hshort
              cases h
              simp only [nodeAnnExcessLen, optByte, List.length_singleton] at hshort ⊢
              have htk : (b3.take (L - pos - 1)).length = L - pos - 1 := by simp [List.length_take]; omega
              refine ⟨?_, ?_⟩
              · simp only [encodeNodeAnn, nodeAnnWriteTotal, hw, List.length_append, List.length_singleton, htk]
                rw [show regionLen kinds addrs + (1 + (L - pos - 1)) = L by omega, e0, e1, n2]
                simp [optByte]
              · simp only [NodeAnn.wf, v0, Bool.true_and, Bool.and_eq_true, List.all_eq_true, decide_eq_true_eq]
                refine ⟨⟨n3, ?_⟩, by simp [hx]⟩
                simp only [List.length_append, List.length_singleton, htk]; omega
        · rename_i hex
          simp only [nodeAnnHasExcess, decide_eq_true_eq] at hex
          cases unk with
          | some x => have := (n6 x rfl).2; omega
          | none =>
            cases h
            refine ⟨?_, ?_⟩
            · simp only [encodeNodeAnn, nodeAnnWriteTotal, hw, List.length_nil, optByte, List.nil_append]
              rw [show regionLen kinds addrs + 0 = L by omega, e0, e1, n2]
              simp [optByte]
            · simp only [NodeAnn.wf, v0, Bool.true_and, Bool.and_eq_true, List.all_eq_true, decide_eq_true_eq]
              exact ⟨⟨n3, by simp; omega⟩, trivial⟩

/-! ### encoded short_channel_id lists -/

theorem encodeU64s_length : ∀ (xs : List Nat), (encodeU64s xs).length = 8 * xs.length
  | [] => by simp [encodeU64s]
  | x :: xs => by simp [encodeU64s, beEncode_length, encodeU64s_length xs]; omega

theorem readU64s_roundtrip : ∀ (xs : List Nat) (r : Bytes), (∀ x ∈ xs, x < 2 ^ 64) →
    readU64s xs.length (encodeU64s xs ++ r) = .ok (xs, r)
  | [], r, _ => by simp [readU64s, encodeU64s]
  | x :: xs, r, h => by
    have hx : x % 256 ^ 8 = x := Nat.mod_eq_of_lt (by have := h x List.mem_cons_self; omega)
    simp only [List.length_cons, readU64s, encodeU64s, List.append_assoc, readUint_encode, hx,
      readU64s_roundtrip xs r (fun y hy => h y (List.mem_cons_of_mem _ hy))]

theorem readU64s_exact : ∀ (n : Nat) (b : Bytes) (xs : List Nat) (r : Bytes), readU64s n b = .ok (xs, r) →
    b = encodeU64s xs ++ r ∧ xs.length = n ∧ (∀ x ∈ xs, x < 2 ^ 64)
  | 0, b, xs, r, h => by
    simp only [readU64s, Except.ok.injEq, Prod.mk.injEq] at h
    obtain ⟨rfl, rfl⟩ := h
    simp [encodeU64s]
  | n + 1, b, xs, r, h => by
    simp only [readU64s] at h
    split at h
    · cases h
    · rename_i x r1 h1
      split at h
      · cases h
      · rename_i xs' r2 h2
        cases h
        obtain ⟨e1, hx⟩ := readUint_ok h1
        obtain ⟨e2, hl, hall⟩ := readU64s_exact n r1 xs' r h2
        refine ⟨by rw [e1, e2]; simp [encodeU64s], by simp [hl], ?_⟩
        intro y hy
        rcases List.mem_cons.mp hy with rfl | hy
        · omega
        · exact hall y hy

theorem scid_wf_parts {hdr : List FieldTy} {m : ScidMsg} (h : m.wf hdr = true) :
    validFixed hdr m.hdr = true ∧ (∀ x ∈ m.scids, x < 2 ^ 64) ∧ m.scids.length ≤ 8191 := by
  simp only [ScidMsg.wf, Bool.and_eq_true, List.all_eq_true, decide_eq_true_eq] at h
  exact ⟨h.1.1, h.1.2, h.2⟩

theorem scid_roundtrip' {rules : ScidRules} (hr : rules.Spec) (hdr : List FieldTy) (hh : hdrOk hdr = true)
    (m : ScidMsg) (hm : m.wf hdr = true) (rest : Bytes) :
    decodeScidMsg rules hdr (encodeScidMsg rules hdr m ++ rest) = .ok (m, rest) := by
  obtain ⟨h1, h2, h3⟩ := scid_wf_parts hm
  obtain ⟨p1, _, _⟩ := hdrOk_parts hh
  cases m with
  | mk hv xs =>
  simp only at h1 h2 h3
  have hb := hr.byte
  have hbad : (decide (1 + xs.length * 8 = 0) || decide ((1 + xs.length * 8 - 1) % 8 ≠ 0)) = false := by
    simp
  have hcnt : (1 + xs.length * 8 - 1) / 8 = xs.length := by omega
  simp only [decodeScidMsg, encodeScidMsg, List.append_assoc, decodeFixed_roundtrip hdr hv _ p1 h1, readUint_encode, hr.encLen,
    Nat.mod_eq_of_lt (show 1 + xs.length * 8 < 256 ^ 2 by omega), Nat.mod_eq_of_lt (show rules.written < 256 ^ 1 by omega),
    hr.same, hr.badLen, hr.count, hbad, hcnt, readU64s_roundtrip xs rest h2]
  simp

theorem scid_exact' {rules : ScidRules} (hr : rules.Spec) (hdr : List FieldTy) (hh : hdrOk hdr = true)
    (b : Bytes) (m : ScidMsg) (rest : Bytes) (h : decodeScidMsg rules hdr b = .ok (m, rest)) :
    b = encodeScidMsg rules hdr m ++ rest ∧ m.wf hdr = true := by
  obtain ⟨_, p2, p3⟩ := hdrOk_parts hh
  simp only [decodeScidMsg] at h
  split at h
  · cases h
  · rename_i hv b1 hfx
    have e0 := decodeFixed_exact hdr b hv b1 p3 hfx
    have v0 := decodeFixed_valid hdr b hv b1 p2 hfx
    split at h
    · cases h
    · rename_i L b2 hL
      obtain ⟨e1, hL16⟩ := readUint_ok hL
      split at h
      · cases h
      · rename_i ty b3 hty
        obtain ⟨e2, _⟩ := readUint_ok hty
        split at h
        · cases h
        · rename_i hacc
          split at h
          · cases h
          · rename_i hbad
            split at h
            · cases h
            · rename_i xs r hxs
              cases h
              obtain ⟨e3, hl, hall⟩ := readU64s_exact _ _ _ _ hxs
              rw [hr.badLen] at hbad
              rw [hr.count] at hl
              simp only [Bool.or_eq_true, decide_eq_true_eq, not_or, Decidable.not_not] at hbad
              have hLeq : 1 + xs.length * 8 = L := by omega
              have hty' : ty = rules.written := by rw [← hr.same]; exact Decidable.of_not_not hacc
              refine ⟨?_, ?_⟩
              · simp only [encodeScidMsg, hr.encLen, hLeq]
                rw [e0, e1, e2, e3, hty']
                simp
              · simp only [ScidMsg.wf, v0, Bool.true_and, Bool.and_eq_true, List.all_eq_true, decide_eq_true_eq]
                exact ⟨hall, by omega⟩

theorem readU64s_short : ∀ (n : Nat) (b : Bytes), b.length < 8 * n → readU64s n b = .error .ShortRead
  | 0, b, h => by omega
  | n + 1, b, h => by
    simp only [readU64s]
    split
    · rename_i e he
      rw [(readUint_error he).1]
    · rename_i x r hx
      obtain ⟨e, _⟩ := readUint_ok hx
      have hl : b.length = 8 + r.length := by rw [e]; simp [beEncode_length]
      rw [readU64s_short n r (by omega)]

/-- an accepted node_announcement is at least as long as its header, the addrlen field and the declared address region -/
theorem nodeAnn_input_long_enough {kinds : List AddrKind} (hk : kindsWf kinds = true) (hdr : List FieldTy) (hh : hdrOk hdr = true)
    (hv : List Val) (hvv : validFixed hdr hv = true) (L : Nat) (hL : L < 2 ^ 16) (tail : Bytes) (m : NodeAnn)
    (h : decodeNodeAnn kinds hdr (encodeFixed hdr hv ++ (beEncode 2 L ++ tail)) = .ok m) : L ≤ tail.length := by
  obtain ⟨p1, _, _⟩ := hdrOk_parts hh
  simp only [decodeNodeAnn, decodeFixed_roundtrip hdr hv _ p1 hvv, readUint_encode, Nat.mod_eq_of_lt (show L < 256 ^ 2 by omega)] at h
  split at h
  · cases h
  · rename_i addrs pos unk b3 hloop
    obtain ⟨new, n1, n2, n3, n4, n5, n6, n7⟩ := addrLoop_ok hk L _ _ _ _ _ _ _ _ hloop
    simp only [Nat.zero_add] at n4
    have hposL : pos ≤ L := n5 (Nat.zero_le _)
    have hlen : tail.length = regionLen kinds new + ((optByte unk).length + b3.length) := by
      rw [n2]; simp [encodeAddrs_length]
    split at h
    · split at h
      · cases h
      · rename_i hshort
        simp only [nodeAnnExcessLen] at hshort
        omega
    · rename_i hex
      simp only [nodeAnnHasExcess, decide_eq_true_eq] at hex
      omega

/-! ### Init -/

theorem orLE_nil_right (a : Bytes) : orLE a [] = a := by cases a <;> simp [orLE]

theorem u8_or_and (x m : UInt8) : x ||| (x &&& m) = x := by
  apply UInt8.eq_of_toBitVec_eq
  simp
  ext i
  simp
  intro h _
  exact h

theorem orLE_first13 : ∀ (l : Bytes), orLE l (first13LE l) = l
  | [] => by simp [first13LE, orLE]
  | [b0] => by simp [first13LE, orLE]
  | b0 :: b1 :: t => by simp [first13LE, orLE, orLE_nil_right, u8_or_and]

theorem orLE_length : ∀ (a b : Bytes), (orLE a b).length = max a.length b.length
  | [], b => by simp [orLE]
  | x :: a, [] => by simp [orLE]
  | x :: a, y :: b => by simp [orLE, orLE_length a b]

theorem orBE_first13 (f : Bytes) : orBE f (first13 f) = f := by
  simp [orBE, first13, orLE_first13]

theorem first13_length (f : Bytes) : (first13 f).length ≤ 2 := by
  unfold first13
  rw [List.length_reverse]
  generalize f.reverse = l
  match l with
  | [] => simp [first13LE]
  | [_] => simp [first13LE]
  | _ :: _ :: _ => simp [first13LE]

theorem init_roundtrip' (hwf : initSchema.wf = true) (m : InitMsg) (hm : m.wf = true) : decodeInit (encodeInit m) = .ok m := by
  simp only [InitMsg.wf, Bool.and_eq_true, decide_eq_true_eq] at hm
  have h13 := first13_length m.features
  have hv : (⟨[.bytes (first13 m.features), .bytes m.features], m.tlvs⟩ : MsgVal).valid initSchema = true := by
    simp only [MsgVal.valid, initSchema, validFixed, FieldTy.valid, Bool.and_eq_true, decide_eq_true_eq, Bool.and_true]
    exact ⟨⟨by omega, hm.1⟩, hm.2⟩
  simp only [decodeInit, encodeInit, schema_roundtrip initSchema _ hwf hv, orBE_first13]

theorem init_decode_wf (hwf : initSchema.wf = true) (hp : initSchema.plain = true) (b : Bytes) (m : InitMsg)
    (h : decodeInit b = .ok m) : m.wf = true := by
  simp only [decodeInit] at h
  split at h
  · cases h
  · rename_i g f tlvs hd
    cases h
    have hv := schema_decode_valid initSchema b _ hwf hp hd
    simp only [MsgVal.valid, initSchema, validFixed, FieldTy.valid, Bool.and_eq_true, decide_eq_true_eq, Bool.and_true] at hv
    simp only [InitMsg.wf, Bool.and_eq_true, decide_eq_true_eq, orBE, List.length_reverse, orLE_length]
    exact ⟨by omega, hv.2⟩
  · cases h

/-! ### OnionMessage -/

theorem validFixed_cons {t : FieldTy} {ts : List FieldTy} {pv : List Val} (h : validFixed (t :: ts) pv = true) :
    ∃ v vs, pv = v :: vs ∧ t.valid v = true ∧ validFixed ts vs = true := by
  cases pv with
  | nil => simp [validFixed] at h
  | cons v vs => simp only [validFixed, Bool.and_eq_true] at h; exact ⟨v, vs, rfl, h.1, h.2⟩

theorem validFixed_nil {pv : List Val} (h : validFixed [] pv = true) : pv = [] := by
  cases pv with
  | nil => rfl
  | cons _ _ => simp [validFixed] at h

theorem fixed_valid_shape {n : Nat} {c : Check} {v : Val} (h : (FieldTy.fixed n c).valid v = true) : ∃ b, v = .bytes b ∧ b.length = n := by
  cases v <;> simp [FieldTy.valid] at h
  exact ⟨_, rfl, h.1⟩

theorem uint_valid_shape {n : Nat} {v : Val} (h : (FieldTy.uint n).valid v = true) : ∃ x, v = .nat x := by
  cases v <;> simp [FieldTy.valid] at h
  exact ⟨_, rfl⟩

theorem packet_shape (n : Nat) (pv : List Val) (h : validFixed (packetTys n) pv = true) :
    hopLenOf pv = n ∧ (encodeFixed (packetTys n) pv).length = onionMsgOverhead + n := by
  simp only [packetTys, Hand.u8, Hand.point, Hand.h32] at h ⊢
  obtain ⟨v1, r1, rfl, h1, h⟩ := validFixed_cons h
  obtain ⟨v2, r2, rfl, h2, h⟩ := validFixed_cons h
  obtain ⟨v3, r3, rfl, h3, h⟩ := validFixed_cons h
  obtain ⟨v4, r4, rfl, h4, h⟩ := validFixed_cons h
  have := validFixed_nil h
  subst this
  obtain ⟨x, rfl⟩ := uint_valid_shape h1
  obtain ⟨k, rfl, hk⟩ := fixed_valid_shape h2
  obtain ⟨hd, rfl, hh⟩ := fixed_valid_shape h3
  obtain ⟨m, rfl, hm⟩ := fixed_valid_shape h4
  simp [hopLenOf, encodeFixed, FieldTy.encode, beEncode_length, hk, hh, hm, onionMsgOverhead, onionPacketOverheadPinned]
  omega

theorem packetTys_ok (n : Nat) : hdrOk (packetTys n) = true := by
  simp [hdrOk, packetTys, Hand.u8, Hand.point, Hand.h32, FieldTy.wf, FieldTy.selfDelim, FieldTy.plain, exactTy, Check.widthOk]

theorem onion_wf_parts {m : OnionMsg} (h : m.wf = true) :
    Hand.point.valid m.blinding = true ∧ validFixed (packetTys (hopLenOf m.packet)) m.packet = true ∧
    onionMsgOverhead + hopLenOf m.packet < 2 ^ 16 := by
  simp only [OnionMsg.wf, Bool.and_eq_true, decide_eq_true_eq] at h
  exact ⟨h.1.1, h.1.2, h.2⟩

theorem onion_roundtrip' (m : OnionMsg) (hm : m.wf = true) (rest : Bytes) :
    decodeOnionMsg (encodeOnionMsg m ++ rest) = .ok (m, rest) := by
  obtain ⟨h1, h2, h3⟩ := onion_wf_parts hm
  obtain ⟨p1, _, _⟩ := hdrOk_parts (packetTys_ok (hopLenOf m.packet))
  obtain ⟨_, hlen⟩ := packet_shape _ _ h2
  have hpt : Hand.point.wf = true ∧ Hand.point.selfDelim = true := by decide
  cases m with
  | mk bp pv =>
  simp only at h1 h2 h3 hlen p1
  simp only [decodeOnionMsg, encodeOnionMsg, List.append_assoc, field_roundtrip Hand.point bp _ hpt.1 h1 (.inl hpt.2), readUint_encode,
    Nat.mod_eq_of_lt (show onionMsgOverhead + hopLenOf pv < 256 ^ 2 by omega)]
  have e1 : (encodeFixed (packetTys (hopLenOf pv)) pv ++ rest).take (onionMsgOverhead + hopLenOf pv) = encodeFixed (packetTys (hopLenOf pv)) pv :=
    List.take_left' hlen
  have e2 : (encodeFixed (packetTys (hopLenOf pv)) pv ++ rest).drop (onionMsgOverhead + hopLenOf pv) = rest := List.drop_left' hlen
  have e3 : onionMsgOverhead + hopLenOf pv - onionMsgOverhead = hopLenOf pv := by omega
  have := decodeFixed_roundtrip (packetTys (hopLenOf pv)) pv [] p1 h2
  rw [List.append_nil] at this
  simp only [e1, e2, e3, this]

theorem onion_exact' (b : Bytes) (m : OnionMsg) (rest : Bytes) (h : decodeOnionMsg b = .ok (m, rest)) :
    b = encodeOnionMsg m ++ rest ∧ m.wf = true := by
  simp only [decodeOnionMsg] at h
  split at h
  · cases h
  · rename_i bp b1 hbp
    have hpt : Hand.point.wf = true ∧ Hand.point.plain = true ∧ exactTy Hand.point = true := by decide
    have e0 := field_decode_exact Hand.point b bp b1 hpt.2.2 hbp
    have v0 := (field_decode_spec Hand.point b bp b1 hpt.1 hpt.2.1 hbp).1
    split at h
    · cases h
    · rename_i len b2 hlen
      obtain ⟨e1, hl16⟩ := readUint_ok hlen
      split at h
      · cases h
      · rename_i pv r' hpk
        cases h
        obtain ⟨_, p2, p3⟩ := hdrOk_parts (packetTys_ok (len - onionMsgOverhead))
        have e2 := decodeFixed_exact _ _ _ _ p3 hpk
        have v2 := decodeFixed_valid _ _ _ _ p2 hpk
        obtain ⟨hh, hpl⟩ := packet_shape _ _ v2
        have htl : (b2.take len).length ≤ len := by simp [List.length_take]; omega
        have hsum : (b2.take len).length = onionMsgOverhead + (len - onionMsgOverhead) + r'.length := by
          rw [e2, List.length_append, hpl]
        have hge : onionMsgOverhead ≤ len := by simp only [onionMsgOverhead, onionPacketOverheadPinned] at hsum ⊢; omega
        have hr : r' = [] := by
          apply List.eq_nil_of_length_eq_zero; simp only [onionMsgOverhead, onionPacketOverheadPinned] at hsum hge; omega
        subst hr
        rw [List.append_nil] at e2
        have hb2 : len ≤ b2.length := by
          simp only [List.length_take, onionMsgOverhead, onionPacketOverheadPinned] at hsum hge; omega
        refine ⟨?_, ?_⟩
        · simp only [encodeOnionMsg, hh, List.append_assoc]
          rw [show onionMsgOverhead + (len - onionMsgOverhead) = len by omega, ← e2, List.take_append_drop, e0, e1]
        · simp only [OnionMsg.wf, hh, v0, v2, Bool.true_and, decide_eq_true_eq]
          omega

end Ldk.Codec.Custom
