import LdkModel.Model.RaaBlock
import LdkModel.Model.ForwardMulti
namespace Ldk.RaaBlock
open Ldk.RaaBlockGen

theorem mem_get_registerOnFulfil (m : BlockMap) (c b c' x : Nat) :
    x ∈ BlockMap.get (registerOnFulfil m c b) c' ↔ (c' = c ∧ x = b) ∨ x ∈ BlockMap.get m c' := by
  unfold registerOnFulfil BlockMap.pushAt BlockMap.orInsertWith BlockMap.get
  by_cases hc : c' = c
  · subst hc
    cases h : m c' <;> simp [BlockMap.set, h]
    · exact or_comm
  · cases h : m c <;> simp [BlockMap.set, h, hc]

theorem mem_get_release (m : BlockMap) (c b c' x : Nat) :
    x ∈ BlockMap.get (release m c b) c' ↔ x ∈ BlockMap.get m c' ∧ ¬ (c' = c ∧ x = b) := by
  have key : ∀ v : List Nat, x ∈ v.filter (fun iter => iter != b) ↔ x ∈ v ∧ ¬ x = b := by
    intro v; simp [List.mem_filter]
  unfold release BlockMap.removeIfEmpty BlockMap.retainAt BlockMap.get
  by_cases hc : c' = c
  · subst hc
    cases h : m c' with
    | none => simp [h]
    | some v =>
      have k := key v
      cases hf : v.filter (fun iter => iter != b) with
      | nil =>
        rw [hf] at k
        have k' : ¬ (x ∈ v ∧ ¬ x = b) := fun hx => List.not_mem_nil (k.mpr hx)
        constructor
        · intro hx; simp [BlockMap.set, hf] at hx
        · intro hx; simp at hx; exact absurd hx k'
      | cons y ys =>
        rw [hf] at k
        simpa [BlockMap.set, hf] using k
  · cases h : m c with
    | none => simp [h, hc]
    | some v =>
      cases hf : v.filter (fun iter => iter != b) <;> simp [BlockMap.set, hc, hf]

theorem held_iff (m : BlockMap) (c : Nat) : held m c = true ↔ ∃ x, x ∈ BlockMap.get m c := by
  unfold held BlockMap.get
  cases h : m c with
  | none => simp
  | some v => cases v <;> simp

theorem mem_get_runEv (evs : List Ev) (m : BlockMap) (c b : Nat) :
    b ∈ BlockMap.get (runEv m evs) c ↔ pendingAcc c b (decide (b ∈ BlockMap.get m c)) evs = true := by
  induction evs generalizing m with
  | nil => simp [runEv, pendingAcc]
  | cons e r ih =>
    have ih' := ih (stepEv m e)
    simp only [runEv, List.foldl_cons] at ih' ⊢
    rw [ih']
    cases e with
    | fulfil c' b' =>
      simp only [stepEv, pendingAcc]
      congr 2
      by_cases hcb : c' = c ∧ b' = b
      · obtain ⟨h1, h2⟩ := hcb; subst h1; subst h2
        simp [mem_get_registerOnFulfil]
      · have : ¬ (c = c' ∧ b = b') := fun h => hcb ⟨h.1.symm, h.2.symm⟩
        simp [mem_get_registerOnFulfil, hcb, this]
    | release c' b' =>
      simp only [stepEv, pendingAcc]
      congr 2
      by_cases hcb : c' = c ∧ b' = b
      · obtain ⟨h1, h2⟩ := hcb; subst h1; subst h2
        simp [mem_get_release]
      · have : ¬ (c = c' ∧ b = b') := fun h => hcb ⟨h.1.symm, h.2.symm⟩
        simp [mem_get_release, hcb, this]

theorem pendingAcc_map_fulfil (c b : Nat) (l : List Nat) (acc : Bool) :
    pendingAcc c b acc (l.map (Ev.fulfil c)) = (acc || decide (b ∈ l)) := by
  induction l generalizing acc with
  | nil => simp [pendingAcc]
  | cons x r ih =>
    simp only [List.map_cons, pendingAcc, ih]
    by_cases h : x = b
    · subst h; simp
    · have h' : ¬ b = x := fun e => h e.symm
      simp [h, h']

theorem held_registerAll (l : List Nat) : held (registerAll l) 1 = true ↔ ∃ b, b ∈ l := by
  rw [held_iff]
  unfold registerAll
  constructor
  · rintro ⟨b, hb⟩
    have := (mem_get_runEv (l.map (Ev.fulfil 1)) BlockMap.empty 1 b).mp hb
    rw [pendingAcc_map_fulfil] at this
    simp [BlockMap.get, BlockMap.empty] at this
    exact ⟨b, this⟩
  · rintro ⟨b, hb⟩
    refine ⟨b, (mem_get_runEv (l.map (Ev.fulfil 1)) BlockMap.empty 1 b).mpr ?_⟩
    rw [pendingAcc_map_fulfil]
    simp [hb]

theorem countOthers_ne_zero (n i : Nat) (p : Nat → Bool) :
    Ldk.FwdMulti.countOthers n i p ≠ 0 ↔ ∃ k, k < n ∧ k ≠ i ∧ p k = true := by
  unfold Ldk.FwdMulti.countOthers
  rw [Ne, List.length_eq_zero_iff, List.filter_eq_nil_iff]
  constructor
  · intro h
    apply Classical.byContradiction
    intro hne
    apply h
    intro k hk hp
    simp only [List.mem_range] at hk
    simp only [Bool.and_eq_true, bne_iff_ne, ne_eq] at hp
    exact hne ⟨k, hk, hp.1, hp.2⟩
  · rintro ⟨k, hk, hki, hp⟩ h
    have := h k (List.mem_range.mpr hk)
    simp [hki, hp] at this

/-- the closure of `FreeDuplicateClaimImmediately`'s retain, as generated (`releaseDuplicate_eq` is `rfl`: it breaks when the text changes) -/
def dupF (blocker : Nat) : Bool → Nat → Bool × Bool := fun found_blocker iter =>
  let first_blocker := !found_blocker
  let found_blocker := if iter == blocker then true else found_blocker
  (found_blocker, (iter != blocker || !first_blocker))

theorem releaseDuplicate_eq (m : BlockMap) (c b : Nat) :
    releaseDuplicate m c b = BlockMap.removeIfEmpty (BlockMap.retainStateAt m c false (dupF b)) c := rfl

theorem retainState_dup_true (b : Nat) (l : List Nat) : BlockMap.retainState (dupF b) true l = l := by
  induction l with
  | nil => rfl
  | cons x r ih => simp [BlockMap.retainState, dupF, ih]

theorem retainState_dup_false (b : Nat) (l : List Nat) : BlockMap.retainState (dupF b) false l = l.erase b := by
  induction l with
  | nil => rfl
  | cons x r ih =>
    by_cases h : x = b
    · subst h
      have := retainState_dup_true x r
      simp [BlockMap.retainState, dupF] at this ⊢
      exact this
    · have hb : (x == b) = false := by simp [h]
      simp [BlockMap.retainState, dupF, h, hb, List.erase_cons, ih]

theorem get_releaseDuplicate (m : BlockMap) (c b c' : Nat) :
    BlockMap.get (releaseDuplicate m c b) c' = if c' = c then (BlockMap.get m c).erase b else BlockMap.get m c' := by
  rw [releaseDuplicate_eq]
  unfold BlockMap.removeIfEmpty BlockMap.retainStateAt BlockMap.get
  by_cases hc : c' = c
  · subst hc
    cases h : m c' with
    | none => simp [h]
    | some v =>
      cases hf : BlockMap.retainState (dupF b) false v with
      | nil => rw [retainState_dup_false] at hf; simp [BlockMap.set, hf, retainState_dup_false]
      | cons y ys => rw [retainState_dup_false] at hf; simp [BlockMap.set, hf, retainState_dup_false]
  · cases h : m c with
    | none => simp [h, hc]
    | some v =>
      cases hf : BlockMap.retainState (dupF b) false v <;> simp [BlockMap.set, hc, hf]

theorem heldByEvents_iff (evs : List (Option (Nat × Nat))) (c cp : Nat) :
    heldByEvents evs c cp = true ↔ some (c, cp) ∈ evs := by
  unfold heldByEvents
  rw [List.any_eq_true]
  constructor
  · rintro ⟨a, ha, h⟩
    cases a with
    | none => simp at h
    | some p =>
      obtain ⟨x, y⟩ := p
      simp at h
      obtain ⟨h1, h2⟩ := h
      subst h1; subst h2
      exact ha
  · intro h
    exact ⟨some (c, cp), h, by simp⟩

end Ldk.RaaBlock
