/- C17 — rapid gossip sync: a snapshot never replaces stored gossip by older or equally old data.
   Proved over the specification layer and transported to `Impl.applySnapshot` by the refinement. -/
import LdkModel.Proofs.Gossip
import LdkModel.Proofs.GossipRefine
namespace Ldk.Gossip

/-- a stored direction stays stored and only moves to a strictly newer update -/
def dirGrow (o o' : Option UpdInfo) : Prop :=
  ∀ u, o = some u → ∃ u', o' = some u' ∧ (u.lastUpdate < u'.lastUpdate ∨ u' = u)

/-- every channel entry stays, both directions `dirGrow` -/
def Grows (g g' : Graph) : Prop :=
  ∀ s c, g.channels.get s = some c →
    ∃ c', g'.channels.get s = some c' ∧ dirGrow c.d12 c'.d12 ∧ dirGrow c.d21 c'.d21

theorem dirGrow_refl (o : Option UpdInfo) : dirGrow o o := fun u h => ⟨u, h, Or.inr rfl⟩

theorem dirGrow_trans {a b c : Option UpdInfo} (h1 : dirGrow a b) (h2 : dirGrow b c) : dirGrow a c := by
  intro u hu
  obtain ⟨u', hu', r1⟩ := h1 u hu
  obtain ⟨u'', hu'', r2⟩ := h2 u' hu'
  refine ⟨u'', hu'', ?_⟩
  rcases r1 with r1 | r1
  · rcases r2 with r2 | r2
    · left; omega
    · left; rw [r2]; exact r1
  · rw [r1] at r2; exact r2

theorem Grows.refl (g : Graph) : Grows g g := fun _ c h => ⟨c, h, dirGrow_refl _, dirGrow_refl _⟩

theorem Grows.trans {a b c : Graph} (h1 : Grows a b) (h2 : Grows b c) : Grows a c := by
  intro s x hx
  obtain ⟨y, hy, p1, p2⟩ := h1 s x hx
  obtain ⟨z, hz, q1, q2⟩ := h2 s y hy
  exact ⟨z, hz, dirGrow_trans p1 q1, dirGrow_trans p2 q2⟩

theorem dirGrow_updC (c : ChanInfo) (u : ChanUpd) :
    dirGrow c.d12 (updC c u).d12 ∧ dirGrow c.d21 (updC c u).d21 := by
  rw [updC_eq]
  split
  · rename_i h
    simp only [Bool.and_eq_true] at h
    have hn := h.2
    cases hd : u.dir
    · simp only [hd, ChanInfo.dir, Bool.false_eq_true, if_false] at hn
      refine ⟨?_, ?_⟩
      · intro x hx
        refine ⟨u.info, by simp [ChanInfo.setDir], ?_⟩
        rw [hx] at hn
        left; simpa [newer, ChanUpd.info] using hn
      · simp only [ChanInfo.setDir, Bool.false_eq_true, if_false]; exact dirGrow_refl _
    · simp only [hd, ChanInfo.dir, if_true] at hn
      refine ⟨?_, ?_⟩
      · simp only [ChanInfo.setDir, if_true]; exact dirGrow_refl _
      · intro x hx
        refine ⟨u.info, by simp [ChanInfo.setDir], ?_⟩
        rw [hx] at hn
        left; simpa [newer, ChanUpd.info] using hn
  · exact ⟨dirGrow_refl _, dirGrow_refl _⟩

theorem grows_chanUpd (g : Graph) (u : ChanUpd) : Grows g (applyChanUpd g u).1 := by
  intro s c hc
  rw [applyChanUpd_fst]
  simp only [SMap.get_set]
  by_cases hs : s = u.scid
  · subst hs
    simp only [if_true, hc, updChanO, Option.map_some]
    split
    · exact ⟨_, rfl, dirGrow_updC c u⟩
    · exact ⟨c, rfl, dirGrow_refl _, dirGrow_refl _⟩
  · simp only [hs, if_false]
    exact ⟨c, hc, dirGrow_refl _, dirGrow_refl _⟩

theorem grows_nodeAnn (g : Graph) (n : NodeAnn) : Grows g (applyNodeAnn g n).1 := by
  rw [applyNodeAnn_fst]
  exact fun s c hc => ⟨c, hc, dirGrow_refl _, dirGrow_refl _⟩

theorem grows_partial (g : Graph) (scid : Nat) (cap : Option Nat) (recv n1 n2 : Nat) :
    Grows g (applyChanPartial g scid cap recv n1 n2).1 := by
  unfold applyChanPartial
  split
  · exact Grows.refl g
  · unfold addChannelBetweenNodes
    cases hg : g.channels.get scid with
    | some old => simp only [Bool.false_eq_true, if_false]; exact Grows.refl g
    | none =>
      intro s c hc
      have hs : s ≠ scid := by intro e; rw [e, hg] at hc; cases hc
      exact ⟨c, by simp [hs, hc], dirGrow_refl _, dirGrow_refl _⟩

namespace Impl

theorem grows_rgsAnns (ts : Nat) (l : List RgsAnn) : ∀ g, Grows g (rgsAnns g ts l).1 := by
  induction l with
  | nil => intro g; exact Grows.refl g
  | cons a t ih =>
    intro g
    have h1 : Grows g (applyChanPartial g a.scid a.cap ts a.n1 a.n2).1 := by
      rw [applyChanPartial_eq]; exact grows_partial g _ _ _ _ _
    unfold rgsAnns
    simp only []
    split
    · split
      · exact h1.trans (ih _)
      · exact h1
    · exact h1.trans (ih _)

theorem grows_foldNodes (l : List NodeAnn) : ∀ g, Grows g (l.foldl (fun g n => (applyNodeAnn g n).1) g) := by
  induction l with
  | nil => intro g; exact Grows.refl g
  | cons n t ih =>
    intro g
    simp only [List.foldl_cons]
    have : Grows g (applyNodeAnn g n).1 := by rw [applyNodeAnn_eq]; exact grows_nodeAnn g n
    exact this.trans (ih _)

theorem grows_rgsUpdStep (ts : Nat) (s : Snapshot) (g : Graph) (u : RgsUpd) : Grows g (rgsUpdStep ts s g u) := by
  unfold rgsUpdStep
  split
  · rw [applyChanUpd_eq]; exact grows_chanUpd g _
  · exact Grows.refl g

theorem grows_foldUpds (ts : Nat) (s : Snapshot) (l : List RgsUpd) : ∀ g, Grows g (l.foldl (rgsUpdStep ts s) g) := by
  induction l with
  | nil => intro g; exact Grows.refl g
  | cons u t ih =>
    intro g
    simp only [List.foldl_cons]
    exact (grows_rgsUpdStep ts s g u).trans (ih _)

/-- the graph a snapshot leaves behind, before the optional pruning at the end -/
def snapshotBody (g : Graph) (s : Snapshot) : Graph :=
  let ts := Gen.rgsBackdated s.latestSeen
  let mods := s.nodes.filterMap (rgsNodeMod g ts)
  match rgsAnns g ts s.anns with
  | (g1, some _) => g1
  | (g1, none) =>
    let g2 := mods.foldl (fun g n => (applyNodeAnn g n).1) g1
    if s.upds.isEmpty then g2 else s.upds.foldl (rgsUpdStep ts s) g2

theorem grows_snapshotBody (g : Graph) (s : Snapshot) : Grows g (snapshotBody g s) := by
  unfold snapshotBody
  simp only []
  have h1 := grows_rgsAnns (Gen.rgsBackdated s.latestSeen) s.anns g
  split
  · rename_i g1 e heq; rw [heq] at h1; exact h1
  · rename_i g1 heq
    rw [heq] at h1
    have h2 := grows_foldNodes (s.nodes.filterMap (rgsNodeMod g (Gen.rgsBackdated s.latestSeen))) g1
    split
    · exact h1.trans h2
    · exact h1.trans (h2.trans (grows_foldUpds _ s s.upds _))

/-- the snapshot result is the body, possibly pruned at the end, or the untouched graph -/
theorem applySnapshot_shape (g : Graph) (s : Snapshot) :
    (applySnapshot g s).1 = g ∨ (applySnapshot g s).1 = snapshotBody g s ∨
      ∃ t, (applySnapshot g s).1 = pruneAt (snapshotBody g s) t := by
  unfold applySnapshot snapshotBody
  cases hA : rgsAnns g (Gen.rgsBackdated s.latestSeen) s.anns with
  | mk g1 oe =>
    cases hn : s.now with
    | none =>
      cases oe with
      | some e => right; left; simp [hA]
      | none => cases hE : s.upds.isEmpty <;> (right; left; simp [hA, hE])
    | some t =>
      cases hb : Gen.rgsSnapshotStale s.latestSeen t
      · cases oe with
        | some e => right; left; simp [hA, hb]
        | none =>
          cases hE : s.upds.isEmpty
          · right; right; exact ⟨t, by simp [hA, hb, hE]⟩
          · right; left; simp [hA, hb, hE]
      · left; simp [hb]

theorem dirMono_of_grow {a b : Option UpdInfo} (h : dirGrow a b) : dirMono a b := by
  intro u u' hu hu'
  obtain ⟨w, hw, r⟩ := h u hu
  rw [hu'] at hw; cases hw; exact r

theorem dirMono_grow_prune {a b : Option UpdInfo} (minT : Nat) (h : dirGrow a b) : dirMono a (pruneDir minT b) := by
  intro u u' hu hu'
  obtain ⟨w, hw, r⟩ := h u hu
  have := (pruneDir_eq_some minT b u').mp hu'
  rw [this.1] at hw; cases hw; exact r

theorem snapshot_chanMono (g : Graph) (s : Snapshot) (scid : Nat) (c c' : ChanInfo)
    (h : g.channels.get scid = some c) (h' : (applySnapshot g s).1.channels.get scid = some c') :
    dirMono c.d12 c'.d12 ∧ dirMono c.d21 c'.d21 := by
  obtain ⟨cm, hcm, g1, g2⟩ := grows_snapshotBody g s scid c h
  rcases applySnapshot_shape g s with e | e | ⟨t, e⟩
  · rw [e, h] at h'; cases h'; exact ⟨dirMono_refl _, dirMono_refl _⟩
  · rw [e, hcm] at h'; cases h'; exact ⟨dirMono_of_grow g1, dirMono_of_grow g2⟩
  · rw [e, pruneAt_eq] at h'
    by_cases hr : t > U32_MAX ∨ t < STALE_CHANNEL_UPDATE_AGE_LIMIT_SECS
    · rw [pruneAt_out_of_range _ t hr, hcm] at h'; cases h'
      exact ⟨dirMono_of_grow g1, dirMono_of_grow g2⟩
    · have hr1 : t ≤ U32_MAX := by omega
      have hr2 : STALE_CHANNEL_UPDATE_AGE_LIMIT_SECS ≤ t := by omega
      rw [(pruneAt_spec _ t hr1 hr2).1 scid, hcm] at h'
      simp only [Option.bind_some] at h'
      have := pruneChan_eq_some _ cm c' h'
      rw [this]
      exact ⟨dirMono_grow_prune _ g1, dirMono_grow_prune _ g2⟩

end Impl
end Ldk.Gossip
