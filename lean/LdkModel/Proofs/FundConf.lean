import LdkModel.Model.FundConf
/- Helper lemmas for the funding-scope confirmation state machine (C11, Model/FundConf.lean). Core only. -/
namespace Ldk.FundConf
open Ldk.FundConfGen

/-! ### round 6: the translated decisions of the transactions_confirmed candidate loop, in the shape the lemmas below
    were written for. Both are `rfl` against Generated/FundConf.lean: a changed expression in channel.rs breaks them. -/
@[simp] theorem confirmLoopErr_eq (a b : Bool) : confirmLoopErr a b = (a || b) := rfl
@[simp] theorem confirmLoopMark_eq (n : Nat) : confirmLoopMark n = (n != 0) := rfl

theorem confirmations_zero_of_lt {k h : Nat} (hk : h < k) : confirmations k h = 0 := by
  unfold confirmations; split <;> simp_all

theorem confirmations_pos_of_le {k h : Nat} (hk0 : k ≠ 0) (hk : k ≤ h) : confirmations k h ≠ 0 := by
  unfold confirmations
  have : ¬ h < k := by omega
  simp [hk0, this]

/-- the translated splice retraction: a recorded confirmation above the new best height is cleared, one at or
    below it is kept -/
theorem retractScope_confHeight (h : Nat) (sent : Option Nat) (f : Scope) :
    (retractScope h sent f).confHeight = if h < f.confHeight then 0 else f.confHeight := by
  unfold retractScope spliceRetractHeight
  by_cases hlt : h < f.confHeight
  · simp [confirmations_zero_of_lt hlt, hlt]
  · by_cases h0 : f.confHeight = 0
    · simp [h0]
    · have := confirmations_pos_of_le h0 (by omega : f.confHeight ≤ h)
      simp [hlt, this]

theorem retractScope_txid (h : Nat) (sent : Option Nat) (f : Scope) : (retractScope h sent f).txid = f.txid := rfl

theorem retractScope_le (h : Nat) (sent : Option Nat) (f : Scope) : (retractScope h sent f).confHeight ≤ h := by
  rw [retractScope_confHeight]; split <;> omega

theorem scopeRelevant_some {f : Scope} {p : Nat × Nat} (hp : scopeRelevant f = some p) :
    p = (f.txid, f.confHeight) ∧ f.confHeight ≠ 0 := by
  unfold scopeRelevant relevantHeight at hp
  by_cases h0 : f.confHeight > 0
  · cases hc : f.confIn <;> simp [h0, hc] at hp
    exact ⟨hp.symm, by omega⟩
  · simp [h0] at hp

theorem meetsMinDepth_deep {md k h : Nat} (hmd : md ≠ 0) (hm : meetsMinDepth md k h = true) :
    k ≠ 0 ∧ k + md ≤ h + 1 := by
  unfold meetsMinDepth at hm
  simp [hmd] at hm
  by_cases hk : k = 0
  · simp [hk] at hm
  · simp [hk] at hm
    exact ⟨hk, by omega⟩

theorem checkLock_some {md : Nat} {sent : Option Nat} {f : Scope} {h : Nat} {s' : Option Nat} {t : Nat}
    (hl : checkLock md sent f h = (s', some t)) :
    t = f.txid ∧ meetsMinDepth md f.confHeight h = true ∧ sent ≠ some f.txid ∧ s' = some f.txid := by
  unfold checkLock at hl
  by_cases hm : meetsMinDepth md f.confHeight h = true
  · by_cases hs : sent = some f.txid
    · simp [hm, hs] at hl
    · simp [hm, hs] at hl
      exact ⟨hl.2.symm, hm, hs, hl.1.symm⟩
  · simp [hm] at hl

theorem spliceSection_cands_le (c : Chan) (h : Nat) :
    (spliceSection c h).1.closed = true ∨ ∀ g ∈ (spliceSection c h).1.cands, g.confHeight ≤ h := by
  unfold spliceSection
  split
  · left; rfl
  · split
    · rename_i hnone
      right
      intro g hg
      have := List.find?_eq_none.1 hnone g hg
      simp at this
      simp at hg
      omega
    · right
      intro g hg
      simp only [List.mem_map] at hg
      obtain ⟨g0, _, rfl⟩ := hg
      split
      · exact retractScope_le _ _ _
      · rename_i h0; simp at h0; omega

/-- after do_best_block_updated(h) no candidate keeps a recorded confirmation above h (or the channel is closed) -/
theorem bbu_cands_le (c : Chan) (h : Nat) :
    (chanBestBlockUpdated c h).1.closed = true ∨ ∀ g ∈ (chanBestBlockUpdated c h).1.cands, g.confHeight ≤ h := by
  unfold chanBestBlockUpdated
  split
  · left; assumption
  · split
    · left; rfl
    · exact spliceSection_cands_le _ h

theorem mainRetracted_le (c : Chan) (h : Nat) : (mainRetracted c h).confHeight ≤ h := by
  unfold mainRetracted mainRetractHeight
  by_cases hlt : h < c.main.confHeight
  · simp [confirmations_zero_of_lt hlt]
  · simp only []; split <;> omega

theorem mainRetracted_txid (c : Chan) (h : Nat) : (mainRetracted c h).txid = c.main.txid := rfl

theorem spliceSection_main (c : Chan) (h : Nat) : (spliceSection c h).1.main = c.main := by
  unfold spliceSection; split; · rfl
  split <;> rfl

theorem spliceSection_minDepth (c : Chan) (h : Nat) : (spliceSection c h).1.minDepth = c.minDepth := by
  unfold spliceSection; split; · rfl
  split <;> rfl

theorem spliceSection_best (c : Chan) (h : Nat) : (spliceSection c h).1.best = c.best := by
  unfold spliceSection; split; · rfl
  split <;> rfl

theorem bbu_main_le (c : Chan) (h : Nat) :
    (chanBestBlockUpdated c h).1.closed = true ∨ (chanBestBlockUpdated c h).1.main.confHeight ≤ h := by
  unfold chanBestBlockUpdated
  split
  · left; assumption
  · split
    · left; rfl
    · right; rw [spliceSection_main]; exact mainRetracted_le c h

theorem bbu_minDepth (c : Chan) (h : Nat) : (chanBestBlockUpdated c h).1.minDepth = c.minDepth := by
  unfold chanBestBlockUpdated
  split; · rfl
  split; · rfl
  rw [spliceSection_minDepth]

theorem bbu_best (c : Chan) (h : Nat) : (chanBestBlockUpdated c h).1.best = c.best := by
  unfold chanBestBlockUpdated
  split; · rfl
  split; · rfl
  rw [spliceSection_best]

/-- get_relevant_txids after do_best_block_updated(h): no scope is listed with a height above h -/
theorem bbu_relevant_le (c : Chan) (h : Nat) (p : Nat × Nat)
    (hp : p ∈ relevantTxids (chanBestBlockUpdated c h).1) : p.2 ≤ h := by
  unfold relevantTxids at hp
  by_cases hcl : (chanBestBlockUpdated c h).1.closed = true
  · simp [hcl] at hp
  · simp only [hcl] at hp
    rw [if_neg (by simp)] at hp
    obtain ⟨f, hf, hrel⟩ := List.mem_filterMap.1 hp
    obtain ⟨rfl, _⟩ := scopeRelevant_some hrel
    rcases List.mem_cons.1 hf with rfl | hf
    · rcases bbu_main_le c h with h1 | h1
      · exact absurd h1 hcl
      · exact h1
    · rcases bbu_cands_le c h with h1 | h1
      · exact absurd h1 hcl
      · exact h1 f hf

/-- a splice_locked produced by the pending-splice section names a candidate that — AFTER the retraction — has a
    recorded confirmation min_depth deep at `h` (unless the channel is zero-conf) -/
theorem spliceSection_lock_sound (c : Chan) (h t : Nat) (hl : (spliceSection c h).2 = some t) :
    c.minDepth = 0 ∨ ∃ g ∈ (spliceSection c h).1.cands, g.txid = t ∧ g.confHeight ≠ 0 ∧ g.confHeight + c.minDepth ≤ h + 1 := by
  by_cases hmd : c.minDepth = 0
  · left; exact hmd
  right
  by_cases hcnt : confirmedCount c.cands ≥ 2
  · simp [spliceSection, hcnt] at hl
  · cases hfind : c.cands.find? (fun f => f.confHeight != 0) with
    | none => simp [spliceSection, hcnt, hfind] at hl
    | some f =>
      unfold spliceSection at hl ⊢
      rw [if_neg hcnt] at hl ⊢
      simp only [hfind] at hl ⊢
      have hf := List.mem_of_find?_eq_some hfind
      have hf0 := List.find?_some hfind
      generalize hr : checkLock c.minDepth (spliceRetractSent (confirmations f.confHeight h) c.sent (some f.txid) c.sent) (retractScope h c.sent f) h = r at hl ⊢
      obtain ⟨s', l⟩ := r
      simp only [] at hl
      subst hl
      obtain ⟨ht, hm, _, _⟩ := checkLock_some hr
      obtain ⟨hk0, hdeep⟩ := meetsMinDepth_deep hmd hm
      refine ⟨retractScope h c.sent f, ?_, ht.symm ▸ rfl, hk0, hdeep⟩
      simp only [List.mem_map]
      exact ⟨f, hf, by simp only [hf0]; rfl⟩

theorem bbu_lock_sound (c : Chan) (h t : Nat) (hl : (chanBestBlockUpdated c h).2 = some t) :
    c.minDepth = 0 ∨ ∃ g ∈ (chanBestBlockUpdated c h).1.cands, g.txid = t ∧ g.confHeight ≠ 0 ∧ g.confHeight + c.minDepth ≤ h + 1 := by
  unfold chanBestBlockUpdated at hl ⊢
  split at hl
  · simp at hl
  · split at hl
    · simp at hl
    · rename_i h1 h2
      rw [if_neg h1, if_neg h2]
      exact spliceSection_lock_sound _ h t hl

/-- transaction_unconfirmed IS do_best_block_updated one below the recorded confirmation height -/
theorem unconf_eq_bbu (c : Chan) (t : Nat) (f : Scope) (hc : c.closed = false)
    (hf : (c.main :: c.cands).find? (fun f => f.txid == t) = some f) (hk : f.confHeight ≠ 0) :
    chanTxUnconfirmed c t = chanBestBlockUpdated c (f.confHeight - 1) := by
  unfold chanTxUnconfirmed
  simp [hc, hf, unconfGuard, unconfReorgHeight, hk]

/-- what the pending-splice section does to the candidates: txids kept, a recorded confirmation above `h` cleared,
    everything else unchanged (or the channel is closed) -/
theorem spliceSection_cands_retracted (c : Chan) (h : Nat) :
    (spliceSection c h).1.closed = true ∨
    ∀ g' ∈ (spliceSection c h).1.cands, ∃ g ∈ c.cands, g'.txid = g.txid ∧
      g'.confHeight = if h < g.confHeight then 0 else g.confHeight := by
  unfold spliceSection
  split
  · left; rfl
  · right
    intro g' hg'
    split at hg'
    · rename_i hnone
      have := List.find?_eq_none.1 hnone g' hg'
      simp at this
      exact ⟨g', hg', rfl, by simp [this]⟩
    · simp only [List.mem_map] at hg'
      obtain ⟨g0, hg0, rfl⟩ := hg'
      refine ⟨g0, hg0, ?_, ?_⟩
      · split <;> rfl
      · split
        · exact retractScope_confHeight _ _ _
        · rename_i h0; simp at h0; simp [h0]

theorem bbu_cands_retracted (c : Chan) (h : Nat) :
    (chanBestBlockUpdated c h).1.closed = true ∨
    ∀ g' ∈ (chanBestBlockUpdated c h).1.cands, ∃ g ∈ c.cands, g'.txid = g.txid ∧
      g'.confHeight = if h < g.confHeight then 0 else g.confHeight := by
  unfold chanBestBlockUpdated
  split
  · left; assumption
  · split
    · left; rfl
    · exact spliceSection_cands_retracted _ h

/-! ### whole histories: a splice_locked needs a recorded confirmation, a recorded confirmation needs a confirming call -/

/-- some candidate with txid `t` has a recorded confirmation -/
def Conf (cs : List Scope) (t : Nat) : Prop := ∃ g ∈ cs, g.txid = t ∧ g.confHeight ≠ 0

/-- the op hands transaction `t` to transactions_confirmed -/
def confirms : Op → Nat → Prop
  | .conf _ ids, t => t ∈ ids
  | .block _ ids, t => t ∈ ids
  | .rblock _ ids, t => t ∈ ids
  | _, _ => False

theorem confirmLoop_spec (t h : Nat) : ∀ (l : List Scope) (acc : List Scope × Option Scope × Bool × Bool),
    (∀ g' ∈ (confirmLoop t h l acc).1, g'.confHeight ≠ 0 → g' ∈ acc.1 ∨ Conf l g'.txid ∨ g'.txid = t) ∧
    (∀ f, (confirmLoop t h l acc).2.1 = some f → acc.2.1 = some f ∨ f.txid = t) := by
  intro l
  induction l with
  | nil => intro acc; exact ⟨fun g' hg' _ => Or.inl hg', fun f hf => Or.inl hf⟩
  | cons f rest ih =>
    intro acc
    obtain ⟨done, idx, already, err⟩ := acc
    have lift : ∀ (x : Scope) (acc' : Option Scope × Bool × Bool), (x.txid = t ∨ (x = f)) →
        ∀ g' ∈ (confirmLoop t h rest (x :: done, acc')).1, g'.confHeight ≠ 0 →
          g' ∈ done ∨ Conf (f :: rest) g'.txid ∨ g'.txid = t := by
      intro x acc' hx g' hg' h0
      rcases (ih (x :: done, acc')).1 g' hg' h0 with h1 | h1 | h1
      · rcases List.mem_cons.1 h1 with rfl | h1
        · rcases hx with hx | hx
          · exact Or.inr (Or.inr hx)
          · subst hx; exact Or.inr (Or.inl ⟨g', List.mem_cons_self, rfl, h0⟩)
        · exact Or.inl h1
      · obtain ⟨g, hg, h2, h3⟩ := h1
        exact Or.inr (Or.inl ⟨g, List.mem_cons_of_mem _ hg, h2, h3⟩)
      · exact Or.inr (Or.inr h1)
    unfold confirmLoop
    simp only [confirmLoopErr_eq, confirmLoopMark_eq]
    by_cases herr : err = true
    · simp only [herr, if_true]
      exact ⟨lift f _ (Or.inr rfl), fun f0 hf0 => (ih _).2 f0 hf0⟩
    · simp only [herr]
      by_cases hg : (confirmGuard f.confHeight && f.txid == t) = true
      · have ht : f.txid = t := by simp at hg; exact hg.2
        simp only [hg, if_true]
        by_cases ha : (already || idx.isSome) = true
        · simp only [ha, if_true]
          exact ⟨lift _ _ (Or.inl ht), fun f0 hf0 => (ih _).2 f0 hf0⟩
        · simp only [ha]
          refine ⟨lift _ _ (Or.inl ht), fun f0 hf0 => ?_⟩
          rcases (ih _).2 f0 hf0 with h1 | h1
          · simp at h1; right; rw [← h1]; exact ht
          · exact Or.inr h1
      · simp only [hg]
        by_cases hc : (f.confHeight != 0) = true
        · simp only [hc, if_true]
          exact ⟨lift f _ (Or.inr rfl), fun f0 hf0 => (ih _).2 f0 hf0⟩
        · simp only [hc]
          exact ⟨lift f _ (Or.inr rfl), fun f0 hf0 => (ih _).2 f0 hf0⟩

theorem checkLock_cases (md : Nat) (sent : Option Nat) (f : Scope) (h : Nat) :
    (checkLock md sent f h).2 = none ∨ (checkLock md sent f h).2 = some f.txid := by
  unfold checkLock; split; · left; rfl
  split; · left; rfl
  right; rfl

theorem txsConfirmed_spec (h : Nat) : ∀ (ids : List Nat) (c : Chan),
    (chanTxsConfirmed c h ids).1.minDepth = c.minDepth ∧
    (chanTxsConfirmed c h ids).1.best = c.best ∧
    (∀ g' ∈ (chanTxsConfirmed c h ids).1.cands, g'.confHeight ≠ 0 → Conf c.cands g'.txid ∨ g'.txid ∈ ids) ∧
    (∀ t, (chanTxsConfirmed c h ids).2 = some t → t ∈ ids) := by
  intro ids
  induction ids with
  | nil =>
    intro c
    refine ⟨rfl, rfl, fun g' hg' h0 => Or.inl ⟨g', hg', rfl, h0⟩, fun t ht => by simp [chanTxsConfirmed] at ht⟩
  | cons t ts ih =>
    intro c
    have self : ∀ g' ∈ c.cands, g'.confHeight ≠ 0 → Conf c.cands g'.txid ∨ g'.txid ∈ t :: ts :=
      fun g' hg' h0 => Or.inl ⟨g', hg', rfl, h0⟩
    unfold chanTxsConfirmed
    by_cases hcl : c.closed = true
    · simp only [hcl, if_true]
      exact ⟨(by first | rfl | trivial), (by first | rfl | trivial), self, fun t ht => by simp at ht⟩
    · simp only [hcl]
      generalize hloop : confirmLoop t h c.cands ([], none, false, false) = r
      obtain ⟨done, idx, already, err⟩ := r
      have hspec := confirmLoop_spec t h c.cands ([], none, false, false)
      rw [hloop] at hspec
      simp only [] at hspec
      have hdone : ∀ g' ∈ done.reverse, g'.confHeight ≠ 0 → Conf c.cands g'.txid ∨ g'.txid ∈ t :: ts := by
        intro g' hg' h0
        rcases hspec.1 g' (List.mem_reverse.1 hg') h0 with h1 | h1 | h1
        · simp at h1
        · exact Or.inl h1
        · exact Or.inr (by rw [h1]; exact List.mem_cons_self)
      -- the recursive call starts from a channel whose candidates are `done.reverse`
      have hrec : ∀ c1 : Chan, c1.cands = done.reverse → c1.minDepth = c.minDepth → c1.best = c.best →
          (chanTxsConfirmed c1 h ts).1.minDepth = c.minDepth ∧ (chanTxsConfirmed c1 h ts).1.best = c.best ∧
          (∀ g' ∈ (chanTxsConfirmed c1 h ts).1.cands, g'.confHeight ≠ 0 → Conf c.cands g'.txid ∨ g'.txid ∈ t :: ts) ∧
          (∀ t', (chanTxsConfirmed c1 h ts).2 = some t' → t' ∈ t :: ts) := by
        intro c1 hc1 hmd hb
        obtain ⟨i1, i2, i3, i4⟩ := ih c1
        refine ⟨i1.trans hmd, i2.trans hb, fun g' hg' h0 => ?_, fun t' ht' => List.mem_cons_of_mem _ (i4 t' ht')⟩
        rcases i3 g' hg' h0 with ⟨g, hg, h2, h3⟩ | h1
        · rw [hc1] at hg
          rcases hdone g hg h3 with h4 | h4
          · exact Or.inl (h2 ▸ h4)
          · exact Or.inr (h2 ▸ h4)
        · exact Or.inr (List.mem_cons_of_mem _ h1)
      simp only []
      by_cases herr : err = true
      · simp only [herr, if_true]
        exact ⟨(by first | rfl | trivial), (by first | rfl | trivial), hdone, fun t ht => by simp at ht⟩
      · simp only [herr]
        cases idx with
        | none => exact hrec _ rfl rfl rfl
        | some f =>
          have hft : f.txid = t := by
            rcases hspec.2 f rfl with h1 | h1
            · simp at h1
            · exact h1
          simp only []
          generalize hck : checkLock c.minDepth c.sent f h = ck
          obtain ⟨s', l⟩ := ck
          cases l with
          | none => exact hrec _ rfl rfl rfl
          | some l =>
            simp only []
            refine ⟨(by first | rfl | trivial), (by first | rfl | trivial), hdone, fun t' ht' => ?_⟩
            have := (checkLock_some hck).1
            simp at ht'
            rw [← ht', this, hft]; exact List.mem_cons_self

theorem spliceSection_conf (c : Chan) (h : Nat) :
    ∀ g' ∈ (spliceSection c h).1.cands, g'.confHeight ≠ 0 → Conf c.cands g'.txid := by
  intro g' hg' h0
  unfold spliceSection at hg'
  split at hg'
  · exact ⟨g', hg', rfl, h0⟩
  · split at hg'
    · exact ⟨g', hg', rfl, h0⟩
    · simp only [List.mem_map] at hg'
      obtain ⟨g, hg, rfl⟩ := hg'
      by_cases hgc : (g.confHeight != 0) = true
      · simp only [hgc, if_true] at h0 ⊢
        exact ⟨g, hg, rfl, by simpa using hgc⟩
      · simp only [hgc] at h0 ⊢
        exact ⟨g, hg, rfl, h0⟩

theorem bbu_conf (c : Chan) (h : Nat) :
    ∀ g' ∈ (chanBestBlockUpdated c h).1.cands, g'.confHeight ≠ 0 → Conf c.cands g'.txid := by
  intro g' hg' h0
  unfold chanBestBlockUpdated at hg'
  split at hg'
  · exact ⟨g', hg', rfl, h0⟩
  · split at hg'
    · exact ⟨g', hg', rfl, h0⟩
    · exact spliceSection_conf { c with main := mainRetracted c h } h g' hg' h0

theorem bbu_lock_conf (c : Chan) (h t : Nat) (hl : (chanBestBlockUpdated c h).2 = some t) :
    c.minDepth = 0 ∨ Conf c.cands t := by
  rcases bbu_lock_sound c h t hl with h1 | ⟨g, hg, h2, h3, _⟩
  · exact Or.inl h1
  · exact Or.inr (h2 ▸ bbu_conf c h g hg h3)

/-- one call: minimum depth kept; a recorded confirmation afterwards was recorded before or the call confirmed that
    transaction (`P`); a splice_locked names a candidate confirmed before or by the call (or the channel is zero-conf) -/
def StepOK (c c' : Chan) (ls : List Nat) (P : Nat → Prop) : Prop :=
  c'.minDepth = c.minDepth ∧
  (∀ g' ∈ c'.cands, g'.confHeight ≠ 0 → Conf c.cands g'.txid ∨ P g'.txid) ∧
  (∀ t ∈ ls, c.minDepth = 0 ∨ Conf c.cands t ∨ P t)

theorem StepOK.mono {c c' : Chan} {ls : List Nat} {P Q : Nat → Prop} (hpq : ∀ t, P t → Q t)
    (h : StepOK c c' ls P) : StepOK c c' ls Q :=
  ⟨h.1, fun g' hg' h0 => (h.2.1 g' hg' h0).imp_right (hpq _),
   fun t ht => (h.2.2 t ht).imp_right (Or.imp_right (hpq _))⟩

theorem StepOK.refl (c : Chan) (P : Nat → Prop) : StepOK c c [] P :=
  ⟨rfl, fun g' hg' h0 => Or.inl ⟨g', hg', rfl, h0⟩, fun t ht => by simp at ht⟩

theorem StepOK.trans {c c1 c2 : Chan} {l1 l2 : List Nat} {P : Nat → Prop}
    (h1 : StepOK c c1 l1 P) (h2 : StepOK c1 c2 l2 P) : StepOK c c2 (l1 ++ l2) P := by
  have lift : ∀ t, Conf c1.cands t → Conf c.cands t ∨ P t := by
    rintro t ⟨g, hg, rfl, h0⟩
    exact h1.2.1 g hg h0
  refine ⟨h2.1.trans h1.1, fun g' hg' h0 => ?_, fun t ht => ?_⟩
  · rcases h2.2.1 g' hg' h0 with h3 | h3
    · exact lift _ h3
    · exact Or.inr h3
  · rcases List.mem_append.1 ht with ht | ht
    · exact h1.2.2 t ht
    · rcases h2.2.2 t ht with h3 | h3 | h3
      · exact Or.inl (h1.1 ▸ h3)
      · exact Or.inr (lift _ h3)
      · exact Or.inr (Or.inr h3)

theorem mem_locksOf {l : Option Nat} {t : Nat} (h : t ∈ locksOf l) : l = some t := by
  cases l <;> simp [locksOf] at h ⊢
  exact h.symm

theorem bbu_StepOK (c : Chan) (h : Nat) (P : Nat → Prop) :
    StepOK c (chanBestBlockUpdated c h).1 (locksOf (chanBestBlockUpdated c h).2) P :=
  ⟨bbu_minDepth c h, fun g' hg' h0 => Or.inl (bbu_conf c h g' hg' h0),
   fun t ht => by
     rcases bbu_lock_conf c h t (mem_locksOf ht) with h1 | h1
     · exact Or.inl h1
     · exact Or.inr (Or.inl h1)⟩

theorem txs_StepOK (c : Chan) (h : Nat) (ids : List Nat) :
    StepOK c (chanTxsConfirmed c h ids).1 (locksOf (chanTxsConfirmed c h ids).2) (· ∈ ids) := by
  obtain ⟨i1, _, i3, i4⟩ := txsConfirmed_spec h ids c
  exact ⟨i1, i3, fun t ht => Or.inr (Or.inr (i4 t (mem_locksOf ht)))⟩

theorem mgrConf_StepOK (c : Chan) (h : Nat) (ids : List Nat) :
    StepOK c (mgrConf c h ids).1 (mgrConf c h ids).2 (· ∈ ids) := by
  unfold mgrConf
  simp only []
  split
  · exact (txs_StepOK c h ids).trans (bbu_StepOK _ _ _)
  · exact txs_StepOK c h ids

theorem mgrBest_StepOK (c : Chan) (h : Nat) (P : Nat → Prop) :
    StepOK c (mgrBest c h).1 (mgrBest c h).2 P := by
  unfold mgrBest
  exact bbu_StepOK { c with best := h } h P

theorem unconf_StepOK (c : Chan) (t : Nat) (P : Nat → Prop) :
    StepOK c (chanTxUnconfirmed c t).1 (locksOf (chanTxUnconfirmed c t).2) P := by
  unfold chanTxUnconfirmed
  split; · exact StepOK.refl c P
  split
  · split
    · exact bbu_StepOK _ _ _
    · exact StepOK.refl c P
  · exact StepOK.refl c P

theorem step_StepOK (c : Chan) (o : Op) : StepOK c (step c o).1 (step c o).2 (confirms o) := by
  cases o with
  | conf h ids => exact mgrConf_StepOK c h ids
  | best h => exact mgrBest_StepOK c h _
  | block h ids => exact (mgrConf_StepOK c h ids).trans (mgrBest_StepOK _ h _)
  | rblock h ids => exact mgrConf_StepOK c h ids
  | disc h => exact mgrBest_StepOK c h _
  | unconf t => exact unconf_StepOK c t _

theorem run_StepOK : ∀ (ops : List Op) (c : Chan),
    StepOK c (run c ops).1 (run c ops).2 (fun t => ∃ o ∈ ops, confirms o t)
  | [], c => StepOK.refl c _
  | o :: os, c => by
    have h1 : StepOK c (step c o).1 (step c o).2 (fun t => ∃ o' ∈ o :: os, confirms o' t) :=
      (step_StepOK c o).mono (fun t ht => ⟨o, List.mem_cons_self, ht⟩)
    have h2 : StepOK (step c o).1 (run (step c o).1 os).1 (run (step c o).1 os).2 (fun t => ∃ o' ∈ o :: os, confirms o' t) :=
      (run_StepOK os (step c o).1).mono (fun t ⟨o', ho', ht⟩ => ⟨o', List.mem_cons_of_mem _ ho', ht⟩)
    exact h1.trans h2

/-! ### delivery order of one connected block (one pending candidate) -/

/-- record a confirmation at `h` (what check_for_funding_tx_confirmed writes) -/
def recorded (f : Scope) (h : Nat) : Scope := { f with confHeight := h, confIn := true, scid := true }

theorem chan_eta (c : Chan) : ({ c with main := c.main, cands := c.cands } : Chan) = c := by cases c; rfl

theorem confirmLoop_single (t h : Nat) (f : Scope) :
    confirmLoop t h [f] ([], none, false, false) =
      if confirmGuard f.confHeight && f.txid == t then ([recorded f h], some (recorded f h), false, false)
      else if f.confHeight != 0 then ([f], none, true, false) else ([f], none, false, false) := by
  simp [confirmLoop, recorded]

/-- one candidate, already confirmed: transactions_confirmed changes nothing -/
theorem txs_single_confirmed (h : Nat) (f : Scope) (hf : f.confHeight ≠ 0) : ∀ (ids : List Nat) (c : Chan),
    c.cands = [f] → c.main.confHeight ≠ 0 → chanTxsConfirmed c h ids = (c, none) := by
  intro ids
  induction ids with
  | nil => intro c _ _; rfl
  | cons t ts ih =>
    intro c hc hm
    unfold chanTxsConfirmed
    by_cases hcl : c.closed = true
    · simp [hcl]
    · have hg : confirmGuard f.confHeight = false := by simp [confirmGuard, hf]
      have hgm : confirmGuard c.main.confHeight = false := by simp [confirmGuard, hm]
      have hclf : c.closed = false := by simpa using hcl
      have hE : ({ minDepth := c.minDepth, main := c.main, cands := [f], sent := c.sent, best := c.best } : Chan) = c := by
        cases c; simp_all
      simp only [hclf, hc, confirmLoop_single, hg, hgm, Bool.false_and]
      simp [hf]
      rw [hE]
      exact ih c hc hm

theorem checkLock_none_fst {md : Nat} {s : Option Nat} {f : Scope} {h : Nat}
    (hn : (checkLock md s f h).2 = none) : (checkLock md s f h).1 = s := by
  unfold checkLock at hn ⊢
  split; · rfl
  split; · rfl
  rename_i h1 h2; simp [h1, h2] at hn

theorem checkLock_idem (md : Nat) (s : Option Nat) (f : Scope) (h : Nat) :
    checkLock md (checkLock md s f h).1 f h = ((checkLock md s f h).1, none) := by
  unfold checkLock
  by_cases hm : meetsMinDepth md f.confHeight h = true
  · by_cases hs : s = some f.txid
    · simp [hm, hs]
    · simp [hm, hs]
  · simp [hm]

/-- one candidate, not confirmed: transactions_confirmed records it iff the block contains it, then check_get_splice_locked -/
theorem txs_single_unconfirmed (h : Nat) (h0 : h ≠ 0) (f : Scope) (hf : f.confHeight = 0) : ∀ (ids : List Nat) (c : Chan),
    c.closed = false → c.cands = [f] → c.main.confHeight ≠ 0 →
    chanTxsConfirmed c h ids =
      if f.txid ∈ ids then
        ({ c with cands := [recorded f h], sent := (checkLock c.minDepth c.sent (recorded f h) h).1 },
         (checkLock c.minDepth c.sent (recorded f h) h).2)
      else (c, none) := by
  intro ids
  induction ids with
  | nil => intro c _ _ _; simp [chanTxsConfirmed]
  | cons t ts ih =>
    intro c hclf hc hm
    have hgm : confirmGuard c.main.confHeight = false := by simp [confirmGuard, hm]
    have hg : confirmGuard f.confHeight = true := by simp [confirmGuard, hf]
    unfold chanTxsConfirmed
    simp only [hclf, hc, confirmLoop_single, hg, hgm, Bool.false_and, Bool.true_and]
    by_cases ht : f.txid = t
    · have hmem : f.txid ∈ t :: ts := by rw [ht]; exact List.mem_cons_self
      simp only [hmem, if_true]
      simp [ht]
      generalize hr : checkLock c.minDepth c.sent (recorded f h) h = r
      obtain ⟨s', l⟩ := r
      cases l with
      | some l => simp
      | none =>
        have hs : s' = c.sent := by
          have := checkLock_none_fst (md := c.minDepth) (s := c.sent) (f := recorded f h) (h := h) (by rw [hr])
          rw [hr] at this; exact this
        simp only []
        subst hs
        exact txs_single_confirmed h (recorded f h) (by simpa [recorded] using h0) ts
          { minDepth := c.minDepth, main := c.main, cands := [recorded f h], sent := c.sent, best := c.best } rfl hm
    · have hmem : (f.txid ∈ t :: ts) ↔ f.txid ∈ ts := by simp [ht]
      have hE : ({ minDepth := c.minDepth, main := c.main, cands := [f], sent := c.sent, best := c.best } : Chan) = c := by
        cases c; simp_all
      simp [ht, hf, hmem]
      rw [hE]
      have := ih c hclf hc hm
      simpa [hclf] using this

theorem mainRetracted_eq {c : Chan} {h : Nat} (hm0 : c.main.confHeight ≠ 0) (hmh : c.main.confHeight ≤ h) :
    mainRetracted c h = c.main ∧ mainUnconfirmedCloses c h = false := by
  have hc := confirmations_pos_of_le hm0 hmh
  unfold mainRetracted mainUnconfirmedCloses mainCloseGuard mainRetractHeight mainRetractConfIn mainRetractScid
  simp [hc]

/-- one unconfirmed candidate: do_best_block_updated changes nothing -/
theorem bbu_single_unconf (c : Chan) (f : Scope) (h : Nat) (hcl : c.closed = false) (hc : c.cands = [f])
    (hf : f.confHeight = 0) (hm0 : c.main.confHeight ≠ 0) (hmh : c.main.confHeight ≤ h) :
    chanBestBlockUpdated c h = (c, none) := by
  obtain ⟨e1, e2⟩ := mainRetracted_eq hm0 hmh
  unfold chanBestBlockUpdated
  simp only [hcl, e1, e2]
  simp [spliceSection, hc, confirmedCount, hf]
  cases c; simp_all

/-- one candidate confirmed at or below `h`: do_best_block_updated only runs check_get_splice_locked -/
theorem bbu_single_conf (c : Chan) (f : Scope) (h : Nat) (hcl : c.closed = false) (hc : c.cands = [f])
    (hf0 : f.confHeight ≠ 0) (hfh : f.confHeight ≤ h) (hm0 : c.main.confHeight ≠ 0) (hmh : c.main.confHeight ≤ h) :
    chanBestBlockUpdated c h =
      ({ c with sent := (checkLock c.minDepth c.sent f h).1 }, (checkLock c.minDepth c.sent f h).2) := by
  obtain ⟨e1, e2⟩ := mainRetracted_eq hm0 hmh
  have hcf := confirmations_pos_of_le hf0 hfh
  have hr : retractScope h c.sent f = f := by
    unfold retractScope spliceRetractHeight spliceRetractConfIn spliceRetractScid
    simp [hcf]
  have hs : spliceRetractSent (confirmations f.confHeight h) c.sent (some f.txid) c.sent = c.sent := by
    unfold spliceRetractSent; simp [hcf]
  unfold chanBestBlockUpdated
  simp only [hcl, e1, e2]
  simp [spliceSection, hc, confirmedCount, hf0, hr, hs]

/-- Delivery-order independence of one connected block, for a channel with ONE pending splice candidate (no RBF
    candidates — that is what is missing) whose funding stays confirmed: best-block-first, transactions-first and the
    Listen call end in the same channel state with the same splice_locked messages. -/
theorem connect_order_single (c : Chan) (f : Scope) (h : Nat) (ids : List Nat) (hcl : c.closed = false) (hc : c.cands = [f])
    (hm0 : c.main.confHeight ≠ 0) (hmh : c.main.confHeight ≤ h) (hfh : f.confHeight ≤ h) (hb : c.best < h) :
    run c [.best h, .conf h ids] = run c [.conf h ids, .best h] ∧
    run c [.block h ids] = run c [.conf h ids, .best h] := by
  have h0 : h ≠ 0 := by omega
  refine ⟨?_, by simp [run, step]⟩
  have hlt : ¬ h < c.best := by omega
  simp only [run, step, mgrConf, mgrBest, List.append_nil]
  by_cases hf : f.confHeight = 0
  · have eB := bbu_single_unconf { c with best := h } f h hcl hc hf hm0 hmh
    have eT := txs_single_unconfirmed h h0 f hf ids c hcl hc hm0
    have eT' := txs_single_unconfirmed h h0 f hf ids { c with best := h } hcl hc hm0
    by_cases hmem : f.txid ∈ ids
    · simp only [hmem, if_true] at eT eT'
      have eC := bbu_single_conf { c with cands := [recorded f h], sent := (checkLock c.minDepth c.sent (recorded f h) h).1, best := h }
        (recorded f h) h hcl rfl (by simpa [recorded] using h0) (by simp [recorded]) hm0 hmh
      simp only [checkLock_idem] at eC
      simp only [eB, eT, eT', hlt, if_false, Nat.lt_irrefl, eC]
      simp [locksOf]
    · simp only [hmem, if_false] at eT eT'
      simp only [eB, eT, eT', hlt, if_false, Nat.lt_irrefl]
  · have eT := txs_single_confirmed h f hf ids c hc hm0
    have eC := bbu_single_conf { c with best := h } f h hcl hc hf hfh hm0 hmh
    have eT' := txs_single_confirmed h f hf ids
      { c with best := h, sent := (checkLock c.minDepth c.sent f h).1 } hc hm0
    simp only [eT, eC, eT', hlt, if_false, Nat.lt_irrefl]
    simp [locksOf]

/-! ### the channel funding before channel_ready -/

theorem preRetracted_of_lt (p : Pre) (h : Nat) (hlt : h < p.main.confHeight) :
    (preRetracted p h).confHeight = 0 ∧ (preRetracted p h).confIn = false ∧ (preRetracted p h).scid = false := by
  unfold preRetracted mainRetractHeight mainRetractConfIn mainRetractScid
  simp [confirmations_zero_of_lt hlt]

theorem preRetracted_le (p : Pre) (h : Nat) : (preRetracted p h).confHeight ≤ h := by
  unfold preRetracted mainRetractHeight
  by_cases hlt : h < p.main.confHeight
  · simp [confirmations_zero_of_lt hlt]
  · simp only []; split <;> omega

theorem preCheckReady_main (p : Pre) (h : Nat) : (preCheckReady p h).1.main = p.main := by
  unfold preCheckReady; split; · rfl
  split <;> rfl

theorem preCheckReady_minDepth (p : Pre) (h : Nat) : (preCheckReady p h).1.minDepth = p.minDepth := by
  unfold preCheckReady; split; · rfl
  split <;> rfl

theorem preCheckReady_sound (p : Pre) (h : Nat) (hr : (preCheckReady p h).2 = true) :
    p.minDepth = 0 ∨ (p.main.confHeight ≠ 0 ∧ p.main.confHeight + p.minDepth ≤ h + 1) := by
  by_cases hmd : p.minDepth = 0
  · exact Or.inl hmd
  right
  unfold preCheckReady at hr
  by_cases hm : meetsMinDepth p.minDepth p.main.confHeight h = true
  · exact meetsMinDepth_deep hmd hm
  · simp [hm] at hr

theorem preFinish_main (r : Pre × Bool) (c : Nat) (w : Bool) : (preFinish r c w).1.main = r.1.main := by
  unfold preFinish; split; · rfl
  split <;> rfl

theorem preFinish_ready (r : Pre × Bool) (c : Nat) (w : Bool) (h : (preFinish r c w).2 = true) : r.2 = true := by
  unfold preFinish at h
  split at h; · assumption
  split at h
  · simp at h
  · exact h

theorem preBBU_main (p : Pre) (h : Nat) (hc : p.closed = false) :
    (preBestBlockUpdated p h).1.main = preRetracted p h := by
  unfold preBestBlockUpdated
  rw [if_neg (by simp [hc]), preFinish_main, preCheckReady_main]

theorem preBBU_ready_sound (p : Pre) (h : Nat) (hr : (preBestBlockUpdated p h).2 = true) :
    p.minDepth = 0 ∨ ((preBestBlockUpdated p h).1.main.confHeight ≠ 0 ∧
      (preBestBlockUpdated p h).1.main.confHeight + p.minDepth ≤ h + 1) := by
  by_cases hc : p.closed = true
  · simp [preBestBlockUpdated, hc] at hr
  · have hcf : p.closed = false := by simpa using hc
    rw [preBBU_main p h hcf]
    unfold preBestBlockUpdated at hr
    rw [if_neg hc] at hr
    exact preCheckReady_sound { p with main := preRetracted p h } h (preFinish_ready _ _ _ hr)

theorem preRelevant_le (p : Pre) (h : Nat) (q : Nat × Nat) (hq : q ∈ preRelevant (preBestBlockUpdated p h).1)
    (hc : p.closed = false) : q.2 ≤ h := by
  unfold preRelevant at hq
  split at hq
  · simp at hq
  · simp only [List.filterMap_cons, List.filterMap_nil] at hq
    rw [preBBU_main p h hc] at hq
    cases hs : scopeRelevant (preRetracted p h) with
    | none => simp [hs] at hq
    | some q' =>
      simp [hs] at hq
      obtain ⟨rfl, _⟩ := scopeRelevant_some hs
      subst hq
      exact preRetracted_le p h

/-! ### un-sending splice_locked -/

theorem meetsMinDepth_zero {md h : Nat} (hmd : md ≠ 0) : meetsMinDepth md 0 h = false := by
  unfold meetsMinDepth; simp [hmd]

/-- the confirmed candidate is reorganised out: its splice_locked is "un-sent" and none is produced -/
theorem spliceSection_unsends (c : Chan) (h : Nat) (f : Scope) (hcnt : ¬ confirmedCount c.cands ≥ 2)
    (hfind : c.cands.find? (fun f => f.confHeight != 0) = some f) (hlt : h < f.confHeight) (hmd : c.minDepth ≠ 0) :
    (spliceSection c h).1.sent ≠ some f.txid ∧ (spliceSection c h).2 = none ∧ (spliceSection c h).1.closed = c.closed := by
  have hconf : confirmations f.confHeight h = 0 := confirmations_zero_of_lt hlt
  have hr0 : (retractScope h c.sent f).confHeight = 0 := by rw [retractScope_confHeight]; simp [hlt]
  unfold spliceSection
  rw [if_neg hcnt]
  simp only [hfind]
  unfold checkLock
  rw [hr0, meetsMinDepth_zero hmd]
  simp only [Bool.not_false, if_true, hconf]
  refine ⟨?_, by first | rfl | trivial, by first | rfl | trivial⟩
  unfold spliceRetractSent
  cases hs : c.sent with
  | none => simp
  | some s =>
    by_cases he : s = f.txid
    · simp [he]
    · simp [he]

theorem bbu_unsends (c : Chan) (h : Nat) (f : Scope) (hc : c.closed = false) (hmain : mainUnconfirmedCloses c h = false)
    (hcnt : ¬ confirmedCount c.cands ≥ 2) (hfind : c.cands.find? (fun f => f.confHeight != 0) = some f)
    (hlt : h < f.confHeight) (hmd : c.minDepth ≠ 0) :
    (chanBestBlockUpdated c h).1.sent ≠ some f.txid ∧ (chanBestBlockUpdated c h).2 = none ∧
    (chanBestBlockUpdated c h).1.closed = false := by
  unfold chanBestBlockUpdated
  rw [if_neg (by simp [hc]), if_neg (by simp [hmain])]
  have := spliceSection_unsends { c with main := mainRetracted c h } h f hcnt hfind hlt hmd
  exact ⟨this.1, this.2.1, this.2.2.trans hc⟩

/-! ### delivery order of one connected block, any number of candidates -/

theorem confirmLoop_noop (t h : Nat) : ∀ (l done : List Scope) (idx : Option Scope) (already : Bool),
    (∀ f ∈ l, (confirmGuard f.confHeight && f.txid == t) = false) →
    confirmLoop t h l (done, idx, already, false) =
      (l.reverse ++ done, idx, already || l.any (fun f => f.confHeight != 0), false) := by
  intro l
  induction l with
  | nil => intro done idx already _; simp [confirmLoop]
  | cons f rest ih =>
    intro done idx already hno
    have hf := hno f List.mem_cons_self
    have hrest : ∀ g ∈ rest, (confirmGuard g.confHeight && g.txid == t) = false :=
      fun g hg => hno g (List.mem_cons_of_mem _ hg)
    unfold confirmLoop
    simp only [confirmLoopErr_eq, confirmLoopMark_eq]
    simp only [hf]
    by_cases hc : (f.confHeight != 0) = true
    · have e := ih (f :: done) idx true hrest
      simp [hc, e]
    · have e := ih (f :: done) idx already hrest
      have hc' : f.confHeight = 0 := by simpa using hc
      simp [hc', e]

/-- a block that confirms no candidate (and not the funding): transactions_confirmed changes nothing -/
theorem txs_noop (h : Nat) : ∀ (ids : List Nat) (c : Chan),
    (c.closed = true ∨ (c.main.confHeight ≠ 0 ∧ ∀ f ∈ c.cands, f.confHeight = 0 → f.txid ∉ ids)) →
    chanTxsConfirmed c h ids = (c, none) := by
  intro ids
  induction ids with
  | nil => intro c _; rfl
  | cons t ts ih =>
    intro c hyp
    unfold chanTxsConfirmed
    by_cases hcl : c.closed = true
    · simp [hcl]
    · rcases hyp with hyp | ⟨hm, hno⟩
      · exact absurd hyp hcl
      have hclf : c.closed = false := by simpa using hcl
      have hgm : confirmGuard c.main.confHeight = false := by simp [confirmGuard, hm]
      have hl : ∀ f ∈ c.cands, (confirmGuard f.confHeight && f.txid == t) = false := by
        intro f hf
        by_cases h0 : f.confHeight = 0
        · have := hno f hf h0
          simp at this
          simp [confirmGuard, h0, this.1]
        · simp [confirmGuard, h0]
      have hE : ({ minDepth := c.minDepth, main := c.main, cands := c.cands, sent := c.sent, best := c.best } : Chan) = c := by
        cases c; simp_all
      simp only [hclf, hgm, Bool.false_and, confirmLoop_noop t h c.cands [] none false hl]
      simp
      rw [hE]
      exact ih c (Or.inr ⟨hm, fun f hf h0 hmem => hno f hf h0 (List.mem_cons_of_mem _ hmem)⟩)

theorem bbu_main_eq (c : Chan) (h : Nat) (hc : c.closed = false) (hm0 : c.main.confHeight ≠ 0) (hmh : c.main.confHeight ≤ h) :
    (chanBestBlockUpdated c h).1.main = c.main := by
  obtain ⟨e1, e2⟩ := mainRetracted_eq hm0 hmh
  unfold chanBestBlockUpdated
  rw [if_neg (by simp [hc]), if_neg (by simp [e2]), spliceSection_main]
  exact e1

/-- Delivery-order independence of one connected block for ANY number of pending (RBF) candidates, when the block
    confirms none of them: best-first = transactions-first = Listen block. -/
theorem connect_order_no_candidate (c : Chan) (h : Nat) (ids : List Nat) (hcl : c.closed = false)
    (hm0 : c.main.confHeight ≠ 0) (hmh : c.main.confHeight ≤ h) (hfh : ∀ f ∈ c.cands, f.confHeight ≤ h)
    (hb : c.best < h) (hno : ∀ f ∈ c.cands, f.confHeight = 0 → f.txid ∉ ids) :
    run c [.best h, .conf h ids] = run c [.conf h ids, .best h] ∧
    run c [.block h ids] = run c [.conf h ids, .best h] := by
  refine ⟨?_, by simp [run, step]⟩
  have hlt : ¬ h < c.best := by omega
  have eT := txs_noop h ids c (Or.inr ⟨hm0, hno⟩)
  have hB : (chanBestBlockUpdated { c with best := h } h).1.closed = true ∨
      ((chanBestBlockUpdated { c with best := h } h).1.main.confHeight ≠ 0 ∧
        ∀ f ∈ (chanBestBlockUpdated { c with best := h } h).1.cands, f.confHeight = 0 → f.txid ∉ ids) := by
    rcases bbu_cands_retracted { c with best := h } h with h1 | h1
    · exact Or.inl h1
    · right
      refine ⟨by rw [bbu_main_eq { c with best := h } h hcl hm0 hmh]; exact hm0, fun g' hg' h0 => ?_⟩
      obtain ⟨g, hg, ht, hch⟩ := h1 g' hg'
      have hle := hfh g hg
      have : ¬ h < g.confHeight := by omega
      rw [if_neg this] at hch
      rw [ht]
      exact hno g hg (hch ▸ h0)
  have eT' := txs_noop h ids _ hB
  have hbest := bbu_best { c with best := h } h
  simp only [run, step, mgrConf, mgrBest, List.append_nil, eT, eT', hlt, if_false, hbest, Nat.lt_irrefl]
  simp [locksOf]

/-! ### a block confirming ONE of several candidates -/

def AllU (l : List Scope) : Prop := ∀ g ∈ l, g.confHeight = 0

theorem confirmLoop_cons (t h : Nat) (f : Scope) (rest done : List Scope) (idx : Option Scope) (already err : Bool) :
    confirmLoop t h (f :: rest) (done, idx, already, err) =
      if err then confirmLoop t h rest (f :: done, idx, already, err)
      else if confirmGuard f.confHeight && f.txid == t then
        if already || idx.isSome then confirmLoop t h rest (recorded f h :: done, idx, already, true)
        else confirmLoop t h rest (recorded f h :: done, some (recorded f h), already, err)
      else if f.confHeight != 0 then confirmLoop t h rest (f :: done, idx, true, err)
      else confirmLoop t h rest (f :: done, idx, already, err) := by
  rw [confirmLoop]; rfl

theorem confirmLoop_append (t h : Nat) : ∀ (a b : List Scope) (acc : List Scope × Option Scope × Bool × Bool),
    confirmLoop t h (a ++ b) acc = confirmLoop t h b (confirmLoop t h a acc) := by
  intro a
  induction a with
  | nil => intro b acc; simp [confirmLoop]
  | cons f rest ih =>
    intro b acc
    obtain ⟨done, idx, already, err⟩ := acc
    simp only [List.cons_append, confirmLoop_cons]
    split
    · exact ih _ _
    · split
      · split <;> exact ih _ _
      · split <;> exact ih _ _

theorem allU_any {l : List Scope} (hl : AllU l) : l.any (fun f => f.confHeight != 0) = false := by
  simp only [List.any_eq_false]
  intro g hg; simp [hl g hg]

theorem noGuard_of {l : List Scope} {t : Nat} (hne : ∀ g ∈ l, g.txid ≠ t) :
    ∀ f ∈ l, (confirmGuard f.confHeight && f.txid == t) = false := by
  intro f hf; simp [hne f hf]

theorem loop_one (t h : Nat) (pre suf : List Scope) (f : Scope) (hp : AllU pre) (hs : AllU suf)
    (hne : ∀ g ∈ pre ++ suf, g.txid ≠ t) (hf0 : f.confHeight = 0) (hft : f.txid = t) :
    confirmLoop t h (pre ++ f :: suf) ([], none, false, false) =
      (suf.reverse ++ recorded f h :: pre.reverse, some (recorded f h), false, false) := by
  rw [confirmLoop_append, confirmLoop_noop t h pre [] none false (noGuard_of (fun g hg => hne g (List.mem_append_left _ hg)))]
  rw [allU_any hp]
  have hg : (confirmGuard f.confHeight && f.txid == t) = true := by simp [confirmGuard, hf0, hft]
  simp only [Bool.false_or, List.append_nil, confirmLoop_cons, hg, if_true, Option.isSome_none]
  have := confirmLoop_noop t h suf (recorded f h :: pre.reverse) (some (recorded f h)) false
    (noGuard_of (fun g hg => hne g (List.mem_append_right _ hg)))
  rw [allU_any hs] at this
  simpa [recorded] using this

theorem countP_allU {l : List Scope} (hl : AllU l) : l.countP (fun f => f.confHeight != 0) = 0 := by
  rw [List.countP_eq_zero]; intro g hg; simp [hl g hg]

theorem find_allU {l : List Scope} (hl : AllU l) : l.find? (fun f => f.confHeight != 0) = none := by
  rw [List.find?_eq_none]; intro g hg; simp [hl g hg]

theorem map_allU {l : List Scope} (hl : AllU l) (F : Scope → Scope) :
    l.map (fun g => if g.confHeight != 0 then F g else g) = l := by
  conv => rhs; rw [← List.map_id l]
  apply List.map_congr_left
  intro g hg; simp [hl g hg]

/-- all candidates unconfirmed: do_best_block_updated changes nothing -/
theorem bbu_all_unconf (c : Chan) (h : Nat) (hcl : c.closed = false) (hu : AllU c.cands)
    (hm0 : c.main.confHeight ≠ 0) (hmh : c.main.confHeight ≤ h) : chanBestBlockUpdated c h = (c, none) := by
  obtain ⟨e1, e2⟩ := mainRetracted_eq hm0 hmh
  unfold chanBestBlockUpdated
  simp only [hcl, e1, e2]
  simp [spliceSection, confirmedCount, countP_allU hu, find_allU hu]
  cases c; simp_all

/-- exactly one candidate confirmed, at or below `h`: do_best_block_updated only runs check_get_splice_locked -/
theorem bbu_one_conf (c : Chan) (pre suf : List Scope) (f : Scope) (h : Nat) (hcl : c.closed = false)
    (hc : c.cands = pre ++ f :: suf) (hp : AllU pre) (hs : AllU suf)
    (hf0 : f.confHeight ≠ 0) (hfh : f.confHeight ≤ h) (hm0 : c.main.confHeight ≠ 0) (hmh : c.main.confHeight ≤ h) :
    chanBestBlockUpdated c h =
      ({ c with sent := (checkLock c.minDepth c.sent f h).1 }, (checkLock c.minDepth c.sent f h).2) := by
  obtain ⟨e1, e2⟩ := mainRetracted_eq hm0 hmh
  have hcf := confirmations_pos_of_le hf0 hfh
  have hr : retractScope h c.sent f = f := by
    unfold retractScope spliceRetractHeight spliceRetractConfIn spliceRetractScid
    simp [hcf]
  have hsn : spliceRetractSent (confirmations f.confHeight h) c.sent (some f.txid) c.sent = c.sent := by
    unfold spliceRetractSent; simp [hcf]
  have hcount : confirmedCount c.cands = 1 := by
    simp [confirmedCount, hc, List.countP_append, List.countP_cons, countP_allU hp, countP_allU hs, hf0]
  have hfind : c.cands.find? (fun f => f.confHeight != 0) = some f := by
    simp [hc, List.find?_append, find_allU hp, hf0]
  have hmap : c.cands.map (fun g => if g.confHeight != 0 then retractScope h c.sent g else g) = c.cands := by
    simp only [hc, List.map_append, List.map_cons, map_allU hp, map_allU hs]
    simp [hf0, hr]
  unfold chanBestBlockUpdated
  simp only [hcl, e1, e2]
  simp [spliceSection, hcount, hfind, hmap, hr, hsn]
  cases c; simp_all

/-- several candidates, all unconfirmed, the block contains the txid of at most ONE of them (`f`): recorded iff present -/
theorem txs_one (h : Nat) (h0 : h ≠ 0) (pre suf : List Scope) (f : Scope) (hp : AllU pre) (hs : AllU suf)
    (hf : f.confHeight = 0) : ∀ (ids : List Nat) (c : Chan),
    c.closed = false → c.cands = pre ++ f :: suf → c.main.confHeight ≠ 0 → (∀ g ∈ pre ++ suf, g.txid ∉ ids) →
    chanTxsConfirmed c h ids =
      if f.txid ∈ ids then
        ({ c with cands := pre ++ recorded f h :: suf, sent := (checkLock c.minDepth c.sent (recorded f h) h).1 },
         (checkLock c.minDepth c.sent (recorded f h) h).2)
      else (c, none) := by
  intro ids
  induction ids with
  | nil => intro c _ _ _ _; simp [chanTxsConfirmed]
  | cons t ts ih =>
    intro c hclf hc hm hno
    have hgm : confirmGuard c.main.confHeight = false := by simp [confirmGuard, hm]
    have hno' : ∀ g ∈ pre ++ suf, g.txid ∉ ts := fun g hg hmem => hno g hg (List.mem_cons_of_mem _ hmem)
    have hne : ∀ g ∈ pre ++ suf, g.txid ≠ t := fun g hg he => hno g hg (he ▸ List.mem_cons_self)
    by_cases ht : f.txid = t
    · have hmem : f.txid ∈ t :: ts := by rw [ht]; exact List.mem_cons_self
      unfold chanTxsConfirmed
      simp only [hclf, hc, hgm, Bool.false_and, loop_one t h pre suf f hp hs hne hf ht, hmem, if_true]
      simp
      generalize hr : checkLock c.minDepth c.sent (recorded f h) h = r
      obtain ⟨s', l⟩ := r
      cases l with
      | some l => simp
      | none =>
        have hs' : s' = c.sent := by
          have := checkLock_none_fst (md := c.minDepth) (s := c.sent) (f := recorded f h) (h := h) (by rw [hr])
          rw [hr] at this; exact this
        simp only []
        subst hs'
        refine txs_noop h ts { minDepth := c.minDepth, main := c.main, cands := pre ++ recorded f h :: suf, sent := c.sent, best := c.best } (Or.inr ⟨hm, ?_⟩)
        intro g hg hg0
        simp only [List.mem_append, List.mem_cons] at hg
        rcases hg with hg | rfl | hg
        · exact hno' g (List.mem_append_left _ hg)
        · simp [recorded] at hg0; exact absurd hg0 h0
        · exact hno' g (List.mem_append_right _ hg)
    · have hmem : (f.txid ∈ t :: ts) ↔ f.txid ∈ ts := by simp [ht]
      have hl : ∀ g ∈ c.cands, (confirmGuard g.confHeight && g.txid == t) = false := by
        intro g hg
        rw [hc] at hg
        simp only [List.mem_append, List.mem_cons] at hg
        rcases hg with hg | rfl | hg
        · simp [hne g (List.mem_append_left _ hg)]
        · simp [ht]
        · simp [hne g (List.mem_append_right _ hg)]
      have hE : ({ minDepth := c.minDepth, main := c.main, cands := c.cands, sent := c.sent, best := c.best } : Chan) = c := by
        cases c; simp_all
      unfold chanTxsConfirmed
      simp only [hclf, hgm, Bool.false_and, confirmLoop_noop t h c.cands [] none false hl]
      simp [hmem]
      rw [hE]
      have := ih c hclf hc hm hno'
      simpa [hclf] using this

/-- Delivery-order independence for a block that confirms ONE of SEVERAL (RBF) candidates: all candidates
    unconfirmed before (the conflicting ones cannot be in the chain), the block holds the txid of at most one. -/
theorem connect_order_one_of_several (c : Chan) (pre suf : List Scope) (f : Scope) (h : Nat) (ids : List Nat)
    (hcl : c.closed = false) (hc : c.cands = pre ++ f :: suf) (hp : AllU pre) (hs : AllU suf) (hf : f.confHeight = 0)
    (hm0 : c.main.confHeight ≠ 0) (hmh : c.main.confHeight ≤ h) (hb : c.best < h)
    (hno : ∀ g ∈ pre ++ suf, g.txid ∉ ids) :
    run c [.best h, .conf h ids] = run c [.conf h ids, .best h] := by
  have h0 : h ≠ 0 := by omega
  have hlt : ¬ h < c.best := by omega
  have hu : AllU c.cands := by
    intro g hg; rw [hc] at hg
    simp only [List.mem_append, List.mem_cons] at hg
    rcases hg with hg | rfl | hg
    · exact hp g hg
    · exact hf
    · exact hs g hg
  have eB := bbu_all_unconf { c with best := h } h hcl hu hm0 hmh
  have eT := txs_one h h0 pre suf f hp hs hf ids c hcl hc hm0 hno
  have eT' := txs_one h h0 pre suf f hp hs hf ids { c with best := h } hcl hc hm0 hno
  simp only [run, step, mgrConf, mgrBest, List.append_nil]
  by_cases hmem : f.txid ∈ ids
  · simp only [hmem, if_true] at eT eT'
    have eC := bbu_one_conf { c with cands := pre ++ recorded f h :: suf, sent := (checkLock c.minDepth c.sent (recorded f h) h).1, best := h }
      pre suf (recorded f h) h hcl rfl hp hs (by simpa [recorded] using h0) (by simp [recorded]) hm0 hmh
    simp only [checkLock_idem] at eC
    simp only [eB, eT, eT', hlt, if_false, Nat.lt_irrefl, eC]
    simp [locksOf]
  · simp only [hmem, if_false] at eT eT'
    simp only [eB, eT, eT', hlt, if_false, Nat.lt_irrefl]

/-! ### round 6: the force-close decision of do_best_block_updated (translated mainCloseGuard) -/

theorem mainCloseGuard_iff (r o : Bool) (confs : Nat) (w : Bool) (md : Nat) :
    mainCloseGuard r o confs w md = true ↔ (r = true ∨ o = true) ∧ confs = 0 ∧ w = true ∧ 0 < md := by
  unfold mainCloseGuard
  simp [and_assoc]

theorem confirmations_eq_zero_iff (k h : Nat) : confirmations k h = 0 ↔ k = 0 ∨ h < k := by
  unfold confirmations
  by_cases hk : k = 0
  · simp [hk]
  · by_cases hlt : h < k
    · simp [hk, hlt]
    · simp [hk, hlt]

theorem mainUnconfirmedCloses_iff (c : Chan) (h : Nat) :
    mainUnconfirmedCloses c h = true ↔
      (c.main.confIn = true ∧ (c.main.confHeight = 0 ∨ h < c.main.confHeight) ∧ 0 < c.minDepth) := by
  unfold mainUnconfirmedCloses
  rw [mainCloseGuard_iff, confirmations_eq_zero_iff]
  constructor
  · rintro ⟨_, h1, h2, h3⟩; exact ⟨h2, h1, h3⟩
  · rintro ⟨h2, h1, h3⟩; exact ⟨Or.inl rfl, h1, h2, h3⟩

theorem spliceSection_closed (c : Chan) (h : Nat) :
    (spliceSection c h).1.closed = (c.closed || decide (confirmedCount c.cands ≥ 2)) := by
  unfold spliceSection
  by_cases hcnt : confirmedCount c.cands ≥ 2
  · simp [hcnt]
  · rw [if_neg hcnt]
    split <;> simp [hcnt]

/-- do_best_block_updated force-closes an open ready channel EXACTLY when the translated un-confirmed guard fires or
    two candidates are recorded as confirmed -/
theorem bbu_closed_iff (c : Chan) (h : Nat) (hc : c.closed = false) :
    (chanBestBlockUpdated c h).1.closed = true ↔
      (c.main.confIn = true ∧ (c.main.confHeight = 0 ∨ h < c.main.confHeight) ∧ 0 < c.minDepth) ∨
      confirmedCount c.cands ≥ 2 := by
  unfold chanBestBlockUpdated
  rw [if_neg (by simp [hc])]
  by_cases hm : mainUnconfirmedCloses c h = true
  · rw [if_pos hm]
    exact ⟨fun _ => Or.inl ((mainUnconfirmedCloses_iff c h).1 hm), fun _ => rfl⟩
  · rw [if_neg hm, spliceSection_closed]
    constructor
    · intro h1
      have : decide (confirmedCount c.cands ≥ 2) = true := by simpa [hc] using h1
      exact Or.inr (by simpa using this)
    · rintro (h1 | h1)
      · exact absurd ((mainUnconfirmedCloses_iff c h).2 h1) hm
      · simp [h1]

/-- the channel funding before channel_ready, reorganised below its recorded confirmation: nothing is produced, and the
    channel is force-closed exactly when our channel_ready had been sent -/
theorem preBBU_closed_of_lt (p : Pre) (h : Nat) (hc : p.closed = false) (hin : p.main.confIn = true)
    (hlt : h < p.main.confHeight) (hmd : p.minDepth ≠ 0) :
    (preBestBlockUpdated p h).1.closed = p.ourReady ∧ (preBestBlockUpdated p h).2 = false := by
  obtain ⟨h1, _, _⟩ := preRetracted_of_lt p h hlt
  have hpos : 0 < p.minDepth := Nat.pos_of_ne_zero hmd
  have hck : preCheckReady { p with main := preRetracted p h } h = ({ p with main := preRetracted p h }, false) := by
    unfold preCheckReady
    simp [h1, meetsMinDepth_zero hmd]
  unfold preBestBlockUpdated
  rw [if_neg (by simp [hc]), hck]
  unfold preFinish mainCloseGuard
  cases ho : p.ourReady <;> simp [confirmations_zero_of_lt hlt, hin, hc, hpos]

/-! ### round 6: the two-confirmations error of the transactions_confirmed candidate loop (translated confirmLoopErr /
    confirmLoopMark) -/

theorem confirmLoop_err_stays (t h : Nat) : ∀ (l done : List Scope) (idx : Option Scope) (al : Bool),
    (confirmLoop t h l (done, idx, al, true)).2.2.2 = true := by
  intro l
  induction l with
  | nil => intro done idx al; rfl
  | cons f rest ih => intro done idx al; rw [confirmLoop_cons, if_pos rfl]; exact ih _ _ _

/-- once funding_already_confirmed is set, any candidate that confirms later in the list is an error -/
theorem confirmLoop_err_of_already (t h : Nat) : ∀ (l done : List Scope) (idx : Option Scope),
    (∃ f ∈ l, (confirmGuard f.confHeight && f.txid == t) = true) →
    (confirmLoop t h l (done, idx, true, false)).2.2.2 = true := by
  intro l
  induction l with
  | nil => intro done idx ⟨f, hf, _⟩; cases hf
  | cons g rest ih =>
    intro done idx hex
    rw [confirmLoop_cons, if_neg (by simp)]
    by_cases hg : (confirmGuard g.confHeight && g.txid == t) = true
    · rw [if_pos hg, if_pos (by simp)]
      exact confirmLoop_err_stays t h rest _ _ _
    · rw [if_neg hg]
      have hex' : ∃ f ∈ rest, (confirmGuard f.confHeight && f.txid == t) = true := by
        obtain ⟨f, hf, hfg⟩ := hex
        rcases List.mem_cons.1 hf with rfl | hf
        · exact absurd hfg hg
        · exact ⟨f, hf, hfg⟩
      by_cases hc : (g.confHeight != 0) = true
      · rw [if_pos hc]; exact ih _ _ hex'
      · rw [if_neg hc]; exact ih _ _ hex'

/-- transactions_confirmed: a transaction that confirms candidate `g` while a candidate EARLIER in
    negotiated_candidates already has a recorded confirmation force-closes the channel -/
theorem txs_second_confirmation_closes (c : Chan) (h t : Nat) (ts : List Nat) (pre suf : List Scope) (g : Scope)
    (hcl : c.closed = false) (hc : c.cands = pre ++ g :: suf)
    (hpre : ∀ f ∈ pre, (confirmGuard f.confHeight && f.txid == t) = false)
    (hany : ∃ f ∈ pre, f.confHeight ≠ 0) (hg : g.confHeight = 0) (hgt : g.txid = t) :
    (chanTxsConfirmed c h (t :: ts)).1.closed = true := by
  have hloop : (confirmLoop t h c.cands ([], none, false, false)).2.2.2 = true := by
    rw [hc, confirmLoop_append, confirmLoop_noop t h pre [] none false hpre]
    have hany' : pre.any (fun f => f.confHeight != 0) = true := by
      obtain ⟨f, hf, h0⟩ := hany
      exact List.any_eq_true.2 ⟨f, hf, by simpa using h0⟩
    rw [hany']
    simp only [Bool.false_or]
    exact confirmLoop_err_of_already t h (g :: suf) _ none ⟨g, List.mem_cons_self, by simp [confirmGuard, hg, hgt]⟩
  unfold chanTxsConfirmed
  simp only [hcl, Bool.false_eq_true, if_false]
  generalize confirmLoop t h c.cands ([], none, false, false) = r at hloop
  obtain ⟨done, idx, al, err⟩ := r
  simp only [] at hloop
  subst hloop
  simp

end Ldk.FundConf
