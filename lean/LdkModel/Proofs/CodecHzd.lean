import LdkModel.Model.Codec
import LdkModel.Proofs.Codec
/-! `field_decode_spec` and what follows from it WITHOUT the `plain` hypothesis: the
    HighZeroBytesDroppedBigSize case (`FieldTy.hzd`) is proved instead of excluded (core only). -/
namespace Ldk.Codec

/-! ### HighZeroBytesDropped integers -/

theorem beDecode_zeros_append (k : Nat) (l : Bytes) : beDecode (List.replicate k 0 ++ l) = beDecode l := by
  induction k with
  | zero => simp
  | succ k ih =>
    rw [List.replicate_succ, List.cons_append, beDecode_cons, ih]
    simp

theorem beEncode_beDecode_pad (l : Bytes) (n : Nat) (h : l.length ≤ n) :
    beEncode n (beDecode l) = List.replicate (n - l.length) 0 ++ l := by
  have hlen : (List.replicate (n - l.length) (0 : UInt8) ++ l).length = n := by
    rw [List.length_append, List.length_replicate]; omega
  have := beEncode_beDecode (List.replicate (n - l.length) 0 ++ l)
  rw [hlen, beDecode_zeros_append] at this
  exact this

theorem dropZeros_zeros_append (k : Nat) (l : Bytes) :
    (List.replicate k (0 : UInt8) ++ l).dropWhile (· == 0) = l.dropWhile (· == 0) := by
  induction k with
  | zero => simp
  | succ k ih =>
    rw [List.replicate_succ, List.cons_append, List.dropWhile_cons]
    simp only [BEq.rfl, if_true]
    exact ih

theorem dropZeros_of_head (l : Bytes) (h : l.head? ≠ some 0) : l.dropWhile (· == 0) = l := by
  cases l with
  | nil => rfl
  | cons x xs =>
    rw [List.dropWhile_cons]
    split
    · rename_i hx
      have : x = 0 := by simpa using hx
      subst this
      simp at h
    · rfl

/-- the encoder of `hzd n` on a decoded byte string without a leading zero gives that byte string back -/
theorem hzd_encode_beDecode (l : Bytes) (n : Nat) (h : l.length ≤ n) (hh : l.head? ≠ some 0) :
    (beEncode n (beDecode l)).dropWhile (· == 0) = l := by
  rw [beEncode_beDecode_pad l n h, dropZeros_zeros_append, dropZeros_of_head l hh]

theorem hzd_decode_spec (n : Nat) (b : Bytes) (v : Val) (r : Bytes) (h : (FieldTy.hzd n).decode b = .ok (v, r)) :
    (FieldTy.hzd n).valid v = true ∧ b.length = ((FieldTy.hzd n).encode v).length + r.length := by
  simp only [FieldTy.decode] at h
  split at h
  · rename_i hk
    simp only [Except.ok.injEq, Prod.mk.injEq] at h
    obtain ⟨rfl, rfl⟩ := h
    have he : (beEncode n 0).dropWhile (· == 0) = [] := by
      have := hzd_encode_beDecode [] n (Nat.zero_le _) (by simp)
      simpa [beDecode] using this
    refine ⟨by simpa [FieldTy.valid] using Nat.pow_pos (n := n) (show 0 < 256 by omega), ?_⟩
    simp only [FieldTy.encode, he, List.length_nil, Nat.zero_add]
  · rename_i hk
    split at h
    · cases h
    · rename_i hh
      simp only [Except.ok.injEq, Prod.mk.injEq] at h
      obtain ⟨rfl, rfl⟩ := h
      have hl : (b.take (min n b.length)).length = min n b.length := by
        rw [List.length_take]; omega
      have hln : (b.take (min n b.length)).length ≤ n := by rw [hl]; omega
      have hhd : (b.take (min n b.length)).head? ≠ some 0 := by
        cases b with
        | nil => simp
        | cons x xs =>
          cases hm : min n (x :: xs).length with
          | zero => exact absurd hm hk
          | succ m => simpa using hh
      have hlt := beDecode_lt (b.take (min n b.length))
      have hpow : 256 ^ (b.take (min n b.length)).length ≤ 256 ^ n := Nat.pow_le_pow_right (by omega) hln
      refine ⟨by simp only [FieldTy.valid, decide_eq_true_eq]; omega, ?_⟩
      simp only [FieldTy.encode, hzd_encode_beDecode _ n hln hhd, hl, List.length_drop]
      omega

/-! ### every field type: what decodes is valid and accounts for exactly the bytes consumed -/

theorem field_decode_spec_all (ty : FieldTy) : ∀ (b : Bytes) (v : Val) (r : Bytes), ty.wf = true →
    ty.decode b = .ok (v, r) → ty.valid v = true ∧ b.length = (ty.encode v).length + r.length := by
  induction ty with
  | uint n => intro b v r hw h; exact field_decode_spec (.uint n) b v r hw rfl h
  | fixed n c => intro b v r hw h; exact field_decode_spec (.fixed n c) b v r hw rfl h
  | unit => intro b v r hw h; exact field_decode_spec .unit b v r hw rfl h
  | bigsize => intro b v r hw h; exact field_decode_spec .bigsize b v r hw rfl h
  | hzd n => intro b v r _ h; exact hzd_decode_spec n b v r h
  | varBytes => intro b v r hw h; exact field_decode_spec .varBytes b v r hw rfl h
  | bytes16 => intro b v r hw h; exact field_decode_spec .bytes16 b v r hw rfl h
  | restBytes => intro b v r hw h; exact field_decode_spec .restBytes b v r hw rfl h
  | pair x y ihx ihy =>
    intro b v r hw h
    simp only [FieldTy.wf, Bool.and_eq_true] at hw
    simp only [FieldTy.decode] at h
    split at h
    · cases h
    · rename_i v1 r1 h1
      split at h
      · cases h
      · rename_i v2 r2 h2
        cases h
        obtain ⟨a1, a2⟩ := ihx _ _ _ hw.1.1 h1
        obtain ⟨c1, c2⟩ := ihy _ _ _ hw.2 h2
        refine ⟨by simp [FieldTy.valid, a1, c1], ?_⟩
        simp only [FieldTy.encode, List.length_append]; omega
  | vec e ih =>
    intro b v r hw h
    simp only [FieldTy.wf, Bool.and_eq_true] at hw
    simp only [FieldTy.decode] at h
    split at h
    · cases h
    · rename_i n r1 h1
      obtain ⟨l, _⟩ := collLen_ok h1
      have e1 := collLen_ok_len h1
      obtain ⟨c1, c2, c3⟩ := encList_len_spec e (fun b v r hd => ih b v r hw.1 hd) _ _ _ _ h
      have henc : (FieldTy.vec e).encode v = CollLen.encode v.len ++ encList e.encode v := by
        cases v <;> simp [FieldTy.encode]
      have hval : (FieldTy.vec e).valid v = (decide (v.len < 2 ^ 64) && v.allElems e.valid) := by
        cases v <;> simp [FieldTy.valid]
      refine ⟨by rw [hval, c1, c2]; simpa using l, ?_⟩
      rw [henc, List.length_append, c1]; omega
  | sockAddr kinds => intro b v r hw h; exact field_decode_spec (.sockAddr kinds) b v r hw rfl h
  | chunks n => intro b v r hw h; exact field_decode_spec (.chunks n) b v r hw rfl h

/-! ### the TLV-stream and message level, for every well-formed schema -/

theorem procRecs_ok_spec_all (tlvs : List TlvField) (hty : ∀ f ∈ tlvs, f.ty.wf = true) :
    ∀ (recs : List (Nat × Bytes)) (last : Option Nat) (acc out : List (Nat × Val)),
    (∀ p ∈ recs, p.2.length < 2 ^ 64) → procRecs tlvs last acc recs = .ok out →
    ∃ new, out = acc ++ new ∧
      (∀ p ∈ new, lastLt last p.1 = true ∧ ∃ f, tlvs.find? (fun f => f.typ == p.1) = some f ∧
        f.ty.valid p.2 = true ∧ (f.ty.encode p.2).length < 2 ^ 64) ∧
      (new.map (·.1)).Pairwise (· < ·) ∧
      (∀ g ∈ tlvs, g.kind = .required → lastLt last g.typ = true → g.typ ∈ new.map (·.1)) := by
  intro recs
  induction recs with
  | nil =>
    intro last acc out _ h
    rw [procRecs] at h
    split at h
    · cases h
    · rename_i hm
      cases h
      refine ⟨[], by simp, by simp, by simp, ?_⟩
      intro g hg hk hl
      exfalso; apply hm
      rw [reqMissing, List.any_eq_true]; exact ⟨g, hg, by simp [hk, hl]⟩
  | cons p rest ih =>
    intro last acc out hb h
    obtain ⟨t, val⟩ := p
    have hbr : ∀ p ∈ rest, p.2.length < 2 ^ 64 := fun p hp => hb p (List.mem_cons_of_mem _ hp)
    have hvl : val.length < 2 ^ 64 := hb (t, val) (List.mem_cons_self)
    rw [procRecs] at h
    split at h
    · cases h
    · rename_i hl0
      have hl : lastLt last t = true := by simpa using hl0
      split at h
      · cases h
      · rename_i hs0
        have hs : ∀ g ∈ tlvs, g.kind = .required → lastLt last g.typ = true → ¬ g.typ < t := by
          intro g hg hk hlg hlt
          apply hs0
          rw [reqSkipped, List.any_eq_true]; exact ⟨g, hg, by simp [hk, hlg, hlt]⟩
        have up : ∀ u, lastLt (some t) u = true → lastLt last u = true := by
          intro u hu; rw [lastLt_some] at hu; exact lastLt_trans hl (by simpa using hu)
        split at h
        · rename_i f hfind
          split at h
          · cases h
          · rename_i v rem hdec
            split at h
            · rename_i hrem
              obtain ⟨new', e, p1, p2, p3⟩ := ih _ _ _ hbr h
              have hf : f ∈ tlvs := List.mem_of_find?_eq_some hfind
              obtain ⟨s1, s2⟩ := field_decode_spec_all f.ty _ _ _ (hty f hf) hdec
              refine ⟨(t, v) :: new', by rw [e]; simp, ?_, ?_, ?_⟩
              · intro p hp
                rcases List.mem_cons.mp hp with rfl | hp
                · exact ⟨hl, f, hfind, s1, by show (f.ty.encode v).length < 2 ^ 64; omega⟩
                · exact ⟨up _ (p1 p hp).1, (p1 p hp).2⟩
              · rw [List.map_cons, List.pairwise_cons]
                refine ⟨?_, p2⟩
                intro u hu
                obtain ⟨p, hp, rfl⟩ := List.mem_map.mp hu
                have := (p1 p hp).1
                rw [lastLt_some] at this; simpa using this
              · intro g hg hk hlg
                have hnlt := hs g hg hk hlg
                by_cases hgt : g.typ = t
                · simp [hgt]
                · have : lastLt (some t) g.typ = true := by rw [lastLt_some]; simp; omega
                  exact List.mem_cons_of_mem _ (p3 g hg hk this)
            · cases h
        · rename_i hfind
          split at h
          · cases h
          · obtain ⟨new', e, p1, p2, p3⟩ := ih _ _ _ hbr h
            refine ⟨new', e, ?_, p2, ?_⟩
            · intro p hp; exact ⟨up _ (p1 p hp).1, (p1 p hp).2⟩
            · intro g hg hk hlg
              have hnlt := hs g hg hk hlg
              have hne := find?_none_typ hfind g hg
              have : lastLt (some t) g.typ = true := by rw [lastLt_some]; simp; omega
              exact p3 g hg hk this

theorem decodeFixed_valid_all : ∀ (ts : List FieldTy) (b : Bytes) (vs : List Val) (r : Bytes),
    (∀ t ∈ ts, t.wf = true) → decodeFixed ts b = .ok (vs, r) → validFixed ts vs = true
  | [], b, vs, r, _, h => by
    simp only [decodeFixed, Except.ok.injEq, Prod.mk.injEq] at h; rw [← h.1]; rfl
  | t :: ts, b, vs, r, hw, h => by
    simp only [decodeFixed] at h
    split at h
    · cases h
    · rename_i v1 r1 h1
      split at h
      · cases h
      · rename_i vs' r2 h2
        cases h
        have ht := hw t (List.mem_cons_self)
        simp [validFixed, (field_decode_spec_all t _ _ _ ht h1).1,
          decodeFixed_valid_all ts _ _ _ (fun u hu => hw u (List.mem_cons_of_mem _ hu)) h2]

/-- whatever a well-formed schema decodes is a valid message value (no `plain` hypothesis) -/
theorem schema_decode_valid_all (s : Schema) (b : Bytes) (v : MsgVal) (hwf : s.wf = true)
    (h : s.decode b = .ok v) : v.valid s = true := by
  obtain ⟨h1, h2, h3⟩ := schema_wf_parts hwf
  simp only [Schema.decode] at h
  split at h
  · cases h
  · rename_i fx r hfx
    split at h
    · cases h
    · rename_i acc hacc
      cases h
      have hfv := decodeFixed_valid_all s.fixed b fx r (fun t ht => (h1 t ht).1) hfx
      obtain ⟨recs, e, hb⟩ := tlvLoop_ok_raw s.tlvs _ _ _ _ _ hacc
      rw [decodeTlvStream, e, tlvLoop_raw s.tlvs recs _ none [] hb (by omega)] at hacc
      obtain ⟨new, e2, p1, _, p3⟩ := procRecs_ok_spec_all s.tlvs (fun f hf => (h2 f hf).1) recs none [] acc
        (fun p hp => (hb p hp).2) hacc
      simp only [List.nil_append] at e2
      subst e2
      have := validTlvs_of_spec s.tlvs h3 acc (fun p hp => (p1 p hp).2) (fun g hg hk => p3 g hg hk rfl) s.tlvs (fun f hf => hf)
      simp [MsgVal.valid, hfv, this]

end Ldk.Codec
