import LdkModel.Generated.SerPrims
import LdkModel.Proofs.Codec
import LdkModel.Proofs.CodecHzd
/-!
  Proofs/lean — the hand-written length / integer primitives of Model/Codec.lean (`CollLen`, `BigSize`, the `hzd` reader)
  are equal, for ALL inputs, to the functions tools/gen_ser_prims.py translates from lightning/src/util/ser.rs on every run
  (Generated/lean).  Every theorem of Props/C13 / Props/C12 about the Codec primitives is therefore a theorem about the
  comparisons and constants the Rust source has TODAY; a changed boundary (`<` -> `<=`, another escape value, another tag or
  width) makes one of these proofs fail.  (C12, shared with C13.)
-/
namespace Ldk.SerPrims
open Ldk.Codec Ldk

theorem collLenEncode_eq (n : Nat) : collLenEncode n = CollLen.encode n := by
  unfold collLenEncode collLenShort collLenEscape collLenRest CollLen.encode
  by_cases h : n < 0xffff
  · rw [if_pos (by simpa using h), if_pos h]
  · rw [if_neg (by simpa using h), if_neg h]

theorem collLenDecode_eq (b : Bytes) : collLenDecode b = CollLen.decode b := by
  unfold collLenDecode collLenIsEscape collLenAdd CollLen.decode
  cases readUint 2 b with
  | error e => rfl
  | ok p =>
    obtain ⟨v, r⟩ := p
    by_cases hv : v = 0xffff
    · simp only [hv, decide_true, if_true]
      cases readUint 8 r with
      | error e => rfl
      | ok q => rfl
    · simp only [hv, decide_false, if_false]; simp

theorem bigSizeEncode_eq (n : Nat) : bigSizeEncode n = BigSize.encode n := by
  unfold bigSizeEncode BigSize.encode
  by_cases h1 : n ≤ 0xFC
  · rw [if_pos ⟨by omega, h1⟩, if_pos h1]
  · by_cases h2 : n ≤ 0xFFFF
    · rw [if_neg (by omega), if_pos ⟨by omega, h2⟩, if_neg h1, if_pos h2]
    · by_cases h3 : n ≤ 0xFFFFFFFF
      · rw [if_neg (by omega), if_neg (by omega), if_pos ⟨by omega, h3⟩, if_neg h1, if_neg h2, if_pos h3]
      · rw [if_neg (by omega), if_neg (by omega), if_neg (by omega), if_neg h1, if_neg h2, if_neg h3]

theorem bigSizeDecode_eq (b : Bytes) : bigSizeDecode b = BigSize.decode b := by
  cases b with
  | nil => rfl
  | cons x rest =>
    unfold bigSizeDecode BigSize.decode
    simp only [decide_eq_true_eq]
    split
    · cases readUint 8 rest with
      | error e => rfl
      | ok q => rfl
    · split
      · cases readUint 4 rest with
        | error e => rfl
        | ok q => rfl
      · split
        · cases readUint 2 rest with
          | error e => rfl
          | ok q => rfl
        · rfl


theorem hzd_buf (n : Nat) (l : Bytes) (h : l.length ≤ n) :
    ((List.replicate n (0 : UInt8) ++ l ++ List.replicate (n - l.length) 0).drop (n - (n - l.length))).take n
      = List.replicate (n - l.length) 0 ++ l := by
  have e : n - (n - l.length) = l.length := by omega
  have hn : n = l.length + (n - l.length) := by omega
  rw [e, List.append_assoc]
  have hr : List.replicate n (0 : UInt8) = List.replicate l.length 0 ++ List.replicate (n - l.length) 0 := by
    rw [List.replicate_append_replicate]; congr 1
  rw [hr, List.append_assoc, List.drop_left' (by simp)]
  rw [← List.append_assoc, List.take_left' (by simp; omega)]

theorem hzdDecode_eq (n : Nat) (b : Bytes) :
    (FieldTy.hzd n).decode b = (hzdDecode n b).map (fun p => (Val.nat p.1, p.2)) := by
  unfold hzdDecode hzdAccept hzdFirstByte
  simp only [FieldTy.decode]
  have hk : (b.take (min n b.length)).length = min n b.length := by simp
  have hbuf := hzd_buf n (b.take (min n b.length)) (by rw [hk]; omega)
  rw [hk] at hbuf
  rw [hbuf, beDecode_zeros_append]
  by_cases h0 : min n b.length = 0
  · simp [h0, Except.map, beDecode]
  · cases b with
    | nil => simp at h0
    | cons x rest =>
      have hn0 : n ≠ 0 := by intro h; apply h0; simp [h]
      by_cases hx : x = 0
      · simp [hn0, hx, Except.map]
      · have : x.toNat ≠ 0 := fun h => hx (UInt8.toNat_inj.mp (by simpa using h))
        simp [hn0, hx, this, Except.map]

end Ldk.SerPrims
