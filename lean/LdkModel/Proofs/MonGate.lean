/- Helper lemmas for the C09 theorems about Model/MonGate.lean: prefix decomposition of `run`, the
   reachable-state invariant (which ids are in flight, what the last-commitment registers hold) and the
   commutation of completions. Core only. -/
import LdkModel.Model.MonGate
namespace Ldk.MonGate

/-! ### `run` over concatenations -/

theorem run_append (l1 l2 : List Ev) : ∀ s, run s (l1 ++ l2) = (run s l1).bind (fun s1 => run s1 l2) := by
  induction l1 with
  | nil => intro s; simp [run]
  | cons e es ih =>
    intro s
    simp only [List.cons_append, run]
    cases step s e with
    | none => simp
    | some s1 => simpa using ih s1

theorem run_append_some {l1 l2 : List Ev} {s s' : St} (h : run s (l1 ++ l2) = some s') :
    ∃ s1, run s l1 = some s1 ∧ run s1 l2 = some s' := by
  rw [run_append] at h
  cases h1 : run s l1 with
  | none => simp [h1] at h
  | some s1 => exact ⟨s1, rfl, by simpa [h1] using h⟩

theorem run_snoc_some {l : List Ev} {e : Ev} {s s' : St} (h : run s (l ++ [e]) = some s') :
    ∃ s1, run s l = some s1 ∧ step s1 e = some s' := by
  obtain ⟨s1, h1, h2⟩ := run_append_some h
  refine ⟨s1, h1, ?_⟩
  simp only [run] at h2
  cases hs : step s1 e with
  | none => simp [hs] at h2
  | some s2 => simpa [hs] using h2

theorem run_append_of {l1 l2 : List Ev} {s s1 s' : St} (h1 : run s l1 = some s1) (h2 : run s1 l2 = some s') :
    run s (l1 ++ l2) = some s' := by
  rw [run_append, h1]; simpa using h2

/-! ### what each step does -/

theorem step_update_some {s s' : St} {id : Nat} {k : List Kind} {ip : Bool} (h : step s (.update id k ip) = some s') :
    (s.next = none ∨ s.next = some id) ∧
    s' = { s with next := some (id + 1)
                  inFlight := if ip then s.inFlight ++ [id] else s.inFlight
                  lastCpCommit := if k.contains .counterpartyCommitment then some id else s.lastCpCommit
                  lastHolderCommit := if k.contains .holderCommitment then some id else s.lastHolderCommit } := by
  cases hn : s.next with
  | none =>
    simp only [step, hn, if_true] at h
    injection h with h
    exact ⟨Or.inl rfl, h.symm⟩
  | some n =>
    simp only [step, hn] at h
    split at h
    · rename_i hc
      injection h with h
      exact ⟨Or.inr (by rw [eq_of_beq hc]), h.symm⟩
    · contradiction

theorem step_done_some {s s' : St} {id : Nat} (h : step s (.done id) = some s') :
    id ∈ s.inFlight ∧ s' = { s with inFlight := s.inFlight.erase id } := by
  simp only [step] at h
  split at h
  · rename_i hc
    injection h with h
    exact ⟨by simpa using hc, h.symm⟩
  · contradiction

theorem step_releaseCs_some {s s' : St} (h : step s .releaseCs = some s') :
    s' = s ∧ ∃ u, s.lastCpCommit = some u ∧ ∀ i ∈ s.inFlight, u < i := by
  simp only [step] at h
  split at h
  · contradiction
  · rename_i u hu
    split at h
    · rename_i hc
      injection h with h
      exact ⟨h.symm, u, hu, by simpa [St.completeUpTo] using hc⟩
    · contradiction

theorem step_releaseRaa_some {s s' : St} (h : step s .releaseRaa = some s') :
    s' = s ∧ ∃ u, s.lastHolderCommit = some u ∧ ∀ i ∈ s.inFlight, u < i := by
  simp only [step] at h
  split at h
  · contradiction
  · rename_i u hu
    split at h
    · rename_i hc
      injection h with h
      exact ⟨h.symm, u, hu, by simpa [St.completeUpTo] using hc⟩
    · contradiction

/-! ### declarative readings of a trace -/

/-- id of the LAST `update` event of the trace whose step kinds contain `k` -/
def lastWith (k : Kind) : List Ev → Option Nat
  | [] => none
  | .update id ks _ :: es => (lastWith k es).or (if ks.contains k then some id else none)
  | _ :: es => lastWith k es

theorem lastWith_append (k : Kind) (l1 l2 : List Ev) :
    lastWith k (l1 ++ l2) = (lastWith k l2).or (lastWith k l1) := by
  induction l1 with
  | nil => simp [lastWith]
  | cons e es ih =>
    cases e with
    | update id ks ip =>
      simp only [List.cons_append, lastWith, ih]
      cases lastWith k l2 <;> simp
    | done id => simpa [lastWith] using ih
    | releaseCs => simpa [lastWith] using ih
    | releaseRaa => simpa [lastWith] using ih

/-- `lastWith` really is the last one: the trace splits around it -/
theorem lastWith_spec (k : Kind) (l : List Ev) (u : Nat) (h : lastWith k l = some u) :
    ∃ l1 ks ip l2, l = l1 ++ .update u ks ip :: l2 ∧ ks.contains k = true ∧
      ∀ id ks' ip', Ev.update id ks' ip' ∈ l2 → ks'.contains k = false := by
  induction l with
  | nil => simp [lastWith] at h
  | cons e es ih =>
    cases e with
    | update id ks ip =>
      simp only [lastWith] at h
      cases hl : lastWith k es with
      | some v =>
        rw [hl] at h; simp at h; subst h
        obtain ⟨l1, ks', ip', l2, h1, h2, h3⟩ := ih hl
        exact ⟨.update id ks ip :: l1, ks', ip', l2, by rw [h1]; rfl, h2, h3⟩
      | none =>
        rw [hl] at h; simp only [Option.none_or] at h
        split at h <;> try contradiction
        rename_i hc
        injection h with hid
        subst hid
        refine ⟨[], ks, ip, es, rfl, hc, ?_⟩
        intro id' ks' ip' hm
        cases hc' : ks'.contains k with
        | false => rfl
        | true =>
          exfalso
          obtain ⟨p, q, hpq⟩ := List.append_of_mem hm
          rw [hpq, lastWith_append] at hl
          simp only [lastWith, hc', if_true] at hl
          cases hq : lastWith k q <;> simp [hq] at hl
    | done id =>
      obtain ⟨l1, ks', ip', l2, h1, h2, h3⟩ := ih (by simpa [lastWith] using h)
      exact ⟨.done id :: l1, ks', ip', l2, by rw [h1]; rfl, h2, h3⟩
    | releaseCs =>
      obtain ⟨l1, ks', ip', l2, h1, h2, h3⟩ := ih (by simpa [lastWith] using h)
      exact ⟨.releaseCs :: l1, ks', ip', l2, by rw [h1]; rfl, h2, h3⟩
    | releaseRaa =>
      obtain ⟨l1, ks', ip', l2, h1, h2, h3⟩ := ih (by simpa [lastWith] using h)
      exact ⟨.releaseRaa :: l1, ks', ip', l2, by rw [h1]; rfl, h2, h3⟩

/-! ### the reachable-state invariant -/

/-- what the monitor state records about the accepted prefix `pre` -/
structure Inv (pre : List Ev) (s : St) : Prop where
  mem : ∀ id, id ∈ s.inFlight ↔ (∃ k, Ev.update id k true ∈ pre) ∧ Ev.done id ∉ pre
  nodup : s.inFlight.Nodup
  below : ∀ id k ip, Ev.update id k ip ∈ pre → ∃ n, s.next = some n ∧ id < n
  doneUpd : ∀ id, Ev.done id ∈ pre → ∃ k, Ev.update id k true ∈ pre
  cp : s.lastCpCommit = lastWith .counterpartyCommitment pre
  holder : s.lastHolderCommit = lastWith .holderCommitment pre

theorem Inv.init : Inv [] St.init :=
  { mem := by intro id; simp [St.init]
    nodup := by simp [St.init]
    below := by intro id k ip h; simp at h
    doneUpd := by intro id h; simp at h
    cp := rfl
    holder := rfl }

theorem Inv.step {pre : List Ev} {s s' : St} {e : Ev} (inv : Inv pre s) (h : step s e = some s') :
    Inv (pre ++ [e]) s' := by
  cases e with
  | update id k ip =>
    obtain ⟨hn, hs'⟩ := step_update_some h
    -- the new id is above every id seen so far
    have fresh : ∀ k' ip', Ev.update id k' ip' ∉ pre := by
      intro k' ip' hm
      obtain ⟨n, h1, h2⟩ := inv.below id k' ip' hm
      rcases hn with hn | hn <;> rw [hn] at h1 <;> simp at h1
      omega
    have notDone : Ev.done id ∉ pre := by
      intro hm
      obtain ⟨k', hk'⟩ := inv.doneUpd id hm
      exact fresh k' true hk'
    have notIn : id ∉ s.inFlight := by
      intro hm
      obtain ⟨⟨k', hk'⟩, _⟩ := (inv.mem id).1 hm
      exact fresh k' true hk'
    subst hs'
    refine ⟨?_, ?_, ?_, ?_, ?_, ?_⟩
    · intro j
      cases ip with
      | true =>
        simp only [if_true, List.mem_append, List.mem_singleton, inv.mem j]
        constructor
        · rintro (⟨⟨k', hk'⟩, hd⟩ | hj)
          · exact ⟨⟨k', Or.inl hk'⟩, by rintro (h' | h'); exact hd h'; cases h'⟩
          · subst hj
            exact ⟨⟨k, Or.inr rfl⟩, by rintro (h' | h'); exact notDone h'; cases h'⟩
        · rintro ⟨⟨k', hk' | hk'⟩, hd⟩
          · exact Or.inl ⟨⟨k', hk'⟩, fun h' => hd (Or.inl h')⟩
          · injection hk' with h1; exact Or.inr h1
      | false =>
        simp only [Bool.false_eq_true, if_false, List.mem_append, List.mem_singleton, inv.mem j]
        constructor
        · rintro ⟨⟨k', hk'⟩, hd⟩
          exact ⟨⟨k', Or.inl hk'⟩, by rintro (h' | h'); exact hd h'; cases h'⟩
        · rintro ⟨⟨k', hk' | hk'⟩, hd⟩
          · exact ⟨⟨k', hk'⟩, fun h' => hd (Or.inl h')⟩
          · injection hk' with _ _ h3; cases h3
    · cases ip with
      | true =>
        simp only [if_true]
        exact List.nodup_append.2 ⟨inv.nodup, by simp, by
          intro a ha b hb; simp at hb; subst hb; intro hab; subst hab; exact notIn ha⟩
      | false => simpa using inv.nodup
    · intro j k' ip' hm
      refine ⟨id + 1, rfl, ?_⟩
      rcases List.mem_append.1 hm with hm | hm
      · obtain ⟨n, h1, h2⟩ := inv.below j k' ip' hm
        rcases hn with hn | hn <;> rw [hn] at h1 <;> simp at h1
        omega
      · simp at hm; omega
    · intro j hm
      rcases List.mem_append.1 hm with hm | hm
      · obtain ⟨k', hk'⟩ := inv.doneUpd j hm
        exact ⟨k', List.mem_append.2 (Or.inl hk')⟩
      · simp at hm
    · simp only [lastWith_append, lastWith, inv.cp]
      cases k.contains Kind.counterpartyCommitment <;> simp
    · simp only [lastWith_append, lastWith, inv.holder]
      cases k.contains Kind.holderCommitment <;> simp
  | done id =>
    obtain ⟨hin, hs'⟩ := step_done_some h
    subst hs'
    refine ⟨?_, ?_, ?_, ?_, ?_, ?_⟩
    · intro j
      simp only [List.mem_append, List.mem_singleton]
      rw [inv.nodup.mem_erase_iff, inv.mem j]
      constructor
      · rintro ⟨hne, ⟨k', hk'⟩, hd⟩
        exact ⟨⟨k', Or.inl hk'⟩, by rintro (h' | h'); exact hd h'; injection h' with h1; exact hne h1⟩
      · rintro ⟨⟨k', hk' | hk'⟩, hd⟩
        · exact ⟨fun hj => hd (Or.inr (by rw [hj])), ⟨k', hk'⟩, fun h' => hd (Or.inl h')⟩
        · cases hk'
    · exact inv.nodup.erase id
    · intro j k' ip' hm
      rcases List.mem_append.1 hm with hm | hm
      · exact inv.below j k' ip' hm
      · simp at hm
    · intro j hm
      rcases List.mem_append.1 hm with hm | hm
      · obtain ⟨k', hk'⟩ := inv.doneUpd j hm
        exact ⟨k', List.mem_append.2 (Or.inl hk')⟩
      · simp at hm; subst hm
        obtain ⟨⟨k', hk'⟩, _⟩ := (inv.mem j).1 hin
        exact ⟨k', List.mem_append.2 (Or.inl hk')⟩
    · simp only [lastWith_append, lastWith, inv.cp]; simp
    · simp only [lastWith_append, lastWith, inv.holder]; simp
  | releaseCs =>
    obtain ⟨hs', _⟩ := step_releaseCs_some h
    subst hs'
    refine ⟨?_, inv.nodup, ?_, ?_, ?_, ?_⟩
    · intro j; rw [inv.mem j]; simp
    · intro j k' ip' hm; simp at hm; exact inv.below j k' ip' hm
    · intro j hm; simp at hm
      obtain ⟨k', hk'⟩ := inv.doneUpd j hm
      exact ⟨k', List.mem_append.2 (Or.inl hk')⟩
    · simp only [lastWith_append, lastWith, inv.cp]; simp
    · simp only [lastWith_append, lastWith, inv.holder]; simp
  | releaseRaa =>
    obtain ⟨hs', _⟩ := step_releaseRaa_some h
    subst hs'
    refine ⟨?_, inv.nodup, ?_, ?_, ?_, ?_⟩
    · intro j; rw [inv.mem j]; simp
    · intro j k' ip' hm; simp at hm; exact inv.below j k' ip' hm
    · intro j hm; simp at hm
      obtain ⟨k', hk'⟩ := inv.doneUpd j hm
      exact ⟨k', List.mem_append.2 (Or.inl hk')⟩
    · simp only [lastWith_append, lastWith, inv.cp]; simp
    · simp only [lastWith_append, lastWith, inv.holder]; simp

theorem Inv.run_from {pre : List Ev} {s : St} (inv : Inv pre s) : ∀ (evs : List Ev) (s' : St),
    run s evs = some s' → Inv (pre ++ evs) s' := by
  intro evs
  induction evs generalizing pre s with
  | nil => intro s' h; simp [run] at h; subst h; simpa using inv
  | cons e es ih =>
    intro s' h
    simp only [run] at h
    cases hs : MonGate.step s e with
    | none => simp [hs] at h
    | some s1 =>
      rw [hs] at h
      have := ih (inv.step hs) s' h
      simpa using this

theorem inv_of_run {pre : List Ev} {s : St} (h : run St.init pre = some s) : Inv pre s := by
  simpa using Inv.init.run_from pre s h

/-! ### completions commute -/

def Ev.isDone : Ev → Bool
  | .done _ => true
  | _ => false

theorem step_done_swap {s s1 s2 : St} {i j : Nat} (h1 : step s (.done j) = some s1) (h2 : step s1 (.done i) = some s2) :
    ∃ s1', step s (.done i) = some s1' ∧ step s1' (.done j) = some s2 := by
  obtain ⟨hj, e1⟩ := step_done_some h1
  obtain ⟨hi, e2⟩ := step_done_some h2
  subst e1
  subst e2
  have hi' : i ∈ s.inFlight := List.mem_of_mem_erase hi
  refine ⟨{ s with inFlight := s.inFlight.erase i }, by simp [step, hi'], ?_⟩
  by_cases hij : i = j
  · subst hij
    have : i ∈ s.inFlight.erase i := hi
    simp [step, this]
  · have : j ∈ s.inFlight.erase i := (List.mem_erase_of_ne (fun h => hij h.symm)).2 hj
    simp [step, this, List.erase_comm]

/-- permuting a block of completions changes neither acceptance nor the resulting state -/
theorem run_perm_done {ds ds' : List Ev} (hp : ds.Perm ds') : (∀ e ∈ ds, Ev.isDone e = true) →
    ∀ s s', run s ds = some s' → run s ds' = some s' := by
  induction hp with
  | nil => intro _ s s' h; exact h
  | cons x _ ih =>
    intro hd s s' h
    simp only [run] at h ⊢
    cases hs : step s x with
    | none => simp [hs] at h
    | some s1 =>
      rw [hs] at h
      exact ih (fun e he => hd e (List.mem_cons_of_mem _ he)) s1 s' h
  | swap x y l =>
    intro hd s s' h
    have hx := hd x (by simp)
    have hy := hd y (by simp)
    cases x with
    | done i =>
      cases y with
      | done j =>
        simp only [run] at h
        cases h1 : step s (.done j) with
        | none => simp [h1] at h
        | some s1 =>
          rw [h1] at h
          simp only at h
          cases h2 : step s1 (.done i) with
          | none => simp [h2] at h
          | some s2 =>
            rw [h2] at h
            obtain ⟨s1', e1, e2⟩ := step_done_swap h1 h2
            simp only [run, e1, e2]
            exact h
      | update _ _ _ => simp [Ev.isDone] at hy
      | releaseCs => simp [Ev.isDone] at hy
      | releaseRaa => simp [Ev.isDone] at hy
    | update _ _ _ => simp [Ev.isDone] at hx
    | releaseCs => simp [Ev.isDone] at hx
    | releaseRaa => simp [Ev.isDone] at hx
  | trans p1 _ ih1 ih2 =>
    intro hd s s' h
    exact ih2 (fun e he => hd e (p1.mem_iff.2 he)) s s' (ih1 hd s s' h)

end Ldk.MonGate

/-! ## the channel-side gate model (`Gate`): held items are conserved -/
namespace Ldk.MonGate.Gate
open Ldk.MonGate

/-- the four kinds of held vectors: monitor_pending_update_adds / _forwards / _failures / _finalized_fulfills -/
inductive VK where
  | adds | fwds | fails | fulfills
  deriving DecidableEq, Repr

def VK.of (k : VK) (p : Gen.Pend) : List Nat :=
  match k with | .adds => p.adds | .fwds => p.fwds | .fails => p.fails | .fulfills => p.fulfills

/-- items of kind `k` released by one output -/
def Out.vec (k : VK) : Out → List Nat
  | .adds l => if k = .adds then l else []
  | .fwds l => if k = .fwds then l else []
  | .fails l => if k = .fails then l else []
  | .fulfills l => if k = .fulfills then l else []
  | _ => []

/-- all items of kind `k` released by an output list, in order -/
def rel (k : VK) : List Out → List Nat
  | [] => []
  | o :: os => Out.vec k o ++ rel k os

/-- items of kind `k` an op hands to the channel to be held (what a revoke_and_ack made irrevocable / forwardable) -/
def Op.added (k : VK) : Op → List Nat
  | .raaRecv _ _ _ a fw fl ff _ => match k with | .adds => a | .fwds => fw | .fails => fl | .fulfills => ff
  | _ => []

def addedAll (k : VK) : List Op → List Nat
  | [] => []
  | op :: ops => Op.added k op ++ addedAll k ops

theorem rel_append (k : VK) (a b : List Out) : rel k (a ++ b) = rel k a ++ rel k b := by
  induction a with
  | nil => rfl
  | cons o os ih => simp [rel, ih]

theorem rel_ite_single (k : VK) (b : Bool) (o : Out) : rel k (if b then [o] else []) = if b then Out.vec k o else [] := by
  cases b <;> simp [rel]

theorem rel_outsOf (k : VK) (r : Gen.Restored) (cf : Bool) :
    rel k (outsOf r cf) = match k with | .adds => r.adds | .fwds => r.fwds | .fails => r.fails | .fulfills => r.fulfills := by
  have hv : ∀ (l : List Nat) (o : Out), rel k (if l.isEmpty then [] else [o]) = if l.isEmpty then [] else Out.vec k o := by
    intro l o; cases l.isEmpty <;> simp [rel]
  have hb : ∀ (b : Bool) (o : Out), Out.vec k o = [] → rel k (if b then [o] else []) = [] := by
    intro b o h; cases b <;> simp [rel, h]
  have hmsgs : rel k (if cf then (if r.cs then [Out.cs] else []) ++ (if r.raa then [Out.raa] else [])
      else (if r.raa then [Out.raa] else []) ++ (if r.cs then [Out.cs] else [])) = [] := by
    cases cf <;> simp [rel_append, hb _ _ (show Out.vec k Out.raa = [] from rfl), hb _ _ (show Out.vec k Out.cs = [] from rfl)]
  unfold outsOf
  simp only [rel_append, hv, hmsgs, hb _ _ (show Out.vec k Out.ready = [] from rfl), List.nil_append, List.append_nil]
  cases k <;> simp [Out.vec] <;>
    (first | (cases h : r.adds <;> simp) | (cases h : r.fwds <;> simp) | (cases h : r.fails <;> simp) | (cases h : r.fulfills <;> simp))

theorem resume_conserves (k : VK) (c : Chan) :
    rel k (resume c).2 ++ k.of (resume c).1.pend = k.of c.pend := by
  unfold resume
  split
  · simp [rel]
  · simp only [rel_outsOf]
    cases k <;> simp [Gen.restored, VK.of]

theorem handOver_conserves (k : VK) (c : Chan) (id : Nat) (ip : Bool) :
    rel k (handOver c id ip).2 ++ k.of (handOver c id ip).1.pend = k.of c.pend := by
  unfold handOver
  simp only
  split
  · simp only [rel, Out.vec, List.nil_append]
    rw [resume_conserves]
  · simp [rel, Out.vec]

theorem csRecvWhilePaused_vecs (k : VK) (p : Gen.Pend) (a b : Bool) : k.of (Gen.csRecvWhilePaused p a b).1 = k.of p := by
  unfold Gen.csRecvWhilePaused
  simp only
  split <;> cases k <;> rfl

/-- monitor_updating_paused EXTENDS the held vectors (this is the lemma an overwriting `=` breaks) -/
theorem paused_vecs (k : VK) (p : Gen.Pend) (a b c : Bool) (fw fl ff : List Nat) :
    k.of (Gen.paused p a b c fw fl ff) = k.of p ++ (match k with | .adds => [] | .fwds => fw | .fails => fl | .fulfills => ff) := by
  cases k <;> simp [Gen.paused, VK.of]

/-- every monitor_updating_paused call of revoke_and_ack passes the three vectors on -/
theorem raaPauseArgs_vecs (freed rc : Bool) (fw fl ff : List Nat) : (Gen.raaPauseArgs freed rc fw fl ff).2 = (fw, fl, ff) := by
  unfold Gen.raaPauseArgs
  split
  · rfl
  · split <;> rfl

theorem queueOrHand_conserves (k : VK) (c : Chan) (id : Nat) (ip : Bool) :
    rel k (queueOrHand c id ip).2 ++ k.of (queueOrHand c id ip).1.pend = k.of c.pend := by
  unfold queueOrHand
  simp only
  split
  · simp [rel]
  · exact handOver_conserves k _ _ _

theorem csPre_vecs (k : VK) (c : Chan) (nc ar : Bool) : k.of (csPre c nc ar).pend = k.of c.pend := by
  unfold csPre
  split
  · exact csRecvWhilePaused_vecs k _ _ _
  · simp only [pauseWith]; rw [paused_vecs]; cases k <;> simp

theorem step_conserves (k : VK) (c : Chan) (op : Op) :
    rel k (step c op).2 ++ k.of (step c op).1.pend = k.of c.pend ++ Op.added k op := by
  cases op with
  | csRecv nc ar ip =>
    simp only [step, Op.added, List.append_nil]
    exact (queueOrHand_conserves k _ _ _).trans (csPre_vecs k c nc ar)
  | raaRecv freed rc hold adds fw fl ff ip =>
    simp only [step, Op.added]
    split
    · refine (handOver_conserves k _ _ _).trans ?_; simp only [pauseWith]; rw [paused_vecs, raaPauseArgs_vecs]
      cases k <;> simp [Gen.raaAppendAdds, VK.of]
    · simp only [rel, List.nil_append, pauseWith]; rw [paused_vecs, raaPauseArgs_vecs]
      cases k <;> simp [Gen.raaAppendAdds, VK.of]
  | claim ub ip =>
    simp only [step, Op.added, List.append_nil]
    split
    · refine (handOver_conserves k _ _ _).trans ?_; simp only [pauseWith]; rw [paused_vecs]; cases k <;> simp
    · refine (handOver_conserves k _ _ _).trans ?_; simp only [pauseWith]; rw [paused_vecs]; cases k <;> simp
  | send ip =>
    simp only [step, Op.added, List.append_nil]
    split
    · simp [rel]
    · refine (queueOrHand_conserves k _ _ _).trans ?_; simp only [pauseWith]; rw [paused_vecs]; cases k <;> simp
  | other ip =>
    simp only [step, Op.added, List.append_nil]
    refine (queueOrHand_conserves k _ _ _).trans ?_; simp only [pauseWith]; rw [paused_vecs]; cases k <;> simp
  | complete id =>
    simp only [step, Op.added, List.append_nil]
    split
    · split
      · split
        · simp [rel]
        · split
          · exact resume_conserves k _
          · simp [rel]
      · simp [rel]
    · simp [rel]
  | unblock ip =>
    simp only [step, Op.added, List.append_nil]
    split
    · simp [rel]
    · exact handOver_conserves k _ _ _
  | confirm =>
    simp only [step, Op.added, List.append_nil]
    have : ∀ b : Bool, rel k (if b then [Out.ready] else []) = [] := by intro b; cases b <;> simp [rel, Out.vec]
    rw [this]; cases k <;> simp [VK.of]
  | disconnect => simp [step, Op.added, rel]
  | reestablish nr ncs rcase =>
    simp only [step, Op.added, List.append_nil]
    have h1 : ∀ (b : Bool) (o : Out), Out.vec k o = [] → rel k (if b then [o] else []) = [] := by
      intro b o h; cases b <;> simp [rel, h]
    have h0 : ∀ (b : Bool) (o : Out), Out.vec k o = [] → rel k (if b then [] else [o]) = [] := by
      intro b o h; cases b <;> simp [rel, h]
    have hz : rel k ([] : List Out) = [] := rfl
    simp only [rel_append]
    repeat' split
    all_goals simp only [rel_append, h1 _ _ (show Out.vec k Out.ready = [] from rfl), h1 _ _ (show Out.vec k Out.readyResent = [] from rfl),
      h0 _ _ (show Out.vec k Out.ready = [] from rfl), h1 _ _ (show Out.vec k Out.cs = [] from rfl), h1 _ _ (show Out.vec k Out.raa = [] from rfl), hz, List.nil_append]
    all_goals cases k <;> simp [VK.of, rel, Out.vec]

theorem run_conserves (k : VK) (ops : List Op) : ∀ c : Chan,
    rel k (run c ops).2 ++ k.of (run c ops).1.pend = k.of c.pend ++ addedAll k ops := by
  induction ops with
  | nil => intro c; simp [run, rel, addedAll]
  | cons op ops ih =>
    intro c
    simp only [run, rel_append, addedAll, List.append_assoc]
    rw [ih (step c op).1, ← List.append_assoc, step_conserves, List.append_assoc]

end Ldk.MonGate.Gate
