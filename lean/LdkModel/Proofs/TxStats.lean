/- Helper lemmas for Props/C01Stats.lean: one small "specification" lemma per GENERATED function of
   Generated/TxBuilder.lean (so that a change of the Rust source breaks the lemma about the function that
   changed), plus list lemmas relating the statistics view (`HTLCAmountDirection`) of an HTLC set to the
   transaction-builder view (`HtlcIn`). Core tactics only. -/
import LdkModel.Proofs.TxBuilder
namespace Ldk.TxB
open Ldk

/-! ### abbreviations for the sub-expressions the generated code repeats -/

/-- `Σ amount_msat` over the holder's outbound HTLCs (as written in `get_next_commitment_stats` and
    `get_available_balances`) -/
def outSum (dirs : List HTLCAmountDirection) : Nat :=
  List.sum (List.filterMap (fun htlc => if htlc.outbound then some htlc.amount_msat else none) dirs)
/-- `Σ amount_msat` over the holder's inbound HTLCs -/
def inSum (dirs : List HTLCAmountDirection) : Nat :=
  List.sum (List.filterMap (fun htlc => if (!htlc.outbound) then some htlc.amount_msat else none) dirs)
/-- number of HTLCs that are not dust at feerate `f` on the commitment selected by `l` -/
def nondustCount (l : Bool) (f d : Nat) (ty : ChanType) (dirs : List HTLCAmountDirection) : Nat :=
  List.length (List.filter (fun htlc => !(is_dust htlc l f d ty)) dirs)
/-- the feerate `get_next_commitment_stats` uses for the fee (2x for non-anchor channels under `assume_fee_spike`) -/
def spikedFeerate (spike : Bool) (f : Nat) (ty : ChanType) : Nat :=
  if (spike && !ty.anchors) then satMul32 f FEE_SPIKE_BUFFER_FEE_INCREASE_MULTIPLE else f
/-- the statistics view of an HTLC of the commitment selected by `local_` -/
def dirOf (local_ : Bool) (h : HtlcIn) : HTLCAmountDirection :=
  { outbound := (h.offered == local_), amount_msat := h.amount_msat }

theorem spikedFeerate_false (f : Nat) (ty : ChanType) : spikedFeerate false f ty = f := by
  simp [spikedFeerate]

theorem sub_mul_div_1000 (x f : Nat) : (x - f * 1000) / 1000 = x / 1000 - f := by omega

/-! ### fee helpers -/

theorem second_stage_zero (ty : ChanType) (f : Nat) (h : (ty.anchors || ty.zeroFee) = true) :
    second_stage_tx_fees_sat ty f = (0, 0) := by
  unfold second_stage_tx_fees_sat; simp [h]

theorem second_stage_legacy (ty : ChanType) (f : Nat) (h : (ty.anchors || ty.zeroFee) = false) :
    second_stage_tx_fees_sat ty f =
      (f * htlc_success_tx_weight ty / 1000, f * htlc_timeout_tx_weight ty / 1000) := by
  unfold second_stage_tx_fees_sat; simp [h]

theorem commit_tx_fee_zero (n : Nat) (ty : ChanType) : commit_tx_fee_sat 0 n ty = 0 := by
  simp [commit_tx_fee_sat]

theorem commit_tx_fee_mono (f n m : Nat) (ty : ChanType) (h : n ≤ m) :
    commit_tx_fee_sat f n ty ≤ commit_tx_fee_sat f m ty := by
  unfold commit_tx_fee_sat
  apply Nat.div_le_div_right
  apply Nat.mul_le_mul_left
  have := Nat.mul_le_mul_right COMMITMENT_TX_WEIGHT_PER_HTLC h
  omega

theorem is_dust_eq (d : HTLCAmountDirection) (l : Bool) (f dl : Nat) (ty : ChanType) :
    is_dust d l f dl ty = decide (d.amount_msat / 1000 < dl +
      (if d.outbound = l then (second_stage_tx_fees_sat ty f).2 else (second_stage_tx_fees_sat ty f).1)) := by
  unfold is_dust
  rcases second_stage_tx_fees_sat ty f with ⟨a, b⟩
  simp

/-- the statistics code (`HTLCAmountDirection::is_dust`) and the transaction builder (the `is_dust`
    closure of `build_commitment_transaction`) classify an HTLC identically -/
theorem is_dust_dirOf (h : HtlcIn) (local_ : Bool) (feerate dust : Nat) (ty : ChanType)
    (hz : ty.zeroFee = true → feerate = 0) :
    is_dust (dirOf local_ h) local_ feerate dust ty = buildIsDust ty feerate dust h := by
  rw [is_dust_eq]; unfold buildIsDust dirOf
  obtain ⟨a, z⟩ := ty; obtain ⟨o, amt⟩ := h
  cases a <;> cases z <;> cases o <;> cases local_ <;>
    simp_all [second_stage_zero, second_stage_legacy]

/-! ### funder subtraction -/

theorem csf_some (fu : Bool) (a b c x y : Nat) :
    checked_sub_from_funder fu a b c = some (x, y) ↔
      (if fu then c ≤ a ∧ x = a - c ∧ y = b else c ≤ b ∧ x = a ∧ y = b - c) := by
  unfold checked_sub_from_funder chkSub
  cases fu <;> simp <;> split <;> simp_all <;> omega

theorem ssf_eq (fu : Bool) (a b c : Nat) :
    saturating_sub_from_funder fu a b c = (if fu then (a - c, b) else (a, b - c)) := by
  unfold saturating_sub_from_funder; cases fu <;> simp

/-- a successful checked subtraction agrees with the saturating one the builder uses -/
theorem csf_some_ssf (fu : Bool) (a b c x y : Nat) (h : checked_sub_from_funder fu a b c = some (x, y)) :
    saturating_sub_from_funder fu a b c = (x, y) ∧ (if fu then a else b) ≥ c := by
  rw [csf_some] at h; rw [ssf_eq]
  cases fu <;> simp_all

theorem satMul64_eq (a b : Nat) (h : a * b < 2 ^ 64) : satMul64 a b = a * b := by
  unfold satMul64; simp [h]

theorem satMul64_ge (a b : Nat) (h : ¬ a * b < 2 ^ 64) : satMul64 a b = 2 ^ 64 - 1 := by
  unfold satMul64; simp [h]

theorem satMul64_le (a b : Nat) : satMul64 a b ≤ a * b := by
  unfold satMul64; split <;> omega

/-! ### `has_output` -/

/-- what the "at least one output" guard of `has_output` says, explicitly -/
theorem has_output_iff (fu : Bool) (hb cb f n d : Nat) (ty : ChanType) :
    has_output fu hb cb f n d ty = true ↔
      (ty.zeroFee = true ∨ n ≠ 0 ∨
        d * 1000 ≤ hb - (if fu then satMul64 (commit_tx_fee_sat f n ty) 1000 else 0) ∨
        d * 1000 ≤ cb - (if fu then 0 else satMul64 (commit_tx_fee_sat f n ty) 1000)) := by
  unfold has_output
  simp only [ssf_eq]
  cases fu <;> cases hz : ty.zeroFee <;> simp <;> omega

/-! ### `get_next_commitment_stats` -/

/-- inversion of a successful `get_next_commitment_stats`: every `checked_sub` succeeded, the
    `has_output` guard passed, and the result is the funder's balance minus the (spiked) fee -/
theorem stats_inv (l fu : Bool) (chan vth : Nat) (dirs : List HTLCAmountDirection) (addl f : Nat)
    (spike : Bool) (lim : Option Nat) (dust : Nat) (ty : ChanType) (s : NextCommitmentStats)
    (h : get_next_commitment_stats l fu chan vth dirs addl f spike lim dust ty = some s) :
    vth ≤ chan * 1000 ∧ outSum dirs ≤ vth ∧ inSum dirs ≤ chan * 1000 - vth ∧
    ∃ hb cb,
      checked_sub_from_funder fu (vth - outSum dirs) (chan * 1000 - vth - inSum dirs)
        (satMul64 (total_anchors_sat ty) 1000) = some (hb, cb) ∧
      has_output fu hb cb (spikedFeerate spike f ty)
        (nondustCount l (spikedFeerate spike f ty) dust ty dirs) dust ty = true ∧
      checked_sub_from_funder fu hb cb
        (satMul64 (commit_tx_fee_sat (spikedFeerate spike f ty) (nondustCount l f dust ty dirs + addl) ty) 1000)
        = some (s.holder_balance_msat, s.counterparty_balance_msat) ∧
      s.dust_exposure_msat = (get_dust_exposure_stats l dirs f lim dust ty).1 := by
  unfold get_next_commitment_stats at h
  simp only [chkSub] at h
  split at h <;> try contradiction
  rename_i vtc h1
  split at h1 <;> try contradiction
  injection h1 with h1
  split at h <;> try contradiction
  rename_i vha h2
  split at h2 <;> try contradiction
  injection h2 with h2
  split at h <;> try contradiction
  rename_i vca h3
  split at h3 <;> try contradiction
  injection h3 with h3
  split at h <;> try contradiction
  rename_i hb cb h4
  rw [show (if (spike && !ty.anchors) = true then satMul32 f FEE_SPIKE_BUFFER_FEE_INCREASE_MULTIPLE else f)
        = spikedFeerate spike f ty from rfl] at h
  split at h <;> try contradiction
  rename_i hho
  split at h <;> try contradiction
  rename_i hbal cbal h5
  injection h with h
  subst h h1 h2 h3
  refine ⟨by assumption, by assumption, by assumption, hb, cb, h4, ?_, h5, rfl⟩
  simpa [nondustCount] using hho

/-- converse of `stats_inv`: the conditions are also sufficient (used to show that a computed limit
    is accepted) -/
theorem stats_intro (l fu : Bool) (chan vth : Nat) (dirs : List HTLCAmountDirection) (addl f : Nat)
    (spike : Bool) (lim : Option Nat) (dust : Nat) (ty : ChanType) (hb cb x y : Nat)
    (h1 : vth ≤ chan * 1000) (h2 : outSum dirs ≤ vth) (h3 : inSum dirs ≤ chan * 1000 - vth)
    (h4 : checked_sub_from_funder fu (vth - outSum dirs) (chan * 1000 - vth - inSum dirs)
        (satMul64 (total_anchors_sat ty) 1000) = some (hb, cb))
    (h5 : has_output fu hb cb (spikedFeerate spike f ty)
        (nondustCount l (spikedFeerate spike f ty) dust ty dirs) dust ty = true)
    (h6 : checked_sub_from_funder fu hb cb
        (satMul64 (commit_tx_fee_sat (spikedFeerate spike f ty) (nondustCount l f dust ty dirs + addl) ty) 1000)
        = some (x, y)) :
    get_next_commitment_stats l fu chan vth dirs addl f spike lim dust ty =
      some { holder_balance_msat := x, counterparty_balance_msat := y,
             dust_exposure_msat := (get_dust_exposure_stats l dirs f lim dust ty).1 } := by
  unfold get_next_commitment_stats
  rw [show (if (spike && !ty.anchors) = true then satMul32 f FEE_SPIKE_BUFFER_FEE_INCREASE_MULTIPLE else f)
        = spikedFeerate spike f ty from rfl]
  unfold outSum at h2 h4
  unfold inSum at h3 h4
  unfold nondustCount at h5 h6
  simp only [chkSub, h1, h2, h3, if_true, h4, h5, h6]
  simp

/-! ### statistics view vs. builder view of an HTLC list -/

theorem outSum_map (l : Bool) (htlcs : List HtlcIn) :
    outSum (htlcs.map (dirOf l)) = sumMsat (htlcs.filter (fun h => h.offered == l)) := by
  induction htlcs with
  | nil => rfl
  | cons h t ih =>
    unfold outSum at ih ⊢
    cases hh : (h.offered == l) <;> simp [dirOf, List.filter, hh, sumMsat_cons] at ih ⊢ <;> omega

theorem inSum_map (l : Bool) (htlcs : List HtlcIn) :
    inSum (htlcs.map (dirOf l)) = sumMsat (htlcs.filter (fun h => !(h.offered == l))) := by
  induction htlcs with
  | nil => rfl
  | cons h t ih =>
    unfold inSum at ih ⊢
    cases hh : (h.offered == l) <;> simp [dirOf, List.filter, hh, sumMsat_cons] at ih ⊢ <;> omega

theorem nondustCount_map (l : Bool) (f d : Nat) (ty : ChanType) (htlcs : List HtlcIn)
    (hz : ty.zeroFee = true → f = 0) :
    nondustCount l f d ty (htlcs.map (dirOf l)) =
      (htlcs.filter (fun h => !(buildIsDust ty f d h))).length := by
  unfold nondustCount
  induction htlcs with
  | nil => rfl
  | cons h t ih =>
    have := is_dust_dirOf h l f d ty hz
    cases hh : buildIsDust ty f d h <;> simp [List.filter, hh, this] at ih ⊢ <;> omega

/-! ### the `adjust_*` helpers of `get_available_balances`: each only lowers the limit / raises the minimum -/

theorem natMin_eq (a b : Nat) : Nat.min a b = min a b := rfl
theorem natMax_eq (a b : Nat) : Nat.max a b = max a b := rfl

theorem adjust_boundaries_spec (l fu : Bool) (hb cb f n d : Nat) (ty : ChanType) (m c : Nat) :
    m ≤ (adjust_boundaries_if_max_dust_htlc_produces_no_output l fu hb cb f n d ty m c).1 ∧
    (adjust_boundaries_if_max_dust_htlc_produces_no_output l fu hb cb f n d ty m c).2 ≤ c := by
  unfold adjust_boundaries_if_max_dust_htlc_produces_no_output
  simp only [natMin_eq, natMax_eq]
  generalize second_stage_tx_fees_sat ty f = p
  obtain ⟨a, b⟩ := p
  simp only []
  generalize (satMul64 (d + if l = true then b else a) 1000) = md
  generalize has_output fu (hb - (md - 1)) cb f n d ty = ho
  cases ho
  · simp only [Bool.not_false, if_true]
    split <;> simp <;> omega
  · simp

theorem adjust_no_output_spec (fu : Bool) (lb rb ln rn f : Nat) (cons : ChannelConstraints) (ty : ChanType)
    (m c : Nat) :
    m ≤ (adjust_min_max_htlc_if_max_dust_htlc_produces_no_output fu lb rb ln rn f cons ty m c).1 ∧
    (adjust_min_max_htlc_if_max_dust_htlc_produces_no_output fu lb rb ln rn f cons ty m c).2 ≤ c := by
  unfold adjust_min_max_htlc_if_max_dust_htlc_produces_no_output
  have h1 := adjust_boundaries_spec true fu lb rb f ln cons.holder_dust_limit_satoshis ty m c
  generalize adjust_boundaries_if_max_dust_htlc_produces_no_output true fu lb rb f ln cons.holder_dust_limit_satoshis ty m c = p1 at *
  obtain ⟨m1, c1⟩ := p1
  have h2 := adjust_boundaries_spec false fu lb rb f rn cons.counterparty_dust_limit_satoshis ty m1 c1
  simp only [] at *
  generalize adjust_boundaries_if_max_dust_htlc_produces_no_output false fu lb rb f rn cons.counterparty_dust_limit_satoshis ty m1 c1 = p2 at *
  obtain ⟨m2, c2⟩ := p2
  simp only [] at *
  omega

theorem adjust_holder_reserved_le (cap ln rn f sf : Nat) (cons : ChannelConstraints) (ty : ChanType) :
    adjust_capacity_for_holder_reserved_fee cap ln rn f sf cons ty ≤ cap := by
  unfold adjust_capacity_for_holder_reserved_fee
  simp only [natMin_eq]
  generalize second_stage_tx_fees_sat ty f = p
  obtain ⟨a, b⟩ := p
  simp only []
  split <;> split <;> omega

theorem adjust_counterparty_reserved_le (cap rb ln rn f : Nat) (cons : ChannelConstraints) (ty : ChanType) :
    adjust_capacity_for_counterparty_reserved_fee cap rb ln rn f cons ty ≤ cap := by
  unfold adjust_capacity_for_counterparty_reserved_fee
  simp only [natMin_eq]
  generalize second_stage_tx_fees_sat ty f = p
  obtain ⟨a, b⟩ := p
  simp only []
  split <;> split <;> omega

theorem adjust_dust_exposure_spec (dirs : List HTLCAmountDirection) (f : Nat) (lim : Option Nat) (maxd : Nat)
    (cons : ChannelConstraints) (ty : ChanType) (c : Nat) :
    cons.counterparty_htlc_minimum_msat ≤ (adjust_min_max_htlc_for_dust_exposure dirs f lim maxd cons ty c).1 ∧
    (adjust_min_max_htlc_for_dust_exposure dirs f lim maxd cons ty c).2.1 ≤ c := by
  unfold adjust_min_max_htlc_for_dust_exposure
  simp only [natMin_eq, natMax_eq]
  generalize get_dust_exposure_stats true dirs f lim cons.holder_dust_limit_satoshis ty = p1
  generalize get_dust_exposure_stats false dirs f lim cons.counterparty_dust_limit_satoshis ty = p2
  generalize second_stage_tx_fees_sat ty (get_dust_buffer_feerate f) = p3
  obtain ⟨lde, x⟩ := p1
  obtain ⟨rde, extra⟩ := p2
  obtain ⟨bs, bt⟩ := p3
  generalize hA : decide (satAdd64 rde ((bs + cons.counterparty_dust_limit_satoshis) * 1000) > satAdd64 maxd 1) = cA
  generalize hB : decide (lde + (bt + cons.holder_dust_limit_satoshis) * 1000 - 1 > min maxd I64_MAX) = cB
  cases extra <;> cases cA <;> cases cB <;> simp <;> (repeat' split) <;> (try simp) <;> omega

/-! ### `get_available_balances` as a composition of its stages -/

/-- the pre-fee balances `get_available_balances` starts from -/
def gabBalances (fu : Bool) (chan vth : Nat) (dirs : List HTLCAmountDirection) (ty : ChanType) : Nat × Nat :=
  saturating_sub_from_funder fu (vth - outSum dirs)
    ((Option.getD (chkSub (chan * 1000) vth) 0) - inSum dirs) (satMul64 (total_anchors_sat ty) 1000)

/-- the spiked feerate `get_available_balances` uses -/
def gabSpiked (f : Nat) (ty : ChanType) : Nat :=
  satMul32 f (if (!ty.anchors) then FEE_SPIKE_BUFFER_FEE_INCREASE_MULTIPLE else 1)

def outCount (dirs : List HTLCAmountDirection) : Nat :=
  List.length (List.filter (fun htlc => htlc.outbound) dirs)

theorem gab_eq (fu : Bool) (chan vth : Nat) (dirs : List HTLCAmountDirection) (f : Nat) (lim : Option Nat)
    (maxd : Nat) (cons : ChannelConstraints) (ty : ChanType) :
    get_available_balances fu chan vth dirs f lim maxd cons ty =
      (let ln := nondustCount true f cons.holder_dust_limit_satoshis ty dirs
       let rn := nondustCount false f cons.counterparty_dust_limit_satoshis ty dirs
       let lb := (gabBalances fu chan vth dirs ty).1
       let rb := (gabBalances fu chan vth dirs ty).2
       let cap := lb - cons.counterparty_selected_channel_reserve_satoshis * 1000
       let avail0 := if fu then adjust_capacity_for_holder_reserved_fee cap ln rn f (gabSpiked f ty) cons ty
                     else adjust_capacity_for_counterparty_reserved_fee cap rb ln rn f cons ty
       let r1 := adjust_min_max_htlc_for_dust_exposure dirs f lim maxd cons ty avail0
       let avail1 := Nat.min r1.2.1 (cons.counterparty_max_htlc_value_in_flight_msat - outSum dirs)
       let avail2 := if outCount dirs + 1 > cons.counterparty_max_accepted_htlcs then 0 else avail1
       let r2 := adjust_min_max_htlc_if_max_dust_htlc_produces_no_output fu lb rb ln rn f cons ty r1.1 avail2
       { inbound_capacity_msat := rb - cons.holder_selected_channel_reserve_satoshis * 1000
         outbound_capacity_msat := cap
         next_outbound_htlc_limit_msat := r2.2
         next_outbound_htlc_minimum_msat := r2.1
         dust_exposure_msat := r1.2.2
         next_splice_out_maximum_sat := 0 }) := by
  unfold get_available_balances
  simp only [decide_eq_true_eq]
  rfl
/-- everything the stages after the reserve subtraction do to the limit / minimum -/
theorem gab_limit_min (fu : Bool) (chan vth : Nat) (dirs : List HTLCAmountDirection) (f : Nat) (lim : Option Nat)
    (maxd : Nat) (cons : ChannelConstraints) (ty : ChanType) :
    let a := get_available_balances fu chan vth dirs f lim maxd cons ty
    a.next_outbound_htlc_limit_msat ≤ a.outbound_capacity_msat ∧
    a.next_outbound_htlc_limit_msat ≤ cons.counterparty_max_htlc_value_in_flight_msat - outSum dirs ∧
    (outCount dirs + 1 > cons.counterparty_max_accepted_htlcs → a.next_outbound_htlc_limit_msat = 0) ∧
    cons.counterparty_htlc_minimum_msat ≤ a.next_outbound_htlc_minimum_msat ∧
    a.outbound_capacity_msat =
      (gabBalances fu chan vth dirs ty).1 - cons.counterparty_selected_channel_reserve_satoshis * 1000 := by
  intro a
  have ha : a = get_available_balances fu chan vth dirs f lim maxd cons ty := rfl
  clear_value a
  rw [gab_eq] at ha
  simp only [] at ha
  generalize hln : nondustCount true f cons.holder_dust_limit_satoshis ty dirs = ln at ha
  generalize hrn : nondustCount false f cons.counterparty_dust_limit_satoshis ty dirs = rn at ha
  generalize hcap : (gabBalances fu chan vth dirs ty).1 - cons.counterparty_selected_channel_reserve_satoshis * 1000 = cap at ha ⊢
  generalize havail0 : (if fu = true then adjust_capacity_for_holder_reserved_fee cap ln rn f (gabSpiked f ty) cons ty
      else adjust_capacity_for_counterparty_reserved_fee cap (gabBalances fu chan vth dirs ty).2 ln rn f cons ty) = avail0 at ha
  have h0 : avail0 ≤ cap := by
    subst havail0; split
    · exact adjust_holder_reserved_le ..
    · exact adjust_counterparty_reserved_le ..
  have h1 := adjust_dust_exposure_spec dirs f lim maxd cons ty avail0
  generalize adjust_min_max_htlc_for_dust_exposure dirs f lim maxd cons ty avail0 = r1 at ha h1
  generalize havail2 : (if outCount dirs + 1 > cons.counterparty_max_accepted_htlcs then 0
      else Nat.min r1.2.1 (cons.counterparty_max_htlc_value_in_flight_msat - outSum dirs)) = avail2 at ha
  have h2 := adjust_no_output_spec fu (gabBalances fu chan vth dirs ty).1 (gabBalances fu chan vth dirs ty).2 ln rn f cons ty r1.1 avail2
  generalize adjust_min_max_htlc_if_max_dust_htlc_produces_no_output fu (gabBalances fu chan vth dirs ty).1 (gabBalances fu chan vth dirs ty).2 ln rn f cons ty r1.1 avail2 = r2 at ha h2
  subst ha
  simp only []
  rw [natMin_eq] at havail2
  refine ⟨?_, ?_, ?_, ?_, by first | trivial | rfl⟩
  · split at havail2 <;> omega
  · split at havail2 <;> omega
  · intro h; rw [if_pos h] at havail2; omega
  · omega

theorem gabBalances_fst (fu : Bool) (chan vth : Nat) (dirs : List HTLCAmountDirection) (ty : ChanType) :
    (gabBalances fu chan vth dirs ty).1 =
      vth - outSum dirs - (if fu then 1000 * total_anchors_sat ty else 0) := by
  unfold gabBalances
  rw [ssf_eq, satMul64_anchors]
  cases fu <;> simp

/-- the limit is at most the capacity left after the funder's fee buffer (`adjust_capacity_for_*_reserved_fee`) -/
theorem gab_limit_le_reserved (fu : Bool) (chan vth : Nat) (dirs : List HTLCAmountDirection) (f : Nat) (lim : Option Nat)
    (maxd : Nat) (cons : ChannelConstraints) (ty : ChanType) :
    (get_available_balances fu chan vth dirs f lim maxd cons ty).next_outbound_htlc_limit_msat ≤
      (if fu then adjust_capacity_for_holder_reserved_fee
          ((gabBalances fu chan vth dirs ty).1 - cons.counterparty_selected_channel_reserve_satoshis * 1000)
          (nondustCount true f cons.holder_dust_limit_satoshis ty dirs)
          (nondustCount false f cons.counterparty_dust_limit_satoshis ty dirs) f (gabSpiked f ty) cons ty
        else adjust_capacity_for_counterparty_reserved_fee
          ((gabBalances fu chan vth dirs ty).1 - cons.counterparty_selected_channel_reserve_satoshis * 1000)
          (gabBalances fu chan vth dirs ty).2
          (nondustCount true f cons.holder_dust_limit_satoshis ty dirs)
          (nondustCount false f cons.counterparty_dust_limit_satoshis ty dirs) f cons ty) := by
  rw [gab_eq]
  simp only []
  generalize nondustCount true f cons.holder_dust_limit_satoshis ty dirs = ln
  generalize nondustCount false f cons.counterparty_dust_limit_satoshis ty dirs = rn
  generalize (gabBalances fu chan vth dirs ty).1 - cons.counterparty_selected_channel_reserve_satoshis * 1000 = cap
  generalize (if fu = true then adjust_capacity_for_holder_reserved_fee cap ln rn f (gabSpiked f ty) cons ty
      else adjust_capacity_for_counterparty_reserved_fee cap (gabBalances fu chan vth dirs ty).2 ln rn f cons ty) = avail0
  have h1 := adjust_dust_exposure_spec dirs f lim maxd cons ty avail0
  generalize adjust_min_max_htlc_for_dust_exposure dirs f lim maxd cons ty avail0 = r1 at h1 ⊢
  generalize havail2 : (if outCount dirs + 1 > cons.counterparty_max_accepted_htlcs then 0
      else Nat.min r1.2.1 (cons.counterparty_max_htlc_value_in_flight_msat - outSum dirs)) = avail2
  have h2 := adjust_no_output_spec fu (gabBalances fu chan vth dirs ty).1 (gabBalances fu chan vth dirs ty).2 ln rn f cons ty r1.1 avail2
  generalize adjust_min_max_htlc_if_max_dust_htlc_produces_no_output fu (gabBalances fu chan vth dirs ty).1 (gabBalances fu chan vth dirs ty).2 ln rn f cons ty r1.1 avail2 = r2 at h2 ⊢
  rw [natMin_eq] at havail2
  split at havail2 <;> omega

/-! ### sending one more outbound HTLC -/

theorem commit_tx_fee_mono_feerate (f g n : Nat) (ty : ChanType) (h : f ≤ g) :
    commit_tx_fee_sat f n ty ≤ commit_tx_fee_sat g n ty := by
  unfold commit_tx_fee_sat
  apply Nat.div_le_div_right
  exact Nat.mul_le_mul_right _ h

theorem spikedFeerate_le_gabSpiked (spike : Bool) (f : Nat) (ty : ChanType) (hf : f < 2 ^ 32) :
    spikedFeerate spike f ty ≤ gabSpiked f ty := by
  unfold spikedFeerate gabSpiked satMul32
  rw [show FEE_SPIKE_BUFFER_FEE_INCREASE_MULTIPLE = 2 from rfl]
  cases spike <;> cases ty.anchors <;> simp <;> (try split) <;> omega

theorem outSum_append_out (dirs : List HTLCAmountDirection) (amt : Nat) :
    outSum (dirs ++ [⟨true, amt⟩]) = outSum dirs + amt := by
  simp [outSum, List.filterMap_append]

theorem inSum_append_out (dirs : List HTLCAmountDirection) (amt : Nat) :
    inSum (dirs ++ [⟨true, amt⟩]) = inSum dirs := by
  simp [inSum, List.filterMap_append]

theorem nondustCount_append (l : Bool) (f d : Nat) (ty : ChanType) (dirs : List HTLCAmountDirection)
    (x : HTLCAmountDirection) :
    nondustCount l f d ty (dirs ++ [x]) =
      nondustCount l f d ty dirs + (if is_dust x l f d ty then 0 else 1) := by
  unfold nondustCount
  cases h : is_dust x l f d ty <;> simp [List.filter_append, List.filter, h]

theorem adjust_holder_reserved_spec (cap ln rn f sf : Nat) (cons : ChannelConstraints) (ty : ChanType)
    (amt : Nat) (hpos : 0 < amt)
    (h : amt ≤ adjust_capacity_for_holder_reserved_fee cap ln rn f sf cons ty) :
    (amt + commit_tx_fee_sat sf (ln + 2) ty * 1000 ≤ cap ∨
      (amt < (cons.holder_dust_limit_satoshis + (second_stage_tx_fees_sat ty f).2) * 1000 ∧
        amt + commit_tx_fee_sat sf (ln + 1) ty * 1000 ≤ cap)) ∧
    (amt + commit_tx_fee_sat sf (rn + 2) ty * 1000 ≤ cap ∨
      (amt < (cons.counterparty_dust_limit_satoshis + (second_stage_tx_fees_sat ty f).1) * 1000 ∧
        amt + commit_tx_fee_sat sf (rn + 1) ty * 1000 ≤ cap)) := by
  unfold adjust_capacity_for_holder_reserved_fee at h
  simp only [natMin_eq] at h
  generalize second_stage_tx_fees_sat ty f = p at h ⊢
  obtain ⟨a, b⟩ := p
  simp only [] at h ⊢
  split at h <;> split at h <;> omega

theorem second_stage_mono (ty : ChanType) (f g : Nat) (h : f ≤ g) :
    (second_stage_tx_fees_sat ty f).1 ≤ (second_stage_tx_fees_sat ty g).1 ∧
    (second_stage_tx_fees_sat ty f).2 ≤ (second_stage_tx_fees_sat ty g).2 := by
  cases hz : (ty.anchors || ty.zeroFee)
  · rw [second_stage_legacy _ _ hz, second_stage_legacy _ _ hz]
    exact ⟨Nat.div_le_div_right (Nat.mul_le_mul_right _ h), Nat.div_le_div_right (Nat.mul_le_mul_right _ h)⟩
  · rw [second_stage_zero _ _ hz, second_stage_zero _ _ hz]; simp

theorem is_dust_mono (x : HTLCAmountDirection) (l : Bool) (f g d : Nat) (ty : ChanType) (h : f ≤ g)
    (hd : is_dust x l f d ty = true) : is_dust x l g d ty = true := by
  rw [is_dust_eq] at hd ⊢
  have := second_stage_mono ty f g h
  simp only [decide_eq_true_eq] at hd ⊢
  split at hd <;> simp_all <;> omega

theorem nondustCount_antitone (l : Bool) (f g d : Nat) (ty : ChanType) (dirs : List HTLCAmountDirection)
    (h : f ≤ g) : nondustCount l g d ty dirs ≤ nondustCount l f d ty dirs := by
  unfold nondustCount
  induction dirs with
  | nil => simp
  | cons x t ih =>
    cases hf : is_dust x l f d ty
    · cases hg : is_dust x l g d ty <;> simp [List.filter, hf, hg] <;> omega
    · have hg := is_dust_mono x l f g d ty h hf
      simp [List.filter, hf, hg]; omega

theorem le_spikedFeerate (spike : Bool) (f : Nat) (ty : ChanType) (hf : f < 2 ^ 32) :
    f ≤ spikedFeerate spike f ty := by
  unfold spikedFeerate satMul32
  rw [show FEE_SPIKE_BUFFER_FEE_INCREASE_MULTIPLE = 2 from rfl]
  cases spike <;> cases ty.anchors <;> simp <;> (try split) <;> omega

theorem is_dust_out (amt : Nat) (l : Bool) (f d : Nat) (ty : ChanType) :
    is_dust ⟨true, amt⟩ l f d ty = decide (amt < (d +
      (if l then (second_stage_tx_fees_sat ty f).2 else (second_stage_tx_fees_sat ty f).1)) * 1000) := by
  rw [is_dust_eq]
  cases l <;> simp <;> omega

/-! ### the no-output boundary adjustment really guards `has_output` -/

theorem has_output_false_iff (fu : Bool) (hb cb f n d : Nat) (ty : ChanType) :
    has_output fu hb cb f n d ty = false ↔
      (ty.zeroFee = false ∧ n = 0 ∧
        hb - (if fu then satMul64 (commit_tx_fee_sat f n ty) 1000 else 0) < d * 1000 ∧
        cb - (if fu then 0 else satMul64 (commit_tx_fee_sat f n ty) 1000) < d * 1000) := by
  have := has_output_iff fu hb cb f n d ty
  cases h : has_output fu hb cb f n d ty
  · rw [h] at this
    simp only [Bool.false_eq_true, false_iff, not_or] at this
    simp only [true_iff]
    obtain ⟨h1, h2, h3, h4⟩ := this
    refine ⟨by simpa using h1, by omega, by omega, by omega⟩
  · rw [h] at this
    simp only [true_iff] at this
    simp only [Bool.true_eq_false, false_iff]
    intro ⟨h1, h2, h3, h4⟩
    rcases this with h | h | h | h
    · simp [h1] at h
    · omega
    · omega
    · omega

/-- the guarantee of one no-output boundary adjustment: any positive amount inside the adjusted
    `[minimum, limit]` leaves the commitment with an output at the current feerate -/
theorem adjust_boundaries_guard (l fu : Bool) (hb cb f n d : Nat) (ty : ChanType) (m c amt : Nat)
    (hpos : 0 < amt) (hlt : amt < 2 ^ 64 - 1)
    (hmin : (adjust_boundaries_if_max_dust_htlc_produces_no_output l fu hb cb f n d ty m c).1 ≤ amt)
    (hmax : amt ≤ (adjust_boundaries_if_max_dust_htlc_produces_no_output l fu hb cb f n d ty m c).2) :
    has_output fu (hb - amt) cb f
      (n + (if decide (amt < (d + (if l then (second_stage_tx_fees_sat ty f).2
                                     else (second_stage_tx_fees_sat ty f).1)) * 1000) = true then 0 else 1))
      d ty = true := by
  unfold adjust_boundaries_if_max_dust_htlc_produces_no_output at hmin hmax
  simp only [natMin_eq, natMax_eq] at hmin hmax
  generalize second_stage_tx_fees_sat ty f = p at hmin hmax ⊢
  obtain ⟨a, b⟩ := p
  simp only [] at hmin hmax ⊢
  generalize hdl : (d + if l = true then b else a) = dl at hmin hmax ⊢
  have hM1 := satMul64_le dl 1000
  have hM2 : satMul64 dl 1000 = dl * 1000 ∨ satMul64 dl 1000 = 2 ^ 64 - 1 := by
    unfold satMul64; split <;> simp
  generalize satMul64 dl 1000 = M at hmin hmax hM1 hM2
  by_cases hdust : amt < dl * 1000
  · simp only [hdust, decide_true, if_true, Nat.add_zero]
    cases hho : has_output fu (hb - (M - 1)) cb f n d ty
    · rw [hho] at hmin hmax
      simp only [Bool.not_false, if_true] at hmin hmax
      rw [has_output_false_iff] at hho
      obtain ⟨hz, hn, h3, h4⟩ := hho
      subst hn
      by_cases hcM : c ≥ M
      · simp only [hcM, decide_true, if_true] at hmin
        omega
      · simp only [hcM, decide_false, Bool.false_eq_true, if_false] at hmax
        rw [has_output_iff]
        right; right; left
        have := satMul64_le (commit_tx_fee_sat f 0 ty) 1000
        cases fu <;> simp only [Bool.false_eq_true, if_false, if_true] at hmax ⊢ <;> omega
    · rw [has_output_iff] at hho ⊢
      rcases hho with h | h | h | h
      · exact Or.inl h
      · exact Or.inr (Or.inl h)
      · right; right; left; omega
      · right; right; right; exact h
  · simp only [hdust, decide_false, Bool.false_eq_true, if_false]
    rw [has_output_iff]; right; left; omega

/-- both boundary adjustments together -/
theorem adjust_no_output_guard (fu : Bool) (lb rb ln rn f : Nat) (cons : ChannelConstraints) (ty : ChanType)
    (m c amt : Nat) (hpos : 0 < amt) (hlt : amt < 2 ^ 64 - 1)
    (hmin : (adjust_min_max_htlc_if_max_dust_htlc_produces_no_output fu lb rb ln rn f cons ty m c).1 ≤ amt)
    (hmax : amt ≤ (adjust_min_max_htlc_if_max_dust_htlc_produces_no_output fu lb rb ln rn f cons ty m c).2) :
    has_output fu (lb - amt) rb f
      (ln + (if decide (amt < (cons.holder_dust_limit_satoshis + (second_stage_tx_fees_sat ty f).2) * 1000) = true
              then 0 else 1)) cons.holder_dust_limit_satoshis ty = true ∧
    has_output fu (lb - amt) rb f
      (rn + (if decide (amt < (cons.counterparty_dust_limit_satoshis + (second_stage_tx_fees_sat ty f).1) * 1000) = true
              then 0 else 1)) cons.counterparty_dust_limit_satoshis ty = true := by
  unfold adjust_min_max_htlc_if_max_dust_htlc_produces_no_output at hmin hmax
  have g1 := adjust_boundaries_guard true fu lb rb f ln cons.holder_dust_limit_satoshis ty m c amt hpos hlt
  generalize adjust_boundaries_if_max_dust_htlc_produces_no_output true fu lb rb f ln
    cons.holder_dust_limit_satoshis ty m c = p1 at hmin hmax g1
  obtain ⟨m1, c1⟩ := p1
  simp only [] at hmin hmax g1
  have s2 := adjust_boundaries_spec false fu lb rb f rn cons.counterparty_dust_limit_satoshis ty m1 c1
  have g2 := adjust_boundaries_guard false fu lb rb f rn cons.counterparty_dust_limit_satoshis ty m1 c1 amt hpos hlt
  generalize adjust_boundaries_if_max_dust_htlc_produces_no_output false fu lb rb f rn
    cons.counterparty_dust_limit_satoshis ty m1 c1 = p2 at hmin hmax s2 g2
  obtain ⟨m2, c2⟩ := p2
  simp only [] at hmin hmax s2 g2
  exact ⟨by simpa using g1 (by omega) (by omega), by simpa using g2 hmin hmax⟩

/-- the limits of `get_available_balances` carry the no-output guarantee -/
theorem gab_guard (fu : Bool) (chan vth : Nat) (dirs : List HTLCAmountDirection) (f : Nat) (lim : Option Nat)
    (maxd : Nat) (cons : ChannelConstraints) (ty : ChanType) (amt : Nat) (hpos : 0 < amt) (hlt : amt < 2 ^ 64 - 1)
    (hmin : (get_available_balances fu chan vth dirs f lim maxd cons ty).next_outbound_htlc_minimum_msat ≤ amt)
    (hmax : amt ≤ (get_available_balances fu chan vth dirs f lim maxd cons ty).next_outbound_htlc_limit_msat) :
    has_output fu ((gabBalances fu chan vth dirs ty).1 - amt) (gabBalances fu chan vth dirs ty).2 f
      (nondustCount true f cons.holder_dust_limit_satoshis ty dirs +
        (if decide (amt < (cons.holder_dust_limit_satoshis + (second_stage_tx_fees_sat ty f).2) * 1000) = true
              then 0 else 1)) cons.holder_dust_limit_satoshis ty = true ∧
    has_output fu ((gabBalances fu chan vth dirs ty).1 - amt) (gabBalances fu chan vth dirs ty).2 f
      (nondustCount false f cons.counterparty_dust_limit_satoshis ty dirs +
        (if decide (amt < (cons.counterparty_dust_limit_satoshis + (second_stage_tx_fees_sat ty f).1) * 1000) = true
              then 0 else 1)) cons.counterparty_dust_limit_satoshis ty = true := by
  rw [gab_eq] at hmin hmax
  simp only [] at hmin hmax
  exact adjust_no_output_guard _ _ _ _ _ _ _ _ _ _ amt hpos hlt hmin hmax

theorem gabBalances_snd_funder (chan vth : Nat) (dirs : List HTLCAmountDirection) (ty : ChanType)
    (hv : vth ≤ chan * 1000) :
    (gabBalances true chan vth dirs ty).2 = chan * 1000 - vth - inSum dirs := by
  unfold gabBalances
  rw [ssf_eq]
  simp [chkSub, hv]
/-! ### the peer's view of the same commitment -/

/-- the same HTLC as the other party sees it -/
def flipDir (h : HTLCAmountDirection) : HTLCAmountDirection := { h with outbound := !h.outbound }

theorem outSum_flip (dirs : List HTLCAmountDirection) : outSum (dirs.map flipDir) = inSum dirs := by
  unfold outSum inSum
  induction dirs with
  | nil => rfl
  | cons h t ih => cases hh : h.outbound <;> simp [flipDir, hh] at ih ⊢ <;> omega

theorem inSum_flip (dirs : List HTLCAmountDirection) : inSum (dirs.map flipDir) = outSum dirs := by
  unfold outSum inSum
  induction dirs with
  | nil => rfl
  | cons h t ih => cases hh : h.outbound <;> simp [flipDir, hh] at ih ⊢ <;> omega

theorem is_dust_flip (h : HTLCAmountDirection) (l : Bool) (f d : Nat) (ty : ChanType) :
    is_dust (flipDir h) (!l) f d ty = is_dust h l f d ty := by
  rw [is_dust_eq, is_dust_eq]
  cases hh : h.outbound <;> cases l <;> simp [flipDir, hh]

theorem nondustCount_flip (l : Bool) (f d : Nat) (ty : ChanType) (dirs : List HTLCAmountDirection) :
    nondustCount (!l) f d ty (dirs.map flipDir) = nondustCount l f d ty dirs := by
  unfold nondustCount
  induction dirs with
  | nil => rfl
  | cons h t ih =>
    have := is_dust_flip h l f d ty
    cases hh : is_dust h l f d ty <;> simp [List.filter, hh, this] at ih ⊢ <;> omega

theorem csf_swap (fu : Bool) (a b c x y : Nat) (h : checked_sub_from_funder fu a b c = some (x, y)) :
    checked_sub_from_funder (!fu) b a c = some (y, x) := by
  rw [csf_some] at h ⊢
  cases fu <;> simp_all

theorem has_output_swap (fu : Bool) (hb cb f n d : Nat) (ty : ChanType) :
    has_output (!fu) cb hb f n d ty = has_output fu hb cb f n d ty := by
  rw [Bool.eq_iff_iff, has_output_iff, has_output_iff]
  cases fu <;> cases ty.zeroFee <;> simp <;> omega

/-- the balances computed by `get_next_commitment_stats` do not depend on whose node runs it: the peer,
    looking at the same commitment (`!l` from its side) with the same HTLCs (directions flipped) and its
    own `value_to_self`, obtains the same two balances, swapped -/
theorem stats_swap (l fu : Bool) (chan vth : Nat) (dirs : List HTLCAmountDirection) (addl f : Nat)
    (spike : Bool) (lim : Option Nat) (dust : Nat) (ty : ChanType) (s : NextCommitmentStats)
    (h : get_next_commitment_stats l fu chan vth dirs addl f spike lim dust ty = some s) :
    ∃ s', get_next_commitment_stats (!l) (!fu) chan (chan * 1000 - vth) (dirs.map flipDir) addl f spike lim
        dust ty = some s' ∧
      s'.holder_balance_msat = s.counterparty_balance_msat ∧
      s'.counterparty_balance_msat = s.holder_balance_msat := by
  obtain ⟨h1, h2, h3, hb, cb, h4, h5, h6, -⟩ := stats_inv _ _ _ _ _ _ _ _ _ _ _ _ h
  have e : chan * 1000 - (chan * 1000 - vth) = vth := by omega
  refine ⟨_, stats_intro (!l) (!fu) chan (chan * 1000 - vth) (dirs.map flipDir) addl f spike lim dust ty
    cb hb s.counterparty_balance_msat s.holder_balance_msat (by omega) ?_ ?_ ?_ ?_ ?_, rfl, rfl⟩
  · rw [outSum_flip]; exact h3
  · rw [inSum_flip, e]; exact h2
  · rw [outSum_flip, inSum_flip, e]; exact csf_swap _ _ _ _ _ _ h4
  · rw [nondustCount_flip, has_output_swap]; exact h5
  · rw [nondustCount_flip]; exact csf_swap _ _ _ _ _ _ h6
end Ldk.TxB
