import LdkModel.Model.ChanForget
/-! helper lemmas for the C12 forget-table theorems (Props/C12).  Every per-variant fact is a `cases <;> decide` over the
    TRANSLATED tables: a changed arm of FundedChannel::write / ::read / remove_uncommitted_htlcs_and_mark_paused breaks it. -/
set_option linter.unusedSimpArgs false
namespace Ldk.ChanForget
open Gen

/-- writer and reader agree with the in-memory `retain`: a variant is either skipped by the writer and dropped in memory, or
    written with a byte the reader maps back to it and kept in memory -/
theorem in_tag_rt (s : InSt) :
    match wInTag s with
    | none => mKeep s = false
    | some t => rInTag t = some s ∧ mKeep s = true := by cases s <;> simp [wInTag, rInTag, mKeep]

theorem in_counted (s : InSt) : wCounted s = !mKeep s ∧ mCounted s = !mKeep s := by cases s <;> decide
theorem keep_iff (s : InSt) : mKeep s = true ↔ s ≠ .remoteAnnounced := by cases s <;> decide
theorem out_tag_rt (s : OutSt) : rOutTag (wOutTag s) = some (mOutReset s) := by cases s <;> decide
theorem out_reset_idem (s : OutSt) : mOutReset (mOutReset s) = mOutReset s := by cases s <;> decide
theorem out_tag_reset (s : OutSt) : wOutTag (mOutReset s) = wOutTag s := by cases s <;> decide
theorem flags : wCountMinusDropped = true ∧ wNextIdMinusDropped = true ∧ mNextIdMinusDropped = true := by decide

theorem fee_rt (ob : Bool) (fee : Option (Nat × FeeSt))
    (h : match fee with | some (_, s) => (ob = true ↔ s = .outbound) | none => True) :
    rFee ob (wFee ob fee) = forgetFee fee := by
  cases fee with
  | none => cases ob <;> rfl
  | some p =>
    obtain ⟨f, s⟩ := p
    cases ob <;> cases s <;> simp_all [rFee, wFee, forgetFee, mFeeDrop]

theorem forgetFee_idem (fee : Option (Nat × FeeSt)) : forgetFee (forgetFee fee) = forgetFee fee := by
  cases fee with
  | none => rfl
  | some p => obtain ⟨f, s⟩ := p; cases s <;> simp [forgetFee, mFeeDrop]

theorem wFee_forget (ob : Bool) (fee : Option (Nat × FeeSt))
    (h : match fee with | some (_, s) => (ob = true ↔ s = .outbound) | none => True) :
    wFee ob (forgetFee fee) = wFee ob fee := by
  cases fee with
  | none => rfl
  | some p => obtain ⟨f, s⟩ := p; cases ob <;> cases s <;> simp_all [wFee, forgetFee, mFeeDrop]

theorem mapOpt_in (l : List (Nat × InSt)) :
    mapOpt (fun h : Nat × Nat => (rInTag h.2).map (fun s => (h.1, s))) (l.filterMap (fun h => (wInTag h.2).map (fun t => (h.1, t))))
      = some (l.filter (fun h => mKeep h.2)) := by
  induction l with
  | nil => rfl
  | cons a l ih =>
    obtain ⟨i, s⟩ := a
    have h := in_tag_rt s
    cases hs : wInTag s with
    | none => rw [hs] at h; simp [List.filterMap_cons, hs, List.filter_cons, h, ih]
    | some t => rw [hs] at h; simp [List.filterMap_cons, hs, List.filter_cons, h.1, h.2, mapOpt, ih]

theorem mapOpt_out (l : List (Nat × OutSt)) :
    mapOpt (fun h : Nat × Nat => (rOutTag h.2).map (fun s => (h.1, s))) (l.map (fun h => (h.1, wOutTag h.2)))
      = some (l.map (fun h => (h.1, mOutReset h.2))) := by
  induction l with
  | nil => rfl
  | cons a l ih => simp [mapOpt, out_tag_rt, ih]

theorem filterMap_len (l : List (Nat × InSt)) :
    (l.filterMap (fun h => (wInTag h.2).map (fun t => (h.1, t)))).length = (l.filter (fun h => mKeep h.2)).length := by
  induction l with
  | nil => rfl
  | cons a l ih =>
    obtain ⟨i, s⟩ := a
    have h := in_tag_rt s
    cases hs : wInTag s with
    | none => rw [hs] at h; simp [List.filterMap_cons, hs, List.filter_cons, h, ih]
    | some t => rw [hs] at h; simp [List.filterMap_cons, hs, List.filter_cons, h.2, ih]

theorem dropped_eq (l : List (Nat × InSt)) : dropped l = (l.filter (fun h => !mKeep h.2)).length := by
  unfold dropped; congr 1; apply List.filter_congr; intro h _; exact (in_counted h.2).1

theorem counted_eq (l : List (Nat × InSt)) : (l.filter (fun h => mCounted h.2)).length = dropped l := by
  rw [dropped_eq]; congr 1; apply List.filter_congr; intro h _; exact (in_counted h.2).2

theorem len_split (l : List (Nat × InSt)) :
    l.length = (l.filter (fun h => mKeep h.2)).length + (l.filter (fun h => !mKeep h.2)).length := by
  induction l with
  | nil => rfl
  | cons a l ih => cases hk : mKeep a.2 <;> simp [List.filter_cons, hk] <;> omega

theorem dropped_kept (l : List (Nat × InSt)) : dropped (l.filter (fun h => mKeep h.2)) = 0 := by
  rw [dropped_eq, List.filter_filter]; simp

theorem filter_keep_idem (l : List (Nat × InSt)) : (l.filter (fun h => mKeep h.2)).filter (fun h => mKeep h.2) = l.filter (fun h => mKeep h.2) := by
  rw [List.filter_filter]; simp

theorem filterMap_kept (l : List (Nat × InSt)) :
    (l.filter (fun h => mKeep h.2)).filterMap (fun h => (wInTag h.2).map (fun t => (h.1, t))) = l.filterMap (fun h => (wInTag h.2).map (fun t => (h.1, t))) := by
  induction l with
  | nil => rfl
  | cons a l ih =>
    obtain ⟨i, s⟩ := a
    have h := in_tag_rt s
    cases hs : wInTag s with
    | none => rw [hs] at h; simp [List.filterMap_cons, hs, List.filter_cons, h, ih]
    | some t => rw [hs] at h; simp [List.filterMap_cons, hs, List.filter_cons, h.2, ih]

/-- the retransmitted adds are accepted one after the other when they start at the expected id -/
theorem recvAll_adds (k : Nat) : ∀ (c : Chan) (tail : List Msg),
    recvAll c ((List.range' c.nextCp k).map Msg.add ++ tail) =
      recvAll { c with inb := c.inb ++ (List.range' c.nextCp k).map (fun i => (i, InSt.remoteAnnounced)), nextCp := c.nextCp + k } tail := by
  induction k with
  | zero => intro c tail; simp
  | succ k ih =>
    intro c tail
    rw [List.range'_succ]
    simp only [List.map_cons, List.cons_append, recvAll, recv, ne_eq, not_true_eq_false, if_false]
    rw [show c.nextCp + 1 = ({ c with inb := c.inb ++ [(c.nextCp, InSt.remoteAnnounced)], nextCp := c.nextCp + 1 } : Chan).nextCp from rfl, ih]
    simp [List.append_assoc, Nat.add_assoc, Nat.add_comm 1 k]

end Ldk.ChanForget
