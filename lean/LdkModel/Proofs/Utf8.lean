import LdkModel.Model.MsgSchemasHand
import LdkModel.Model.Int64
import LdkModel.Proofs.Codec
/-!
  Proofs/Utf8.lean — (1) `i64` wire codec round trips (Model/Int64.lean);
  (2) the byte-level UTF-8 automaton `Hand.validUtf8` (Model/MsgSchemasHand.lean) accepts EXACTLY the
  well-formed UTF-8 byte sequences of the Unicode Standard, Table 3-7, stated declaratively as the inductive
  predicate `WellFormedUtf8`.  Core only (no Mathlib).
-/
namespace Ldk.Codec

/-! ## i64 (two's complement, 8 big-endian bytes) -/

theorem i64OfBits_range (n : Nat) (h : n < 2 ^ 64) : -2 ^ 63 ≤ i64OfBits n ∧ i64OfBits n < 2 ^ 63 := by
  unfold i64OfBits
  split <;> omega

theorem i64_bits_roundtrip (n : Nat) (h : n < 2 ^ 64) : bitsOfI64 (i64OfBits n) = n := by
  unfold bitsOfI64 i64OfBits
  split <;> omega

theorem bitsOfI64_lt (i : Int) : bitsOfI64 i < 2 ^ 64 := by
  unfold bitsOfI64
  omega

theorem i64_of_bits_roundtrip (i : Int) (h : -2 ^ 63 ≤ i ∧ i < 2 ^ 63) : i64OfBits (bitsOfI64 i) = i := by
  unfold bitsOfI64 i64OfBits
  split <;> omega

theorem encodeI64_length (i : Int) : (encodeI64 i).length = 8 := beEncode_length 8 _

theorem i64_roundtrip (i : Int) (h : -2 ^ 63 ≤ i ∧ i < 2 ^ 63) (r : Bytes) :
    readI64 (encodeI64 i ++ r) = .ok (i, r) := by
  have hb := bitsOfI64_lt i
  have hm : bitsOfI64 i % 256 ^ 8 = bitsOfI64 i := Nat.mod_eq_of_lt (by omega)
  simp only [readI64, encodeI64, readUint_encode, hm, i64_of_bits_roundtrip i h]

/-- a successful read consumed exactly `encodeI64` of its (in-range) result -/
theorem readI64_canonical {b r : Bytes} {i : Int} (h : readI64 b = .ok (i, r)) :
    (-2 ^ 63 ≤ i ∧ i < 2 ^ 63) ∧ b = encodeI64 i ++ r := by
  unfold readI64 at h
  split at h
  · cases h
  · rename_i n r' hr
    simp only [Except.ok.injEq, Prod.mk.injEq] at h
    obtain ⟨hi, hrr⟩ := h
    subst hi; subst hrr
    obtain ⟨hb, hn⟩ := readUint_ok hr
    have hn' : n < 2 ^ 64 := by omega
    refine ⟨i64OfBits_range n hn', ?_⟩
    rw [encodeI64, i64_bits_roundtrip n hn']
    exact hb

theorem readI64_short {b : Bytes} (h : b.length < 8) : readI64 b = .error .ShortRead := by
  simp [readI64, readUint, h]

/-! ## Well-formed UTF-8 (Unicode Standard, Table 3-7 "Well-Formed UTF-8 Byte Sequences") -/

/-- One constructor per row of Table 3-7: a well-formed byte sequence for one scalar value followed by a
    well-formed rest. -/
inductive WellFormedUtf8 : Bytes → Prop
  | nil : WellFormedUtf8 []
  /-- U+0000..U+007F : 00..7F -/
  | ascii (a : UInt8) (r : Bytes) : a.toNat ≤ 0x7F → WellFormedUtf8 r → WellFormedUtf8 (a :: r)
  /-- U+0080..U+07FF : C2..DF 80..BF -/
  | two (a b : UInt8) (r : Bytes) : 0xC2 ≤ a.toNat → a.toNat ≤ 0xDF → 0x80 ≤ b.toNat → b.toNat ≤ 0xBF →
      WellFormedUtf8 r → WellFormedUtf8 (a :: b :: r)
  /-- U+0800..U+0FFF : E0 A0..BF 80..BF -/
  | threeE0 (a b c : UInt8) (r : Bytes) : a.toNat = 0xE0 → 0xA0 ≤ b.toNat → b.toNat ≤ 0xBF →
      0x80 ≤ c.toNat → c.toNat ≤ 0xBF → WellFormedUtf8 r → WellFormedUtf8 (a :: b :: c :: r)
  /-- U+1000..U+CFFF : E1..EC 80..BF 80..BF -/
  | threeE1 (a b c : UInt8) (r : Bytes) : 0xE1 ≤ a.toNat → a.toNat ≤ 0xEC → 0x80 ≤ b.toNat → b.toNat ≤ 0xBF →
      0x80 ≤ c.toNat → c.toNat ≤ 0xBF → WellFormedUtf8 r → WellFormedUtf8 (a :: b :: c :: r)
  /-- U+D000..U+D7FF : ED 80..9F 80..BF -/
  | threeED (a b c : UInt8) (r : Bytes) : a.toNat = 0xED → 0x80 ≤ b.toNat → b.toNat ≤ 0x9F →
      0x80 ≤ c.toNat → c.toNat ≤ 0xBF → WellFormedUtf8 r → WellFormedUtf8 (a :: b :: c :: r)
  /-- U+E000..U+FFFF : EE..EF 80..BF 80..BF -/
  | threeEE (a b c : UInt8) (r : Bytes) : 0xEE ≤ a.toNat → a.toNat ≤ 0xEF → 0x80 ≤ b.toNat → b.toNat ≤ 0xBF →
      0x80 ≤ c.toNat → c.toNat ≤ 0xBF → WellFormedUtf8 r → WellFormedUtf8 (a :: b :: c :: r)
  /-- U+10000..U+3FFFF : F0 90..BF 80..BF 80..BF -/
  | fourF0 (a b c d : UInt8) (r : Bytes) : a.toNat = 0xF0 → 0x90 ≤ b.toNat → b.toNat ≤ 0xBF →
      0x80 ≤ c.toNat → c.toNat ≤ 0xBF → 0x80 ≤ d.toNat → d.toNat ≤ 0xBF →
      WellFormedUtf8 r → WellFormedUtf8 (a :: b :: c :: d :: r)
  /-- U+40000..U+FFFFF : F1..F3 80..BF 80..BF 80..BF -/
  | fourF1 (a b c d : UInt8) (r : Bytes) : 0xF1 ≤ a.toNat → a.toNat ≤ 0xF3 → 0x80 ≤ b.toNat → b.toNat ≤ 0xBF →
      0x80 ≤ c.toNat → c.toNat ≤ 0xBF → 0x80 ≤ d.toNat → d.toNat ≤ 0xBF →
      WellFormedUtf8 r → WellFormedUtf8 (a :: b :: c :: d :: r)
  /-- U+100000..U+10FFFF : F4 80..8F 80..BF 80..BF -/
  | fourF4 (a b c d : UInt8) (r : Bytes) : a.toNat = 0xF4 → 0x80 ≤ b.toNat → b.toNat ≤ 0x8F →
      0x80 ≤ c.toNat → c.toNat ≤ 0xBF → 0x80 ≤ d.toNat → d.toNat ≤ 0xBF →
      WellFormedUtf8 r → WellFormedUtf8 (a :: b :: c :: d :: r)

/-- What the automaton state `⟨need, lo, hi⟩` still expects: `need` continuation bytes, the first in `[lo, hi]`,
    the others in `[80, BF]`, then a well-formed string. -/
def Utf8Pending : Nat → Nat → Nat → Bytes → Prop
  | 0, _, _, b => WellFormedUtf8 b
  | _ + 1, _, _, [] => False
  | k + 1, lo, hi, x :: r => lo ≤ x.toNat ∧ x.toNat ≤ hi ∧ Utf8Pending k 0x80 0xBF r

theorem utf8Pending_zero (lo hi : Nat) (b : Bytes) : Utf8Pending 0 lo hi b ↔ WellFormedUtf8 b := by
  cases b <;> exact Iff.rfl

theorem utf8Pending_succ_nil (k lo hi : Nat) : ¬ Utf8Pending (k + 1) lo hi [] := fun h => h

theorem utf8Pending_succ_cons (k lo hi : Nat) (x : UInt8) (r : Bytes) :
    Utf8Pending (k + 1) lo hi (x :: r) ↔ lo ≤ x.toNat ∧ x.toNat ≤ hi ∧ Utf8Pending k 0x80 0xBF r := Iff.rfl

/-- `Utf8Pending` in existential form: `b = tail ++ rest` with the tail of the stated shape. -/
theorem utf8Pending_succ_iff (k lo hi : Nat) (b : Bytes) :
    Utf8Pending (k + 1) lo hi b ↔
      ∃ x r, b = x :: r ∧ lo ≤ x.toNat ∧ x.toNat ≤ hi ∧ Utf8Pending k 0x80 0xBF r := by
  cases b with
  | nil => exact ⟨fun h => h.elim, fun ⟨_, _, h, _⟩ => by cases h⟩
  | cons y r =>
    exact ⟨fun h => ⟨y, r, rfl, h⟩, fun ⟨_, _, he, h⟩ => by cases he; exact h⟩

/-! ### the automaton, from an arbitrary state -/

open Hand

/-- acceptance of `b` from state `st` (`validUtf8` is the case `st = some ⟨0,0,0⟩`) -/
def utf8Acc (st : Option Utf8St) (b : Bytes) : Bool :=
  match b.foldl utf8Step st with
  | some s => s.need == 0
  | none => false

theorem validUtf8_eq_acc (b : Bytes) : validUtf8 b = utf8Acc (some ⟨0, 0, 0⟩) b := rfl

theorem utf8Acc_cons (st : Option Utf8St) (x : UInt8) (b : Bytes) :
    utf8Acc st (x :: b) = utf8Acc (utf8Step st x) b := rfl

theorem utf8Acc_none (b : Bytes) : utf8Acc none b = false := by
  induction b with
  | nil => rfl
  | cons x r ih => rw [utf8Acc_cons]; exact ih

/-- the lead-byte dispatch of `utf8Step` (state with `need = 0`) -/
def utf8Lead (x : Nat) : Option Utf8St :=
  if x < 0x80 then some ⟨0, 0, 0⟩
  else if 0xC2 ≤ x ∧ x ≤ 0xDF then some ⟨1, 0x80, 0xBF⟩
  else if x = 0xE0 then some ⟨2, 0xA0, 0xBF⟩
  else if x = 0xED then some ⟨2, 0x80, 0x9F⟩
  else if 0xE1 ≤ x ∧ x ≤ 0xEF then some ⟨2, 0x80, 0xBF⟩
  else if x = 0xF0 then some ⟨3, 0x90, 0xBF⟩
  else if 0xF1 ≤ x ∧ x ≤ 0xF3 then some ⟨3, 0x80, 0xBF⟩
  else if x = 0xF4 then some ⟨3, 0x80, 0x8F⟩
  else none

theorem utf8Step_zero (lo hi : Nat) (x : UInt8) : utf8Step (some ⟨0, lo, hi⟩) x = utf8Lead x.toNat := by
  simp only [utf8Step, utf8Lead, if_true]

theorem utf8Step_succ (k lo hi : Nat) (x : UInt8) :
    utf8Step (some ⟨k + 1, lo, hi⟩) x =
      if lo ≤ x.toNat ∧ x.toNat ≤ hi then some ⟨k, 0x80, 0xBF⟩ else none := by
  simp only [utf8Step, Nat.add_one_ne_zero, if_false, Nat.add_sub_cancel]

/-! ### inversion of `WellFormedUtf8 (x :: r)` by lead byte -/

theorem wf_cons_inv {x : UInt8} {r : Bytes} (h : WellFormedUtf8 (x :: r)) :
    (x.toNat ≤ 0x7F ∧ Utf8Pending 0 0 0 r) ∨
    ((0xC2 ≤ x.toNat ∧ x.toNat ≤ 0xDF) ∧ Utf8Pending 1 0x80 0xBF r) ∨
    (x.toNat = 0xE0 ∧ Utf8Pending 2 0xA0 0xBF r) ∨
    ((0xE1 ≤ x.toNat ∧ x.toNat ≤ 0xEC) ∧ Utf8Pending 2 0x80 0xBF r) ∨
    (x.toNat = 0xED ∧ Utf8Pending 2 0x80 0x9F r) ∨
    ((0xEE ≤ x.toNat ∧ x.toNat ≤ 0xEF) ∧ Utf8Pending 2 0x80 0xBF r) ∨
    (x.toNat = 0xF0 ∧ Utf8Pending 3 0x90 0xBF r) ∨
    ((0xF1 ≤ x.toNat ∧ x.toNat ≤ 0xF3) ∧ Utf8Pending 3 0x80 0xBF r) ∨
    (x.toNat = 0xF4 ∧ Utf8Pending 3 0x80 0x8F r) := by
  cases h with
  | ascii _ _ h1 hw => exact .inl ⟨h1, (utf8Pending_zero _ _ _).2 hw⟩
  | two _ b r h1 h2 h3 h4 hw =>
    exact .inr (.inl ⟨⟨h1, h2⟩, h3, h4, (utf8Pending_zero _ _ _).2 hw⟩)
  | threeE0 _ b c r h1 h3 h4 h5 h6 hw =>
    exact .inr (.inr (.inl ⟨h1, h3, h4, h5, h6, (utf8Pending_zero _ _ _).2 hw⟩))
  | threeE1 _ b c r h1 h2 h3 h4 h5 h6 hw =>
    exact .inr (.inr (.inr (.inl ⟨⟨h1, h2⟩, h3, h4, h5, h6, (utf8Pending_zero _ _ _).2 hw⟩)))
  | threeED _ b c r h1 h3 h4 h5 h6 hw =>
    exact .inr (.inr (.inr (.inr (.inl ⟨h1, h3, h4, h5, h6, (utf8Pending_zero _ _ _).2 hw⟩))))
  | threeEE _ b c r h1 h2 h3 h4 h5 h6 hw =>
    exact .inr (.inr (.inr (.inr (.inr (.inl ⟨⟨h1, h2⟩, h3, h4, h5, h6, (utf8Pending_zero _ _ _).2 hw⟩)))))
  | fourF0 _ b c d r h1 h3 h4 h5 h6 h7 h8 hw =>
    exact .inr (.inr (.inr (.inr (.inr (.inr (.inl
      ⟨h1, h3, h4, h5, h6, h7, h8, (utf8Pending_zero _ _ _).2 hw⟩))))))
  | fourF1 _ b c d r h1 h2 h3 h4 h5 h6 h7 h8 hw =>
    exact .inr (.inr (.inr (.inr (.inr (.inr (.inr (.inl
      ⟨⟨h1, h2⟩, h3, h4, h5, h6, h7, h8, (utf8Pending_zero _ _ _).2 hw⟩)))))))
  | fourF4 _ b c d r h1 h3 h4 h5 h6 h7 h8 hw =>
    exact .inr (.inr (.inr (.inr (.inr (.inr (.inr (.inr
      ⟨h1, h3, h4, h5, h6, h7, h8, (utf8Pending_zero _ _ _).2 hw⟩)))))))

/-! ### one introduction lemma per row, from the pending form -/

theorem wf_of_pending1 {x : UInt8} {r : Bytes} (h1 : 0xC2 ≤ x.toNat) (h2 : x.toNat ≤ 0xDF)
    (h : Utf8Pending 1 0x80 0xBF r) : WellFormedUtf8 (x :: r) :=
  match r, h with
  | b :: r, ⟨h3, h4, hw⟩ => .two x b r h1 h2 h3 h4 ((utf8Pending_zero _ _ _).1 hw)

theorem pending2_inv {lo hi : Nat} {r : Bytes} (h : Utf8Pending 2 lo hi r) :
    ∃ b c r', r = b :: c :: r' ∧ lo ≤ b.toNat ∧ b.toNat ≤ hi ∧ 0x80 ≤ c.toNat ∧ c.toNat ≤ 0xBF ∧
      WellFormedUtf8 r' :=
  match r, h with
  | b :: c :: r', ⟨h3, h4, h5, h6, hw⟩ => ⟨b, c, r', rfl, h3, h4, h5, h6, (utf8Pending_zero _ _ _).1 hw⟩

theorem pending3_inv {lo hi : Nat} {r : Bytes} (h : Utf8Pending 3 lo hi r) :
    ∃ b c d r', r = b :: c :: d :: r' ∧ lo ≤ b.toNat ∧ b.toNat ≤ hi ∧ 0x80 ≤ c.toNat ∧ c.toNat ≤ 0xBF ∧
      0x80 ≤ d.toNat ∧ d.toNat ≤ 0xBF ∧ WellFormedUtf8 r' :=
  match r, h with
  | b :: c :: d :: r', ⟨h3, h4, h5, h6, h7, h8, hw⟩ =>
    ⟨b, c, d, r', rfl, h3, h4, h5, h6, h7, h8, (utf8Pending_zero _ _ _).1 hw⟩

/-- the key step: after a lead byte `x`, the rest is accepted-shaped for the state `utf8Lead x` iff `x :: r` is
    well formed -/
theorem wf_cons_iff_lead (x : UInt8) (r : Bytes) :
    WellFormedUtf8 (x :: r) ↔
      match utf8Lead x.toNat with
      | some s => Utf8Pending s.need s.lo s.hi r
      | none => False := by
  constructor
  · intro h
    have hi := wf_cons_inv h
    unfold utf8Lead
    split
    · rename_i s hs
      repeat' split at hs
      all_goals cases hs
      all_goals
        rcases hi with hi | hi | hi | hi | hi | hi | hi | hi | hi <;>
          first | exact hi.2 | (exfalso; omega)
    · rename_i hs
      repeat' split at hs
      all_goals first | cases hs | skip
      rcases hi with hi | hi | hi | hi | hi | hi | hi | hi | hi <;> omega
  · unfold utf8Lead
    intro h
    split at h
    · rename_i s hs
      repeat' split at hs
      all_goals cases hs
      · exact .ascii x r (by omega) ((utf8Pending_zero _ _ _).1 h)
      · exact wf_of_pending1 (by omega) (by omega) h
      · obtain ⟨b, c, r', rfl, h3, h4, h5, h6, hw⟩ := pending2_inv h
        exact .threeE0 x b c r' (by omega) h3 h4 h5 h6 hw
      · obtain ⟨b, c, r', rfl, h3, h4, h5, h6, hw⟩ := pending2_inv h
        exact .threeED x b c r' (by omega) h3 h4 h5 h6 hw
      · obtain ⟨b, c, r', rfl, h3, h4, h5, h6, hw⟩ := pending2_inv h
        by_cases hc : x.toNat ≤ 0xEC
        · exact .threeE1 x b c r' (by omega) hc h3 h4 h5 h6 hw
        · exact .threeEE x b c r' (by omega) (by omega) h3 h4 h5 h6 hw
      · obtain ⟨b, c, d, r', rfl, h3, h4, h5, h6, h7, h8, hw⟩ := pending3_inv h
        exact .fourF0 x b c d r' (by omega) h3 h4 h5 h6 h7 h8 hw
      · obtain ⟨b, c, d, r', rfl, h3, h4, h5, h6, h7, h8, hw⟩ := pending3_inv h
        exact .fourF1 x b c d r' (by omega) (by omega) h3 h4 h5 h6 h7 h8 hw
      · obtain ⟨b, c, d, r', rfl, h3, h4, h5, h6, h7, h8, hw⟩ := pending3_inv h
        exact .fourF4 x b c d r' (by omega) h3 h4 h5 h6 h7 h8 hw
    · exact h.elim

/-! ### the automaton accepts from state `⟨need, lo, hi⟩` iff the input is a pending tail + well-formed rest -/

theorem utf8Acc_iff (b : Bytes) : ∀ need lo hi : Nat,
    utf8Acc (some ⟨need, lo, hi⟩) b = true ↔ Utf8Pending need lo hi b := by
  induction b with
  | nil =>
    intro need lo hi
    cases need with
    | zero => exact ⟨fun _ => .nil, fun _ => rfl⟩
    | succ k => exact ⟨fun h => (by cases h), fun h => h.elim⟩
  | cons x r ih =>
    intro need lo hi
    rw [utf8Acc_cons]
    cases need with
    | succ k =>
      rw [utf8Step_succ, utf8Pending_succ_cons]
      split
      · rename_i hc
        rw [ih]
        exact ⟨fun h => ⟨hc.1, hc.2, h⟩, fun h => h.2.2⟩
      · rename_i hc
        rw [utf8Acc_none]
        exact ⟨fun h => (by cases h), fun h => (hc ⟨h.1, h.2.1⟩).elim⟩
    | zero =>
      rw [utf8Step_zero, utf8Pending_zero, wf_cons_iff_lead]
      cases utf8Lead x.toNat with
      | none => rw [utf8Acc_none]; exact ⟨fun h => (by cases h), fun h => h.elim⟩
      | some s => exact ih s.need s.lo s.hi

/-- `Hand.validUtf8` (the model of `String::from_utf8(..).is_ok()`) accepts exactly the well-formed UTF-8 byte
    sequences of Unicode Table 3-7, for all byte strings. -/
theorem validUtf8_iff (b : Bytes) : Hand.validUtf8 b = true ↔ WellFormedUtf8 b := by
  rw [validUtf8_eq_acc, utf8Acc_iff, utf8Pending_zero]

/-! ### corollaries -/

theorem wellFormedUtf8_append {a b : Bytes} (ha : WellFormedUtf8 a) (hb : WellFormedUtf8 b) :
    WellFormedUtf8 (a ++ b) := by
  induction ha with
  | nil => exact hb
  | ascii a r h1 _ ih => exact .ascii a _ h1 ih
  | two a b r h1 h2 h3 h4 _ ih => exact .two a b _ h1 h2 h3 h4 ih
  | threeE0 a b c r h1 h3 h4 h5 h6 _ ih => exact .threeE0 a b c _ h1 h3 h4 h5 h6 ih
  | threeE1 a b c r h1 h2 h3 h4 h5 h6 _ ih => exact .threeE1 a b c _ h1 h2 h3 h4 h5 h6 ih
  | threeED a b c r h1 h3 h4 h5 h6 _ ih => exact .threeED a b c _ h1 h3 h4 h5 h6 ih
  | threeEE a b c r h1 h2 h3 h4 h5 h6 _ ih => exact .threeEE a b c _ h1 h2 h3 h4 h5 h6 ih
  | fourF0 a b c d r h1 h3 h4 h5 h6 h7 h8 _ ih => exact .fourF0 a b c d _ h1 h3 h4 h5 h6 h7 h8 ih
  | fourF1 a b c d r h1 h2 h3 h4 h5 h6 h7 h8 _ ih => exact .fourF1 a b c d _ h1 h2 h3 h4 h5 h6 h7 h8 ih
  | fourF4 a b c d r h1 h3 h4 h5 h6 h7 h8 _ ih => exact .fourF4 a b c d _ h1 h3 h4 h5 h6 h7 h8 ih

theorem validUtf8_append {a b : Bytes} (ha : Hand.validUtf8 a = true) (hb : Hand.validUtf8 b = true) :
    Hand.validUtf8 (a ++ b) = true :=
  (validUtf8_iff _).2 (wellFormedUtf8_append ((validUtf8_iff _).1 ha) ((validUtf8_iff _).1 hb))

end Ldk.Codec
