/- Helper lemmas for the BOLT-11 codec theorems (C18): base-32 integers, tagged-field framing. -/
import LdkModel.Model.Bolt11
namespace Ldk.Bolt11
open Ldk.Prim.Bech32

/-! ### base-32 integers -/

theorem foldl_be (d : List U5) (a : Nat) :
    d.foldl (fun a b => a * 32 + b.toNat) a = a * 32 ^ d.length + parseIntBe d := by
  unfold parseIntBe
  induction d generalizing a with
  | nil => simp
  | cons x xs ih =>
    simp only [List.foldl_cons, List.length_cons]
    rw [ih (a * 32 + x.toNat), ih (0 * 32 + x.toNat)]
    simp only [Nat.zero_mul, Nat.zero_add, Nat.pow_succ]
    rw [Nat.add_mul, Nat.add_assoc]
    congr 1
    rw [Nat.mul_assoc, Nat.mul_comm 32]

theorem parseIntBe_cons (x : U5) (xs : List U5) :
    parseIntBe (x :: xs) = x.toNat * 32 ^ xs.length + parseIntBe xs := by
  have := foldl_be xs (0 * 32 + x.toNat)
  simpa [parseIntBe] using this

theorem parseIntBe_zeros (m : Nat) (d : List U5) : parseIntBe (List.replicate m 0 ++ d) = parseIntBe d := by
  induction m with
  | zero => simp
  | succ k ih =>
    rw [List.replicate_succ, List.cons_append, parseIntBe_cons, ih]
    simp

theorem ofNat_mod32_toNat (n : Nat) : (UInt8.ofNat (n % 32)).toNat = n % 32 := by
  rw [UInt8.toNat_ofNat']
  omega

theorem encodeIntBeAux_spec : ∀ (fuel n : Nat) (acc : List U5), n < fuel →
    parseIntBe (encodeIntBeAux fuel n acc) = n * 32 ^ acc.length + parseIntBe acc
  | 0, _, _, h => by omega
  | fuel + 1, n, acc, h => by
    unfold encodeIntBeAux
    by_cases h0 : n = 0
    · simp [h0]
    · simp only [h0, ↓reduceIte]
      rw [encodeIntBeAux_spec fuel (n / 32) _ (by omega)]
      simp only [List.length_cons, parseIntBe_cons, ofNat_mod32_toNat, Nat.pow_succ]
      have : n = n / 32 * 32 + n % 32 := by omega
      generalize 32 ^ acc.length = P
      generalize parseIntBe acc = Q
      calc n / 32 * (P * 32) + (n % 32 * P + Q) = (n / 32 * 32 + n % 32) * P + Q := by
              rw [Nat.add_mul, Nat.mul_comm P 32, ← Nat.mul_assoc, Nat.add_assoc]
        _ = n * P + Q := by rw [← this]

theorem parseIntBe_encodeIntBe (n : Nat) : parseIntBe (encodeIntBe n) = n := by
  unfold encodeIntBe
  rw [encodeIntBeAux_spec _ _ _ (by omega)]
  simp [parseIntBe]

theorem encodeIntBeAux_length : ∀ (fuel n k : Nat) (acc : List U5), n < 32 ^ k →
    (encodeIntBeAux fuel n acc).length ≤ k + acc.length
  | 0, _, _, _, _ => by simp [encodeIntBeAux]
  | fuel + 1, n, k, acc, h => by
    unfold encodeIntBeAux
    by_cases h0 : n = 0
    · simp [h0]
    · simp only [h0, ↓reduceIte]
      match k, h with
      | 0, h => simp at h; omega
      | k + 1, h =>
        have : n / 32 < 32 ^ k := by
          rw [Nat.pow_succ] at h
          exact Nat.div_lt_of_lt_mul (by rw [Nat.mul_comm]; exact h)
        have := encodeIntBeAux_length fuel (n / 32) k (UInt8.ofNat (n % 32) :: acc) this
        simp only [List.length_cons] at this
        omega

theorem encodeTimestamp_length (t : Nat) (h : t < 2 ^ 35) : (encodeTimestamp t).length = 7 := by
  unfold encodeTimestamp
  have : (encodeIntBe t).length ≤ 7 := by
    have := encodeIntBeAux_length (t + 1) t 7 [] (by simpa using h)
    simpa [encodeIntBe] using this
  simp; omega

theorem parseIntBe_encodeTimestamp (t : Nat) : parseIntBe (encodeTimestamp t) = t := by
  unfold encodeTimestamp
  rw [parseIntBe_zeros, parseIntBe_encodeIntBe]

/-! ### tagged-field framing -/

theorem len_syms (n : Nat) (h : n < 1024) :
    (UInt8.ofNat (n / 32)).toNat * 32 + (UInt8.ofNat (n % 32)).toNat = n := by
  rw [UInt8.toNat_ofNat', UInt8.toNat_ofNat']
  omega

theorem encodeFields_cons (f : U5 × List U5) (fs : List (U5 × List U5)) :
    encodeFields (f :: fs) =
      f.1 :: UInt8.ofNat (f.2.length / 32) :: UInt8.ofNat (f.2.length % 32) :: (f.2 ++ encodeFields fs) := by
  simp [encodeFields, encodeField]

theorem splitTagged_encodeFields : ∀ (fs : List (U5 × List U5)) (fuel : Nat),
    (∀ f ∈ fs, f.2.length < 1024) → (encodeFields fs).length ≤ fuel →
    splitTagged fuel (encodeFields fs) = .ok fs
  | [], fuel, _, _ => by cases fuel <;> simp [splitTagged, encodeFields]
  | f :: fs, 0, _, h => by simp [encodeFields_cons] at h
  | f :: fs, fuel + 1, hw, h => by
    rw [encodeFields_cons] at h ⊢
    unfold splitTagged
    have hl := len_syms f.2.length (hw f List.mem_cons_self)
    simp only [hl, List.length_append, List.take_left', List.drop_left']
    have : ¬ (f.2.length + (encodeFields fs).length < f.2.length) := by omega
    simp only [this, ↓reduceIte]
    rw [splitTagged_encodeFields fs fuel (fun g hg => hw g (List.mem_cons_of_mem _ hg))
      (by simp only [List.length_cons, List.length_append] at h; omega)]

/-- when the interleaved parser succeeds it is framing followed by interpretation -/
theorem parseTagged_ok : ∀ (fuel : Nat) (d : List U5) (fs : List Field), parseTagged fuel d = .ok fs →
    ∃ raw, splitTagged fuel d = .ok raw ∧ interpFields raw = .ok fs
  | 0, d, fs, h => by
    unfold parseTagged at h
    split at h
    · rename_i he
      simp only [Except.ok.injEq] at h; subst h
      exact ⟨[], by simp [splitTagged, he], rfl⟩
    · simp at h
  | fuel + 1, d, fs, h => by
    unfold parseTagged at h
    match d, h with
    | [], h => simp only [Except.ok.injEq] at h; subst h; exact ⟨[], by simp [splitTagged], rfl⟩
    | [_], h => simp at h
    | [_, _], h => simp at h
    | tag :: l1 :: l2 :: rest, h =>
      simp only at h
      split at h
      · simp at h
      · rename_i hlen
        split at h
        · simp at h
        · rename_i i hi
          split at h
          · simp at h
          · rename_i fs' hfs
            simp only [Except.ok.injEq] at h; subst h
            obtain ⟨raw, hr, hint⟩ := parseTagged_ok fuel _ _ hfs
            refine ⟨(tag, rest.take (l1.toNat * 32 + l2.toNat)) :: raw, ?_, ?_⟩
            · unfold splitTagged
              simp only [hlen, ↓reduceIte, hr]
            · simp only [interpFields, hi, hint]

/-! ### decimal digits and the human-readable part -/

theorem digitChar_spec : ∀ k, k < 10 → (digitChar k).toNat - 48 = k ∧ isDigit (digitChar k) = true
  | 0, _ => by decide | 1, _ => by decide | 2, _ => by decide | 3, _ => by decide | 4, _ => by decide
  | 5, _ => by decide | 6, _ => by decide | 7, _ => by decide | 8, _ => by decide | 9, _ => by decide
  | k + 10, h => by omega

theorem foldl_dec (cs : List Char) (a : Nat) :
    cs.foldl (fun a c => 10 * a + (c.toNat - 48)) a = a * 10 ^ cs.length + parseDigits cs := by
  unfold parseDigits
  induction cs generalizing a with
  | nil => simp
  | cons x xs ih =>
    simp only [List.foldl_cons, List.length_cons]
    rw [ih (10 * a + (x.toNat - 48)), ih (10 * 0 + (x.toNat - 48))]
    simp only [Nat.mul_zero, Nat.zero_add, Nat.pow_succ]
    rw [Nat.add_mul, Nat.add_assoc]
    congr 1
    rw [Nat.mul_comm 10 a, Nat.mul_assoc, Nat.mul_comm 10]

theorem parseDigits_cons (x : Char) (xs : List Char) :
    parseDigits (x :: xs) = (x.toNat - 48) * 10 ^ xs.length + parseDigits xs := by
  have := foldl_dec xs (10 * 0 + (x.toNat - 48))
  simpa [parseDigits] using this

theorem natDigitsAux_spec : ∀ (fuel n : Nat) (acc : List Char), n < fuel →
    parseDigits (natDigitsAux fuel n acc) = n * 10 ^ acc.length + parseDigits acc
  | 0, _, _, h => by omega
  | fuel + 1, n, acc, h => by
    unfold natDigitsAux
    have hd := (digitChar_spec (n % 10) (Nat.mod_lt _ (by decide))).1
    by_cases h10 : n < 10
    · simp only [h10, ↓reduceIte, parseDigits_cons, hd]
      rw [Nat.mod_eq_of_lt h10]
    · simp only [h10, ↓reduceIte]
      rw [natDigitsAux_spec fuel (n / 10) _ (by omega)]
      simp only [List.length_cons, parseDigits_cons, hd, Nat.pow_succ]
      have : n = n / 10 * 10 + n % 10 := by omega
      generalize 10 ^ acc.length = P
      generalize parseDigits acc = Q
      calc n / 10 * (P * 10) + (n % 10 * P + Q) = (n / 10 * 10 + n % 10) * P + Q := by
              rw [Nat.add_mul, Nat.mul_comm P 10, ← Nat.mul_assoc, Nat.add_assoc]
        _ = n * P + Q := by rw [← this]

theorem parseDigits_natDigits (n : Nat) : parseDigits (natDigits n) = n := by
  unfold natDigits
  rw [natDigitsAux_spec _ _ _ (by omega)]
  simp [parseDigits]

theorem natDigitsAux_digits : ∀ (fuel n : Nat) (acc : List Char), (∀ c ∈ acc, isDigit c = true) →
    ∀ c ∈ natDigitsAux fuel n acc, isDigit c = true
  | 0, _, _, h => by simpa [natDigitsAux] using h
  | fuel + 1, n, acc, h => by
    unfold natDigitsAux
    have hd := (digitChar_spec (n % 10) (Nat.mod_lt _ (by decide))).2
    have h' : ∀ c ∈ digitChar (n % 10) :: acc, isDigit c = true := by
      intro c hc
      rcases List.mem_cons.mp hc with rfl | hc
      · exact hd
      · exact h c hc
    by_cases h10 : n < 10
    · simpa only [h10, ↓reduceIte] using h'
    · simp only [h10, ↓reduceIte]
      exact natDigitsAux_digits fuel (n / 10) _ h'

theorem natDigitsAux_ne_nil : ∀ (fuel n : Nat) (acc : List Char), acc ≠ [] → natDigitsAux fuel n acc ≠ []
  | 0, _, _, h => by simpa [natDigitsAux] using h
  | fuel + 1, n, acc, _ => by
    unfold natDigitsAux
    by_cases h10 : n < 10
    · simp [h10]
    · simp only [h10, ↓reduceIte]
      exact natDigitsAux_ne_nil fuel (n / 10) _ (by simp)

theorem natDigits_digits (n : Nat) : ∀ c ∈ natDigits n, isDigit c = true :=
  natDigitsAux_digits _ _ [] (by simp)

theorem natDigits_ne_nil (n : Nat) : natDigits n ≠ [] := by
  unfold natDigits natDigitsAux
  by_cases h10 : n < 10
  · simp [h10]
  · simp only [h10, ↓reduceIte]
    exact natDigitsAux_ne_nil _ _ _ (by simp)


theorem code_nondigit (c : Currency) : ∀ ch ∈ c.code, (!isDigit ch) = true := by
  cases c <;> decide

theorem code_ne_nil (c : Currency) : c.code.isEmpty = false := by cases c <;> rfl

theorem ofCode_code (c : Currency) : Currency.ofCode c.code = some c := by cases c <;> decide

theorem letter_nondigit (p : SiPrefix) : isDigit p.letter = false := by cases p <;> decide

theorem ofLetter_letter (p : SiPrefix) : SiPrefix.ofLetter p.letter = some p := by cases p <;> decide

theorem digits_head (n : Nat) : ∃ d ds, natDigits n = d :: ds ∧ isDigit d = true := by
  match h : natDigits n with
  | [] => exact absurd h (natDigits_ne_nil n)
  | d :: ds => exact ⟨d, ds, rfl, natDigits_digits n d (by rw [h]; simp)⟩

/-- parsing the HRP text of a (currency, amount, SI prefix) triple gives the triple back -/
theorem parseHrp_toChars_some (c : Currency) (raw : Nat) (p : SiPrefix) (h1 : raw ≤ u64Max)
    (h2 : raw * p.multiplier ≤ u64Max) :
    parseHrp (RawHrp.toChars ⟨c, some raw, some p⟩) = .ok ⟨c, some raw, some p⟩ := by
  obtain ⟨d, ds, hd, hdd⟩ := digits_head raw
  have hdig := natDigits_digits raw
  have hnd : ∀ a ∈ natDigits raw, isDigit a = true := hdig
  have tw1 : List.takeWhile (fun ch => !isDigit ch) (c.code ++ (natDigits raw ++ [p.letter])) = c.code := by
    rw [List.takeWhile_append_of_pos (code_nondigit c), hd, List.cons_append,
      List.takeWhile_cons_of_neg (by simp [hdd])]
    simp
  have dw1 : List.dropWhile (fun ch => !isDigit ch) (c.code ++ (natDigits raw ++ [p.letter])) = natDigits raw ++ [p.letter] := by
    rw [List.dropWhile_append_of_pos (code_nondigit c), hd, List.cons_append,
      List.dropWhile_cons_of_neg (by simp [hdd])]
  have tw2 : List.takeWhile isDigit (natDigits raw ++ [p.letter]) = natDigits raw := by
    rw [List.takeWhile_append_of_pos hnd, List.takeWhile_cons_of_neg (by simp [letter_nondigit])]
    simp
  have dw2 : List.dropWhile isDigit (natDigits raw ++ [p.letter]) = [p.letter] := by
    rw [List.dropWhile_append_of_pos hnd, List.dropWhile_cons_of_neg (by simp [letter_nondigit])]
  have hne : (c.code ++ (natDigits raw ++ [p.letter])).isEmpty = false := by
    cases c <;> simp [Currency.code]
  have hnum : (natDigits raw).isEmpty = false := by rw [hd]; rfl
  have e : RawHrp.toChars ⟨c, some raw, some p⟩ = 'l' :: 'n' :: (c.code ++ (natDigits raw ++ [p.letter])) := by
    simp [RawHrp.toChars]
  rw [e]
  simp only [parseHrp, ne_eq, not_true_eq_false, ↓reduceIte, hne, Bool.false_eq_true, tw1, dw1, tw2, dw2,
    hnum, ofLetter_letter, List.isEmpty_nil, ofCode_code, parseDigits_natDigits]
  have a1 : ¬ raw > u64Max := by omega
  have a2 : ¬ raw * p.multiplier > u64Max := by omega
  simp [a1, a2]

theorem parseHrp_toChars_none (c : Currency) :
    parseHrp (RawHrp.toChars ⟨c, none, none⟩) = .ok ⟨c, none, none⟩ := by
  cases c <;> rfl

end Ldk.Bolt11
