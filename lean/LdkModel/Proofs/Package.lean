/- Helper lemmas about the fee-bump / bump-timer / locktime arithmetic TRANSLATED from
   lightning/src/chain/package.rs (Generated/Package.lean).  Core only.

   `feerateBump_eq` re-states the generated `feerateBump` as "candidate selection by strategy, then
   the BIP-125 tail"; it is proved by unfolding the generated definition, so any change of the Rust
   body that changes the translation breaks it (and everything below). -/
import LdkModel.Generated.Package
namespace Ldk.Pkg
open Ldk

/-- the `match feerate_strategy { .. }` candidate selection of `feerate_bump` -/
def selectFee (w prev : Nat) (s : FeerateStrategy) (nf nr : Nat) : Nat × Nat :=
  match s with
  | .retryPrevious => (prev * w / 1000, prev)
  | .highestOfPreviousOrNew => if nr > prev then (nf, nr) else (prev * w / 1000, prev)
  | .forceBump => if nr > prev then (nf, nr) else ((prev + prev / 4) * w / 1000, prev + prev / 4)

/-- what `feerate_bump` does once a `(fee, feerate)` candidate is selected: same feerate ⇒ plain
    re-broadcast; otherwise BIP-125 rules 3/4 and the dust check -/
def bumpTail (w inp dust prev : Nat) (sel : Nat × Nat) : Option (Nat × Nat) :=
  if sel.2 = prev then some sel else
    let fee := Nat.max sel.1 (prev * w / 1000 + INCREMENTAL_RELAY_FEE_SAT_PER_1000_WEIGHT * w / 1000)
    if inp - fee < dust then none else some (fee, fee * 1000 / w)

theorem feerateBump_eq (w inp dust prev : Nat) (s : FeerateStrategy) (est : Nat) :
    feerateBump w inp dust prev s est =
      match computeFeeFromSpentAmounts inp w est with
      | none => none
      | some (nf, nr) => bumpTail w inp dust prev (selectFee w prev s nf nr) := by
  unfold feerateBump
  cases hc : computeFeeFromSpentAmounts inp w est with
  | none => rfl
  | some p =>
    obtain ⟨nf, nr⟩ := p
    cases s <;> simp [bumpTail, selectFee]

/-- `compute_fee_from_spent_amounts`: the rate is `min(bounded estimate, half the inputs per weight)`
    and must reach the floor; the fee is that rate over the weight -/
theorem computeFee_some {inp w est nf nr : Nat}
    (h : computeFeeFromSpentAmounts inp w est = some (nf, nr)) :
    nr = Nat.min (boundedSatPer1000Weight est) (computeFeerateSatPer1000Weight (inp / 2) w) ∧
    nf = nr * w / 1000 ∧ FEERATE_FLOOR_SATS_PER_KW ≤ nr := by
  unfold computeFeeFromSpentAmounts at h
  simp only [] at h
  split at h
  · cases h
  · rename_i hlt
    simp only [Option.some.injEq, Prod.mk.injEq] at h
    obtain ⟨h1, h2⟩ := h
    subst h2
    subst h1
    simp only [decide_eq_true_eq, Nat.not_lt] at hlt
    exact ⟨rfl, rfl, hlt⟩

theorem computeFee_none {inp w est : Nat} (h : computeFeeFromSpentAmounts inp w est = none) :
    computeFeerateSatPer1000Weight (inp / 2) w < FEERATE_FLOOR_SATS_PER_KW := by
  unfold computeFeeFromSpentAmounts at h
  simp only [] at h
  split at h
  · rename_i hlt
    simp only [decide_eq_true_eq] at hlt
    have hb : FEERATE_FLOOR_SATS_PER_KW ≤ boundedSatPer1000Weight est := Nat.le_max_right _ _
    have := @Nat.min_def (boundedSatPer1000Weight est) (computeFeerateSatPer1000Weight (inp / 2) w)
    rw [show Nat.min (boundedSatPer1000Weight est) (computeFeerateSatPer1000Weight (inp / 2) w)
          = min (boundedSatPer1000Weight est) (computeFeerateSatPer1000Weight (inp / 2) w) from rfl] at hlt
    omega
  · cases h

/-- the selected candidate never has a lower feerate than the previous one; at the same feerate it
    carries exactly the previous fee -/
theorem selectFee_ge (w prev : Nat) (s : FeerateStrategy) (nf nr : Nat) :
    prev ≤ (selectFee w prev s nf nr).2 ∧
    ((selectFee w prev s nf nr).2 = prev → (selectFee w prev s nf nr).1 = prev * w / 1000) := by
  cases s <;> simp only [selectFee]
  · simp
  · split <;> simp <;> omega
  · split
    · simp; omega
    · refine ⟨by simp, fun h => ?_⟩
      simp only at h
      have : prev / 4 = 0 := by omega
      simp [this]

/-- a forced bump of a feerate ≥ 4 sat/kW always selects a strictly higher feerate -/
theorem selectFee_force_gt (w prev nf nr : Nat) (hp : 4 ≤ prev) :
    prev < (selectFee w prev .forceBump nf nr).2 := by
  simp only [selectFee]
  split
  · omega
  · simp only; omega

/-- the replacement fee, once it pays the relay increment on a transaction of weight ≥ 4, is at a
    feerate no lower than the previous one -/
theorem replacement_rate_ge (w prev fee : Nat) (hw : 4 ≤ w)
    (hfee : prev * w / 1000 + INCREMENTAL_RELAY_FEE_SAT_PER_1000_WEIGHT * w / 1000 ≤ fee) :
    prev ≤ fee * 1000 / w := by
  have hinc : INCREMENTAL_RELAY_FEE_SAT_PER_1000_WEIGHT = 253 := rfl
  rw [hinc] at hfee
  rw [Nat.le_div_iff_mul_le (by omega)]
  generalize prev * w = P at *
  omega

/-! ### bump timer -/

theorem timerForTargetConf_cases (h t : Nat) :
    (t ≤ h + MIDDLE_FREQUENCY_BUMP_INTERVAL ∧ timerForTargetConf h t = h + HIGH_FREQUENCY_BUMP_INTERVAL) ∨
    (h + MIDDLE_FREQUENCY_BUMP_INTERVAL < t ∧ t ≤ h + LOW_FREQUENCY_BUMP_INTERVAL ∧
        timerForTargetConf h t = h + MIDDLE_FREQUENCY_BUMP_INTERVAL) ∨
    (h + LOW_FREQUENCY_BUMP_INTERVAL < t ∧ timerForTargetConf h t = h + LOW_FREQUENCY_BUMP_INTERVAL) := by
  unfold timerForTargetConf
  by_cases h1 : t ≤ h + MIDDLE_FREQUENCY_BUMP_INTERVAL
  · left; simp [h1]
  · by_cases h2 : t ≤ h + LOW_FREQUENCY_BUMP_INTERVAL
    · right; left; simp [h1, h2]; omega
    · right; right; simp [h1, h2]; omega

theorem timerForTargetConf_bounds (h t : Nat) :
    h < timerForTargetConf h t ∧ timerForTargetConf h t ≤ h + LOW_FREQUENCY_BUMP_INTERVAL := by
  have hl : LOW_FREQUENCY_BUMP_INTERVAL = 15 := rfl
  have hm : MIDDLE_FREQUENCY_BUMP_INTERVAL = 3 := rfl
  have hh : HIGH_FREQUENCY_BUMP_INTERVAL = 1 := rfl
  rcases timerForTargetConf_cases h t with ⟨_, e⟩ | ⟨_, _, e⟩ | ⟨_, e⟩ <;> rw [e] <;> omega

/-- the nearer the deadline, the sooner the next bump -/
theorem timerForTargetConf_mono (h t t' : Nat) (htt : t ≤ t') :
    timerForTargetConf h t ≤ timerForTargetConf h t' := by
  have hl : LOW_FREQUENCY_BUMP_INTERVAL = 15 := rfl
  have hm : MIDDLE_FREQUENCY_BUMP_INTERVAL = 3 := rfl
  have hh : HIGH_FREQUENCY_BUMP_INTERVAL = 1 := rfl
  rcases timerForTargetConf_cases h t with ⟨a, e⟩ | ⟨a, b, e⟩ | ⟨a, e⟩ <;>
    rcases timerForTargetConf_cases h t' with ⟨a', e'⟩ | ⟨a', b', e'⟩ | ⟨a', e'⟩ <;>
    rw [e, e'] <;> omega

theorem heightTimerStep_bounds (h csh t : Nat) (i : PkgInput)
    (ht : h < t ∧ t ≤ h + LOW_FREQUENCY_BUMP_INTERVAL) :
    h < heightTimerStep h csh t i ∧ heightTimerStep h csh t i ≤ h + LOW_FREQUENCY_BUMP_INTERVAL ∧
    heightTimerStep h csh t i ≤ t := by
  have hh : HIGH_FREQUENCY_BUMP_INTERVAL = 1 := rfl
  have hl : LOW_FREQUENCY_BUMP_INTERVAL = 15 := rfl
  have key : ∀ x, h < x → h < Nat.min t x ∧ Nat.min t x ≤ h + LOW_FREQUENCY_BUMP_INTERVAL ∧ Nat.min t x ≤ t := by
    intro x hx
    have := @Nat.min_def t x
    rw [show Nat.min t x = min t x from rfl]
    omega
  cases i <;> simp only [heightTimerStep]
  · exact key _ (timerForTargetConf_bounds h csh).1
  · omega
  · exact key _ (timerForTargetConf_bounds h _).1
  · exact key _ (timerForTargetConf_bounds h _).1
  · split
    · exact key _ (timerForTargetConf_bounds h _).1
    · exact key _ (timerForTargetConf_bounds h _).1
  · exact key _ (by omega)

theorem foldl_heightTimerStep_bounds (h csh : Nat) (inputs : List PkgInput) (t : Nat)
    (ht : h < t ∧ t ≤ h + LOW_FREQUENCY_BUMP_INTERVAL) :
    h < inputs.foldl (heightTimerStep h csh) t ∧
    inputs.foldl (heightTimerStep h csh) t ≤ h + LOW_FREQUENCY_BUMP_INTERVAL ∧
    inputs.foldl (heightTimerStep h csh) t ≤ t := by
  induction inputs generalizing t with
  | nil => exact ⟨ht.1, ht.2, Nat.le_refl _⟩
  | cons i rest ih =>
    have hs := heightTimerStep_bounds h csh t i ht
    have := ih (heightTimerStep h csh t i) ⟨hs.1, hs.2.1⟩
    exact ⟨this.1, this.2.1, Nat.le_trans this.2.2 hs.2.2⟩

/-- an input anywhere in the list caps the timer by its own step from the initial value -/
theorem foldl_heightTimerStep_le_of_mem (h csh : Nat) (inputs : List PkgInput) (t : Nat) (i : PkgInput)
    (ht : h < t ∧ t ≤ h + LOW_FREQUENCY_BUMP_INTERVAL) (hi : i ∈ inputs) :
    inputs.foldl (heightTimerStep h csh) t ≤ heightTimerStep h csh (h + LOW_FREQUENCY_BUMP_INTERVAL) i := by
  induction inputs generalizing t with
  | nil => cases hi
  | cons j rest ih =>
    have hs := heightTimerStep_bounds h csh t j ht
    simp only [List.foldl_cons]
    rcases List.mem_cons.mp hi with e | hmem
    · subst e
      have h2 := (foldl_heightTimerStep_bounds h csh rest _ ⟨hs.1, hs.2.1⟩).2.2
      refine Nat.le_trans h2 ?_
      -- the step is monotone in the running timer
      have hmono : ∀ x, Nat.min t x ≤ Nat.min (h + LOW_FREQUENCY_BUMP_INTERVAL) x := by
        intro x
        have := @Nat.min_def t x
        have := @Nat.min_def (h + LOW_FREQUENCY_BUMP_INTERVAL) x
        rw [show Nat.min t x = min t x from rfl, show Nat.min (h + LOW_FREQUENCY_BUMP_INTERVAL) x = min (h + LOW_FREQUENCY_BUMP_INTERVAL) x from rfl]
        omega
      cases i <;> simp only [heightTimerStep]
      · exact hmono _
      · exact ht.2
      · exact hmono _
      · exact hmono _
      · split <;> exact hmono _
      · exact hmono _
    · exact ih _ ⟨hs.1, hs.2.1⟩ hmem

/-! ### the statements used by Props/C06 and Props/C07 -/

theorem bump_progress_core (h csh : Nat) (inputs : List PkgInput) :
    h < getHeightTimer h csh inputs ∧
    getHeightTimer h csh inputs ≤ h + LOW_FREQUENCY_BUMP_INTERVAL ∧
    (∀ t t', t ≤ t' → timerForTargetConf h t ≤ timerForTargetConf h t') ∧
    (.revokedOutput ∈ inputs → csh ≤ h + MIDDLE_FREQUENCY_BUMP_INTERVAL →
        getHeightTimer h csh inputs = h + HIGH_FREQUENCY_BUMP_INTERVAL) ∧
    (.revokedOutput ∈ inputs → csh ≤ h + LOW_FREQUENCY_BUMP_INTERVAL →
        getHeightTimer h csh inputs ≤ h + MIDDLE_FREQUENCY_BUMP_INTERVAL) := by
  have hl : LOW_FREQUENCY_BUMP_INTERVAL = 15 := rfl
  have hm : MIDDLE_FREQUENCY_BUMP_INTERVAL = 3 := rfl
  have hh : HIGH_FREQUENCY_BUMP_INTERVAL = 1 := rfl
  have h0 : h < h + LOW_FREQUENCY_BUMP_INTERVAL ∧ h + LOW_FREQUENCY_BUMP_INTERVAL ≤ h + LOW_FREQUENCY_BUMP_INTERVAL := by omega
  have hb := foldl_heightTimerStep_bounds h csh inputs _ h0
  have hcap : PkgInput.revokedOutput ∈ inputs →
      getHeightTimer h csh inputs ≤ Nat.min (h + LOW_FREQUENCY_BUMP_INTERVAL) (timerForTargetConf h csh) :=
    fun hmem => foldl_heightTimerStep_le_of_mem h csh inputs _ .revokedOutput h0 hmem
  have hmin : ∀ a b : Nat, Nat.min a b ≤ b := fun a b => Nat.min_le_right a b
  refine ⟨hb.1, hb.2.1, fun t t' => timerForTargetConf_mono h t t', ?_, ?_⟩
  · intro hmem hc
    have h1 := Nat.le_trans (hcap hmem) (hmin _ _)
    rcases timerForTargetConf_cases h csh with ⟨_, e⟩ | ⟨a, _, _⟩ | ⟨a, _⟩
    · rw [e] at h1
      have := hb.1
      unfold getHeightTimer at *
      omega
    · omega
    · omega
  · intro hmem hc
    have h1 := Nat.le_trans (hcap hmem) (hmin _ _)
    rcases timerForTargetConf_cases h csh with ⟨_, e⟩ | ⟨_, _, e⟩ | ⟨a, _⟩
    · rw [e] at h1; omega
    · rw [e] at h1; exact h1
    · omega

theorem feerate_bump_monotone_core (w inp dust prev : Nat) (s : FeerateStrategy) (est fee' rate' : Nat)
    (h : feerateBump w inp dust prev s est = some (fee', rate')) :
    (4 ≤ w → prev ≤ rate') ∧
    ((rate' = prev ∧ fee' = prev * w / 1000) ∨
     (prev * w / 1000 + INCREMENTAL_RELAY_FEE_SAT_PER_1000_WEIGHT * w / 1000 ≤ fee' ∧ dust ≤ inp - fee')) ∧
    (s = .forceBump → 4 ≤ prev →
      prev * w / 1000 + INCREMENTAL_RELAY_FEE_SAT_PER_1000_WEIGHT * w / 1000 ≤ fee') := by
  rw [feerateBump_eq] at h
  cases hc : computeFeeFromSpentAmounts inp w est with
  | none => rw [hc] at h; cases h
  | some p =>
    obtain ⟨nf, nr⟩ := p
    rw [hc] at h
    simp only at h
    have hsel := selectFee_ge w prev s nf nr
    unfold bumpTail at h
    by_cases heq : (selectFee w prev s nf nr).2 = prev
    · rw [if_pos heq] at h
      simp only [Option.some.injEq] at h
      have h1 : (selectFee w prev s nf nr).1 = fee' := by rw [h]
      have h2 : (selectFee w prev s nf nr).2 = rate' := by rw [h]
      refine ⟨fun _ => by omega, Or.inl ⟨by omega, by rw [← h1]; exact hsel.2 heq⟩, ?_⟩
      intro hs hp
      subst hs
      have := selectFee_force_gt w prev nf nr hp
      omega
    · rw [if_neg heq] at h
      simp only at h
      split at h
      · cases h
      · rename_i hdust
        simp only [Option.some.injEq, Prod.mk.injEq] at h
        obtain ⟨h1, h2⟩ := h
        have hfee : prev * w / 1000 + INCREMENTAL_RELAY_FEE_SAT_PER_1000_WEIGHT * w / 1000 ≤ fee' := by
          rw [← h1]; exact Nat.le_max_right _ _
        refine ⟨?_, Or.inr ⟨hfee, ?_⟩, fun _ _ => hfee⟩
        · intro hw; rw [← h2, h1]; exact replacement_rate_ge w prev fee' hw hfee
        · rw [← h1]; omega

theorem feerate_bump_none_core (w inp dust prev : Nat) (s : FeerateStrategy) (est : Nat)
    (h : feerateBump w inp dust prev s est = none) :
    computeFeerateSatPer1000Weight (inp / 2) w < FEERATE_FLOOR_SATS_PER_KW ∨
    inp < dust + Nat.max (Nat.max (inp / 2) ((prev + prev / 4) * w / 1000))
              (prev * w / 1000 + INCREMENTAL_RELAY_FEE_SAT_PER_1000_WEIGHT * w / 1000) := by
  rw [feerateBump_eq] at h
  cases hc : computeFeeFromSpentAmounts inp w est with
  | none => left; exact computeFee_none hc
  | some p =>
    obtain ⟨nf, nr⟩ := p
    right
    rw [hc] at h
    simp only at h
    obtain ⟨hnr, hnf, _⟩ := computeFee_some hc
    -- the estimator candidate never costs more than half the inputs
    have hnf_le : nf ≤ inp / 2 := by
      have h1 : nr ≤ computeFeerateSatPer1000Weight (inp / 2) w := by rw [hnr]; exact Nat.min_le_right _ _
      have h2 : computeFeerateSatPer1000Weight (inp / 2) w ≤ inp / 2 * 1000 / w := Nat.min_le_left _ _
      rw [hnf]
      by_cases hw0 : w = 0
      · subst hw0; simp
      · have h3 : nr * w ≤ inp / 2 * 1000 := by
          have := Nat.le_trans h1 h2
          exact (Nat.le_div_iff_mul_le (by omega)).1 this
        have : nr * w / 1000 ≤ inp / 2 * 1000 / 1000 := Nat.div_le_div_right h3
        rw [Nat.mul_div_cancel _ (by omega)] at this
        exact this
    have hsel1 : (selectFee w prev s nf nr).1 ≤ Nat.max (inp / 2) ((prev + prev / 4) * w / 1000) := by
      have hmono : prev * w / 1000 ≤ (prev + prev / 4) * w / 1000 :=
        Nat.div_le_div_right (Nat.mul_le_mul_right _ (by omega))
      have ha : inp / 2 ≤ Nat.max (inp / 2) ((prev + prev / 4) * w / 1000) := Nat.le_max_left _ _
      have hb : (prev + prev / 4) * w / 1000 ≤ Nat.max (inp / 2) ((prev + prev / 4) * w / 1000) := Nat.le_max_right _ _
      cases s <;> simp only [selectFee]
      · omega
      · split <;> simp only <;> omega
      · split <;> simp only <;> omega
    unfold bumpTail at h
    split at h
    · cases h
    · simp only at h
      split at h
      · rename_i hlt
        have hmax : Nat.max (selectFee w prev s nf nr).1 (prev * w / 1000 + INCREMENTAL_RELAY_FEE_SAT_PER_1000_WEIGHT * w / 1000)
            ≤ Nat.max (Nat.max (inp / 2) ((prev + prev / 4) * w / 1000))
                (prev * w / 1000 + INCREMENTAL_RELAY_FEE_SAT_PER_1000_WEIGHT * w / 1000) := by
          apply Nat.max_le.2
          exact ⟨Nat.le_trans hsel1 (Nat.le_max_left _ _), Nat.le_max_right _ _⟩
        omega
      · cases h

end Ldk.Pkg

/-! ### compute_package_feerate / compute_package_output (C07; appended)

    Lemmas about the TRANSLATED `computePackageFeerate` (target feerate of claims that take their fee
    from external inputs: anchor commitment bump, anchor HTLC claims) and `computePackageOutput`
    (self-funded malleable claims).  Each is proved by unfolding the generated definition and
    deciding the resulting linear arithmetic, so a change of the Rust body that changes the
    arithmetic breaks them, while a mere re-arrangement does not. -/
namespace Ldk.Pkg
open Ldk

theorem pf_nat_max_eq (a b : Nat) : Nat.max a b = max a b := rfl
theorem pf_nat_min_eq (a b : Nat) : Nat.min a b = min a b := rfl

macro "pkg_feerate_cases" s:ident : tactic => `(tactic| (
  have hu : U32_MAX = 4294967295 := rfl
  have hf : FEERATE_FLOOR_SATS_PER_KW = 253 := rfl
  unfold computePackageFeerate boundedSatPer1000Weight
  try unfold satAdd32
  simp only [pf_nat_max_eq, pf_nat_min_eq, decide_eq_true_eq, ne_eq, decide_not, Bool.not_eq_true', decide_eq_false_iff_not, gt_iff_lt]
  cases $s:ident <;> simp only [] <;> (repeat' split) <;> omega))

theorem computePackageFeerate_ge (prev : Nat) (s : FeerateStrategy) (est : Nat) :
    Nat.min prev U32_MAX ≤ computePackageFeerate prev s est := by
  pkg_feerate_cases s

/-- never below the (bounded) estimate's floor, never zero -/
theorem computePackageFeerate_floor (prev : Nat) (s : FeerateStrategy) (est : Nat) (hp : prev = 0 ∨ FEERATE_FLOOR_SATS_PER_KW ≤ prev) :
    FEERATE_FLOOR_SATS_PER_KW ≤ computePackageFeerate prev s est := by
  pkg_feerate_cases s

theorem computePackageFeerate_le (prev : Nat) (s : FeerateStrategy) (est : Nat) :
    computePackageFeerate prev s est ≤ Nat.max (Nat.min prev U32_MAX) (5 * boundedSatPer1000Weight est) := by
  pkg_feerate_cases s

theorem computePackageFeerate_retry (prev est : Nat) (hp : prev ≠ 0) :
    computePackageFeerate prev .retryPrevious est = Nat.min prev U32_MAX := by
  unfold computePackageFeerate
  simp [hp]

theorem computePackageFeerate_highest (prev est : Nat) (hp : prev ≠ 0) :
    computePackageFeerate prev .highestOfPreviousOrNew est = Nat.max (Nat.min prev U32_MAX) (boundedSatPer1000Weight est) := by
  unfold computePackageFeerate
  simp [hp]

theorem computePackageFeerate_force (prev est : Nat) (hp : prev ≠ 0) (hu' : prev ≤ U32_MAX) :
    prev < computePackageFeerate prev .forceBump est ∨
    (computePackageFeerate prev .forceBump est = prev ∧ (5 * boundedSatPer1000Weight est ≤ prev ∨ prev = U32_MAX)) := by
  have hu : U32_MAX = 4294967295 := rfl
  have hf : FEERATE_FLOOR_SATS_PER_KW = 253 := rfl
  unfold computePackageFeerate boundedSatPer1000Weight
  try unfold satAdd32
  simp only [pf_nat_max_eq, pf_nat_min_eq, decide_eq_true_eq, ne_eq, decide_not, Bool.not_eq_true', decide_eq_false_iff_not, gt_iff_lt]
  (repeat' split) <;> omega

/-- a forced bump follows a higher estimate … -/
theorem computePackageFeerate_force_est (prev est : Nat) (hp : prev ≠ 0) (he : Nat.min prev U32_MAX < boundedSatPer1000Weight est) :
    computePackageFeerate prev .forceBump est = boundedSatPer1000Weight est := by
  have hu : U32_MAX = 4294967295 := rfl
  have hf : FEERATE_FLOOR_SATS_PER_KW = 253 := rfl
  unfold computePackageFeerate boundedSatPer1000Weight at *
  try unfold satAdd32 at *
  simp only [pf_nat_max_eq, pf_nat_min_eq, decide_eq_true_eq, ne_eq, decide_not, Bool.not_eq_true', decide_eq_false_iff_not, gt_iff_lt] at *
  (repeat' split) <;> omega

/-- … and otherwise adds 25 % (saturating) when that stays within 5x the estimate -/
theorem computePackageFeerate_force_uncapped (prev est : Nat) (hp : prev ≠ 0) (hu' : prev ≤ U32_MAX)
    (he : boundedSatPer1000Weight est ≤ prev) (hc : satAdd32 prev (prev / 4) ≤ 5 * boundedSatPer1000Weight est) :
    computePackageFeerate prev .forceBump est = satAdd32 prev (prev / 4) := by
  have hu : U32_MAX = 4294967295 := rfl
  have hf : FEERATE_FLOOR_SATS_PER_KW = 253 := rfl
  unfold computePackageFeerate boundedSatPer1000Weight at *
  try unfold satAdd32 at *
  simp only [pf_nat_max_eq, pf_nat_min_eq, decide_eq_true_eq, ne_eq, decide_not, Bool.not_eq_true', decide_eq_false_iff_not, gt_iff_lt] at *
  (repeat' split) <;> (repeat' split at hc) <;> omega

theorem computePackageFeerate_in_range (prev : Nat) (s : FeerateStrategy) (est : Nat)
    (he : 5 * boundedSatPer1000Weight est ≤ U32_MAX) : computePackageFeerate prev s est ≤ U32_MAX := by
  have h := computePackageFeerate_le prev s est
  have h2 : Nat.min prev U32_MAX ≤ U32_MAX := Nat.min_le_right _ _
  rw [pf_nat_max_eq] at h
  omega

/-- first issue of a claim (`feerate_previous == 0`): the floor-bounded estimate, whatever the strategy -/
theorem computePackageFeerate_first (s : FeerateStrategy) (est : Nat) :
    computePackageFeerate 0 s est = boundedSatPer1000Weight est := by
  unfold computePackageFeerate
  simp

/-- `compute_package_output`: what it answers is `feerate_bump` (claim issued before) resp.
    `compute_fee_from_spent_amounts` (first issue) with the output clamped to the dust limit -/
theorem computePackageOutput_some {amt w dust prev : Nat} {s : FeerateStrategy} {est out rate : Nat}
    (h : computePackageOutput amt w dust prev s est = some (out, rate)) :
    ∃ fee, out = Nat.max (amt - fee) dust ∧
      ((prev ≠ 0 ∧ feerateBump w amt dust prev s est = some (fee, rate)) ∨
       (prev = 0 ∧ computeFeeFromSpentAmounts amt w est = some (fee, rate))) := by
  unfold computePackageOutput at h
  simp only [ne_eq, decide_not, Bool.not_eq_true', decide_eq_false_iff_not] at h
  split at h
  · rename_i hp
    split at h
    · rename_i fee r hb
      simp only [Option.some.injEq, Prod.mk.injEq] at h
      exact ⟨fee, h.1.symm, Or.inl ⟨hp, by rw [hb, h.2]⟩⟩
    · cases h
  · rename_i hp
    split at h
    · rename_i fee r hb
      simp only [Option.some.injEq, Prod.mk.injEq] at h
      exact ⟨fee, h.1.symm, Or.inr ⟨Decidable.not_not.mp hp, by rw [hb, h.2]⟩⟩
    · cases h

/-! #### re-broadcast after an RBF bump: the fee is recomputed from the stored, rounded-down feerate (C07, KF-C07-1) -/

/-- `F ↦ ⌊F·1000/w⌋ ↦ ⌊⌊F·1000/w⌋·w/1000⌋` loses at most `w/1000 + 1` -/
theorem fee_rounding_slack (F w : Nat) (hw : 0 < w) :
    (F * 1000 / w) * w / 1000 ≤ F ∧ F ≤ (F * 1000 / w) * w / 1000 + w / 1000 + 1 := by
  have h1 : F * 1000 / w * w ≤ F * 1000 := Nat.div_mul_le_self _ _
  have h2 : F * 1000 < w * (F * 1000 / w + 1) := Nat.lt_mul_div_succ _ hw
  have h3 : F * 1000 / w * w / 1000 * 1000 ≤ F * 1000 / w * w := Nat.div_mul_le_self _ _
  have h4 : F * 1000 / w * w < 1000 * (F * 1000 / w * w / 1000 + 1) := Nat.lt_mul_div_succ _ (by decide)
  have h5 : w < 1000 * (w / 1000 + 1) := Nat.lt_mul_div_succ _ (by decide)
  have h6 : w * (F * 1000 / w + 1) = F * 1000 / w * w + w := by rw [Nat.mul_add, Nat.mul_one, Nat.mul_comm]
  rw [h6] at h2
  generalize F * 1000 / w * w = X at *
  omega

/-- what `feerate_bump` answers is either the previous feerate with the fee RECOMPUTED from it, or a fee with the feerate
    recomputed (rounded down) from the fee -/
theorem feerateBump_shape {w inp dust prev : Nat} {s : FeerateStrategy} {est F r : Nat}
    (h : feerateBump w inp dust prev s est = some (F, r)) :
    (r = prev ∧ F = prev * w / 1000) ∨ r = F * 1000 / w := by
  rw [feerateBump_eq] at h
  split at h
  · cases h
  · rename_i nf nr hc
    unfold bumpTail at h
    split at h
    · rename_i heq
      simp only [Option.some.injEq] at h
      cases s <;> simp only [selectFee] at h heq
      · left
        cases h
        exact ⟨rfl, rfl⟩
      · split at h
        · right
          rename_i hgt
          simp only [hgt, if_true] at heq
          omega
        · left; cases h; exact ⟨rfl, rfl⟩
      · split at h
        · right
          rename_i hgt
          simp only [hgt, if_true] at heq
          omega
        · rename_i hgt
          simp only [hgt, if_false] at heq
          left
          cases h
          have h0 : prev / 4 = 0 := by omega
          rw [h0, Nat.add_zero]
          exact ⟨rfl, rfl⟩
    · simp only [] at h
      split at h
      · cases h
      · simp only [Option.some.injEq, Prod.mk.injEq] at h
        right
        rw [← h.2, ← h.1]

/-- a plain re-broadcast (`RetryPrevious`) of a claim last issued by `feerate_bump` with `(F, r)` keeps the
    feerate `r` and pays `F' ≤ F` with `F ≤ F' + weight/1000 + 1`: the fee is recomputed from the stored,
    rounded-down feerate -/
theorem retry_after_bump {w inp dust prev : Nat} {s : FeerateStrategy} {est est' F r F' r' : Nat} (hw : 0 < w)
    (h : feerateBump w inp dust prev s est = some (F, r))
    (h' : feerateBump w inp dust r .retryPrevious est' = some (F', r')) :
    r' = r ∧ F' = r * w / 1000 ∧ F' ≤ F ∧ F ≤ F' + w / 1000 + 1 := by
  have hs : r' = r ∧ F' = r * w / 1000 := by
    rw [feerateBump_eq] at h'
    split at h'
    · cases h'
    · simp only [selectFee, bumpTail, if_true, Option.some.injEq, Prod.mk.injEq] at h'
      exact ⟨h'.2.symm, h'.1.symm⟩
  refine ⟨hs.1, hs.2, ?_⟩
  rw [hs.2]
  rcases feerateBump_shape h with ⟨hr, hF⟩ | hr
  · subst hr; subst hF; omega
  · rw [hr]; exact fee_rounding_slack F w hw

end Ldk.Pkg
