/- Helper lemmas for the bech32 single-symbol theorem (C18).  The packed-residue step is bridged to
   `Nat` (`step_toNat`), where it reads `((c % 2^25) * 32 + v) xor G (c / 2^25 % 32)`; injectivity in
   the state (for a fixed symbol) and in the symbol (for a fixed state) then follow from: the low
   five bits of the generator mix determine the five bits shifted out (`G_low_inj`, by `decide` over
   32 × 32 cases), xor cancellation, and `omega`.  No `bv_decide`, no `native_decide`. -/
import LdkModel.Prim.Bech32
namespace Ldk.Prim.Bech32

/-- the generator mix as a function on `Nat` -/
def G (t : Nat) : Nat := (genMix (UInt32.ofNat t)).toNat

theorem G_low_inj : ∀ t t' : Fin 32, G t.val % 32 = G t'.val % 32 → t = t' := by decide
theorem G_lt : ∀ t : Fin 32, G t.val < 2 ^ 30 := by decide

theorem xor_cancel_right {a b g : Nat} (h : a ^^^ g = b ^^^ g) : a = b := by
  have := congrArg (· ^^^ g) h
  simpa [Nat.xor_assoc] using this

def stepNat (c v : Nat) : Nat := ((c % 2 ^ 25) * 32 + v) ^^^ G (c / 2 ^ 25 % 32)

theorem step_toNat (c : UInt32) (v : UInt8) (hv : v.toNat < 32) :
    (polymodStep c v).toNat = stepNat c.toNat v.toNat := by
  unfold polymodStep stepNat G
  rw [UInt32.toNat_xor, UInt32.toNat_or, UInt32.toNat_shiftLeft, UInt32.toNat_and, UInt8.toNat_toUInt32]
  have h1 : (0x1ffffff : UInt32).toNat = 2 ^ 25 - 1 := by decide
  have h5 : (5 : UInt32).toNat % 32 = 5 := by decide
  rw [h1, h5, Nat.and_two_pow_sub_one_eq_mod]
  have hlt : c.toNat % 2 ^ 25 < 2 ^ 25 := Nat.mod_lt _ (by decide)
  have h2 : (c.toNat % 2 ^ 25) <<< 5 % 2 ^ 32 = (c.toNat % 2 ^ 25) <<< 5 := by
    rw [Nat.shiftLeft_eq]; apply Nat.mod_eq_of_lt; omega
  rw [h2, ← Nat.shiftLeft_add_eq_or_of_lt (by omega : v.toNat < 2 ^ 5), Nat.shiftLeft_eq]
  congr 2
  congr 1
  apply UInt32.toNat_inj.mp
  rw [UInt32.toNat_and, UInt32.toNat_shiftRight, UInt32.toNat_ofNat']
  have h31 : (31 : UInt32).toNat = 2 ^ 5 - 1 := by decide
  have h25 : (25 : UInt32).toNat % 32 = 25 := by decide
  rw [h31, h25, Nat.and_two_pow_sub_one_eq_mod, Nat.shiftRight_eq_div_pow]
  have : c.toNat / 2 ^ 25 % 2 ^ 5 < 2 ^ 32 := by omega
  omega

theorem G_lt' (t : Nat) : G (t % 32) < 2 ^ 30 := G_lt ⟨t % 32, Nat.mod_lt _ (by decide)⟩

theorem stepNat_lt (c v : Nat) (hv : v < 32) : stepNat c v < 2 ^ 30 := by
  unfold stepNat
  apply Nat.xor_lt_two_pow
  · have : c % 2 ^ 25 < 2 ^ 25 := Nat.mod_lt _ (by decide)
    omega
  · exact G_lt' _

theorem low5_step (c v : Nat) (hv : v < 32) : stepNat c v % 32 = v ^^^ (G (c / 2 ^ 25 % 32) % 32) := by
  unfold stepNat
  have : (32 : Nat) = 2 ^ 5 := by decide
  rw [this, Nat.xor_mod_two_pow]
  congr 1
  omega

/-- for a fixed symbol the step is injective on 30-bit states -/
theorem stepNat_inj_state {c c' v : Nat} (hc : c < 2 ^ 30) (hc' : c' < 2 ^ 30) (hv : v < 32)
    (h : stepNat c v = stepNat c' v) : c = c' := by
  have hl := congrArg (· % 32) h
  simp only [low5_step _ _ hv] at hl
  have hl' : G (c / 2 ^ 25 % 32) % 32 = G (c' / 2 ^ 25 % 32) % 32 := by
    have := congrArg (v ^^^ ·) hl
    simpa [← Nat.xor_assoc] using this
  have ht := G_low_inj ⟨c / 2 ^ 25 % 32, Nat.mod_lt _ (by decide)⟩ ⟨c' / 2 ^ 25 % 32, Nat.mod_lt _ (by decide)⟩ hl'
  have ht' : c / 2 ^ 25 % 32 = c' / 2 ^ 25 % 32 := congrArg Fin.val ht
  unfold stepNat at h
  rw [ht'] at h
  have := xor_cancel_right h
  omega

/-- for a fixed state the step is injective in the symbol -/
theorem stepNat_inj_sym {c v v' : Nat} (h : stepNat c v = stepNat c v') : v = v' := by
  unfold stepNat at h
  have := xor_cancel_right h
  omega

/-! lifted to the `UInt32` definitions -/

theorem step_lt (c : UInt32) (v : UInt8) (hv : v < 32) : (polymodStep c v).toNat < 2 ^ 30 := by
  have hv' : v.toNat < 32 := hv
  rw [step_toNat c v hv']; exact stepNat_lt _ _ hv'

theorem step_inj_state {c c' : UInt32} {v : UInt8} (hc : c.toNat < 2 ^ 30) (hc' : c'.toNat < 2 ^ 30)
    (hv : v < 32) (h : polymodStep c v = polymodStep c' v) : c = c' := by
  have hv' : v.toNat < 32 := hv
  have := congrArg UInt32.toNat h
  rw [step_toNat c v hv', step_toNat c' v hv'] at this
  exact UInt32.toNat_inj.mp (stepNat_inj_state hc hc' hv' this)

theorem step_inj_sym {c : UInt32} {v v' : UInt8} (hv : v < 32) (hv' : v' < 32)
    (h : polymodStep c v = polymodStep c v') : v = v' := by
  have a : v.toNat < 32 := hv
  have b : v'.toNat < 32 := hv'
  have := congrArg UInt32.toNat h
  rw [step_toNat c v a, step_toNat c v' b] at this
  exact UInt8.toNat_inj.mp (stepNat_inj_sym this)

/-- feeding valid symbols keeps the residue within 30 bits -/
theorem foldl_lt (vs : List UInt8) (hvs : ∀ x ∈ vs, x < 32) (s : UInt32) (hs : s.toNat < 2 ^ 30) :
    (vs.foldl polymodStep s).toNat < 2 ^ 30 := by
  induction vs generalizing s with
  | nil => simpa using hs
  | cons x xs ih =>
    simp only [List.foldl_cons]
    exact ih (fun y hy => hvs y (List.mem_cons_of_mem _ hy)) _ (step_lt s x (hvs x List.mem_cons_self))

/-- two different 30-bit residues stay different whatever common valid suffix is fed -/
theorem foldl_inj (vs : List UInt8) (hvs : ∀ x ∈ vs, x < 32) (s s' : UInt32)
    (hs : s.toNat < 2 ^ 30) (hs' : s'.toNat < 2 ^ 30)
    (h : vs.foldl polymodStep s = vs.foldl polymodStep s') : s = s' := by
  induction vs generalizing s s' with
  | nil => simpa using h
  | cons x xs ih =>
    simp only [List.foldl_cons] at h
    have hx := hvs x List.mem_cons_self
    have := ih (fun y hy => hvs y (List.mem_cons_of_mem _ hy)) _ _ (step_lt s x hx) (step_lt s' x hx) h
    exact step_inj_state hs hs' hx this

theorem hrpExpand_valid (hrp : List UInt8) : ∀ x ∈ hrpExpand hrp, x < 32 := by
  intro x hx
  simp only [hrpExpand, List.mem_append, List.mem_map, List.mem_singleton] at hx
  rcases hx with (⟨a, _, rfl⟩ | rfl) | ⟨a, _, rfl⟩
  · show (a >>> 5).toNat < 32
    rw [UInt8.toNat_shiftRight]
    have : a.toNat < 256 := a.toNat_lt
    have h5 : (5 : UInt8).toNat % 8 = 5 := by decide
    rw [h5, Nat.shiftRight_eq_div_pow]; omega
  · decide
  · show (a &&& 31).toNat < 32
    rw [UInt8.toNat_and]
    have h31 : (31 : UInt8).toNat = 2 ^ 5 - 1 := by decide
    rw [h31, Nat.and_two_pow_sub_one_eq_mod]; omega

/-- core of the single-symbol theorems: over valid symbols, changing one symbol changes the residue -/
theorem polymod_single_change (pre post : List UInt8) (a b : UInt8) (hpre : ∀ x ∈ pre, x < 32)
    (hpost : ∀ x ∈ post, x < 32) (ha : a < 32) (hb : b < 32) (hab : a ≠ b) :
    polymod (pre ++ a :: post) ≠ polymod (pre ++ b :: post) := by
  intro h
  unfold polymod at h
  rw [List.foldl_append, List.foldl_append, List.foldl_cons, List.foldl_cons] at h
  have hs : (List.foldl polymodStep 1 pre).toNat < 2 ^ 30 := foldl_lt _ hpre _ (by decide)
  have := foldl_inj post hpost _ _ (step_lt _ a ha) (step_lt _ b hb) h
  exact hab (step_inj_sym ha hb this)

/-- a byte is its high three and low five bits -/
theorem byte_split {c c' : UInt8} (hh : c >>> 5 = c' >>> 5) (hl : c &&& 31 = c' &&& 31) : c = c' := by
  have h1 := congrArg UInt8.toNat hh
  have h2 := congrArg UInt8.toNat hl
  rw [UInt8.toNat_shiftRight, UInt8.toNat_shiftRight] at h1
  rw [UInt8.toNat_and, UInt8.toNat_and] at h2
  have h5 : (5 : UInt8).toNat % 8 = 5 := by decide
  have h31 : (31 : UInt8).toNat = 2 ^ 5 - 1 := by decide
  rw [h5, Nat.shiftRight_eq_div_pow, Nat.shiftRight_eq_div_pow] at h1
  rw [h31, Nat.and_two_pow_sub_one_eq_mod, Nat.and_two_pow_sub_one_eq_mod] at h2
  apply UInt8.toNat_inj.mp
  omega

end Ldk.Prim.Bech32
