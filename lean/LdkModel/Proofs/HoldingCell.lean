/- `free_holding_cell_htlcs` as an abstract machine over the GENERATED step order (Generated/FeeUpdate.lean: `holdingCellReleaseOrder`),
   with ghost fields recording WHAT EACH CHECK SAW (C01, seeded change C01-r4).  Worst case for the property: every queued add passes
   `send_htlc` and the queued fee update passes `can_send_update_fee`.  Core only. -/
import LdkModel.Generated.FeeUpdate
namespace Ldk.FeeUpdate

structure HC where
  /-- amounts of our HTLCs the statistics count already (LocalAnnounced / committed) -/
  announced : List Nat
  /-- AddHTLC amounts in `holding_cell_htlc_updates` -/
  cell : List Nat
  /-- swapped out of the cell, not yet re-sent: in no list `get_next_commitment_htlcs` looks at -/
  taken : List Nat := []
  /-- `holding_cell_update_fee` -/
  cellFee : Option Nat
  /-- `pending_update_fee = (f, Outbound)` -/
  pendingFee : Option Nat := none
  /-- ghost: the HTLC view `can_send_update_fee` priced when the queued fee update was released -/
  feeView : Option (List Nat) := none
  /-- ghost: for every released add, was a fee update of ours pending (and ignored: `send_htlc` sizes at `feerate_per_kw`) -/
  addSawPendingFee : List Bool := []
  /-- ghost: the adds that leave in this batch -/
  batchAdds : List Nat := []
  deriving Repr

/-- what `get_next_commitment_htlcs(…, include_counterparty_unknown_htlcs)` returns of OUR adds -/
def HC.view (s : HC) (include_counterparty_unknown_htlcs : Bool) : List Nat :=
  s.announced ++ (if holdingCellAddsVisible include_counterparty_unknown_htlcs then s.cell else [])

def HC.step (s : HC) : HoldStep → HC
  | .swapOut => { s with taken := s.cell, cell := [] }
  | .releaseHtlcs => { s with announced := s.announced ++ s.taken, batchAdds := s.batchAdds ++ s.taken,
                              addSawPendingFee := s.addSawPendingFee ++ s.taken.map (fun _ => s.pendingFee.isSome), taken := [] }
  | .releaseFee => match s.cellFee with
    | none => s
    | some f => { s with cellFee := none, pendingFee := some f, feeView := some (s.view senderIncludesUnknownHtlcs) }
  | .buildCommitment => s

/-- the whole function: the steps in the order they have in the source -/
def HC.free (s : HC) : HC := holdingCellReleaseOrder.foldl HC.step s

end Ldk.FeeUpdate
