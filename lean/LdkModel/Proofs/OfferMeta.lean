/- Helper lemmas for the metadata theorems (C18): closed forms of `verifyHmac` / `verifyTail`. -/
import LdkModel.Model.OfferMeta
namespace Ldk.OfferMeta
variable (mac : Bytes → Bytes → Bytes) (pubOf : Bytes → Bytes)

theorem verifyHmac_eq (key iv md : Bytes) (pid : Option Bytes) (tlvs : Bytes) (h : ¬ md.length < 16) :
    verifyHmac mac key iv md pid tlvs = some (mac key (iv ++ md.take 16 ++ tlvs ++
      (if md.length = 16 then DERIVED_METADATA_AND_KEYS_HMAC_INPUT else DERIVED_METADATA_HMAC_INPUT) ++ pidInput pid)) := by
  unfold verifyHmac
  simp only [NONCE_LEN, h, ↓reduceIte, beq_iff_eq]

/-- the generated decisions of `verify_metadata`, in closed form.  `keysEq_iff` is where the
    REPRESENTATION compared by the Rust code matters: it holds for the full 33-byte compressed key and
    fails for an x-only comparison (two keys of opposite parity would compare equal). -/
theorem derivesKeys_iff (n : Nat) : C18Meta.derivesKeys n = true ↔ n = 16 := by
  unfold C18Meta.derivesKeys
  exact decide_eq_true_iff

theorem keysEq_iff (a b : Bytes) : C18Meta.keysEq a b = true ↔ a = b := by
  simp [C18Meta.keysEq, SecpKey.fixedTimeEq, SecpKey.PublicKey.serialize]

theorem hmacOk_iff (md hm : Bytes) : C18Meta.hmacOk md hm = true ↔ md.length = 48 ∧ md.drop 16 = hm := by
  simp only [C18Meta.hmacOk, SecpKey.fixedTimeEq, Bool.and_eq_true, decide_eq_true_eq, beq_iff_eq]
  simp only [C18Consts.NONCE_LENGTH, SecpKey.SHA256_LEN, Nat.reduceAdd]

theorem verifyTail_noKeys (md hm pk : Bytes) :
    verifyTail pubOf md hm pk = .okNoKeys ↔ md.length = 48 ∧ md.drop 16 = hm := by
  unfold verifyTail
  by_cases h16 : md.length = 16
  · simp only [(derivesKeys_iff _).mpr h16, ↓reduceIte]
    constructor
    · intro h; split at h <;> simp at h
    · intro h; omega
  · have hd : C18Meta.derivesKeys md.length = false := by
      rw [Bool.eq_false_iff]; exact fun h => h16 ((derivesKeys_iff _).mp h)
    simp only [hd, Bool.false_eq_true, ↓reduceIte]
    rw [← hmacOk_iff]
    constructor
    · intro h; split at h
      · assumption
      · simp at h
    · intro h; simp [h]

theorem verifyTail_keys (md hm pk sk : Bytes) :
    verifyTail pubOf md hm pk = .okKeys sk ↔ md.length = 16 ∧ sk = hm ∧ pubOf hm = pk := by
  unfold verifyTail
  by_cases h16 : md.length = 16
  · have hd : C18Meta.derivesKeys md.length = true := (derivesKeys_iff _).mpr h16
    simp only [hd, ↓reduceIte]
    simp only [h16, true_and]
    constructor
    · intro h; split at h
      · rename_i hp; simp only [Verdict.okKeys.injEq] at h
        exact ⟨h.symm, ((keysEq_iff _ _).mp hp).symm⟩
      · simp at h
    · rintro ⟨rfl, hp⟩
      have : C18Meta.keysEq pk (pubOf sk) = true := (keysEq_iff _ _).mpr hp.symm
      simp [this]
  · have hd : C18Meta.derivesKeys md.length = false := by
      rw [Bool.eq_false_iff]; exact fun h => h16 ((derivesKeys_iff _).mp h)
    simp only [hd, Bool.false_eq_true, ↓reduceIte, h16, false_and, iff_false]
    intro h
    split at h <;> simp at h

/-- flipping the parity byte of a (non-empty) compressed key gives another key -/
theorem flipParity_ne (pk : Bytes) (h : pk ≠ []) : SecpKey.PublicKey.flipParity pk ≠ pk := by
  cases pk with
  | nil => exact absurd rfl h
  | cons p x =>
    intro he
    simp only [SecpKey.PublicKey.flipParity, List.cons.injEq, and_true] at he
    have h2 : p ^^^ (p ^^^ 1) = p ^^^ p := by rw [he]
    rw [← UInt8.xor_assoc, UInt8.xor_self, UInt8.zero_xor] at h2
    exact absurd h2 (by decide)

/-- a no-keys acceptance needs 48 bytes of metadata, a keys acceptance 16 -/
theorem verifyRecipient_noKeys_len (key iv pk tlvs md : Bytes) :
    verifyRecipient mac pubOf key iv pk tlvs md = .okNoKeys ↔
      md.length = 48 ∧ verifyRecipient mac pubOf key iv pk tlvs md = .okNoKeys := by
  constructor
  · intro h
    refine ⟨?_, h⟩
    unfold verifyRecipient at h
    cases hh : verifyHmac mac key iv md none tlvs with
    | none => simp [hh] at h
    | some hm => simp only [hh] at h; exact ((verifyTail_noKeys pubOf md hm pk).mp h).1
  · exact fun h => h.2

/-! ### record ranges -/
open Ldk.Merkle (Rec)

theorem mem_takeWhile_sorted (lo hi : Nat) : ∀ (xs : List Rec) (r : Rec),
    xs.Pairwise (fun a b => a.ty < b.ty) → (∀ y ∈ xs, lo ≤ y.ty) → r ∈ xs → r.ty < hi →
    r ∈ xs.takeWhile (fun r => lo ≤ r.ty && r.ty < hi)
  | [], _, _, _, h, _ => by simp at h
  | y :: ys, r, hp, hlo, hr, hhi => by
    have hy : y.ty < hi := by
      rcases List.mem_cons.mp hr with rfl | h
      · exact hhi
      · exact Nat.lt_trans ((List.pairwise_cons.mp hp).1 r h) hhi
    have hin : (decide (lo ≤ y.ty) && decide (y.ty < hi)) = true := by
      simp [hlo y List.mem_cons_self, hy]
    rw [List.takeWhile_cons]
    simp only [hin, ↓reduceIte]
    rcases List.mem_cons.mp hr with rfl | h
    · exact List.mem_cons_self
    · exact List.mem_cons_of_mem _ (mem_takeWhile_sorted lo hi ys r (List.pairwise_cons.mp hp).2
        (fun z hz => hlo z (List.mem_cons_of_mem _ hz)) h hhi)

/-- on an ascending stream `TlvStream::range` keeps every record of the range -/
theorem mem_rangeRecs (lo hi : Nat) : ∀ (rs : List Rec) (r : Rec),
    rs.Pairwise (fun a b => a.ty < b.ty) → r ∈ rs → lo ≤ r.ty → r.ty < hi → r ∈ rangeRecs lo hi rs
  | [], _, _, h, _, _ => by simp at h
  | x :: xs, r, hp, hr, hlo, hhi => by
    unfold rangeRecs
    by_cases hx : (decide (lo ≤ x.ty) && decide (x.ty < hi)) = true
    · rw [List.dropWhile_cons]
      simp only [hx, Bool.not_true, Bool.false_eq_true, ↓reduceIte]
      apply mem_takeWhile_sorted lo hi (x :: xs) r hp _ hr hhi
      intro y hy
      rcases List.mem_cons.mp hy with rfl | h
      · simp only [Bool.and_eq_true, decide_eq_true_eq] at hx; exact hx.1
      · simp only [Bool.and_eq_true, decide_eq_true_eq] at hx
        exact Nat.le_trans hx.1 (Nat.le_of_lt ((List.pairwise_cons.mp hp).1 y h))
    · have hx' : (decide (lo ≤ x.ty) && decide (x.ty < hi)) = false := Bool.eq_false_iff.mpr hx
      rw [List.dropWhile_cons]
      simp only [hx', Bool.not_false, ↓reduceIte]
      have hne : r ≠ x := by
        rintro rfl
        apply hx
        simp [hlo, hhi]
      have hr' : r ∈ xs := by
        rcases List.mem_cons.mp hr with h | h
        · exact absurd h hne
        · exact h
      exact mem_rangeRecs lo hi xs r (List.pairwise_cons.mp hp).2 hr' hlo hhi

theorem of_mem_takeWhile {α} (p : α → Bool) : ∀ (xs : List α) (r : α), r ∈ xs.takeWhile p → p r = true
  | [], _, h => by simp at h
  | x :: xs, r, h => by
    rw [List.takeWhile_cons] at h
    by_cases hp : p x = true
    · simp only [hp, ↓reduceIte] at h
      rcases List.mem_cons.mp h with rfl | h'
      · exact hp
      · exact of_mem_takeWhile p xs r h'
    · simp [hp] at h

theorem rangeRecs_in_range (lo hi : Nat) (rs : List Rec) : ∀ r ∈ rangeRecs lo hi rs, lo ≤ r.ty ∧ r.ty < hi := by
  intro r hr
  unfold rangeRecs at hr
  have := of_mem_takeWhile _ _ r hr
  simpa using this

end Ldk.OfferMeta
