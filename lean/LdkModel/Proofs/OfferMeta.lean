/- Helper lemmas for the metadata theorems (C18): closed forms of `verifyHmac` / `verifyTail`. -/
import LdkModel.Model.OfferMeta
namespace Ldk.OfferMeta
variable (mac : Bytes → Bytes → Bytes) (pubOf : Bytes → Bytes)

theorem verifyHmac_eq (key iv md : Bytes) (pid : Option Bytes) (tlvs : Bytes) (h : ¬ md.length < 16) :
    verifyHmac mac key iv md pid tlvs = some (mac key (iv ++ md.take 16 ++ tlvs ++
      (if md.length = 16 then DERIVED_METADATA_AND_KEYS_HMAC_INPUT else DERIVED_METADATA_HMAC_INPUT) ++ pidInput pid)) := by
  unfold verifyHmac
  simp only [NONCE_LEN, h, ↓reduceIte, beq_iff_eq]

theorem verifyTail_noKeys (md hm pk : Bytes) :
    verifyTail pubOf md hm pk = .okNoKeys ↔ md.length = 48 ∧ md.drop 16 = hm := by
  unfold verifyTail
  simp only [NONCE_LEN, MAC_LEN, beq_iff_eq]
  by_cases h16 : md.length = 16
  · simp only [h16, ↓reduceIte]
    constructor
    · intro h; split at h <;> simp at h
    · intro h; omega
  · simp only [h16, ↓reduceIte, Bool.and_eq_true, beq_iff_eq]
    constructor
    · intro h; split at h
      · assumption
      · simp at h
    · intro h; simp [h]

theorem verifyTail_keys (md hm pk sk : Bytes) :
    verifyTail pubOf md hm pk = .okKeys sk ↔ md.length = 16 ∧ sk = hm ∧ pubOf hm = pk := by
  unfold verifyTail
  simp only [NONCE_LEN, MAC_LEN, beq_iff_eq]
  by_cases h16 : md.length = 16
  · simp only [h16, ↓reduceIte, true_and]
    constructor
    · intro h; split at h
      · rename_i hp; simp only [Verdict.okKeys.injEq] at h; exact ⟨h.symm, hp⟩
      · simp at h
    · rintro ⟨rfl, hp⟩; simp [hp]
  · simp only [h16, ↓reduceIte, false_and, iff_false]
    intro h
    by_cases c : (List.length md == 16 + 32 && List.drop 16 md == hm) = true <;> simp [c] at h


end Ldk.OfferMeta
