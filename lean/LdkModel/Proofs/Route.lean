/- Helper lemmas for C16 (Props/C16.lean): arithmetic of the generated `compute_fees`, the loop
   invariant of the fee recurrence (`RouteFees.go` / `recompute`), reflection of the route checker. -/
import LdkModel.Model.RouteValid
set_option linter.unusedSimpArgs false
namespace Ldk.RouteProofs
open Ldk Ldk.Router Ldk.RouteFees Ldk.RouteValid

/-! ### compute_fees -/

theorem compute_fees_eq_some_iff (a b p f : Nat) :
    compute_fees a b p = some f ↔ (a * p < 2 ^ 64 ∧ b + a * p / 1000000 < 2 ^ 64 ∧ f = b + a * p / 1000000) := by
  unfold compute_fees chkMul64 chkAdd64
  by_cases h1 : a * p < 2 ^ 64
  · by_cases h2 : b + a * p / 1000000 < 2 ^ 64
    · simp [h1, h2, eq_comm]
    · simp [h1, h2]
  · simp [h1]

theorem compute_fees_eq_none_iff (a b p : Nat) :
    compute_fees a b p = none ↔ (2 ^ 64 ≤ a * p ∨ 2 ^ 64 ≤ b + a * p / 1000000) := by
  unfold compute_fees chkMul64 chkAdd64
  by_cases h1 : a * p < 2 ^ 64
  · by_cases h2 : b + a * p / 1000000 < 2 ^ 64
    · simp [h1, h2] <;> omega
    · simp [h1, h2] <;> omega
  · simp [h1] <;> omega

theorem compute_fees_mono {a a' b p f' : Nat} (hle : a ≤ a') (h : compute_fees a' b p = some f') :
    ∃ f, compute_fees a b p = some f ∧ f ≤ f' := by
  rw [compute_fees_eq_some_iff] at h
  obtain ⟨h1, h2, rfl⟩ := h
  have hm : a * p ≤ a' * p := Nat.mul_le_mul_right p hle
  have hd : a * p / 1000000 ≤ a' * p / 1000000 := Nat.div_le_div_right hm
  refine ⟨b + a * p / 1000000, ?_, by omega⟩
  rw [compute_fees_eq_some_iff]
  exact ⟨by omega, by omega, rfl⟩

theorem htlcAmounts_length (fs : List Nat) : (htlcAmounts fs).length = fs.length := by
  induction fs with
  | nil => rfl
  | cons f t ih => simp [htlcAmounts, ih]

theorem htlcAmounts_head_eq_sum (fs : List Nat) : (htlcAmounts fs).headD 0 = fs.sum := by
  induction fs with
  | nil => rfl
  | cons f t ih => simp only [htlcAmounts, List.headD_cons, List.sum_cons, ih]

/-! ### the fee recurrence -/

theorem hopStep_nonlast (value : Nat) (h : FeeHop) (st : St) (o : HopOut) (ho : hopStep value h false st = o) :
    o.amt = max h.htlcMin (st.totalFeePaid + value + st.extra) ∧
    o.fee + (st.totalFeePaid + value + st.extra) = st.nextUseFee + o.amt ∧
    o.totalFeePaid + (st.totalFeePaid + value + st.extra) = st.totalFeePaid + o.amt ∧
    o.extra = st.extra := by
  subst ho
  unfold hopStep chkSub cur_hop_transferred_amount_msat
  by_cases hc : st.totalFeePaid + value + st.extra ≤ h.htlcMin
  · simp [hc] <;> omega
  · simp [hc] <;> omega

theorem hopStep_last_init (value : Nat) (h : FeeHop) (o : HopOut) (ho : hopStep value h true St.init = o) :
    o.amt = max h.htlcMin value ∧ o.fee = o.amt ∧ o.totalFeePaid = 0 ∧ o.amt = value + o.extra := by
  subst ho
  unfold hopStep chkSub St.init cur_hop_transferred_amount_msat
  by_cases hc : value ≤ h.htlcMin
  · simp [hc] <;> omega
  · simp [hc] <;> omega

/-- loop invariant after the iterations for a non-empty suffix `h :: rest` of the hop list -/
structure LoopInv (value : Nat) (h : FeeHop) (rest : List FeeHop) (st : St) : Prop where
  len : st.fees.length = (h :: rest).length
  carry : st.totalFeePaid + value + st.extra = (htlcAmounts st.fees).headD 0 + st.nextUseFee
  use : compute_fees ((htlcAmounts st.fees).headD 0) h.base h.prop = some st.nextUseFee
  mins : MinsOK (h :: rest) (htlcAmounts st.fees)
  margins : MarginsOK (h :: rest) (htlcAmounts st.fees)
  exact : ExactOK (h :: rest) (htlcAmounts st.fees)
  last : st.fees.getLast? = some (value + st.extra)
  lastMin : ∀ l, (h :: rest).getLast? = some l → value + st.extra = max value l.htlcMin
  tracked : st.amts = htlcAmounts st.fees

theorem go_single (value : Nat) (h : FeeHop) (st : St) (hg : go value [h] = some st) : LoopInv value h [] st := by
  simp only [go, List.isEmpty_nil] at hg
  generalize ho : hopStep value h true St.init = o at hg
  obtain ⟨h1, h2, h3, h4⟩ := hopStep_last_init value h o ho
  cases hf : compute_fees o.amt h.base h.prop with
  | none => simp [hf] at hg
  | some nf =>
    simp only [hf, Option.some.injEq] at hg
    subst hg
    refine ⟨by simp [St.init], ?_, ?_, ?_, ?_, ?_, ?_, ?_, ?_⟩
    · simp [htlcAmounts, St.init]; omega
    · simpa [htlcAmounts, St.init, h2] using hf
    · simp [htlcAmounts, St.init, MinsOK]; omega
    · simp [MarginsOK]
    · simp [ExactOK]
    · simp [St.init]; omega
    · intro l hl
      simp at hl; subst hl
      simp only []; omega
    · simp [htlcAmounts, St.init, h2]

theorem htlcAmounts_cons_head (f : Nat) (t : List Nat) :
    (htlcAmounts (f :: t)).headD 0 = f + (htlcAmounts t).headD 0 := by simp [htlcAmounts]

/-- one non-final, non-first iteration preserves the invariant -/
theorem step_inv (value : Nat) (h h' : FeeHop) (rest : List FeeHop) (st' : St) (o : HopOut) (nf : Nat)
    (inv : LoopInv value h' rest st') (ho : hopStep value h false st' = o)
    (hf : compute_fees o.amt h.base h.prop = some nf) :
    LoopInv value h (h' :: rest)
      { totalFeePaid := o.totalFeePaid + nf, extra := o.extra, nextUseFee := nf,
        fees := o.fee :: st'.fees, amts := o.amt :: st'.amts } := by
  obtain ⟨h1, h2, h3, h4⟩ := hopStep_nonlast value h st' o ho
  have hc := inv.carry
  -- the new head amount is exactly the amount the code tracked
  have hhead : o.fee + (htlcAmounts st'.fees).headD 0 = o.amt := by omega
  cases hfs : st'.fees with
  | nil => have := inv.len; simp [hfs] at this
  | cons f' t' =>
    have hA' : (htlcAmounts st'.fees).headD 0 = f' + (htlcAmounts t').headD 0 := by rw [hfs]; simp [htlcAmounts]
    have hsum : o.fee + (f' + (htlcAmounts t').headD 0) = o.amt := by rw [← hA']; exact hhead
    refine ⟨by have := inv.len; simp [hfs] at this; simp; omega, ?_, ?_, ?_, ?_, ?_, ?_, ?_, ?_⟩
    · simp only [htlcAmounts_cons_head, h4]; rw [← hA']; omega
    · simp only [htlcAmounts_cons_head]; rw [← hA', hhead]; exact hf
    · have hm := inv.mins
      rw [hfs] at hm
      simp only [htlcAmounts, MinsOK, List.headD_cons] at hm ⊢
      exact ⟨by omega, hm⟩
    · have hm := inv.margins
      have hu := inv.use
      rw [hfs] at hm hu
      simp only [htlcAmounts, MarginsOK, List.headD_cons] at hm hu ⊢
      exact ⟨⟨st'.nextUseFee, by simpa [htlcAmounts] using hu, by omega⟩, hm⟩
    · have hm := inv.exact
      have hu := inv.use
      rw [hfs] at hm hu
      simp only [htlcAmounts, ExactOK, List.headD_cons] at hm hu ⊢
      refine ⟨⟨st'.nextUseFee, by simpa [htlcAmounts] using hu, ?_⟩, hm⟩
      rw [← hA'] at hsum ⊢
      omega
    · have hl := inv.last
      rw [hfs] at hl
      simp only [h4]
      rw [List.getLast?_cons_cons]; exact hl
    · intro l hl
      simp only [h4]
      rw [List.getLast?_cons_cons] at hl
      exact inv.lastMin l hl
    · have ht := inv.tracked
      rw [hfs] at ht
      simp only [htlcAmounts, List.headD_cons] at ht ⊢
      rw [ht, hsum]

theorem go_inv (value : Nat) : ∀ (rest : List FeeHop) (h : FeeHop) (st : St),
    go value (h :: rest) = some st → LoopInv value h rest st := by
  intro rest
  induction rest with
  | nil => intro h st hg; exact go_single value h st hg
  | cons h' rest' ih =>
    intro h st hg
    rw [go] at hg
    cases hg' : go value (h' :: rest') with
    | none => simp [hg'] at hg
    | some st' =>
      simp only [hg', List.isEmpty_cons] at hg
      generalize ho : hopStep value h false st' = o at hg
      cases hf : compute_fees o.amt h.base h.prop with
      | none => simp [hf] at hg
      | some nf =>
        simp only [hf, Option.some.injEq] at hg
        subst hg
        exact step_inv value h h' rest' st' o nf (ih h' st' hg') ho hf

/-- what `recompute` guarantees about its result -/
structure RecInv (value : Nat) (hops : List FeeHop) (res : Result) : Prop where
  len : res.fees.length = hops.length
  retGe : value ≤ res.ret
  mins : MinsOK hops (htlcAmounts res.fees)
  margins : MarginsOK hops (htlcAmounts res.fees)
  exact : ExactOK hops (htlcAmounts res.fees)
  last : hops ≠ [] → res.fees.getLast? = some res.ret
  lastMin : ∀ l, hops.getLast? = some l → res.ret = max value l.htlcMin
  tracked : res.amts = htlcAmounts res.fees

theorem recompute_inv (value : Nat) (hops : List FeeHop) (res : Result)
    (hr : recompute value hops = some res) : RecInv value hops res := by
  cases hops with
  | nil =>
    simp only [recompute, Option.some.injEq] at hr
    subst hr
    exact ⟨rfl, Nat.le_refl _, by simp [htlcAmounts, MinsOK], by simp [htlcAmounts, MarginsOK],
      by simp [htlcAmounts, ExactOK], by simp, by simp, by simp [htlcAmounts]⟩
  | cons h rest =>
    cases rest with
    | nil =>
      simp only [recompute, go, List.isEmpty_nil, Option.some.injEq] at hr
      generalize ho : hopStep value h true St.init = o at hr
      obtain ⟨h1, h2, h3, h4⟩ := hopStep_last_init value h o ho
      subst hr
      refine ⟨by simp [St.init], by simp, ?_, by simp [St.init, htlcAmounts, MarginsOK],
        by simp [St.init, htlcAmounts, ExactOK], ?_, ?_, by simp [St.init, htlcAmounts, h2]⟩
      · simp [St.init, htlcAmounts, MinsOK]; omega
      · intro _; simp [St.init]; omega
      · intro l hl; simp at hl; subst hl; simp only []; omega
    | cons h' rest' =>
      rw [recompute] at hr
      cases hg' : go value (h' :: rest') with
      | none => simp [hg'] at hr
      | some st' =>
        simp only [hg', List.isEmpty_cons, Option.some.injEq] at hr
        generalize ho : hopStep value h false st' = o at hr
        subst hr
        have inv := go_inv value rest' h' st' hg'
        obtain ⟨h1, h2, h3, h4⟩ := hopStep_nonlast value h st' o ho
        have hc := inv.carry
        have hhead : o.fee + (htlcAmounts st'.fees).headD 0 = o.amt := by omega
        cases hfs : st'.fees with
        | nil => have := inv.len; simp [hfs] at this
        | cons f' t' =>
          have hA' : (htlcAmounts st'.fees).headD 0 = f' + (htlcAmounts t').headD 0 := by rw [hfs]; simp [htlcAmounts]
          have hsum : o.fee + (f' + (htlcAmounts t').headD 0) = o.amt := by rw [← hA']; exact hhead
          refine ⟨by have := inv.len; simp [hfs] at this; simp; omega, by simp, ?_, ?_, ?_, ?_, ?_, ?_⟩
          · have hm := inv.mins
            rw [hfs] at hm
            simp only [htlcAmounts, MinsOK, List.headD_cons] at hm ⊢
            exact ⟨by omega, hm⟩
          · have hm := inv.margins
            have hu := inv.use
            rw [hfs] at hm hu
            simp only [htlcAmounts, MarginsOK, List.headD_cons] at hm hu ⊢
            exact ⟨⟨st'.nextUseFee, by simpa [htlcAmounts] using hu, by omega⟩, hm⟩
          · have hm := inv.exact
            have hu := inv.use
            rw [hfs] at hm hu
            simp only [htlcAmounts, ExactOK, List.headD_cons] at hm hu ⊢
            refine ⟨⟨st'.nextUseFee, by simpa [htlcAmounts] using hu, ?_⟩, hm⟩
            rw [← hA'] at hsum ⊢
            omega
          · intro _
            have hl := inv.last
            rw [hfs] at hl
            rw [List.getLast?_cons_cons, hl, h4]
          · intro l hl
            rw [List.getLast?_cons_cons] at hl
            rw [h4]; exact inv.lastMin l hl
          · have ht := inv.tracked
            rw [hfs] at ht
            simp only [htlcAmounts, List.headD_cons] at ht ⊢
            rw [ht, hsum]

/-! ### the route checker -/

theorem hopOk_iff (g : Graph) (p : Params) (c : Chan) (amt : Nat) : hopOk g p c amt = true ↔ HopOK g p c amt := by
  simp [hopOk, HopOK, and_assoc]

theorem chainOk_iff (g : Graph) (p : Params) : ∀ (path : RPath) (src : Nat),
    chainOk g p src path = true ↔ ChainOK g p src path := by
  intro path
  induction path with
  | nil => intro src; simp [chainOk]; intro h; cases h
  | cons h t ih =>
    intro src
    cases t with
    | nil =>
      simp only [chainOk]
      constructor
      · intro hc
        cases hl : resolve g p src h with
        | none => simp [hl] at hc
        | some c =>
          simp only [hl, Bool.and_eq_true, decide_eq_true_eq, hopOk_iff] at hc
          exact ChainOK.last src h c hl hc.1.1 hc.1.2 hc.2
      · intro hc
        cases hc with
        | last _ _ c hl hok hp hf =>
          simp only [hl, Bool.and_eq_true, decide_eq_true_eq, hopOk_iff]
          exact ⟨⟨hok, hp⟩, hf⟩
    | cons h' t' =>
      simp only [chainOk]
      constructor
      · intro hc
        cases hl : resolve g p src h with
        | none => simp [hl] at hc
        | some c =>
          cases hl' : resolve g p h.node h' with
          | none => simp [hl, hl'] at hc
          | some c' =>
            simp only [hl, hl', Bool.and_eq_true, decide_eq_true_eq, hopOk_iff, Bool.not_eq_true'] at hc
            obtain ⟨⟨⟨⟨hnb, hok⟩, hfee⟩, hcl⟩, hrest⟩ := hc
            cases hf : compute_fees (pathAmount (h' :: t')) c'.feeBase c'.feeProp with
            | none => simp [hf] at hfee
            | some f =>
              simp only [hf, decide_eq_true_eq] at hfee
              exact ChainOK.cons src h h' t' c c' f hnb hl hok hl' hf hfee hcl ((ih h.node).mp hrest)
      · intro hc
        cases hc with
        | cons _ _ _ _ c c' f hnb hl hok hl' hf hfee hcl hrest =>
          simp only [hl, hl', hf, Bool.and_eq_true, decide_eq_true_eq, hopOk_iff, Bool.not_eq_true']
          exact ⟨⟨⟨⟨hnb, hok⟩, hfee⟩, hcl⟩, (ih h.node).mpr hrest⟩

theorem chkFee_iff (p : Params) (r : Route) : chkFee p r = true ↔ ∀ m, p.maxFee = some m → totalFees p r ≤ m := by
  unfold chkFee
  cases p.maxFee with
  | none => simp
  | some m => simp

theorem routeValid_iff (g : Graph) (p : Params) (r : Route) : routeValid g p r = true ↔ RouteOK g p r := by
  constructor
  · intro h
    simp only [routeValid, Bool.and_eq_true] at h
    obtain ⟨⟨⟨⟨⟨⟨⟨h1, h2⟩, h3⟩, h4⟩, h5⟩, h6⟩, h7⟩, h8⟩ := h
    refine ⟨by simpa [chkPaths] using h1, ?_, by simpa [chkLen] using h3, by simpa [chkCltv] using h4,
      by simpa [chkCapacity] using h5, by simpa [chkAmount] using h6, by simpa [chkNeeded] using h7,
      (chkFee_iff p r).mp h8⟩
    intro path hp
    simp only [chkChain, List.all_eq_true] at h2
    exact (chainOk_iff g p path p.payer).mp (h2 path hp)
  · intro h
    simp only [routeValid, Bool.and_eq_true]
    refine ⟨⟨⟨⟨⟨⟨⟨by simpa [chkPaths] using h.paths, ?_⟩, by simpa [chkLen] using h.len⟩,
      by simpa [chkCltv] using h.cltv⟩, by simpa [chkCapacity] using h.capacity⟩,
      by simpa [chkAmount] using h.amount⟩, by simpa [chkNeeded] using h.needed⟩, (chkFee_iff p r).mpr h.fee⟩
    simp only [chkChain, List.all_eq_true]
    intro path hp
    exact (chainOk_iff g p path p.payer).mpr (h.chain path hp)

theorem verdict_valid_iff (g : Graph) (p : Params) (r : Route) : verdict g p r = "valid" ↔ routeValid g p r = true := by
  unfold verdict routeValid
  cases chkPaths p r <;> cases chkChain g p r <;> cases chkLen p r <;> cases chkCltv p r <;>
    cases chkCapacity g p r <;> cases chkAmount p r <;> cases chkNeeded p r <;> cases chkFee p r <;> decide

end Ldk.RouteProofs
