/- Helper lemmas for Props/C04 (model: Model/InboundPay.lean). No property theorem lives here. -/
import LdkModel.Model.InboundPay
namespace Ldk.InboundPay
open Ldk

/-! ## bytes -/

theorem be64_length (n : Nat) : (be64 n).length = 8 := rfl

theorem fromBE_be64 (n : Nat) (h : n < 2 ^ 64) : fromBE (be64 n) = n := by
  simp only [be64, fromBE, List.foldl_cons, List.foldl_nil, UInt8.toNat_ofNat']
  omega

theorem or_shift_eq (a m i : Nat) (h : a < 2 ^ i) : a ||| (m <<< i) = m * 2 ^ i + a := by
  rw [Nat.or_comm, ← Nat.shiftLeft_add_eq_or_of_lt h, Nat.shiftLeft_eq]

theorem take8_be64_append (n : Nat) (l : Bytes) : (be64 n ++ l).take 8 = be64 n := by
  simp [be64]

theorem drop8_be64_append (n : Nat) (l : Bytes) : (be64 n ++ l).drop 8 = l := by
  simp [be64]

theorem pack48_lt (d e : Nat) (h3 : e < 2 ^ 48) (h4 : d < 2 ^ 16) : d * 2 ^ 48 + e < 2 ^ 64 := by omega
theorem pack61_lt (m a : Nat) (h3 : a < 2 ^ 61) (h4 : m < 8) : m * 2 ^ 61 + a < 2 ^ 64 := by omega

/-- range of the expiry word: 48 bits (and a 16-bit delta) with a custom final CLTV, 64 bits without -/
def ExpOk (e : Nat) : Option Nat → Prop
  | some d => e < 2 ^ 48 ∧ d < 2 ^ 16
  | none => e < 2 ^ 64

/-- what `verify` reads back from what `construct_info_bytes` packed -/
theorem unpack_pack (m a e : Nat) (c : Option Nat) (hm : m < 8) (ha : a < 2 ^ 61)
    (he : ExpOk e c) :
    unpackInfo (packInfo m a e c) =
      { methodBits := m, amt := a,
        cltvBits := (match c with | some d => d | none => e >>> 48),
        expiry48 := e % 2 ^ 48,
        expiry64 := (match c with | some d => d * 2 ^ 48 + e | none => e) } := by
  unfold unpackInfo packInfo
  rw [take8_be64_append, drop8_be64_append, or_shift_eq a m 61 ha]
  have h1 : m * 2 ^ 61 + a < 2 ^ 64 := pack61_lt m a ha hm
  rw [fromBE_be64 _ h1]
  cases c with
  | none =>
    simp only [ExpOk] at he ⊢
    rw [fromBE_be64 _ he]
    simp only [Nat.shiftRight_eq_div_pow]
    congr 1 <;> omega
  | some d =>
    simp only [ExpOk] at he ⊢
    rw [or_shift_eq e d 48 he.1]
    have h2 : d * 2 ^ 48 + e < 2 ^ 64 := pack48_lt d e he.1 he.2
    rw [fromBE_be64 _ h2]
    simp only [Nat.shiftRight_eq_div_pow]
    congr 1 <;> omega

/-! ## construct_info_bytes -/

theorem max_value_lt : MAX_VALUE_MSAT < 2305843009213693952 := by
  have : MAX_VALUE_MSAT = 2100000000000000000 := rfl
  omega

theorem constructInfo_eq_some (minAmt : Option Nat) (m : Method) (delta now : Nat) (cltv : Option Nat) (info : Bytes) :
    constructInfo minAmt m delta now cltv = some info ↔
      ((∀ a, minAmt = some a → a ≤ MAX_VALUE_MSAT) ∧
       (cltv.isSome = true → absoluteExpiry now delta ≤ 2 ^ 48 - 1) ∧
       info = packInfo m.bits (minAmt.getD 0) (absoluteExpiry now delta) cltv) := by
  have hmax := max_value_lt
  have h61 : (2:Nat) ^ 61 = 2305843009213693952 := by omega
  unfold constructInfo
  cases minAmt with
  | none =>
    cases cltv with
    | none => simp; exact eq_comm
    | some d =>
      simp only [Bool.false_eq_true, ↓reduceIte, Option.isSome_some, Bool.true_and, decide_eq_true_eq,
        Option.getD_none, reduceCtorEq, false_implies, implies_true, true_and, forall_const]
      split
      · simp; omega
      · exact ⟨fun h => ⟨by omega, (Option.some.inj h).symm⟩, fun h => by rw [h.2]⟩
  | some a =>
    cases cltv with
    | none =>
      simp only [decide_eq_true_eq, Option.isSome_none, Bool.false_and, Bool.false_eq_true, ↓reduceIte,
        Option.getD_some, Option.some.injEq, forall_eq', false_implies, true_and]
      split
      · simp; omega
      · split
        · omega
        · exact ⟨fun h => ⟨by omega, (Option.some.inj h).symm⟩, fun h => by rw [h.2]⟩
    | some d =>
      simp only [decide_eq_true_eq, Option.isSome_some, Bool.true_and, Option.getD_some, Option.some.injEq,
        forall_eq', forall_const]
      split
      · simp; omega
      · split
        · omega
        · split
          · simp; omega
          · exact ⟨fun h => ⟨by omega, by omega, (Option.some.inj h).symm⟩, fun h => by rw [h.2.2]⟩

theorem constructInfo_eq_none (minAmt : Option Nat) (m : Method) (delta now : Nat) (cltv : Option Nat) :
    constructInfo minAmt m delta now cltv = none ↔
      ((∃ a, minAmt = some a ∧ a > MAX_VALUE_MSAT) ∨
       (cltv.isSome = true ∧ absoluteExpiry now delta > 2 ^ 48 - 1)) := by
  constructor
  · intro h
    apply Classical.byContradiction
    intro hn
    have : constructInfo minAmt m delta now cltv = some (packInfo m.bits (minAmt.getD 0) (absoluteExpiry now delta) cltv) := by
      rw [constructInfo_eq_some]
      refine ⟨fun a ha => ?_, fun hc => ?_, rfl⟩
      · apply Classical.byContradiction; intro h2; exact hn (Or.inl ⟨a, ha, by omega⟩)
      · apply Classical.byContradiction; intro h2; exact hn (Or.inr ⟨hc, by omega⟩)
    rw [h] at this; cases this
  · intro h
    cases hc : constructInfo minAmt m delta now cltv with
    | none => rfl
    | some info =>
      rw [constructInfo_eq_some] at hc
      rcases h with ⟨a, ha, hgt⟩ | ⟨h1, h2⟩
      · have := hc.1 a ha; omega
      · have := hc.2.1 h1; omega

theorem packInfo_length (m a e : Nat) (c : Option Nat) : (packInfo m a e c).length = 16 := by
  simp [packInfo, be64_length]

/-! ## secrets -/

theorem Method.fromBits_bits (m : Method) : Method.fromBits m.bits = some m := by cases m <;> rfl
theorem Method.bits_lt (m : Method) : m.bits < 8 := by cases m <;> decide
theorem Method.fromBits_some {n : Nat} {m : Method} (h : Method.fromBits n = some m) : n = m.bits := by
  unfold Method.fromBits at h
  split at h <;> simp at h <;> subst h <;> rfl

theorem take16_length (r : Bytes) (h : 16 ≤ r.length) : (r.take 16).length = 16 := by
  simp [List.length_take]; omega

theorem mac_take16_length (C : PayCrypto) (hC : C.Wf) (k m : Bytes) : ((C.mac k m).take 16).length = 16 :=
  take16_length _ (by rw [hC.mac_len]; omega)

theorem decryptInfo_construct (C : PayCrypto) (hC : C.Wf) (k : Keys) (iv info : Bytes) (hiv : iv.length = 16) :
    decryptInfo C k (constructSecret C k iv info) = (iv, info) := by
  unfold decryptInfo constructSecret
  simp only [List.take_left' hiv, List.drop_left' hiv, hC.enc_enc]

/-- The second half of `verify` on a secret built by `construct_payment_secret` from packed info. -/
theorem verify_constructed (C : PayCrypto) (hC : C.Wf) (k : Keys) (m : Method) (a e : Nat) (c : Option Nat)
    (iv hash : Bytes) (md : Option Bytes) (hiv : iv.length = 16) (ha : a < 2 ^ 61)
    (he : ExpOk e c)
    (hc : c.isSome = m.hasCltv) (r : MacOk)
    (hmac : macStage C k hash (constructSecret C k iv (packInfo m.bits a e c)) md = .ok r) (total now' : Nat) :
    verify C k hash (constructSecret C k iv (packInfo m.bits a e c)) total md now' =
      if total < a then .error .amountTooLow
      else if e < now' then .error .expired
      else .ok ⟨r.preimage, c, r.metadata⟩ := by
  unfold verify
  rw [hmac]
  simp only [infoOf, decryptInfo_construct C hC k iv _ hiv, unpack_pack m.bits a e c m.bits_lt ha he,
    hasCltvOf, Method.fromBits_bits, ← hc]
  cases c with
  | none => simp
  | some d =>
    simp only [Option.isSome_some, ↓reduceIte]
    have : e % 2 ^ 48 = e := Nat.mod_eq_of_lt he.1
    rw [this]

/-- the authentication stage succeeds exactly when the method's MAC equation holds -/
theorem macStage_ok_iff (C : PayCrypto) (k : Keys) (hash secret : Bytes) (md : Option Bytes) :
    (∃ r, macStage C k hash secret md = .ok r) ↔ MacEq C k hash secret md := by
  unfold macStage MacEq
  simp only
  cases Method.fromBits (unpackInfo (decryptInfo C k secret).2).methodBits with
  | none => simp
  | some m =>
    cases m
    case spontaneous =>
      cases md <;> simp
      split <;> simp_all
    case ldkHash => simp only; split <;> simp_all
    case ldkHashCltv => simp only; split <;> simp_all
    case userHash =>
      simp only
      split
      · simp_all
      · cases md with
        | none => simp_all
        | some m => simp only; split <;> simp_all <;> omega
    case userHashCltv =>
      simp only
      split
      · simp_all
      · cases md with
        | none => simp_all
        | some m => simp only; split <;> simp_all <;> omega

/-- a preimage returned by the authentication stage hashes to the payment hash -/
theorem macStage_preimage (C : PayCrypto) (k : Keys) (hash secret : Bytes) (md : Option Bytes) (r : MacOk)
    (h : macStage C k hash secret md = .ok r) (pre : Bytes) (hp : r.preimage = some pre) : C.hash pre = hash := by
  unfold macStage at h
  simp only at h
  cases hb : Method.fromBits (unpackInfo (decryptInfo C k secret).2).methodBits with
  | none => rw [hb] at h; cases h
  | some m =>
    rw [hb] at h
    cases m <;> simp only at h <;> repeat' split at h
    all_goals first
      | (cases h; done)
      | (cases h; simp only [reduceCtorEq] at hp; done)
      | (cases h; simp only [Option.some.injEq] at hp; subst hp; rename_i hne; exact (Classical.not_not.mp hne).symm)

/-- the authentication stage never answers with the amount / expiry errors -/
theorem macStage_error_kind (C : PayCrypto) (k : Keys) (hash secret : Bytes) (md : Option Bytes) (e : VerifyErr)
    (h : macStage C k hash secret md = .error e) : e ≠ .amountTooLow ∧ e ≠ .expired := by
  unfold macStage at h
  simp only at h
  cases hb : Method.fromBits (unpackInfo (decryptInfo C k secret).2).methodBits with
  | none => rw [hb] at h; cases h; exact ⟨by decide, by decide⟩
  | some m =>
    rw [hb] at h
    cases m <;> simp only at h <;> repeat' split at h
    all_goals first
      | (cases h; exact ⟨by decide, by decide⟩)
      | cases h

/-- an authentication failure is the answer of `verify`, whatever the amount and the time -/
theorem verify_of_macStage_error (C : PayCrypto) (k : Keys) (hash secret : Bytes) (md : Option Bytes)
    (e : VerifyErr) (h : macStage C k hash secret md = .error e) (total now : Nat) :
    verify C k hash secret total md now = .error e := by
  unfold verify; rw [h]

theorem verify_of_macStage_ok (C : PayCrypto) (k : Keys) (hash secret : Bytes) (md : Option Bytes)
    (r : MacOk) (h : macStage C k hash secret md = .ok r) (total now : Nat) :
    verify C k hash secret total md now =
      if total < minAmtOf C k secret then .error .amountTooLow
      else if expiryOf C k secret < now then .error .expired
      else .ok ⟨r.preimage, minFinalCltvOf C k secret, r.metadata⟩ := by
  unfold verify minAmtOf expiryOf minFinalCltvOf; rw [h]

/-! ## the authentication stage on freshly created secrets -/

theorem methodBits_constructed (C : PayCrypto) (hC : C.Wf) (k : Keys) (m : Method) (a e : Nat) (c : Option Nat)
    (iv : Bytes) (hiv : iv.length = 16) (ha : a < 2 ^ 61)
    (he : ExpOk e c) :
    Method.fromBits (unpackInfo (decryptInfo C k (constructSecret C k iv (packInfo m.bits a e c))).2).methodBits = some m := by
  rw [decryptInfo_construct C hC k iv _ hiv, unpack_pack m.bits a e c m.bits_lt ha he, Method.fromBits_bits]

theorem macStage_ldk (C : PayCrypto) (hC : C.Wf) (k : Keys) (m : Method) (hm : m = .ldkHash ∨ m = .ldkHashCltv)
    (a e : Nat) (c : Option Nat) (iv : Bytes) (hiv : iv.length = 16) (ha : a < 2 ^ 61)
    (he : ExpOk e c) (md' : Option Bytes) :
    macStage C k (C.hash (C.mac k.ldkKey (iv ++ packInfo m.bits a e c ++ metaPart md')))
        (constructSecret C k iv (packInfo m.bits a e c)) md' =
      .ok ⟨some (C.mac k.ldkKey (iv ++ packInfo m.bits a e c ++ metaPart md')), md'.map (C.enc k.metaKey iv)⟩ := by
  have hb := methodBits_constructed C hC k m a e c iv hiv ha he
  unfold macStage
  simp only [hb]
  rw [decryptInfo_construct C hC k iv _ hiv]
  rcases hm with rfl | rfl <;> simp

theorem macStage_user (C : PayCrypto) (hC : C.Wf) (k : Keys) (m : Method) (hm : m = .userHash ∨ m = .userHashCltv)
    (a e : Nat) (c : Option Nat) (hash ivr : Bytes) (hivr : ivr.length = 16) (ha : a < 2 ^ 61)
    (he : ExpOk e c) (md : Option Bytes) :
    macStage C k hash
        (constructSecret C k ((C.mac k.userKey (packInfo m.bits a e c ++ hash ++
            metaPart (md.map fun x => C.enc k.metaKey ivr x ++ ivr))).take 16) (packInfo m.bits a e c))
        (md.map fun x => C.enc k.metaKey ivr x ++ ivr) = .ok ⟨none, md⟩ := by
  have hiv := mac_take16_length C hC k.userKey (packInfo m.bits a e c ++ hash ++
            metaPart (md.map fun x => C.enc k.metaKey ivr x ++ ivr))
  have hb := methodBits_constructed C hC k m a e c _ hiv ha he
  unfold macStage
  simp only [hb]
  rw [decryptInfo_construct C hC k _ _ hiv]
  rcases hm with rfl | rfl <;> cases md <;> simp [hivr, hC.enc_enc, Nat.not_lt.mpr (Nat.le_add_left 16 _)]

theorem macStage_spont (C : PayCrypto) (hC : C.Wf) (k : Keys) (a e : Nat) (c : Option Nat) (hash : Bytes)
    (ha : a < 2 ^ 61) (he : ExpOk e c) :
    macStage C k hash
        (constructSecret C k ((C.mac k.spontKey (packInfo Method.spontaneous.bits a e c)).take 16)
          (packInfo Method.spontaneous.bits a e c)) none = .ok ⟨none, none⟩ := by
  have hiv := mac_take16_length C hC k.spontKey (packInfo Method.spontaneous.bits a e c)
  have hb := methodBits_constructed C hC k .spontaneous a e c _ hiv ha he
  unfold macStage
  simp only [hb]
  rw [decryptInfo_construct C hC k _ _ hiv]
  simp

/-! ## the MPP accumulator -/

theorem accIntended_spec (ps : List Part) (acc : Nat) :
    (accIntended acc ps ≥ MAX_VALUE_MSAT ↔ acc + sumIntended ps ≥ MAX_VALUE_MSAT) ∧
    (accIntended acc ps < MAX_VALUE_MSAT → accIntended acc ps = acc + sumIntended ps) := by
  induction ps generalizing acc with
  | nil => simp [accIntended, sumIntended]
  | cons p ps ih =>
    simp only [accIntended, sumIntended, List.map_cons, List.sum_cons]
    split
    · rename_i h
      constructor
      · constructor <;> intro _ <;> omega
      · intro h2; omega
    · rename_i h
      have := ih (acc + p.intended)
      simp only [sumIntended] at this
      constructor
      · rw [this.1]; constructor <;> intro _ <;> omega
      · intro h2; rw [this.2 h2]; omega

theorem insertPart_perm (p : Part) (l : List Part) : (insertPart p l).Perm (p :: l) := by
  induction l with
  | nil => exact List.Perm.refl _
  | cons q qs ih =>
    simp only [insertPart]
    split
    · exact List.Perm.refl _
    · exact (List.Perm.cons q ih).trans (List.Perm.swap p q qs)

theorem sortParts_perm (l : List Part) : (sortParts l).Perm l := by
  induction l with
  | nil => exact List.Perm.refl _
  | cons a l ih =>
    simp only [sortParts, List.foldr_cons] at ih ⊢
    exact (insertPart_perm a _).trans (List.Perm.cons a ih)

theorem sumValue_perm {l₁ l₂ : List Part} (h : l₁.Perm l₂) : sumValue l₁ = sumValue l₂ :=
  (h.map _).sum_nat
theorem sumIntended_perm {l₁ l₂ : List Part} (h : l₁.Perm l₂) : sumIntended l₁ = sumIntended l₂ :=
  (h.map _).sum_nat
theorem sumSkim_perm {l₁ l₂ : List Part} (h : l₁.Perm l₂) : sumSkim l₁ = sumSkim l₂ :=
  (h.map _).sum_nat
theorem sumSkim_append (a b : List Part) : sumSkim (a ++ b) = sumSkim a + sumSkim b := by
  simp [sumSkim, List.sum_append]
theorem sumSkim_setRecv (l : List Part) (x : Option Nat) :
    sumSkim (l.map fun q => { q with totalRecv := x }) = sumSkim l := by
  simp [sumSkim, List.map_map, Function.comp_def]
theorem sumSkim_tick (l : List Part) :
    sumSkim (l.map fun q => { q with ticks := q.ticks + 1 }) = sumSkim l := by
  simp [sumSkim, List.map_map, Function.comp_def]

theorem sumValue_append (a b : List Part) : sumValue (a ++ b) = sumValue a + sumValue b := by
  simp [sumValue, List.sum_append]
theorem sumIntended_append (a b : List Part) : sumIntended (a ++ b) = sumIntended a + sumIntended b := by
  simp [sumIntended, List.sum_append]

theorem sumValue_setRecv (l : List Part) (x : Option Nat) :
    sumValue (l.map fun q => { q with totalRecv := x }) = sumValue l := by
  simp [sumValue, List.map_map, Function.comp_def]
theorem sumIntended_setRecv (l : List Part) (x : Option Nat) :
    sumIntended (l.map fun q => { q with totalRecv := x }) = sumIntended l := by
  simp [sumIntended, List.map_map, Function.comp_def]
theorem sumIntended_tick (l : List Part) :
    sumIntended (l.map fun q => { q with ticks := q.ticks + 1 }) = sumIntended l := by
  simp [sumIntended, List.map_map, Function.comp_def]

theorem sumValue_filter_le (l : List Part) (f : Part → Bool) : sumValue (l.filter f) ≤ sumValue l := by
  induction l with
  | nil => simp [sumValue]
  | cons p ps ih =>
    simp only [List.filter_cons]
    split <;> simp only [sumValue, List.map_cons, List.sum_cons] at * <;> omega

theorem minCltv_spec (l : List Part) (m : Nat) :
    minCltv l = some m ↔ (m ∈ l.map (·.cltv) ∧ ∀ c ∈ l.map (·.cltv), m ≤ c) := by
  unfold minCltv
  exact List.min?_eq_some_iff

/-- The TRANSLATED `claim_deadline` expression of handle_claimable_htlc (`MppGen.eventClaimDeadline`, regenerated from
    the Rust text on every run) selects the MINIMUM `cltv_expiry` of the set it is given (the new part's own expiry
    for an empty set) and applies the generated `claimDeadline` arithmetic to it.  This is the lemma that stops
    checking when the Rust picks another element (first / last / max ..). -/
theorem eventClaimDeadline_eq (l : List Part) (c : Nat) :
    MppGen.eventClaimDeadline (l.map Part.g) c = claimDeadline ((minCltv l).getD c) := by
  have h : MppGen.eventMinCltv (l.map Part.g) = minCltv l := by
    simp only [MppGen.eventMinCltv, minCltv, List.map_map, Function.comp_def, Part.g]
  unfold MppGen.eventClaimDeadline
  rw [h]
  cases minCltv l <;> simp [claimDeadline]

/-- The TRANSLATED gates of handle_claimable_htlc in front of the amount decisions (purpose comparison, then
    `RecipientOnionFields::check_merge`: payment_secret, payment_metadata, total_mpp_amount_msat, the even custom TLVs)
    refuse a part exactly when its tag, its `total_msat` or its even-TLV flag differs from the entry's. Stops checking
    when one of the comparisons is flipped. -/
theorem mergeRefuses_iff (total tag : Nat) (ev : Bool) (p : Part) :
    (MppGen.purposeMismatch p.tag tag || MppGen.checkMergeErr (onionOf total tag ev) (onionOf p.total p.tag p.evenTlv)) = true ↔
      (p.tag ≠ tag ∨ p.total ≠ total ∨ p.evenTlv ≠ ev) := by
  simp only [MppGen.purposeMismatch, MppGen.checkMergeErr, onionOf]
  by_cases h1 : p.tag = tag
  · by_cases h2 : p.total = total
    · subst h1 h2
      cases ev <;> cases hp : p.evenTlv <;> simp
    · have h2' : total ≠ p.total := fun h => h2 h.symm
      simp [h1, h2, h2']
  · have h1' : tag ≠ p.tag := fun h => h1 h.symm
    simp [h1, h1']

/-- the TRANSLATED unknown-even-TLV refusal of begin_claiming_payment on the entry's onion fields -/
theorem claimRefuses_eq (known : Bool) (total tag : Nat) (ev : Bool) :
    MppGen.claimRefusesUnknownEven known (onionOf total tag ev).custom_tlvs = (!known && ev) := by
  cases ev <;> simp [MppGen.claimRefusesUnknownEven, onionOf]

/-- invariant of every reachable accumulator -/
structure Inv (s : Mpp) : Prop where
  /-- every held part arrived with the payment's onion fields -/
  fields : ∀ p ∈ s.parts, p.total = s.total ∧ p.tag = s.tag ∧ p.evenTlv = s.evenTlv
  /-- the parts of the last announced complete set (all marked with its amount `x`) come first and
      are worth at most `x`; parts that arrived since are unmarked -/
  order : ∃ x A B, s.parts = A ++ B ∧ (∀ p ∈ A, p.totalRecv = some x) ∧ (∀ p ∈ B, p.totalRecv = none) ∧
    sumValue A ≤ x
  /-- while a claim is pending nothing is held under this hash -/
  claimingEmpty : s.claiming = true → s.parts = []

theorem Inv.init : Inv Mpp.init :=
  ⟨by simp [Mpp.init], ⟨0, [], [], by simp [Mpp.init, sumValue]⟩, by simp [Mpp.init]⟩

theorem mem_sortParts {l : List Part} {p : Part} : p ∈ sortParts l ↔ p ∈ l := (sortParts_perm l).mem_iff

/-- `stepPart` with the effective onion fields (those of the first part) named -/
theorem stepPart_normal (s : Mpp) (p : Part) :
    ∃ total tag ev, (s.parts = [] → total = p.total ∧ tag = p.tag ∧ ev = p.evenTlv) ∧
      (s.parts ≠ [] → total = s.total ∧ tag = s.tag ∧ ev = s.evenTlv) ∧
      stepPart s p =
        if s.claiming then (s, [.failPart p.id])
        else if p.tag ≠ tag ∨ p.total ≠ total ∨ p.evenTlv ≠ ev then (s, [.failPart p.id])
        else if accIntended p.intended s.parts ≥ MAX_VALUE_MSAT then (s, [.failPart p.id])
        else if accIntended p.intended s.parts - p.intended ≥ total then (s, [.failPart p.id])
        else if accIntended p.intended s.parts ≥ total then
          ({ s with parts := sortParts ((s.parts ++ [p]).map fun q => { q with totalRecv := some (sumValue (s.parts ++ [p])) }),
                    total := total, tag := tag, evenTlv := ev },
           [.claimable (sumValue (s.parts ++ [p])) (sumSkim (s.parts ++ [p]))
              (MppGen.eventClaimDeadline ((sortParts ((s.parts ++ [p]).map fun q =>
                { q with totalRecv := some (sumValue (s.parts ++ [p])) })).map Part.g) p.cltv)])
        else ({ s with parts := s.parts ++ [p], total := total, tag := tag, evenTlv := ev }, []) := by
  cases hs : s.parts with
  | nil =>
    refine ⟨p.total, p.tag, p.evenTlv, fun _ => ⟨rfl, rfl, rfl⟩, fun h => absurd rfl h, ?_⟩
    simp only [stepPart, hs, List.isEmpty_nil, ↓reduceIte, MppGen.pendingClaimRefuses, mergeRefuses_iff]
  | cons q qs =>
    refine ⟨s.total, s.tag, s.evenTlv, fun h => absurd h (List.cons_ne_nil _ _), fun _ => ⟨rfl, rfl, rfl⟩, ?_⟩
    simp only [stepPart, hs, List.isEmpty_cons, Bool.false_eq_true, ↓reduceIte, MppGen.pendingClaimRefuses, mergeRefuses_iff]

theorem Inv.stepPart {s : Mpp} (h : Inv s) (p : Part) (hp : p.totalRecv = none) : Inv (stepPart s p).1 := by
  obtain ⟨total, tag, ev, hfirst, hnot, heq⟩ := stepPart_normal s p
  rw [heq]
  have hfields : ∀ q ∈ s.parts ++ [p], q.total = total ∧ q.tag = tag ∧ q.evenTlv = ev →
      True := fun _ _ _ => trivial
  split
  · exact h
  · rename_i hcl
    split
    · exact h
    · rename_i hchk
      simp only [not_or, Decidable.not_not] at hchk
      have hall : ∀ q ∈ s.parts ++ [p], q.total = total ∧ q.tag = tag ∧ q.evenTlv = ev := by
        intro q hq
        simp only [List.mem_append, List.mem_singleton] at hq
        rcases hq with hq0 | rfl
        · have hne : s.parts ≠ [] := by intro hs; rw [hs] at hq0; cases hq0
          obtain ⟨e1, e2, e3⟩ := hnot hne
          rw [e1, e2, e3]; exact h.fields q hq0
        · exact ⟨hchk.2.1, hchk.1, hchk.2.2⟩
      split
      · exact h
      · split
        · exact h
        · split
          · -- complete
            refine ⟨?_, ?_, ?_⟩
            · intro q hq
              simp only [mem_sortParts, List.mem_map] at hq
              obtain ⟨q0, hq0, rfl⟩ := hq
              exact hall q0 hq0
            · refine ⟨sumValue (s.parts ++ [p]), _, [], (List.append_nil _).symm, ?_, by simp, ?_⟩
              · intro q hq
                simp only [mem_sortParts, List.mem_map] at hq
                obtain ⟨q0, _, rfl⟩ := hq
                rfl
              · rw [sumValue_perm (sortParts_perm _), sumValue_setRecv]
                exact Nat.le_refl _
            · intro hc; simp only at hc; exact absurd hc hcl
          · -- held
            refine ⟨hall, ?_, ?_⟩
            · obtain ⟨x, A, B, hAB, hA, hB, hle⟩ := h.order
              refine ⟨x, A, B ++ [p], by simp only [hAB, List.append_assoc], hA, ?_, hle⟩
              intro q hq
              simp only [List.mem_append, List.mem_singleton] at hq
              rcases hq with hq | rfl
              · exact hB q hq
              · exact hp
            · intro hc; simp only at hc; exact absurd hc hcl

theorem Inv.of_parts_nil {s : Mpp} (h : s.parts = []) : Inv s :=
  ⟨by simp [h], ⟨0, [], [], by simp [h, sumValue]⟩, fun _ => h⟩

theorem Inv.stepTick {s : Mpp} (h : Inv s) : Inv (stepTick s).1 := by
  unfold InboundPay.stepTick
  have hmap : Inv { s with parts := s.parts.map fun q => { q with ticks := q.ticks + 1 } } := by
    refine ⟨?_, ?_, ?_⟩
    · intro q hq
      simp only [List.mem_map] at hq
      obtain ⟨q0, hq0, rfl⟩ := hq
      exact h.fields q0 hq0
    · obtain ⟨x, A, B, hAB, hA, hB, hle⟩ := h.order
      refine ⟨x, A.map (fun q => { q with ticks := q.ticks + 1 }), B.map (fun q => { q with ticks := q.ticks + 1 }),
        by simp only [hAB, List.map_append], ?_, ?_, ?_⟩
      · intro q hq; simp only [List.mem_map] at hq; obtain ⟨q0, hq0, rfl⟩ := hq; exact hA q0 hq0
      · intro q hq; simp only [List.mem_map] at hq; obtain ⟨q0, hq0, rfl⟩ := hq; exact hB q0 hq0
      · have : sumValue (A.map fun q => { q with ticks := q.ticks + 1 }) = sumValue A := by
          simp [sumValue, List.map_map, Function.comp_def]
        omega
    · intro hc
      have := h.claimingEmpty hc
      simp only [this, List.map_nil]
  split
  · exact h
  · simp only
    split
    · exact hmap
    · split
      · exact Inv.of_parts_nil rfl
      · exact hmap

theorem Inv.stepBlock {s : Mpp} (h : Inv s) (ht : Nat) : Inv (stepBlock s ht).1 := by
  unfold InboundPay.stepBlock
  refine ⟨?_, ?_, ?_⟩
  · intro q hq
    simp only [List.mem_filter] at hq
    exact h.fields q hq.1
  · obtain ⟨x, A, B, hAB, hA, hB, hle⟩ := h.order
    refine ⟨x, A.filter (fun q => !mppOnchainTimeout ht q.cltv), B.filter (fun q => !mppOnchainTimeout ht q.cltv),
      by simp only [hAB, List.filter_append], ?_, ?_, ?_⟩
    · intro q hq; exact hA q (List.mem_filter.1 hq).1
    · intro q hq; exact hB q (List.mem_filter.1 hq).1
    · have := sumValue_filter_le A (fun q => !mppOnchainTimeout ht q.cltv); omega
  · intro hc
    have := h.claimingEmpty hc
    simp only [this, List.filter_nil]

theorem stepClaim_parts (s : Mpp) (known : Bool) : (stepClaim s known).1.parts = [] := by
  unfold stepClaim
  split
  · rename_i h; simpa using h
  · simp only
    split
    · rfl
    · split
      · rfl
      · split
        · rfl
        · split <;> rfl

theorem Inv.stepClaim {s : Mpp} (_h : Inv s) (known : Bool) : Inv (stepClaim s known).1 :=
  Inv.of_parts_nil (stepClaim_parts s known)

theorem Inv.step {s : Mpp} (h : Inv s) (op : Op) : Inv (step s op).1 := by
  cases op with
  | part id value intended skim total cltv tag ev => exact h.stepPart _ rfl
  | tick => exact h.stepTick
  | block ht => exact h.stepBlock ht
  | claim known => exact h.stepClaim known
  | claimDone => exact ⟨h.fields, h.order, fun hc => by simp [InboundPay.step] at hc⟩
  | failBack => exact Inv.of_parts_nil rfl

theorem Reachable.inv {s : Mpp} (h : Reachable s) : Inv s := by
  induction h with
  | init => exact Inv.init
  | step op _ ih => exact ih.step op

/-- the parts held after a completing `part` step -/
def completedParts (s : Mpp) (p : Part) : List Part :=
  sortParts ((s.parts ++ [p]).map fun q => { q with totalRecv := some (sumValue (s.parts ++ [p])) })

/-- a `claimable` output of `stepPart` pins down the branch taken -/
theorem stepPart_claimable (s : Mpp) (p : Part) (a k d : Nat) (h : Out.claimable a k d ∈ (stepPart s p).2) :
    ∃ total tag ev, (s.parts ≠ [] → total = s.total ∧ tag = s.tag ∧ ev = s.evenTlv) ∧
      s.claiming = false ∧ p.tag = tag ∧ p.total = total ∧ p.evenTlv = ev ∧
      p.intended + sumIntended s.parts < MAX_VALUE_MSAT ∧ sumIntended s.parts < total ∧
      total ≤ p.intended + sumIntended s.parts ∧
      stepPart s p = ({ s with parts := completedParts s p, total := total, tag := tag, evenTlv := ev },
        [.claimable a k d]) ∧
      a = sumValue (s.parts ++ [p]) ∧ k = sumSkim (s.parts ++ [p]) ∧ d = MppGen.eventClaimDeadline ((completedParts s p).map Part.g) p.cltv := by
  obtain ⟨total, tag, ev, _, hnot, heq⟩ := stepPart_normal s p
  rw [heq] at h ⊢
  have hacc := accIntended_spec s.parts p.intended
  split at h
  · simp at h
  · rename_i hcl
    split at h
    · simp at h
    · rename_i hchk
      simp only [not_or, Decidable.not_not] at hchk
      split at h
      · simp at h
      · rename_i hmax
        have hlt : accIntended p.intended s.parts < MAX_VALUE_MSAT := by omega
        have hsum := hacc.2 hlt
        split at h
        · simp at h
        · rename_i hdone
          split at h
          · rename_i hge
            simp only [List.mem_singleton, Out.claimable.injEq] at h
            obtain ⟨rfl, rfl, rfl⟩ := h
            refine ⟨total, tag, ev, hnot, by simpa using hcl, hchk.1, hchk.2.1, hchk.2.2, by omega, by omega, by omega, ?_, rfl, rfl, rfl⟩
            simp only [hcl, Bool.false_eq_true, ↓reduceIte, hchk, ne_eq, not_true_eq_false, or_self, hmax, hdone, hge, completedParts]
          · simp at h

theorem completedParts_perm (s : Mpp) (p : Part) :
    (completedParts s p).Perm ((s.parts ++ [p]).map fun q => { q with totalRecv := some (sumValue (s.parts ++ [p])) }) :=
  sortParts_perm _

theorem sumIntended_completed (s : Mpp) (p : Part) : sumIntended (completedParts s p) = sumIntended s.parts + p.intended := by
  rw [sumIntended_perm (completedParts_perm s p), sumIntended_setRecv, sumIntended_append]
  simp [sumIntended]

theorem sumValue_completed (s : Mpp) (p : Part) : sumValue (completedParts s p) = sumValue (s.parts ++ [p]) := by
  rw [sumValue_perm (completedParts_perm s p), sumValue_setRecv]

theorem sumSkim_completed (s : Mpp) (p : Part) : sumSkim (completedParts s p) = sumSkim (s.parts ++ [p]) := by
  rw [sumSkim_perm (completedParts_perm s p), sumSkim_setRecv]

theorem mem_completed {s : Mpp} {p q : Part} (h : q ∈ completedParts s p) :
    ∃ q0, (q0 ∈ s.parts ∨ q0 = p) ∧ q = { q0 with totalRecv := some (sumValue (s.parts ++ [p])) } := by
  rw [(completedParts_perm s p).mem_iff] at h
  simp only [List.mem_map, List.mem_append, List.mem_singleton] at h
  obtain ⟨q0, hq0, rfl⟩ := h
  exact ⟨q0, hq0, rfl⟩

theorem completed_ne_nil (s : Mpp) (p : Part) : completedParts s p ≠ [] := by
  intro h
  have := (completedParts_perm s p).length_eq
  rw [h] at this
  simp at this

theorem map_tick_ids (l : List Part) :
    (l.map fun q => { q with ticks := q.ticks + 1 }).map (fun q => Out.failPart q.id) = l.map (fun q => Out.failPart q.id) := by
  simp [List.map_map, Function.comp_def]

/-- a timer tick does nothing visible, or fails every held part (then nothing is held) -/
theorem stepTick_outs (s : Mpp) :
    ((stepTick s).2 = [] ∧ (s.parts = [] ∨ s.total ≤ sumIntended s.parts ∨ ∀ p ∈ s.parts, p.ticks + 1 < MPP_TIMEOUT_TICKS)) ∨
    ((stepTick s).2 = s.parts.map (fun q => Out.failPart q.id) ∧ (stepTick s).1.parts = [] ∧
      s.parts ≠ [] ∧ sumIntended s.parts < s.total ∧ ∃ p ∈ s.parts, MPP_TIMEOUT_TICKS ≤ p.ticks + 1) := by
  unfold stepTick
  split
  · rename_i h; left; exact ⟨rfl, Or.inl (by simpa using h)⟩
  · rename_i hne
    simp only [sumIntended_tick]
    split
    · rename_i hge; left; exact ⟨rfl, Or.inr (Or.inl hge)⟩
    · rename_i hlt
      split
      · rename_i hto
        right
        refine ⟨map_tick_ids _, rfl, by simpa using hne, by omega, ?_⟩
        simp only [List.any_map, List.any_eq_true, Function.comp_apply, decide_eq_true_eq] at hto
        obtain ⟨q, hq, hq2⟩ := hto
        exact ⟨q, hq, hq2⟩
      · rename_i hto
        left
        refine ⟨rfl, Or.inr (Or.inr ?_)⟩
        intro q hq
        simp only [List.any_map, List.any_eq_true, Function.comp_apply, decide_eq_true_eq, not_exists, not_and] at hto
        have := hto q hq
        omega

/-- every outcome of a claim -/
theorem stepClaim_outs (s : Mpp) (known : Bool) :
    (stepClaim s known).2 = [] ∨ (stepClaim s known).2 = [.inconsistent] ∨
    (stepClaim s known).2 = s.parts.map (fun q => Out.failPart q.id) ∨
    (stepClaim s known).2 = .inconsistent :: s.parts.map (fun q => Out.failPart q.id) ∨
    (∃ amt, (stepClaim s known).2 = s.parts.map (fun q => Out.fulfilPart q.id) ++ [.claimed amt (sumSkim s.parts) s.total] ∧
      claimLoop s.parts none 0 = (some amt, amt, true) ∧ (stepClaim s known).1.claiming = true ∧
      s.parts ≠ [] ∧ (known = true ∨ s.evenTlv = false)) := by
  unfold stepClaim
  simp only [claimRefuses_eq]
  split
  · left; rfl
  · rename_i hne
    split
    · right; right; left; rfl
    · rename_i htlv
      rcases hloop : claimLoop s.parts none 0 with ⟨exp, amt, valid⟩
      simp only
      cases exp with
      | none => cases valid <;> simp
      | some e =>
        simp only
        split
        · cases valid <;> simp
        · rename_i heq
          simp only [ne_eq, Decidable.not_not] at heq
          subst heq
          cases valid with
          | false => simp
          | true =>
            right; right; right; right
            refine ⟨amt, by simp, rfl, rfl, by simpa using hne, ?_⟩
            cases known <;> cases hs : s.evenTlv <;> simp_all

/-- only `part` steps announce a payment -/
theorem claimable_only_from_part (s : Mpp) (op : Op) (a k d : Nat) (h : Out.claimable a k d ∈ (step s op).2) :
    ∃ id value intended skim total cltv tag ev, op = .part id value intended skim total cltv tag ev := by
  cases op with
  | part id value intended skim total cltv tag ev => exact ⟨_, _, _, _, _, _, _, _, rfl⟩
  | tick =>
    simp only [step] at h
    rcases stepTick_outs s with ⟨h1, _⟩ | ⟨h1, _⟩ <;> rw [h1] at h <;> simp at h
  | block ht => simp [step, stepBlock] at h
  | claim known =>
    simp only [step] at h
    rcases stepClaim_outs s known with h1 | h1 | h1 | h1 | ⟨amt, h1, _⟩ <;> rw [h1] at h <;> simp at h
  | claimDone => simp [step] at h
  | failBack => simp [step, stepFailBack] at h

theorem claimLoop_somes (x : Nat) (A rest : List Part) (hA : ∀ p ∈ A, p.totalRecv = some x) (exp : Option Nat)
    (hexp : exp = none ∨ exp = some x) (acc : Nat) (hne : A ≠ []) :
    claimLoop (A ++ rest) exp acc = claimLoop rest (some x) (acc + sumValue A) := by
  induction A generalizing exp acc with
  | nil => exact absurd rfl hne
  | cons p ps ih =>
    have hp := hA p (List.mem_cons_self ..)
    have hcond : (exp.isSome && exp != p.totalRecv) = false := by
      rcases hexp with rfl | rfl <;> simp [hp]
    simp only [List.cons_append, claimLoop]
    rw [hcond]
    simp only [Bool.false_eq_true, ↓reduceIte]
    rw [hp]
    cases ps with
    | nil => simp [sumValue]
    | cons q qs =>
      rw [ih (fun r hr => hA r (List.mem_cons_of_mem _ hr)) (some x) (Or.inr rfl) _ (List.cons_ne_nil _ _)]
      simp only [sumValue, List.map_cons, List.sum_cons, Nat.add_assoc]

theorem claimLoop_nones (B : List Part) (hB : ∀ p ∈ B, p.totalRecv = none) (acc : Nat) :
    claimLoop B none acc = (none, acc + sumValue B, true) := by
  induction B generalizing acc with
  | nil => simp [claimLoop, sumValue]
  | cons p ps ih =>
    have hp := hB p (List.mem_cons_self ..)
    simp only [claimLoop, Option.isSome_none, Bool.false_and, Bool.false_eq_true, ↓reduceIte, hp]
    rw [ih (fun r hr => hB r (List.mem_cons_of_mem _ hr))]
    simp only [sumValue, List.map_cons, List.sum_cons]
    congr 2; omega

theorem claimLoop_some_none (x : Nat) (B : List Part) (hB : ∀ p ∈ B, p.totalRecv = none) (hne : B ≠ []) (acc : Nat) :
    claimLoop B (some x) acc = (some x, acc, false) := by
  cases B with
  | nil => exact absurd rfl hne
  | cons p ps =>
    have hp := hB p (List.mem_cons_self ..)
    simp [claimLoop, hp]

/-- under the invariant a claim goes through only when every held part carries the announced
    amount and the held parts are worth exactly that amount -/
theorem claim_success_inv {s : Mpp} (h : Inv s) (amt : Nat) (hl : claimLoop s.parts none 0 = (some amt, amt, true)) :
    (∀ p ∈ s.parts, p.totalRecv = some amt) ∧ sumValue s.parts = amt := by
  obtain ⟨x, A, B, hAB, hA, hB, _⟩ := h.order
  rw [hAB] at hl ⊢
  by_cases hAe : A = []
  · subst hAe
    rw [List.nil_append, claimLoop_nones B hB] at hl
    cases hl
  · rw [claimLoop_somes x A B hA none (Or.inl rfl) 0 hAe] at hl
    by_cases hBe : B = []
    · subst hBe
      simp only [claimLoop, Nat.zero_add, Prod.mk.injEq, Option.some.injEq, and_true] at hl
      obtain ⟨rfl, h2⟩ := hl
      simp only [List.append_nil]
      exact ⟨hA, h2⟩
    · rw [claimLoop_some_none x B hB hBe] at hl
      simp at hl

/-- a part arriving for a complete set is failed on its own and changes nothing -/
theorem stepPart_late (s : Mpp) (p : Part) (hne : s.parts ≠ []) (hc : s.total ≤ sumIntended s.parts) :
    stepPart s p = (s, [.failPart p.id]) := by
  obtain ⟨total, tag, ev, _, hnot, heq⟩ := stepPart_normal s p
  rw [heq]
  obtain ⟨rfl, rfl, rfl⟩ := hnot hne
  have hacc := accIntended_spec s.parts p.intended
  split
  · rfl
  · split
    · rfl
    · split
      · rfl
      · rename_i hmax
        have hlt : accIntended p.intended s.parts < MAX_VALUE_MSAT := by omega
        have hsum := hacc.2 hlt
        rw [if_pos (by omega)]

theorem stepTick_complete (s : Mpp) (hne : s.parts ≠ []) (hc : s.total ≤ sumIntended s.parts) :
    stepTick s = ({ s with parts := s.parts.map fun q => { q with ticks := q.ticks + 1 } }, []) := by
  unfold stepTick
  have : s.parts.isEmpty = false := by cases hs : s.parts <;> simp_all
  simp only [this, Bool.false_eq_true, ↓reduceIte, sumIntended_tick]
  rw [if_pos hc]

theorem stepBlock_before (s : Mpp) (h : Nat) (hb : ∀ p ∈ s.parts, mppOnchainTimeout h p.cltv = false) :
    stepBlock s h = (s, []) := by
  unfold stepBlock
  have h1 : s.parts.filter (fun q => mppOnchainTimeout h q.cltv) = [] := by
    rw [List.filter_eq_nil_iff]; intro p hp; simp [hb p hp]
  have h2 : s.parts.filter (fun q => !mppOnchainTimeout h q.cltv) = s.parts := by
    rw [List.filter_eq_self]; intro p hp; simp [hb p hp]
  rw [h1, h2]; rfl

/-- the payment announced as `claimable a d` is still intact -/
structure Ready (s : Mpp) (a d : Nat) : Prop where
  nonempty : s.parts ≠ []
  marked : ∀ p ∈ s.parts, p.totalRecv = some a
  amount : sumValue s.parts = a
  complete : s.total ≤ sumIntended s.parts
  deadline : ∀ p ∈ s.parts, d ≤ claimDeadline p.cltv
  notClaiming : s.claiming = false

/-- ops that leave an announced payment alone: more parts, timer ticks, blocks below the deadline -/
def Quiet (d : Nat) : Op → Prop
  | .part .. => True
  | .tick => True
  | .block h => h < d
  | .claimDone => True
  | .claim _ => False
  | .failBack => False

def ids (s : Mpp) : List Nat := s.parts.map (·.id)

/-- ids of the parts arriving in an op list -/
def partIds : List Op → List Nat
  | [] => []
  | .part id .. :: ops => id :: partIds ops
  | _ :: ops => partIds ops

theorem claimDeadline_lt {h d c : Nat} (hd : d ≤ claimDeadline c) (hlt : h < d) : mppOnchainTimeout h c = false := by
  simp only [claimDeadline, mppOnchainTimeout, decide_eq_false_iff_not] at *
  omega

theorem Ready.step_quiet {s : Mpp} {a d : Nat} (h : Ready s a d) (op : Op) (hq : Quiet d op) :
    Ready (step s op).1 a d ∧ ids (step s op).1 = ids s ∧ (step s op).1.evenTlv = s.evenTlv ∧
      (∀ o ∈ (step s op).2, ∃ i, o = .failPart i ∧ i ∈ partIds [op]) ∧
      sumSkim (step s op).1.parts = sumSkim s.parts ∧ (step s op).1.total = s.total := by
  cases op with
  | part id value intended skim total cltv tag ev =>
    simp only [step]
    rw [stepPart_late s _ h.nonempty h.complete]
    exact ⟨h, rfl, rfl, fun o ho => ⟨id, by simpa using ho, by simp [partIds]⟩, rfl, rfl⟩
  | tick =>
    simp only [step]
    rw [stepTick_complete s h.nonempty h.complete]
    refine ⟨⟨?_, ?_, ?_, ?_, ?_, h.notClaiming⟩, ?_, rfl, by simp, sumSkim_tick _, rfl⟩
    · simpa using h.nonempty
    · intro p hp; simp only [List.mem_map] at hp; obtain ⟨q, hq, rfl⟩ := hp; exact h.marked q hq
    · have : sumValue (s.parts.map fun q => { q with ticks := q.ticks + 1 }) = sumValue s.parts := by
        simp [sumValue, List.map_map, Function.comp_def]
      simp only [this]; exact h.amount
    · simp only [sumIntended_tick]; exact h.complete
    · intro p hp; simp only [List.mem_map] at hp; obtain ⟨q, hq, rfl⟩ := hp; exact h.deadline q hq
    · simp [ids, List.map_map, Function.comp_def]
  | block ht =>
    simp only [step]
    rw [stepBlock_before s ht (fun p hp => claimDeadline_lt (h.deadline p hp) hq)]
    exact ⟨h, rfl, rfl, by simp, rfl, rfl⟩
  | claimDone =>
    simp only [step]
    exact ⟨⟨h.nonempty, h.marked, h.amount, h.complete, h.deadline, rfl⟩, by first | rfl | trivial, by first | rfl | trivial, by simp, by first | rfl | trivial, by first | rfl | trivial⟩
  | claim known => exact absurd hq id
  | failBack => exact absurd hq id

theorem partIds_append (a b : List Op) : partIds (a ++ b) = partIds a ++ partIds b := by
  induction a with
  | nil => rfl
  | cons o os ih => cases o <;> simp [partIds, ih]

theorem Ready.run_quiet {s : Mpp} {a d : Nat} (h : Ready s a d) (ops : List Op) (hq : ∀ o ∈ ops, Quiet d o) :
    Ready (run s ops).1 a d ∧ ids (run s ops).1 = ids s ∧ (run s ops).1.evenTlv = s.evenTlv ∧
      (∀ o ∈ (run s ops).2, ∃ i, o = .failPart i ∧ i ∈ partIds ops) ∧
      sumSkim (run s ops).1.parts = sumSkim s.parts ∧ (run s ops).1.total = s.total := by
  induction ops generalizing s with
  | nil => exact ⟨h, rfl, rfl, by simp [run], rfl, rfl⟩
  | cons op ops ih =>
    obtain ⟨h1, h2, h3, h4, h5, h6⟩ := h.step_quiet op (hq op (List.mem_cons_self ..))
    obtain ⟨g1, g2, g3, g4, g5, g6⟩ := ih h1 (fun o ho => hq o (List.mem_cons_of_mem _ ho))
    simp only [run]
    refine ⟨g1, g2.trans h2, g3.trans h3, ?_, g5.trans h5, g6.trans h6⟩
    intro o ho
    simp only [List.mem_append] at ho
    have hpa := partIds_append [op] ops
    simp only [List.singleton_append] at hpa
    rcases ho with ho | ho
    · obtain ⟨i, hi, hm⟩ := h4 o ho
      exact ⟨i, hi, by rw [hpa]; exact List.mem_append_left _ hm⟩
    · obtain ⟨i, hi, hm⟩ := g4 o ho
      exact ⟨i, hi, by rw [hpa]; exact List.mem_append_right _ hm⟩

/-- claiming an intact announced payment -/
theorem Ready.claim {s : Mpp} {a d : Nat} (h : Ready s a d) (known : Bool) :
    (known = true ∨ s.evenTlv = false →
      stepClaim s known = ({ s with parts := [], claiming := true },
        s.parts.map (fun q => Out.fulfilPart q.id) ++ [.claimed a (sumSkim s.parts) s.total])) ∧
    (known = false ∧ s.evenTlv = true →
      stepClaim s known = ({ s with parts := [] }, s.parts.map (fun q => Out.failPart q.id))) := by
  have hloop : claimLoop s.parts none 0 = (some a, a, true) := by
    have := claimLoop_somes a s.parts [] h.marked none (Or.inl rfl) 0 h.nonempty
    rw [List.append_nil] at this
    rw [this, h.amount]; simp [claimLoop]
  have hne : s.parts.isEmpty = false := by cases hs : s.parts <;> simp_all [h.nonempty]
  constructor
  · intro hk
    unfold stepClaim
    have : (!known && s.evenTlv) = false := by rcases hk with rfl | hk <;> simp [*]
    simp only [claimRefuses_eq, hne, Bool.false_eq_true, ↓reduceIte, this, hloop, ne_eq, not_true_eq_false]
  · rintro ⟨rfl, hk⟩
    unfold stepClaim
    simp only [claimRefuses_eq, hne, Bool.false_eq_true, ↓reduceIte, Bool.not_false, hk, Bool.and_self]

/-- the held parts that carry the mark of an announced set -/
def marked (ps : List Part) : List Part := ps.filter (·.totalRecv.isSome)

/-- part of the last announced set is gone: what is left of it is worth less than was announced -/
def Short (s : Mpp) : Prop := ∀ x, (∃ p ∈ s.parts, p.totalRecv = some x) → sumValue (marked s.parts) < x

theorem sumValue_filter_lost (l : List Part) (f : Part → Bool) (q : Part) (hq : q ∈ l) (hf : f q = false) :
    sumValue (l.filter f) + q.value ≤ sumValue l := by
  induction l with
  | nil => cases hq
  | cons p ps ih =>
    simp only [List.mem_cons] at hq
    rcases hq with rfl | hq
    · simp only [List.filter_cons, hf, Bool.false_eq_true, ↓reduceIte]
      have := sumValue_filter_le ps f
      simp only [sumValue, List.map_cons, List.sum_cons] at *
      omega
    · have := ih hq
      simp only [List.filter_cons]
      split <;> simp only [sumValue, List.map_cons, List.sum_cons] at * <;> omega

theorem Inv.marked_le {s : Mpp} (h : Inv s) (x : Nat) (p : Part) (hp : p ∈ s.parts) (hx : p.totalRecv = some x) :
    sumValue (marked s.parts) ≤ x ∧ ∀ q ∈ s.parts, ∀ y, q.totalRecv = some y → y = x := by
  obtain ⟨x', A, B, hAB, hA, hB, hle⟩ := h.order
  have hpA : p ∈ A := by
    rw [hAB, List.mem_append] at hp
    rcases hp with hp | hp
    · exact hp
    · rw [hB p hp] at hx; cases hx
  have hxx : x' = x := by have := hA p hpA; rw [hx] at this; cases this; rfl
  subst hxx
  have hm : marked s.parts = A := by
    rw [hAB, marked, List.filter_append]
    have h1 : A.filter (·.totalRecv.isSome) = A := by
      rw [List.filter_eq_self]; intro a ha; simp [hA a ha]
    have h2 : B.filter (·.totalRecv.isSome) = [] := by
      rw [List.filter_eq_nil_iff]; intro a ha; simp [hB a ha]
    rw [h1, h2, List.append_nil]
  refine ⟨by rw [hm]; exact hle, ?_⟩
  intro q hq y hy
  rw [hAB, List.mem_append] at hq
  rcases hq with hq | hq
  · have := hA q hq; rw [hy] at this; cases this; rfl
  · rw [hB q hq] at hy; cases hy

/-- an on-chain timeout that takes a marked part of positive value leaves the set short -/
theorem Short.of_block {s : Mpp} (h : Inv s) (ht : Nat) (q : Part) (hq : q ∈ s.parts) (x : Nat)
    (hx : q.totalRecv = some x) (hpos : 0 < q.value) (hto : mppOnchainTimeout ht q.cltv = true) :
    Short (stepBlock s ht).1 := by
  intro y ⟨p, hp, hy⟩
  simp only [stepBlock, List.mem_filter] at hp
  obtain ⟨hle, hsame⟩ := h.marked_le x q hq hx
  have hyx := hsame p hp.1 y hy
  subst hyx
  simp only [stepBlock, marked]
  rw [List.filter_filter]
  have hcomm : s.parts.filter (fun a => a.totalRecv.isSome && !mppOnchainTimeout ht a.cltv) =
      (marked s.parts).filter (fun a => !mppOnchainTimeout ht a.cltv) := by
    rw [marked, List.filter_filter]
    congr 1; funext a; exact Bool.and_comm _ _
  rw [hcomm]
  have hqm : q ∈ marked s.parts := by simp [marked, hq, hx]
  have := sumValue_filter_lost (marked s.parts) (fun a => !mppOnchainTimeout ht a.cltv) q hqm (by simp [hto])
  omega

theorem marked_tick (l : List Part) :
    sumValue (marked (l.map fun q => { q with ticks := q.ticks + 1 })) = sumValue (marked l) := by
  induction l with
  | nil => rfl
  | cons p ps ih =>
    simp only [marked, List.map_cons, List.filter_cons] at *
    split <;> simp only [sumValue, List.map_cons, List.sum_cons] at * <;> omega

theorem marked_append_none (l : List Part) (p : Part) (hp : p.totalRecv = none) : marked (l ++ [p]) = marked l := by
  simp [marked, List.filter_append, hp]

/-- the three outcomes of a `part` step -/
theorem stepPart_trichotomy (s : Mpp) (p : Part) :
    stepPart s p = (s, [.failPart p.id]) ∨
    (∃ total tag ev a k d, stepPart s p =
      ({ s with parts := completedParts s p, total := total, tag := tag, evenTlv := ev }, [.claimable a k d])) ∨
    (∃ total tag ev, stepPart s p =
      ({ s with parts := s.parts ++ [p], total := total, tag := tag, evenTlv := ev }, [])) := by
  obtain ⟨total, tag, ev, _, _, heq⟩ := stepPart_normal s p
  rw [heq]
  split
  · exact Or.inl rfl
  · split
    · exact Or.inl rfl
    · split
      · exact Or.inl rfl
      · split
        · exact Or.inl rfl
        · split
          · exact Or.inr (Or.inl ⟨total, tag, ev, _, _, _, rfl⟩)
          · exact Or.inr (Or.inr ⟨total, tag, ev, rfl⟩)

/-- a short set stays short as long as no new complete set is announced -/
theorem Short.preserved {s : Mpp} (hs : Short s) (op : Op) (hno : ∀ a k d, Out.claimable a k d ∉ (step s op).2) :
    Short (step s op).1 := by
  cases op with
  | part id value intended skim total cltv tag ev =>
    simp only [step] at hno ⊢
    rcases stepPart_trichotomy s { id, value, intended, skim, cltv, ticks := 0, totalRecv := none, total, tag, evenTlv := ev }
      with h1 | ⟨t, g, e, a, k, d, h1⟩ | ⟨t, g, e, h1⟩ <;> rw [h1] at hno ⊢
    · exact hs
    · exact absurd (List.mem_singleton.2 rfl) (hno a k d)
    · intro x ⟨p, hp, hx⟩
      simp only [List.mem_append, List.mem_singleton] at hp
      simp only
      rw [marked_append_none _ _ rfl]
      rcases hp with hp | rfl
      · exact hs x ⟨p, hp, hx⟩
      · cases hx
  | tick =>
    simp only [step, stepTick]
    have hmap : Short { s with parts := s.parts.map fun q => { q with ticks := q.ticks + 1 } } := by
      intro x ⟨p, hp, hx⟩
      simp only [List.mem_map] at hp
      obtain ⟨p0, hp0, rfl⟩ := hp
      simp only [marked_tick]
      exact hs x ⟨p0, hp0, hx⟩
    split
    · exact hs
    · split
      · exact hmap
      · split
        · intro x ⟨p, hp, _⟩; cases hp
        · exact hmap
  | block ht =>
    simp only [step, stepBlock]
    intro x ⟨p, hp, hx⟩
    simp only [List.mem_filter] at hp
    have := hs x ⟨p, hp.1, hx⟩
    have hcomm : marked (s.parts.filter fun q => !mppOnchainTimeout ht q.cltv) =
        (marked s.parts).filter (fun a => !mppOnchainTimeout ht a.cltv) := by
      simp only [marked, List.filter_filter]
      congr 1; funext a; exact Bool.and_comm _ _
    simp only [hcomm]
    have := sumValue_filter_le (marked s.parts) (fun a => !mppOnchainTimeout ht a.cltv)
    omega
  | claim known =>
    intro x ⟨p, hp, _⟩
    simp only [step, stepClaim_parts] at hp
    cases hp
  | claimDone => exact hs
  | failBack => intro x ⟨p, hp, _⟩; simp [step, stepFailBack] at hp

/-- claiming a short set releases no preimage -/
theorem Short.claim_none {s : Mpp} (hi : Inv s) (hs : Short s) (known : Bool) (i : Nat) :
    Out.fulfilPart i ∉ (stepClaim s known).2 := by
  intro hmem
  rcases stepClaim_outs s known with h1 | h1 | h1 | h1 | ⟨amt, h1, hl, _, hne, _⟩ <;> rw [h1] at hmem
  · simp at hmem
  · simp at hmem
  · simp at hmem
  · simp at hmem
  · obtain ⟨hall, hsum⟩ := claim_success_inv hi amt hl
    obtain ⟨p, hp⟩ := List.exists_mem_of_ne_nil _ hne
    have := hs amt ⟨p, hp, hall p hp⟩
    have hm : marked s.parts = s.parts := by
      rw [marked, List.filter_eq_self]; intro a ha; simp [hall a ha]
    rw [hm] at this
    omega

/-- only a claim releases preimages -/
theorem fulfil_only_from_claim (s : Mpp) (op : Op) (i : Nat) (h : Out.fulfilPart i ∈ (step s op).2) :
    ∃ known, op = .claim known := by
  cases op with
  | part id value intended skim total cltv tag ev =>
    simp only [step] at h
    rcases stepPart_trichotomy s { id, value, intended, skim, cltv, ticks := 0, totalRecv := none, total, tag, evenTlv := ev }
      with h1 | ⟨t, g, e, a, k, d, h1⟩ | ⟨t, g, e, h1⟩ <;> rw [h1] at h <;> simp at h
  | tick =>
    simp only [step] at h
    rcases stepTick_outs s with ⟨h1, _⟩ | ⟨h1, _⟩ <;> rw [h1] at h <;> simp at h
  | block ht => simp [step, stepBlock] at h
  | claim known => exact ⟨known, rfl⟩
  | claimDone => simp [step] at h
  | failBack => simp [step, stepFailBack] at h

/-- ids of the HTLCs an output list resolves (failed back or fulfilled) -/
def resolvedIds : List Out → List Nat
  | [] => []
  | .failPart i :: os => i :: resolvedIds os
  | .fulfilPart i :: os => i :: resolvedIds os
  | _ :: os => resolvedIds os

theorem resolvedIds_append (a b : List Out) : resolvedIds (a ++ b) = resolvedIds a ++ resolvedIds b := by
  induction a with
  | nil => rfl
  | cons o os ih => cases o <;> simp [resolvedIds, ih]

theorem resolvedIds_fail (l : List Part) : resolvedIds (l.map fun q => Out.failPart q.id) = l.map (·.id) := by
  induction l with
  | nil => rfl
  | cons p ps ih => simp [resolvedIds, ih]

theorem resolvedIds_fulfil (l : List Part) : resolvedIds (l.map fun q => Out.fulfilPart q.id) = l.map (·.id) := by
  induction l with
  | nil => rfl
  | cons p ps ih => simp [resolvedIds, ih]

/-- HTLC conservation for one step: every id resolved or held afterwards was held before or is the
    arriving part (with multiplicity) -/
theorem step_count_le (s : Mpp) (op : Op) (i : Nat) :
    (resolvedIds (step s op).2 ++ ids (step s op).1).count i ≤ (ids s ++ partIds [op]).count i := by
  cases op with
  | part id value intended skim total cltv tag ev =>
    simp only [step, partIds]
    rcases stepPart_trichotomy s { id, value, intended, skim, cltv, ticks := 0, totalRecv := none, total, tag, evenTlv := ev }
      with h1 | ⟨t, g, e, a, k, d, h1⟩ | ⟨t, g, e, h1⟩ <;> rw [h1]
    · simp only [resolvedIds, List.count_append]; omega
    · simp only [resolvedIds, List.nil_append, ids]
      have := ((completedParts_perm s { id, value, intended, skim, cltv, ticks := 0, totalRecv := none, total, tag, evenTlv := ev }).map (·.id)).count_eq i
      simp only [List.map_map, Function.comp_def, List.map_append, List.map_cons, List.map_nil] at this
      rw [this]; exact Nat.le_refl _
    · simp [resolvedIds, ids]
  | tick =>
    simp only [step, partIds, List.append_nil]
    rcases stepTick_outs s with ⟨h1, _⟩ | ⟨h1, h2, _⟩
    · rw [h1]
      simp only [resolvedIds, List.nil_append]
      unfold stepTick
      split
      · exact Nat.le_refl _
      · simp only
        split
        · simp [ids, List.map_map, Function.comp_def]
        · split
          · simp [ids]
          · simp [ids, List.map_map, Function.comp_def]
    · rw [h1, resolvedIds_fail]; simp [ids, h2]
  | block ht =>
    simp only [step, partIds, List.append_nil, stepBlock, resolvedIds_fail, ids]
    have := ((List.filter_append_perm (fun q => mppOnchainTimeout ht q.cltv) s.parts).map (·.id)).count_eq i
    simp only [List.map_append] at this
    rw [← this]
    simp [List.count_append]
  | claim known =>
    simp only [step, partIds, List.append_nil]
    have hp := stepClaim_parts s known
    rcases stepClaim_outs s known with h1 | h1 | h1 | h1 | ⟨amt, h1, _⟩ <;> rw [h1] <;>
      simp [resolvedIds, resolvedIds_fail, resolvedIds_fulfil, resolvedIds_append, ids, hp]
  | claimDone => simp [step, partIds, resolvedIds, ids]
  | failBack => simp [step, partIds, stepFailBack, resolvedIds_fail, ids]

theorem run_count_le (s : Mpp) (ops : List Op) (i : Nat) :
    (resolvedIds (run s ops).2 ++ ids (run s ops).1).count i ≤ (ids s ++ partIds ops).count i := by
  induction ops generalizing s with
  | nil => simp [run, resolvedIds, partIds]
  | cons op ops ih =>
    have h1 := step_count_le s op i
    have h2 := ih (step s op).1
    have hpa := partIds_append [op] ops
    simp only [List.singleton_append] at hpa
    simp only [run, resolvedIds_append, List.count_append, hpa] at h1 h2 ⊢
    omega

theorem count_resolvedIds (outs : List Out) (i : Nat) :
    (resolvedIds outs).count i = outs.count (.failPart i) + outs.count (.fulfilPart i) := by
  induction outs with
  | nil => rfl
  | cons o os ih =>
    cases o <;> simp only [resolvedIds, List.count_cons, ih, beq_iff_eq, Out.failPart.injEq, Out.fulfilPart.injEq,
      reduceCtorEq, ↓reduceIte] <;> (try split) <;> omega

/-! ## the parts as the translated code (Generated/InboundMpp.lean, `MppGen`) sees them: sums and closed forms.
   Nothing here unfolds a translated function; the lemmas that do are theorems of Props/C04. -/

/-- Σ sender_intended_value / Σ value / Σ skimmed fee over the parts as the translated code sees them -/
def gIntended (l : List MppGen.PartG) : Nat := (l.map (·.sender_intended_value)).sum

def gValue (l : List MppGen.PartG) : Nat := (l.map (·.value)).sum

def gSkim (l : List MppGen.PartG) : Nat := (l.map (·.counterparty_skimmed_fee_msat.getD 0)).sum

/-- `htlc.timer_ticks += 1` -/
def gTick (h : MppGen.PartG) : MppGen.PartG := { h with timer_ticks := h.timer_ticks + 1 }

/-- some part has now waited `MPP_TIMEOUT_TICKS` ticks -/
def gExpired (l : List MppGen.PartG) : Bool := l.any fun h => decide (MPP_TIMEOUT_TICKS ≤ h.timer_ticks + 1)

/-- what `check_incoming_mpp_part` decides, in closed form -/
def incomingSpec (set : List MppGen.PartG) (new_htlc : MppGen.PartG) (total_mpp_value : Nat) : MppGen.Verdict :=
  if gIntended set + new_htlc.sender_intended_value ≥ MAX_VALUE_MSAT then .reject
  else if gIntended set ≥ total_mpp_value then .reject
  else if gIntended set + new_htlc.sender_intended_value ≥ total_mpp_value then .complete
  else .hold

theorem incomingSpec_complete (set : List MppGen.PartG) (new_htlc : MppGen.PartG) (total_mpp_value : Nat) :
    incomingSpec set new_htlc total_mpp_value = .complete ↔
      (total_mpp_value ≤ gIntended set + new_htlc.sender_intended_value ∧ gIntended set < total_mpp_value ∧
       gIntended set + new_htlc.sender_intended_value < MAX_VALUE_MSAT) := by
  unfold incomingSpec
  split
  · simp only [reduceCtorEq, false_iff]; omega
  · split
    · simp only [reduceCtorEq, false_iff]; omega
    · split
      · simp only [true_iff]; omega
      · simp only [reduceCtorEq, false_iff]; omega

theorem gIntended_map_tick (l : List MppGen.PartG) : gIntended (l.map gTick) = gIntended l := by
  simp [gIntended, gTick, List.map_map, Function.comp_def]

theorem gIntended_setRecv (l : List MppGen.PartG) (x : Option Nat) :
    gIntended (l.map fun h => { h with total_value_received := x }) = gIntended l := by
  simp [gIntended, List.map_map, Function.comp_def]

theorem gIntended_append (a b : List MppGen.PartG) : gIntended (a ++ b) = gIntended a + gIntended b := by
  simp [gIntended, List.sum_append]

/-- `n` timer ticks applied to a part list: what `check_mpp_timeout` leaves behind each time -/
def tickedN (total_mpp_value : Nat) : Nat → List MppGen.PartG → List MppGen.PartG
  | 0, l => l
  | n + 1, l => tickedN total_mpp_value n (MppGen.checkMppTimeout l total_mpp_value).1

theorem gIntended_g (l : List Part) : gIntended (l.map Part.g) = sumIntended l := by
  simp [gIntended, sumIntended, Part.g, List.map_map, Function.comp_def]

theorem gValue_g (l : List Part) : gValue (l.map Part.g) = sumValue l := by
  simp [gValue, sumValue, Part.g, List.map_map, Function.comp_def]

theorem gSkim_g (l : List Part) : gSkim (l.map Part.g) = sumSkim l := by
  simp [gSkim, sumSkim, Part.g, List.map_map, Function.comp_def]

theorem gTick_g (l : List Part) :
    (l.map Part.g).map gTick = (l.map fun q => { q with ticks := q.ticks + 1 }).map Part.g := by
  simp [gTick, Part.g, List.map_map, Function.comp_def]

theorem gExpired_g (l : List Part) :
    gExpired (l.map Part.g) = l.any fun q => decide (MPP_TIMEOUT_TICKS ≤ q.ticks + 1) := by
  simp only [gExpired, Part.g, List.any_map, Function.comp_def]
  congr 1

theorem incomingSpec_reject (set : List MppGen.PartG) (new_htlc : MppGen.PartG) (total_mpp_value : Nat) :
    incomingSpec set new_htlc total_mpp_value = .reject ↔
      (MAX_VALUE_MSAT ≤ gIntended set + new_htlc.sender_intended_value ∨ total_mpp_value ≤ gIntended set) := by
  unfold incomingSpec
  split
  · simp only [true_iff]; omega
  · split
    · simp only [true_iff]; omega
    · split
      · simp only [reduceCtorEq, false_iff]; omega
      · simp only [reduceCtorEq, false_iff]; omega

theorem incomingSpec_hold (set : List MppGen.PartG) (new_htlc : MppGen.PartG) (total_mpp_value : Nat) :
    incomingSpec set new_htlc total_mpp_value = .hold ↔
      (gIntended set + new_htlc.sender_intended_value < MAX_VALUE_MSAT ∧
       gIntended set + new_htlc.sender_intended_value < total_mpp_value) := by
  unfold incomingSpec
  split
  · simp only [reduceCtorEq, false_iff]; omega
  · split
    · simp only [reduceCtorEq, false_iff]; omega
    · split
      · simp only [reduceCtorEq, false_iff]; omega
      · simp only [true_iff]; omega

theorem partIds_ticks (n : Nat) : partIds (List.replicate n Op.tick) = [] := by
  induction n with
  | zero => rfl
  | succ n ih => simp only [List.replicate_succ, partIds, ih]

theorem stepTick_wait (s : Mpp) (hne : s.parts ≠ []) (hlt : sumIntended s.parts < s.total)
    (hw : ∀ p ∈ s.parts, p.ticks + 1 < MPP_TIMEOUT_TICKS) :
    stepTick s = ({ s with parts := s.parts.map fun q => { q with ticks := q.ticks + 1 } }, []) := by
  have hemp : s.parts.isEmpty = false := by cases hs : s.parts <;> simp_all
  have hany : (s.parts.any fun q => decide (MPP_TIMEOUT_TICKS ≤ q.ticks + 1)) = false := by
    rw [List.any_eq_false]; intro p hp; have := hw p hp; simp; omega
  simp only [stepTick, hemp, Bool.false_eq_true, ↓reduceIte, sumIntended_tick, List.any_map, Function.comp_def, ge_iff_le,
    Nat.not_le.2 hlt, hany]

theorem run_ticks_empty (s : Mpp) (he : s.parts = []) (n : Nat) : run s (List.replicate n .tick) = (s, []) := by
  induction n with
  | zero => rfl
  | succ n ih =>
    have : step s .tick = (s, []) := by simp [step, stepTick, he]
    simp only [List.replicate_succ, run, this, ih, List.append_nil]

theorem sum_le_of_forall (l : List Part) (f g : Part → Nat) (h : ∀ p ∈ l, f p ≤ g p) : (l.map f).sum ≤ (l.map g).sum := by
  induction l with
  | nil => simp
  | cons p ps ih =>
    simp only [List.map_cons, List.sum_cons]
    have := h p (List.mem_cons_self ..)
    have := ih (fun q hq => h q (List.mem_cons_of_mem _ hq))
    omega

theorem sum_map_add (l : List Part) (f g : Part → Nat) : (l.map fun p => f p + g p).sum = (l.map f).sum + (l.map g).sum := by
  induction l with
  | nil => simp
  | cons p ps ih => simp only [List.map_cons, List.sum_cons, ih]; omega

end Ldk.InboundPay
