/- Helper lemmas for Props/C04 (model: Model/InboundPay.lean). No property theorem lives here. -/
import LdkModel.Model.InboundPay
namespace Ldk.InboundPay
open Ldk

/-! ## bytes -/

theorem be64_length (n : Nat) : (be64 n).length = 8 := rfl

theorem fromBE_be64 (n : Nat) (h : n < 2 ^ 64) : fromBE (be64 n) = n := by
  simp only [be64, fromBE, List.foldl_cons, List.foldl_nil, UInt8.toNat_ofNat']
  omega

theorem or_shift_eq (a m i : Nat) (h : a < 2 ^ i) : a ||| (m <<< i) = m * 2 ^ i + a := by
  rw [Nat.or_comm, ← Nat.shiftLeft_add_eq_or_of_lt h, Nat.shiftLeft_eq]

theorem take8_be64_append (n : Nat) (l : Bytes) : (be64 n ++ l).take 8 = be64 n := by
  simp [be64]

theorem drop8_be64_append (n : Nat) (l : Bytes) : (be64 n ++ l).drop 8 = l := by
  simp [be64]

theorem pack48_lt (d e : Nat) (h3 : e < 2 ^ 48) (h4 : d < 2 ^ 16) : d * 2 ^ 48 + e < 2 ^ 64 := by omega
theorem pack61_lt (m a : Nat) (h3 : a < 2 ^ 61) (h4 : m < 8) : m * 2 ^ 61 + a < 2 ^ 64 := by omega

/-- range of the expiry word: 48 bits (and a 16-bit delta) with a custom final CLTV, 64 bits without -/
def ExpOk (e : Nat) : Option Nat → Prop
  | some d => e < 2 ^ 48 ∧ d < 2 ^ 16
  | none => e < 2 ^ 64

/-- what `verify` reads back from what `construct_info_bytes` packed -/
theorem unpack_pack (m a e : Nat) (c : Option Nat) (hm : m < 8) (ha : a < 2 ^ 61)
    (he : ExpOk e c) :
    unpackInfo (packInfo m a e c) =
      { methodBits := m, amt := a,
        cltvBits := (match c with | some d => d | none => e >>> 48),
        expiry48 := e % 2 ^ 48,
        expiry64 := (match c with | some d => d * 2 ^ 48 + e | none => e) } := by
  unfold unpackInfo packInfo
  rw [take8_be64_append, drop8_be64_append, or_shift_eq a m 61 ha]
  have h1 : m * 2 ^ 61 + a < 2 ^ 64 := pack61_lt m a ha hm
  rw [fromBE_be64 _ h1]
  cases c with
  | none =>
    simp only [ExpOk] at he ⊢
    rw [fromBE_be64 _ he]
    simp only [Nat.shiftRight_eq_div_pow]
    congr 1 <;> omega
  | some d =>
    simp only [ExpOk] at he ⊢
    rw [or_shift_eq e d 48 he.1]
    have h2 : d * 2 ^ 48 + e < 2 ^ 64 := pack48_lt d e he.1 he.2
    rw [fromBE_be64 _ h2]
    simp only [Nat.shiftRight_eq_div_pow]
    congr 1 <;> omega

/-! ## construct_info_bytes -/

theorem max_value_lt : MAX_VALUE_MSAT < 2305843009213693952 := by
  have : MAX_VALUE_MSAT = 2100000000000000000 := rfl
  omega

theorem constructInfo_eq_some (minAmt : Option Nat) (m : Method) (delta now : Nat) (cltv : Option Nat) (info : Bytes) :
    constructInfo minAmt m delta now cltv = some info ↔
      ((∀ a, minAmt = some a → a ≤ MAX_VALUE_MSAT) ∧
       (cltv.isSome = true → absoluteExpiry now delta ≤ 2 ^ 48 - 1) ∧
       info = packInfo m.bits (minAmt.getD 0) (absoluteExpiry now delta) cltv) := by
  have hmax := max_value_lt
  have h61 : (2:Nat) ^ 61 = 2305843009213693952 := by omega
  unfold constructInfo
  cases minAmt with
  | none =>
    cases cltv with
    | none => simp; exact eq_comm
    | some d =>
      simp only [Bool.false_eq_true, ↓reduceIte, Option.isSome_some, Bool.true_and, decide_eq_true_eq,
        Option.getD_none, reduceCtorEq, false_implies, implies_true, true_and, forall_const]
      split
      · simp; omega
      · exact ⟨fun h => ⟨by omega, (Option.some.inj h).symm⟩, fun h => by rw [h.2]⟩
  | some a =>
    cases cltv with
    | none =>
      simp only [decide_eq_true_eq, Option.isSome_none, Bool.false_and, Bool.false_eq_true, ↓reduceIte,
        Option.getD_some, Option.some.injEq, forall_eq', false_implies, true_and]
      split
      · simp; omega
      · split
        · omega
        · exact ⟨fun h => ⟨by omega, (Option.some.inj h).symm⟩, fun h => by rw [h.2]⟩
    | some d =>
      simp only [decide_eq_true_eq, Option.isSome_some, Bool.true_and, Option.getD_some, Option.some.injEq,
        forall_eq', forall_const]
      split
      · simp; omega
      · split
        · omega
        · split
          · simp; omega
          · exact ⟨fun h => ⟨by omega, by omega, (Option.some.inj h).symm⟩, fun h => by rw [h.2.2]⟩

theorem constructInfo_eq_none (minAmt : Option Nat) (m : Method) (delta now : Nat) (cltv : Option Nat) :
    constructInfo minAmt m delta now cltv = none ↔
      ((∃ a, minAmt = some a ∧ a > MAX_VALUE_MSAT) ∨
       (cltv.isSome = true ∧ absoluteExpiry now delta > 2 ^ 48 - 1)) := by
  constructor
  · intro h
    apply Classical.byContradiction
    intro hn
    have : constructInfo minAmt m delta now cltv = some (packInfo m.bits (minAmt.getD 0) (absoluteExpiry now delta) cltv) := by
      rw [constructInfo_eq_some]
      refine ⟨fun a ha => ?_, fun hc => ?_, rfl⟩
      · apply Classical.byContradiction; intro h2; exact hn (Or.inl ⟨a, ha, by omega⟩)
      · apply Classical.byContradiction; intro h2; exact hn (Or.inr ⟨hc, by omega⟩)
    rw [h] at this; cases this
  · intro h
    cases hc : constructInfo minAmt m delta now cltv with
    | none => rfl
    | some info =>
      rw [constructInfo_eq_some] at hc
      rcases h with ⟨a, ha, hgt⟩ | ⟨h1, h2⟩
      · have := hc.1 a ha; omega
      · have := hc.2.1 h1; omega

theorem packInfo_length (m a e : Nat) (c : Option Nat) : (packInfo m a e c).length = 16 := by
  simp [packInfo, be64_length]

/-! ## secrets -/

theorem Method.fromBits_bits (m : Method) : Method.fromBits m.bits = some m := by cases m <;> rfl
theorem Method.bits_lt (m : Method) : m.bits < 8 := by cases m <;> decide
theorem Method.fromBits_some {n : Nat} {m : Method} (h : Method.fromBits n = some m) : n = m.bits := by
  unfold Method.fromBits at h
  split at h <;> simp at h <;> subst h <;> rfl

theorem take16_length (r : Bytes) (h : 16 ≤ r.length) : (r.take 16).length = 16 := by
  simp [List.length_take]; omega

theorem mac_take16_length (C : PayCrypto) (hC : C.Wf) (k m : Bytes) : ((C.mac k m).take 16).length = 16 :=
  take16_length _ (by rw [hC.mac_len]; omega)

theorem decryptInfo_construct (C : PayCrypto) (hC : C.Wf) (k : Keys) (iv info : Bytes) (hiv : iv.length = 16) :
    decryptInfo C k (constructSecret C k iv info) = (iv, info) := by
  unfold decryptInfo constructSecret
  simp only [List.take_left' hiv, List.drop_left' hiv, hC.enc_enc]

/-- The second half of `verify` on a secret built by `construct_payment_secret` from packed info. -/
theorem verify_constructed (C : PayCrypto) (hC : C.Wf) (k : Keys) (m : Method) (a e : Nat) (c : Option Nat)
    (iv hash : Bytes) (md : Option Bytes) (hiv : iv.length = 16) (ha : a < 2 ^ 61)
    (he : ExpOk e c)
    (hc : c.isSome = m.hasCltv) (r : MacOk)
    (hmac : macStage C k hash (constructSecret C k iv (packInfo m.bits a e c)) md = .ok r) (total now' : Nat) :
    verify C k hash (constructSecret C k iv (packInfo m.bits a e c)) total md now' =
      if total < a then .error .amountTooLow
      else if e < now' then .error .expired
      else .ok ⟨r.preimage, c, r.metadata⟩ := by
  unfold verify
  rw [hmac]
  simp only [infoOf, decryptInfo_construct C hC k iv _ hiv, unpack_pack m.bits a e c m.bits_lt ha he,
    hasCltvOf, Method.fromBits_bits, ← hc]
  cases c with
  | none => simp
  | some d =>
    simp only [Option.isSome_some, ↓reduceIte]
    have : e % 2 ^ 48 = e := Nat.mod_eq_of_lt he.1
    rw [this]

/-- the authentication stage succeeds exactly when the method's MAC equation holds -/
theorem macStage_ok_iff (C : PayCrypto) (k : Keys) (hash secret : Bytes) (md : Option Bytes) :
    (∃ r, macStage C k hash secret md = .ok r) ↔ MacEq C k hash secret md := by
  unfold macStage MacEq
  simp only
  cases Method.fromBits (unpackInfo (decryptInfo C k secret).2).methodBits with
  | none => simp
  | some m =>
    cases m
    case spontaneous =>
      cases md <;> simp
      split <;> simp_all
    case ldkHash => simp only; split <;> simp_all
    case ldkHashCltv => simp only; split <;> simp_all
    case userHash =>
      simp only
      split
      · simp_all
      · cases md with
        | none => simp_all
        | some m => simp only; split <;> simp_all <;> omega
    case userHashCltv =>
      simp only
      split
      · simp_all
      · cases md with
        | none => simp_all
        | some m => simp only; split <;> simp_all <;> omega

/-- a preimage returned by the authentication stage hashes to the payment hash -/
theorem macStage_preimage (C : PayCrypto) (k : Keys) (hash secret : Bytes) (md : Option Bytes) (r : MacOk)
    (h : macStage C k hash secret md = .ok r) (pre : Bytes) (hp : r.preimage = some pre) : C.hash pre = hash := by
  unfold macStage at h
  simp only at h
  cases hb : Method.fromBits (unpackInfo (decryptInfo C k secret).2).methodBits with
  | none => rw [hb] at h; cases h
  | some m =>
    rw [hb] at h
    cases m <;> simp only at h <;> repeat' split at h
    all_goals first
      | (cases h; done)
      | (cases h; simp only [reduceCtorEq] at hp; done)
      | (cases h; simp only [Option.some.injEq] at hp; subst hp; rename_i hne; exact (Classical.not_not.mp hne).symm)

/-- the authentication stage never answers with the amount / expiry errors -/
theorem macStage_error_kind (C : PayCrypto) (k : Keys) (hash secret : Bytes) (md : Option Bytes) (e : VerifyErr)
    (h : macStage C k hash secret md = .error e) : e ≠ .amountTooLow ∧ e ≠ .expired := by
  unfold macStage at h
  simp only at h
  cases hb : Method.fromBits (unpackInfo (decryptInfo C k secret).2).methodBits with
  | none => rw [hb] at h; cases h; exact ⟨by decide, by decide⟩
  | some m =>
    rw [hb] at h
    cases m <;> simp only at h <;> repeat' split at h
    all_goals first
      | (cases h; exact ⟨by decide, by decide⟩)
      | cases h

/-- an authentication failure is the answer of `verify`, whatever the amount and the time -/
theorem verify_of_macStage_error (C : PayCrypto) (k : Keys) (hash secret : Bytes) (md : Option Bytes)
    (e : VerifyErr) (h : macStage C k hash secret md = .error e) (total now : Nat) :
    verify C k hash secret total md now = .error e := by
  unfold verify; rw [h]

theorem verify_of_macStage_ok (C : PayCrypto) (k : Keys) (hash secret : Bytes) (md : Option Bytes)
    (r : MacOk) (h : macStage C k hash secret md = .ok r) (total now : Nat) :
    verify C k hash secret total md now =
      if total < minAmtOf C k secret then .error .amountTooLow
      else if expiryOf C k secret < now then .error .expired
      else .ok ⟨r.preimage, minFinalCltvOf C k secret, r.metadata⟩ := by
  unfold verify minAmtOf expiryOf minFinalCltvOf; rw [h]

/-! ## the authentication stage on freshly created secrets -/

theorem methodBits_constructed (C : PayCrypto) (hC : C.Wf) (k : Keys) (m : Method) (a e : Nat) (c : Option Nat)
    (iv : Bytes) (hiv : iv.length = 16) (ha : a < 2 ^ 61)
    (he : ExpOk e c) :
    Method.fromBits (unpackInfo (decryptInfo C k (constructSecret C k iv (packInfo m.bits a e c))).2).methodBits = some m := by
  rw [decryptInfo_construct C hC k iv _ hiv, unpack_pack m.bits a e c m.bits_lt ha he, Method.fromBits_bits]

theorem macStage_ldk (C : PayCrypto) (hC : C.Wf) (k : Keys) (m : Method) (hm : m = .ldkHash ∨ m = .ldkHashCltv)
    (a e : Nat) (c : Option Nat) (iv : Bytes) (hiv : iv.length = 16) (ha : a < 2 ^ 61)
    (he : ExpOk e c) (md' : Option Bytes) :
    macStage C k (C.hash (C.mac k.ldkKey (iv ++ packInfo m.bits a e c ++ metaPart md')))
        (constructSecret C k iv (packInfo m.bits a e c)) md' =
      .ok ⟨some (C.mac k.ldkKey (iv ++ packInfo m.bits a e c ++ metaPart md')), md'.map (C.enc k.metaKey iv)⟩ := by
  have hb := methodBits_constructed C hC k m a e c iv hiv ha he
  unfold macStage
  simp only [hb]
  rw [decryptInfo_construct C hC k iv _ hiv]
  rcases hm with rfl | rfl <;> simp

theorem macStage_user (C : PayCrypto) (hC : C.Wf) (k : Keys) (m : Method) (hm : m = .userHash ∨ m = .userHashCltv)
    (a e : Nat) (c : Option Nat) (hash ivr : Bytes) (hivr : ivr.length = 16) (ha : a < 2 ^ 61)
    (he : ExpOk e c) (md : Option Bytes) :
    macStage C k hash
        (constructSecret C k ((C.mac k.userKey (packInfo m.bits a e c ++ hash ++
            metaPart (md.map fun x => C.enc k.metaKey ivr x ++ ivr))).take 16) (packInfo m.bits a e c))
        (md.map fun x => C.enc k.metaKey ivr x ++ ivr) = .ok ⟨none, md⟩ := by
  have hiv := mac_take16_length C hC k.userKey (packInfo m.bits a e c ++ hash ++
            metaPart (md.map fun x => C.enc k.metaKey ivr x ++ ivr))
  have hb := methodBits_constructed C hC k m a e c _ hiv ha he
  unfold macStage
  simp only [hb]
  rw [decryptInfo_construct C hC k _ _ hiv]
  rcases hm with rfl | rfl <;> cases md <;> simp [hivr, hC.enc_enc, Nat.not_lt.mpr (Nat.le_add_left 16 _)]

theorem macStage_spont (C : PayCrypto) (hC : C.Wf) (k : Keys) (a e : Nat) (c : Option Nat) (hash : Bytes)
    (ha : a < 2 ^ 61) (he : ExpOk e c) :
    macStage C k hash
        (constructSecret C k ((C.mac k.spontKey (packInfo Method.spontaneous.bits a e c)).take 16)
          (packInfo Method.spontaneous.bits a e c)) none = .ok ⟨none, none⟩ := by
  have hiv := mac_take16_length C hC k.spontKey (packInfo Method.spontaneous.bits a e c)
  have hb := methodBits_constructed C hC k .spontaneous a e c _ hiv ha he
  unfold macStage
  simp only [hb]
  rw [decryptInfo_construct C hC k _ _ hiv]
  simp

/-! ## the MPP accumulator -/

theorem accIntended_spec (ps : List Part) (acc : Nat) :
    (accIntended acc ps ≥ MAX_VALUE_MSAT ↔ acc + sumIntended ps ≥ MAX_VALUE_MSAT) ∧
    (accIntended acc ps < MAX_VALUE_MSAT → accIntended acc ps = acc + sumIntended ps) := by
  induction ps generalizing acc with
  | nil => simp [accIntended, sumIntended]
  | cons p ps ih =>
    simp only [accIntended, sumIntended, List.map_cons, List.sum_cons]
    split
    · rename_i h
      constructor
      · constructor <;> intro _ <;> omega
      · intro h2; omega
    · rename_i h
      have := ih (acc + p.intended)
      simp only [sumIntended] at this
      constructor
      · rw [this.1]; constructor <;> intro _ <;> omega
      · intro h2; rw [this.2 h2]; omega

theorem sortParts_perm (l : List Part) : (sortParts l).Perm l := List.mergeSort_perm _ _

theorem sumValue_perm {l₁ l₂ : List Part} (h : l₁.Perm l₂) : sumValue l₁ = sumValue l₂ :=
  (h.map _).sum_nat
theorem sumIntended_perm {l₁ l₂ : List Part} (h : l₁.Perm l₂) : sumIntended l₁ = sumIntended l₂ :=
  (h.map _).sum_nat

theorem sumValue_append (a b : List Part) : sumValue (a ++ b) = sumValue a + sumValue b := by
  simp [sumValue, List.sum_append]
theorem sumIntended_append (a b : List Part) : sumIntended (a ++ b) = sumIntended a + sumIntended b := by
  simp [sumIntended, List.sum_append]

theorem sumValue_setRecv (l : List Part) (x : Option Nat) :
    sumValue (l.map fun q => { q with totalRecv := x }) = sumValue l := by
  simp [sumValue, List.map_map, Function.comp_def]
theorem sumIntended_setRecv (l : List Part) (x : Option Nat) :
    sumIntended (l.map fun q => { q with totalRecv := x }) = sumIntended l := by
  simp [sumIntended, List.map_map, Function.comp_def]
theorem sumIntended_tick (l : List Part) :
    sumIntended (l.map fun q => { q with ticks := q.ticks + 1 }) = sumIntended l := by
  simp [sumIntended, List.map_map, Function.comp_def]

theorem sumValue_filter_le (l : List Part) (f : Part → Bool) : sumValue (l.filter f) ≤ sumValue l := by
  induction l with
  | nil => simp [sumValue]
  | cons p ps ih =>
    simp only [List.filter_cons]
    split <;> simp only [sumValue, List.map_cons, List.sum_cons] at * <;> omega

theorem minCltv_spec (l : List Part) (m : Nat) :
    minCltv l = some m ↔ (m ∈ l.map (·.cltv) ∧ ∀ c ∈ l.map (·.cltv), m ≤ c) := by
  unfold minCltv
  exact List.min?_eq_some_iff

end Ldk.InboundPay
