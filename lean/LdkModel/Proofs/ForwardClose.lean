/- Helper lemmas for C02's force-close theorems (Props/C02.lean): the inductive invariant of `FwdClose.step` — which
   commitments can contain an outbound HTLC that has never left the node — and its preservation by every op. -/
import LdkModel.Model.ForwardClose
namespace Ldk.FwdClose
open Ldk.Chan Ldk.FcGen

structure Inv (s : St) : Prop where
  /-- before X is in `pending_outbound_htlcs` no commitment lists it -/
  unsent : (s.phase = .notYet ∨ s.phase = .holdingCell) →
    s.cpLatest = false ∧ s.cpPrev ≠ some true ∧ s.holder = false ∧ s.held ≠ some true
  /-- while X is `LocalAnnounced` exactly one counterparty commitment lists it: a held one (then nothing C has lists it) or the
      latest released one (then C has not revoked the previous one yet); no holder commitment lists it -/
  la : s.phase = .pending .localAnnounced →
    s.holder = false ∧ s.cpPrev ≠ some true ∧ s.held ≠ some false ∧ (s.held = some true → s.cpLatest = false) ∧
    (s.held = some true ∨ s.cpPrev ≠ none)
  /-- while a commitment is held none is outstanding -/
  heldPrev : s.held ≠ none → s.cpPrev = none
  dropped_closed : s.dropped = true → s.closed = true
  key : s.dropped = true → downstreamCanClaim s = false

theorem inv_init : Inv init := by
  refine ⟨?_, ?_, ?_, ?_, ?_⟩ <;> simp [init]

theorem neverSent_cannot_claim {s : St} (I : Inv s) (h : neverSent s = true) : downstreamCanClaim s = false := by
  unfold neverSent at h
  unfold downstreamCanClaim
  cases hp : s.phase with
  | notYet => simp [hp] at h
  | gone => simp [hp] at h
  | holdingCell =>
    obtain ⟨a, b, c, -⟩ := I.unsent (Or.inr hp)
    cases hq : s.cpPrev with
    | none => simp [a, c]
    | some q => cases q <;> simp_all
  | pending st =>
    cases st <;> simp [hp] at h
    obtain ⟨a, b, -, d, -⟩ := I.la hp
    have hl := d h
    cases hq : s.cpPrev with
    | none => simp [a, hl]
    | some q => cases q <;> simp_all

/-- `Sel`: `force_shutdown`'s (GENERATED) selection is exactly "X never left the node" — proved in Props/C02.lean
    (`forceclose_selection_is_never_sent`) by unfolding the generated predicate -/
def Sel : Prop := ∀ s : St, dropDecision s = neverSent s

theorem inv_step (hsel : Sel) (s : St) (op : Op) (I : Inv s) : Inv (step s op) := by
  unfold step
  by_cases hc : s.closed = true
  · simp [hc]; exact I
  · have hd : s.dropped = false := by
      cases h : s.dropped
      · rfl
      · exact absurd (I.dropped_closed h) hc
    simp only [hc, Bool.false_eq_true, if_false]
    cases op with
    | queueAdd =>
      by_cases hp : s.phase = .notYet
      · simp only [hp, if_true]
        have := I.unsent (Or.inl hp)
        exact ⟨fun _ => this, by simp, I.heldPrev, by simp [hd], by simp [hd]⟩
      · simp only [hp, if_false]; exact I
    | announce b =>
      by_cases g : (s.phase = .notYet ∨ s.phase = .holdingCell) ∧ s.cpPrev = none ∧ s.held = none
      · obtain ⟨gp, gq, gh⟩ := g
        obtain ⟨u1, u2, u3, u4⟩ := I.unsent gp
        simp only [gp, gq, gh, and_self, if_true, built]
        cases b with
        | true =>
          refine ⟨by simp, ?_, by simp [gq], by simp [hd], by simp [hd]⟩
          intro _; simp [u1, u3, gq, OutState.included]
        | false =>
          refine ⟨by simp, ?_, by simp [gh], by simp [hd], by simp [hd]⟩
          intro _; simp [u1, u3, gh]
      · simp only [g, if_false]; exact I
    | commit b =>
      by_cases g : s.cpPrev = none ∧ s.held = none
      · obtain ⟨gq, gh⟩ := g
        simp only [gq, gh, and_self, if_true]
        cases hp : s.phase with
        | pending st =>
          simp only [built]
          have hla : st ≠ .localAnnounced := by
            intro e; subst e
            obtain ⟨-, -, -, -, h5⟩ := I.la hp
            rcases h5 with h5 | h5
            · simp [gh] at h5
            · exact h5 gq
          have hla' : st.onBuildCommitment ≠ .localAnnounced := by
            cases st <;> simp [OutState.onBuildCommitment] at hla ⊢
          cases b <;> refine ⟨by simp, by simp [hla'], by simp [gq], by simp [hd], by simp [hd]⟩
        | notYet =>
          obtain ⟨u1, u2, u3, u4⟩ := I.unsent (Or.inl hp)
          simp only [built]
          cases b <;> refine ⟨fun _ => ?_, by simp [hp], by simp [gq, gh], by simp [hd], by simp [hd]⟩ <;> simp [u1, u3, gq, gh]
        | holdingCell =>
          obtain ⟨u1, u2, u3, u4⟩ := I.unsent (Or.inr hp)
          simp only [built]
          cases b <;> refine ⟨fun _ => ?_, by simp [hp], by simp [gq, gh], by simp [hd], by simp [hd]⟩ <;> simp [u1, u3, gq, gh]
        | gone =>
          simp only [built]
          cases b <;> refine ⟨by simp [hp], by simp [hp], by simp [gq, gh], by simp [hd], by simp [hd]⟩
      · simp only [g, if_false]; exact I
    | release =>
      cases hh : s.held with
      | none => simp only; exact I
      | some i =>
        simp only
        have hq : s.cpPrev = none := I.heldPrev (by simp [hh])
        refine ⟨?_, ?_, by simp, by simp [hd], by simp [hd]⟩
        · intro hp
          obtain ⟨u1, u2, u3, u4⟩ := I.unsent hp
          have : i = false := by cases i <;> simp_all
          simp [this, u1, u3]
        · intro hp
          obtain ⟨l1, l2, l3, l4, l5⟩ := I.la hp
          have : i = true := by cases i <;> simp_all
          subst this
          simp [l1, l4 hh]
    | recvRaa =>
      cases hq : s.cpPrev with
      | none => simp only; exact I
      | some q =>
        simp only
        have hh : s.held = none := by
          cases hh : s.held with
          | none => rfl
          | some i => have := I.heldPrev (by simp [hh]); simp [hq] at this
        refine ⟨?_, ?_, by simp, by simp [hd], by simp [hd]⟩
        · intro hp
          have hp' : s.phase = .notYet ∨ s.phase = .holdingCell := by
            rcases hp with hp | hp <;> (cases h0 : s.phase with
              | pending st => cases st <;> simp [h0, raaRewrite] at hp
              | notYet => exact Or.inl rfl
              | holdingCell => exact Or.inr rfl
              | gone => simp [h0, raaRewrite] at hp)
          obtain ⟨u1, u2, u3, u4⟩ := I.unsent hp'
          simp [u1, u3, hh]
        · intro hp
          cases h0 : s.phase with
          | pending st => cases st <;> simp [h0, raaRewrite] at hp
          | notYet => simp [h0, raaRewrite] at hp
          | holdingCell => simp [h0, raaRewrite] at hp
          | gone => simp [h0, raaRewrite] at hp
    | recvRemove ok =>
      by_cases hp : s.phase = .pending .committed
      · simp only [hp, if_true]
        exact ⟨by simp, by simp, I.heldPrev, by simp [hd], by simp [hd]⟩
      · simp only [hp, if_false]; exact I
    | recvCs =>
      cases hp : s.phase with
      | pending st =>
        simp only
        refine ⟨by simp, ?_, I.heldPrev, by simp [hd], by simp [hd]⟩
        intro h1
        have e : st = .localAnnounced := by
          cases st <;> simp [OutState.onCommitmentSigned] at h1 ⊢
        subst e
        obtain ⟨l1, l2, l3, l4, l5⟩ := I.la hp
        exact ⟨by simp [OutState.included], l2, l3, l4, l5⟩
      | notYet =>
        simp only
        obtain ⟨u1, u2, u3, u4⟩ := I.unsent (Or.inl hp)
        exact ⟨fun _ => ⟨u1, u2, rfl, u4⟩, by simp [hp], I.heldPrev, by simp [hd], by simp [hd]⟩
      | holdingCell =>
        simp only
        obtain ⟨u1, u2, u3, u4⟩ := I.unsent (Or.inr hp)
        exact ⟨fun _ => ⟨u1, u2, rfl, u4⟩, by simp [hp], I.heldPrev, by simp [hd], by simp [hd]⟩
      | gone =>
        simp only
        exact ⟨by simp [hp], by simp [hp], I.heldPrev, by simp [hd], by simp [hd]⟩
    | forceClose =>
      refine ⟨I.unsent, I.la, I.heldPrev, by simp, ?_⟩
      intro h
      simp only at h
      rw [hsel] at h
      have := neverSent_cannot_claim I h
      simpa [downstreamCanClaim] using this

theorem inv_run (hsel : Sel) (s : St) (ops : List Op) (I : Inv s) : Inv (run s ops) := by
  induction ops generalizing s with
  | nil => exact I
  | cons op ops ih => exact ih _ (inv_step hsel s op I)

theorem inv_reachable (hsel : Sel) (ops : List Op) : Inv (run init ops) := inv_run hsel _ _ inv_init

end Ldk.FwdClose
