/- Helper lemmas for the size theorems of Props/C15.lean: wire lengths of the messages of
   Model/PeerMsgs.lean, and "every reply the node builds fits a frame" by induction over the
   received message sequence. -/
import LdkModel.Proofs.Framing
import LdkModel.Model.PeerMsgs
namespace Ldk.PeerMsgs
open Ldk.Noise Ldk.Framing

theorem zeros_length (n : Nat) : (zeros n).length = n := by simp [zeros]
theorem be64_length (n : Nat) : (be64 n).length = 8 := by simp [be64]
theorem collectionLength_length (n : Nat) :
    (collectionLength n).length = if n < 65535 then 2 else 10 := by
  unfold collectionLength
  split <;> simp [be16, be64]

theorem encodePong_length (n : Nat) :
    (encodePong n).length = 2 + (if n < 65535 then 2 else 10) + n := by
  simp [encodePong, collectionLength_length, zeros_length, be16]; split <;> omega

theorem encodePing_length (p b : Nat) :
    (encodePing p b).length = 4 + (if b < 65535 then 2 else 10) + b := by
  simp [encodePing, collectionLength_length, zeros_length, be16]; split <;> omega

theorem dec5_length (n : Nat) : 1 ≤ (dec5 n).length ∧ (dec5 n).length ≤ 5 := by
  unfold dec5
  simp only [List.length_map, List.length_append, List.length_cons, List.length_nil]
  have := (List.dropWhile_sublist (fun x => x == 0)
    (l := [n / 10000 % 10, n / 1000 % 10, n / 100 % 10, n / 10 % 10])).length_le
  simp only [List.length_cons, List.length_nil] at this
  omega

theorem encodeWarning_length (d : Bytes) : (encodeWarning d).length = 36 + d.length := by
  simp [encodeWarning, zeros_length, be16]; omega


theorem bogus_len (ty : Nat) : 77 ≤ (bogusGossipWarning ty).length ∧ (bogusGossipWarning ty).length ≤ 81 := by
  have h := dec5_length ty
  have : (ascii "Unreadable/bogus gossip message of type ").length = 40 := by decide
  simp only [bogusGossipWarning, encodeWarning_length, List.length_append, this]
  omega

theorem zlib_len : zlibWarning.length = 73 := by decide

/-- size condition of a message the encryptor accepts and the reader does not drop -/
def Fits (m : Bytes) : Prop := 2 ≤ m.length ∧ m.length ≤ Ldk.LN_MAX_MSG_LEN

theorem pingReply_fits (n : Nat) (r : Bytes) (h : pingReply n = some r) :
    r = encodePong n ∧ r.length = 4 + n ∧ Fits r := by
  unfold pingReply PONG_LIMIT at h
  split at h
  · cases h
    have hl := encodePong_length n
    rw [if_pos (by omega)] at hl
    refine ⟨rfl, by omega, ?_, ?_⟩
    · omega
    · show _ ≤ 65535; omega
  · cases h

theorem nodeStep_replies_fit (classify : Nat → PeerGate.MK) (initOk : Bytes → Bool) (other : Bytes → Decoded)
    (g : Gate) (m : Bytes) : ∀ r, Ev.reply r ∈ (nodeStep classify initOk other g m).2 → Fits r := by
  intro r hr
  unfold nodeStep at hr
  split at hr
  · simp at hr
  · simp at hr; subst hr
    have := bogus_len (msgType m)
    exact ⟨by omega, by show _ ≤ 65535; omega⟩
  · simp at hr; subst hr
    exact ⟨by rw [zlib_len]; omega, by rw [zlib_len]; decide⟩
  · split at hr
    · split at hr
      · simp at hr
      · split at hr
        · simp at hr
        · split at hr
          · rename_i r' hpr
            simp at hr; subst hr
            exact (pingReply_fits _ _ hpr).2.2
          · simp at hr
    · split at hr
      · split at hr <;> simp at hr
      · split at hr <;> simp at hr

theorem nodeRun_replies_fit (classify : Nat → PeerGate.MK) (initOk : Bytes → Bool) (other : Bytes → Decoded) :
    ∀ (msgs : List Bytes) (g : Gate), ∀ r ∈ repliesOf (nodeRun classify initOk other g msgs), Fits r := by
  intro msgs
  induction msgs with
  | nil => intro g r hr; simp [nodeRun, repliesOf] at hr
  | cons m ms ih =>
    intro g r hr
    have hstep := nodeStep_replies_fit classify initOk other g m
    unfold nodeRun at hr
    simp only [] at hr
    generalize hs : nodeStep classify initOk other g m = st at hr hstep
    obtain ⟨g1, evs⟩ := st
    simp only [] at hr hstep
    have hmem : ∀ l : List Ev, r ∈ repliesOf l → Ev.reply r ∈ l := by
      intro l hl
      simp only [repliesOf, List.mem_filterMap] at hl
      obtain ⟨e, he, hx⟩ := hl
      cases e <;> simp at hx
      subst hx; exact he
    split at hr
    · exact hstep r (hmem _ hr)
    · simp only [repliesOf, List.filterMap_append, List.mem_append] at hr
      rcases hr with hr | hr
      · exact hstep r (hmem _ hr)
      · exact ih g1 r hr
end Ldk.PeerMsgs
