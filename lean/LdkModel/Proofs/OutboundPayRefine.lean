/- C03 — refinement: the model of `Model/OutboundPay.lean` takes every life-cycle decision from the GENERATED tables of
   `Generated/OutboundSend.lean` (`stepP`, `abandonP`, `removeSent` call `markFulfilledTo`, `removeHolds`, `failAbandons`, ...).
   Here the previous HAND-WRITTEN definitions are kept verbatim (`stepPH`, `abandonPH`, `removeSentH`) and proved equal to the
   generated-driven ones for ALL inputs.  The table lemmas (`tbl_*`, by `decide`/`rfl`) and the three `*_eq_H` theorems are what
   breaks when a decision of the Rust text (and hence a generated table) changes.  The lemmas of Proofs/OutboundPay.lean and the
   theorems of Props/C03.lean are stated about `stepP` and proved through `stepP_eq_H`. -/
import LdkModel.Model.OutboundPay
set_option linter.unusedSimpArgs false
set_option linter.unusedVariables false
namespace Ldk.OutboundPay
open Ldk.OutboundSendGen

/-- HAND-WRITTEN reference: mirrors `PendingOutboundPayment::remove(session_priv, Some(path))` -/
def removeSentH (amt : Amt) (p : PartId) : PState → PState
  | .retryable ps pe to =>
    if ps.contains p then .retryable (removePart p ps) (removeAdjustsPending true pe (amt p)) to else .retryable ps pe to
  | .fulfilled ps t => .fulfilled (removePart p ps) t
  | .abandoned ps r => .abandoned (removePart p ps) r
  | st => st


/-- HAND-WRITTEN reference (the model before the decisions were generated): mirrors OutboundPayments::abandon_payment (`pre` = events already pushed by the caller) -/
def abandonPH (id : PayId) (st : PState) (r : Reason) (pre : List Ev) : PState × Out :=
  match st with
  | .preHtlc _ => (.absent, { evs := pre ++ [.failed id r] })
  | .retryable ps _ _ => abandonNow id ps r pre
  | .abandoned ps r0 => abandonNow id ps r0 pre
  | _ => (st, { evs := pre })


/-- HAND-WRITTEN reference: the per-payment transition function as it was written by hand -/
def stepPH (amt : Amt) (id : PayId) (st : PState) : POp → PState × Out
  -- mirrors OutboundPayments::add_new_pending_payment (Entry::Occupied ⇒ DuplicatePayment)
  | .send parts => match st with
    | .absent =>
      if freshFor [] parts then (.retryable parts (sumAmt amt parts) (sumAmt amt parts), { tried := parts })
      else (st, { panic := true })
    | _ => (st, { dup := true })
  -- mirrors OutboundPayments::add_new_awaiting_invoice
  | .await t => match st with
    | .absent => (.preHtlc t, {})
    | _ => (st, { dup := true })
  -- coarse: send_payment_for_bolt12_invoice_internal (pre-HTLC state replaced by Retryable with the route's parts)
  | .invoice parts => match st with
    | .preHtlc _ =>
      if freshFor [] parts then (.retryable parts (sumAmt amt parts) (sumAmt amt parts), { tried := parts })
      else (st, { panic := true })
    | _ => (st, { dup := true })
  -- mirrors OutboundPayments::claim_htlc
  | .claim p oc => match st with
    | .absent => (st, {})
    | .preHtlc _ => (st, { panic := true })
    | .retryable ps _ _ | .abandoned ps _ =>
      if oc && ps.contains p then (.fulfilled (removePart p ps) 0, { evs := [.sent id, .pathOk id p] })
      else (.fulfilled ps 0, { evs := [.sent id] })
    | .fulfilled ps t =>
      if oc && ps.contains p then (.fulfilled (removePart p ps) t, { evs := [.pathOk id p] }) else (st, {})
  -- mirrors OutboundPayments::finalize_claims (one source)
  | .finalize p => match st with
    | .absent => (st, {})
    | .fulfilled ps t => if ps.contains p then (.fulfilled (removePart p ps) t, { evs := [.pathOk id p] }) else (st, {})
    | _ => (st, { panic := true })
  -- mirrors OutboundPayments::fail_htlc (`auto` = is_auto_retryable_now(), `perm` = payment_failed_permanently)
  | .fail p auto perm => match st with
    | .absent => (st, {})
    | .preHtlc _ => (st, { panic := true })
    | .fulfilled ps t => (.fulfilled (removePart p ps) t, {})
    | .retryable ps pe to =>
      if !ps.contains p then (st, {}) else
      if auto && !perm then
        (.retryable (removePart p ps) (removeAdjustsPending true pe (amt p)) to, { evs := [.pathFailed id p] })
      else abandonNow id (removePart p ps) (if perm then .recipientRejected else .retriesExhausted) [.pathFailed id p]
    | .abandoned ps r =>
      if !ps.contains p then (st, {}) else abandonNow id (removePart p ps) r [.pathFailed id p]
  -- mirrors OutboundPayments::abandon_payment
  | .abandon r => abandonPH id st r []
  -- mirrors OutboundPayments::find_route_and_send_payment once a route was found (`now` = is_retryable_now()),
  -- every path answering Ok
  | .retry parts now => match st with
    | .retryable ps pe to =>
      if retryOverflows (sumAmt amt parts) pe to then abandonNow id ps .unexpectedError []
      else if !now then abandonNow id ps .retriesExhausted []
      else if !freshFor ps parts then (st, { panic := true })
      else (.retryable (ps ++ parts) (pe + sumAmt amt parts) to, { tried := parts })
    | .preHtlc _ => (st, { panic := true })
    | _ => (st, {})
  -- mirrors the `retain` at the end of OutboundPayments::check_retry_payments
  | .sweep auto => match st with
    | .retryable ps _ _ => if !auto && ps.isEmpty then (.absent, { evs := [.failed id .retriesExhausted] }) else (st, {})
    | .abandoned ps r => if ps.isEmpty then (.absent, { evs := [.failed id r] }) else (st, {})
    | _ => (st, {})
  -- mirrors OutboundPayments::remove_stale_payments (`pendingEv` = a PaymentSent / PaymentPathSuccessful /
  -- PaymentPathFailed for this id is still in pending_events)
  | .tick pendingEv => match st with
    | .fulfilled ps t =>
      if ps.isEmpty && !pendingEv then
        (if t + 1 ≤ IDEMPOTENCY_TIMEOUT_TICKS then (.fulfilled ps (t + 1), {}) else (.absent, {}))
      else (.fulfilled ps 0, {})
    | .preHtlc t => if t > 0 then (.preHtlc (t - 1), {}) else (.absent, { evs := [.failed id .invoiceRequestExpired] })
    | _ => (st, {})
  -- mirrors OutboundPayments::insert_from_monitor_on_startup
  | .insert p => match st with
    | .absent | .preHtlc _ => (.retryable [p] (amt p) (amt p), {})
    | .retryable ps pe to =>
      if ps.contains p then (st, {}) else (.retryable (ps ++ [p]) (insertAdjustsPending true pe (amt p)) to, {})
    | _ => (st, {})
  -- mirrors OutboundPayments::send_payment_for_non_bolt12_invoice after the route was found:
  -- add_new_pending_payment, pay_route_internal, handle_pay_route_err (up to its find_route_and_send_payment)
  | .sendR paths noSecret => match st with
    | .absent =>
      if freshFor [] (paths.map (·.1)) then
        payRoute amt id (.retryable (paths.map (·.1)) (sumAmt amt (paths.map (·.1))) (sumAmt amt (paths.map (·.1)))) paths noSecret
      else (st, { panic := true })
    | _ => (st, { dup := true })
  -- mirrors OutboundPayments::find_route_and_send_payment once a route was found: overflow test, is_retryable_now,
  -- insertion of the new session privs, pay_route_internal, handle_pay_route_err (up to its retry)
  | .retryR paths now noSecret => match st with
    | .retryable ps pe to =>
      if retryOverflows (sumAmt amt (paths.map (·.1))) pe to then abandonNow id ps .unexpectedError []
      else if !now then abandonNow id ps .retriesExhausted []
      else if !freshFor ps (paths.map (·.1)) then (st, { panic := true })
      else payRoute amt id (.retryable (ps ++ paths.map (·.1)) (pe + sumAmt amt (paths.map (·.1))) to) paths noSecret
    | .preHtlc _ => (st, { panic := true })
    | _ => (st, {})


/-! ### table lemmas: the facts about the generated tables the hand-written model relied on (each breaks when the Rust changes) -/

theorem tbl_holdsParts : holdsParts .retryable = true ∧ holdsParts .fulfilled = true ∧ holdsParts .abandoned = true ∧
    holdsParts .awaitingInvoice = false := by decide
theorem tbl_isFulfilledV : ∀ v, isFulfilledV v = decide (v = .fulfilled) := by intro v; cases v <;> rfl
theorem tbl_isAbandonedV : ∀ v, isAbandonedV v = decide (v = .abandoned) := by intro v; cases v <;> rfl
theorem tbl_isPreHtlcLockIn : isPreHtlcLockIn .awaitingInvoice = true ∧ isPreHtlcLockIn .retryable = false ∧
    isPreHtlcLockIn .fulfilled = false ∧ isPreHtlcLockIn .abandoned = false := by decide
theorem tbl_markFulfilled : markFulfilledTo .retryable = some .fulfilled ∧ markFulfilledTo .fulfilled = some .fulfilled ∧
    markFulfilledTo .abandoned = some .fulfilled ∧ markFulfilledTo .awaitingInvoice = none ∧
    markFulfilledKeepsParts = true ∧ markFulfilledTicks = 0 := by decide
theorem tbl_markAbandoned : markAbandonedTo .retryable = .abandoned ∧ markAbandonedRewrites .retryable = true ∧
    markAbandonedKeepsParts .retryable = true ∧ markAbandonedRewrites .abandoned = false ∧
    markAbandonedRewrites .fulfilled = false ∧ markAbandonedRewrites .awaitingInvoice = false := by decide
theorem tbl_removeHolds : removeHolds .retryable = some true ∧ removeHolds .fulfilled = some true ∧
    removeHolds .abandoned = some true ∧ removeHolds .awaitingInvoice = none := by decide
theorem tbl_insertAccepts : insertAccepts .retryable = some true ∧ insertAccepts .fulfilled = some false ∧
    insertAccepts .abandoned = some false := by decide
theorem tbl_claim : (∀ b, claimSends b = !b) ∧ (∀ b, claimRemoves b = b) ∧ (∀ b, claimPathOk b = b) := by decide
theorem tbl_finalize : (∀ b, finalizeAsserts b = b) ∧ (∀ b, finalizePathOk b = b) := by decide
theorem tbl_fail_returns : (∀ b, failReturnsNotRemoved b = !b) ∧ (∀ b, failReturnsFulfilled b = b) := by decide
theorem tbl_failAbandons : ∀ probe auto perm, failAbandons probe auto perm = (probe || !auto || perm) := by decide
theorem tbl_failReason : failReason true = .recipientRejected ∧ failReason false = .retriesExhausted := by decide
theorem tbl_failDrops (n : Nat) (b : Bool) : failDrops n b = (decide (n = 0) && b) := rfl
theorem tbl_failEvents : (∀ probe, failPushesFailed probe = !probe) ∧ (∀ perm, failPathEvent false perm = .paymentPathFailed) ∧
    failPathEvent true true = .probeSuccessful ∧ failPathEvent true false = .probeFailed ∧ failPathEventFirst = true := by decide
theorem tbl_abandonArm : abandonArm .abandoned = .stored ∧ abandonArm .awaitingInvoice = .argument ∧
    abandonArm .fulfilled = .nothing := by decide
theorem tbl_abandonStoredTest (n : Nat) : abandonStoredTest n = decide (n = 0) := rfl
theorem tbl_staleArm : staleArm .fulfilled = .fulfilled ∧ staleArm .awaitingInvoice = .expiration ∧
    staleArm .retryable = .keep ∧ staleArm .abandoned = .keep := by decide
theorem tbl_staleFulfilled (b : Bool) (t T : Nat) :
    staleFulfilled b t T = if b then (t + 1, decide (t + 1 ≤ T)) else (0, true) := rfl
theorem tbl_staleTimerTicks (t : Nat) : staleTimerTicks t = if t > 0 then (t - 1, false) else (t, true) := by
  simp [staleTimerTicks]
theorem tbl_staleReason : staleReason = .invoiceRequestExpired := rfl
theorem tbl_sweepAbandons (a : Bool) (n : Nat) (pre : Bool) : sweepAbandons a n pre = (!a && decide (n = 0) && !pre) := rfl
theorem tbl_sweepReason : sweepReason = .retriesExhausted := rfl
theorem tbl_autoRetryableV : ∀ v, autoRetryableV v = decide (v = .retryable) := by intro v; cases v <;> rfl
theorem tbl_startup : startupArm .awaitingInvoice = .replace ∧ startupArm .retryable = .insert ∧ startupArm .fulfilled = .insert ∧
    startupArm .abandoned = .insert ∧ startupNewVariant = .retryable ∧ (∀ a, startupNewPending a = a) ∧ (∀ a, startupNewTotal a = a) := by
  refine ⟨by decide, by decide, by decide, by decide, by decide, fun _ => rfl, fun _ => rfl⟩
theorem tbl_retry : (∀ m c, attemptsRetryable m c = decide (m > c)) ∧
    (∀ s n, isRetryableNow .retryable s n = (!s || n)) ∧ (∀ s n, isRetryableNow .abandoned s n = false) ∧
    (∀ s p n, isAutoRetryableNow .retryable s p n = (s && p && n)) ∧ (∀ s p n, isAutoRetryableNow .fulfilled s p n = false) := by
  refine ⟨fun _ _ => rfl, by decide, by decide, by decide, by decide⟩

/-! ### the generated-driven definitions equal the hand-written ones -/

theorem removePart_eq_self {p : PartId} {ps : List PartId} (h : p ∉ ps) : removePart p ps = ps := by
  unfold removePart
  rw [List.filter_eq_self]
  intro a ha
  have : a ≠ p := by
    intro e; subst e; exact h ha
  simpa using this

theorem len0_isEmpty (l : List PartId) : decide (l.length = 0) = l.isEmpty := by cases l <;> simp

theorem removeSent_eq_H (amt : Amt) (p : PartId) (st : PState) : removeSent amt p st = removeSentH amt p st := by
  cases st with
  | absent => rfl
  | preHtlc t => rfl
  | retryable ps pe to =>
    by_cases h : p ∈ ps <;>
      simp [removeSent, removeSentH, removeP, PState.variant, removeHolds, PState.parts, PState.withParts, PState.mapPend, h]
  | fulfilled ps t =>
    by_cases h : p ∈ ps <;>
      simp [removeSent, removeSentH, removeP, PState.variant, removeHolds, PState.parts, PState.withParts, PState.mapPend, h,
        removePart_eq_self]
  | abandoned ps r =>
    by_cases h : p ∈ ps <;>
      simp [removeSent, removeSentH, removeP, PState.variant, removeHolds, PState.parts, PState.withParts, PState.mapPend, h,
        removePart_eq_self]

/-- `removeSent` on a Retryable entry, in the hand-written shape -/
theorem removeSent_retryable (amt : Amt) (p : PartId) (ps : List PartId) (pe to : Nat) :
    removeSent amt p (.retryable ps pe to) =
      if ps.contains p then .retryable (removePart p ps) (removeAdjustsPending true pe (amt p)) to else .retryable ps pe to := by
  rw [removeSent_eq_H]; rfl

theorem abandonP_eq_H (id : PayId) (st : PState) (r : Reason) (pre : List Ev) : abandonP id st r pre = abandonPH id st r pre := by
  cases st with
  | absent => rfl
  | preHtlc t => rfl
  | fulfilled ps t => rfl
  | retryable ps pe to =>
    cases ps <;> simp [abandonP, abandonPH, abandonNow, markAbandonedP, PState.variant, markAbandonedRewrites, markAbandonedTo,
      markAbandonedKeepsParts, abandonArm, abandonStoredTest, PState.remaining, holdsParts, PState.parts, PState.storedReason]
  | abandoned ps r0 =>
    cases ps <;> simp [abandonP, abandonPH, abandonNow, markAbandonedP, PState.variant, markAbandonedRewrites, markAbandonedTo,
      markAbandonedKeepsParts, abandonArm, abandonStoredTest, PState.remaining, holdsParts, PState.parts, PState.storedReason]


section
attribute [local simp] PState.variant PState.parts PState.remaining PState.isAbandoned PState.withParts PState.mapPend
  PState.storedReason markFulfilledP markAbandonedP removeP insertP failTail Reason.ofGen holdsParts isFulfilledV isAbandonedV
  isPreHtlcLockIn markFulfilledTo markFulfilledKeepsParts markFulfilledTicks markAbandonedTo markAbandonedRewrites
  markAbandonedKeepsParts removeHolds insertAccepts autoRetryableV claimSends claimRemoves claimPathOk finalizeAsserts
  finalizePathOk failReturnsNotRemoved failReturnsFulfilled failAbandons failReason failDrops failPushesFailed failPathEvent
  abandonArm abandonStoredTest staleArm staleFulfilled staleTimerTicks staleReason sweepAbandons sweepReason startupArm
  startupNewPending startupNewTotal abandonNow removePart_eq_self

theorem stepP_claim_eq_H (amt : Amt) (id : PayId) (st : PState) (p : PartId) (oc : Bool) :
    stepP amt id st (.claim p oc) = stepPH amt id st (.claim p oc) := by
  cases st with
  | absent => rfl
  | preHtlc t => cases oc <;> rfl
  | retryable ps pe to => by_cases h : p ∈ ps <;> cases oc <;> simp [stepP, stepPH, h]
  | fulfilled ps t => by_cases h : p ∈ ps <;> cases oc <;> simp [stepP, stepPH, h]
  | abandoned ps r => by_cases h : p ∈ ps <;> cases oc <;> simp [stepP, stepPH, h]

theorem stepP_finalize_eq_H (amt : Amt) (id : PayId) (st : PState) (p : PartId) :
    stepP amt id st (.finalize p) = stepPH amt id st (.finalize p) := by
  cases st with
  | absent => rfl
  | preHtlc t => rfl
  | retryable ps pe to => rfl
  | fulfilled ps t => by_cases h : p ∈ ps <;> simp [stepP, stepPH, h]
  | abandoned ps r => rfl

theorem stepP_fail_eq_H (amt : Amt) (id : PayId) (st : PState) (p : PartId) (auto perm : Bool) :
    stepP amt id st (.fail p auto perm) = stepPH amt id st (.fail p auto perm) := by
  cases st with
  | absent => rfl
  | preHtlc t => rfl
  | retryable ps pe to =>
    by_cases h : p ∈ ps
    · cases hl : removePart p ps <;> cases auto <;> cases perm <;> simp [stepP, stepPH, h, hl]
    · simp [stepP, stepPH, h]
  | fulfilled ps t => by_cases h : p ∈ ps <;> simp [stepP, stepPH, h]
  | abandoned ps r =>
    by_cases h : p ∈ ps
    · cases hl : removePart p ps <;> cases auto <;> cases perm <;> simp [stepP, stepPH, h, hl]
    · simp [stepP, stepPH, h]

theorem stepP_sweep_eq_H (amt : Amt) (id : PayId) (st : PState) (auto : Bool) :
    stepP amt id st (.sweep auto) = stepPH amt id st (.sweep auto) := by
  cases st with
  | absent => rfl
  | preHtlc t => simp [stepP, stepPH]
  | retryable ps pe to => cases ps <;> cases auto <;> simp [stepP, stepPH]
  | fulfilled ps t => cases ps <;> simp [stepP, stepPH]
  | abandoned ps r => cases ps <;> cases auto <;> simp [stepP, stepPH]

theorem stepP_tick_eq_H (amt : Amt) (id : PayId) (st : PState) (pe : Bool) :
    stepP amt id st (.tick pe) = stepPH amt id st (.tick pe) := by
  cases st with
  | absent => rfl
  | preHtlc t => cases t <;> simp [stepP, stepPH]
  | retryable ps pe to => rfl
  | fulfilled ps t =>
    cases ps <;> cases pe <;> simp [stepP, stepPH] <;> split <;> simp_all
  | abandoned ps r => rfl

theorem stepP_insert_eq_H (amt : Amt) (id : PayId) (st : PState) (p : PartId) :
    stepP amt id st (.insert p) = stepPH amt id st (.insert p) := by
  cases st with
  | absent => rfl
  | preHtlc t => rfl
  | retryable ps pe to => by_cases h : p ∈ ps <;> simp [stepP, stepPH, h]
  | fulfilled ps t => rfl
  | abandoned ps r => rfl

end

/-- REFINEMENT: the transition function the driver runs (every life-cycle decision looked up in the generated tables) is the
    hand-written transition function, for every amount map, payment id, state and op -/
theorem stepP_eq_H (amt : Amt) (id : PayId) (st : PState) (op : POp) : stepP amt id st op = stepPH amt id st op := by
  cases op with
  | claim p oc => exact stepP_claim_eq_H amt id st p oc
  | finalize p => exact stepP_finalize_eq_H amt id st p
  | fail p auto perm => exact stepP_fail_eq_H amt id st p auto perm
  | sweep auto => exact stepP_sweep_eq_H amt id st auto
  | tick pe => exact stepP_tick_eq_H amt id st pe
  | insert p => exact stepP_insert_eq_H amt id st p
  | abandon r => exact abandonP_eq_H id st r []
  | send parts => cases st <;> rfl
  | await t => cases st <;> rfl
  | invoice parts => cases st <;> rfl
  | retry parts now => cases st <;> rfl
  | sendR paths ns => cases st <;> rfl
  | retryR paths now ns => cases st <;> rfl

end Ldk.OutboundPay
