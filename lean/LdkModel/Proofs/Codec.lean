import LdkModel.Model.Codec
/-! Helper lemmas for Props/C13.lean (core only). -/
namespace Ldk.Codec

/-! ### big-endian integers -/

theorem beEncode_length (n x : Nat) : (beEncode n x).length = n := by
  induction n generalizing x with
  | zero => rfl
  | succ n ih => simp [beEncode, ih]

theorem beDecode_snoc (l : Bytes) (b : UInt8) : beDecode (l ++ [b]) = beDecode l * 256 + b.toNat := by
  simp [beDecode, List.foldl_append]

theorem beDecode_beEncode (n x : Nat) : beDecode (beEncode n x) = x % 256 ^ n := by
  induction n generalizing x with
  | zero => simp [beEncode, beDecode, Nat.mod_one]
  | succ n ih =>
    rw [beEncode, beDecode_snoc, ih, UInt8.toNat_ofNat']
    have e : (256 : Nat) ^ (n + 1) = 256 * 256 ^ n := by rw [Nat.pow_succ, Nat.mul_comm]
    rw [e, Nat.mod_mul]
    have : x % 256 % 2 ^ 8 = x % 256 := Nat.mod_eq_of_lt (by omega)
    omega

theorem foldl_be (acc : Nat) (b : Bytes) :
    b.foldl (fun acc x => acc * 256 + x.toNat) acc = acc * 256 ^ b.length + beDecode b := by
  induction b generalizing acc with
  | nil => simp [beDecode]
  | cons x xs ih =>
    simp only [List.foldl_cons, List.length_cons, beDecode]
    rw [ih, ih (0 * 256 + x.toNat), Nat.pow_succ, Nat.add_mul, Nat.add_mul, Nat.mul_assoc, Nat.mul_comm 256 (256 ^ xs.length)]
    omega

theorem beDecode_cons (x : UInt8) (xs : Bytes) : beDecode (x :: xs) = x.toNat * 256 ^ xs.length + beDecode xs := by
  have := foldl_be (0 * 256 + x.toNat) xs
  simp only [beDecode, List.foldl_cons] at *
  rw [this]; simp

theorem beDecode_lt (b : Bytes) : beDecode b < 256 ^ b.length := by
  induction b with
  | nil => simp [beDecode]
  | cons x xs ih =>
    rw [beDecode_cons, List.length_cons, Nat.pow_succ]
    have h1 : x.toNat ≤ 255 := by have := x.toNat_lt; omega
    have h2 : x.toNat * 256 ^ xs.length ≤ 255 * 256 ^ xs.length := Nat.mul_le_mul_right _ h1
    omega

theorem beEncode_beDecode (b : Bytes) : beEncode b.length (beDecode b) = b := by
  generalize hn : b.length = n
  induction n generalizing b with
  | zero => simp [List.length_eq_zero_iff.mp hn, beEncode]
  | succ n ih =>
    have hne : b ≠ [] := by intro h; simp [h] at hn
    have hb := List.dropLast_concat_getLast hne
    rw [← hb, beDecode_snoc, beEncode]
    have hl : b.dropLast.length = n := by simp [hn]
    have h1 : (beDecode b.dropLast * 256 + (b.getLast hne).toNat) / 256 = beDecode b.dropLast := by
      have := (b.getLast hne).toNat_lt; omega
    have h2 : (beDecode b.dropLast * 256 + (b.getLast hne).toNat) % 256 = (b.getLast hne).toNat := by
      have := (b.getLast hne).toNat_lt; omega
    rw [h1, h2, ih _ hl, UInt8.ofNat_toNat]

theorem readUint_encode (n x : Nat) (r : Bytes) : readUint n (beEncode n x ++ r) = .ok (x % 256 ^ n, r) := by
  have hl := beEncode_length n x
  simp [readUint, List.length_append, hl, List.take_left' hl, List.drop_left' hl, beDecode_beEncode]

theorem readUint_ok {n : Nat} {b r : Bytes} {x : Nat} (h : readUint n b = .ok (x, r)) :
    b = beEncode n x ++ r ∧ x < 256 ^ n := by
  unfold readUint at h
  split at h
  · cases h
  · rename_i hlen
    simp only [Except.ok.injEq, Prod.mk.injEq] at h
    obtain ⟨hx, hr⟩ := h
    have htl : (b.take n).length = n := by simp [List.length_take]; omega
    constructor
    · rw [← hx, ← hr]
      have := beEncode_beDecode (b.take n)
      rw [htl] at this
      rw [this, List.take_append_drop]
    · rw [← hx]; have := beDecode_lt (b.take n); rwa [htl] at this

theorem readUint_error {n : Nat} {b : Bytes} {e : DecodeError} (h : readUint n b = .error e) :
    e = .ShortRead ∧ b.length < n := by
  unfold readUint at h
  split at h
  · cases h; exact ⟨rfl, by assumption⟩
  · cases h


/-! ### BigSize -/

theorem BigSize.encode_ne_nil (n : Nat) : BigSize.encode n ≠ [] := by
  unfold BigSize.encode; split <;> (try split) <;> (try split) <;> simp

theorem bigsize_roundtrip' (n : Nat) (h : n < 2 ^ 64) (r : Bytes) :
    BigSize.decode (BigSize.encode n ++ r) = .ok (n, r) := by
  unfold BigSize.encode
  split
  · rename_i h1
    have : (UInt8.ofNat n).toNat = n := by rw [UInt8.toNat_ofNat']; omega
    simp only [List.cons_append, List.nil_append, BigSize.decode, this]
    rw [if_neg (by omega), if_neg (by omega), if_neg (by omega)]
  · split
    · rename_i h1 h2
      have hm : n % 256 ^ 2 = n := Nat.mod_eq_of_lt (by omega)
      simp only [List.cons_append, BigSize.decode, readUint_encode, hm]
      rw [if_neg (by decide), if_neg (by decide), if_pos (by decide), if_neg (by omega)]
    · split
      · rename_i h1 h2 h3
        have hm : n % 256 ^ 4 = n := Nat.mod_eq_of_lt (by omega)
        simp only [List.cons_append, BigSize.decode, readUint_encode, hm]
        rw [if_neg (by decide), if_pos (by decide), if_neg (by omega)]
      · rename_i h1 h2 h3
        have hm : n % 256 ^ 8 = n := Nat.mod_eq_of_lt (by omega)
        simp only [List.cons_append, BigSize.decode, readUint_encode, hm]
        rw [if_pos (by decide), if_neg (by omega)]

theorem bigsize_minimal' {b r : Bytes} {n : Nat} (h : BigSize.decode b = .ok (n, r)) :
    b = BigSize.encode n ++ r ∧ n < 2 ^ 64 := by
  cases b with
  | nil => cases h
  | cons x rest =>
    have hx := x.toNat_lt
    simp only [BigSize.decode] at h
    split at h
    · rename_i hb
      split at h
      · cases h
      · rename_i y r' hy
        split at h
        · cases h
        · rename_i hge
          cases h
          obtain ⟨h1, h2⟩ := readUint_ok hy
          have : x = 0xFF := by rw [← UInt8.ofNat_toNat (x := x), hb]; rfl
          subst this
          refine ⟨?_, by omega⟩
          unfold BigSize.encode
          rw [if_neg (by omega), if_neg (by omega), if_neg (by omega), h1]; rfl
    · split at h
      · rename_i hb' hb
        split at h
        · cases h
        · rename_i y r' hy
          split at h
          · cases h
          · rename_i hge
            cases h
            obtain ⟨h1, h2⟩ := readUint_ok hy
            have : x = 0xFE := by rw [← UInt8.ofNat_toNat (x := x), hb]; rfl
            subst this
            refine ⟨?_, by omega⟩
            unfold BigSize.encode
            rw [if_neg (by omega), if_neg (by omega), if_pos (by omega), h1]; rfl
      · split at h
        · rename_i hb'' hb' hb
          split at h
          · cases h
          · rename_i y r' hy
            split at h
            · cases h
            · rename_i hge
              cases h
              obtain ⟨h1, h2⟩ := readUint_ok hy
              have : x = 0xFD := by rw [← UInt8.ofNat_toNat (x := x), hb]; rfl
              subst this
              refine ⟨?_, by omega⟩
              unfold BigSize.encode
              rw [if_neg (by omega), if_pos (by omega), h1]; rfl
        · cases h
          refine ⟨?_, by omega⟩
          unfold BigSize.encode
          rw [if_pos (by omega), UInt8.ofNat_toNat]; rfl

theorem bigsize_decode_shorter {b r : Bytes} {n : Nat} (h : BigSize.decode b = .ok (n, r)) :
    r.length < b.length := by
  obtain ⟨h1, _⟩ := bigsize_minimal' h
  have := BigSize.encode_ne_nil n
  rw [h1, List.length_append]
  have : 0 < (BigSize.encode n).length := List.length_pos_iff.mpr this
  omega

theorem bigsize_decode_error {b : Bytes} {e : DecodeError} (h : BigSize.decode b = .error e) :
    e = .ShortRead ∨ e = .InvalidValue := by
  cases b with
  | nil => cases h; exact .inl rfl
  | cons x rest =>
    simp only [BigSize.decode] at h
    repeat' split at h
    all_goals first
      | (cases h; exact .inr rfl)
      | (rename_i he; cases h; exact .inl (readUint_error he).1)
      | cases h


/-! ### CollectionLength -/

theorem collLen_roundtrip (n : Nat) (h : n < 2 ^ 64) (r : Bytes) :
    CollLen.decode (CollLen.encode n ++ r) = .ok (n, r) := by
  unfold CollLen.encode
  split
  · rename_i h1
    have hm : n % 256 ^ 2 = n := Nat.mod_eq_of_lt (by omega)
    simp only [CollLen.decode, readUint_encode, hm]
    rw [if_neg (by omega)]
  · rename_i h1
    have hm : (n - 0xffff) % 256 ^ 8 = n - 0xffff := Nat.mod_eq_of_lt (by omega)
    simp only [CollLen.decode, List.append_assoc, readUint_encode, hm]
    have e : (0xffff : Nat) % 256 ^ 2 = 0xffff := by decide
    rw [e, if_pos trivial, if_pos (by omega)]
    have : n - 0xffff + 0xffff = n := by omega
    rw [this]

theorem collLen_ok {b r : Bytes} {n : Nat} (h : CollLen.decode b = .ok (n, r)) :
    n < 2 ^ 64 ∧ ∃ pre, b = pre ++ r := by
  unfold CollLen.decode at h
  split at h
  · cases h
  · rename_i v r1 h1
    obtain ⟨e1, l1⟩ := readUint_ok h1
    split at h
    · split at h
      · cases h
      · rename_i w r2 h2
        obtain ⟨e2, l2⟩ := readUint_ok h2
        split at h
        · cases h
          exact ⟨by assumption, ⟨beEncode 2 v ++ beEncode 8 w, by rw [e1, e2, List.append_assoc]⟩⟩
        · cases h
    · cases h
      exact ⟨by omega, ⟨_, e1⟩⟩

/-! ### field types -/

theorem decN_encList (e : FieldTy) (r : Bytes)
    (ih : ∀ (x : Val) (r : Bytes), e.valid x = true → e.decode (e.encode x ++ r) = .ok (x, r)) :
    ∀ v : Val, v.allElems e.valid = true → decN e.decode v.len (encList e.encode v ++ r) = .ok (v, r) := by
  intro v
  induction v with
  | nat n => intro h; simp [Val.allElems] at h
  | bytes b => intro h; simp [Val.allElems] at h
  | unit => intro _; simp [Val.len, encList, decN]
  | pair x xs _ ihxs =>
    intro h
    simp only [Val.allElems, Bool.and_eq_true] at h
    simp only [Val.len, encList, decN, List.append_assoc, ih x _ h.1, ihxs h.2]

theorem beDecode_dropZeros (l : Bytes) : beDecode (l.dropWhile (· == 0)) = beDecode l := by
  induction l with
  | nil => rfl
  | cons x xs ih =>
    simp only [List.dropWhile_cons]
    split
    · rename_i hx
      have : x = 0 := by simpa using hx
      subst this
      rw [ih, beDecode_cons]; simp
    · rfl

theorem dropZeros_head (l : Bytes) : (l.dropWhile (· == 0)).head? ≠ some 0 := by
  induction l with
  | nil => simp
  | cons x xs ih =>
    simp only [List.dropWhile_cons]
    split
    · exact ih
    · rename_i hx
      simp only [List.head?_cons, ne_eq, Option.some.injEq]
      intro h; subst h; simp at hx

theorem dropZeros_length (l : Bytes) : (l.dropWhile (· == 0)).length ≤ l.length := by
  induction l with
  | nil => simp
  | cons x xs ih => simp only [List.dropWhile_cons]; split <;> simp <;> omega

/-! ### address parts -/

theorem part_roundtrip (p : AddrPart) (v : Val) (r : Bytes) (hv : p.valid v = true) :
    p.decode (p.encode v ++ r) = .ok (v, r) := by
  cases p <;> cases v <;> simp [AddrPart.valid] at hv
  · rename_i n b
    simp [AddrPart.decode, AddrPart.encode, hv, List.take_left' hv, List.drop_left' hv]
  · rename_i x
    simp [AddrPart.decode, AddrPart.encode, readUint_encode, Nat.mod_eq_of_lt (show x < 256 ^ 2 by omega)]
  · rename_i x
    simp [AddrPart.decode, AddrPart.encode, readUint_encode, Nat.mod_eq_of_lt (show x < 256 ^ 1 by omega)]
  · rename_i b
    obtain ⟨h1, h2⟩ := hv
    simp only [AddrPart.decode, AddrPart.encode, List.append_assoc, readUint_encode, Nat.mod_eq_of_lt (show b.length < 256 ^ 1 by omega)]
    simp only [List.length_append, List.take_left' rfl, List.drop_left' rfl, List.all_eq_true]
    rw [if_neg (by omega), if_pos h2]

theorem part_decode_exact (p : AddrPart) (b : Bytes) (v : Val) (r : Bytes) (h : p.decode b = .ok (v, r)) :
    b = p.encode v ++ r ∧ p.valid v = true := by
  cases p with
  | bytes n =>
    simp only [AddrPart.decode] at h
    split at h
    · cases h
    · rename_i hl
      cases h
      simp [AddrPart.encode, AddrPart.valid, List.length_take]; omega
  | u16 =>
    simp only [AddrPart.decode] at h
    split at h
    · cases h
    · rename_i x r' hr
      cases h
      obtain ⟨e, hx⟩ := readUint_ok hr
      exact ⟨e, by simp [AddrPart.valid]; omega⟩
  | u8 =>
    simp only [AddrPart.decode] at h
    split at h
    · cases h
    · rename_i x r' hr
      cases h
      obtain ⟨e, hx⟩ := readUint_ok hr
      exact ⟨e, by simp [AddrPart.valid]; omega⟩
  | hostname =>
    simp only [AddrPart.decode] at h
    split at h
    · cases h
    · rename_i len r' hr
      obtain ⟨e, hx⟩ := readUint_ok hr
      split at h
      · cases h
      · rename_i hl
        split at h
        · rename_i hall
          cases h
          have hlen : (r'.take len).length = len := by simp [List.length_take]; omega
          refine ⟨?_, ?_⟩
          · simp only [AddrPart.encode, hlen, List.append_assoc, List.take_append_drop]; exact e
          · simp only [AddrPart.valid, hlen, Bool.and_eq_true, decide_eq_true_eq]; exact ⟨by omega, hall⟩
        · cases h

theorem parts_roundtrip : ∀ (ps : List AddrPart) (vs : List Val) (r : Bytes), validParts ps vs = true →
    decodeParts ps (encodeParts ps vs ++ r) = .ok (vs, r)
  | [], [], r, _ => by simp [decodeParts, encodeParts]
  | [], _ :: _, r, h => by simp [validParts] at h
  | _ :: _, [], r, h => by simp [validParts] at h
  | p :: ps, v :: vs, r, h => by
    simp only [validParts, Bool.and_eq_true] at h
    simp only [decodeParts, encodeParts, List.append_assoc, part_roundtrip p v _ h.1, parts_roundtrip ps vs r h.2]

theorem parts_decode_exact : ∀ (ps : List AddrPart) (b : Bytes) (vs : List Val) (r : Bytes), decodeParts ps b = .ok (vs, r) →
    b = encodeParts ps vs ++ r ∧ validParts ps vs = true
  | [], b, vs, r, h => by
    simp only [decodeParts, Except.ok.injEq, Prod.mk.injEq] at h
    obtain ⟨rfl, rfl⟩ := h
    simp [encodeParts, validParts]
  | p :: ps, b, vs, r, h => by
    simp only [decodeParts] at h
    split at h
    · cases h
    · rename_i v r1 h1
      split at h
      · cases h
      · rename_i vs' r2 h2
        cases h
        obtain ⟨e1, v1⟩ := part_decode_exact p b v r1 h1
        obtain ⟨e2, v2⟩ := parts_decode_exact ps r1 vs' r h2
        exact ⟨by rw [e1, e2]; simp [encodeParts], by simp [validParts, v1, v2]⟩

theorem hostLen_no_host : ∀ (ps : List AddrPart) (vs : List Val), ps.contains .hostname = false → hostLen ps vs = 0
  | [], vs, _ => by cases vs <;> simp [hostLen]
  | p :: ps, [], _ => by cases p <;> simp [hostLen]
  | p :: ps, v :: vs, h => by
    simp only [List.contains_cons, Bool.or_eq_false_iff] at h
    cases p <;> simp_all [hostLen, hostLen_no_host ps vs]

theorem parts_encode_length : ∀ (ps : List AddrPart) (vs : List Val), validParts ps vs = true →
    (encodeParts ps vs).length = staticLen ps + hostLen ps vs
  | [], [], _ => by simp [encodeParts, staticLen, hostLen]
  | [], _ :: _, h => by simp [validParts] at h
  | _ :: _, [], h => by simp [validParts] at h
  | p :: ps, v :: vs, h => by
    simp only [validParts, Bool.and_eq_true] at h
    have ih := parts_encode_length ps vs h.2
    have hs : staticLen (p :: ps) = p.staticLen + staticLen ps := by simp [staticLen]
    rw [hs]
    cases p <;> cases v <;> simp [AddrPart.valid] at h <;>
      simp [encodeParts, AddrPart.encode, AddrPart.staticLen, hostLen, ih, beEncode_length] <;> omega


/-! ### the SocketAddress table -/

theorem findKind_some {kinds : List AddrKind} {i : Nat} {k : AddrKind} (h : findKind kinds i = some k) : k ∈ kinds ∧ k.id = i := by
  unfold findKind at h
  exact ⟨List.mem_of_find?_eq_some h, by have := List.find?_some h; simpa using this⟩

theorem kindsWf_mem {kinds : List AddrKind} (hk : kindsWf kinds = true) {k : AddrKind} (hm : k ∈ kinds) :
    k.id < 256 ∧ k.lenConst = staticLen k.parts ∧ k.lenHost = k.parts.contains .hostname := by
  simp only [kindsWf, Bool.and_eq_true, List.all_eq_true, decide_eq_true_eq, beq_iff_eq] at hk
  obtain ⟨⟨h1, h2⟩, h3⟩ := hk.1 k hm
  exact ⟨h1, h2, h3⟩

theorem u8_ofNat_toNat (t : UInt8) : UInt8.ofNat t.toNat = t := UInt8.ofNat_toNat

/-- `SocketAddress::len` + the type byte IS the number of bytes `write` produces -/
theorem addr_encode_length {kinds : List AddrKind} (hk : kindsWf kinds = true) (a : SockAddr) (hv : a.valid kinds = true) :
    (a.encode kinds).length = 1 + a.len kinds := by
  unfold SockAddr.valid at hv
  unfold SockAddr.encode SockAddr.len
  split at hv
  · rename_i k hf
    obtain ⟨_, h2, h3⟩ := kindsWf_mem hk (findKind_some hf).1
    simp only [List.length_cons, parts_encode_length _ _ hv, h2]
    cases hh : k.lenHost
    · rw [h3] at hh
      simp [hostLen_no_host _ a.vals hh]; omega
    · simp; omega
  · cases hv

theorem addr_roundtrip {kinds : List AddrKind} (hk : kindsWf kinds = true) (a : SockAddr) (r : Bytes) (hv : a.valid kinds = true) :
    decodeAddrResult kinds (a.encode kinds ++ r) = .ok (.inl a, r) := by
  unfold SockAddr.valid at hv
  unfold SockAddr.encode
  split at hv
  · rename_i k hf
    obtain ⟨hm, hid⟩ := findKind_some hf
    obtain ⟨hlt, _, _⟩ := kindsWf_mem hk hm
    have ht : (UInt8.ofNat a.id).toNat = a.id := by rw [UInt8.toNat_ofNat']; omega
    simp only [List.cons_append, decodeAddrResult, ht, hf, parts_roundtrip _ _ r hv]
    cases a; simp_all
  · cases hv

theorem addr_decode_exact {kinds : List AddrKind} {b : Bytes} {a : SockAddr} {r : Bytes}
    (h : decodeAddrResult kinds b = .ok (.inl a, r)) : b = a.encode kinds ++ r ∧ a.valid kinds = true := by
  cases b with
  | nil => simp [decodeAddrResult] at h
  | cons t rest =>
    simp only [decodeAddrResult] at h
    split at h
    · rename_i k hf
      split at h
      · cases h
      · rename_i vs r' hp
        simp only [Except.ok.injEq, Prod.mk.injEq, Sum.inl.injEq] at h
        obtain ⟨rfl, rfl⟩ := h
        obtain ⟨e, hv⟩ := parts_decode_exact _ _ _ _ hp
        have hid := (findKind_some hf).2
        simp only [SockAddr.encode, SockAddr.valid, hid, hf, u8_ofNat_toNat, List.cons_append]
        exact ⟨by rw [e], hv⟩
    · cases h

theorem addr_decode_unknown {kinds : List AddrKind} {b : Bytes} {x : UInt8} {r : Bytes}
    (h : decodeAddrResult kinds b = .ok (.inr x, r)) : b = x :: r ∧ findKind kinds x.toNat = none := by
  cases b with
  | nil => simp [decodeAddrResult] at h
  | cons t rest =>
    simp only [decodeAddrResult] at h
    split at h
    · split at h <;> cases h
    · rename_i hf
      simp only [Except.ok.injEq, Prod.mk.injEq, Sum.inr.injEq] at h
      obtain ⟨rfl, rfl⟩ := h
      exact ⟨rfl, hf⟩

theorem addr_unknown_result (kinds : List AddrKind) (x : UInt8) (r : Bytes) (h : findKind kinds x.toNat = none) :
    decodeAddrResult kinds (x :: r) = .ok (.inr x, r) := by
  simp [decodeAddrResult, h]

theorem addr_encode_ne_nil {kinds : List AddrKind} (a : SockAddr) (hv : a.valid kinds = true) : 1 ≤ (a.encode kinds).length := by
  unfold SockAddr.valid at hv
  unfold SockAddr.encode
  split at hv
  · simp
  · cases hv


/-! ### vector values, chunks -/

theorem ofList_toList : ∀ (v : Val), v.allElems (fun _ => true) = true → Val.ofList v.toList = v
  | .unit, _ => by simp [Val.toList, Val.ofList]
  | .pair x xs, h => by
    simp only [Val.allElems, Bool.true_and] at h
    simp [Val.toList, Val.ofList, ofList_toList xs h]
  | .nat _, h => by simp [Val.allElems] at h
  | .bytes _, h => by simp [Val.allElems] at h

theorem toList_ofList : ∀ (l : List Val), (Val.ofList l).toList = l ∧ (Val.ofList l).allElems (fun _ => true) = true
  | [] => by simp [Val.ofList, Val.toList, Val.allElems]
  | x :: xs => by simp [Val.ofList, Val.toList, Val.allElems, toList_ofList xs]

theorem chunks_encode_length (n : Nat) : ∀ (v : Val), v.allElems (chunkOk n) = true → (encList chunkEnc v).length = v.len * n
  | .unit, _ => by simp [encList, Val.len]
  | .pair x xs, h => by
    simp only [Val.allElems, Bool.and_eq_true] at h
    cases x <;> simp [chunkOk] at h
    rename_i b
    simp [encList, chunkEnc, Val.len, chunks_encode_length n xs h.2, h.1]; rw [Nat.add_mul]; omega
  | .nat _, h => by simp [Val.allElems] at h
  | .bytes _, h => by simp [Val.allElems] at h

theorem chunkVals_encList (n : Nat) : ∀ (v : Val), v.allElems (chunkOk n) = true → chunkVals n v.len (encList chunkEnc v) = v
  | .unit, _ => by simp [encList, Val.len, chunkVals]
  | .pair x xs, h => by
    simp only [Val.allElems, Bool.and_eq_true] at h
    cases x <;> simp [chunkOk] at h
    rename_i b
    simp [encList, chunkEnc, Val.len, chunkVals, List.take_left' h.1, List.drop_left' h.1, chunkVals_encList n xs h.2]
  | .nat _, h => by simp [Val.allElems] at h
  | .bytes _, h => by simp [Val.allElems] at h

theorem chunkVals_spec (n : Nat) : ∀ (k : Nat) (b : Bytes), k * n ≤ b.length →
    (chunkVals n k b).allElems (chunkOk n) = true ∧ (encList chunkEnc (chunkVals n k b)).length = k * n
  | 0, b, _ => by simp [chunkVals, Val.allElems, encList]
  | k + 1, b, h => by
    have hk : k * n + n ≤ b.length := by rw [Nat.add_mul] at h; omega
    obtain ⟨i1, i2⟩ := chunkVals_spec n k (b.drop n) (by simp; omega)
    have ht : (b.take n).length = n := by simp [List.length_take]; omega
    refine ⟨by simp [chunkVals, Val.allElems, chunkOk, ht, i1], ?_⟩
    simp [chunkVals, encList, chunkEnc, i2, ht]; rw [Nat.add_mul]; omega

theorem field_roundtrip (ty : FieldTy) : ∀ (v : Val) (r : Bytes), ty.wf = true → ty.valid v = true →
    (ty.selfDelim = true ∨ r = []) → ty.decode (ty.encode v ++ r) = .ok (v, r) := by
  induction ty with
  | uint n =>
    intro v r _ hv _
    cases v <;> simp [FieldTy.valid] at hv
    rename_i x
    simp [FieldTy.encode, FieldTy.decode, readUint_encode, Nat.mod_eq_of_lt hv]
  | fixed n c =>
    intro v r _ hv _
    cases v <;> simp [FieldTy.valid] at hv
    rename_i b
    obtain ⟨hl, hc⟩ := hv
    simp only [FieldTy.encode, FieldTy.decode, List.length_append, List.take_left' hl, List.drop_left' hl, hc]
    rw [if_neg (by omega)]
  | unit =>
    intro v r _ hv _
    cases v <;> simp [FieldTy.valid] at hv
    simp [FieldTy.encode, FieldTy.decode]
  | bigsize =>
    intro v r _ hv _
    cases v <;> simp [FieldTy.valid] at hv
    rename_i x
    simp [FieldTy.encode, FieldTy.decode, bigsize_roundtrip' x hv r]
  | hzd n =>
    intro v r _ hv hsd
    cases v <;> simp [FieldTy.valid] at hv
    rename_i x
    have hr : r = [] := by cases hsd with | inl h => simp [FieldTy.selfDelim] at h | inr h => exact h
    subst hr
    simp only [FieldTy.encode, List.append_nil, FieldTy.decode]
    have hlen := dropZeros_length (beEncode n x)
    rw [beEncode_length] at hlen
    have hmin : min n ((beEncode n x).dropWhile (· == 0)).length = ((beEncode n x).dropWhile (· == 0)).length := by omega
    have hval : beDecode ((beEncode n x).dropWhile (· == 0)) = x := by
      rw [beDecode_dropZeros, beDecode_beEncode, Nat.mod_eq_of_lt hv]
    rw [hmin]
    split
    · rename_i h0
      have : (beEncode n x).dropWhile (· == 0) = [] := List.length_eq_zero_iff.mp h0
      rw [this] at hval ⊢
      simp [beDecode] at hval
      rw [← hval]
    · rw [if_neg (dropZeros_head _)]
      simp [hval]
  | varBytes =>
    intro v r _ hv _
    cases v <;> simp [FieldTy.valid] at hv
    rename_i b
    simp only [FieldTy.encode, FieldTy.decode, List.append_assoc, collLen_roundtrip _ hv, List.length_append,
      List.take_left' rfl, List.drop_left' rfl]
    rw [if_neg (by omega)]
  | bytes16 =>
    intro v r _ hv _
    cases v <;> simp [FieldTy.valid] at hv
    rename_i b
    have hm : b.length % 256 ^ 2 = b.length := Nat.mod_eq_of_lt (by omega)
    simp only [FieldTy.encode, FieldTy.decode, List.append_assoc, readUint_encode, hm, List.length_append,
      List.take_left' rfl, List.drop_left' rfl]
    rw [if_neg (by omega)]
  | restBytes =>
    intro v r _ hv hsd
    cases v <;> simp [FieldTy.valid] at hv
    have hr : r = [] := by cases hsd with | inl h => simp [FieldTy.selfDelim] at h | inr h => exact h
    subst hr
    simp [FieldTy.encode, FieldTy.decode]
  | pair a b iha ihb =>
    intro v r hwf hv hsd
    cases v <;> simp [FieldTy.valid] at hv
    rename_i x y
    simp only [FieldTy.wf, Bool.and_eq_true] at hwf
    obtain ⟨⟨hwa, hsa⟩, hwb⟩ := hwf
    have hsb : b.selfDelim = true ∨ r = [] := by
      cases hsd with
      | inl h => simp only [FieldTy.selfDelim, Bool.and_eq_true] at h; exact .inl h.2
      | inr h => exact .inr h
    simp only [FieldTy.encode, FieldTy.decode, List.append_assoc, iha x _ hwa hv.1 (.inl hsa), ihb y r hwb hv.2 hsb]
  | vec e ih =>
    intro v r hwf hv _
    simp only [FieldTy.wf, Bool.and_eq_true] at hwf
    have hv' : v.len < 2 ^ 64 ∧ v.allElems e.valid = true := by
      cases v <;> simpa [FieldTy.valid] using hv
    have henc : (FieldTy.vec e).encode v = CollLen.encode v.len ++ encList e.encode v := by
      cases v <;> simp [FieldTy.encode]
    simp only [henc, FieldTy.decode, List.append_assoc, collLen_roundtrip _ hv'.1]
    exact decN_encList e r (fun x r hx => ih x r hwf.1 hx (.inl hwf.2)) v hv'.2
  | sockAddr kinds =>
    intro v r hwf hv _
    simp only [FieldTy.wf] at hwf
    cases v with
    | pair x vs =>
      cases x with
      | nat id =>
        simp only [FieldTy.valid, Bool.and_eq_true] at hv
        obtain ⟨hl, hva⟩ := hv
        simp only [FieldTy.encode, FieldTy.decode, decodeAddr, addr_roundtrip hwf ⟨id, vs.toList⟩ r hva, ofList_toList vs hl]
      | _ => simp [FieldTy.valid] at hv
    | _ => simp [FieldTy.valid] at hv
  | chunks n =>
    intro v r hwf hv hsd
    have hr : r = [] := by cases hsd with | inl h => simp [FieldTy.selfDelim] at h | inr h => exact h
    subst hr
    simp only [FieldTy.wf, decide_eq_true_eq] at hwf
    have hv' : v.allElems (chunkOk n) = true := by cases v <;> simpa [FieldTy.valid] using hv
    have henc : (FieldTy.chunks n).encode v = encList chunkEnc v := by cases v <;> simp [FieldTy.encode]
    have hlen := chunks_encode_length n v hv'
    simp only [henc, List.append_nil, FieldTy.decode, hlen, Nat.mul_mod_left, if_true, Nat.mul_div_cancel _ hwf,
      chunkVals_encList n v hv']


/-! ### TLV stream loop on a well-framed stream -/

theorem rawEncode_cons_length (t : Nat) (val : Bytes) (rest : List (Nat × Bytes)) :
    (rawEncode rest).length < (rawEncode ((t, val) :: rest)).length := by
  have := List.length_pos_iff.mpr (BigSize.encode_ne_nil t)
  simp only [rawEncode, List.length_append]; omega

theorem tlvLoop_raw (tlvs : List TlvField) : ∀ (recs : List (Nat × Bytes)) (fuel : Nat) (last : Option Nat)
    (acc : List (Nat × Val)), (∀ p ∈ recs, p.1 < 2 ^ 64 ∧ p.2.length < 2 ^ 64) → (rawEncode recs).length < fuel →
    tlvLoop tlvs fuel last acc (rawEncode recs) = procRecs tlvs last acc recs := by
  intro recs
  induction recs with
  | nil =>
    intro fuel last acc _ hf
    cases fuel with
    | zero => simp at hf
    | succ f => simp [rawEncode, tlvLoop, procRecs]
  | cons p rest ih =>
    intro fuel last acc hb hf
    obtain ⟨t, val⟩ := p
    have hp := hb (t, val) (List.mem_cons_self)
    have hrest : ∀ p ∈ rest, p.1 < 2 ^ 64 ∧ p.2.length < 2 ^ 64 := fun p hp => hb p (List.mem_cons_of_mem _ hp)
    cases fuel with
    | zero => simp at hf
    | succ f =>
      have hlt := rawEncode_cons_length t val rest
      have hf' : (rawEncode rest).length < f := by omega
      have hne : (rawEncode ((t, val) :: rest)).isEmpty = false := by
        have := List.length_pos_iff.mpr (BigSize.encode_ne_nil t)
        cases h : rawEncode ((t, val) :: rest) with
        | nil => rw [h] at hlt; simp at hlt
        | cons _ _ => rfl
      rw [tlvLoop, hne]
      simp only [Bool.false_eq_true, if_false, rawEncode, bigsize_roundtrip' t hp.1, bigsize_roundtrip' _ hp.2,
        List.take_left' rfl, List.drop_left' rfl, List.length_append, procRecs]
      split
      · rfl
      · split
        · rfl
        · split
          · rename_i f' hfind
            split
            · rfl
            · rename_i v rem hdec
              have : val.length ≤ val.length + (rawEncode rest).length := by omega
              simp only [this, decide_true, Bool.and_true]
              split
              · exact ih f (some t) _ hrest hf'
              · rw [if_neg (by omega)]
          · split
            · rfl
            · rw [if_neg (by omega)]
              exact ih f (some t) _ hrest hf'


/-! ### round trip of a TLV stream written by `encodeTlvs` -/

/-- the raw records `encodeTlvs` writes -/
def presentRecs : List TlvField → List (Option Val) → List (Nat × Bytes)
  | f :: fs, some v :: vs => (f.typ, f.ty.encode v) :: presentRecs fs vs
  | _ :: fs, none :: vs => presentRecs fs vs
  | _, _ => []

/-- the decoded records of the present fields -/
def presentVals : List TlvField → List (Option Val) → List (Nat × Val)
  | f :: fs, some v :: vs => (f.typ, v) :: presentVals fs vs
  | _ :: fs, none :: vs => presentVals fs vs
  | _, _ => []

theorem encodeTlvs_eq_raw : ∀ (fs : List TlvField) (vs : List (Option Val)),
    encodeTlvs fs vs = rawEncode (presentRecs fs vs)
  | [], _ => by simp [encodeTlvs, presentRecs, rawEncode]
  | _ :: _, [] => by simp [encodeTlvs, presentRecs, rawEncode]
  | f :: fs, some v :: vs => by simp [encodeTlvs, presentRecs, rawEncode, encodeTlvs_eq_raw fs vs]
  | f :: fs, none :: vs => by simp [encodeTlvs, presentRecs, encodeTlvs_eq_raw fs vs]

theorem strictInc_pairwise : ∀ (l : List Nat), strictInc l = true → l.Pairwise (· < ·)
  | [], _ => List.Pairwise.nil
  | [a], _ => by simp
  | a :: b :: rest, h => by
    simp only [strictInc, Bool.and_eq_true, decide_eq_true_eq] at h
    have ih := strictInc_pairwise (b :: rest) h.2
    have ih' := List.pairwise_cons.mp ih
    rw [List.pairwise_cons]
    refine ⟨?_, ih⟩
    intro x hx
    rcases List.mem_cons.mp hx with rfl | hx
    · exact h.1
    · exact Nat.lt_trans h.1 (ih'.1 x hx)

theorem lastLt_some (t u : Nat) : lastLt (some t) u = decide (t < u) := rfl

theorem procRecs_present (tlvs : List TlvField) (hpw : (tlvs.map (·.typ)).Pairwise (· < ·))
    (hwf : ∀ f ∈ tlvs, f.ty.wf = true) :
    ∀ (suf pre : List TlvField) (vals : List (Option Val)) (last : Option Nat) (acc : List (Nat × Val)),
    tlvs = pre ++ suf → validTlvs suf vals = true →
    (∀ g ∈ pre, g.kind = .required → lastLt last g.typ = false) →
    (∀ g ∈ suf, lastLt last g.typ = true) →
    procRecs tlvs last acc (presentRecs suf vals) = .ok (acc ++ presentVals suf vals) := by
  intro suf
  induction suf with
  | nil =>
    intro pre vals last acc hsplit hval hb _
    have hm : reqMissing tlvs last = false := by
      rw [reqMissing, List.any_eq_false]
      intro g hg
      rw [hsplit, List.append_nil] at hg
      cases hk : g.kind with
      | option => simp
      | required => simp [hb g hg hk]
    cases vals <;> simp [presentRecs, presentVals, procRecs, hm]
  | cons f suf' ih =>
    intro pre vals last acc hsplit hval hb hc
    have hsplit' : tlvs = (pre ++ [f]) ++ suf' := by rw [hsplit]; simp
    rw [hsplit, List.map_append, List.map_cons, List.pairwise_append] at hpw
    obtain ⟨_, hpw2, hpw3⟩ := hpw
    rw [List.pairwise_cons] at hpw2
    have hpre : ∀ g ∈ pre, g.typ < f.typ := fun g hg =>
      hpw3 _ (List.mem_map_of_mem hg) _ (List.mem_cons_self)
    have hsuf : ∀ g ∈ suf', f.typ < g.typ := fun g hg => hpw2.1 _ (List.mem_map_of_mem hg)
    cases vals with
    | nil => simp [validTlvs] at hval
    | cons ov vals' =>
      cases ov with
      | none =>
        simp only [validTlvs, Bool.and_eq_true, beq_iff_eq] at hval
        simp only [presentRecs, presentVals]
        apply ih (pre ++ [f]) vals' last acc hsplit' hval.2
        · intro g hg hk
          rcases List.mem_append.mp hg with hg | hg
          · exact hb g hg hk
          · simp only [List.mem_singleton] at hg; subst hg; rw [hval.1] at hk; cases hk
        · intro g hg; exact hc g (List.mem_cons_of_mem _ hg)
      | some v =>
        simp only [validTlvs, Bool.and_eq_true, decide_eq_true_eq] at hval
        obtain ⟨⟨hv, hlen⟩, hval'⟩ := hval
        have hlast : lastLt last f.typ = true := hc f (List.mem_cons_self)
        have hskip : reqSkipped tlvs last f.typ = false := by
          rw [reqSkipped, List.any_eq_false]
          intro g hg
          rw [hsplit] at hg
          rcases List.mem_append.mp hg with hg | hg
          · cases hk : g.kind with
            | option => simp
            | required => simp [hb g hg hk]
          · rcases List.mem_cons.mp hg with rfl | hg
            · simp
            · have := hsuf g hg
              have : ¬ g.typ < f.typ := by omega
              simp [this]
        have hfind : tlvs.find? (fun g => g.typ == f.typ) = some f := by
          rw [hsplit, List.find?_append]
          have : pre.find? (fun g => g.typ == f.typ) = none := by
            rw [List.find?_eq_none]
            intro g hg
            have := hpre g hg
            simp; omega
          rw [this]; simp
        have hdec := field_roundtrip f.ty v [] (hwf f (by rw [hsplit]; simp)) hv (.inr rfl)
        rw [List.append_nil] at hdec
        simp only [presentRecs, presentVals, procRecs, hlast, hskip, hfind, hdec, Bool.not_true,
          Bool.false_eq_true, if_false, List.isEmpty_nil, if_true]
        rw [ih (pre ++ [f]) vals' (some f.typ) _ hsplit' hval']
        · simp
        · intro g hg hk
          rcases List.mem_append.mp hg with hg | hg
          · have := hpre g hg
            rw [lastLt_some]; simp; omega
          · simp only [List.mem_singleton] at hg; subst hg; rw [lastLt_some]; simp
        · intro g hg
          have := hsuf g hg
          rw [lastLt_some]; simp; omega

theorem lookup_none_of_ne {k : Nat} : ∀ (l : List (Nat × Val)), (∀ p ∈ l, p.1 ≠ k) → l.lookup k = none
  | [], _ => rfl
  | (a, b) :: rest, h => by
    have h1 : a ≠ k := h (a, b) (List.mem_cons_self)
    have : (k == a) = false := by simp; omega
    simp only [List.lookup, this]
    exact lookup_none_of_ne rest (fun p hp => h p (List.mem_cons_of_mem _ hp))

theorem presentVals_keys : ∀ (fs : List TlvField) (vs : List (Option Val)) (p : Nat × Val),
    p ∈ presentVals fs vs → ∃ g ∈ fs, g.typ = p.1
  | [], _, p, h => by simp [presentVals] at h
  | _ :: _, [], p, h => by simp [presentVals] at h
  | f :: fs, some v :: vs, p, h => by
    simp only [presentVals, List.mem_cons] at h
    rcases h with rfl | h
    · exact ⟨f, List.mem_cons_self, rfl⟩
    · obtain ⟨g, hg, e⟩ := presentVals_keys fs vs p h
      exact ⟨g, List.mem_cons_of_mem _ hg, e⟩
  | f :: fs, none :: vs, p, h => by
    simp only [presentVals] at h
    obtain ⟨g, hg, e⟩ := presentVals_keys fs vs p h
    exact ⟨g, List.mem_cons_of_mem _ hg, e⟩

theorem lookup_presentVals : ∀ (fs : List TlvField) (vs : List (Option Val)),
    (fs.map (·.typ)).Pairwise (· < ·) → validTlvs fs vs = true →
    fs.map (fun f => (presentVals fs vs).lookup f.typ) = vs
  | [], vs, _, h => by cases vs <;> simp [validTlvs] at h ⊢
  | _ :: _, [], _, h => by simp [validTlvs] at h
  | f :: fs, ov :: vs, hpw, h => by
    rw [List.map_cons, List.pairwise_cons] at hpw
    have hgt : ∀ g ∈ fs, f.typ < g.typ := fun g hg => hpw.1 _ (List.mem_map_of_mem hg)
    cases ov with
    | some v =>
      simp only [validTlvs, Bool.and_eq_true] at h
      have ih := lookup_presentVals fs vs hpw.2 h.2
      simp only [presentVals, List.map_cons, List.lookup, beq_self_eq_true]
      congr 1
      rw [← ih]
      apply List.map_congr_left
      intro g hg
      have := hgt g hg
      have : (g.typ == f.typ) = false := by simp; omega
      simp [this, ih]
    | none =>
      simp only [validTlvs, Bool.and_eq_true] at h
      have ih := lookup_presentVals fs vs hpw.2 h.2
      simp only [presentVals, List.map_cons, ih]
      congr 1
      apply lookup_none_of_ne
      intro p hp
      obtain ⟨g, hg, e⟩ := presentVals_keys fs vs p hp
      have := hgt g hg
      omega

theorem presentRecs_bounds : ∀ (fs : List TlvField) (vs : List (Option Val)),
    (∀ f ∈ fs, f.typ < 2 ^ 64) → validTlvs fs vs = true →
    ∀ p ∈ presentRecs fs vs, p.1 < 2 ^ 64 ∧ p.2.length < 2 ^ 64
  | [], _, _, _, p, hp => by simp [presentRecs] at hp
  | _ :: _, [], _, _, p, hp => by simp [presentRecs] at hp
  | f :: fs, some v :: vs, hf, hv, p, hp => by
    simp only [validTlvs, Bool.and_eq_true, decide_eq_true_eq] at hv
    simp only [presentRecs, List.mem_cons] at hp
    rcases hp with rfl | hp
    · exact ⟨hf f (List.mem_cons_self), hv.1.2⟩
    · exact presentRecs_bounds fs vs (fun g hg => hf g (List.mem_cons_of_mem _ hg)) hv.2 p hp
  | f :: fs, none :: vs, hf, hv, p, hp => by
    simp only [validTlvs, Bool.and_eq_true] at hv
    simp only [presentRecs] at hp
    exact presentRecs_bounds fs vs (fun g hg => hf g (List.mem_cons_of_mem _ hg)) hv.2 p hp

theorem decodeFixed_roundtrip : ∀ (ts : List FieldTy) (vs : List Val) (r : Bytes),
    (∀ t ∈ ts, t.wf = true ∧ t.selfDelim = true) → validFixed ts vs = true →
    decodeFixed ts (encodeFixed ts vs ++ r) = .ok (vs, r)
  | [], vs, r, _, h => by cases vs <;> simp [validFixed] at h; simp [encodeFixed, decodeFixed]
  | _ :: _, [], r, _, h => by simp [validFixed] at h
  | t :: ts, v :: vs, r, hw, h => by
    simp only [validFixed, Bool.and_eq_true] at h
    have ht := hw t (List.mem_cons_self)
    simp only [encodeFixed, decodeFixed, List.append_assoc, field_roundtrip t v _ ht.1 h.1 (.inl ht.2),
      decodeFixed_roundtrip ts vs r (fun u hu => hw u (List.mem_cons_of_mem _ hu)) h.2]

theorem schema_wf_parts {s : Schema} (h : s.wf = true) :
    (∀ t ∈ s.fixed, t.wf = true ∧ t.selfDelim = true) ∧
    (∀ f ∈ s.tlvs, f.ty.wf = true ∧ f.typ < 2 ^ 64 ∧ (f.kind = .option ∨ f.typ % 2 = 0)) ∧
    (s.tlvs.map (·.typ)).Pairwise (· < ·) := by
  simp only [Schema.wf, Bool.and_eq_true, List.all_eq_true, decide_eq_true_eq, Bool.or_eq_true, beq_iff_eq] at h
  exact ⟨h.1.1, fun f hf => ⟨(h.1.2 f hf).1.1, (h.1.2 f hf).1.2, (h.1.2 f hf).2⟩, strictInc_pairwise _ h.2⟩

theorem decodeTlvStream_encodeTlvs (tlvs : List TlvField) (vals : List (Option Val))
    (hpw : (tlvs.map (·.typ)).Pairwise (· < ·)) (hwf : ∀ f ∈ tlvs, f.ty.wf = true ∧ f.typ < 2 ^ 64)
    (hv : validTlvs tlvs vals = true) :
    decodeTlvStream tlvs (encodeTlvs tlvs vals) = .ok (presentVals tlvs vals) := by
  rw [decodeTlvStream, encodeTlvs_eq_raw,
    tlvLoop_raw tlvs _ _ none [] (presentRecs_bounds tlvs vals (fun f hf => (hwf f hf).2) hv) (by omega),
    procRecs_present tlvs hpw (fun f hf => (hwf f hf).1) tlvs [] vals none [] rfl hv (by simp) (by simp [lastLt])]
  simp

theorem schema_roundtrip (s : Schema) (v : MsgVal) (hwf : s.wf = true) (hv : v.valid s = true) :
    s.decode (s.encode v) = .ok v := by
  obtain ⟨h1, h2, h3⟩ := schema_wf_parts hwf
  simp only [MsgVal.valid, Bool.and_eq_true] at hv
  simp only [Schema.decode, Schema.encode, decodeFixed_roundtrip _ _ _ h1 hv.1,
    decodeTlvStream_encodeTlvs s.tlvs v.tlvs h3 (fun f hf => ⟨(h2 f hf).1, (h2 f hf).2.1⟩) hv.2,
    lookup_presentVals _ _ h3 hv.2]


/-! ### unknown even / out of order / unknown odd, on raw records -/

theorem procRecs_cons_cases (tlvs : List TlvField) (last : Option Nat) (acc : List (Nat × Val)) (t : Nat) (val : Bytes)
    (rest : List (Nat × Bytes)) :
    (∃ e, procRecs tlvs last acc ((t, val) :: rest) = .error e) ∨
    (lastLt last t = true ∧ ∃ acc', procRecs tlvs last acc ((t, val) :: rest) = procRecs tlvs (some t) acc' rest) := by
  rw [procRecs]
  split
  · exact .inl ⟨_, rfl⟩
  · rename_i hl
    have hl' : lastLt last t = true := by simpa using hl
    split
    · exact .inl ⟨_, rfl⟩
    · split
      · split
        · exact .inl ⟨_, rfl⟩
        · split
          · exact .inr ⟨hl', _, rfl⟩
          · exact .inl ⟨_, rfl⟩
      · split
        · exact .inl ⟨_, rfl⟩
        · exact .inr ⟨hl', _, rfl⟩

theorem procRecs_unknown_even (tlvs : List TlvField) (t : Nat) (val : Bytes) (r2 : List (Nat × Bytes))
    (heven : t % 2 = 0) (hunk : ∀ f ∈ tlvs, f.typ ≠ t) :
    ∀ (r1 : List (Nat × Bytes)) (last : Option Nat) (acc : List (Nat × Val)),
    ∃ e, procRecs tlvs last acc (r1 ++ (t, val) :: r2) = .error e := by
  intro r1
  induction r1 with
  | nil =>
    intro last acc
    have hfind : tlvs.find? (fun f => f.typ == t) = none := by
      rw [List.find?_eq_none]; intro f hf; simpa using hunk f hf
    simp only [List.nil_append, procRecs, hfind, heven, beq_self_eq_true, if_true]
    split
    · exact ⟨_, rfl⟩
    · split <;> exact ⟨_, rfl⟩
  | cons p r1 ih =>
    intro last acc
    obtain ⟨t1, v1⟩ := p
    rcases procRecs_cons_cases tlvs last acc t1 v1 (r1 ++ (t, val) :: r2) with h | ⟨_, acc', h⟩
    · exact h
    · rw [List.cons_append, h]; exact ih _ _

theorem procRecs_unknown_even_exact (tlvs : List TlvField) (t : Nat) (val : Bytes) (r2 : List (Nat × Bytes))
    (last : Option Nat) (acc : List (Nat × Val))
    (heven : t % 2 = 0) (hunk : ∀ f ∈ tlvs, f.typ ≠ t) (hl : lastLt last t = true)
    (hs : reqSkipped tlvs last t = false) :
    procRecs tlvs last acc ((t, val) :: r2) = .error .UnknownRequiredFeature := by
  have hfind : tlvs.find? (fun f => f.typ == t) = none := by
    rw [List.find?_eq_none]; intro f hf; simpa using hunk f hf
  simp [procRecs, hfind, heven, hl, hs]

theorem procRecs_out_of_order (tlvs : List TlvField) (t1 t2 : Nat) (v1 v2 : Bytes) (r2 : List (Nat × Bytes))
    (hle : t2 ≤ t1) :
    ∀ (r1 : List (Nat × Bytes)) (last : Option Nat) (acc : List (Nat × Val)),
    ∃ e, procRecs tlvs last acc (r1 ++ (t1, v1) :: (t2, v2) :: r2) = .error e := by
  intro r1
  induction r1 with
  | nil =>
    intro last acc
    rcases procRecs_cons_cases tlvs last acc t1 v1 ((t2, v2) :: r2) with h | ⟨_, acc', h⟩
    · exact h
    · rw [List.nil_append, h, procRecs]
      have : lastLt (some t1) t2 = false := by rw [lastLt_some]; simp; omega
      simp [this]
  | cons p r1 ih =>
    intro last acc
    obtain ⟨t0, v0⟩ := p
    rcases procRecs_cons_cases tlvs last acc t0 v0 (r1 ++ (t1, v1) :: (t2, v2) :: r2) with h | ⟨_, acc', h⟩
    · exact h
    · rw [List.cons_append, h]; exact ih _ _

theorem lastLt_trans {last : Option Nat} {t u : Nat} (h : lastLt last t = true) (htu : t < u) : lastLt last u = true := by
  cases last with
  | none => rfl
  | some l => simp only [lastLt_some, decide_eq_true_eq] at *; omega

/-- skipping an unknown odd record does not change the rest of the run -/
theorem procRecs_skip_odd (tlvs : List TlvField) (t : Nat) (val : Bytes) (r2 : List (Nat × Bytes))
    (last : Option Nat) (acc : List (Nat × Val))
    (hodd : t % 2 = 1) (hunk : ∀ f ∈ tlvs, f.typ ≠ t) (hl : lastLt last t = true) (h2 : ∀ p ∈ r2, t < p.1) :
    procRecs tlvs last acc ((t, val) :: r2) = procRecs tlvs last acc r2 := by
  have hfind : tlvs.find? (fun f => f.typ == t) = none := by
    rw [List.find?_eq_none]; intro f hf; simpa using hunk f hf
  have hodd' : (t % 2 == 0) = false := by simp; omega
  rw [procRecs]
  simp only [hl, Bool.not_true, Bool.false_eq_true, if_false, hfind, hodd']
  by_cases hs : reqSkipped tlvs last t = true
  · -- a required field was skipped: both sides report InvalidValue
    rw [if_pos hs]
    rw [reqSkipped, List.any_eq_true] at hs
    obtain ⟨g, hg, hgp⟩ := hs
    simp only [Bool.and_eq_true, decide_eq_true_eq] at hgp
    cases r2 with
    | nil =>
      have : reqMissing tlvs last = true := by
        rw [reqMissing, List.any_eq_true]; exact ⟨g, hg, by simp [hgp.1.1, hgp.1.2]⟩
      simp [procRecs, this]
    | cons p r2' =>
      obtain ⟨t2, v2⟩ := p
      have ht2 : t < t2 := h2 (t2, v2) (List.mem_cons_self)
      have hl2 : lastLt last t2 = true := lastLt_trans hl ht2
      have : reqSkipped tlvs last t2 = true := by
        rw [reqSkipped, List.any_eq_true]
        exact ⟨g, hg, by simp only [Bool.and_eq_true, decide_eq_true_eq]; exact ⟨hgp.1, by omega⟩⟩
      simp [procRecs, hl2, this]
  · have hs' : reqSkipped tlvs last t = false := by simpa using hs
    rw [if_neg hs]
    -- for every declared field: "after t" and "after last" agree
    have key : ∀ g ∈ tlvs, g.kind = .required → lastLt (some t) g.typ = lastLt last g.typ := by
      intro g hg hk
      rw [lastLt_some]
      by_cases hgt : t < g.typ
      · simp [hgt, lastLt_trans hl hgt]
      · have hne := hunk g hg
        have hlt : g.typ < t := by omega
        rw [reqSkipped, List.any_eq_false] at hs'
        have := hs' g hg
        simp only [hk, beq_self_eq_true, Bool.true_and, Bool.and_eq_true, decide_eq_true_eq, not_and] at this
        have hnl : lastLt last g.typ = false := by
          cases hll : lastLt last g.typ with
          | false => rfl
          | true => exact absurd hlt (this hll)
        simp [hgt, hnl]
    have key2 : ∀ g ∈ tlvs, ((g.kind == .required) = true ∧ lastLt (some t) g.typ = true) ↔
        ((g.kind == .required) = true ∧ lastLt last g.typ = true) := by
      intro g hg
      constructor
      · rintro ⟨a, b⟩; exact ⟨a, by rw [← key g hg (by simpa using a)]; exact b⟩
      · rintro ⟨a, b⟩; exact ⟨a, by rw [key g hg (by simpa using a)]; exact b⟩
    cases r2 with
    | nil =>
      have : reqMissing tlvs (some t) = reqMissing tlvs last := by
        simp only [reqMissing]
        apply Bool.eq_iff_iff.mpr
        simp only [List.any_eq_true, Bool.and_eq_true]
        constructor
        · rintro ⟨g, hg, h⟩; exact ⟨g, hg, (key2 g hg).mp h⟩
        · rintro ⟨g, hg, h⟩; exact ⟨g, hg, (key2 g hg).mpr h⟩
      simp [procRecs, this]
    | cons p r2' =>
      obtain ⟨t2, v2⟩ := p
      have ht2 : t < t2 := h2 (t2, v2) (List.mem_cons_self)
      have hl2 : lastLt last t2 = true := lastLt_trans hl ht2
      have hl2' : lastLt (some t) t2 = true := by rw [lastLt_some]; simpa using ht2
      have : reqSkipped tlvs (some t) t2 = reqSkipped tlvs last t2 := by
        simp only [reqSkipped]
        apply Bool.eq_iff_iff.mpr
        simp only [List.any_eq_true, Bool.and_eq_true]
        constructor
        · rintro ⟨g, hg, h, h'⟩; exact ⟨g, hg, (key2 g hg).mp h, h'⟩
        · rintro ⟨g, hg, h, h'⟩; exact ⟨g, hg, (key2 g hg).mpr h, h'⟩
      rw [procRecs, procRecs]
      simp only [hl2, hl2', this]

theorem procRecs_unknown_odd (tlvs : List TlvField) (t : Nat) (val : Bytes) (r2 : List (Nat × Bytes))
    (hodd : t % 2 = 1) (hunk : ∀ f ∈ tlvs, f.typ ≠ t) (h2 : ∀ p ∈ r2, t < p.1) :
    ∀ (r1 : List (Nat × Bytes)) (last : Option Nat) (acc : List (Nat × Val)),
    (∀ p ∈ r1, p.1 < t) → lastLt last t = true →
    procRecs tlvs last acc (r1 ++ (t, val) :: r2) = procRecs tlvs last acc (r1 ++ r2) := by
  intro r1
  induction r1 with
  | nil => intro last acc _ hl; exact procRecs_skip_odd tlvs t val r2 last acc hodd hunk hl h2
  | cons p r1 ih =>
    intro last acc h1 _
    obtain ⟨t0, v0⟩ := p
    have ht0 : t0 < t := h1 (t0, v0) (List.mem_cons_self)
    have h1' : ∀ p ∈ r1, p.1 < t := fun p hp => h1 p (List.mem_cons_of_mem _ hp)
    have hl0 : lastLt (some t0) t = true := by rw [lastLt_some]; simpa using ht0
    simp only [List.cons_append, procRecs]
    split
    · rfl
    · split
      · rfl
      · split
        · split
          · rfl
          · split
            · exact ih _ _ h1' hl0
            · rfl
        · split
          · rfl
          · exact ih _ _ h1' hl0


/-! ### the fuel of `tlvLoop` is irrelevant once it exceeds the input length -/

theorem tlvLoop_fuel (tlvs : List TlvField) : ∀ (f1 f2 : Nat) (last : Option Nat) (acc : List (Nat × Val)) (b : Bytes),
    b.length < f1 → b.length < f2 → tlvLoop tlvs f1 last acc b = tlvLoop tlvs f2 last acc b := by
  intro f1
  induction f1 with
  | zero => intro f2 last acc b h; simp at h
  | succ n ih =>
    intro f2 last acc b h1 h2
    cases f2 with
    | zero => simp at h2
    | succ m =>
      rw [tlvLoop, tlvLoop]
      split
      · rfl
      · split
        · rfl
        · rename_i typ b1 hd1
          split
          · rfl
          · split
            · rfl
            · split
              · rfl
              · rename_i len b2 hd2
                have s1 := bigsize_decode_shorter hd1
                have s2 := bigsize_decode_shorter hd2
                have hd : (b2.drop len).length ≤ b2.length := by simp [List.length_drop]
                split
                · split
                  · rfl
                  · split
                    · exact ih m _ _ _ (by omega) (by omega)
                    · rfl
                · split
                  · rfl
                  · split
                    · rfl
                    · exact ih m _ _ _ (by omega) (by omega)

/-- the out-of-fuel branch (`Io`) is never the reason for an answer of `decodeTlvStream` -/
theorem decodeTlvStream_fuel (tlvs : List TlvField) (b : Bytes) (k : Nat) :
    decodeTlvStream tlvs b = tlvLoop tlvs (b.length + 1 + k) none [] b :=
  tlvLoop_fuel tlvs _ _ _ _ _ (by omega) (by omega)

/-! ### decoders consume a prefix of their input -/

theorem decN_suffix (dec : Bytes → Res (Val × Bytes))
    (hd : ∀ b v r, dec b = .ok (v, r) → ∃ pre, b = pre ++ r) :
    ∀ (n : Nat) (b : Bytes) (v : Val) (r : Bytes), decN dec n b = .ok (v, r) → ∃ pre, b = pre ++ r := by
  intro n
  induction n with
  | zero => intro b v r h; simp only [decN, Except.ok.injEq, Prod.mk.injEq] at h; exact ⟨[], by simp [h.2]⟩
  | succ n ih =>
    intro b v r h
    simp only [decN] at h
    split at h
    · cases h
    · rename_i x b1 h1
      split at h
      · cases h
      · rename_i xs b2 h2
        cases h
        obtain ⟨p1, e1⟩ := hd _ _ _ h1
        obtain ⟨p2, e2⟩ := ih _ _ _ h2
        exact ⟨p1 ++ p2, by rw [e1, e2, List.append_assoc]⟩

theorem field_decode_suffix (ty : FieldTy) : ∀ (b : Bytes) (v : Val) (r : Bytes),
    ty.decode b = .ok (v, r) → ∃ pre, b = pre ++ r := by
  induction ty with
  | uint n =>
    intro b v r h
    simp only [FieldTy.decode] at h
    split at h
    · cases h
    · rename_i x r' h1; cases h; exact ⟨_, (readUint_ok h1).1⟩
  | fixed n c =>
    intro b v r h
    simp only [FieldTy.decode] at h
    split at h
    · cases h
    · split at h
      · cases h
      · cases h; exact ⟨b.take n, (List.take_append_drop n b).symm⟩
  | unit => intro b v r h; simp only [FieldTy.decode, Except.ok.injEq, Prod.mk.injEq] at h; exact ⟨[], by simp [h.2]⟩
  | bigsize =>
    intro b v r h
    simp only [FieldTy.decode] at h
    split at h
    · cases h
    · rename_i x r' h1; cases h; exact ⟨_, (bigsize_minimal' h1).1⟩
  | hzd n =>
    intro b v r h
    simp only [FieldTy.decode] at h
    split at h
    · cases h; exact ⟨[], rfl⟩
    · split at h
      · cases h
      · cases h; exact ⟨_, (List.take_append_drop _ b).symm⟩
  | varBytes =>
    intro b v r h
    simp only [FieldTy.decode] at h
    split at h
    · cases h
    · rename_i len r' h1
      split at h
      · cases h
      · cases h
        obtain ⟨_, pre, e⟩ := collLen_ok h1
        exact ⟨pre ++ r'.take len, by rw [List.append_assoc, List.take_append_drop, e]⟩
  | bytes16 =>
    intro b v r h
    simp only [FieldTy.decode] at h
    split at h
    · cases h
    · rename_i len r' h1
      split at h
      · cases h
      · cases h
        exact ⟨beEncode 2 len ++ r'.take len, by rw [List.append_assoc, List.take_append_drop, ← (readUint_ok h1).1]⟩
  | restBytes => intro b v r h; simp only [FieldTy.decode, Except.ok.injEq, Prod.mk.injEq] at h; exact ⟨b, by simp [← h.2]⟩
  | pair x y ihx ihy =>
    intro b v r h
    simp only [FieldTy.decode] at h
    split at h
    · cases h
    · rename_i v1 r1 h1
      split at h
      · cases h
      · rename_i v2 r2 h2
        cases h
        obtain ⟨p1, e1⟩ := ihx _ _ _ h1
        obtain ⟨p2, e2⟩ := ihy _ _ _ h2
        exact ⟨p1 ++ p2, by rw [e1, e2, List.append_assoc]⟩
  | vec e ih =>
    intro b v r h
    simp only [FieldTy.decode] at h
    split at h
    · cases h
    · rename_i n r1 h1
      obtain ⟨_, p1, e1⟩ := collLen_ok h1
      obtain ⟨p2, e2⟩ := decN_suffix e.decode ih _ _ _ _ h
      exact ⟨p1 ++ p2, by rw [e1, e2, List.append_assoc]⟩
  | sockAddr kinds =>
    intro b v r h
    simp only [FieldTy.decode, decodeAddr] at h
    split at h
    · cases h
    · rename_i a r' hd
      split at hd
      · cases hd
      · rename_i a' r'' hd'
        cases hd; cases h
        exact ⟨_, (addr_decode_exact hd').1⟩
      · cases hd
  | chunks n =>
    intro b v r h
    simp only [FieldTy.decode] at h
    split at h
    · cases h; exact ⟨b, by simp⟩
    · cases h

theorem decodeFixed_suffix : ∀ (ts : List FieldTy) (b : Bytes) (vs : List Val) (r : Bytes),
    decodeFixed ts b = .ok (vs, r) → ∃ pre, b = pre ++ r
  | [], b, vs, r, h => by simp only [decodeFixed, Except.ok.injEq, Prod.mk.injEq] at h; exact ⟨[], by simp [h.2]⟩
  | t :: ts, b, vs, r, h => by
    simp only [decodeFixed] at h
    split at h
    · cases h
    · rename_i v1 r1 h1
      split at h
      · cases h
      · rename_i vs' r2 h2
        cases h
        obtain ⟨p1, e1⟩ := field_decode_suffix t _ _ _ h1
        obtain ⟨p2, e2⟩ := decodeFixed_suffix ts _ _ _ h2
        exact ⟨p1 ++ p2, by rw [e1, e2, List.append_assoc]⟩


/-! ### what a successful decode returns: a valid value whose encoding is as long as what was consumed -/

theorem canon_spec (c : Check) (n : Nat) (b v : Bytes) (hw : c.widthOk n = true) (hl : b.length = n)
    (h : c.canon b = some v) : v.length = n ∧ c.canon v = some v := by
  cases c with
  | any => simp only [Check.canon, Option.some.injEq] at h; subst h; exact ⟨hl, rfl⟩
  | bool =>
    simp only [Check.canon] at h
    split at h
    · cases h; rename_i hb; exact ⟨hl, by simp [Check.canon, hb]⟩
    · cases h
  | point =>
    simp only [Check.canon] at h
    split at h
    · cases h; rename_i hb; exact ⟨hl, by simp [Check.canon, hb]⟩
    · cases h
  | sig =>
    simp only [Check.canon] at h
    split at h
    · cases h; rename_i hb; exact ⟨hl, by simp [Check.canon, hb]⟩
    · cases h
  | onionKey =>
    have hn : n = 33 := by simpa [Check.widthOk] using hw
    simp only [Check.canon] at h
    split at h
    · cases h; rename_i hb; exact ⟨hl, by simp [Check.canon, hb]⟩
    · cases h
      exact ⟨by simp [hn], by simp [Check.canon]⟩
  | accountable =>
    have hn : n = 1 := by simpa [Check.widthOk] using hw
    simp only [Check.canon] at h
    split at h
    · cases h; exact ⟨by simp [hn], by simp [Check.canon]⟩
    · cases h; exact ⟨by simp [hn], by simp [Check.canon]⟩

theorem encList_len_spec (e : FieldTy)
    (ihe : ∀ (b : Bytes) (v : Val) (r : Bytes), e.decode b = .ok (v, r) →
      e.valid v = true ∧ b.length = (e.encode v).length + r.length) :
    ∀ (n : Nat) (b : Bytes) (v : Val) (r : Bytes), decN e.decode n b = .ok (v, r) →
      v.len = n ∧ v.allElems e.valid = true ∧ b.length = (encList e.encode v).length + r.length := by
  intro n
  induction n with
  | zero =>
    intro b v r h
    simp only [decN, Except.ok.injEq, Prod.mk.injEq] at h
    obtain ⟨rfl, rfl⟩ := h
    simp [Val.len, Val.allElems, encList]
  | succ n ih =>
    intro b v r h
    simp only [decN] at h
    split at h
    · cases h
    · rename_i x b1 h1
      split at h
      · cases h
      · rename_i xs b2 h2
        cases h
        obtain ⟨a1, a2⟩ := ihe _ _ _ h1
        obtain ⟨c1, c2, c3⟩ := ih _ _ _ h2
        simp only [Val.len, Val.allElems, encList, List.length_append, a1, c2, Bool.and_self, c1, true_and]
        omega

theorem collLen_ok_len {b r : Bytes} {n : Nat} (h : CollLen.decode b = .ok (n, r)) :
    b.length = (CollLen.encode n).length + r.length := by
  unfold CollLen.decode at h
  split at h
  · cases h
  · rename_i v r1 h1
    obtain ⟨e1, l1⟩ := readUint_ok h1
    split at h
    · rename_i hv
      split at h
      · cases h
      · rename_i w r2 h2
        obtain ⟨e2, l2⟩ := readUint_ok h2
        split at h
        · cases h
          have : ¬ (w + 0xffff < 0xffff) := by omega
          simp only [CollLen.encode, this, if_false, List.length_append, beEncode_length]
          rw [e1, e2]; simp [beEncode_length]; omega
        · cases h
    · rename_i hv
      cases h
      have : n < 0xffff := by omega
      simp only [CollLen.encode, this, if_true, beEncode_length]
      rw [e1]; simp [beEncode_length]

theorem field_decode_spec (ty : FieldTy) : ∀ (b : Bytes) (v : Val) (r : Bytes), ty.wf = true → ty.plain = true →
    ty.decode b = .ok (v, r) → ty.valid v = true ∧ b.length = (ty.encode v).length + r.length := by
  induction ty with
  | uint n =>
    intro b v r _ _ h
    simp only [FieldTy.decode] at h
    split at h
    · cases h
    · rename_i x r' h1; cases h
      obtain ⟨e, l⟩ := readUint_ok h1
      refine ⟨by simpa [FieldTy.valid] using l, ?_⟩
      rw [e]; simp [FieldTy.encode, beEncode_length]
  | fixed n c =>
    intro b v r hw _ h
    simp only [FieldTy.decode] at h
    split at h
    · cases h
    · rename_i hlen
      split at h
      · cases h
      · rename_i v' hc
        cases h
        have htl : (b.take n).length = n := by simp [List.length_take]; omega
        obtain ⟨c1, c2⟩ := canon_spec c n _ _ (by simpa [FieldTy.wf] using hw) htl hc
        refine ⟨by simp [FieldTy.valid, c1, c2], ?_⟩
        simp [FieldTy.encode, c1, List.length_drop]; omega
  | unit =>
    intro b v r _ _ h
    simp only [FieldTy.decode, Except.ok.injEq, Prod.mk.injEq] at h
    obtain ⟨rfl, rfl⟩ := h
    simp [FieldTy.valid, FieldTy.encode]
  | bigsize =>
    intro b v r _ _ h
    simp only [FieldTy.decode] at h
    split at h
    · cases h
    · rename_i x r' h1; cases h
      obtain ⟨e, l⟩ := bigsize_minimal' h1
      refine ⟨by simpa [FieldTy.valid] using l, ?_⟩
      rw [e]; simp [FieldTy.encode]
  | hzd n => intro b v r _ hp _; simp [FieldTy.plain] at hp
  | varBytes =>
    intro b v r _ _ h
    simp only [FieldTy.decode] at h
    split at h
    · cases h
    · rename_i len r' h1
      split at h
      · cases h
      · rename_i hl
        cases h
        obtain ⟨l, _⟩ := collLen_ok h1
        have e := collLen_ok_len h1
        have htl : (r'.take len).length = len := by simp [List.length_take]; omega
        refine ⟨by simp [FieldTy.valid, htl, l], ?_⟩
        simp only [FieldTy.encode, List.length_append, htl, List.length_drop]; omega
  | bytes16 =>
    intro b v r _ _ h
    simp only [FieldTy.decode] at h
    split at h
    · cases h
    · rename_i len r' h1
      split at h
      · cases h
      · rename_i hl
        cases h
        obtain ⟨e, l⟩ := readUint_ok h1
        have htl : (r'.take len).length = len := by simp [List.length_take]; omega
        refine ⟨by simp [FieldTy.valid, htl]; omega, ?_⟩
        rw [e]; simp only [FieldTy.encode, List.length_append, htl, List.length_drop, beEncode_length]; omega
  | restBytes =>
    intro b v r _ _ h
    simp only [FieldTy.decode, Except.ok.injEq, Prod.mk.injEq] at h
    obtain ⟨rfl, rfl⟩ := h
    simp [FieldTy.valid, FieldTy.encode]
  | pair x y ihx ihy =>
    intro b v r hw hp h
    simp only [FieldTy.wf, FieldTy.plain, Bool.and_eq_true] at hw hp
    simp only [FieldTy.decode] at h
    split at h
    · cases h
    · rename_i v1 r1 h1
      split at h
      · cases h
      · rename_i v2 r2 h2
        cases h
        obtain ⟨a1, a2⟩ := ihx _ _ _ hw.1.1 hp.1 h1
        obtain ⟨c1, c2⟩ := ihy _ _ _ hw.2 hp.2 h2
        refine ⟨by simp [FieldTy.valid, a1, c1], ?_⟩
        simp only [FieldTy.encode, List.length_append]; omega
  | vec e ih =>
    intro b v r hw hp h
    simp only [FieldTy.wf, FieldTy.plain, Bool.and_eq_true] at hw hp
    simp only [FieldTy.decode] at h
    split at h
    · cases h
    · rename_i n r1 h1
      obtain ⟨l, _⟩ := collLen_ok h1
      have e1 := collLen_ok_len h1
      obtain ⟨c1, c2, c3⟩ := encList_len_spec e (fun b v r hd => ih b v r hw.1 hp hd) _ _ _ _ h
      have henc : (FieldTy.vec e).encode v = CollLen.encode v.len ++ encList e.encode v := by
        cases v <;> simp [FieldTy.encode]
      have hval : (FieldTy.vec e).valid v = (decide (v.len < 2 ^ 64) && v.allElems e.valid) := by
        cases v <;> simp [FieldTy.valid]
      refine ⟨by rw [hval, c1, c2]; simpa using l, ?_⟩
      rw [henc, List.length_append, c1]; omega
  | sockAddr kinds =>
    intro b v r _ _ h
    simp only [FieldTy.decode, decodeAddr] at h
    split at h
    · cases h
    · rename_i a r' hd
      split at hd
      · cases hd
      · rename_i a' r'' hd'
        cases hd; cases h
        obtain ⟨e, hv⟩ := addr_decode_exact hd'
        obtain ⟨t1, t2⟩ := toList_ofList a.vals
        refine ⟨by simp [FieldTy.valid, t1, t2, hv], ?_⟩
        simp only [FieldTy.encode, t1]
        rw [e]; simp
      · cases hd
  | chunks n =>
    intro b v r _ _ h
    simp only [FieldTy.decode] at h
    split at h
    · rename_i hm
      cases h
      have hk : b.length / n * n ≤ b.length := Nat.div_mul_le_self _ _
      obtain ⟨s1, s2⟩ := chunkVals_spec n (b.length / n) b hk
      have henc : ∀ v, (FieldTy.chunks n).encode v = encList chunkEnc v := by intro v; cases v <;> simp [FieldTy.encode]
      have hval : ∀ v, (FieldTy.chunks n).valid v = v.allElems (chunkOk n) := by intro v; cases v <;> simp [FieldTy.valid]
      refine ⟨by rw [hval]; exact s1, ?_⟩
      rw [henc, s2]
      have := Nat.div_add_mod b.length n
      rw [hm, Nat.mul_comm] at this
      simp; omega
    · cases h


/-! ### any stream that decodes is well framed; what the loop returns is a valid TLV value list -/

theorem tlvLoop_ok_raw (tlvs : List TlvField) : ∀ (fuel : Nat) (last : Option Nat) (acc : List (Nat × Val)) (b : Bytes)
    (out : List (Nat × Val)), tlvLoop tlvs fuel last acc b = .ok out →
    ∃ recs, b = rawEncode recs ∧ ∀ p ∈ recs, p.1 < 2 ^ 64 ∧ p.2.length < 2 ^ 64 := by
  intro fuel
  induction fuel with
  | zero => intro last acc b out h; simp [tlvLoop] at h
  | succ n ih =>
    intro last acc b out h
    rw [tlvLoop] at h
    split at h
    · rename_i he
      exact ⟨[], by simpa [rawEncode] using he, by simp⟩
    · split at h
      · cases h
      · rename_i typ b1 hd1
        split at h
        · cases h
        · split at h
          · cases h
          · split at h
            · cases h
            · rename_i len b2 hd2
              obtain ⟨e1, l1⟩ := bigsize_minimal' hd1
              obtain ⟨e2, l2⟩ := bigsize_minimal' hd2
              have build : len ≤ b2.length → (∃ recs', b2.drop len = rawEncode recs' ∧
                  ∀ p ∈ recs', p.1 < 2 ^ 64 ∧ p.2.length < 2 ^ 64) →
                  ∃ recs, b = rawEncode recs ∧ ∀ p ∈ recs, p.1 < 2 ^ 64 ∧ p.2.length < 2 ^ 64 := by
                intro hle ⟨recs', e3, hb⟩
                have htl : (b2.take len).length = len := by simp [List.length_take]; omega
                refine ⟨(typ, b2.take len) :: recs', ?_, ?_⟩
                · rw [rawEncode, htl, ← e3, List.take_append_drop, ← e2, ← e1]
                · intro p hp
                  rcases List.mem_cons.mp hp with rfl | hp
                  · exact ⟨l1, by rw [htl]; exact l2⟩
                  · exact hb p hp
              split at h
              · split at h
                · cases h
                · split at h
                  · rename_i hc
                    simp only [Bool.and_eq_true, decide_eq_true_eq] at hc
                    exact build hc.2 (ih _ _ _ _ h)
                  · split at h <;> cases h
              · split at h
                · cases h
                · split at h
                  · cases h
                  · rename_i hlt
                    exact build (by omega) (ih _ _ _ _ h)

theorem find?_none_typ {tlvs : List TlvField} {t : Nat} (h : tlvs.find? (fun f => f.typ == t) = none) :
    ∀ g ∈ tlvs, g.typ ≠ t := by
  rw [List.find?_eq_none] at h
  intro g hg; simpa using h g hg

theorem procRecs_ok_spec (tlvs : List TlvField) (hty : ∀ f ∈ tlvs, f.ty.wf = true ∧ f.ty.plain = true) :
    ∀ (recs : List (Nat × Bytes)) (last : Option Nat) (acc out : List (Nat × Val)),
    (∀ p ∈ recs, p.2.length < 2 ^ 64) → procRecs tlvs last acc recs = .ok out →
    ∃ new, out = acc ++ new ∧
      (∀ p ∈ new, lastLt last p.1 = true ∧ ∃ f, tlvs.find? (fun f => f.typ == p.1) = some f ∧
        f.ty.valid p.2 = true ∧ (f.ty.encode p.2).length < 2 ^ 64) ∧
      (new.map (·.1)).Pairwise (· < ·) ∧
      (∀ g ∈ tlvs, g.kind = .required → lastLt last g.typ = true → g.typ ∈ new.map (·.1)) := by
  intro recs
  induction recs with
  | nil =>
    intro last acc out _ h
    rw [procRecs] at h
    split at h
    · cases h
    · rename_i hm
      cases h
      refine ⟨[], by simp, by simp, by simp, ?_⟩
      intro g hg hk hl
      exfalso; apply hm
      rw [reqMissing, List.any_eq_true]; exact ⟨g, hg, by simp [hk, hl]⟩
  | cons p rest ih =>
    intro last acc out hb h
    obtain ⟨t, val⟩ := p
    have hbr : ∀ p ∈ rest, p.2.length < 2 ^ 64 := fun p hp => hb p (List.mem_cons_of_mem _ hp)
    have hvl : val.length < 2 ^ 64 := hb (t, val) (List.mem_cons_self)
    rw [procRecs] at h
    split at h
    · cases h
    · rename_i hl0
      have hl : lastLt last t = true := by simpa using hl0
      split at h
      · cases h
      · rename_i hs0
        have hs : ∀ g ∈ tlvs, g.kind = .required → lastLt last g.typ = true → ¬ g.typ < t := by
          intro g hg hk hlg hlt
          apply hs0
          rw [reqSkipped, List.any_eq_true]; exact ⟨g, hg, by simp [hk, hlg, hlt]⟩
        have up : ∀ u, lastLt (some t) u = true → lastLt last u = true := by
          intro u hu; rw [lastLt_some] at hu; exact lastLt_trans hl (by simpa using hu)
        split at h
        · rename_i f hfind
          split at h
          · cases h
          · rename_i v rem hdec
            split at h
            · rename_i hrem
              obtain ⟨new', e, p1, p2, p3⟩ := ih _ _ _ hbr h
              have hf : f ∈ tlvs := List.mem_of_find?_eq_some hfind
              obtain ⟨s1, s2⟩ := field_decode_spec f.ty _ _ _ (hty f hf).1 (hty f hf).2 hdec
              refine ⟨(t, v) :: new', by rw [e]; simp, ?_, ?_, ?_⟩
              · intro p hp
                rcases List.mem_cons.mp hp with rfl | hp
                · exact ⟨hl, f, hfind, s1, by show (f.ty.encode v).length < 2 ^ 64; omega⟩
                · exact ⟨up _ (p1 p hp).1, (p1 p hp).2⟩
              · rw [List.map_cons, List.pairwise_cons]
                refine ⟨?_, p2⟩
                intro u hu
                obtain ⟨p, hp, rfl⟩ := List.mem_map.mp hu
                have := (p1 p hp).1
                rw [lastLt_some] at this; simpa using this
              · intro g hg hk hlg
                have hnlt := hs g hg hk hlg
                by_cases hgt : g.typ = t
                · simp [hgt]
                · have : lastLt (some t) g.typ = true := by rw [lastLt_some]; simp; omega
                  exact List.mem_cons_of_mem _ (p3 g hg hk this)
            · cases h
        · rename_i hfind
          split at h
          · cases h
          · obtain ⟨new', e, p1, p2, p3⟩ := ih _ _ _ hbr h
            refine ⟨new', e, ?_, p2, ?_⟩
            · intro p hp; exact ⟨up _ (p1 p hp).1, (p1 p hp).2⟩
            · intro g hg hk hlg
              have hnlt := hs g hg hk hlg
              have hne := find?_none_typ hfind g hg
              have : lastLt (some t) g.typ = true := by rw [lastLt_some]; simp; omega
              exact p3 g hg hk this

theorem lookup_mem : ∀ (l : List (Nat × Val)) (k : Nat) (v : Val), l.lookup k = some v → (k, v) ∈ l
  | [], _, _, h => by simp [List.lookup] at h
  | (a, b) :: rest, k, v, h => by
    simp only [List.lookup] at h
    split at h
    · rename_i hk
      have : k = a := by simpa using hk
      cases h; subst this; exact List.mem_cons_self
    · exact List.mem_cons_of_mem _ (lookup_mem rest k v h)

theorem lookup_ne_none_of_key : ∀ (l : List (Nat × Val)) (k : Nat), k ∈ l.map (·.1) → l.lookup k ≠ none
  | [], _, h => by simp at h
  | (a, b) :: rest, k, h => by
    simp only [List.lookup]
    split
    · simp
    · rename_i hk
      have hne : k ≠ a := by intro e; subst e; simp at hk
      have : k ∈ rest.map (·.1) := by
        simp only [List.map_cons, List.mem_cons] at h
        rcases h with h | h
        · exact absurd h hne
        · exact h
      exact lookup_ne_none_of_key rest k this

theorem typ_inj : ∀ (tlvs : List TlvField), (tlvs.map (·.typ)).Pairwise (· < ·) →
    ∀ f ∈ tlvs, ∀ g ∈ tlvs, f.typ = g.typ → f = g
  | [], _, f, hf, _, _, _ => by simp at hf
  | a :: l, hpw, f, hf, g, hg, e => by
    rw [List.map_cons, List.pairwise_cons] at hpw
    rcases List.mem_cons.mp hf with e1 | hf1
    · rcases List.mem_cons.mp hg with e2 | hg1
      · rw [e1, e2]
      · have := hpw.1 _ (List.mem_map_of_mem (f := (·.typ)) hg1); rw [e1] at e; omega
    · rcases List.mem_cons.mp hg with e2 | hg1
      · have := hpw.1 _ (List.mem_map_of_mem (f := (·.typ)) hf1); rw [e2] at e; omega
      · exact typ_inj l hpw.2 f hf1 g hg1 e

theorem validTlvs_of_spec (tlvs : List TlvField) (hpw : (tlvs.map (·.typ)).Pairwise (· < ·)) (out : List (Nat × Val))
    (p1 : ∀ p ∈ out, ∃ f, tlvs.find? (fun f => f.typ == p.1) = some f ∧ f.ty.valid p.2 = true ∧
      (f.ty.encode p.2).length < 2 ^ 64)
    (p3 : ∀ g ∈ tlvs, g.kind = .required → g.typ ∈ out.map (·.1)) :
    ∀ (fs : List TlvField), (∀ f ∈ fs, f ∈ tlvs) → validTlvs fs (fs.map fun f => out.lookup f.typ) = true := by
  intro fs
  induction fs with
  | nil => intro _; rfl
  | cons f fs ih =>
    intro hsub
    have hf := hsub f (List.mem_cons_self)
    have ih' := ih (fun g hg => hsub g (List.mem_cons_of_mem _ hg))
    rw [List.map_cons]
    cases hlk : out.lookup f.typ with
    | none =>
      have : f.kind = .option := by
        cases hk : f.kind with
        | option => rfl
        | required => exact absurd hlk (lookup_ne_none_of_key _ _ (p3 f hf hk))
      simp [validTlvs, this, ih']
    | some v =>
      obtain ⟨f', hfind, hv, hlen⟩ := p1 _ (lookup_mem _ _ _ hlk)
      have hf' : f' ∈ tlvs := List.mem_of_find?_eq_some hfind
      have ht : f'.typ = f.typ := by have := List.find?_some hfind; simpa using this
      have : f' = f := typ_inj tlvs hpw f' hf' f hf ht
      subst this
      simp [validTlvs, hv, hlen, ih']

theorem decodeFixed_valid : ∀ (ts : List FieldTy) (b : Bytes) (vs : List Val) (r : Bytes),
    (∀ t ∈ ts, t.wf = true ∧ t.plain = true) → decodeFixed ts b = .ok (vs, r) → validFixed ts vs = true
  | [], b, vs, r, _, h => by
    simp only [decodeFixed, Except.ok.injEq, Prod.mk.injEq] at h; rw [← h.1]; rfl
  | t :: ts, b, vs, r, hw, h => by
    simp only [decodeFixed] at h
    split at h
    · cases h
    · rename_i v1 r1 h1
      split at h
      · cases h
      · rename_i vs' r2 h2
        cases h
        have ht := hw t (List.mem_cons_self)
        simp [validFixed, (field_decode_spec t _ _ _ ht.1 ht.2 h1).1,
          decodeFixed_valid ts _ _ _ (fun u hu => hw u (List.mem_cons_of_mem _ hu)) h2]

theorem schema_decode_valid (s : Schema) (b : Bytes) (v : MsgVal) (hwf : s.wf = true) (hp : s.plain = true)
    (h : s.decode b = .ok v) : v.valid s = true := by
  obtain ⟨h1, h2, h3⟩ := schema_wf_parts hwf
  simp only [Schema.plain, Bool.and_eq_true, List.all_eq_true] at hp
  simp only [Schema.decode] at h
  split at h
  · cases h
  · rename_i fx r hfx
    split at h
    · cases h
    · rename_i acc hacc
      cases h
      have hfv := decodeFixed_valid s.fixed b fx r (fun t ht => ⟨(h1 t ht).1, hp.1 t ht⟩) hfx
      obtain ⟨recs, e, hb⟩ := tlvLoop_ok_raw s.tlvs _ _ _ _ _ hacc
      rw [decodeTlvStream, e, tlvLoop_raw s.tlvs recs _ none [] hb (by omega)] at hacc
      obtain ⟨new, e2, p1, _, p3⟩ := procRecs_ok_spec s.tlvs (fun f hf => ⟨(h2 f hf).1, hp.2 f hf⟩) recs none [] acc
        (fun p hp => (hb p hp).2) hacc
      simp only [List.nil_append] at e2
      subst e2
      have := validTlvs_of_spec s.tlvs h3 acc (fun p hp => (p1 p hp).2) (fun g hg hk => p3 g hg hk rfl) s.tlvs (fun f hf => hf)
      simp [MsgVal.valid, hfv, this]

end Ldk.Codec
