import LdkModel.Generated.HtlcBalance
import LdkModel.Model.OnchainClaims
/-! Bridge between the translated classification chain of get_htlc_balance (Generated/HtlcBalance.lean) and the ledger's `BalClass`. -/
namespace Ldk.Onchain
open Ldk.HtlcBalance

/-- the ledger's class of a translated `Balance` variant (the revoked arm is C06's, not part of the ledger) -/
def clsOf : Cls → Option BalClass
  | .awaiting h => some (.awaitingConfirmations h)
  | .contentious h => some (.contentious h)
  | .maybeTimeout h => some (.maybeTimeout h)
  | .maybePreimage h => some (.maybePreimage h)
  | .revokedArm => none

/-- is the variant counted in the node's total (`Bal.owned`)? -/
def _root_.Ldk.HtlcBalance.Cls.counted : Cls → Bool
  | .maybePreimage _ => false
  | _ => true

/-- the cltv the monitor reports for an item: `htlc.cltv_expiry` -/
def Item.cltv (i : Item) : Nat := if i.kind = .outboundHtlc then i.claimableFrom else i.contestedFrom

end Ldk.Onchain
