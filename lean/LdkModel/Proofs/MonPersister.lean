/- C19 — helper lemmas: the association-list store is a finite map; the monitor-updating persister's
   store effects (what each call may change), trace replay, and the recovery invariant. -/
import LdkModel.Model.MonPersister
import Std.Data.String.ToNat
namespace Ldk.Kv.Store
variable {ν : Type}

theorem get_cons (k' : Key) (v : ν) (r : Store ν) (k : Key) :
    get ((k', v) :: r) k = if k' = k then some v else get r k := rfl

theorem del_cons (k' : Key) (v : ν) (r : Store ν) (k : Key) :
    del ((k', v) :: r) k = if k' = k then del r k else (k', v) :: del r k := by
  unfold del
  by_cases h : k' = k <;> simp [h]

theorem get_del_same (s : Store ν) (k : Key) : (s.del k).get k = none := by
  induction s with
  | nil => rfl
  | cons e r ih =>
    obtain ⟨k', v⟩ := e
    rw [del_cons]
    by_cases h : k' = k
    · simp [h, ih]
    · simp [h, get_cons, ih]

theorem get_del_ne (s : Store ν) {k k' : Key} (h : k' ≠ k) : (s.del k).get k' = s.get k' := by
  induction s with
  | nil => rfl
  | cons e r ih =>
    obtain ⟨k'', v⟩ := e
    rw [del_cons]
    by_cases h2 : k'' = k
    · have : k'' ≠ k' := by intro h3; exact h (h3 ▸ h2)
      simp [h2, get_cons, ih]
      intro h4; exact absurd (h4 ▸ h2 ▸ rfl : k' = k) h
    · simp [h2, get_cons, ih]

theorem get_put_same (s : Store ν) (k : Key) (v : ν) : (s.put k v).get k = some v := by
  simp [put, get_cons]

theorem get_put_ne (s : Store ν) {k k' : Key} (v : ν) (h : k' ≠ k) : (s.put k v).get k' = s.get k' := by
  have : k ≠ k' := fun h2 => h h2.symm
  simp [put, get_cons, this, get_del_ne s h]

theorem mem_names_iff (s : Store ν) (p sn n : String) :
    n ∈ s.names p sn ↔ (s.get (p, sn, n)).isSome = true := by
  induction s with
  | nil => simp [names, get]
  | cons e r ih =>
    obtain ⟨⟨a, b, c⟩, v⟩ := e
    have hn : names (((a, b, c), v) :: r) p sn = if a = p ∧ b = sn then c :: names r p sn else names r p sn := by
      unfold names
      by_cases h : a = p ∧ b = sn <;> simp [h]
    rw [hn, get_cons]
    by_cases h : a = p ∧ b = sn
    · obtain ⟨h1, h2⟩ := h
      subst h1; subst h2
      by_cases h3 : c = n
      · subst h3; simp
      · have : ¬ ((a, b, c) : Key) = (a, b, n) := by intro h4; exact h3 (by injection h4 with _ h5; injection h5)
        simp [this, ih]
        intro h5; exact absurd h5.symm h3
    · have : ¬ ((a, b, c) : Key) = (p, sn, n) := by
        intro h4; apply h; injection h4 with h5 h6; injection h6 with h7 _; exact ⟨h5, h7⟩
      simp [h, this, ih]

theorem mem_keys_of_get {s : Store ν} {k : Key} (h : (s.get k).isSome = true) : k ∈ s.map (·.1) := by
  induction s with
  | nil => simp [get] at h
  | cons e r ih =>
    obtain ⟨k', v⟩ := e
    rw [get_cons] at h
    by_cases h2 : k' = k
    · simp [h2]
    · simp [h2] at h; simp [ih h]

theorem wf_del {s : Store ν} (h : s.WF) (k : Key) : (s.del k).WF := by
  unfold WF del at *
  exact (List.Nodup.sublist (List.Sublist.map _ List.filter_sublist) h)

theorem not_mem_keys_del (s : Store ν) (k : Key) : k ∉ (s.del k).map (·.1) := by
  intro h
  simp only [del, List.mem_map, List.mem_filter] at h
  obtain ⟨e, ⟨_, h2⟩, h3⟩ := h
  simp [h3] at h2

theorem wf_put {s : Store ν} (h : s.WF) (k : Key) (v : ν) : (s.put k v).WF := by
  unfold WF put
  simp only [List.map_cons, List.nodup_cons]
  exact ⟨not_mem_keys_del s k, wf_del h k⟩

theorem nodup_names {s : Store ν} (h : s.WF) (p sn : String) : (s.names p sn).Nodup := by
  induction s with
  | nil => simp [names]
  | cons e r ih =>
    obtain ⟨⟨a, b, c⟩, v⟩ := e
    have hn : names (((a, b, c), v) :: r) p sn = if a = p ∧ b = sn then c :: names r p sn else names r p sn := by
      unfold names
      by_cases h : a = p ∧ b = sn <;> simp [h]
    unfold WF at h
    simp only [List.map_cons, List.nodup_cons] at h
    rw [hn]
    by_cases h2 : a = p ∧ b = sn
    · obtain ⟨h3, h4⟩ := h2
      subst h3; subst h4
      simp only [and_self, if_true, List.nodup_cons]
      refine ⟨?_, ih h.2⟩
      intro h5
      rw [mem_names_iff] at h5
      exact h.1 (mem_keys_of_get h5)
    · simp only [h2, if_false]; exact ih h.2

end Ldk.Kv.Store

namespace Ldk.MonP
open Ldk.Kv Ldk.Persist
variable {St Upd : Type}

abbrev PStore (St Upd : Type) := Store (PVal St Upd)
abbrev UPD := CHANNEL_MONITOR_UPDATE_PERSISTENCE_PRIMARY_NAMESPACE

/-! ### keys -/

theorem monKey_ne_updKey (a b : String) (i : Nat) : monKey a ≠ updKey b i := by
  intro h
  have : CHANNEL_MONITOR_PERSISTENCE_PRIMARY_NAMESPACE = CHANNEL_MONITOR_UPDATE_PERSISTENCE_PRIMARY_NAMESPACE := by
    simp only [monKey, updKey] at h; injection h
  revert this; decide

theorem updKey_inj {a b : String} {i j : Nat} : updKey a i = updKey b j ↔ a = b ∧ i = j := by
  constructor
  · intro h
    simp only [updKey] at h
    injection h with _ h2
    injection h2 with h3 h4
    exact ⟨h3, Nat.repr_inj.mp h4⟩
  · rintro ⟨rfl, rfl⟩; rfl

theorem archKey_ne_monKey (a b : String) : archKey a ≠ monKey b := by
  intro h
  have : ARCHIVED_CHANNEL_MONITOR_PERSISTENCE_PRIMARY_NAMESPACE = CHANNEL_MONITOR_PERSISTENCE_PRIMARY_NAMESPACE := by
    simp only [monKey, archKey] at h; injection h
  revert this; decide

theorem archKey_ne_updKey (a b : String) (i : Nat) : archKey a ≠ updKey b i := by
  intro h
  have : ARCHIVED_CHANNEL_MONITOR_PERSISTENCE_PRIMARY_NAMESPACE = CHANNEL_MONITOR_UPDATE_PERSISTENCE_PRIMARY_NAMESPACE := by
    simp only [updKey, archKey] at h; injection h
  revert this; decide

/-! ### replay -/

theorem replay_append (s : PStore St Upd) (a b : List (Entry St Upd)) :
    replay s (a ++ b) = replay (replay s a) b := by simp [replay, List.foldl_append]

theorem replay_cons (s : PStore St Upd) (e : Entry St Upd) (r : List (Entry St Upd)) :
    replay s (e :: r) = replay (e.step s) r := rfl

theorem step_wf {s : PStore St Upd} (h : s.WF) (e : Entry St Upd) : (e.step s).WF := by
  unfold Entry.step
  split
  · split
    · exact Store.wf_put h _ _
    · exact h
  · split
    · exact Store.wf_del h _
    · exact h
  · exact h

theorem replay_wf {s : PStore St Upd} (h : s.WF) (tr : List (Entry St Upd)) : (replay s tr).WF := by
  induction tr generalizing s with
  | nil => exact h
  | cons e r ih => rw [replay_cons]; exact ih (step_wf h e)

/-! ### safety of removals -/

/-- the stored full monitor of `nm` is at or beyond update `id` — the update file `id` is not needed -/
def Safe (s : PStore St Upd) (nm : String) (id : Nat) : Prop :=
  ∃ sent k m, s.get (monKey nm) = some (.mon sent k m) ∧ id ≤ m.id

def SafeAt (s : PStore St Upd) (e : Entry St Upd) : Prop :=
  ∀ nm id lz, e.op = .remove (updKey nm id) lz → Safe s nm id

/-- every removal of an update key in the trace happens while the stored monitor covers it -/
def TraceSafe : PStore St Upd → List (Entry St Upd) → Prop
  | _, [] => True
  | s, e :: r => SafeAt s e ∧ TraceSafe (e.step s) r

theorem traceSafe_append (s : PStore St Upd) (a b : List (Entry St Upd)) :
    TraceSafe s (a ++ b) ↔ TraceSafe s a ∧ TraceSafe (replay s a) b := by
  induction a generalizing s with
  | nil => simp [TraceSafe, replay]
  | cons e r ih => simp [TraceSafe, replay_cons, ih, and_assoc]

/-- an entry that is not a write and removes only covered update keys -/
def CleanEntry (s : PStore St Upd) (e : Entry St Upd) : Prop :=
  match e.op with
  | .write _ _ => False
  | .remove k _ => ∃ nm id, k = updKey nm id ∧ Safe s nm id
  | _ => True

def CleanSeg (s : PStore St Upd) (tr : List (Entry St Upd)) : Prop := ∀ e ∈ tr, CleanEntry s e

/-- `s'` is `s` minus some covered update keys -/
def DelSafe (s s' : PStore St Upd) : Prop :=
  ∀ k, s'.get k = s.get k ∨ (s'.get k = none ∧ ∃ nm id, Safe s nm id ∧ k = updKey nm id)

theorem DelSafe.refl (s : PStore St Upd) : DelSafe s s := fun _ => Or.inl rfl

theorem DelSafe.mon {s s' : PStore St Upd} (h : DelSafe s s') (nm : String) :
    s'.get (monKey nm) = s.get (monKey nm) := by
  rcases h (monKey nm) with h1 | ⟨_, nm', id, _, h3⟩
  · exact h1
  · exact absurd h3 (monKey_ne_updKey _ _ _)

theorem DelSafe.safe {s s' : PStore St Upd} (h : DelSafe s s') {nm : String} {id : Nat} :
    Safe s' nm id ↔ Safe s nm id := by
  unfold Safe; rw [h.mon nm]

theorem DelSafe.trans {s s' s'' : PStore St Upd} (h1 : DelSafe s s') (h2 : DelSafe s' s'') : DelSafe s s'' := by
  intro k
  rcases h2 k with h3 | ⟨h3, nm, id, h4, h5⟩
  · rcases h1 k with h6 | h6
    · exact Or.inl (h3.trans h6)
    · exact Or.inr ⟨h3.trans h6.1, h6.2⟩
  · exact Or.inr ⟨h3, nm, id, h1.safe.mp h4, h5⟩

theorem delSafe_step {s : PStore St Upd} {e : Entry St Upd} (h : CleanEntry s e) : DelSafe s (e.step s) := by
  unfold CleanEntry at h
  unfold Entry.step
  split at h
  · exact absurd h id
  · rename_i k lz heq
    obtain ⟨nm, id, hk, hs⟩ := h
    rw [heq]
    simp only
    split
    · intro k'
      by_cases hk' : k' = k
      · subst hk'; exact Or.inr ⟨Store.get_del_same _ _, nm, id, hs, hk⟩
      · exact Or.inl (Store.get_del_ne _ hk')
    · exact DelSafe.refl s
  · rename_i h1 h2
    split
    · rename_i k v heq; exact absurd heq (h1 k v)
    · rename_i k lz heq; exact absurd heq (h2 k lz)
    · exact DelSafe.refl s

theorem cleanSeg_of_delSafe {s s' : PStore St Upd} (h : DelSafe s s') {tr : List (Entry St Upd)}
    (hc : CleanSeg s tr) : CleanSeg s' tr := by
  intro e he
  have := hc e he
  unfold CleanEntry at this ⊢
  split
  · rename_i heq; rw [heq] at this; exact this
  · rename_i heq; rw [heq] at this
    obtain ⟨nm, id, h1, h2⟩ := this
    exact ⟨nm, id, h1, h.safe.mpr h2⟩
  · trivial

/-- Lemma A: a clean segment only deletes covered update keys -/
theorem delSafe_replay {s : PStore St Upd} {tr : List (Entry St Upd)} (h : CleanSeg s tr) :
    DelSafe s (replay s tr) := by
  induction tr generalizing s with
  | nil => exact DelSafe.refl s
  | cons e r ih =>
    rw [replay_cons]
    have he : CleanEntry s e := h e (List.mem_cons_self ..)
    have hr : CleanSeg s r := fun x hx => h x (List.mem_cons_of_mem _ hx)
    have h1 := delSafe_step he
    exact h1.trans (ih (cleanSeg_of_delSafe h1 hr))

/-- Lemma B: a clean segment is trace-safe -/
theorem traceSafe_of_clean {s : PStore St Upd} {tr : List (Entry St Upd)} (h : CleanSeg s tr) :
    TraceSafe s tr := by
  induction tr generalizing s with
  | nil => trivial
  | cons e r ih =>
    have he : CleanEntry s e := h e (List.mem_cons_self ..)
    have hr : CleanSeg s r := fun x hx => h x (List.mem_cons_of_mem _ hx)
    refine ⟨?_, ih (cleanSeg_of_delSafe (delSafe_step he) hr)⟩
    intro nm id lz heq
    unfold CleanEntry at he
    rw [heq] at he
    obtain ⟨nm', id', h1, h2⟩ := he
    obtain ⟨rfl, rfl⟩ := updKey_inj.mp h1
    exact h2

/-! ### segments: what a call appends to the trace and does to the store -/

def Seg (w w' : World St Upd) (tr : List (Entry St Upd)) : Prop :=
  w'.trace = w.trace ++ tr ∧ w'.store = replay w.store tr

theorem Seg.refl (w : World St Upd) : Seg w w [] := ⟨by simp, rfl⟩

theorem Seg.trans {w w' w'' : World St Upd} {a b : List (Entry St Upd)} (h1 : Seg w w' a) (h2 : Seg w' w'' b) :
    Seg w w'' (a ++ b) :=
  ⟨by rw [h2.1, h1.1, List.append_assoc], by rw [h2.2, h1.2, replay_append]⟩

theorem seg_kWrite (sc : Sched) (w : World St Upd) (k : Key) (v : PVal St Upd) :
    Seg w (kWrite sc w k v).1 [⟨.write k v, sc.ok w.n, sc.ok w.n || sc.eff w.n⟩] := by
  constructor
  · rfl
  · simp only [kWrite, replay, List.foldl_cons, List.foldl_nil, Entry.step]

theorem seg_kRemove (sc : Sched) (w : World St Upd) (k : Key) (lz : Bool) :
    Seg w (kRemove sc w k lz).1 [⟨.remove k lz, sc.ok w.n, if lz then sc.eff w.n else sc.ok w.n || sc.eff w.n⟩] := by
  constructor
  · rfl
  · simp only [kRemove, replay, List.foldl_cons, List.foldl_nil, Entry.step]

theorem seg_kRead (sc : Sched) (w : World St Upd) (k : Key) :
    Seg w (kRead sc w k).1 [⟨.read k, sc.ok w.n, false⟩] := ⟨rfl, rfl⟩

theorem seg_kList (sc : Sched) (w : World St Upd) (p sn : String) :
    Seg w (kList sc w p sn).1 [⟨.list p sn, sc.ok w.n, false⟩] := ⟨rfl, rfl⟩

/-- the call only reads, lists, and lazily/eagerly removes covered update keys -/
def Clean (w w' : World St Upd) : Prop := ∃ tr, Seg w w' tr ∧ CleanSeg w.store tr

theorem Clean.refl (w : World St Upd) : Clean w w := ⟨[], Seg.refl w, fun _ h => by simp at h⟩

theorem Clean.delSafe {w w' : World St Upd} (h : Clean w w') : DelSafe w.store w'.store := by
  obtain ⟨tr, hs, hc⟩ := h
  rw [hs.2]; exact delSafe_replay hc

theorem Clean.trans {w w' w'' : World St Upd} (h1 : Clean w w') (h2 : Clean w' w'') : Clean w w'' := by
  have hd := h1.delSafe
  obtain ⟨a, hs1, hc1⟩ := h1
  obtain ⟨b, hs2, hc2⟩ := h2
  refine ⟨a ++ b, hs1.trans hs2, ?_⟩
  intro e he
  rcases List.mem_append.mp he with h | h
  · exact hc1 e h
  · have := hc2 e h
    unfold CleanEntry at this ⊢
    split
    · rename_i heq; rw [heq] at this; exact this
    · rename_i heq; rw [heq] at this
      obtain ⟨nm, id, h3, h4⟩ := this
      exact ⟨nm, id, h3, hd.safe.mp h4⟩
    · trivial

theorem Clean.wf {w w' : World St Upd} (h : Clean w w') (hw : w.store.WF) : w'.store.WF := by
  obtain ⟨tr, hs, _⟩ := h
  rw [hs.2]; exact replay_wf hw tr

theorem clean_kRead (sc : Sched) (w : World St Upd) (k : Key) : Clean w (kRead sc w k).1 :=
  ⟨_, seg_kRead sc w k, by intro e he; simp at he; subst he; simp [CleanEntry]⟩

theorem clean_kList (sc : Sched) (w : World St Upd) (p sn : String) : Clean w (kList sc w p sn).1 :=
  ⟨_, seg_kList sc w p sn, by intro e he; simp at he; subst he; simp [CleanEntry]⟩

theorem clean_kRemove {sc : Sched} {w : World St Upd} {nm : String} {id : Nat} (h : Safe w.store nm id) (lz : Bool) :
    Clean w (kRemove sc w (updKey nm id) lz).1 :=
  ⟨_, seg_kRemove sc w _ lz, by intro e he; simp at he; subst he; exact ⟨nm, id, rfl, h⟩⟩

theorem kRead_store (sc : Sched) (w : World St Upd) (k : Key) : (kRead sc w k).1.store = w.store := rfl
theorem kList_store (sc : Sched) (w : World St Upd) (p sn : String) : (kList sc w p sn).1.store = w.store := rfl

theorem Safe.le {s : PStore St Upd} {nm : String} {a b : Nat} (h : Safe s nm b) (hab : a ≤ b) : Safe s nm a := by
  obtain ⟨sent, k, m, h1, h2⟩ := h
  exact ⟨sent, k, m, h1, Nat.le_trans hab h2⟩

theorem clean_foldRemove (sc : Sched) (name : String) (bound : Nat) (lz : Bool) (l : List Nat) (w : World St Upd)
    (hl : ∀ id ∈ l, id ≤ bound) (hs : Safe w.store name bound) :
    Clean w (l.foldl (fun w id => (kRemove sc w (updKey name id) lz).1) w) := by
  induction l generalizing w with
  | nil => exact Clean.refl w
  | cons id r ih =>
    simp only [List.foldl_cons]
    have h1 : Clean w (kRemove sc w (updKey name id) lz).1 :=
      clean_kRemove (hs.le (hl id (List.mem_cons_self ..))) lz
    exact h1.trans (ih _ (fun x hx => hl x (List.mem_cons_of_mem _ hx)) (h1.delSafe.safe.mpr hs))

theorem clean_cleanupInRange (sc : Sched) (w : World St Upd) (name : String) (start end_ : Nat)
    (hs : Safe w.store name end_) : Clean w (cleanupInRange sc w name start end_) := by
  unfold cleanupInRange
  apply clean_foldRemove sc name end_ _ _ w _ hs
  intro id hid
  rw [List.mem_range'_1] at hid
  unfold cleanupCount at hid
  omega

theorem clean_cleanupLoop (sc : Sched) (name : String) (latest : Nat) (lz : Bool) (names : List String)
    (w : World St Upd) (hs : Safe w.store name latest) : Clean w (cleanupLoop sc name latest lz names w).1 := by
  induction names generalizing w with
  | nil => exact Clean.refl w
  | cons nm rest ih =>
    unfold cleanupLoop
    split
    · exact Clean.refl w
    · rename_i id _
      split
      · rename_i hf
        have hle : id ≤ latest := by simpa [staleFilter] using hf
        have h1 : Clean w (kRemove sc w (updKey name id) lz).1 := clean_kRemove (hs.le hle) lz
        dsimp only
        split
        · exact h1.trans (ih _ (h1.delSafe.safe.mpr hs))
        · exact h1
      · exact ih w hs

theorem clean_cleanupTo (sc : Sched) (w : World St Upd) (name : String) (latest : Nat) (lz : Bool)
    (hs : Safe w.store name latest) : Clean w (cleanupTo sc w name latest lz).1 := by
  unfold cleanupTo
  have h1 := clean_kList sc w UPD name
  dsimp only
  split
  · exact h1
  · exact h1.trans (clean_cleanupLoop sc name latest lz _ _ (by rw [kList_store]; exact hs))

theorem decodeMon_ok {name : String} {v : PVal St Upd} {m : Mon St} (h : decodeMon name v = .ok m) :
    ∃ sent, v = .mon sent name m := by
  unfold decodeMon at h
  split at h
  · rename_i sent nm m'
    split at h
    · rename_i hn; injection h with h; subst h; subst hn; exact ⟨sent, rfl⟩
    · cases h
  · cases h

theorem kRead_some {sc : Sched} {w : World St Upd} {k : Key} {v : PVal St Upd} (h : (kRead sc w k).2 = some v) :
    w.store.get k = some v := by
  simp only [kRead] at h
  split at h
  · exact h
  · cases h

theorem clean_cleanupStaleLoop (cfg : Cfg St Upd) (sc : Sched) (lz : Bool) (names : List String) (w : World St Upd) :
    Clean w (cleanupStaleLoop cfg sc lz names w).1 := by
  induction names generalizing w with
  | nil => exact Clean.refl w
  | cons nm rest ih =>
    unfold cleanupStaleLoop
    split
    · exact Clean.refl w
    · have h1 := clean_kRead sc w (monKey nm)
      simp only
      split
      · exact h1
      · rename_i v hv
        split
        · exact h1
        · rename_i m hm
          obtain ⟨sent, rfl⟩ := decodeMon_ok hm
          have hs : Safe (kRead sc w (monKey nm)).1.store nm m.id := by
            rw [kRead_store]; exact ⟨sent, nm, m, kRead_some hv, Nat.le_refl _⟩
          have h2 := clean_cleanupTo sc _ nm m.id lz hs
          split
          · exact h1.trans (h2.trans (ih _))
          · exact h1.trans h2

theorem clean_cleanupStale (cfg : Cfg St Upd) (sc : Sched) (lz : Bool) (w : World St Upd) :
    Clean w (cleanupStale cfg sc lz w).1 := by
  unfold cleanupStale
  have h1 := clean_kList sc w CHANNEL_MONITOR_PERSISTENCE_PRIMARY_NAMESPACE CHANNEL_MONITOR_PERSISTENCE_SECONDARY_NAMESPACE
  simp only
  split
  · exact h1
  · exact h1.trans (clean_cleanupStaleLoop cfg sc lz _ _)

theorem clean_readAllUpd (sc : Sched) (name : String) (ids : List Nat) (w : World St Upd) :
    Clean w (readAllUpd sc name ids w).1 := by
  induction ids generalizing w with
  | nil => exact Clean.refl w
  | cons id r ih =>
    unfold readAllUpd
    exact (clean_kRead sc w _).trans (ih _)

theorem clean_readWithUpdates (cfg : Cfg St Upd) (sc : Sched) (w : World St Upd) (name : String) :
    Clean w (readWithUpdates cfg sc w name).1 := by
  unfold readWithUpdates
  split
  · exact Clean.refl w
  · have h1 := (clean_kList sc w UPD name).trans (clean_kRead sc _ (monKey name))
    simp only
    split
    · exact h1
    · split
      · exact h1
      · split
        · exact h1
        · split
          · exact h1
          · exact h1.trans (clean_readAllUpd sc name _ _)

/-! ### trace-level: every call extends the trace by a safe segment -/

def Ext (w w' : World St Upd) : Prop := ∃ tr, Seg w w' tr ∧ TraceSafe w.store tr

theorem Ext.refl (w : World St Upd) : Ext w w := ⟨[], Seg.refl w, trivial⟩

theorem Ext.trans {w w' w'' : World St Upd} (h1 : Ext w w') (h2 : Ext w' w'') : Ext w w'' := by
  obtain ⟨a, hs1, ht1⟩ := h1
  obtain ⟨b, hs2, ht2⟩ := h2
  refine ⟨a ++ b, hs1.trans hs2, ?_⟩
  rw [traceSafe_append]
  exact ⟨ht1, by rw [← hs1.2]; exact ht2⟩

theorem Clean.ext {w w' : World St Upd} (h : Clean w w') : Ext w w' := by
  obtain ⟨tr, hs, hc⟩ := h
  exact ⟨tr, hs, traceSafe_of_clean hc⟩

theorem Ext.wf {w w' : World St Upd} (h : Ext w w') (hw : w.store.WF) : w'.store.WF := by
  obtain ⟨tr, hs, _⟩ := h
  rw [hs.2]; exact replay_wf hw tr

theorem ext_kWrite (sc : Sched) (w : World St Upd) (k : Key) (v : PVal St Upd) : Ext w (kWrite sc w k v).1 :=
  ⟨_, seg_kWrite sc w k v, ⟨(by intro nm id lz h; cases h), trivial⟩⟩

theorem ext_kRemove_mon (sc : Sched) (w : World St Upd) (nm : String) (lz : Bool) :
    Ext w (kRemove sc w (monKey nm) lz).1 :=
  ⟨_, seg_kRemove sc w _ lz, ⟨(by
    intro nm' id lz' h
    injection h with h1 _
    exact absurd h1 (monKey_ne_updKey _ _ _)), trivial⟩⟩

theorem kWrite_store (sc : Sched) (w : World St Upd) (k : Key) (v : PVal St Upd) :
    (kWrite sc w k v).1.store = if (sc.ok w.n || sc.eff w.n) = true then w.store.put k v else w.store := rfl

theorem kWrite_snd (sc : Sched) (w : World St Upd) (k : Key) (v : PVal St Upd) : (kWrite sc w k v).2 = sc.ok w.n := rfl

theorem kWrite_cases (sc : Sched) (w : World St Upd) (k : Key) (v : PVal St Upd) :
    (kWrite sc w k v).1.store = w.store.put k v ∨ ((kWrite sc w k v).1.store = w.store ∧ (kWrite sc w k v).2 = false) := by
  rw [kWrite_store, kWrite_snd]
  cases hok : sc.ok w.n <;> cases heff : sc.eff w.n <;> simp

theorem kWrite_ok_store {sc : Sched} {w : World St Upd} {k : Key} {v : PVal St Upd} (h : (kWrite sc w k v).2 = true) :
    (kWrite sc w k v).1.store = w.store.put k v := by
  rcases kWrite_cases sc w k v with h1 | ⟨_, h2⟩
  · exact h1
  · rw [h] at h2; cases h2

/-- store-level effect of a call of `update_persisted_channel` that takes the full-monitor branch -/
theorem updatePersisted_full_spec (cfg : Cfg St Upd) (sc : Sched) (w : World St Upd) (name : String)
    (upd : Option (Nat × Upd)) (m : Mon St)
    (hfull : ∀ uid u, upd = some (uid, u) → persistUpdate uid cfg.maxPending = false) :
    Ext w (updatePersisted cfg sc w name upd m).1 ∧
    ∃ s1, (s1 = w.store.put (monKey name) (.mon (sentinelWhen cfg.maxPending) name m) ∨
            (s1 = w.store ∧ (updatePersisted cfg sc w name upd m).2 = false)) ∧
          DelSafe s1 (updatePersisted cfg sc w name upd m).1.store := by
  have hnew : ∀ (x : Unit), Ext w (persistNew cfg sc w name m).1 ∧
      ((persistNew cfg sc w name m).1.store = w.store.put (monKey name) (.mon (sentinelWhen cfg.maxPending) name m) ∨
       ((persistNew cfg sc w name m).1.store = w.store ∧ (persistNew cfg sc w name m).2 = false)) := fun _ =>
    ⟨ext_kWrite sc w _ _, kWrite_cases sc w _ _⟩
  cases upd with
  | none =>
    simp only [updatePersisted]
    obtain ⟨h1, h2⟩ := hnew ()
    exact ⟨h1, _, h2, DelSafe.refl _⟩
  | some x =>
    obtain ⟨uid, u⟩ := x
    have hf := hfull uid u rfl
    simp only [updatePersisted, hf, Bool.false_eq_true, if_false]
    obtain ⟨h1, h2⟩ := hnew ()
    by_cases hok : (persistNew cfg sc w name m).2 = true
    · have hst : (persistNew cfg sc w name m).1.store = w.store.put (monKey name) (.mon (sentinelWhen cfg.maxPending) name m) :=
        kWrite_ok_store hok
      have hsafe : Safe (persistNew cfg sc w name m).1.store name m.id :=
        ⟨_, name, m, by rw [hst, Store.get_put_same], Nat.le_refl _⟩
      simp only [hok, if_true]
      split
      · have hc := clean_cleanupTo sc (persistNew cfg sc w name m).1 name m.id true hsafe
        exact ⟨h1.trans hc.ext, _, Or.inl rfl, by rw [← hst]; exact hc.delSafe⟩
      · have hc := clean_cleanupInRange sc (persistNew cfg sc w name m).1 name (cleanupStart m.id cfg.maxPending) m.id hsafe
        exact ⟨h1.trans hc.ext, _, Or.inl rfl, by rw [← hst]; exact hc.delSafe⟩
    · simp only [hok, if_false]
      refine ⟨h1, (persistNew cfg sc w name m).1.store, ?_, DelSafe.refl _⟩
      rcases h2 with h2 | h2
      · exact Or.inl h2
      · exact Or.inr ⟨h2.1, rfl⟩

theorem ext_updatePersisted (cfg : Cfg St Upd) (sc : Sched) (w : World St Upd) (name : String)
    (upd : Option (Nat × Upd)) (m : Mon St) : Ext w (updatePersisted cfg sc w name upd m).1 := by
  cases upd with
  | none => exact (updatePersisted_full_spec cfg sc w name none m (by intro _ _ h; cases h)).1
  | some x =>
    obtain ⟨uid, u⟩ := x
    by_cases h2 : persistUpdate uid cfg.maxPending = true
    · simp only [updatePersisted, h2, if_true]
      exact ext_kWrite sc w _ _
    · simp only [Bool.not_eq_true] at h2
      exact (updatePersisted_full_spec cfg sc w name (some (uid, u)) m (by
        intro a b h; injection h with h; injection h with h3 _; subst h3; exact h2)).1

theorem clean_readMonOnly (cfg : Cfg St Upd) (sc : Sched) (w : World St Upd) (name : String) :
    Clean w (readMonOnly cfg sc w name).1 := by
  unfold readMonOnly
  split
  · exact Clean.refl w
  · simp only
    split <;> exact clean_kRead sc w (monKey name)

theorem clean_archiveRead (cfg : Cfg St Upd) (sc : Sched) (w : World St Upd) (name : String) :
    Clean w (archiveRead cfg sc w name).1 := by
  unfold archiveRead
  split
  · exact clean_readWithUpdates cfg sc w name
  · exact clean_readMonOnly cfg sc w name

theorem ext_archive (cfg : Cfg St Upd) (sc : Sched) (w : World St Upd) (name : String) :
    Ext w (archive cfg sc w name) := by
  unfold archive
  have h1 := (clean_archiveRead cfg sc w name).ext
  dsimp only
  split
  · exact h1
  · rename_i m _
    have h2 := h1.trans (ext_kWrite sc (archiveRead cfg sc w name).1 (archKey name) (.mon false name m))
    split
    · exact h2.trans (ext_kRemove_mon sc _ name _)
    · exact h2

theorem ext_stepEv (cfg : Cfg St Upd) (sc : Sched) (name : String) (r : Run St Upd) (ev : Ev Upd) :
    Ext r.w (stepEv cfg sc name r ev).w := by
  cases ev with
  | update uid u asFull =>
    simp only [stepEv]
    split
    · exact Ext.refl _
    · split
      · exact Ext.refl _
      · exact ext_updatePersisted ..
  | full =>
    simp only [stepEv]
    split
    · exact Ext.refl _
    · exact ext_updatePersisted ..
  | cleanupStale lz =>
    simp only [stepEv]
    split
    · exact Ext.refl _
    · exact (clean_cleanupStale cfg sc lz r.w).ext

theorem ext_runHistory (cfg : Cfg St Upd) (sc : Sched) (name : String) (s0 : PStore St Upd) (m0 : Mon St)
    (evs : List (Ev Upd)) : Ext { store := s0 } (runHistory cfg sc name s0 m0 evs).w := by
  unfold runHistory
  have h0 : Ext { store := s0 } (start cfg sc name s0 m0).w := ext_kWrite sc _ _ _
  generalize start cfg sc name s0 m0 = r at h0
  induction evs generalizing r with
  | nil => exact h0
  | cons e rest ih => exact ih _ (h0.trans (ext_stepEv cfg sc name r e))

/-! ### recovery -/

abbrev L := LEGACY_CLOSED_CHANNEL_UPDATE_ID

/-- in-memory application of a list of updates (ids taken from the updates) -/
def fold (cfg : Cfg St Upd) (m : Mon St) (us : List (Nat × Upd)) : Mon St :=
  us.foldl (fun m x => ⟨x.1, cfg.apply m.st x.2⟩) m

theorem snapAt_eq (cfg : Cfg St Upd) (m0 : Mon St) (us : List (Nat × Upd)) (n : Nat) :
    snapAt cfg m0 us n = fold cfg m0 (us.take n) := rfl

theorem fold_append (cfg : Cfg St Upd) (m : Mon St) (a b : List (Nat × Upd)) :
    fold cfg m (a ++ b) = fold cfg (fold cfg m a) b := by simp [fold, List.foldl_append]

/-- the update files for `mid` are present, with consecutive ids starting right after `b` -/
def Files (s : PStore St Upd) (name : String) : Nat → List (Nat × Upd) → Prop
  | _, [] => True
  | b, x :: r => x.1 = b + 1 ∧ s.get (updKey name x.1) = some (.upd x.1 x.2) ∧ Files s name x.1 r

theorem files_fold_id (cfg : Cfg St Upd) {s : PStore St Upd} {name : String} {m : Mon St} {mid : List (Nat × Upd)}
    (h : Files s name m.id mid) : (fold cfg m mid).id = m.id + mid.length := by
  induction mid generalizing m with
  | nil => rfl
  | cons x r ih =>
    obtain ⟨h1, _, h3⟩ := h
    have := ih (m := ⟨x.1, cfg.apply m.st x.2⟩) h3
    simp only [fold, List.foldl_cons, List.length_cons] at this ⊢
    rw [this]; omega

theorem files_append {s : PStore St Upd} {name : String} {b : Nat} {mid : List (Nat × Upd)} {x : Nat × Upd} :
    Files s name b (mid ++ [x]) ↔
      Files s name b mid ∧ x.1 = b + mid.length + 1 ∧ s.get (updKey name x.1) = some (.upd x.1 x.2) := by
  induction mid generalizing b with
  | nil => simp [Files]
  | cons y r ih =>
    simp only [List.cons_append, Files, ih, List.length_cons]
    constructor
    · rintro ⟨h1, h2, h3, h4, h5⟩; exact ⟨⟨h1, h2, h3⟩, by omega, h5⟩
    · rintro ⟨⟨h1, h2, h3⟩, h4, h5⟩; exact ⟨h1, h2, h3, by omega, h5⟩

theorem files_congr {s s' : PStore St Upd} {name : String} {b : Nat} {mid : List (Nat × Upd)}
    (h : ∀ id, b < id → id ≤ b + mid.length → s'.get (updKey name id) = s.get (updKey name id))
    (hf : Files s name b mid) : Files s' name b mid := by
  induction mid generalizing b with
  | nil => trivial
  | cons x r ih =>
    obtain ⟨h1, h2, h3⟩ := hf
    refine ⟨h1, ?_, ih ?_ h3⟩
    · rw [h x.1 (by omega) (by simp only [List.length_cons]; omega)]; exact h2
    · intro id h4 h5; exact h id (by omega) (by simp only [List.length_cons]; omega)

theorem files_get {s : PStore St Upd} {name : String} {b : Nat} {mid : List (Nat × Upd)} (hf : Files s name b mid)
    (x : Nat) (h1 : b < x) (h2 : x ≤ b + mid.length) : ∃ u, s.get (updKey name x) = some (.upd x u) := by
  induction mid generalizing b with
  | nil => simp at h2; omega
  | cons y r ih =>
    obtain ⟨h3, h4, h5⟩ := hf
    by_cases h6 : x = y.1
    · subst h6; exact ⟨_, h4⟩
    · exact ih h5 (by omega) (by simp only [List.length_cons] at h2; omega)

theorem mapM_toNat_of_repr (names : List String) (h : ∀ nm ∈ names, ∃ id, nm = Nat.repr id) :
    ∃ ids, names.mapM String.toNat? = some ids ∧ names = ids.map Nat.repr := by
  induction names with
  | nil => exact ⟨[], rfl, rfl⟩
  | cons nm r ih =>
    obtain ⟨id, rfl⟩ := h nm (List.mem_cons_self ..)
    obtain ⟨ids, h1, h2⟩ := ih (fun x hx => h x (List.mem_cons_of_mem _ hx))
    refine ⟨id :: ids, ?_, by rw [List.map_cons, ← h2]⟩
    rw [List.mapM_cons, Nat.toNat?_repr, h1]; rfl

theorem sorted_unique : ∀ (l₁ l₂ : List Nat), l₁.Pairwise (· < ·) → l₂.Pairwise (· < ·) →
    (∀ a, a ∈ l₁ ↔ a ∈ l₂) → l₁ = l₂
  | [], [], _, _, _ => rfl
  | [], b :: _, _, _, h => by have := (h b).mpr (List.mem_cons_self ..); simp at this
  | a :: _, [], _, _, h => by have := (h a).mp (List.mem_cons_self ..); simp at this
  | a :: l₁, b :: l₂, h1, h2, h => by
    rw [List.pairwise_cons] at h1 h2
    have hab : a = b := by
      have ha := (h a).mp (List.mem_cons_self ..)
      have hb := (h b).mpr (List.mem_cons_self ..)
      rw [List.mem_cons] at ha hb
      rcases ha with ha | ha
      · exact ha
      · rcases hb with hb | hb
        · exact hb.symm
        · have := h1.1 b hb; have := h2.1 a ha; omega
    subst hab
    congr 1
    apply sorted_unique l₁ l₂ h1.2 h2.2
    intro x
    constructor
    · intro hx
      have := (h x).mp (List.mem_cons_of_mem _ hx)
      rw [List.mem_cons] at this
      rcases this with h3 | h3
      · have := h1.1 x hx; omega
      · exact h3
    · intro hx
      have := (h x).mpr (List.mem_cons_of_mem _ hx)
      rw [List.mem_cons] at this
      rcases this with h3 | h3
      · have := h2.1 x hx; omega
      · exact h3

theorem load_eq_range (ids : List Nat) (hnd : ids.Nodup) (b n : Nat)
    (hmem : ∀ x, b < x → (x ∈ ids ↔ x ≤ b + n)) :
    (ids.mergeSort (fun a b => decide (a ≤ b))).filter (loadFilter · b) = List.range' (b + 1) n := by
  apply sorted_unique
  · apply List.Pairwise.filter
    have h1 : (ids.mergeSort (fun a b => decide (a ≤ b))).Pairwise (fun a b => decide (a ≤ b) = true) :=
      List.pairwise_mergeSort (by intro a b c; simp; omega) (by intro a b; simp; omega) ids
    have h2 : (ids.mergeSort (fun a b => decide (a ≤ b))).Nodup := (List.mergeSort_perm ids _).nodup_iff.mpr hnd
    exact (h1.and h2).imp (by intro a b ⟨h3, h4⟩; simp at h3; omega)
  · exact List.pairwise_lt_range' 1
  · intro x
    rw [List.mem_filter, (List.mergeSort_perm ids _).mem_iff, List.mem_range'_1]
    simp only [loadFilter, decide_eq_true_eq]
    constructor
    · rintro ⟨h1, h2⟩; have := (hmem x h2).mp h1; omega
    · intro h1; exact ⟨(hmem x (by omega)).mpr (by omega), by omega⟩

theorem readAllUpd_store (sc : Sched) (name : String) (ids : List Nat) (w : World St Upd) :
    (readAllUpd sc name ids w).1.store = w.store := by
  induction ids generalizing w with
  | nil => rfl
  | cons id r ih => unfold readAllUpd; simp only; rw [ih]; rfl

theorem readAllUpd_files (sc : Sched) (hok : ∀ i, sc.ok i = true) (name : String) (mid : List (Nat × Upd)) (b : Nat)
    (w : World St Upd) (h : Files w.store name b mid) :
    (readAllUpd sc name (List.range' (b + 1) mid.length) w).2 = mid.map (fun x => some (.upd x.1 x.2)) := by
  induction mid generalizing b w with
  | nil => rfl
  | cons x r ih =>
    obtain ⟨h1, h2, h3⟩ := h
    simp only [List.length_cons, List.range'_succ, readAllUpd, List.map_cons]
    congr 1
    · simp only [kRead, hok, if_true]; rw [← h1]; exact h2
    · have := ih x.1 (kRead sc w (updKey name (b + 1))).1 (by rw [kRead_store]; exact h3)
      rw [h1] at this; exact this

theorem applyAll_files (cfg : Cfg St Upd) (m : Mon St) (mid : List (Nat × Upd)) (s : PStore St Upd) (name : String)
    (h : Files s name m.id mid) (hL : m.id + mid.length ≤ L) :
    applyAll cfg m (mid.map (fun x => some (.upd x.1 x.2))) = .ok (fold cfg m mid) := by
  induction mid generalizing m with
  | nil => rfl
  | cons x r ih =>
    obtain ⟨h1, _, h3⟩ := h
    simp only [List.length_cons] at hL
    have ha : applyUpd cfg m x.1 x.2 = some ⟨x.1, cfg.apply m.st x.2⟩ := by
      unfold applyUpd
      by_cases h4 : x.1 = LEGACY_CLOSED_CHANNEL_UPDATE_ID
      · simp [h4]
      · have : m.id + 1 = x.1 ∧ x.1 ≤ LEGACY_CLOSED_CHANNEL_UPDATE_ID := ⟨h1.symm, by unfold L at hL; omega⟩
        simp [h4, this]
    simp only [List.map_cons, applyAll, ha]
    have := ih (m := ⟨x.1, cfg.apply m.st x.2⟩) h3 (by simp only; omega)
    rw [this]; rfl

theorem nodup_of_map_repr {ids : List Nat} (h : (ids.map Nat.repr).Nodup) : ids.Nodup := by
  unfold List.Nodup at *
  exact List.Pairwise.of_map Nat.repr (by intro a b hab h2; exact hab (by rw [h2])) h

/-- what recovery will load: exactly the ids of `mid`, in increasing order -/
theorem idsToLoad_of_store (s : PStore St Upd) (name : String) (b : Nat) (mid : List (Nat × Upd))
    (h2 : Files s name b mid)
    (h3 : ∀ nm, (s.get (UPD, name, nm)).isSome = true → ∃ id, nm = Nat.repr id ∧ id ≤ b + mid.length)
    (hwf : s.WF) : idsToLoad (s.names UPD name) b = some (List.range' (b + 1) mid.length) := by
  have hnames : ∀ nm ∈ s.names UPD name, ∃ id, nm = Nat.repr id := by
    intro nm hnm
    obtain ⟨id, h, _⟩ := h3 nm ((Store.mem_names_iff _ _ _ _).mp hnm)
    exact ⟨id, h⟩
  obtain ⟨ids, hm1, hm2⟩ := mapM_toNat_of_repr _ hnames
  have hnd : ids.Nodup := nodup_of_map_repr (by rw [← hm2]; exact Store.nodup_names hwf _ _)
  have hmem : ∀ x, b < x → (x ∈ ids ↔ x ≤ b + mid.length) := by
    intro x hx
    have e1 : x ∈ ids ↔ Nat.repr x ∈ s.names UPD name := by
      rw [hm2, List.mem_map]
      constructor
      · intro h; exact ⟨x, h, rfl⟩
      · rintro ⟨y, hy, h⟩; rw [Nat.repr_inj.mp h] at hy; exact hy
    rw [e1, Store.mem_names_iff]
    constructor
    · intro h
      obtain ⟨id, h4, h5⟩ := h3 _ h
      rw [Nat.repr_inj.mp h4]; exact h5
    · intro h
      obtain ⟨u, hu⟩ := files_get h2 x hx h
      show (s.get (updKey name x)).isSome = true
      rw [hu]; rfl
  unfold idsToLoad
  rw [hm1]
  simp only [Option.map_some]
  rw [load_eq_range ids hnd b mid.length hmem]

/-- the core of `persister_recovers`: from a store holding monitor `M` and exactly the update files
    `mid` above it, `readWithUpdates` over a healthy store returns `M` with `mid` applied in order. -/
theorem recover_of_store (cfg : Cfg St Upd) (rsc : Sched) (hok : ∀ i, rsc.ok i = true) (w : World St Upd)
    (name : String) (hn : cfg.nameOk name = true) (M : Mon St) (mid : List (Nat × Upd)) (sent : Bool)
    (h1 : w.store.get (monKey name) = some (.mon sent name M)) (h2 : Files w.store name M.id mid)
    (h3 : ∀ nm, (w.store.get (UPD, name, nm)).isSome = true → ∃ id, nm = Nat.repr id ∧ id ≤ M.id + mid.length)
    (hwf : w.store.WF) (hL : M.id + mid.length ≤ L) :
    (readWithUpdates cfg rsc w name).2 = .ok (fold cfg M mid) := by
  have hload := idsToLoad_of_store w.store name M.id mid h2 h3 hwf
  have hl : (kList rsc w UPD name).2 = some (w.store.names UPD name) := by simp [kList, hok]
  have hr : (kRead rsc (kList rsc w UPD name).1 (monKey name)).2 = some (.mon sent name M) := by
    simp only [kRead, hok, if_true]; exact h1
  have hd : decodeMon name (PVal.mon (Upd := Upd) sent name M) = .ok M := by simp [decodeMon]
  unfold readWithUpdates
  simp only [hn, Bool.not_true, Bool.false_eq_true, if_false]
  rw [show CHANNEL_MONITOR_UPDATE_PERSISTENCE_PRIMARY_NAMESPACE = UPD from rfl]
  simp only [hr, hd, hl, hload]
  rw [readAllUpd_files rsc hok name mid M.id _ (by rw [kRead_store, kList_store]; exact h2)]
  exact applyAll_files cfg M mid w.store name h2 hL

/-! ### the invariant of a node's life -/

theorem updNs_ne_monKey (a nm b : String) : ((UPD, a, nm) : Key) ≠ monKey b := by
  intro h
  have : CHANNEL_MONITOR_UPDATE_PERSISTENCE_PRIMARY_NAMESPACE = CHANNEL_MONITOR_PERSISTENCE_PRIMARY_NAMESPACE := by
    simp only [monKey] at h; injection h
  revert this; decide

/-- the store holds the monitor as of `pre`, the update files of `mid` right above it, and no other
    update key above them -/
def StoreInv (cfg : Cfg St Upd) (name : String) (m0 : Mon St) (s : PStore St Upd) (pre mid : List (Nat × Upd)) : Prop :=
  ∃ sent, s.get (monKey name) = some (.mon sent name (fold cfg m0 pre)) ∧
    Files s name (fold cfg m0 pre).id mid ∧
    (∀ nm, (s.get (UPD, name, nm)).isSome = true → ∃ id, nm = Nat.repr id ∧ id ≤ (fold cfg m0 pre).id + mid.length) ∧
    s.WF ∧ (fold cfg m0 pre).id + mid.length ≤ L ∧ (∀ x ∈ mid, persistUpdate x.1 cfg.maxPending = true)

theorem storeInv_delSafe {cfg : Cfg St Upd} {name : String} {m0 : Mon St} {s s' : PStore St Upd}
    {pre mid : List (Nat × Upd)} (h : StoreInv cfg name m0 s pre mid) (hd : DelSafe s s') (hwf : s'.WF) :
    StoreInv cfg name m0 s' pre mid := by
  obtain ⟨sent, h1, h2, h3, _, h5⟩ := h
  refine ⟨sent, (hd.mon name).trans h1, files_congr ?_ h2, ?_, hwf, h5⟩
  · intro id hlt _
    rcases hd (updKey name id) with h6 | ⟨_, nm, id', hsafe, hk⟩
    · exact h6
    · obtain ⟨rfl, rfl⟩ := updKey_inj.mp hk
      obtain ⟨sent', k, m, h7, h8⟩ := hsafe
      rw [h1] at h7
      injection h7 with h7; injection h7 with _ _ h9
      subst h9; omega
  · intro nm hs
    rcases hd (UPD, name, nm) with h6 | ⟨h6, _⟩
    · rw [h6] at hs; exact h3 nm hs
    · rw [h6] at hs; cases hs

theorem storeInv_fullWrite {cfg : Cfg St Upd} {name : String} {m0 : Mon St} {s : PStore St Upd}
    {pre mid : List (Nat × Upd)} (h : StoreInv cfg name m0 s pre mid) (us' : List (Nat × Upd))
    (hid : (fold cfg m0 pre).id + mid.length ≤ (fold cfg m0 us').id) (hL : (fold cfg m0 us').id ≤ L) (sentinel : Bool) :
    StoreInv cfg name m0 (s.put (monKey name) (.mon sentinel name (fold cfg m0 us'))) us' [] := by
  obtain ⟨_, _, _, h3, h4, _⟩ := h
  refine ⟨sentinel, Store.get_put_same _ _ _, trivial, ?_, Store.wf_put h4 _ _, by simpa using hL, by intro x hx; cases hx⟩
  intro nm hs
  rw [Store.get_put_ne _ _ (updNs_ne_monKey name nm name)] at hs
  obtain ⟨id, h5, h6⟩ := h3 nm hs
  exact ⟨id, h5, by simp only [List.length_nil, Nat.add_zero]; omega⟩

theorem storeInv_updWrite {cfg : Cfg St Upd} {name : String} {m0 : Mon St} {s : PStore St Upd}
    {pre mid : List (Nat × Upd)} (h : StoreInv cfg name m0 s pre mid) (uid : Nat) (u : Upd)
    (huid : uid = (fold cfg m0 pre).id + mid.length + 1) (hL : uid ≤ L) (hpu : persistUpdate uid cfg.maxPending = true) :
    StoreInv cfg name m0 (s.put (updKey name uid) (.upd uid u)) pre (mid ++ [(uid, u)]) := by
  obtain ⟨sent, h1, h2, h3, h4, _, h6⟩ := h
  refine ⟨sent, ?_, ?_, ?_, Store.wf_put h4 _ _, by simp only [List.length_append, List.length_singleton]; omega, ?_⟩
  rotate_right
  · intro x hx
    rcases List.mem_append.mp hx with hx | hx
    · exact h6 x hx
    · simp only [List.mem_singleton] at hx; subst hx; exact hpu
  · rw [Store.get_put_ne _ _ (monKey_ne_updKey _ _ _)]; exact h1
  · rw [files_append]
    refine ⟨files_congr ?_ h2, huid, Store.get_put_same _ _ _⟩
    intro id _ hle
    exact Store.get_put_ne _ _ (by intro h; have := (updKey_inj.mp h).2; omega)
  · intro nm hs
    by_cases hk : ((UPD, name, nm) : Key) = updKey name uid
    · refine ⟨uid, ?_, by simp only [List.length_append, List.length_singleton]; omega⟩
      simp only [updKey] at hk; injection hk with _ h5; injection h5
    · rw [Store.get_put_ne _ _ hk] at hs
      obtain ⟨id, h5, h6⟩ := h3 nm hs
      exact ⟨id, h5, by simp only [List.length_append, List.length_singleton]; omega⟩

def Inv (cfg : Cfg St Upd) (name : String) (m0 : Mon St) (r : Run St Upd) : Prop :=
  ∃ pre mid post, r.applied = pre ++ mid ++ post ∧ StoreInv cfg name m0 r.w.store pre mid ∧
    r.completed ≤ (pre ++ mid).length ∧
    (r.alive = true → post = [] ∧ r.completed = r.applied.length ∧ r.mem = fold cfg m0 r.applied)

theorem ite_le_succ (c : Prop) [Decidable c] (x : Nat) : (if c then x + 1 else x) ≤ x + 1 := by
  split <;> omega

theorem applyUpd_some {cfg : Cfg St Upd} {m m' : Mon St} {uid : Nat} {u : Upd} (h : applyUpd cfg m uid u = some m') :
    m' = ⟨uid, cfg.apply m.st u⟩ ∧ (uid = L ∨ (m.id + 1 = uid ∧ uid ≤ L)) := by
  unfold applyUpd at h
  split at h
  · rename_i h1; injection h with h; exact ⟨h.symm, Or.inl h1⟩
  · split at h
    · rename_i h2; injection h with h; exact ⟨h.symm, Or.inr h2⟩
    · cases h

theorem persistUpdate_ne_legacy {uid n : Nat} (h : persistUpdate uid n = true) : uid ≠ L := by
  unfold persistUpdate at h
  simp only [Bool.and_eq_true, decide_eq_true_eq] at h
  exact h.1.1

theorem inv_start (cfg : Cfg St Upd) (sc : Sched) (name : String) (s0 : PStore St Upd) (m0 : Mon St)
    (hwf : s0.WF) (hL : m0.id ≤ L)
    (hfresh : ∀ nm, (s0.get (UPD, name, nm)).isSome = true → ∃ id, nm = Nat.repr id ∧ id ≤ m0.id)
    (hst : (start cfg sc name s0 m0).started = true) : Inv cfg name m0 (start cfg sc name s0 m0) := by
  have hok : (persistNew cfg sc { store := s0 } name m0).2 = true := hst
  have hs : (start cfg sc name s0 m0).w.store = s0.put (monKey name) (.mon (sentinelWhen cfg.maxPending) name m0) :=
    kWrite_ok_store hok
  refine ⟨[], [], [], rfl, ?_, Nat.zero_le _, fun _ => ⟨rfl, rfl, rfl⟩⟩
  rw [hs]
  refine ⟨_, Store.get_put_same _ _ _, trivial, ?_, Store.wf_put hwf _ _, by simpa [fold] using hL, by intro x hx; cases hx⟩
  intro nm h
  rw [Store.get_put_ne _ _ (updNs_ne_monKey name nm name)] at h
  obtain ⟨id, h1, h2⟩ := hfresh nm h
  exact ⟨id, h1, by simpa [fold] using h2⟩

theorem stepEv_dead (cfg : Cfg St Upd) (sc : Sched) (name : String) (r : Run St Upd) (ev : Ev Upd)
    (h : r.alive = false) : stepEv cfg sc name r ev = r := by
  cases ev <;> simp [stepEv, h]

theorem inv_step (cfg : Cfg St Upd) (sc : Sched) (name : String) (m0 : Mon St) (r : Run St Upd) (ev : Ev Upd)
    (h : Inv cfg name m0 r) : Inv cfg name m0 (stepEv cfg sc name r ev) := by
  cases hal0 : r.alive
  · rw [stepEv_dead cfg sc name r ev hal0]; exact h
  have hal : r.alive = true := hal0
  clear hal0
  obtain ⟨pre, mid, post, happ, hst, hcomp, halive⟩ := h
  obtain ⟨rfl, hc, hmem⟩ := halive hal
  simp only [List.append_nil] at happ hcomp
  obtain ⟨_, _, hfiles, _, hwf, hbnd, _⟩ := id hst
  have hmemid : r.mem.id = (fold cfg m0 pre).id + mid.length := by
    rw [hmem, happ, fold_append]; exact files_fold_id cfg hfiles
  have hbound : r.mem.id ≤ L := by rw [hmemid]; exact hbnd
  cases ev with
  | cleanupStale lz =>
    simp only [stepEv, hal, Bool.not_true, Bool.false_eq_true, if_false]
    have hcl := clean_cleanupStale cfg sc lz r.w
    exact ⟨pre, mid, [], by simpa using happ, storeInv_delSafe hst hcl.delSafe (hcl.wf hwf), by simpa using hcomp,
      fun _ => ⟨rfl, hc, hmem⟩⟩
  | full =>
    simp only [stepEv, hal, Bool.not_true, Bool.false_eq_true, if_false]
    obtain ⟨hext, s1, hs1, hd⟩ := updatePersisted_full_spec cfg sc r.w name none r.mem (by intro _ _ h; cases h)
    have hwf' := hext.wf hwf
    rcases hs1 with hs1 | ⟨hs1, hfail⟩
    · subst hs1
      have h1 : StoreInv cfg name m0 (r.w.store.put (monKey name) (.mon (sentinelWhen cfg.maxPending) name r.mem)) r.applied [] := by
        rw [hmem]
        exact storeInv_fullWrite hst r.applied (by rw [← hmem, hmemid]; exact Nat.le_refl _) (by rw [← hmem]; exact hbound) _
      exact ⟨r.applied, [], [], by simp, storeInv_delSafe h1 hd hwf', by simp [hc], fun _ => ⟨rfl, hc, hmem⟩⟩
    · subst hs1
      refine ⟨pre, mid, [], by simpa using happ, storeInv_delSafe hst hd hwf', by simpa using hcomp, ?_⟩
      intro h; simp only at h; rw [hfail] at h; cases h
  | update uid u asFull =>
    simp only [stepEv, hal, Bool.not_true, Bool.false_eq_true, if_false]
    split
    · exact ⟨pre, mid, [], by simpa using happ, hst, by simpa using hcomp, fun h => by cases h⟩
    · rename_i m' hap
      obtain ⟨hm', hcase⟩ := applyUpd_some hap
      have huL : uid ≤ L := by
        rcases hcase with h | h
        · rw [h]; exact Nat.le_refl _
        · exact h.2
      have hge : r.mem.id ≤ uid := by
        rcases hcase with h | h
        · rw [h]; exact hbound
        · omega
      have hfold : m' = fold cfg m0 (r.applied ++ [(uid, u)]) := by
        rw [fold_append, ← hmem, hm']; rfl
      have hm'id : m'.id = uid := by rw [hm']
      by_cases hfile : asFull = false ∧ persistUpdate uid cfg.maxPending = true
      · -- an update file is written
        obtain ⟨haf, hpu⟩ := hfile
        have huid : uid = (fold cfg m0 pre).id + mid.length + 1 := by
          rcases hcase with h | h
          · exact absurd h (persistUpdate_ne_legacy hpu)
          · omega
        simp only [haf, Bool.false_eq_true, if_false, updatePersisted, hpu, if_true]
        rcases kWrite_cases sc r.w (updKey name uid) (.upd uid u) with hs | ⟨hs, hfail⟩
        · refine ⟨pre, mid ++ [(uid, u)], [], by simp [happ], ?_, ?_, ?_⟩
          · rw [hs]; exact storeInv_updWrite hst uid u huid huL hpu
          · simp only [List.length_append, List.length_singleton] at hcomp ⊢
            split <;> omega
          · intro hok
            simp only at hok
            refine ⟨rfl, ?_, hfold⟩
            simp only [hok, if_true, List.length_append, List.length_singleton]; omega
        · refine ⟨pre, mid, [(uid, u)], by simp [happ], by rw [hs]; exact hst, ?_, ?_⟩
          · simp only [hfail, Bool.false_eq_true, if_false]; exact hcomp
          · intro hok; simp only at hok; rw [hfail] at hok; cases hok
      · -- the full monitor is written
        have hfull : ∀ a b, (if asFull = true then none else some (uid, u)) = some (a, b) →
            persistUpdate a cfg.maxPending = false := by
          intro a b hab
          cases haf : asFull
          · simp only [haf, Bool.false_eq_true, if_false] at hab
            injection hab with hab; injection hab with h1 _
            subst h1
            cases hp : persistUpdate uid cfg.maxPending
            · rfl
            · exact absurd ⟨haf, hp⟩ hfile
          · simp [haf] at hab
        obtain ⟨hext, s1, hs1, hd⟩ := updatePersisted_full_spec cfg sc r.w name _ m' hfull
        have hwf' := hext.wf hwf
        rcases hs1 with hs1 | ⟨hs1, hfail⟩
        · subst hs1
          have h1 : StoreInv cfg name m0 (r.w.store.put (monKey name) (.mon (sentinelWhen cfg.maxPending) name m'))
              (r.applied ++ [(uid, u)]) [] := by
            rw [hfold]
            exact storeInv_fullWrite hst _ (by rw [← hfold, hm'id, ← hmemid]; exact hge) (by rw [← hfold, hm'id]; exact huL) _
          refine ⟨r.applied ++ [(uid, u)], [], [], by simp, storeInv_delSafe h1 hd hwf', ?_, ?_⟩
          · simp only [List.append_nil, List.length_append, List.length_singleton]
            exact Nat.le_trans (ite_le_succ _ _) (by omega)
          · intro hok
            simp only at hok
            refine ⟨rfl, ?_, hfold⟩
            simp only [hok, if_true, List.length_append, List.length_singleton]; omega
        · subst hs1
          refine ⟨pre, mid, [(uid, u)], by simp [happ], storeInv_delSafe hst hd hwf', ?_, ?_⟩
          · simp only [hfail, Bool.false_eq_true, if_false]; exact hcomp
          · intro hok; simp only at hok; rw [hfail] at hok; cases hok

theorem stepEv_started (cfg : Cfg St Upd) (sc : Sched) (name : String) (r : Run St Upd) (ev : Ev Upd) :
    (stepEv cfg sc name r ev).started = r.started := by
  cases ev <;> simp only [stepEv] <;> split <;> try rfl
  split <;> rfl

theorem inv_runHistory (cfg : Cfg St Upd) (sc : Sched) (name : String) (s0 : PStore St Upd) (m0 : Mon St)
    (evs : List (Ev Upd)) (hwf : s0.WF) (hL : m0.id ≤ L)
    (hfresh : ∀ nm, (s0.get (UPD, name, nm)).isSome = true → ∃ id, nm = Nat.repr id ∧ id ≤ m0.id)
    (hst : (runHistory cfg sc name s0 m0 evs).started = true) :
    Inv cfg name m0 (runHistory cfg sc name s0 m0 evs) := by
  have hst0 : (start cfg sc name s0 m0).started = true := by
    unfold runHistory at hst
    generalize start cfg sc name s0 m0 = r at hst
    induction evs generalizing r with
    | nil => exact hst
    | cons e rest ih => rw [← stepEv_started cfg sc name r e]; exact ih _ hst
  have h0 := inv_start cfg sc name s0 m0 hwf hL hfresh hst0
  clear hst hst0
  unfold runHistory
  generalize start cfg sc name s0 m0 = r at h0
  induction evs generalizing r with
  | nil => exact h0
  | cons e rest ih => exact ih _ (inv_step cfg sc name m0 r e h0)

/-! ### the window of update files above the stored monitor -/

theorem files_mem {s : PStore St Upd} {name : String} {b : Nat} {mid : List (Nat × Upd)} (hf : Files s name b mid)
    (d : Nat) (h1 : 1 ≤ d) (h2 : d ≤ mid.length) : ∃ x ∈ mid, x.1 = b + d := by
  induction mid generalizing b d with
  | nil => simp at h2; omega
  | cons y r ih =>
    obtain ⟨h3, _, h5⟩ := hf
    by_cases h6 : d = 1
    · exact ⟨y, List.mem_cons_self .., by omega⟩
    · obtain ⟨x, hx, hx2⟩ := ih h5 (d - 1) (by omega) (by simp only [List.length_cons] at h2; omega)
      exact ⟨x, List.mem_cons_of_mem _ hx, by omega⟩

theorem multiple_in_window (b n : Nat) (hn : n ≠ 0) : ∃ d, 1 ≤ d ∧ d ≤ n ∧ (b + d) % n = 0 := by
  refine ⟨n - b % n, ?_, by omega, ?_⟩
  · have := Nat.mod_lt b (Nat.pos_of_ne_zero hn); omega
  · have h1 := Nat.div_add_mod b n
    have h2 := Nat.mod_lt b (Nat.pos_of_ne_zero hn)
    have : b + (n - b % n) = n * (b / n) + n := by omega
    rw [this, Nat.add_mod_right, Nat.mul_mod_right]

theorem window_le {s : PStore St Upd} {name : String} {b n : Nat} {mid : List (Nat × Upd)} (hf : Files s name b mid)
    (hp : ∀ x ∈ mid, persistUpdate x.1 n = true) : mid.length ≤ n - 1 := by
  by_cases hn : n = 0
  · subst hn
    cases mid with
    | nil => simp
    | cons y r => have := hp y (List.mem_cons_self ..); simp [persistUpdate] at this
  · obtain ⟨d, h1, h2, h3⟩ := multiple_in_window b n hn
    by_cases h4 : d ≤ mid.length
    · obtain ⟨x, hx, hx2⟩ := files_mem hf d h1 h4
      have := hp x hx
      simp only [persistUpdate, Bool.and_eq_true, decide_eq_true_eq] at this
      rw [hx2] at this
      exact absurd h3 this.2
    · omega

end Ldk.MonP

namespace Ldk.Kv
variable {ν : Type}

theorem validKey_iff (k : Key) : validKey k = true ↔ checkKey k = .ok () := by
  unfold validKey
  cases h : checkKey k <;> simp

/-- effect of one op on one key, in terms of the spec step of `lastWrite` -/
theorem get_apply (s : Store ν) (op : KvOp ν) (k : Key) :
    ((KvOp.apply s op).1).get k =
      (match op with
       | .write k' v => if k' = k ∧ validKey k' then some v else s.get k
       | .remove k' _ => if k' = k ∧ validKey k' then none else s.get k
       | _ => s.get k) := by
  cases op with
  | write k' v =>
    simp only [KvOp.apply]
    cases h : checkKey k' with
    | error e => simp [validKey, h]
    | ok u =>
      have hv : validKey k' = true := by simp [validKey, h]
      by_cases hk : k' = k
      · subst hk; simp [hv, Store.get_put_same]
      · have : k ≠ k' := fun h => hk h.symm
        simp [hk, Store.get_put_ne _ _ this]
  | remove k' lz =>
    simp only [KvOp.apply]
    cases h : checkKey k' with
    | error e => simp [validKey, h]
    | ok u =>
      have hv : validKey k' = true := by simp [validKey, h]
      by_cases hk : k' = k
      · subst hk; simp [hv, Store.get_del_same]
      · have : k ≠ k' := fun h => hk h.symm
        simp [hk, Store.get_del_ne _ this]
  | read k' =>
    simp only [KvOp.apply]
    cases checkKey k' with
    | error e => rfl
    | ok u => cases s.get k' <;> rfl
  | list p sn =>
    simp only [KvOp.apply]
    cases checkNs p sn <;> rfl

theorem get_run_aux (ops : List (KvOp ν)) (k : Key) : ∀ (s : Store ν) (acc : Option ν), s.get k = acc →
    (run s ops).get k = ops.foldl (fun acc op => match op with
      | .write k' v => if k' = k ∧ validKey k' then some v else acc
      | .remove k' _ => if k' = k ∧ validKey k' then none else acc
      | _ => acc) acc := by
  induction ops with
  | nil => intro s acc h; exact h
  | cons op r ih =>
    intro s acc h
    simp only [run, List.foldl_cons]
    apply ih
    rw [get_apply, h]

theorem get_run (ops : List (KvOp ν)) (k : Key) : (run [] ops).get k = lastWrite ops k :=
  get_run_aux ops k [] none rfl

theorem apply_wf {s : Store ν} (h : s.WF) (op : KvOp ν) : (KvOp.apply s op).1.WF := by
  cases op with
  | write k v => simp only [KvOp.apply]; cases checkKey k <;> simp [h, Store.wf_put]
  | remove k lz => simp only [KvOp.apply]; cases checkKey k <;> simp [h, Store.wf_del]
  | read k =>
    simp only [KvOp.apply]
    cases checkKey k with
    | error e => exact h
    | ok u => cases s.get k <;> exact h
  | list p sn => simp only [KvOp.apply]; cases checkNs p sn <;> exact h

theorem run_wf (ops : List (KvOp ν)) : ∀ (s : Store ν), s.WF → (run s ops).WF := by
  induction ops with
  | nil => intro s h; exact h
  | cons op r ih => intro s h; exact ih _ (apply_wf h op)

theorem run_append (s : Store ν) (a b : List (KvOp ν)) : run s (a ++ b) = run (run s a) b := by
  simp [run, List.foldl_append]

end Ldk.Kv
