/- C17 — refinement: the model the driver runs (`Ldk.Gossip.Impl.*`, every decision a call of
   Generated/Gossip.lean, i.e. of text re-translated from gossip.rs on every run) computes exactly
   the hand-written specification (`Ldk.Gossip.*`) that Proofs/Gossip.lean reasons about.
   Each lemma about a generated definition states what the Rust expression must mean; a flipped
   comparison / wrong field / wrong bit in the Rust text makes the regenerated definition fail it. -/
import LdkModel.Model.Gossip
namespace Ldk.Gossip
open Gen

/-! ### facts about the generated decisions (these break when the Rust text changes meaning) -/

theorem gen_nodeAnnOlder (a b : Nat) : nodeAnnOlder a b = decide (a > b) := rfl
theorem gen_nodeAnnSame (a b : Nat) : nodeAnnSame a b = decide (a = b) := rfl
theorem gen_nodeAnnPreDup (a b : Nat) : nodeAnnPreDup a b = decide (a = b) := rfl
theorem gen_nodeAnnShouldRelay0 : nodeAnnShouldRelay 0 0 = true := by decide
theorem gen_annIdsUnsorted (a b : Nat) : annIdsUnsorted a b = decide (a ≥ b) := rfl
theorem gen_partialIdsUnsorted (a b : Nat) : partialIdsUnsorted a b = decide (a ≥ b) := rfl
theorem gen_annSameBitcoinKeys (a b : Nat) : annSameBitcoinKeys a b = decide (a = b) := rfl
theorem gen_annChainMismatch (a b : Nat) : annChainMismatch a b = decide (a ≠ b) := rfl
theorem gen_annKnownValidated (c : Option Nat) : annKnownValidated c = c.isSome := rfl
theorem gen_annSameNodes (a b c d : Nat) : annSameNodes a b c d = (decide (a = c) && decide (b = d)) := rfl
theorem gen_annNoLookup (o : Option Nat) : annNoLookup o = o.isNone := rfl
theorem gen_annRecentlyRemoved (rc rn : Nat → Bool) (s a b : Nat) :
    annRecentlyRemoved rc rn s a b = (rc s || rn a || rn b) := rfl
theorem gen_annKeepMessage0 : annKeepMessage 0 = true := by decide
theorem gen_replaceExisting (o : Option Nat) : replaceExisting o = o.isSome := rfl
theorem gen_updDontForward : updDontForward 1 = false ∧ updDontForward 3 = true := by decide
theorem gen_updChanEnabled : updChanEnabled 0 = true ∧ updChanEnabled 1 = true ∧ updChanEnabled 2 = false ∧
    updChanEnabled 3 = false := by decide
theorem gen_updChainMismatch (a b : Nat) : updChainMismatch a b = decide (a ≠ b) := rfl
theorem gen_updHtlcMaxTooLarge (m : Nat) : updHtlcMaxTooLarge m = decide (m > MAX_VALUE_MSAT) := rfl
theorem gen_updOlder (a b : Nat) : updOlder a b = decide (a > b) := rfl
theorem gen_updSame (a b : Nat) : updSame a b = decide (a = b) := rfl
theorem gen_updCapacityBad (cap m : Nat) :
    updCapacityBad cap m = (decide (cap > MAX_VALUE_MSAT / 1000) || decide (m > cap * 1000)) := rfl
theorem gen_updDir : (updDirCheck 0 = false ∧ updDirCheck 1 = true ∧ updDirCheck 2 = false ∧ updDirCheck 3 = true) ∧
    (updDirSigner 0 = false ∧ updDirSigner 1 = true ∧ updDirSigner 2 = false ∧ updDirSigner 3 = true) ∧
    (updDirStore 0 = false ∧ updDirStore 1 = true ∧ updDirStore 2 = false ∧ updDirStore 3 = true) := by decide
theorem gen_updKeepMessage0 : updKeepMessage 0 = true := by decide
theorem gen_failOtherNode (id a b : Nat) : failOtherNode id a b = if id = a then b else a := by
  unfold failOtherNode; by_cases h : id = a <;> simp [h]
theorem gen_pruneTimeTooLarge (t : Nat) : pruneTimeTooLarge t = decide (t > U32_MAX) := rfl
theorem gen_pruneTimeTooSmall (t : Nat) : pruneTimeTooSmall t = decide (t < STALE_CHANNEL_UPDATE_AGE_LIMIT_SECS) := rfl
theorem gen_pruneMinTime (t : Nat) : pruneMinTime t = t - STALE_CHANNEL_UPDATE_AGE_LIMIT_SECS := rfl
theorem gen_pruneDir12Stale (d : Option Nat) (m : Nat) :
    pruneDir12Stale d m = (match d with | some x => decide (x < m) | none => false) := by
  cases d <;> simp [pruneDir12Stale]
theorem gen_pruneDir21Stale (d : Option Nat) (m : Nat) :
    pruneDir21Stale d m = (match d with | some x => decide (x < m) | none => false) := by
  cases d <;> simp [pruneDir21Stale]
theorem gen_pruneDirMissing (a b : Option Nat) : pruneDirMissing a b = (a.isNone || b.isNone) := rfl
theorem gen_pruneAnnOld (r m : Nat) : pruneAnnOld r m = decide (r < m) := rfl
theorem gen_pruneKeepTracking (t time : Nat) :
    pruneKeepTracking t time = decide (t - time < REMOVED_ENTRIES_TRACKING_AGE_LIMIT_SECS) := rfl
theorem gen_actions : Reject.action .older = "IgnoreDuplicateGossip" ∧ Reject.action .sameTimestamp = "IgnoreDuplicateGossip" ∧
    Reject.action .alreadyKnown = "IgnoreDuplicateGossip" ∧ Reject.action .nodeIdsNotSorted = "IgnoreError" ∧
    Reject.action .unknownChannel = "IgnoreAndLog" ∧ Reject.action .badSig = "SendWarningMessage" := by decide

/-! ### rapid gossip sync: what the translated expressions of processing.rs must mean -/

theorem gen_rgsBackdated (t : Nat) : rgsBackdated t = t - 604800 := rfl
theorem gen_rgsSnapshotStale (l t : Nat) : rgsSnapshotStale l t = decide (l < t - 1209600) := rfl
theorem gen_rgsStdFlags (f : Nat) : rgsStdFlags f = f &&& 3 := rfl
theorem gen_rgsBits : (rgsIncremental 128 = true ∧ rgsIncremental 127 = false) ∧ (rgsHasCltv 64 = true ∧ rgsHasCltv 191 = false) ∧
    (rgsHasHtlcMin 32 = true ∧ rgsHasHtlcMin 223 = false) ∧ (rgsHasFeeBase 16 = true ∧ rgsHasFeeBase 239 = false) ∧
    (rgsHasFeeProp 8 = true ∧ rgsHasFeeProp 247 = false) ∧ (rgsHasHtlcMax 4 = true ∧ rgsHasHtlcMax 251 = false) := by decide
theorem gen_rgsNodeBits : (rgsNodeModified 2 = false ∧ rgsNodeModified 3 = false ∧ rgsNodeModified 131 = false) ∧
    (rgsNodeModified 66 = true ∧ rgsNodeModified 6 = true ∧ rgsNodeModified 10 = true ∧ rgsNodeModified 59 = true) ∧
    (rgsNodeIsReminder 64 = true ∧ rgsNodeIsReminder 191 = false) ∧ (rgsNodeHasAddresses 4 = true ∧ rgsNodeHasAddresses 251 = false) ∧
    (rgsNodeFeatureMarker 56 = 7 ∧ rgsNodeFeatureMarker 8 = 1 ∧ rgsNodeFeatureMarker 199 = 0) ∧
    (rgsNodeHasExtra 128 = true ∧ rgsNodeHasExtra 127 = false) ∧ rgsNodeKeyParity 255 = 3 := by decide
theorem gen_dirInfo : dirInfoIsTwoToOne 0 = false ∧ dirInfoIsTwoToOne 1 = true ∧ dirInfoIsTwoToOne 2 = false ∧
    dirInfoIsTwoToOne 131 = true := by decide
/-- the errors a snapshot skips are exactly the duplicate ones -/
theorem gen_rgs_skipped_errors : Reject.action .alreadyKnown = "IgnoreDuplicateGossip" ∧
    Reject.action .nodeIdsNotSorted ≠ "IgnoreDuplicateGossip" ∧ Reject.action .rgsStale = "IgnoreError" := by decide

/-! ### flags -/

theorem channelFlags_cases (u : ChanUpd) :
    u.channelFlags = (if u.dir then (if u.disabled then 3 else 1) else (if u.disabled then 2 else 0)) := by
  unfold ChanUpd.channelFlags; cases u.dir <;> cases u.disabled <;> rfl

theorem dirCheck_flags (u : ChanUpd) : updDirCheck u.channelFlags = u.dir := by
  rw [channelFlags_cases]; cases u.dir <;> cases u.disabled <;> simp [gen_updDir]
theorem dirSigner_flags (u : ChanUpd) : updDirSigner u.channelFlags = u.dir := by
  rw [channelFlags_cases]; cases u.dir <;> cases u.disabled <;> simp [gen_updDir]
theorem dirStore_flags (u : ChanUpd) : updDirStore u.channelFlags = u.dir := by
  rw [channelFlags_cases]; cases u.dir <;> cases u.disabled <;> simp [gen_updDir]
theorem enabled_flags (u : ChanUpd) : updChanEnabled u.channelFlags = !u.disabled := by
  rw [channelFlags_cases]; cases u.dir <;> cases u.disabled <;> simp [gen_updChanEnabled]
theorem dontForward_flags (u : ChanUpd) : updDontForward u.messageFlags = u.dontForward := by
  unfold ChanUpd.messageFlags; cases u.dontForward
  · exact gen_updDontForward.1
  · exact gen_updDontForward.2

/-! ### refinement, handler by handler -/
namespace Impl

theorem chainMis_upd (ok : Bool) : updChainMismatch (chainId ok) 0 = !ok := by
  cases ok <;> simp [gen_updChainMismatch, chainId]
theorem chainMis_ann (ok : Bool) : annChainMismatch (chainId ok) 0 = !ok := by
  cases ok <;> simp [gen_annChainMismatch, chainId]

theorem chanAnnPre_eq (g : Graph) (a : ChanAnn) : Impl.chanAnnPre g a = Gossip.chanAnnPre g a := by
  unfold Impl.chanAnnPre Gossip.chanAnnPre
  rw [gen_annIdsUnsorted, gen_annSameBitcoinKeys, chainMis_ann]
  have hb : decide (1 = if a.sameBtc = true then 1 else 2) = a.sameBtc := by cases a.sameBtc <;> rfl
  rw [hb]
  by_cases h1 : a.n1 ≥ a.n2
  · simp [h1]
  · simp only [h1, decide_false, Bool.false_eq_true, if_false]
    cases a.sameBtc
    · cases a.chainOk
      · simp
      · simp only [Bool.false_eq_true, if_false, Bool.not_true]
        cases g.channels.get a.scid with
        | none => rfl
        | some c =>
          simp only [gen_annKnownValidated, gen_annSameNodes, gen_annNoLookup]
          cases c.capacity with
          | some v => simp
          | none => cases a.utxo <;> simp
    · simp

theorem addChannelBetweenNodes_eq (g : Graph) (scid : Nat) (c : ChanInfo) (v : Option Nat) :
    Impl.addChannelBetweenNodes g scid c v = Gossip.addChannelBetweenNodes g scid c v.isSome := by
  unfold Impl.addChannelBetweenNodes Gossip.addChannelBetweenNodes
  rw [gen_replaceExisting]

theorem getL_of_mem {α : Type} {l : List (Nat × α)} (hs : KeysLt l) {k : Nat} {v : α} (h : (k, v) ∈ l) :
    getL l k = some v := by
  induction l with
  | nil => cases h
  | cons hd t ih =>
    obtain ⟨k', v'⟩ := hd
    have hp := List.pairwise_cons.1 hs
    rcases List.mem_cons.1 h with heq | hin
    · cases heq; simp [getL]
    · have hlt : k' < k := hp.1 (k, v) hin
      have hne : k ≠ k' := by omega
      simp only [getL, hne, if_false]
      exact ih hp.2 hin

theorem SMap.get_of_mem {α : Type} (m : SMap α) {k : Nat} {v : α} (h : (k, v) ∈ m.l) : m.get k = some v :=
  getL_of_mem m.sorted h

/-! ### signature checks: the generated (signature, key) list is the BOLT 7 pairing, complete and exact -/

/-- the check list translated from verify_channel_announcement is exactly: every signature field of the
    message, each against its own key -/
theorem chanAnnSigChecks_exact : Gen.chanAnnSigChecks = Gen.CaSig.all.map fun s => (s, s.ownKey) := by decide

theorem nodeAnnSigChecks_exact : Gen.nodeAnnSigChecks = Gen.NaSig.all.map fun s => (s, s.ownKey) := by decide

theorem caSig_all_complete (s : Gen.CaSig) : s ∈ Gen.CaSig.all := by cases s <;> decide

theorem naSig_all_complete (s : Gen.NaSig) : s ∈ Gen.NaSig.all := by cases s <;> decide

/-- verify_channel_announcement accepts iff EVERY signature of the message verifies against its own key -/
theorem verifyChanAnn_iff (w : CaWire) :
    verifyChanAnn w = true ↔ ∀ s : Gen.CaSig, (w.sig s).verifies (w.key s.ownKey) = true := by
  unfold verifyChanAnn
  rw [chanAnnSigChecks_exact, List.all_map, List.all_eq_true]
  constructor
  · intro h s; exact h s (caSig_all_complete s)
  · intro h s _; exact h s

theorem verifyNodeAnn_iff (w : NaWire) :
    verifyNodeAnn w = true ↔ ∀ s : Gen.NaSig, (w.sig s).verifies (w.key s.ownKey) = true := by
  unfold verifyNodeAnn
  rw [nodeAnnSigChecks_exact, List.all_map, List.all_eq_true]
  constructor
  · intro h s; exact h s (naSig_all_complete s)
  · intro h s _; exact h s

theorem ChanAnn.wire_verifies (a : ChanAnn) (s : Gen.CaSig) :
    ((a.wire).sig s).verifies ((a.wire).key s.ownKey) = a.flag s := by
  simp only [ChanAnn.wire, SigBy.verifies, Bool.true_and]
  cases h : a.flag s
  · cases s <;> simp [Gen.CaSig.ownKey, ChanAnn.keyOf]
  · simp

theorem chanAnnSigsVerify_eq (a : ChanAnn) : Impl.chanAnnSigsVerify a = a.sigsOk := by
  rw [Bool.eq_iff_iff]
  unfold Impl.chanAnnSigsVerify
  rw [verifyChanAnn_iff]
  simp only [ChanAnn.wire_verifies, ChanAnn.sigsOk, Bool.and_eq_true]
  constructor
  · intro h
    exact ⟨⟨⟨h .node_signature_1, h .node_signature_2⟩, h .bitcoin_signature_1⟩, h .bitcoin_signature_2⟩
  · intro h s
    cases s
    · exact h.1.1.1
    · exact h.1.1.2
    · exact h.1.2
    · exact h.2

theorem nodeAnnSigVerifies_eq (n : NodeAnn) : Impl.nodeAnnSigVerifies n = n.sigOk := by
  rw [Bool.eq_iff_iff]
  unfold Impl.nodeAnnSigVerifies
  rw [verifyNodeAnn_iff]
  constructor
  · intro h
    have := h .signature
    simp only [NodeAnn.wire, SigBy.verifies, Gen.NaSig.ownKey, Bool.true_and] at this
    cases hs : n.sigOk
    · simp [hs] at this
    · rfl
  · intro h s
    cases s
    simp [NodeAnn.wire, SigBy.verifies, Gen.NaSig.ownKey, h]

theorem applyChanAnn_eq (g : Graph) (a : ChanAnn) : Impl.applyChanAnn g a = Gossip.applyChanAnn g a := by
  unfold Impl.applyChanAnn Gossip.applyChanAnn
  rw [chanAnnPre_eq, gen_annRecentlyRemoved, chanAnnSigsVerify_eq]
  simp only [addChannelBetweenNodes_eq, noExcess, gen_annKeepMessage0, Bool.and_true, Option.isSome]

theorem applyChanPartial_eq (g : Graph) (scid : Nat) (cap : Option Nat) (recv n1 n2 : Nat) :
    Impl.applyChanPartial g scid cap recv n1 n2 = Gossip.applyChanPartial g scid cap recv n1 n2 := by
  unfold Impl.applyChanPartial Gossip.applyChanPartial
  rw [gen_partialIdsUnsorted, addChannelBetweenNodes_eq]
  by_cases h : n1 ≥ n2 <;> simp [h]

theorem checkUpdLatest_eq (t : Option UpdInfo) (ts : Nat) : Impl.checkUpdLatest t ts = Gossip.checkUpdLatest t ts := by
  unfold Impl.checkUpdLatest Gossip.checkUpdLatest
  cases t with
  | none => rfl
  | some e =>
    simp only [gen_updOlder, gen_updSame, decide_eq_true_eq]

theorem checkMsgSanity_eq (c : ChanInfo) (u : ChanUpd) : Impl.checkMsgSanity c u = Gossip.checkMsgSanity c u := by
  unfold Impl.checkMsgSanity Gossip.checkMsgSanity
  simp only [dirCheck_flags, checkUpdLatest_eq, gen_updCapacityBad, Bool.or_eq_true, decide_eq_true_eq]

theorem updInfo_eq (u : ChanUpd) : Impl.updInfo u = u.info := by
  unfold Impl.updInfo ChanUpd.info
  simp only [enabled_flags, noExcess, gen_updKeepMessage0, Bool.and_true]

theorem updChan_eq (c : ChanInfo) (u : ChanUpd) : Impl.updChan c u = Gossip.updChan c u := by
  unfold Impl.updChan Gossip.updChan
  simp only [checkMsgSanity_eq, dirSigner_flags, dirStore_flags, updInfo_eq]

theorem applyChanUpd_eq (g : Graph) (u : ChanUpd) : Impl.applyChanUpd g u = Gossip.applyChanUpd g u := by
  unfold Impl.applyChanUpd Gossip.applyChanUpd
  simp only [dontForward_flags, chainMis_upd, gen_updHtlcMaxTooLarge, updChan_eq, decide_eq_true_eq]

theorem updNode_eq (ni : NodeInfo) (n : NodeAnn) : Impl.updNode ni n = Gossip.updNode ni n := by
  unfold Impl.updNode Gossip.updNode
  simp only [noExcess, gen_nodeAnnShouldRelay0, Bool.and_true, gen_nodeAnnOlder, gen_nodeAnnSame, decide_eq_true_eq]

theorem applyNodeAnn_eq (g : Graph) (n : NodeAnn) : Impl.applyNodeAnn g n = Gossip.applyNodeAnn g n := by
  unfold Impl.applyNodeAnn Gossip.applyNodeAnn
  rw [nodeAnnSigVerifies_eq]
  cases g.nodes.get n.node with
  | none => rfl
  | some ni =>
    simp only [updNode_eq]
    have : preDup ni.ann n.ts = (ni.ann.map (·.lastUpdate) == some n.ts) := by
      unfold preDup
      cases ni.ann with
      | none => rfl
      | some a =>
        simp only [gen_nodeAnnPreDup, Option.map]
        by_cases h : a.lastUpdate = n.ts <;> simp [h]
    rw [this]

theorem nodeFailStep_eq (id now : Nat) (st : SMap ChanInfo × SMap NodeInfo × SMap Nat) (scid : Nat) :
    Impl.nodeFailStep id now st scid = Gossip.nodeFailStep id now st scid := by
  unfold Impl.nodeFailStep Gossip.nodeFailStep
  simp only [gen_failOtherNode]

theorem nodeFailPermanent_eq (g : Graph) (id now : Nat) : Impl.nodeFailPermanent g id now = Gossip.nodeFailPermanent g id now := by
  unfold Impl.nodeFailPermanent Gossip.nodeFailPermanent
  have : Impl.nodeFailStep id now = Gossip.nodeFailStep id now := by
    funext st scid; exact nodeFailStep_eq id now st scid
  rw [this]

theorem pruneDir12_eq (minT : Nat) (d : Option UpdInfo) :
    (if pruneDir12Stale (lastUpd d) minT then none else d) = pruneDir minT d := by
  rw [gen_pruneDir12Stale]; unfold pruneDir lastUpd
  cases d with
  | none => rfl
  | some u => simp only [Option.map]; by_cases h : u.lastUpdate < minT <;> simp [h]

theorem pruneDir21_eq (minT : Nat) (d : Option UpdInfo) :
    (if pruneDir21Stale (lastUpd d) minT then none else d) = pruneDir minT d := by
  rw [gen_pruneDir21Stale]; unfold pruneDir lastUpd
  cases d with
  | none => rfl
  | some u => simp only [Option.map]; by_cases h : u.lastUpdate < minT <;> simp [h]

theorem lastUpd_isNone (d : Option UpdInfo) : (lastUpd d).isNone = d.isNone := by cases d <;> rfl

theorem pruneChan_eq (minT : Nat) (c : ChanInfo) : Impl.pruneChan minT c = Gossip.pruneChan minT c := by
  unfold Impl.pruneChan Gossip.pruneChan
  simp only [pruneDir12_eq, pruneDir21_eq, gen_pruneDirMissing, gen_pruneAnnOld, lastUpd_isNone]

theorem prunedScid_eq (g : Graph) (minT scid : Nat) : Impl.prunedScid g minT scid = Gossip.prunedScid g minT scid := by
  unfold Impl.prunedScid Gossip.prunedScid
  simp only [pruneChan_eq]

theorem pruneNode_eq (g : Graph) (minT : Nat) (ni : NodeInfo) : Impl.pruneNode g minT ni = Gossip.pruneNode g minT ni := by
  unfold Impl.pruneNode Gossip.pruneNode
  simp only [prunedScid_eq]

theorem keepTracking_eq (t time : Nat) : Impl.keepTracking t time = Gossip.keepTracking t time := by
  unfold Impl.keepTracking Gossip.keepTracking
  simp only [gen_pruneKeepTracking, decide_eq_true_eq]

theorem pruneAt_eq (g : Graph) (t : Nat) : Impl.pruneAt g t = Gossip.pruneAt g t := by
  unfold Impl.pruneAt Gossip.pruneAt
  have e1 : Impl.prunedScid g = Gossip.prunedScid g := by funext m s; exact prunedScid_eq g m s
  have e2 : Impl.pruneChan = Gossip.pruneChan := by funext m c; exact pruneChan_eq m c
  have e3 : Impl.pruneNode g = Gossip.pruneNode g := by funext m n; exact pruneNode_eq g m n
  have e4 : Impl.keepTracking = Gossip.keepTracking := by funext a b; exact keepTracking_eq a b
  simp only [gen_pruneTimeTooLarge, gen_pruneTimeTooSmall, gen_pruneMinTime, e1, e2, e3, e4, decide_eq_true_eq]

theorem applyMsg_eq (g : Graph) (m : Msg) : Impl.applyMsg g m = Gossip.applyMsg g m := by
  cases m with
  | chanAnn a => exact applyChanAnn_eq g a
  | chanUpd u => exact applyChanUpd_eq g u
  | nodeAnn n => exact applyNodeAnn_eq g n

theorem step_eq (g : Graph) (op : Op) : Impl.step g op = Gossip.step g op := by
  cases op with
  | msg m => exact applyMsg_eq g m
  | chanPartial s c r a b => exact applyChanPartial_eq g s c r a b
  | failPermanent s n => rfl
  | nodeFailPermanent i n => simp only [Impl.step, Gossip.step, nodeFailPermanent_eq]
  | pruneAt t => simp only [Impl.step, Gossip.step, pruneAt_eq]

theorem runMsgs_eq (g : Graph) (ms : List Msg) : Impl.runMsgs g ms = Gossip.runMsgs g ms := by
  unfold Impl.runMsgs Gossip.runMsgs
  have : (fun g m => (Impl.applyMsg g m).1) = (fun g m => (Gossip.applyMsg g m).1) := by
    funext g m; rw [applyMsg_eq]
  rw [this]

theorem run_eq (g : Graph) (ops : List Op) : Impl.run g ops = Gossip.run g ops := by
  unfold Impl.run Gossip.run
  have : (fun g o => (Impl.step g o).1) = (fun g o => (Gossip.step g o).1) := by
    funext g o; rw [step_eq]
  rw [this]

end Impl
end Ldk.Gossip
